/* Reproducer for: hwloc_topology_get_default_nodeset() second loop ("find more nodes to cover the
 * entire topology cpuset") tests bit `i` (rank in the array sorted by OS index) instead of
 * nodes[i]->os_index to know whether a node was already taken.  When OS indexes are not 0..n-1,
 * a node that is needed to cover some cores is skipped because the bit of its *rank* is set.
 *
 * Two packages, one NUMA node each, OS indexes 1 and 2, the second one has another subtype:
 * the first loop takes node P#1 only (same-subtype rule); the second loop should add node P#2
 * (non-empty, does not intersect) so that PUs 2-3 keep a local node, but bit 1 (= rank of P#2) is
 * set, so it is skipped.   expected: default nodeset 1-2   observed: 1
 * (The result is still a set of existing nodes with disjoint cpusets; what is lost is the documented
 * aim "any core that had some local NUMA node(s) should still have one in the default nodeset".)
 *
 * build:  gcc -I/repo/include repro.c /repo/hwloc/.libs/libhwloc.so -Wl,-rpath,/repo/hwloc/.libs -o repro
 */
#include <hwloc.h>
#include <stdio.h>
#include <stdlib.h>

int main(void)
{
  hwloc_topology_t topo;
  hwloc_bitmap_t set = hwloc_bitmap_alloc();
  char *s;
  hwloc_topology_init(&topo);
  hwloc_topology_set_synthetic(topo, "pack:2 [numa(indexes=1,2)] pu:2");
  hwloc_topology_load(topo);
  hwloc_obj_set_subtype(topo, hwloc_get_numanode_obj_by_os_index(topo, 2), "HBM");
  if (hwloc_topology_get_default_nodeset(topo, set, 0) < 0)
    return 1;
  hwloc_bitmap_list_asprintf(&s, set);
  printf("default nodeset = %s\n", s);
  if (!hwloc_bitmap_isset(set, 2)) {
    printf("BUG: node P#2 (cpuset 2-3, disjoint from node P#1) was not added, PUs 2-3 have no default node\n");
    return 2;
  }
  free(s);
  hwloc_bitmap_free(set);
  hwloc_topology_destroy(topo);
  return 0;
}
