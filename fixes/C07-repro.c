/* Reproducers for the C07 findings in hwloc/topology-synthetic.c (hwloc_topology_set_synthetic on
 * a caller-provided string).  Build against an ASan+UBSan libhwloc, e.g.
 *   /verif/tools/build.sh /var/tmp/l asan
 *   gcc $(cat /var/tmp/l/flags) C07-repro.c -o repro /var/tmp/l/libhwloc.a $(cat /var/tmp/l/libs)
 *   ASAN_OPTIONS=detect_leaks=0:max_malloc_fill_size=1048576 ./repro <case>
 * case 1  126 levels and no NUMA level: the implicit NUMA level is inserted with
 *         memmove(&level[2], &level[1], count*sizeof) which writes level[128] of level[128]
 *         -> heap-buffer-overflow WRITE (fix: C07-implicit-numa-memmove.patch)
 * case 2  "pack:2 pu:2(indexes=die)": the level search of a type-named interleaving stops at arity 0, but
 *         the arity of the last level is not set yet when the string ends right after it (the backend
 *         data is malloc'ed): uninitialised read, walks past level[127] when the garbage is non-zero
 *         (max_malloc_fill_size makes ASan fill the whole block) (fix: C07-last-level-arity-uninit.patch)
 * case 3  "pack:2(indexes=core) core:2 pu:1": interleaving by a level below the indexed one -> assert(step)
 * case 4  "pu:2(indexes=1*65536:1*65536:1*65536:1*65536)": nbs overflows to 0 -> assert(nbs)
 * case 5  "group:65536 group:65536 group:65536 core:65536 pu:1(indexes=core)": the level width wraps
 *         to 0 -> division by zero (3-5 fixed by C07-index-loop-asserts-overflow.patch)
 * Expected everywhere: set_synthetic returns 0 or -1/EINVAL.
 */
#include <hwloc.h>
#include <stdio.h>
#include <stdlib.h>
#include <string.h>
#include <errno.h>
int main(int argc, char **argv) {
  int c = argc > 1 ? atoi(argv[1]) : 1, r, i;
  char *s = malloc(4096); hwloc_topology_t t;
  s[0] = 0;
  switch (c) {
  case 1: for (i = 0; i < 125; i++) strcat(s, "group:1 "); strcat(s, "pu:2"); break;
  case 2: strcpy(s, "pack:2 pu:2(indexes=die)"); break;
  case 3: strcpy(s, "pack:2(indexes=core) core:2 pu:1"); break;
  case 4: strcpy(s, "pu:2(indexes=1*65536:1*65536:1*65536:1*65536)"); break;
  default: strcpy(s, "group:65536 group:65536 group:65536 core:65536 pu:1(indexes=core)"); break;
  }
  hwloc_topology_init(&t);
  errno = 0;
  r = hwloc_topology_set_synthetic(t, s);
  printf("case %d: set_synthetic=%d errno=%d\n", c, r, errno);
  hwloc_topology_destroy(t);
  free(s);
  return 0;
}
