/* Reproducer for: hwloc_topology_allow() on an adopted topology.  hwloc.h and hwloc/shmem.h document
 * it as the one modification that is permitted on an adopted topology when the original was loaded
 * with HWLOC_TOPOLOGY_FLAG_INCLUDE_DISALLOWED, but hwloc_shmem_topology_adopt() leaves
 * allowed_cpuset / allowed_nodeset inside the PROT_READ mapping and hwloc_topology_allow() writes
 * them in place: SIGSEGV for HWLOC_ALLOW_FLAG_ALL and HWLOC_ALLOW_FLAG_CUSTOM.
 *   expected: 0, allowed cpuset becomes 1      observed: SIGSEGV
 */
#include "C19-repro-common.h"

static int use(hwloc_topology_t t)
{
  hwloc_bitmap_t set = hwloc_bitmap_alloc(); char *s; int r;
  hwloc_bitmap_set(set, 1);
  r = hwloc_topology_allow(t, set, NULL, HWLOC_ALLOW_FLAG_CUSTOM);
  hwloc_bitmap_list_asprintf(&s, hwloc_topology_get_allowed_cpuset(t));
  printf("allow(CUSTOM, cpuset 1) = %d, allowed cpuset now %s\n", r, s);
  return r != 0;
}

int main(void)
{
  hwloc_topology_t topo;
  hwloc_topology_init(&topo);
  hwloc_topology_set_synthetic(topo, "node:2 core:2 pu:2");
  hwloc_topology_set_flags(topo, HWLOC_TOPOLOGY_FLAG_INCLUDE_DISALLOWED);
  hwloc_topology_load(topo);
  return c19_run(topo, use);
}
