/* Reproducers for the four C09 findings (helpers of include/hwloc/helper.h and hwloc/traversal.c).
 * Build against libhwloc and run with one argument:
 *   1  hwloc_get_ancestor_obj_by_depth() returns an ancestor at ANOTHER depth when the branch skips the
 *      requested level (doc: "the ancestor object of obj at depth depth", "NULL if no such ancestor exists")
 *   2  hwloc_get_common_ancestor_obj() dereferences NULL when one object is a NUMA node (or I/O, Misc)
 *      (doc: no restriction on the object kinds, "This function cannot return NULL")
 *   3  hwloc_get_closest_objs() reads topology->level_nbobjects[-3] when src is a NUMA node
 *      (doc only requires src to have a CPU set, which NUMA nodes have)
 *   4  hwloc_get_cache_type_depth() never finds instruction cache levels and does not report MULTIPLE
 *      (doc: "identical to calling hwloc_get_type_depth() with the corresponding type such as HWLOC_OBJ_L1ICACHE")
 */
#include <hwloc.h>
#include <stdio.h>
#include <stdlib.h>

static hwloc_topology_t load(const char *desc, int keepall)
{
  hwloc_topology_t t;
  hwloc_topology_init(&t);
  hwloc_topology_set_synthetic(t, desc);
  if (keepall)
    hwloc_topology_set_all_types_filter(t, HWLOC_TYPE_FILTER_KEEP_ALL);
  if (hwloc_topology_load(t) < 0) { perror("load"); exit(2); }
  return t;
}

int main(int argc, char **argv)
{
  int which = argc > 1 ? atoi(argv[1]) : 1;
  hwloc_topology_t t;
  if (which == 1) {
    /* Machine -> { Group{Package0,Package1}, Package2, Package3 } : Packages 2-3 have no ancestor at the Group depth */
    hwloc_obj_t g, pu, anc;
    t = load("pack:4 pu:2", 0);
    g = hwloc_topology_alloc_group_object(t);
    g->cpuset = hwloc_bitmap_alloc();
    hwloc_bitmap_set_range(g->cpuset, 0, 3);
    g->attr->group.dont_merge = 1;
    g = hwloc_topology_insert_group_object(t, g);
    pu = hwloc_get_obj_by_type(t, HWLOC_OBJ_PU, 7);
    anc = hwloc_get_ancestor_obj_by_depth(t, g->depth, pu);
    printf("Group depth %d; ancestor of PU#7 at that depth: %s (depth %d), expected NULL\n",
           g->depth, anc ? hwloc_obj_type_string(anc->type) : "NULL", anc ? anc->depth : -1);
    return anc != NULL;
  } else if (which == 2) {
    hwloc_obj_t numa, pu, anc;
    t = load("pack:2 core:2 pu:2", 0);
    numa = hwloc_get_obj_by_type(t, HWLOC_OBJ_NUMANODE, 0);
    pu = hwloc_get_obj_by_type(t, HWLOC_OBJ_PU, 0);
    anc = hwloc_get_common_ancestor_obj(t, numa, pu); /* SIGSEGV: walks above the root */
    printf("common ancestor: %s\n", hwloc_obj_type_string(anc->type));
  } else if (which == 3) {
    hwloc_obj_t objs[8];
    unsigned n;
    t = load("pack:2 [numa] core:2 pu:2", 0);
    n = hwloc_get_closest_objs(t, hwloc_get_obj_by_type(t, HWLOC_OBJ_NUMANODE, 0), objs, 8); /* out-of-bounds read (ASan: heap-buffer-overflow) */
    printf("closest NUMA nodes: %u, expected 1\n", n);
    return n != 1;
  } else {
    int di, dm;
    t = load("pack:2 l2:2 l1i:1 l1d:1 core:1 pu:1", 1);
    di = hwloc_get_cache_type_depth(t, 1, HWLOC_OBJ_CACHE_INSTRUCTION);
    dm = hwloc_get_cache_type_depth(t, 1, (hwloc_obj_cache_type_t) -1);
    printf("L1i: get_type_depth %d, get_cache_type_depth(1, INSTRUCTION) %d; (1, -1) gives %d, expected MULTIPLE (%d)\n",
           hwloc_get_type_depth(t, HWLOC_OBJ_L1ICACHE), di, dm, HWLOC_TYPE_DEPTH_MULTIPLE);
    return di != hwloc_get_type_depth(t, HWLOC_OBJ_L1ICACHE) || dm != HWLOC_TYPE_DEPTH_MULTIPLE;
  }
  return 0;
}
