#!/bin/sh
# Reproducers of the hwloc-calc defects found by the C20 check (run with a hwloc-calc built from the tree BEFORE
# commits e20e124 / e514f0a; always under `timeout`, some of them loop for hours and flood stderr).
#   usage: C20-repro.sh /path/to/hwloc-calc
C=${1:-hwloc-calc}
T='pack:2 core:2 pu:2'          # 4 cores, 8 PUs
run() { echo "\$ hwloc-calc -i '$T' -q $*"; timeout 5 "$C" -i "$T" -q "$@" 2>&1 | head -3; echo "  -> exit status ${?}"; }
# fixed by fixes/C20-calc-range-bounds.patch (commit e20e124)
run core:0:-1      # assertion `amount != -1 || !wrap' failed (hwloc-calc.h:444), SIGABRT
run core:0:-2      # (unsigned)-2 iterations: hangs
run core:3-0       # reversed range: hangs; core:3-1 silently meant core:3-
run core:5-        # WELL-FORMED (no core has index >= 5): (width-first+step-1)/step underflows, hangs
# fixed by fixes/C20-calc-exit-status.patch (commit e514f0a)
run -N foo all     # error message, no output, exit status 0
run -I foo all
run -H foo.pu all
run -H pci all
# recorded as known finding C20-physical-open-ended-range (not fixed)
echo "\$ hwloc-calc -i 'node:2(indexes=3,1) pu:2' -p node:all     (documented: all NUMA nodes = 0x0000000f)"
timeout 5 "$C" -i 'node:2(indexes=3,1) pu:2' -q -p node:all
echo "\$ hwloc-calc -i '$T' --pi pack:all.core:all               (documented: every core = 0x000000ff)"
timeout 5 "$C" -i "$T" -q --pi pack:all.core:all
# open (met while strengthening the check; proposed fix fixes/C20-calc-range-keyword-prefix.patch): the range keywords are
# matched by prefix (strncmp), so "pu:all:1", "pu:allx", "pu:oddity", "pu:evening" are taken for all / odd / even instead of
# being refused: "all ~pu:all:1" prints 0x0 with exit status 0 where every other malformed range ("~pu:0:", "~core:1-2-3") is
# ignored with a message and leaves 0x000000ff
run all '~pu:all:1'
run all '~pu:evening'
run all '~pu:0:'
