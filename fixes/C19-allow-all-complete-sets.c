/* Reproducer for: hwloc_topology_allow(HWLOC_ALLOW_FLAG_ALL) copies the root's COMPLETE sets into the
 * allowed sets.  complete_cpuset / complete_nodeset also contain offline or unknown PUs / nodes that have no
 * object in the topology, while the allowed sets are documented as subsets of the topology sets
 * (hwloc_topology_get_allowed_cpuset: "allowed CPU set ... of the topology"; hwloc_topology_check()
 * asserts allowed_cpuset included in the root cpuset).  On any topology whose complete sets are larger
 * than its sets (bundled 16amd64-8n2c-cpusets.xml, 16em64t-4s2c2t-offlines.xml, ...) the call returns 0
 * and leaves the topology inconsistent; hwloc_topology_check() aborts.
 * (Found through C19 - the call is the one modification documented for adopted shared-memory
 * topologies - but it does not need shared memory; the relation that rejects it is TopoOps!AllowRel of C02.)
 *   expected: allowed cpuset = topology cpuset      observed: allowed cpuset = complete cpuset, check aborts
 * build:  gcc -I/repo/include C19-allow-all-complete-sets.c /repo/hwloc/.libs/libhwloc.so -Wl,-rpath,/repo/hwloc/.libs -o repro
 */
#include <hwloc.h>
#include <stdio.h>
#include <stdlib.h>

int main(int argc, char **argv)
{
  hwloc_topology_t topo; char *a, *t, *c;
  hwloc_topology_init(&topo);
  hwloc_topology_set_xml(topo, argc > 1 ? argv[1] : "/repo/tests/hwloc/xml/16amd64-8n2c-cpusets.xml");
  hwloc_topology_set_flags(topo, HWLOC_TOPOLOGY_FLAG_INCLUDE_DISALLOWED);
  if (hwloc_topology_load(topo) < 0) return 1;
  if (hwloc_topology_allow(topo, NULL, NULL, HWLOC_ALLOW_FLAG_ALL) < 0) return 1;
  hwloc_bitmap_list_asprintf(&a, hwloc_topology_get_allowed_cpuset(topo));
  hwloc_bitmap_list_asprintf(&t, hwloc_topology_get_topology_cpuset(topo));
  hwloc_bitmap_list_asprintf(&c, hwloc_topology_get_complete_cpuset(topo));
  printf("allowed=%s topology=%s complete=%s\n", a, t, c);
  if (!hwloc_bitmap_isincluded(hwloc_topology_get_allowed_cpuset(topo), hwloc_topology_get_topology_cpuset(topo)))
    printf("BUG: allowed cpuset is not included in the topology cpuset\n");
  hwloc_topology_check(topo);        /* aborts */
  printf("check passed\n");
  hwloc_topology_destroy(topo);
  return 0;
}
