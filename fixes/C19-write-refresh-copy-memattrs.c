/* Reproducer for: hwloc_shmem_topology_write() ends with hwloc_internal_memattrs_refresh(topology)
 * on the SOURCE topology instead of the copy `new` it just placed in the shared mapping
 * (hwloc/shmem.c, "now refresh the new distances/memattrs so that adopters can use them without
 * refreshing the R/O shmem mapping").  hwloc_internal_memattrs_dup() always clears
 * HWLOC_IMATTR_FLAG_CACHE_VALID in the copy, so EVERY adopted topology has stale memattr caches and
 * the first query of a non-convenience attribute (get_value, get_targets, get_initiators,
 * get_best_target, get_best_initiator - even for an attribute without any value such as Bandwidth)
 * refreshes the cache inside the PROT_READ mapping: SIGSEGV in the adopter.
 *   expected: value 42 / -1 ENOENT       observed: SIGSEGV
 */
#include "C19-repro-common.h"

static int use(hwloc_topology_t t)
{
  hwloc_obj_t best; hwloc_uint64_t v = 0; hwloc_memattr_id_t id; struct hwloc_location loc;
  int r;
  loc.type = HWLOC_LOCATION_TYPE_CPUSET; loc.location.cpuset = hwloc_bitmap_dup(hwloc_topology_get_topology_cpuset(t));
  /* an attribute nobody ever set a value for is enough */
  r = hwloc_memattr_get_best_target(t, HWLOC_MEMATTR_ID_BANDWIDTH, &loc, 0, &best, &v);
  printf("get_best_target(Bandwidth) = %d (%s)\n", r, r ? strerror(errno) : "ok");
  if (hwloc_memattr_get_by_name(t, "mine", &id) < 0) return 1;
  r = hwloc_memattr_get_value(t, id, hwloc_get_obj_by_type(t, HWLOC_OBJ_NUMANODE, 0), NULL, 0, &v);
  printf("get_value(mine, node 0) = %d value %llu\n", r, (unsigned long long)v);
  return r || v != 42;
}

int main(void)
{
  hwloc_topology_t topo; hwloc_memattr_id_t id;
  hwloc_topology_init(&topo);
  hwloc_topology_set_synthetic(topo, "node:2 core:2 pu:2");
  hwloc_topology_load(topo);
  hwloc_memattr_register(topo, "mine", HWLOC_MEMATTR_FLAG_HIGHER_FIRST, &id);
  hwloc_memattr_set_value(topo, id, hwloc_get_obj_by_type(topo, HWLOC_OBJ_NUMANODE, 0), NULL, 0, 42);
  hwloc_topology_refresh(topo);               /* does not help: the copy is what is stale */
  return c19_run(topo, use);
}
