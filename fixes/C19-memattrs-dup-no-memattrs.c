/* Reproducer: a topology loaded with HWLOC_TOPOLOGY_FLAG_NO_MEMATTRS has no memory attribute array at all
 * (hwloc_internal_memattrs_prepare() is skipped: memattrs == NULL, nr_memattrs == 0), but
 * hwloc_internal_memattrs_dup() assumes "old->nr_memattrs is always > 0 thanks to default memattrs" and calls
 * memcpy(imattrs, old->memattrs (= NULL), 0): undefined behaviour (C11 7.24.1p2, the arguments are declared nonnull).
 * Every hwloc_topology_dup(), hwloc_shmem_topology_get_length() and hwloc_shmem_topology_write() of such a topology
 * goes through it; builds with -fsanitize=undefined -fno-sanitize-recover (the verification build) abort there:
 *   hwloc/memattrs.c:166:3: runtime error: null pointer passed as argument 2, which is declared to never be null
 *
 * gcc -fsanitize=undefined -fno-sanitize-recover=undefined -I<tree>/include C19-memattrs-dup-no-memattrs.c <libhwloc built the same way> && ./a.out
 * exit 0 = holds; abort (SIGABRT after the runtime error line) = broken.  Without the sanitizer the call is harmless on glibc.
 */
#include <hwloc.h>
#include <hwloc/shmem.h>
#include <stdio.h>

int main(void)
{
  hwloc_topology_t t, d = NULL; size_t len = 0;
  hwloc_topology_init(&t);
  hwloc_topology_set_synthetic(t, "node:2 core:2 pu:2");
  hwloc_topology_set_flags(t, HWLOC_TOPOLOGY_FLAG_NO_MEMATTRS);
  if (hwloc_topology_load(t) < 0) return 2;
  if (hwloc_topology_dup(&d, t) < 0) { printf("dup failed\n"); return 1; }
  hwloc_topology_destroy(d);
  if (hwloc_shmem_topology_get_length(t, &len, 0) < 0) { printf("get_length failed\n"); return 1; }
  hwloc_topology_destroy(t);
  printf("OK (length %lu)\n", (unsigned long)len);
  return 0;
}
