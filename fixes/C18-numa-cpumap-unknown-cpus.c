/* C18: a NUMA node whose nodeN/cpumap only lists CPUs without cpuN/topology gives a topology that
 * hwloc_topology_check() rejects (topology.c: hwloc__check_children_cpusets: Assertion `!prev_empty' failed).
 *
 * Found by the C18 check (per-instance removals): Linux snapshot 16amd64-8n2c-cpusets with the directory
 * sys/devices/system/cpu/cpu5/topology removed (cpu4 is offline there, so cpu5 is the only CPU of package 2 / node 2),
 * default filters, any flags.  cpu5 keeps its bit in the root complete_cpuset ("at least it exists") but gets no PU;
 * node2/cpumap = 0x20 is taken as it is, no object covers it, so hwloc__find_insert_memory_parent() inserts a memory
 * Group with cpuset 0x20 between Package P#1 and Package P#3; fixup_sets() then restricts the Group's cpuset to the root
 * cpuset (-> empty) and creates its complete_cpuset from that (-> empty too): a child without CPUs is followed by
 * children with CPUs.  hwloc_topology_load() returns 0; the checker (and any load under HWLOC_DEBUG_CHECK=1) aborts.
 *
 * build:  gcc -I<tree>/include C18-numa-cpumap-unknown-cpus.c -o repro <tree>/hwloc/.libs/libhwloc.so (or the static library)
 * run:    mkdir x && tar xjf <tree>/tests/hwloc/linux/16amd64-8n2c-cpusets.tar.bz2 -C x
 *         rm -r x/16amd64-8n2c-cpusets/sys/devices/system/cpu/cpu5/topology
 *         ./repro x/16amd64-8n2c-cpusets
 * exit 0 = the loaded topology passes hwloc_topology_check(); abort (134) = defect.
 */
#include <hwloc.h>
#include <stdio.h>
#include <stdlib.h>
static void show(hwloc_obj_t o, int ind) {
  char *s, *c; hwloc_obj_t k;
  if (o->type == HWLOC_OBJ_PU || o->type == HWLOC_OBJ_CORE || hwloc_obj_type_is_cache(o->type)) return;
  hwloc_bitmap_asprintf(&s, o->cpuset); hwloc_bitmap_asprintf(&c, o->complete_cpuset);
  printf("%*s%s P#%d cpuset %s complete_cpuset %s\n", ind, "", hwloc_obj_type_string(o->type), (int)o->os_index, s, c);
  free(s); free(c);
  for (k = o->memory_first_child; k; k = k->next_sibling) show(k, ind + 4);
  for (k = o->first_child; k; k = k->next_sibling) show(k, ind + 2);
}
int main(int argc, char **argv) {
  hwloc_topology_t t;
  if (argc < 2) { fprintf(stderr, "usage: %s <extracted snapshot with cpu5/topology removed> [flags]\n", argv[0]); return 2; }
  setenv("HWLOC_FSROOT", argv[1], 1);
  setenv("HWLOC_COMPONENTS", "linux,stop", 1);
  setenv("HWLOC_THISSYSTEM", "0", 1);
  hwloc_topology_init(&t);
  if (argc > 2) hwloc_topology_set_flags(t, strtoul(argv[2], NULL, 0));
  if (hwloc_topology_load(t) < 0) { printf("load failed cleanly\n"); return 0; }
  show(hwloc_get_root_obj(t), 0);
  fflush(stdout);
  hwloc_topology_check(t);          /* aborts on the unfixed tree */
  printf("check passed\n");
  hwloc_topology_destroy(t);
  return 0;
}
