/* Reproducer for: hwloc_memattr_set_value() with an OBJECT initiator on a target that already
 * has a value leaves the cached object pointer of the new initiator uninitialised.
 * hwloc_memattr_get_initiators() / hwloc_memattr_get_best_initiator() then hand out that
 * garbage pointer as location.object (the attribute cache is still marked valid, so no
 * refresh repairs it).
 *
 * build:  gcc -I/repo/include repro.c /repo/hwloc/.libs/libhwloc.so -o repro   (or any libhwloc 3.0a1)
 * expected output: "second initiator is PU L#1"; observed: a wild pointer (crash or garbage).
 */
#include <hwloc.h>
#include <stdio.h>
#include <string.h>

static void poison_stack(void) { volatile char buf[512]; memset((void *)buf, 0x5a, sizeof buf); }

int main(void)
{
  hwloc_topology_t topo;
  hwloc_memattr_id_t id;
  struct hwloc_location loc, locs[2];
  hwloc_uint64_t values[2];
  hwloc_obj_t node;
  unsigned nr = 2, i;

  hwloc_topology_init(&topo);
  hwloc_topology_set_synthetic(topo, "node:1 pu:2");
  hwloc_topology_load(topo);
  node = hwloc_get_obj_by_type(topo, HWLOC_OBJ_NUMANODE, 0);

  hwloc_memattr_register(topo, "foo", HWLOC_MEMATTR_FLAG_HIGHER_FIRST|HWLOC_MEMATTR_FLAG_NEED_INITIATOR, &id);

  loc.type = HWLOC_LOCATION_TYPE_OBJECT;
  loc.location.object = hwloc_get_obj_by_type(topo, HWLOC_OBJ_PU, 0);
  hwloc_memattr_set_value(topo, id, node, &loc, 0, 10);         /* creates the target: cache invalidated */
  hwloc_memattr_get_value(topo, id, node, &loc, 0, &values[0]); /* any query: cache refreshed and valid */

  poison_stack();
  loc.location.object = hwloc_get_obj_by_type(topo, HWLOC_OBJ_PU, 1);
  hwloc_memattr_set_value(topo, id, node, &loc, 0, 20);         /* existing target, new object initiator */

  if (hwloc_memattr_get_initiators(topo, id, node, 0, &nr, locs, values) < 0)
    return 1;
  for(i=0; i<nr; i++) {
    printf("initiator %u: type %d object pointer %p value %llu\n", i, (int) locs[i].type, (void*) locs[i].location.object, (unsigned long long) values[i]);
    fflush(stdout);
  }
  if (locs[1].location.object != hwloc_get_obj_by_type(topo, HWLOC_OBJ_PU, 1)) {
    printf("BUG: second initiator is not PU L#1 (%p expected)\n", (void*) hwloc_get_obj_by_type(topo, HWLOC_OBJ_PU, 1));
    return 2;
  }
  printf("second initiator is PU L#%u\n", locs[1].location.object->logical_index);
  hwloc_topology_destroy(topo);
  return 0;
}
