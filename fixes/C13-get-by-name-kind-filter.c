/* Reproducer: a structure whose kind has no HWLOC_DISTANCES_KIND_FROM_* bit is never found by hwloc_distances_get_by_name().
 * cc -I/repo/include repro.c /repo/hwloc/.libs/libhwloc.so   (exit 1 = defect present) */
#include <hwloc.h>
#include <stdio.h>
int main(void) {
  hwloc_topology_t t; hwloc_obj_t o[2]; hwloc_uint64_t v[4] = { 1, 2, 3, 4 };
  struct hwloc_distances_s *d[2]; unsigned nr = 2, nrall = 2; void *h; int err;
  hwloc_topology_init(&t); hwloc_topology_set_synthetic(t, "node:2 core:2 pu:2"); hwloc_topology_load(t);
  o[0] = hwloc_get_obj_by_type(t, HWLOC_OBJ_PU, 0); o[1] = hwloc_get_obj_by_type(t, HWLOC_OBJ_PU, 1);
  h = hwloc_distances_add_create(t, "mine", HWLOC_DISTANCES_KIND_VALUE_LATENCY, 0);
  if (!h) { printf("kind without FROM_ rejected: nothing to find\n"); return 0; }
  hwloc_distances_add_values(t, h, 2, o, v, 0); err = hwloc_distances_add_commit(t, h, 0);
  hwloc_distances_get(t, &nrall, d, 0, 0);
  hwloc_distances_get_by_name(t, "mine", &nr, d, 0);
  printf("commit = %d, get() finds %u, get_by_name(\"mine\") finds %u (expected 1)\n", err, nrall, nr);
  return nr != 1;
}
