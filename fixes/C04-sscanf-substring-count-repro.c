/* C04 reproducer: gcc -fsanitize=address -I/repo/include repro.c libhwloc.a ... */
#include <hwloc.h>
#include <stdlib.h>
#include <stdio.h>
int main(int argc, char **argv) {
  hwloc_bitmap_t b = hwloc_bitmap_alloc();
  char *s = malloc(1); s[0] = 0;
  if (argc > 1) { printf("ret=%d\n", hwloc_bitmap_sscanf(b, ",0x1")); return 0; }  /* assert(count > 0) aborts */
  printf("ret=%d\n", hwloc_bitmap_sscanf(b, s));                                    /* ASan: READ of size 1 past s */
  return 0;
}
