/* Reproducer: hwloc_topology_restrict() on a topology loaded with HWLOC_TOPOLOGY_FLAG_NO_DISTANCES does not
 * invalidate the cached object pointers of the distances that the application added itself
 * (hwloc_distances_add_create/values/commit are accepted on such a topology: the flag only says "ignore
 * distances from the operating system and from XML").  hwloc_distances_get() (and the XML export, dup, shmem write)
 * then hand out pointers to the objects that the restrict freed: heap-use-after-free.
 * The same flag test guards the memattrs/cpukinds updates in restrict: with NO_CPUKINDS the application-registered
 * kinds keep PUs that left the topology.  (C19-restrict-no-distances-stale-objs.patch removes the three tests in restrict.
 * hwloc_topology_refresh() has the same three tests, so it never refreshes application-added stores under these flags and
 * the first concurrent readers refresh them lazily, which is documented as not thread-safe: separate, optional
 * C19-refresh-skips-user-stores.patch - note that it turns the seeded change seeded/C19-2 into an equivalent one.)
 *
 * gcc -fsanitize=address -I<tree>/include C19-restrict-no-distances-stale-objs.c <libhwloc> && ./a.out
 * exit 0 = holds; 1 = a distances matrix names an object that is not in the topology (or ASan aborts first)
 */
#include <hwloc.h>
#include <hwloc/distances.h>
#include <hwloc/cpukinds.h>
#include <stdio.h>

int main(void)
{
  hwloc_topology_t t;
  hwloc_obj_t objs[8]; hwloc_uint64_t vals[64]; unsigned i, j, nr = 1; int bad = 0, nk, k;
  hwloc_distances_add_handle_t h; struct hwloc_distances_s *d = NULL; hwloc_bitmap_t s;

  hwloc_topology_init(&t);
  hwloc_topology_set_synthetic(t, "node:2 core:2 pu:2");
  hwloc_topology_set_flags(t, HWLOC_TOPOLOGY_FLAG_NO_DISTANCES | HWLOC_TOPOLOGY_FLAG_NO_CPUKINDS);
  if (hwloc_topology_load(t) < 0) return 2;

  for (i = 0; i < 8; i++) objs[i] = hwloc_get_obj_by_type(t, HWLOC_OBJ_PU, i);
  for (i = 0; i < 8; i++) for (j = 0; j < 8; j++) vals[i * 8 + j] = i == j ? 10 : 20;
  h = hwloc_distances_add_create(t, "user", HWLOC_DISTANCES_KIND_FROM_USER | HWLOC_DISTANCES_KIND_VALUE_LATENCY, 0);
  if (!h || hwloc_distances_add_values(t, h, 8, objs, vals, 0) < 0 || hwloc_distances_add_commit(t, h, 0) < 0) return 2;
  s = hwloc_bitmap_alloc();
  hwloc_bitmap_set_range(s, 0, 3); hwloc_cpukinds_register(t, s, 1, NULL, 0);
  hwloc_bitmap_zero(s); hwloc_bitmap_set_range(s, 4, 7); hwloc_cpukinds_register(t, s, 0, NULL, 0);

  hwloc_bitmap_zero(s); hwloc_bitmap_set_range(s, 0, 5);
  if (hwloc_topology_restrict(t, s, 0) < 0) return 2;       /* PUs 6 and 7 are freed */

  if (hwloc_distances_get(t, &nr, &d, 0, 0) < 0 || nr != 1) return 2;
  printf("matrix has %u objects, topology has %d PUs\n", d->nbobjs, hwloc_get_nbobjs_by_type(t, HWLOC_OBJ_PU));
  for (j = 0; j < d->nbobjs; j++) {
    hwloc_obj_t o = d->objs[j]; unsigned n = hwloc_get_nbobjs_by_type(t, HWLOC_OBJ_PU); int found = 0;
    for (i = 0; i < n; i++) if (hwloc_get_obj_by_type(t, HWLOC_OBJ_PU, i) == o) found = 1;
    if (!found) { printf("objs[%u] = %p is not an object of the topology (freed by the restrict)\n", j, (void *)o); bad = 1; }
  }
  hwloc_distances_release(t, d);

  nk = hwloc_cpukinds_get_nr(t, 0);
  for (k = 0; k < nk; k++) {
    hwloc_cpukinds_get_info(t, (unsigned)k, s, NULL, NULL, 0);
    if (!hwloc_bitmap_isincluded(s, hwloc_topology_get_topology_cpuset(t))) { printf("CPU kind %d still contains PUs that the restrict removed\n", k); bad = 1; }
  }
  hwloc_bitmap_free(s);
  hwloc_topology_destroy(t);
  printf(bad ? "FAILED\n" : "OK\n");
  return bad;
}
