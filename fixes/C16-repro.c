/* C16 reproducers for hwloc/diff.c (hwloc 3.0a1 pinned tree).  Build against the in-tree library, e.g.
 *   gcc -I/repo/include C16-repro.c /repo/hwloc/.libs/libhwloc.so -o C16-repro && LD_LIBRARY_PATH=/repo/hwloc/.libs ./C16-repro
 * Each case prints what the documentation / property promises and what happens.
 */
#include <hwloc.h>
#include <stdio.h>
#include <stdlib.h>
#include <string.h>

static hwloc_topology_t load(void)
{
  hwloc_topology_t t;
  hwloc_topology_init(&t);
  hwloc_topology_set_synthetic(t, "node:2 pu:2");
  hwloc_topology_load(t);
  return t;
}

static hwloc_topology_diff_t info_entry(const char *name, const char *old, const char *new)
{
  hwloc_topology_diff_t d = calloc(1, sizeof(*d));
  d->obj_attr.type = HWLOC_TOPOLOGY_DIFF_OBJ_ATTR;
  d->obj_attr.obj_depth = 0;
  d->obj_attr.obj_index = 0;
  d->obj_attr.diff.string.type = HWLOC_TOPOLOGY_DIFF_OBJ_ATTR_INFO;
  d->obj_attr.diff.string.name = strdup(name);
  d->obj_attr.diff.string.oldvalue = strdup(old);
  d->obj_attr.diff.string.newvalue = strdup(new);
  return d;
}

static void show(const char *what, hwloc_obj_t o)
{
  unsigned i;
  printf("  %s:", what);
  for (i = 0; i < o->infos.count; i++) printf(" %s=%s", o->infos.array[i].name, o->infos.array[i].value);
  printf("\n");
}

int main(void)
{
  hwloc_topology_t a, b, c;
  hwloc_topology_diff_t d, d2;
  int err;

  printf("(a) name set in one topology, unset in the other: cannot be represented, diff_build should return 1\n");
  a = load(); hwloc_get_root_obj(a)->name = strdup("foo");
  hwloc_topology_dup(&b, a);
  free(hwloc_get_root_obj(b)->name); hwloc_get_root_obj(b)->name = NULL;
  err = hwloc_topology_diff_build(a, b, 0, &d);
  printf("  diff_build returned %d, first entry type %d", err, d ? (int)d->generic.type : -1);
  if (d && d->generic.type == HWLOC_TOPOLOGY_DIFF_OBJ_ATTR)
    printf(", oldvalue %s newvalue %s", d->obj_attr.diff.string.oldvalue ? d->obj_attr.diff.string.oldvalue : "(null)",
           d->obj_attr.diff.string.newvalue ? d->obj_attr.diff.string.newvalue : "(null)");
  printf("\n");
  printf("  (applying it to a copy of the first topology calls strdup(NULL); exporting it to XML passes a NULL attribute value)\n");
  hwloc_topology_diff_destroy(d); hwloc_topology_destroy(a); hwloc_topology_destroy(b);

  printf("(b) failing third entry after two chained entries on the same info: the topology must be left unchanged\n");
  a = load(); hwloc_obj_add_info(hwloc_get_root_obj(a), "K", "a");
  d = info_entry("K", "a", "b"); d->generic.next = info_entry("K", "b", "c"); d->generic.next->generic.next = info_entry("Missing", "x", "y");
  show("before", hwloc_get_root_obj(a));
  err = hwloc_topology_diff_apply(a, d, 0);
  printf("  diff_apply returned %d\n", err);
  show("after ", hwloc_get_root_obj(a));
  hwloc_topology_diff_destroy(d); hwloc_topology_destroy(a);

  printf("(c) two infos with the same name, the second one changes: diff_build returns 0 but applying the diff does not give the second topology\n");
  a = load(); hwloc_obj_add_info(hwloc_get_root_obj(a), "K", "a"); hwloc_obj_add_info(hwloc_get_root_obj(a), "K", "a");
  hwloc_topology_dup(&b, a);
  free(hwloc_get_root_obj(b)->infos.array[1].value); hwloc_get_root_obj(b)->infos.array[1].value = strdup("b");
  err = hwloc_topology_diff_build(a, b, 0, &d);
  printf("  diff_build returned %d\n", err);
  hwloc_topology_dup(&c, a);
  err = hwloc_topology_diff_apply(c, d, 0);
  printf("  diff_apply returned %d\n", err);
  show("wanted ", hwloc_get_root_obj(b));
  show("patched", hwloc_get_root_obj(c));
  err = hwloc_topology_diff_build(c, b, 0, &d2);
  printf("  diff_build(patched, wanted) returned %d with %s diff\n", err, d2 ? "a non-empty" : "an empty");
  hwloc_topology_diff_destroy(d); hwloc_topology_diff_destroy(d2);
  hwloc_topology_destroy(a); hwloc_topology_destroy(b); hwloc_topology_destroy(c);

  printf("(d) failing second entry, the first one modified the second of two same-named infos: the topology must be left unchanged\n");
  a = load(); hwloc_obj_add_info(hwloc_get_root_obj(a), "K", "b"); hwloc_obj_add_info(hwloc_get_root_obj(a), "K", "a");
  d = info_entry("K", "a", "b"); d->generic.next = info_entry("Missing", "x", "y");
  show("before", hwloc_get_root_obj(a));
  err = hwloc_topology_diff_apply(a, d, 0);
  printf("  diff_apply returned %d\n", err);
  show("after ", hwloc_get_root_obj(a));
  hwloc_topology_diff_destroy(d); hwloc_topology_destroy(a);
  return 0;
}
