#include <hwloc.h>
#include <stdio.h>
#include <stdlib.h>
#include <string.h>
#include <unistd.h>
static void walk(hwloc_topology_t t, hwloc_obj_t o)
{
  char a[64], b[96]; hwloc_obj_t c;
  hwloc_obj_type_snprintf(a, sizeof a, o, 0);
  hwloc_obj_attr_snprintf(b, sizeof b, o, " ", HWLOC_OBJ_SNPRINTF_FLAG_MORE_ATTRS);
  for(c=o->memory_first_child;c;c=c->next_sibling) walk(t,c);
  for(c=o->first_child;c;c=c->next_sibling) walk(t,c);
  for(c=o->io_first_child;c;c=c->next_sibling) walk(t,c);
  for(c=o->misc_first_child;c;c=c->next_sibling) walk(t,c);
}
int main(int argc, char **argv)
{
  hwloc_topology_t t, t2;
  char *buf; int len, err; unsigned nr, i;
  struct hwloc_distances_s *d[16];
  alarm(20);
  hwloc_topology_init(&t);
  if (argc > 2) hwloc_topology_set_all_types_filter(t, HWLOC_TYPE_FILTER_KEEP_ALL);
  err = hwloc_topology_set_xml(t, argv[1]);
  printf("set_xml %d\n", err);
  if (!err) {
    err = hwloc_topology_load(t);
    printf("load %d\n", err);
  }
  if (!err) {
    hwloc_topology_check(t);
    walk(t, hwloc_get_root_obj(t));
    hwloc_topology_export_xmlbuffer(t, &buf, &len, 0); hwloc_free_xmlbuffer(t, buf);
    hwloc_topology_export_xmlbuffer(t, &buf, &len, HWLOC_TOPOLOGY_EXPORT_XML_FLAG_V2); hwloc_free_xmlbuffer(t, buf);
    { char s[1024]; hwloc_topology_export_synthetic(t, s, sizeof s, 0); }
    nr = 16; hwloc_distances_get(t, &nr, d, 0, 0); printf("%u distances\n", nr);
    for(i=0;i<nr && i<16;i++) hwloc_distances_release(t, d[i]);
    printf("%d cpukinds\n", hwloc_cpukinds_get_nr(t, 0));
    hwloc_topology_dup(&t2, t); hwloc_topology_check(t2); hwloc_topology_destroy(t2);
  } else {
    /* reload something valid */
    err = hwloc_topology_set_synthetic(t, "pack:2 core:2 pu:2");
    if (!err) err = hwloc_topology_load(t);
    printf("reload %d\n", err);
    if (!err) hwloc_topology_check(t);
  }
  hwloc_topology_destroy(t);
  printf("done\n");
  return 0;
}
