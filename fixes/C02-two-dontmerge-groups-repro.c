#include <hwloc.h>
#include <stdio.h>
int main(void){
  hwloc_topology_t t; hwloc_obj_t g, r1, r2, o; char *buf; int len;
  hwloc_topology_init(&t); hwloc_topology_set_synthetic(t,"pack:1 core:2 pu:2"); hwloc_topology_load(t);
  g=hwloc_topology_alloc_group_object(t); g->cpuset=hwloc_bitmap_alloc(); hwloc_bitmap_set_range(g->cpuset,0,1);
  g->attr->group.kind=0; g->attr->group.dont_merge=1;
  r1=hwloc_topology_insert_group_object(t,g); fprintf(stderr,"first group %p (given %p)\n",(void*)r1,(void*)g);
  g=hwloc_topology_alloc_group_object(t); g->cpuset=hwloc_bitmap_alloc(); hwloc_bitmap_set_range(g->cpuset,0,1);
  g->attr->group.kind=0xffffffff; g->attr->group.dont_merge=1;
  r2=hwloc_topology_insert_group_object(t,g); fprintf(stderr,"second group %p (given %p)\n",(void*)r2,(void*)g);
  for (o=hwloc_get_root_obj(t); o; o=o->first_child) fprintf(stderr,"  depth %d type %s cpuset %p kind %u\n", o->depth, hwloc_obj_type_string(o->type), (void*)o->cpuset, o->type==HWLOC_OBJ_GROUP?o->attr->group.kind:0);
  hwloc_topology_check(t); fprintf(stderr,"export %d\n", hwloc_topology_export_xmlbuffer(t,&buf,&len,0));
  hwloc_topology_destroy(t); return 0; }
