/* Reproducers for the second group of C07 findings in hwloc/topology-synthetic.c: descriptions that
 * hwloc_topology_set_synthetic() accepts and that hwloc_topology_load() turns into an abort or into a
 * topology that hwloc_topology_check() refuses.  Build as C07-repro.c; ./repro2 <case>
 * case 1  "memcache:1 pu:2": MemCache is accepted as a level type; load aborts on
 *         assert(hwloc__obj_type_is_normal(type) || type == HWLOC_OBJ_NUMANODE) (topology-synthetic.c hwloc__look_synthetic)
 *         (fix: C07-memcache-level-abort.patch, the parser refuses the type like Machine/Misc/I/O)
 * case 2  "node:2(memorysidecachesize=1MB) pu:2" with the default filters (MemCache = KEEP_NONE): the backend
 *         inserts MemCache objects without consulting the type filter; hwloc_topology_check() aborts
 *         (fix: C07-memorysidecache-ignores-filter.patch)
 * case 3  "node:2(indexes=0,0) pu:2": two NUMA nodes with os_index 0 (same for "pack:2 [numa(indexes=0,0)] pu:2");
 *         overlapping nodesets, hwloc_topology_check() aborts.  "pu:2(indexes=0,4294967295)" gives a PU whose
 *         os_index is HWLOC_UNKNOWN_INDEX.  (fix: C07-duplicate-numa-indexes.patch: explicit PU/NUMA index lists with
 *         duplicate or invalid values are ignored, as other malformed index attributes already are)
 * case 5  "l3:3 l3:3 pu:1": two levels of one cache type are accepted (the parser refuses several package, die, core
 *         and NUMA levels but forgets the caches); hwloc_get_type_depth(L3) returns HWLOC_TYPE_DEPTH_MULTIPLE, which hwloc.h
 *         reserves for Groups ("only for Groups")  (fix: C07-duplicate-cache-levels.patch)
 */
#include <hwloc.h>
#include <stdio.h>
#include <stdlib.h>
#include <string.h>
#include <errno.h>
int main(int argc, char **argv) {
  int c = argc > 1 ? atoi(argv[1]) : 1, r;
  const char *s = c == 1 ? "memcache:1 pu:2" : c == 2 ? "node:2(memorysidecachesize=1MB) pu:2" : c == 3 ? "node:2(indexes=0,0) pu:2" : c == 4 ? "pu:2(indexes=0,4294967295)" : "l3:3 l3:3 pu:1";
  hwloc_topology_t t;
  hwloc_topology_init(&t);
  errno = 0;
  r = hwloc_topology_set_synthetic(t, s);
  printf("case %d '%s': set_synthetic=%d errno=%d\n", c, s, r, errno);
  if (!r) {
    r = hwloc_topology_load(t);
    printf("load=%d\n", r);
    if (!r) { hwloc_obj_t pu = hwloc_get_obj_by_type(t, HWLOC_OBJ_PU, hwloc_get_nbobjs_by_type(t, HWLOC_OBJ_PU) - 1); printf("last PU os_index=%u, depth of L3 = %d (MULTIPLE = %d)\n", pu->os_index, hwloc_get_type_depth(t, HWLOC_OBJ_L3CACHE), HWLOC_TYPE_DEPTH_MULTIPLE); hwloc_topology_check(t); printf("check passed\n"); }
  }
  hwloc_topology_destroy(t);
  return 0;
}
