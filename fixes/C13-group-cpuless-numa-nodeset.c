/* Reproducer: grouping NUMA nodes at hwloc_distances_add_commit(GROUP) when one of them is CPU-less gives a Group whose
 * nodeset contains a node that is not below it: hwloc_topology_check() aborts in hwloc__check_nodesets().
 * cc -I/repo/include repro.c /repo/hwloc/.libs/libhwloc.so   (abort = defect present) */
#include <hwloc.h>
#include <stdio.h>
int main(void) {
  hwloc_topology_t t; hwloc_obj_t n[4]; void *h; int i, err; hwloc_bitmap_t set = hwloc_bitmap_alloc();
  hwloc_uint64_t m[16] = { 1, 2, 4, 4,  2, 1, 4, 4,  4, 4, 1, 2,  4, 4, 2, 1 };
  hwloc_topology_init(&t); hwloc_topology_set_synthetic(t, "node:4 core:2 pu:2"); hwloc_topology_load(t);
  hwloc_bitmap_set_range(set, 0, 11);
  hwloc_topology_restrict(t, set, 0);            /* node 3 keeps its memory but has no PU left */
  hwloc_topology_check(t);
  for (i = 0; i < 4; i++) n[i] = hwloc_get_obj_by_type(t, HWLOC_OBJ_NUMANODE, i);
  h = hwloc_distances_add_create(t, NULL, HWLOC_DISTANCES_KIND_FROM_USER | HWLOC_DISTANCES_KIND_VALUE_LATENCY, 0);
  hwloc_distances_add_values(t, h, 4, n, m, 0);
  err = hwloc_distances_add_commit(t, h, HWLOC_DISTANCES_ADD_FLAG_GROUP);
  printf("commit = %d\n", err);
  hwloc_topology_check(t);
  printf("hwloc_topology_check passed\n");
  return 0;
}
