/* Reproducer: hwloc_distances_add_values() accepts objs[0]==NULL and a one-object matrix gets committed.
 * cc -I/repo/include repro.c /repo/hwloc/.libs/libhwloc.so   (exit 1 = defect present) */
#include <hwloc.h>
#include <stdio.h>
int main(void) {
  hwloc_topology_t t; hwloc_obj_t objs[2]; hwloc_uint64_t v[4] = { 1, 2, 3, 4 };
  struct hwloc_distances_s *d[4]; unsigned nr = 4; void *h; int err;
  hwloc_topology_init(&t); hwloc_topology_set_synthetic(t, "node:2 core:2 pu:2"); hwloc_topology_load(t);
  objs[0] = NULL; objs[1] = hwloc_get_obj_by_type(t, HWLOC_OBJ_PU, 0);
  h = hwloc_distances_add_create(t, "x", HWLOC_DISTANCES_KIND_FROM_USER | HWLOC_DISTANCES_KIND_VALUE_LATENCY, 0);
  err = hwloc_distances_add_values(t, h, 2, objs, v, 0);
  printf("add_values({NULL, PU0}) = %d (expected -1)\n", err);
  if (err) return 0;
  err = hwloc_distances_add_commit(t, h, 0);
  hwloc_distances_get(t, &nr, d, 0, 0);
  printf("commit = %d, get: nr=%u nbobjs=%u (fewer than 2 objects must never be stored)\n", err, nr, nr ? d[0]->nbobjs : 0);
  return 1;
}
