/* Shared scaffolding of the C19 reproducers (C19-*.c): write a synthetic topology to a shared-memory
 * file in one forked process, adopt it in another one and run `use(adopted)` there.
 * build:  gcc -I/repo/include C19-xxx.c /repo/hwloc/.libs/libhwloc.so -Wl,-rpath,/repo/hwloc/.libs -o repro
 */
#define _GNU_SOURCE
#include <hwloc.h>
#include <hwloc/shmem.h>
#include <stdio.h>
#include <stdlib.h>
#include <string.h>
#include <errno.h>
#include <unistd.h>
#include <sys/mman.h>
#include <sys/wait.h>

static int c19_run(hwloc_topology_t orig, int (*use)(hwloc_topology_t adopted))
{
  char tmp[] = "/tmp/c19-repro.XXXXXX";
  void *addr = (void *)0x300000000000UL;        /* free in both children: they are forks of this process */
  size_t len; int fd, st; pid_t p;
  setvbuf(stdout, NULL, _IONBF, 0);
  if (hwloc_shmem_topology_get_length(orig, &len, 0) < 0) return 3;
  fd = mkstemp(tmp); unlink(tmp);
  p = fork();
  if (!p) _exit(hwloc_shmem_topology_write(orig, fd, 0, addr, len, 0) ? 1 : 0);
  waitpid(p, &st, 0);
  if (!WIFEXITED(st) || WEXITSTATUS(st)) { printf("write failed\n"); return 3; }
  p = fork();
  if (!p) {
    hwloc_topology_t adopted;
    if (hwloc_shmem_topology_adopt(&adopted, fd, 0, addr, len, 0) < 0) { printf("adopt failed: %s\n", strerror(errno)); _exit(3); }
    st = use(adopted);
    hwloc_topology_destroy(adopted);
    _exit(st);
  }
  waitpid(p, &st, 0);
  if (WIFSIGNALED(st)) { printf("BUG: the adopting process was killed by signal %d (%s)\n", WTERMSIG(st), strsignal(WTERMSIG(st))); return 2; }
  return WEXITSTATUS(st);
}
