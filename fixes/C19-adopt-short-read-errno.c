/* Reproducer for: hwloc_shmem_topology_adopt() with a file offset at or past the end of the file (an
 * offset that does not match what was given to hwloc_shmem_topology_write()).  hwloc/shmem.h: "-1 with
 * errno set to EINVAL if fileoffset, mmap_address or length ... do not match what was given to
 * hwloc_shmem_topology_write() earlier".  The header read() comes back short and the function returns
 * -1 WITHOUT setting errno: the caller sees whatever errno held before (0 here, or a stale EBUSY/EPERM
 * that it would misinterpret, e.g. tests/hwloc/shmem.c treats EBUSY as "skip").
 *   expected: -1 errno=EINVAL      observed: -1 errno=0 (unchanged)
 * build:  gcc -I/repo/include C19-adopt-short-read-errno.c /repo/hwloc/.libs/libhwloc.so -Wl,-rpath,/repo/hwloc/.libs -o repro
 */
#include <hwloc.h>
#include <hwloc/shmem.h>
#include <stdio.h>
#include <stdlib.h>
#include <string.h>
#include <errno.h>
#include <unistd.h>
#include <sys/wait.h>

int main(void)
{
  hwloc_topology_t topo, adopted; char tmp[] = "/tmp/c19-repro.XXXXXX"; void *addr = (void *)0x300000000000UL;
  size_t len; int fd, st, r; pid_t p;
  hwloc_topology_init(&topo);
  hwloc_topology_set_synthetic(topo, "pack:2 core:2 pu:2");
  hwloc_topology_load(topo);
  hwloc_shmem_topology_get_length(topo, &len, 0);
  fd = mkstemp(tmp); unlink(tmp);
  p = fork();
  if (!p) _exit(hwloc_shmem_topology_write(topo, fd, 0, addr, len, 0) ? 1 : 0);
  waitpid(p, &st, 0);
  errno = 0;
  r = hwloc_shmem_topology_adopt(&adopted, fd, 16 * len, addr, len, 0);       /* wrong offset: past the end of the file */
  printf("adopt at a wrong offset = %d errno=%d (%s)\n", r, errno, strerror(errno));
  if (r == -1 && errno != EINVAL) { printf("BUG: errno is not EINVAL\n"); return 2; }
  return 0;
}
