/* hwloc_topology_load() with HWLOC_TOPOLOGY_FLAG_RESTRICT_TO_CPUBINDING restricts the topology AFTER its end-of-load refresh of the
 * distances / memory attribute caches, and hwloc_topology_dup() returns a copy whose caches were cleared: the first consulting call
 * (hwloc_distances_get) then WRITES the topology, although hwloc.h allows concurrent consulting of a loaded topology.
 * Needs a library built with -DHWLOC_VERIF (tools/build.sh): the guarded hook reports every write of the distances cache.
 *   sh /verif/tools/build.sh /var/tmp/c17d/lib plain && gcc $(cat /var/tmp/c17d/lib/flags) C17-load-binding-restrict-stale-caches.c /var/tmp/c17d/lib/libhwloc.a $(cat /var/tmp/c17d/lib/libs) -o demo && ./demo
 * exit 0 = no consulting call wrote, 1 = a consulting call refreshed (wrote) the caches of a loaded / duplicated topology. */
#define _GNU_SOURCE
#include <sched.h>
#include <stdio.h>
#include <stdlib.h>
#include <string.h>
#include <hwloc.h>
static int writes;
void hwloc_verif_event(const char *name, unsigned long a, unsigned long b) { (void)a; (void)b; if (!strcmp(name, "dist_refresh_write") || !strcmp(name, "memattr_refresh_write")) writes++; }
static int consult(hwloc_topology_t t) {
  struct hwloc_distances_s *d[8]; unsigned nr = 8, i; int before = writes;
  hwloc_distances_get(t, &nr, d, 0, 0);
  for (i = 0; i < nr && i < 8; i++) hwloc_distances_release(t, d[i]);
  return writes - before;
}
int main(void) {
  hwloc_topology_t t, c; cpu_set_t s; int bad = 0, w;
  const char *xml = getenv("DEMO_XML") ? getenv("DEMO_XML") : "/repo/tests/hwloc/xml/16amd64-8n2c.xml";
  CPU_ZERO(&s); CPU_SET(0, &s); CPU_SET(1, &s); sched_setaffinity(0, sizeof s, &s);      /* bound to PUs 0-1 */
  setenv("HWLOC_THISSYSTEM", "1", 1);
  hwloc_topology_init(&t); hwloc_topology_set_xml(t, xml);
  hwloc_topology_set_flags(t, HWLOC_TOPOLOGY_FLAG_RESTRICT_TO_CPUBINDING | HWLOC_TOPOLOGY_FLAG_IS_THISSYSTEM);
  if (hwloc_topology_load(t) < 0) { perror("load"); return 2; }
  printf("loaded %d PUs\n", hwloc_get_nbobjs_by_type(t, HWLOC_OBJ_PU));
  w = consult(t); printf("first consulting call after load wrote %d time(s)\n", w); if (w) bad = 1;
  hwloc_topology_dup(&c, t);
  w = consult(c); printf("first consulting call after dup wrote %d time(s)\n", w); if (w) bad = 1;
  hwloc_topology_destroy(c); hwloc_topology_destroy(t);
  printf(bad ? "FAIL\n" : "OK\n"); return bad;
}
