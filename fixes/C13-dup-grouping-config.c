/* Reproducer: hwloc_topology_dup() leaves the grouping configuration of the copy uninitialized;
 * hwloc_distances_add_commit(GROUP|GROUP_INACCURATE) on the copy reads grouping_accuracies[] out of bounds.
 * Build with -fsanitize=address (or run under valgrind) to see the invalid read in hwloc__groups_by_distances();
 * without it the copy groups, or not, depending on what malloc() returned.
 * cc -fsanitize=address -I/repo/include repro.c <static libhwloc built with -fsanitize=address> */
#include <hwloc.h>
#include <stdio.h>
int main(void) {
  hwloc_topology_t t, copy; hwloc_obj_t pu[4]; void *h; int i, err;
  hwloc_uint64_t m[16] = { 0, 1, 2, 3,  1, 0, 1, 2,  2, 1, 0, 1,  3, 2, 1, 0 };
  hwloc_topology_init(&t); hwloc_topology_set_synthetic(t, "node:4 core:2 pu:2"); hwloc_topology_load(t);
  hwloc_topology_dup(&copy, t);
  hwloc_topology_destroy(t);
  for (i = 0; i < 4; i++) pu[i] = hwloc_get_obj_by_type(copy, HWLOC_OBJ_PU, i < 2 ? i : i + 6);
  h = hwloc_distances_add_create(copy, NULL, HWLOC_DISTANCES_KIND_FROM_OS | HWLOC_DISTANCES_KIND_VALUE_HOPS, 0);
  hwloc_distances_add_values(copy, h, 4, pu, m, 0);
  err = hwloc_distances_add_commit(copy, h, HWLOC_DISTANCES_ADD_FLAG_GROUP | HWLOC_DISTANCES_ADD_FLAG_GROUP_INACCURATE);
  printf("commit on the duplicated topology = %d\n", err);
  hwloc_topology_check(copy);
  hwloc_topology_destroy(copy);
  return 0;
}
