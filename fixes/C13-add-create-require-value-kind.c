/* Reproducer: a structure committed with kind 0 makes the exported XML unloadable.
 * cc -I/repo/include repro.c /repo/hwloc/.libs/libhwloc.so   (exit 1 = defect present) */
#include <hwloc.h>
#include <stdio.h>
#include <errno.h>
int main(void) {
  hwloc_topology_t t, t2; hwloc_obj_t o[2]; hwloc_uint64_t v[4] = { 1, 2, 3, 4 }; void *h; char *buf; int len, err;
  hwloc_topology_init(&t); hwloc_topology_set_synthetic(t, "node:2 core:2 pu:2"); hwloc_topology_load(t);
  o[0] = hwloc_get_obj_by_type(t, HWLOC_OBJ_PU, 0); o[1] = hwloc_get_obj_by_type(t, HWLOC_OBJ_PU, 1);
  h = hwloc_distances_add_create(t, NULL, 0, 0);
  if (!h) { printf("kind 0 rejected (distances.h: exactly one VALUE_ kind)\n"); return 0; }
  hwloc_distances_add_values(t, h, 2, o, v, 0); hwloc_distances_add_commit(t, h, 0);
  hwloc_topology_export_xmlbuffer(t, &buf, &len, 0);
  hwloc_topology_init(&t2); hwloc_topology_set_xmlbuffer(t2, buf, len);
  err = hwloc_topology_load(t2);
  printf("kind 0 accepted; loading the exported XML = %d errno=%d (expected 0)\n", err, errno);
  return err != 0;
}
