/* hwloc_type_sscanf() reads past the end of its internal type-name literals when the
 * character that follows a complete type name is 0xE0 (i.e. '\0' + 'A' - 'a' as a signed char) */
#include <hwloc.h>
#include <stdio.h>
int main(void)
{
  hwloc_obj_type_t type;
  union hwloc_obj_attr_u attr;
  int err = hwloc_type_sscanf("gpu\xe0" "x", &type, &attr, sizeof(attr));
  printf("err=%d\n", err);
  return 0;
}
