/* Reproducer for: modifying entry points without the adopted-topology guard.  restrict, insert_misc,
 * alloc/insert/free_group, distances_add_create/remove/remove_by_depth and diff_apply return -1/EPERM
 * on an adopted (read-only) topology; hwloc_memattr_register(), hwloc_memattr_set_value(),
 * hwloc_cpukinds_register(), hwloc_distances_release_remove(), hwloc_obj_set_subtype() and
 * hwloc_topology_refresh() have no such test and free()/realloc()/write memory of the PROT_READ
 * mapping: abort in realloc()/free() ("invalid pointer") or SIGSEGV.
 * Run with the name of the call; without argument all are tried, each in a fresh adopter.
 *   expected: -1 EPERM (0 for refresh)      observed: SIGSEGV / SIGABRT
 */
#include "C19-repro-common.h"
#include <hwloc/distances.h>
#include <hwloc/memattrs.h>
#include <hwloc/cpukinds.h>

static const char *which;

static int use(hwloc_topology_t t)
{
  hwloc_bitmap_t set = hwloc_bitmap_alloc(); hwloc_memattr_id_t id; int r = -2;
  hwloc_bitmap_set(set, 1);
  errno = 0;
  if (!strcmp(which, "memattr_register")) r = hwloc_memattr_register(t, "other", HWLOC_MEMATTR_FLAG_LOWER_FIRST, &id);
  else if (!strcmp(which, "memattr_set_value")) r = hwloc_memattr_set_value(t, HWLOC_MEMATTR_ID_BANDWIDTH, hwloc_get_obj_by_type(t, HWLOC_OBJ_NUMANODE, 0), &(struct hwloc_location){ .type = HWLOC_LOCATION_TYPE_CPUSET, .location.cpuset = set }, 0, 5);
  else if (!strcmp(which, "cpukinds_register")) r = hwloc_cpukinds_register(t, set, 3, NULL, 0);
  else if (!strcmp(which, "release_remove")) { unsigned nr = 1; struct hwloc_distances_s *d; if (!hwloc_distances_get(t, &nr, &d, 0, 0) && nr) r = hwloc_distances_release_remove(t, d); }
  else if (!strcmp(which, "set_subtype")) r = hwloc_obj_set_subtype(t, hwloc_get_root_obj(t), "x");
  else if (!strcmp(which, "refresh")) r = hwloc_topology_refresh(t);
  printf("%s = %d (%s)\n", which, r, strerror(errno));
  return 0;
}

int main(int argc, char **argv)
{
  static const char *all[] = { "memattr_register", "memattr_set_value", "cpukinds_register", "release_remove", "set_subtype", "refresh", NULL };
  hwloc_topology_t topo; hwloc_obj_t nodes[2]; hwloc_uint64_t vals[4] = { 10, 20, 20, 10 };
  hwloc_distances_add_handle_t h; hwloc_bitmap_t set = hwloc_bitmap_alloc(); int i, bad = 0;
  hwloc_topology_init(&topo);
  hwloc_topology_set_synthetic(topo, "node:2 core:2 pu:2");
  hwloc_topology_load(topo);
  nodes[0] = hwloc_get_obj_by_type(topo, HWLOC_OBJ_NUMANODE, 0); nodes[1] = hwloc_get_obj_by_type(topo, HWLOC_OBJ_NUMANODE, 1);
  h = hwloc_distances_add_create(topo, "d", HWLOC_DISTANCES_KIND_VALUE_LATENCY | HWLOC_DISTANCES_KIND_FROM_USER, 0);
  hwloc_distances_add_values(topo, h, 2, nodes, vals, 0);
  hwloc_distances_add_commit(topo, h, 0);
  hwloc_bitmap_set_range(set, 0, 3); hwloc_cpukinds_register(topo, set, 1, NULL, 0);
  for (i = 0; all[i]; i++) {
    if (argc > 1 && strcmp(argv[1], all[i])) continue;
    which = all[i];
    if (c19_run(topo, use)) bad++;
  }
  return bad ? 2 : 0;
}
