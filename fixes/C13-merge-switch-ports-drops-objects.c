/* Reproducer: HWLOC_DISTANCES_TRANSFORM_MERGE_SWITCH_PORTS removes every object listed after the first port.
 * cc -I/repo/include repro.c /repo/hwloc/.libs/libhwloc.so   (exit 1 = defect present) */
#include <hwloc.h>
#include <stdio.h>
int main(void) {
  hwloc_topology_t t; hwloc_obj_t c[4]; struct hwloc_distances_s *d[2]; unsigned nr = 2, i; void *h; int err;
  hwloc_uint64_t m[16] = { 0, 3, 5, 7,  3, 0, 11, 13,  5, 11, 0, 17,  7, 13, 17, 0 };
  hwloc_topology_init(&t); hwloc_topology_set_synthetic(t, "core:4 pu:1"); hwloc_topology_load(t);
  for (i = 0; i < 4; i++) c[i] = hwloc_get_obj_by_type(t, HWLOC_OBJ_CORE, i);
  hwloc_obj_set_subtype(t, c[1], "NVSwitch");               /* the only switch port is the second object */
  h = hwloc_distances_add_create(t, "NVLinkBandwidth", HWLOC_DISTANCES_KIND_FROM_USER | HWLOC_DISTANCES_KIND_VALUE_BANDWIDTH, 0);
  hwloc_distances_add_values(t, h, 4, c, m, 0); hwloc_distances_add_commit(t, h, 0);
  hwloc_distances_get(t, &nr, d, 0, 0);
  err = hwloc_distances_transform(t, d[0], HWLOC_DISTANCES_TRANSFORM_MERGE_SWITCH_PORTS, NULL, 0);
  printf("transform = %d, nbobjs = %u (expected 4: one port, nothing to merge, three other objects)\n", err, d[0]->nbobjs);
  return d[0]->nbobjs != 4;
}
