/* Reproducer for the C10 finding: hwloc_alloc_membind() does not reject an unknown flag bit
 * (or an invalid policy) when the set is a CPU set that fails validation and
 * HWLOC_MEMBIND_STRICT is not given: hwloc_fix_membind_cpuset() fails first and the
 * non-strict fallback returns plain memory before flags / policy are ever looked at.
 * The by-nodeset path (HWLOC_MEMBIND_BYNODESET) checks flags and policy first and returns
 * NULL / EINVAL for the very same arguments.
 *
 *   gcc repro.c -I/repo/include /repo/hwloc/.libs/libhwloc.so -o repro && ./repro
 * expected (after the fix): all four calls print "NULL errno=EINVAL"
 * observed on the unpatched tree: calls 1 and 2 return a pointer.
 */
#include <hwloc.h>
#include <stdio.h>
#include <errno.h>
#include <string.h>

static void show(const char *what, void *p) {
  printf("%-60s -> %s errno=%s\n", what, p ? "pointer" : "NULL", errno == EINVAL ? "EINVAL" : strerror(errno));
}

int main(void) {
  hwloc_topology_t t;
  hwloc_bitmap_t empty = hwloc_bitmap_alloc();
  void *p;
  hwloc_topology_init(&t);
  hwloc_topology_set_synthetic(t, "node:2 pu:2");
  hwloc_topology_load(t);

  errno = 0; p = hwloc_alloc_membind(t, 4096, empty, HWLOC_MEMBIND_BIND, 1 << 20);
  show("1. cpuset, unknown flag bit, empty set", p);
  errno = 0; p = hwloc_alloc_membind(t, 4096, empty, (hwloc_membind_policy_t) 42, 0);
  show("2. cpuset, invalid policy, empty set", p);
  errno = 0; p = hwloc_alloc_membind(t, 4096, empty, HWLOC_MEMBIND_BIND, (1 << 20) | HWLOC_MEMBIND_BYNODESET);
  show("3. nodeset, unknown flag bit, empty set", p);
  errno = 0; p = hwloc_alloc_membind(t, 4096, empty, (hwloc_membind_policy_t) 42, HWLOC_MEMBIND_BYNODESET);
  show("4. nodeset, invalid policy, empty set", p);
  return 0;
}
