#!/usr/bin/env python3
"""Regenerates /verif/MANIFEST.json from the table below (one source of truth)."""
import json, os
V = os.path.dirname(os.path.dirname(os.path.abspath(__file__)))
ALL = ["C%02d" % i for i in range(1, 21)]

CHECKS = {
 "C03": dict(
   technique="TLA+ register-machine model of the bitmap API (exhaustive TLC BFS over (set, word-count) states + TLC simulation over boundary/random block maps); every model behaviour replayed on the rebuilt library; recorded traces validated by TLC against spec/TraceBitmap.tla",
   category="model_checking",
   text="Every operation result, every aliasing pattern and the full query battery are compared with the specification's set semantics on every state of the bounded model (all pairs of representations of all sets over a two-word block map) and on simulated histories over wider maps; equality is the unique documented answer, so any mismatch is a violation.",
   design_ref="DESIGN.md section 6, C03",
   note="Trusted: TLC, the Json community module, the recorder's projection through hwloc_bitmap_next/next_unset (itself cross-checked against isset probes by the trace spec). Not explored: ENOMEM paths, indexes above 2^20."),
 "C01": dict(
   technique="TLA+ specification of a well-formed topology (spec/Topology.tla, one named conjunct per clause of the property) evaluated by TLC on the full projection of every topology the rebuilt library loads; configurations (filter and flag call sequences, legal and illegal, and the caller's own CPU binding before a RESTRICT_TO_CPUBINDING load) enumerated and simulated by TLC from spec/MC_Load.tla + Lifecycle.tla and replayed over synthetic families, bundled XML, Linux snapshots, CPUID dumps and the live machine",
   category="model_checking",
   text="TLC enumerates the configuration model and validates each recorded load against the configuration relations (SetFlagsRel, SetFilterRel) and the 20-clause WellFormed predicate, which is written from the property and independent of hwloc_topology_check(); hwloc_topology_check() itself is run in a forked child and its abort is one clause. The source x configuration product is sampled per source in the quick tier and much wider in the thorough tier.",
   design_ref="DESIGN.md section 6, C01",
   note="Trusted: TLC, the projection code in harness/project.h (public accessors only). Not covered: backends that need hardware not present; RESTRICT_TO_*BINDING flags on the live machine."),
 "C02": dict(
   technique="TLA+ model of histories of public modifying calls (spec/MC_TopoOps.tla: every single call, BFS over every edge to depth 2, focused configurations to depth 3 (tree-reshaping calls) and 4 (store-filling calls), simulation to depth 8-10, valid and invalid arguments, edges sampled round-robin over model-computed call signatures) replayed on the rebuilt library over synthetic and XML-sourced families (nested memory, permuted NUMA indexes, memory-side caches, offline and dropped-disallowed processors, a topology whose stores are filled from the start); after every call TLC evaluates the per-call relation of spec/TopoOps.tla (incl. the frame of the distances / memattr / cpukind stores), the WellFormed predicate, gp_index/userdata stability and unchanged-on-error on the recorded projections (spec/TraceTopo.tla)",
   category="model_checking",
   text="Each call of each history is judged by a relation transcribed from hwloc.h (what must change, what must not, which errors leave the topology untouched) plus the full C01 predicate, on the complete projection of the topology; histories come from exhaustive enumeration of the bounded model's edges (sampled with VERIF_SEED in the quick tier) and from TLC simulation.",
   design_ref="DESIGN.md section 6, C02",
   note="Trusted: TLC, projection code. Distances/memattr/cpukind store contents are judged by C13/C14/C15; here only their effect on the object tree. ENOMEM and backend-only entry points are not driven."),
 "C08": dict(
   technique="TLA+ design model of restrict on resources (spec/MC_Restrict.tla: all 33 flag words x argument sets, once and twice; invariants NeverEmpty/Monotone/ComposeOK) whose state-graph edges are replayed on the rebuilt library over nine topology families x filter presets; TLC evaluates RestrictRel (14 named checks, spec/TopoOps.tla) between the projections before and after each call",
   category="model_checking",
   text="RestrictRel states exactly the property: required and allowed failures with the topology unchanged, exact new sets for every survivor, PUs/NUMA nodes kept iff in the set, disappearance only by emptiness or level merging, Misc/I-O dropped or re-attached per the ADAPT flags, survivors below their closest surviving ancestor, WellFormed afterwards. Every (flags, set) pair of the bounded model is an implementation test in the thorough tier; the quick tier takes a seeded stripe.",
   design_ref="DESIGN.md section 6, C08",
   note="Trusted: TLC, projection code. Which of two mergeable levels survives a KEEP_STRUCTURE merge is not asserted. Topologies are synthetic families (<= 8 PUs) plus an XML-rendered I/O subtree."),
 "C11": dict(
   technique="TLC-checked TLA+ specification of the type vocabulary, the string-contract relations and a reference print/parse/compare implementation (spec/Types.tla, MC_Types.tla); TLC enumerates the reachable attribute product x flag words, each transition is replayed on the ASan-built library with guard bytes, and every recorded event is validated by TLC against the relations (spec/TraceTypes.tla)",
   category="model_checking",
   text="Every relation of the property is checked on the real code for the entire bounded product: all 20 types, all load-reachable attribute values, all flag words, every buffer size 0..needed+1, all 400 compare pairs, and all objects of the bundled XML inputs; the reference model is shown by TLC to satisfy the relations. Not a proof for arbitrary info-attribute contents or strings outside the sweep.",
   design_ref="DESIGN.md section 6, C11",
   note="Trusted: enum values of the pinned hwloc.h, the recorder's projection (guard counts, first NUL), XML load as the only source of objects. One known finding (mixed unified/data cache level prints two texts)."),
 "C12": dict(
   technique="the C02 model with two topology slots (spec/MC_TopoOps.tla, TwoSlots): histories of modifications, dup, modifications on either copy - also the same call mirrored on both copies (Mirror) -, destroy in either order, replayed on the rebuilt ASan+LSan library, plus every family x load configuration and every bundled XML file (thorough: every snapshot) loaded, duplicated and restricted; TLC checks DupRel (full projection equality including stores, userdata pointers and XML export digest), the Twin relation (the same call on a copy and on its original returns the same answers and leaves the same projection) and, after every later call, that the copy that was not the target reports exactly the same projection and digest (spec/TraceTopo.tla)",
   category="model_checking",
   text="Equivalence is equality of the complete public projection plus the XML export digest; independence is the frame condition evaluated after every call on the other copy; invalid accesses at destroy are observed by ASan in the recorder (Crash event, which the specification rejects).",
   design_ref="DESIGN.md section 6, C12",
   note="Trusted: TLC, projection code. 'Shares no mutable storage' is decided observationally (the other copy never moves, the two copies answer every later call alike, no sanitizer or leak event), not by pointer analysis."),
 "C04": dict(
   technique="TLC-checked TLA+ specification of the three bitmap text formats (printers, documented-grammar parsers, snprintf/sscanf relations: spec/BitmapStr.tla, MC_BitmapStr.tla); model histories - unions of boundary blocks, and a model-computed text-length ladder (a witness for every producible text length up to 264 / 520 characters per format, finite and infinite, printed at the buffer lengths around its own length) - are replayed on the ASan-built library with guard bytes and the recorded traces are validated by TLC (spec/TraceBitmapStr.tla)",
   category="model_checking",
   text="The property relations are checked exhaustively on structured value families (every buffer length 0..needed+1, NULL/0, asprintf agreement, round trips, documented grammar variants) and every enumerated history is validated against the real code; hostile strings are sampled from the seed and judged by the weak contract plus print-then-parse stability. Bounded: values, widths and strings are finite families.",
   design_ref="DESIGN.md section 6, C04",
   note="Trusted: TLC, the recorder's projection through hwloc_bitmap_first/next/next_unset, ASan for out-of-bounds reads. Indexes below 640 in the models; ENOMEM not explored; exact canonical text is SPEC-DRIFT only unless HWV_C04_STRICT=1 (membership in the documented output language and denoting the right set are decisive)."),
 "C05": dict(
   technique="TLA+ relations for XML documents (spec/XmlDoc.tla: Equivalent over the full projection incl. distances, memattrs, cpukinds, support bits, strings modulo documented non-exportable characters; SameTreeAndSets for v2; byte-identical re-export; userdata delivery lists) checked by TLC on traces of the rebuilt library (TXmlExport/TXmlImport in spec/TraceTopo.tla) for TLC-simulated modification histories of the C02 model and every bundled input, through the {buffer,file} x {buffer,file} x {v3,v2} x {userdata} matrix under the libxml/nolibxml backend pairs",
   category="model_checking",
   text="Equivalence is equality of the complete public projection (objects, sets, attributes, infos, stores) between the exported topology and the reloaded one, the fixpoint is digest equality of the exported bytes, userdata is compared as the exact list of deliveries; histories come from the TLC model of modifying calls, so annotated/restricted/grouped topologies with distances, memattrs and cpukinds are covered, not only pristine loads.",
   design_ref="DESIGN.md section 6, C05",
   note="Trusted: TLC, projection code, FNV digest of the bytes. The XML text itself is not parsed by the specification. Support bits are exported only when the importer requests them (IMPORT_SUPPORT), as in the repository's own tests. One known finding (NUMA complete_cpuset with offline PUs)."),
 "C16": dict(
   technique="TLC exhaustively enumerates edit sets and hand-built diff lists over a bounded abstract topology (spec/Diff.tla, MC_Diff.tla), checks the diff relations on the model, and every emitted scenario is replayed on the rebuilt library with both XML backends and validated by TLC against the same relations (spec/TraceDiff.tla)",
   category="model_checking",
   text="The property's relations (build iff-cases, apply result, exact rollback, reverse restore, XML round trip with refname) are checked against real executions for every scenario of the bounded model (<= 3 edits, <= 3 entries) plus simulated longer ones; exhaustive within those bounds and sampled beyond.",
   design_ref="DESIGN.md section 6, C16",
   note="Trusted: projection in hwv_diff.c (public API only), TLC, Json module. Topologies are synthetic; distances/memattrs/cpukinds inequality paths and allocation failures are not explored."),
 "C13": dict(
   technique="explicit TLA+ specification of the distances store (spec/Distances.tla, MC_Distances.tla: separate create/values/commit actions, queries, transforms, removals, restrict/dup/XML/shmem) checked exhaustively by TLC on bounded configurations; TLC-emitted behaviours are replayed on the ASan/UBSan-built library and every recorded call is validated by TLC against the same relations (spec/TraceDistances.tla)",
   category="model_checking",
   text="The property relations are checked on the complete bounded state graphs, and the TLC-generated behaviours plus the bundled XML inputs with distances are validated event by event against the real code: every event carries the full hwloc_distances_get state, compared as a bag with what the relation allows. Bounds: <= 4 objects per matrix in the model (7 in simulation), <= 3 structures, values below 2^24, edges striped in the quick tier.",
   design_ref="DESIGN.md section 6, C13",
   note="Trusted: TLC with the Json module, the recorder (no oracle logic), gp_index stability across dup and v3 XML. Returned order is not checked (bag comparison). Grouping quality is not specified; only hwloc_topology_check after GROUP commits. Must/May sets where the documentation leaves things open."),
 "C06": dict(
   technique="TLA+ model of structure-aware XML mutations (spec/MC_XmlMut.tla: every single drop/set/duplicate-attribute, duplicate/drop/swap-element, cut, DOCTYPE, retype, text-content, truncate and version mutation of each base document, partitioned by the model into classes - mutation kind x element name x attribute name x pool value - of which every one is replayed, simulated 2-3 mutation recipes) plus seeded byte-level damage; each document is loaded by the ASan+UBSan+LSan recorder (harness/hwv_xmlload.c, watchdog) under both XML import backends and the recorded event is validated by TLC against the lifecycle relation and the WellFormed predicate (spec/TraceXmlLoad.tla)",
   category="model_checking",
   text="The state-machine clauses are decided by the specification on every document: set/load return 0 or -1, a load that succeeds yields a well-formed topology (C01) on which the whole read-only battery returns, a load that fails leaves a topology that is destroyed or configured and loaded again, hwloc's own exports load. Memory safety, hangs and leaks are observed by the instrumented recorder and turned into events that the specification rejects; that part is exploration, not proof.",
   design_ref="DESIGN.md section 6, C06",
   note="Trusted: TLC, projection code, ASan/UBSan/LSan, the Python tokenizer that applies recipes to bytes (the bytes are stored in the replay). No MSan build (libxml2 is not instrumented)."),
 "C09": dict(
   technique="TLC enumerates all helper queries over the real projection of each of 17-19 bounded topology families (spec/MC_Helpers.tla, which also checks the brute-force definitions of spec/Helpers.tla on the model); every query is executed on the rebuilt library and validated by TLC against the same TLA+ definitions (spec/TraceHelpers.tla)",
   category="model_checking",
   text="Exhaustive for topologies of up to 8 PUs over all argument subsets, objects, pairs, depths, types, n and until; sampled for 12-16 PUs. Equality is demanded where the documentation determines the answer, a relation where it leaves a choice (largest_objs with a small array, ties in closest_objs, rounding in hwloc_distrib).",
   design_ref="DESIGN.md section 6, C09",
   note="Trusted: project.h, WellFormed as the hypothesis, TLC. Helpers documented as needing cpusets are not called on I/O or Misc objects; an infinite tail in an argument set is cut at index 1023; errno values are not judged. Distrib disjointness is demanded when n <= #PUs and `until` does not cut the recursion (see DESIGN.md)."),
 "C10": dict(
   technique="explicit TLA+ relation per binding entry point (spec/Bind.tla Rel: argument validation, legal sets only, the canonical-form equivalence SameHandling, and WholeServed - unconstrained requests under an announced policy must reach the OS), TLC-exhaustive bounded model of bind.c with dummy and Linux hooks over an abstract kernel checked against it (spec/MC_Bind.tla) on 10 hand-picked topology kinds and on one topology per model-computed shape class (spec/MC_BindShape.tla) with model-computed boundary classes of sets (spec/BindClasses.tla), transition tours (each memory request followed by its canonical twin) replayed on the rebuilt library with sched_setaffinity, pthread_setaffinity_np and syscall() interposed, and the recorded ndjson validated by TLC (spec/TraceBind.tla)",
   category="model_checking",
   text="The bounded model is explored exhaustively (10 topology kinds x all flag words x all sets over 6-7 atoms x policies; all reachable affinity and policy states); every explored transition (thorough) or a seeded fraction (quick) is executed on the real library and each event, including what reached the OS, is decided by the relation; live round trips run on this machine.",
   design_ref="DESIGN.md section 6, C10",
   note="Trusted: Linux kernel semantics of sched_setaffinity/set_mempolicy/mbind (read back with raw syscalls), the interposition layer, the recorder, TLC. Assumes an x86_64 Linux sandbox with >= 4 allowed CPUs; kernel refusals accepted where the property leaves them open; hwloc_topology_set_pid and RESTRICT_TO_*BINDING not explored."),
 "C14": dict(
   technique="TLA+ model of the memory-attribute store (spec/MemAttrs.tla: abstract reference table plus a transcription of memattrs.c with lazy refresh and XML replay), explored by TLC with exhaustive BFS and simulation (spec/MC_MemAttrs.tla); every emitted history is replayed on the rebuilt library with a full query battery and validated by TLC (spec/TraceMemAttrs.tla); bundled inputs with memattrs are adopted and round-tripped",
   category="model_checking",
   text="Every logged result of every query is judged by the relations of the property on each striped state and edge of the bounded models (3 NUMA nodes incl. CPU-less and larger-locality ones x 4 PUs, all flag words, values with ties, <= 4 steps) and on longer simulated histories over five families; the model invariants also show that the constructive design satisfies the relations.",
   design_ref="DESIGN.md section 6, C14",
   note="Trusted: TLC, Json module, recorder projection (public API only), the restrict projection from the log (C08). errno demanded only where memattrs.h documents it; overlapping cpuset initiators get only the weak contract; v2 XML judged for success + self-consistency; ENOMEM and memory-tier guessing not explored."),
 "C15": dict(
   technique="explicit TLA+ specification of the cpukinds subsystem (spec/CpuKinds.tla: oracle relations + transcription of cpukinds.c); TLC exhaustively model-checks the property on four bounded models (spec/MC_CpuKinds.tla); TLC-generated behaviours (per state-graph edge plus simulated walks incl. restrict, dup, XML) are replayed on the ASan-built library; TLC validates every recorded event against the same relations (spec/TraceCpuKinds.tla)",
   category="model_checking",
   text="The partition, info-accumulation, ranking and lookup relations are TLC invariants over four exhaustively explored bounded models; every observable state after every call of every replayed behaviour - including all get_by_cpuset answers for every subset - is judged by the specification alone.",
   design_ref="DESIGN.md section 6, C15",
   note="Trusted: TLC, Json module, recorder projection. Bounds: <= 4 PUs and <= 4 registrations exhaustively, 8 atoms at depth 8 sampled. Last-wins reading of forced efficiencies; restrict by cpuset with flags 0 only; ENOMEM not explored; HWLOC_CPUKINDS_RANKING unset."),
 "C17": dict(
   technique="TLA+ protocol model of the shared state consulting calls may touch (spec/Concurrency.tla: distances and memattr caches, environment caches, the reference-counted components registry and its mutex) model-checked exhaustively by TLC with the documented discipline (NoReaderWrite, NoRace, RegistryOK invariants) and without it (TLC must find the reader write); every public entry point that takes the registry (init, dup, adopt, destroy, shmem get_length/write, diff load/export, succeeding and failing) is a call whose RegInit/RegFini footprint must obey the per-call balance law of spec/Registry.tla; histories of independent threads are generated by TLC from spec/IndepCalls.tla; binding through HWLOC_VERIF hook events recorded by harness/hwv_threads.c (consulting battery on a shmem-adopted read-only copy, 2-16 reader threads after load and after modify+refresh, 2-12 threads with independent topology histories) and validated by TLC against spec/TraceConcurrency.tla",
   category="model_checking",
   text="The protocol is decided exhaustively on the model; on the real library every reader phase is checked for the absence of any hooked write (including in the first single-threaded run) and for digest equality of everything the consulting API reports with the single-threaded run, the adopted PROT_READ copy turns any write to topology memory by a consulting call into a crash, and the registry events emitted under the components mutex are replayed against RegInit/RegFini. Real schedules are sampled, not enumerated: that part is exploration.",
   design_ref="DESIGN.md section 6, C17",
   note="Trusted: TLC, the four guarded hooks (add-only, HWLOC_VERIF), the digest battery. Race-freedom is decided only for the shared state the model names plus all topology memory (through the read-only mapping); no ThreadSanitizer verdict is used."),
 "C07": dict(
   technique="TLA+ specification of the synthetic description grammar and its semantics (spec/Synthetic.tla: Render, BuildRel, ExportRetRel, SnprintfRel, FlagTextRel, RoundTripRel, all parameterised by the type filters of the target topology); TLC enumerates the bounded grammar (typed, untyped, instruction-cache levels, the 128-level boundary) and, per description, the set_type_filter calls made before or after set_synthetic (every non-default kind on its level types, pairs, documented refusals) from spec/MC_Synthetic.tla (BFS stripes + simulation) plus seeded hostile strings; each behaviour is run against the rebuilt ASan library (exports at every buffer length, reload of every export text) and trace-validated by TLC (spec/TraceSynthetic.tla)",
   category="model_checking",
   text="Bounded model checking plus conformance. Every word of the bounded grammar (<= 3-4 levels, arities <= 3, all index forms, all 16 export flag words, every buffer length, the 128-level boundary) that is emitted satisfies BuildRel / ExportRetRel / SnprintfRel / RoundTripRel on the real code, and 2k-11k hostile strings satisfy the weak contract (0 or -1/EINVAL, no crash). Not a proof beyond the bounds; stripes and simulation make quick a sample, thorough a 50k-description cap.",
   design_ref="DESIGN.md section 6, C07 and section 12.3",
   note="Trusted: TLC, the recorder's logging (cross-checked by SumOf against the project.h projection), the ASan/UBSan build. Assumptions: default type filters; conventional type order; hostile strings that may describe more than 12000 objects are parsed but not loaded; attached-NUMA index order at several depths is judged as a set only; -coverage replaced by feature counts in the evidence file."),
 "C18": dict(
   technique="TLC enumerates and simulates (snapshot, fault set, configuration) tuples and the load / load / XML-trip protocol from spec/MC_Snapshot.tla over the path tables of the 73 bundled Linux snapshots and x86 CPUID dumps; each tuple is executed on a hard-linked scratch copy by the ASan+UBSan+LSan recorder harness/hwv_snapshot.c, and TLC validates the recorded ndjson against spec/TraceSnapshot.tla (WellFormed, Deterministic, DisallowedRel, XmlSelfConsistent); staggered removals on the snapshots with CPU kinds (attribute class j removed on the CPUs i with (i + offset) % modulus = j % modulus, so that the partitions of the CPUs by the different ranking attributes stop nesting)",
   category="model_checking",
   text="Conformance of the real loader to the four TLA+ relations on a seeded sample of the fault space. Exhaustive only for the unmodified snapshots under every configuration, for the always-removed key paths, and (thorough) for single and pairwise removals on the ~20 snapshots with at most 60 core paths. All other fault sets are striped or simulated, because the property quantifies over all subsets of up to 16k paths.",
   design_ref="DESIGN.md section 6, C18 and section 12.3",
   note="Trusted: harness/project.h and project_stores.h, the 64-bit FNV digest standing for a projection logged earlier in the same behaviour, the in-process hwloc_topology_check result, Python's path tables (cross-checked by an ASSUME and by the recorder's lstat kind). Refused CPUID dumps are judged on the host's CPUID. RESTRICT_TO_*BINDING and IS_THISSYSTEM flag words are not driven. Quick takes 4-9 minutes on a loaded machine."),
 "C19": dict(
   technique="Explicit TLA+ protocol model of the master / writer / adopter sharing protocol (spec/Shmem.tla, MC_Shmem.tla: file images with damaged-field sets, address-range preparation, up to two adopted topologies, the 54-call alphabet on an adopted copy) checked by TLC (exhaustive BFS over five focused configurations plus simulation; invariants on adoption provenance, range disjointness, allowed-set changes); every emitted history is replayed on the rebuilt ASan/UBSan library in separate forked processes inside a PROT_NONE reservation by harness/hwv_shmem.c and validated by TLC against spec/TraceShmem.tla",
   category="model_checking",
   text="Model checking of the bounded protocol plus conformance. The model is exhaustive within its bounds and every edge (seeded sample in quick) is validated on the real code with a full-equality oracle (projection, XML digest, store queries, mapping bytes, file bytes around the segment). Guard pages and an 8-byte size sweep make any length underestimate a crash. Not a proof: finite topologies and histories, one ABI.",
   design_ref="DESIGN.md section 6, C19 and section 12.3",
   note="Trusted: project.h, the FNV digests, Linux mmap semantics (hinted mmap, MAP_FIXED_NOREPLACE probe), the recorder's environment model Prepared/Avail. The adopter is always a fork of the master (same layout); cross-ABI is simulated by flipping header and ABI bytes. ENOMEM paths and object-level calls without a topology argument are not driven."),
 "C20": dict(
   technique="TLC enumerates hwloc-calc, hwloc-distrib, lstopo and hwloc-diff+patch command lines from a TLA+ accumulator model (spec/Calc.tla, MC_Calc.tla) evaluated on the projection of the very input the tools load; every invocation of the tool binaries rebuilt from the working tree (tools/build_utils.sh, ASan+UBSan) is one trace event validated by TLC against the documented-grammar relations of spec/TraceCalc.tla",
   category="model_checking",
   text="Conformance by trace validation over a bounded, striped enumeration: about 8k invocations in quick and about 130k in thorough, over 13 input families. Every enumerated command line is judged exactly for set equality in the documented output language, list / count / feedback consistency, export text equality and reload equivalence. Not a proof: alphabet, sequence length (<= 3) and topologies are bounded and sampled by stripe.",
   design_ref="DESIGN.md section 6, C20 and section 12.3",
   note="Trusted: that harness/hwv_calc.c configures its load as each tool does (bound to the tool's options in TraceCalc.tla), Python's stdout line splitting and exit/signal recording, BitmapStr's output-language operators. Not modelled: --no-smt, --cpukind, --local-memory, --best-memattr, stdin mode, type filters, hwloc-distrib --ignore. Where hwloc(7) leaves a location open only exit status and absence of crash are checked."),
}
NA_REASON = {}

def main():
    checks = []
    for pid in ALL:
        if pid not in CHECKS:
            continue
        c = CHECKS[pid]
        checks.append({
            "property_id": pid,
            "quick_cmd": "python3 tools/check.py %s --tier quick" % pid,
            "thorough_cmd": "python3 tools/check.py %s --tier thorough" % pid,
            "evidence_file": "/verif/evidence/%s.json" % pid,
            "replay_cmd_template": "python3 tools/check.py %s --replay {path}" % pid,
            "engine": "tlc-trace-validation",
            "level_claimed": {"category": c["category"], "text": c["text"], "design_ref": c["design_ref"]},
            "level_note": c["note"],
            "technique": c["technique"],
        })
    na = [{"property_id": p, "reason": NA_REASON.get(p, "check not built yet in this session (work in progress; see DESIGN.md section 10 for the build order)")}
          for p in ALL if p not in CHECKS]
    m = {
        "version": 1,
        "setup_cmd": "sh tools/setup.sh",
        "hooks": {
            "guard": "HWLOC_VERIF",
            "enable": "tools/build.sh compiles /repo/hwloc/*.c from the current working tree with -DHWLOC_VERIF (and ASan+UBSan) into a scratch static archive; nothing is built inside /repo",
            "baseline_off_cmd": "cd /repo && export PATH=$PATH:/root/miniconda/bin && make -j8 >/dev/null && make -k check -j8",
            "source_commits": ["0af93bf", "7906089", "afe8a5f", "b332524"],
            "add_only": True,
        },
        "engines": [
            {"name": "tlc-trace-validation", "path": "tools/check.py",
             "serves_properties": [c["property_id"] for c in checks],
             "kind_free_text": "TLA+ specifications in spec/ model-checked with TLC; TLC-generated behaviours are replayed on the library rebuilt from /repo by the recorders in harness/, and the recorded ndjson traces are validated by TLC against the Trace*.tla specifications"},
        ],
        "checks": checks,
        "not_applicable": na,
        "notes": "tools/selftest.py (development aid, not a registered check) applies mutants/*.patch and seeded/*/patch.diff to a scratch copy and expects VIOLATION. known_findings.jsonl lists recorded defects and fixed: entries.",
    }
    json.dump(m, open(os.path.join(V, "MANIFEST.json"), "w"), indent=1)
    print("wrote MANIFEST.json with", len(checks), "checks,", len(na), "not_applicable")

if __name__ == "__main__":
    main()
