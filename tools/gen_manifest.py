#!/usr/bin/env python3
"""Regenerates /verif/MANIFEST.json from the table below (one source of truth)."""
import json, os
V = os.path.dirname(os.path.dirname(os.path.abspath(__file__)))
ALL = ["C%02d" % i for i in range(1, 21)]

CHECKS = {
 "C03": dict(
   technique="TLA+ register-machine model of the bitmap API (exhaustive TLC BFS over (set, word-count) states + TLC simulation over boundary/random block maps); every model behaviour replayed on the rebuilt library; recorded traces validated by TLC against spec/TraceBitmap.tla",
   category="model_checking",
   text="Every operation result, every aliasing pattern and the full query battery are compared with the specification's set semantics on every state of the bounded model (all pairs of representations of all sets over a two-word block map) and on simulated histories over wider maps; equality is the unique documented answer, so any mismatch is a violation.",
   design_ref="DESIGN.md section 6, C03",
   note="Trusted: TLC, the Json community module, the recorder's projection through hwloc_bitmap_next/next_unset (itself cross-checked against isset probes by the trace spec). Not explored: ENOMEM paths, indexes above 2^20."),
 "C01": dict(
   technique="TLA+ specification of a well-formed topology (spec/Topology.tla, one named conjunct per clause of the property) evaluated by TLC on the full projection of every topology the rebuilt library loads; configurations (filter and flag call sequences, legal and illegal) enumerated and simulated by TLC from spec/MC_Load.tla + Lifecycle.tla and replayed over synthetic families, bundled XML, Linux snapshots, CPUID dumps and the live machine",
   category="model_checking",
   text="TLC enumerates the configuration model and validates each recorded load against the configuration relations (SetFlagsRel, SetFilterRel) and the 20-clause WellFormed predicate, which is written from the property and independent of hwloc_topology_check(); hwloc_topology_check() itself is run in a forked child and its abort is one clause. The source x configuration product is sampled per source in the quick tier and much wider in the thorough tier.",
   design_ref="DESIGN.md section 6, C01",
   note="Trusted: TLC, the projection code in harness/project.h (public accessors only). Not covered: backends that need hardware not present; RESTRICT_TO_*BINDING flags on the live machine."),
}
NA_REASON = {}

def main():
    checks = []
    for pid in ALL:
        if pid not in CHECKS:
            continue
        c = CHECKS[pid]
        checks.append({
            "property_id": pid,
            "quick_cmd": "python3 tools/check.py %s --tier quick" % pid,
            "thorough_cmd": "python3 tools/check.py %s --tier thorough" % pid,
            "evidence_file": "/verif/evidence/%s.json" % pid,
            "replay_cmd_template": "python3 tools/check.py %s --replay {path}" % pid,
            "engine": "tlc-trace-validation",
            "level_claimed": {"category": c["category"], "text": c["text"], "design_ref": c["design_ref"]},
            "level_note": c["note"],
            "technique": c["technique"],
        })
    na = [{"property_id": p, "reason": NA_REASON.get(p, "check not built yet in this session (work in progress; see DESIGN.md section 10 for the build order)")}
          for p in ALL if p not in CHECKS]
    m = {
        "version": 1,
        "setup_cmd": "sh tools/setup.sh",
        "hooks": {
            "guard": "HWLOC_VERIF",
            "enable": "tools/build.sh compiles /repo/hwloc/*.c from the current working tree with -DHWLOC_VERIF (and ASan+UBSan) into a scratch static archive; nothing is built inside /repo",
            "baseline_off_cmd": "cd /repo && export PATH=$PATH:/root/miniconda/bin && make -j8 >/dev/null && make -k check -j8",
            "source_commits": [],
            "add_only": True,
        },
        "engines": [
            {"name": "tlc-trace-validation", "path": "tools/check.py",
             "serves_properties": [c["property_id"] for c in checks],
             "kind_free_text": "TLA+ specifications in spec/ model-checked with TLC; TLC-generated behaviours are replayed on the library rebuilt from /repo by the recorders in harness/, and the recorded ndjson traces are validated by TLC against the Trace*.tla specifications"},
        ],
        "checks": checks,
        "not_applicable": na,
        "notes": "tools/selftest.py (development aid, not a registered check) applies mutants/*.patch and seeded/*/patch.diff to a scratch copy and expects VIOLATION. known_findings.jsonl lists recorded defects and fixed: entries.",
    }
    json.dump(m, open(os.path.join(V, "MANIFEST.json"), "w"), indent=1)
    print("wrote MANIFEST.json with", len(checks), "checks,", len(na), "not_applicable")

if __name__ == "__main__":
    main()
