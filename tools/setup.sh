#!/bin/sh
# Run once after a fresh restore, offline.  All compilation happens inside the
# checks because they must rebuild from /repo's current working tree.
set -e
cd "$(dirname "$0")/.."
mkdir -p evidence
command -v java >/dev/null || { echo "java missing" >&2; exit 1; }
[ -f /opt/veriftools/tla/tla2tools.jar ] || { echo "tla2tools.jar missing" >&2; exit 1; }
command -v gcc >/dev/null || { echo "gcc missing" >&2; exit 1; }
[ -f /repo/include/private/autogen/config.h ] || { echo "note: /repo is not configured; running ./configure" >&2; (cd /repo && ./configure >/dev/null); }
echo "setup ok"
