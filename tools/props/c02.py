"""C02 - well-formedness is preserved by every history of modifying calls (and C12 through run_generic(two_slots=True)).
Model: spec/MC_TopoOps.tla; oracle: TopoOps!ModifyRel + WellFormed + frame conditions via spec/TraceTopo.tla;
recorder: harness/hwv_topo.c."""
import os, random, json, re
import vlib, corpus
from props import c01, c08

FAMS = [
    ("sym", "pack:2 core:2 pu:2"),
    ("wide", "pack:2 core:4 pu:1"),
    ("nested", "[numa] pack:2 [numa] core:2 pu:2"),
    ("numa2", "node:2 core:2 pu:2"),
    ("numa3p", "node:3(indexes=2,0,1) core:2 pu:1"),      # Group level below the root, NUMA os_index != logical_index
    ("mscache", "pack:2 [numa(memorysidecachesize=256MB)] core:2 pu:1"),     # memory-side caches (kept: see FAM_EXTRA)
    ("offline", "XML"),        # pack:2 core:2 pu:2 with PUs 1 and 6 offline: complete cpusets larger than cpusets (c08.make_offline_xml)
    ("disdrop", "XML"),        # a nested-memory topology whose NUMA node 1 and PUs 2-3 were disallowed, exported and reloaded without
                               # INCLUDE_DISALLOWED: the library dropped them, complete sets larger than the sets
    ("stored", "XML"),         # the nested-memory topology with every store filled before it was exported: two distances structures, a memory
                               # attribute with four initiators per target and one without, two CPU kinds with infos, Misc objects, a Group
]
FAM_EXTRA = {"mscache": ["filter 0 15 0"]}          # load lines every behaviour of the family gets
ALL_OPS = ["restrict", "insert_misc", "group", "group_ns", "group_obj", "group_free", "allow", "add_info", "set_subtype", "refresh",
           "dist_add", "dist_remove", "dist_remove_one", "memattr", "cpukind", "cpukind_info"]
DEEP_OPS = ["restrict", "dist_add", "dist_remove", "dist_remove_one", "memattr"]      # focused configuration (Tiny argument sets): the stores five calls deep
STORE_OPS = ["restrict", "dist_add", "dist_remove", "dist_remove_one", "memattr", "cpukind", "cpukind_info", "insert_misc", "add_info", "set_subtype", "group"]   # C05: what fills the stores, then a restrict
STRUCT_OPS = ["restrict", "insert_misc", "group", "group_ns", "group_obj"]           # focused configuration: what reshapes the tree, one call deeper
# load-time configurations: (name, lines)
LOADCFG = [
    ("misc+disallowed", ["filter 0 19 0", "flags 0 1"]),
    ("default", []),
    ("structure+misc", ["filter 0 -1 2", "filter 0 19 0"]),
    ("nostores", ["filter 0 19 0", "flags 0 896"]),          # NO_DISTANCES | NO_MEMATTRS | NO_CPUKINDS: only what the application adds itself exists
    ("keepall+disallowed", ["filter 0 -1 0", "flags 0 1"]),
]


def source_line(ctx, name, desc):
    return "xml 0 " + ctx.path("c02-%s.xml" % name) if desc == "XML" else "synthetic 0 " + desc


def prepass(ctx, exe):
    # XML-sourced families are generated first
    g8 = c08.prepass(ctx, exe)["nested"]["gps"]           # gp indexes of "[numa] pack:2 [numa] core:2 pu:2" by type
    import shutil
    shutil.copy(c08.make_offline_xml(ctx, "sym"), ctx.path("c02-offline.xml"))
    gen = ["reset 1", "init 0", "synthetic 0 [numa] pack:2 [numa] core:2 pu:2", "flags 0 1", "load 0", "allow 0 4 0-1,4-7 0,2",
           "export_xml 0 %s 0" % ctx.path("c02-disdrop.xml"), "destroy 0"]
    bf = ctx.path("prepass-gen.beh")
    open(bf, "w").write("\n".join(gen) + "\n")
    ctx.record(exe, bf, bf + ".ndjson")
    # "stored": what the store-filling calls of the alphabet would need several steps to build is there from the start
    gen = ["reset 1", "option namebase 100", "init 0", "synthetic 0 [numa] pack:2 [numa] core:2 pu:2", "filter 0 19 0", "load 0",
           "dist_add 0 5 0 4 %s " % " ".join(map(str, g8[4][:4])) + " ".join(str(10 if r == c else 20 + r + c) for r in range(4) for c in range(4)),
           "dist_add 0 6 0 2 %d %d 10 20 20 10" % (g8[3][0], g8[3][2]), "memattr 0 5 %d 100" % g8[14][0], "memattr 0 1 %d 7" % g8[14][0], "memattr 0 5 %d 300" % g8[14][1],
           "cpukind 0 0-3 1 1", "cpukind 0 4-7 0 1", "insert_misc 0 %d annot" % g8[0][0], "insert_misc 0 %d annot2" % g8[3][1], "group 0 0-1 - 0 0 1",
           "export_xml 0 %s 0" % ctx.path("c02-stored.xml"), "destroy 0"]
    open(bf, "w").write("\n".join(gen) + "\n")
    ctx.record(exe, bf, bf + ".2.ndjson")
    for n in ("offline", "disdrop", "stored"):
        if not os.path.exists(ctx.path("c02-%s.xml" % n)):
            raise vlib.Infra("family document c02-%s.xml was not generated" % n)
    lines = []
    for name, desc in FAMS:
        lines += ["reset 1", "init 0", source_line(ctx, name, desc)] + FAM_EXTRA.get(name, []) + ["load 0", "destroy 0"]
    bf = ctx.path("prepass.beh")
    open(bf, "w").write("\n".join(lines) + "\n")
    tf = ctx.path("prepass.ndjson")
    ctx.record(exe, bf, tf)
    info = {}
    fams = iter(FAMS)
    for line in open(tf):
        if '"e":"load"' not in line:
            continue
        name = next(fams)[0]
        t = json.loads(line)["topos"][0]
        pus = sorted(o["os"] for o in t["objs"] if o["type"] == 4)
        nodes = {}
        gps = {}
        d1, tops, gpcs = [], [], {}
        for o in t["objs"]:
            gps.setdefault(o["type"], []).append(o["gp"])
            cs = set()
            for lo, hi in o["cs"]:
                cs.update(range(lo, hi + 1))
            gpcs[o["gp"]] = sorted(cs)
            if o["type"] == 14:
                nodes[o["os"]] = sorted(cs)
            if o["depth"] == 1:
                d1.append(o["gp"])
                tops.append(sorted(cs))
        info[name] = {"pus": pus, "nodes": nodes, "gps": gps, "depth1": d1, "tops": tops, "gpcs": gpcs}
    return info


def set_choices(info):
    pus = info["pus"]
    n = len(pus)
    r = c08.set_to_ranges
    ch = [r(pus[:2]), r(pus[:4]), r(pus[:3]), r([pus[0], pus[2]]), r(pus[:2] + pus[4:6]), r(pus[2:6]), r(pus[1:]), r(pus),
          r([pus[0]]), r(pus[4:]), r(pus[:6]), [(0, -1)], [(100, 100)], [], r(pus[:3]) + [(200, 300)], r(pus[1:4])]
    u = []
    for c in ch:
        if c not in u:
            u.append(c)
    return u


def mc_module(info, choices, rflags):
    nodes = info["nodes"]
    nc = "[n \\in {%s} |-> CASE %s]" % (", ".join(map(str, sorted(nodes))),
                                         " [] ".join("n = %d -> {%s}" % (n, ", ".join(map(str, cs))) for n, cs in sorted(nodes.items())))
    return ("---- MODULE MC_TopoOps_gen ----\nEXTENDS MC_TopoOps\nGPUs == {%s}\nGNodes == {%s}\nGNodeCpus == %s\nGSets == <<%s>>\nGRFlags == {%s}\nGTops == <<%s>>\nGShapePUs == <<%s>>\n"
            "GOpsAll == {%s}\nGOpsStruct == {%s}\nGOpsStores == {%s}\nGOpsDeep == {%s}\n====\n"
            % (", ".join(map(str, info["pus"])), ", ".join(map(str, sorted(nodes))), nc,
               ", ".join(c08.tla_ranges(c) for c in choices), ", ".join(map(str, rflags)),
               ", ".join("{%s}" % ", ".join(map(str, t)) for t in info["tops"]),
               ", ".join("<<%s>>" % ", ".join("{%s}" % ", ".join(map(str, info["gpcs"][g])) for g in dist_objs(info, sh)) for sh in (1, 2, 3, 4)),
               ", ".join('"%s"' % o for o in ALL_OPS), ", ".join('"%s"' % o for o in STRUCT_OPS), ", ".join('"%s"' % o for o in STORE_OPS), ", ".join('"%s"' % o for o in DEEP_OPS)))


def mc_cfg(maxsteps, two, nstripes, stripe, simlen, bfs, ops="GOpsAll", lean=False, tiny=False):
    s = ("SPECIFICATION Spec\nCONSTANTS\n  PUs <- GPUs\n  Nodes <- GNodes\n  NodeCpus <- GNodeCpus\n  SetChoices <- GSets\n  RestrictFlags <- GRFlags\n  Tops <- GTops\n  ShapePUs <- GShapePUs\n  Ops <- %s\n  Lean = %s\n  Tiny = %s\n"
         "  Objs = 7\n  MaxSteps = %d\n  TwoSlots = %s\n  NStripes = %d\n  Stripe = %d\n  SimLen = %d\nVIEW StateView\nCHECK_DEADLOCK FALSE\n"
         % (ops, "TRUE" if lean else "FALSE", "TRUE" if tiny else "FALSE", maxsteps, "TRUE" if two else "FALSE", nstripes, stripe, simlen))
    if bfs:
        s += "INVARIANTS NeverEmpty CopyWithinOriginal\nACTION_CONSTRAINT EmitEdge\n"
    else:
        s += "INVARIANTS NeverEmpty CopyWithinOriginal EmitSim\n"
    return s


def anchors(info):
    g = info["gps"]
    d1 = info["depth1"]
    pick = lambda l, i: l[i] if len(l) > i else l[-1]
    # root, second child of the root, third core, second PU, first NUMA node, first child of the root, first memory-side cache (else last NUMA node)
    return [g[0][0], pick(d1, 1), pick(g[3], 2), pick(g[4], 1), g[14][0], d1[0], g[15][0] if g.get(15) else g[14][-1]]


def dist_objs(info, shape):
    g = info["gps"]
    if shape == 1:
        return g[4][:2]
    if shape == 2:
        return g[4][:4]
    if shape == 3:
        return [g[4][0], g[3][1]] if len(g[3]) > 1 else g[4][:2]      # mixed types
    return g[3][:4]


def render(hist, info, choices):
    a = anchors(info)
    lines = []
    prev = None
    for j, (op, s, x, y, z) in enumerate(hist):
        # the same call on the other copy right after (MC_TopoOps!Mirror) is given the same labels, so that the argument text is the same
        twin = prev is not None and prev[0] == op and prev[1] != s and (prev[2:] == (x, y, z) or (op == "restrict" and prev[2:4] == (x, y)))
        i = lab if twin else j
        lab = i
        prev = (op, s, x, y, z)
        if op == "restrict":
            lines.append("restrict %d %d %s %s" % (s, x, "n" if x & 8 else "c", c08.ranges_text(choices[y - 1])))
        elif op == "insert_misc":
            lines.append("insert_misc %d %d m%d" % (s, a[x - 1], i))
        elif op == "group":
            lines.append("group %d %s - %d 0 %d" % (s, c08.ranges_text(choices[x - 1]), [0, 1, 4294967295][y], z))
        elif op == "group_ns":
            lines.append("group %d - %s 0 0 0" % (s, c08.ranges_text(choices[x - 1])))
        elif op == "group_obj":
            lines.append("group_obj %d %d 0 %d" % (s, a[x - 1], y))
        elif op == "group_free":
            lines.append("group_free %d" % s)
        elif op == "allow":
            cs = c08.ranges_text(choices[y - 1])
            lines.append("allow %d %d %s %s" % (s, x, cs if z == 0 else "-", cs if z == 1 else "-"))
        elif op == "add_info":
            lines.append("add_info %d %d hwvinfo v%d" % (s, a[x - 1], i))
        elif op == "set_subtype":
            lines.append("set_subtype %d %d %s" % (s, a[x - 1], ("Sub%d" % i) if y else "-"))
        elif op == "refresh":
            lines.append("refresh %d" % s)
        elif op == "dist_add":
            objs = dist_objs(info, z)
            n = len(objs)
            vals = []
            for r in range(n):
                for c in range(n):
                    vals.append(10 if r == c else (20 if r // 2 == c // 2 else 40))
            lines.append("dist_add %d %d %d %d %s %s hwvd%d" % (s, x, y, n, " ".join(map(str, objs)), " ".join(map(str, vals)), i))      # the name is an argument: the same call on a copy and its original adds the same name
        elif op == "dist_remove":
            lines.append("dist_remove %d" % s)
        elif op == "dist_remove_one":
            lines.append("dist_remove_one %d %d" % (s, x))
        elif op == "memattr":
            lines.append("memattr %d %d %d %d hwva%d" % (s, x, a[y - 1], 100 + i, i))
        elif op == "cpukind":
            lines.append("cpukind %d %s %d %d" % (s, c08.ranges_text(choices[x - 1]), y, z))
        elif op == "cpukind_info":
            lines.append("cpukind_info %d %d %d" % (s, x, y))
        elif op == "dup":
            lines.append("dup 0 1")
        elif op == "destroy":
            lines.append("destroy %d" % s)
    return lines


def key_two(sig):
    """two topologies: the stratum of a history is (the call made last before the dup, the call made first after it, whether that call is
    mirrored on the other copy): every ordered pair of call kinds around a dup is replayed before any pair is replayed twice"""
    names = [x[0] for x in sig]
    if "dup" not in names:
        return ("nodup",) + tuple(names)
    i = names.index("dup")
    return ("dup", names[i - 1] if i else "-", names[i + 1] if i + 1 < len(names) else "-", any(x[2] >= 100000 for x in sig), len(names) > i + 3)


def stratified(edges, keep, rng, prio=None, key=None):
    """seeded sample of the edges ({"h": history, "g": signature}) that takes one edge of every call signature (which calls, on which slot,
    in which order, of which class), then a second one, ... until keep edges are taken; signatures are visited shortest first and, among
    equally long ones, in the order given by prio(signature) (smaller first), then at random.  Returns the histories."""
    groups = {}
    for e in edges:
        g = tuple(tuple(x) for x in e["g"])
        groups.setdefault(key(g) if key else g, []).append(e["h"])
    if len(edges) <= keep:
        return [e["h"] for e in edges], len(groups), len(groups)
    order = sorted(groups, key=(lambda k: (prio(k), rng.random())) if key else (lambda k: (len(k), prio(k) if prio else 0, rng.random())))
    for k in order:
        rng.shuffle(groups[k])
    res, seen = [], set()
    while len(res) < keep:
        progressed = False
        for k in order:
            if groups[k]:
                res.append(groups[k].pop())
                seen.add(k)
                progressed = True
                if len(res) >= keep:
                    break
        if not progressed:
            break
    return res, len(seen), len(groups)


def prio_two(sig):
    """two topologies: what the copy is made from matters most, then what happens to either copy right after"""
    names = [x[0] for x in sig]
    if names and names[-1] == "dup":
        return 0
    if "dup" in names:
        return 1
    return 2


def prio_key_two(k):
    """strata of key_two: a call on a copy right after the dup, mirrored on the other copy, first; then a dup as last call; then the rest"""
    if k[0] == "dup" and k[2] != "-" and k[3] and not k[4]:
        return 0
    if k[0] == "dup" and k[2] == "-":
        return 1
    if k[0] == "dup":
        return 2
    return 3


def prio_stores(sig):
    """C05: a successful restrict right after a call that fills a store (what the exporter must refresh) comes first"""
    if len(sig) >= 2 and sig[-1][0] == "restrict" and sig[-1][2] % 1000 >= 100:
        return 0          # the restrict cuts into the distances structure added before
    if len(sig) >= 2 and sig[-1][0] == "restrict" and sig[-1][2] != -1 and sig[-2][0] in ("memattr", "cpukind", "cpukind_info"):
        return 0
    if sig[-1][0] in ("dist_add", "memattr", "cpukind", "cpukind_info", "dist_remove"):
        return 1
    return 2


def prio_struct(sig):
    """one topology: a restrict that may merge levels (one subtree left) after the tree was reshaped comes first"""
    last = sig[-1]
    if last[0] == "restrict" and last[2] % 100 in (1, 11) and any(x[0] != "restrict" for x in sig[:-1]):
        return 0
    if last[0] == "group_ns" and last[2] == 1:          # a Group by nodeset that names a NUMA node left without PU
        return 0
    if last[0] == "restrict" and last[2] != -1:
        return 1
    return 2


def dup_corpus(ctx, thorough):
    """C12 over the sources themselves: every family under every load configuration, every bundled XML file (and, thorough, every Linux
    snapshot and CPUID dump) is loaded, duplicated, one copy is restricted, and both are destroyed in either order; the stores are observed"""
    srcs = [({"env": {}}, [source_line(ctx, n, d)] + FAM_EXTRA.get(n, []), cl) for n, d in FAMS for _c, cl in LOADCFG]
    ext = corpus.xml_sources() + (corpus.extract_snapshots(ctx.path("corpus")) if thorough else [])
    for k, sc in enumerate(ext):
        for j in ((0, 1, 2, 4) if thorough else (k % 2, 2 + 2 * (k % 2))):
            srcs.append((sc, corpus.source_lines(sc), LOADCFG[j][1]))
    behs = []
    for k, (sc, sl, cl) in enumerate(srcs):
        a = k % 2
        small = not sc.get("path") or not os.path.isfile(sc["path"]) or os.path.getsize(sc["path"]) <= 60000         # the relations of restrict are quadratic in the number of objects
        lines = (["reset 2", "option xmldigest 1", "option stores 1"] + corpus.env_lines(sc) + ["init 0"] + sl + cl + ["load 0", "dup 0 1"] +
                 (["restrict %d 0 c 0-1" % a, "restrict %d 0 c 0-1" % (1 - a), "refresh %d" % a] if small and sc.get("kind") in (None, "xml") else []) +
                 ["destroy %d" % (k // 2 % 2), "destroy %d" % (1 - k // 2 % 2)])
        behs.append("\n".join(lines) + "\n")
    ctx.extra["dup_corpus"] = {"sources": len(FAMS) + len(ext), "behaviours": len(behs)}
    return behs


def run_generic(ctx, two_slots, replay=None):
    prop = ctx.prop
    ctx.build_lib()
    exe = ctx.cc("hwv_topo.c", "hwv_topo")
    env = {"HWV_LEAKCHECK": "1"}          # LeakSanitizer after every behaviour: a leak is an event no specification action accepts
    replay_fn = c01.make_replay(ctx, exe, env=env)
    if replay:
        text = open(replay).read()
        if re.search(r"xml 0 \S*hwloc-verif", text):
            prepass(ctx, exe)                        # regenerates the XML-sourced families in this run's scratch directory
            text = c01.rebase_paths(ctx, text)
        elif re.search(r"env HWLOC_\w+ \S*hwloc-verif", text):
            corpus.extract_snapshots(ctx.path("corpus"))
            text = c01.rebase_paths(ctx, text)
        rej = replay_fn(text)
        for r in rej:
            vlib.log("rejected event:", r["line"][:1500])
            print("VIOLATION property=%s replay=%s" % (prop, replay))
        ctx.cleanup()
        return 1 if rej else 0

    thorough = ctx.tier == "thorough"
    rng = random.Random(ctx.seed)
    info = prepass(ctx, exe)
    rflags = [0, 1, 2, 6, 8, 24, 26, 3, 9, 16, 32] if thorough else [0, 1, 6, 8, 24, 9]
    behs = []
    # quick: nested memory, Group level with permuted NUMA indexes, the family whose stores are filled from the start, and a seed-chosen one of the
    # memory-side cache / offline / disallowed families
    # quick: the memory-side cache / offline / disallowed families get a third of the sample each ("light"), except the seed-chosen one
    light = set() if thorough else {f[0] for f in FAMS[5:8]} - {FAMS[5 + ctx.seed % 3][0]}
    fams = FAMS if thorough else [FAMS[2], FAMS[4], FAMS[8]] + FAMS[5:8]
    if os.environ.get("HWV_C02_FAMILIES"):
        fams = [f for f in FAMS if f[0] in os.environ["HWV_C02_FAMILIES"].split(",")]

    def family(name, desc):
        frng = random.Random("%s/%s" % (ctx.seed, name))
        scale = (lambda k: max(20, k // 3)) if name in light else (lambda k: k)
        choices = set_choices(info[name])
        frflags = rflags
        if two_slots and not thorough:
            # quick, two topologies: the BFS to depth 3 has ~400 successors per state with the full argument sets; ten sets and four flag words
            # keep every class of outcome (refused, nothing removed, one subtree left, by nodeset, empty / infinite / foreign sets)
            choices = [c for i, c in enumerate(choices) if i < 8 or c in ([(0, -1)], [])]
            frflags = [0, 6, 8, 9]
        gen = [("MC_TopoOps_gen.tla", mc_module(info[name], choices, frflags))]
        hists = []
        # BFS: every edge up to 2 (3 with dup) steps; a focused configuration (calls that reshape the tree) goes one call deeper, another one
        # (the calls that fill and empty the stores, with two or three argument combinations each) goes 4 (5 with dup) calls deep
        confs = [("ops_bfs", 3 if two_slots else 2, "GOpsAll", 15000 if thorough else (800 if two_slots else 400), prio_two if two_slots else None, False)]
        if not two_slots:
            confs.append(("struct_bfs", 3, "GOpsStruct", 15000 if thorough else 300, prio_struct, False))
            confs.append(("deep_bfs", 4, "GOpsDeep", 8000 if thorough else 200, prio_stores, True))
        elif thorough:
            confs.append(("deep_bfs", 5, "GOpsDeep", 15000, prio_two, True))
        else:
            confs.append(("deep_bfs", 4, "GOpsDeep", 300, prio_two, True))
        ns = 1 if thorough else (6 if two_slots else 2)          # quick: TLC prints the edges of one seed-selected stripe (a hash of the arguments)
        for tag, maxsteps, ops, keep, prio, tiny in confs:
            out, st = ctx.tlc_mc("MC_TopoOps_gen", mc_cfg(maxsteps, two_slots, ns, ctx.seed % ns, 0, True, ops, lean=two_slots and not thorough, tiny=tiny), tag=tag + "_" + name,
                                 workers=4, extra_modules=gen, timeout=2400)
            if st["error"] or st["rc"] != 0:
                raise vlib.Infra("MC_TopoOps failed for %s (model-level): %s\n%s" % (name, st["error"], out[-2000:]))
            edges = list(vlib.tlc_printed(out, "EDGE"))
            # every single call of the alphabet is always replayed; the longer histories are a seeded sample spread over the call signatures
            ones = []
            if tag == "ops_bfs":
                byname = {}
                for e in edges:
                    if len(e["h"]) == 1:
                        byname.setdefault(e["h"][0][0], []).append(e["h"])
                for nm in sorted(byname):           # calls with many argument combinations (allow, dist_add, group, cpukind): a seeded 40 of them; every restrict
                    v = byname[nm]
                    ones += v if (thorough or len(v) <= scale(40) or (nm == "restrict" and name not in light)) else frng.sample(v, scale(40))
            picked, nsig, allsig = stratified([e for e in edges if not (tag == "ops_bfs" and len(e["h"]) == 1)], scale(keep), frng,
                                              prio_key_two if two_slots else prio, key_two if two_slots else None)
            ctx.extra["%s_%s" % (tag, name)] = {"edges": len(edges), "signatures": allsig, "signatures_replayed": nsig, "edges_replayed": len(picked) + len(ones)}
            hists += ones + picked
        # simulation: long histories
        simlen = 10 if thorough else 8
        out, st = ctx.tlc_mc("MC_TopoOps_gen", mc_cfg(simlen, two_slots, 1, 0, simlen, False), tag="ops_sim_" + name,
                             workers=4, extra_modules=gen, simulate="num=%d" % (150 if thorough else 30), depth=simlen + 1, timeout=900)
        if st["error"]:
            raise vlib.Infra("MC_TopoOps simulation failed for %s: %s\n%s" % (name, st["error"], out[-2000:]))
        sims = list(vlib.tlc_printed(out, "SIM"))
        nsim = 600 if thorough else scale(60)
        hists += sims if len(sims) <= nsim else frng.sample(sims, nsim)
        cfgs = LOADCFG if thorough else LOADCFG[:4]
        fbehs = []
        for k, h in enumerate(hists):
            cname, clines = cfgs[k % len(cfgs)] if not thorough else cfgs[frng.randrange(len(cfgs))]
            # every other behaviour also queries the stores (distances, memory attributes, CPU kinds) after each call: the queries refresh cached
            # state inside the library, so both regimes are run; with them the dup relation compares the stores of both copies too
            lines = ["reset 2", "option xmldigest 1"] + (["option stores 1"] if k % 2 else []) + ["init 0", source_line(ctx, name, desc)] + FAM_EXTRA.get(name, []) + clines + ["load 0"] + render(h, info[name], choices)
            fbehs.append("\n".join(lines) + "\n")
            # a call that fills a store followed by a restrict or a dup is also run on a topology loaded with the NO_* flags (where only
            # application-added structures exist), with the stores queried after every call
            names = [x[0] for x in h]
            fill = [i for i, n in enumerate(names) if n in ("dist_add", "memattr", "cpukind")]
            if cname != "nostores" and fill and any(n in ("restrict", "dup") for n in names[fill[0] + 1:]) and (thorough or len(h) <= 3):
                lines = ["reset 2", "option xmldigest 1", "option stores 1", "init 0", source_line(ctx, name, desc)] + FAM_EXTRA.get(name, []) + dict(LOADCFG)["nostores"] + ["load 0"] + render(h, info[name], choices)
                fbehs.append("\n".join(lines) + "\n")
        return fbehs

    from concurrent.futures import ThreadPoolExecutor
    with ThreadPoolExecutor(max_workers=max(1, min(len(fams), vlib.NCPU // 4))) as ex:
        for fb in ex.map(lambda f: family(*f), fams):
            behs += fb
    if two_slots:
        behs += dup_corpus(ctx, thorough)
    ctx.samples = [behs[0], behs[len(behs) // 2], behs[-1]]
    bf = ctx.path("behaviours.txt")
    open(bf, "w").write("".join(behs))
    tf = ctx.path("trace.ndjson")
    ctx.record(exe, bf, tf, timeout=3000, parallel=vlib.NCPU, env=env)
    rejs = ctx.validate("TraceTopo", tf, nshards=32 if thorough else 16, timeout=3000)
    ctx.handle_rejections(rejs, behs, replay_fn)
    return ctx.finish(
        rule="histories of public modifying calls (restrict, insert_misc, Group alloc/insert/free with explicit, nodeset-only and object-copied sets, allow, add_info, set_subtype, refresh, "
             "distances add with and without grouping / remove, memattr register+set, cpukinds register with and without infos, in-place edits of CPU kind infos%s) with valid and invalid arguments are enumerated "
             "(every edge to depth %d with the whole alphabet; the view keeps the call signature so that every ordered combination of calls is an edge; a focused configuration with the tree-reshaping calls goes to depth 3; "
             "edges are sampled round-robin over the signatures, those that end in a level-merging restrict or a dup first) "
             "and simulated (depth 8-10) by TLC from MC_TopoOps.tla over synthetic families x load configurations; each is replayed on the rebuilt library and after EVERY call the "
             "per-call relation (TopoOps.tla), WellFormed, gp/userdata stability and the frame condition on the other slot are evaluated. Non-trivial = at least one modifying call."
             % (", dup, destroy in either order" if two_slots else "", 3 if two_slots else 2),
        assumptions=["backend-only entry points are not driven", "ENOMEM paths are not driven",
                     "distances/memattr/cpukind store contents are judged by C13/C14/C15, here only their effect on the object tree"],
        extra={"behaviours": len(behs), "families": [f[0] for f in fams]})


def run(ctx, replay=None):
    return run_generic(ctx, False, replay)
