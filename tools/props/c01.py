"""C01 - every successfully loaded topology is a well-formed object tree.
Model: spec/Lifecycle.tla + MC_Load.tla (configurations); oracle: WellFormed in spec/Topology.tla via spec/TraceTopo.tla;
recorder: harness/hwv_topo.c (projection: harness/project.h)."""
import os, random, json
import vlib, corpus

FLAG_CHOICES_Q = [0, 1, 8, 128, 256, 512, 129, 897, 1024, 16, 3]
FLAG_CHOICES_T = [0, 1, 2, 3, 4, 8, 9, 64, 128, 256, 512, 129, 385, 897, 905, 1024, 2048, 16, 32, 1023 - 48]


BINDINGS = ["0", "0-1", "1-2", "0,3", "2-5", "1", "3-15"]          # CPU lists the recorder binds itself to (BindChoices 1..7 of MC_Load.tla)


def cfg_text(flag_choices, targets, maxsteps, emit="EmitCfg"):
    return ("SPECIFICATION Spec\nCONSTANTS\n  Sources <- GSources\n  FlagChoices <- GFlagChoices\n  FilterTargets <- GFilterTargets\n  BindChoices <- GBindChoices\n  MaxFilterSteps = %d\n"
            "VIEW View\nINVARIANTS FiltersSane %s\nCHECK_DEADLOCK FALSE\n" % (maxsteps, emit))


def gen_module(flag_choices, targets, binds=()):
    return ("---- MODULE MC_Load_gen ----\nEXTENDS MC_Load\nGSources == {\"S\"}\nGFlagChoices == {%s}\nGFilterTargets == {%s}\nGBindChoices == {%s}\n====\n"
            % (", ".join(map(str, flag_choices)), ", ".join(map(str, targets)), ", ".join(map(str, binds))))


def cfg_lines(hist, slot=0):
    out = []
    for h in hist:
        if h[0] == "filter":
            out.append("filter %d %d %d" % (slot, h[1], h[2]))
        elif h[0] == "flags":
            out.append("flags %d %d" % (slot, h[1]))
        elif h[0] == "bind":
            out.append("bind %d %s" % (slot, BINDINGS[h[1] - 1]))
    return out


def behaviour(src, hist):
    lines = ["reset 1"] + corpus.env_lines(src) + ["init 0"] + corpus.source_lines(src) + cfg_lines(hist) + ["load 0", "destroy 0"]
    return "\n".join(lines) + "\n"


def all_sources(ctx, live=True):
    srcs = corpus.synthetic_sources() + corpus.xml_sources() + corpus.extract_snapshots(ctx.path("corpus"))
    if live:
        srcs.append({"id": "live", "kind": "live", "env": {}})
    return srcs


def prepass(ctx, exe, srcs):
    """load every source once with every type kept: returns {source id: set of object types present}; synthetic families are also
    exported to XML (v3 and v2 formats) as additional 'generated XML' sources"""
    gdir = ctx.path("genxml")
    os.makedirs(gdir, exist_ok=True)
    behs, gen = [], []
    for k, s in enumerate(srcs):
        lines = ["reset 1"] + corpus.env_lines(s) + ["init 0"] + corpus.source_lines(s) + ["filter 0 -1 0", "load 0"]
        if s["kind"] == "synthetic":
            for fl, tag in ((0, "v3"), (2, "v2")):
                p = os.path.join(gdir, "g%d-%s.xml" % (k, tag))
                lines.append("xml_export 0 file %s %d 0" % (p, fl))
                gen.append({"id": "genxml:%s:%s" % (tag, s["desc"]), "kind": "xml", "path": p, "env": {}, "of": s["id"]})
        behs.append("\n".join(lines + ["destroy 0"]) + "\n")
    bf = ctx.path("prepass-c01.beh")
    open(bf, "w").write("".join(behs))
    tf = bf + ".ndjson"
    ctx.record(exe, bf, tf, timeout=1800, parallel=vlib.NCPU)
    present, b = {}, -1
    for line in open(tf):
        if line.startswith('{"e":"Reset"'):
            b += 1
        elif line.startswith('{"e":"load"') and 0 <= b < len(srcs):
            try:
                e = json.loads(line)
                t = e.get("topo") or (e.get("topos") or [None])[0]
                if t and t.get("objs"):
                    present[srcs[b]["id"]] = sorted(set(o["type"] for o in t["objs"]))
            except ValueError:
                pass
    gen = [g for g in gen if os.path.exists(g["path"])]
    for g in gen:
        present[g["id"]] = present.get(g["of"], [])
    return present, gen


def make_replay(ctx, exe, module="TraceTopo", env=None):
    def replay_fn(text):
        p = ctx.path("replay-%d.beh" % random.randrange(1 << 30))
        open(p, "w").write(text)
        t = p + ".ndjson"
        ctx.record(exe, p, t, env=env)
        return ctx.validate(module, t, nshards=1)
    return replay_fn


def run(ctx, replay=None):
    ctx.build_lib()
    exe = ctx.cc("hwv_topo.c", "hwv_topo")
    replay_fn = make_replay(ctx, exe)
    if replay:
        # replays refer to extracted snapshots under the scratch dir of the run that produced them: re-extract and rewrite paths
        text = open(replay).read()
        text = rebase_paths(ctx, text)
        rej = replay_fn(text)
        for r in rej:
            vlib.log("rejected event:", r["line"][:1500])
            print("VIOLATION property=C01 replay=%s" % replay)
        ctx.cleanup()
        return 1 if rej else 0

    thorough = ctx.tier == "thorough"
    rng = random.Random(ctx.seed)
    targets = list(range(20)) + [-1, -2, -3, -4]
    # (1) exhaustive: default configuration and every single filter call x flag word
    fc = FLAG_CHOICES_T if thorough else FLAG_CHOICES_Q
    out, st = ctx.tlc_mc("MC_Load_gen", cfg_text(fc, targets, 1), tag="cfg_bfs", workers=8,
                         extra_modules=[("MC_Load_gen.tla", gen_module(fc, targets))])
    if st["error"] or st["rc"] != 0:
        raise vlib.Infra("MC_Load failed: %s\n%s" % (st["error"], out[-2000:]))
    cfgs = [h[1:] for h in vlib.tlc_printed(out, "CFG")]
    # (2) simulation: up to 4 filter calls over the whole 20-type space
    out, st = ctx.tlc_mc("MC_Load_gen", cfg_text(FLAG_CHOICES_T, targets, 4), tag="cfg_sim", workers=4,
                         simulate="num=%d" % (600 if thorough else 150), depth=8,
                         extra_modules=[("MC_Load_gen.tla", gen_module(FLAG_CHOICES_T, targets))])
    if st["error"]:
        raise vlib.Infra("MC_Load simulation failed: %s\n%s" % (st["error"], out[-2000:]))
    simcfgs = [h[1:] for h in vlib.tlc_printed(out, "CFG")]
    ctx.extra["configurations_enumerated"] = len(cfgs)
    ctx.extra["configurations_simulated"] = len(simcfgs)

    # (3) exhaustive: every configuration reachable with two filter calls (flags 0): the source of the type-targeted configurations below
    out, st = ctx.tlc_mc("MC_Load_gen", cfg_text([0], targets, 2), tag="cfg_bfs2", workers=8,
                         extra_modules=[("MC_Load_gen.tla", gen_module([0], targets))])
    if st["error"] or st["rc"] != 0:
        raise vlib.Infra("MC_Load (2 filter calls) failed: %s\n%s" % (st["error"], out[-2000:]))
    two = {}
    for h in vlib.tlc_printed(out, "CFG"):
        calls = [x for x in h[1:] if x[0] == "filter"]
        two[tuple((x[1], x[2]) for x in calls)] = h[1:]
    ctx.extra["configurations_two_filter_calls"] = len(two)

    # (4) exhaustive: the process binds itself before the load x the flag words around IS_THISSYSTEM / RESTRICT_TO_CPUBINDING / RESTRICT_TO_MEMBINDING
    #     x at most one filter call on everything (run on the synthetic families and their XML exports)
    bflags = [2, 18, 50, 19, 16, 146]
    out, st = ctx.tlc_mc("MC_Load_gen", cfg_text(bflags, [-1], 1), tag="cfg_bind", workers=4,
                         extra_modules=[("MC_Load_gen.tla", gen_module(bflags, [-1], range(1, len(BINDINGS) + 1)))])
    if st["error"] or st["rc"] != 0:
        raise vlib.Infra("MC_Load (bindings) failed: %s\n%s" % (st["error"], out[-2000:]))
    bindcfgs = [h[1:] for h in vlib.tlc_printed(out, "CFG") if any(x[0] == "bind" for x in h[1:]) and any(x[0] == "flags" and x[1] & 16 and x[2] == 0 for x in h[1:])]
    ctx.extra["configurations_with_binding"] = len(bindcfgs)

    srcs = all_sources(ctx)
    present, gen = prepass(ctx, exe, srcs)
    srcs += gen
    ctx.extra["generated_xml_sources"] = len(gen)
    per_src = 30 if thorough else 3
    behs = []

    def targeted(s):
        """configurations of the model that remove, or keep only when structuring, a type that this source really has"""
        res = []
        types = [t for t in present.get(s["id"], []) if t not in (0, 4, 14)]       # Machine, PU and NUMANode filters cannot be changed
        small = s["kind"] in ("synthetic",) or s["id"].startswith("genxml:")
        if not thorough and not small:
            types = rng.sample(types, min(2, len(types)))
        for t in types:
            for key in (((t, 1),), ((-1, 0), (t, 1)), ((-1, 0), (t, 2)), ((t, 1), (-1, 0))):
                if key in two:
                    res.append(two[key])
        return res
    # presets every source gets: default, all KEEP_ALL (+ INCLUDE_DISALLOWED), all KEEP_STRUCTURE
    presets = [[["load", 0, 0, 0]],
               [["filter", -1, 0, 0], ["flags", 1, 0, 0], ["load", 0, 0, 0]],
               [["filter", -1, 2, 0], ["load", 0, 0, 0]]]
    for s in srcs:
        picks = list(presets) + rng.sample(cfgs, min(per_src, len(cfgs))) + rng.sample(simcfgs, min(per_src, len(simcfgs))) + targeted(s)
        if s["kind"] == "synthetic" or s["id"].startswith("genxml:"):
            picks += bindcfgs if thorough else rng.sample(bindcfgs, min(4, len(bindcfgs)))
        for h in picks:
            if s["kind"] == "live" and any(x[0] == "flags" and (x[1] & 48) for x in h):
                continue       # RESTRICT_TO_*BINDING on the live machine depends on the caller's binding: not driven (DESIGN residual)
            behs.append(behaviour(s, h))
    ctx.samples = [behs[0], behs[len(behs) // 2], behs[-1]]
    bf = ctx.path("behaviours.txt")
    open(bf, "w").write("".join(behs))
    tf = ctx.path("trace.ndjson")
    ctx.record(exe, bf, tf, timeout=3000, parallel=vlib.NCPU)
    rejs = ctx.validate("TraceTopo", tf, nshards=32 if thorough else 16, timeout=3000)
    ctx.handle_rejections(rejs, behs, replay_fn)
    return ctx.finish(
        rule="configurations (sequences of legal and illegal filter/flag calls) are enumerated (BFS, <=1 filter call x flag words) and simulated (<=4 filter calls) by TLC "
             "from MC_Load.tla; each source (27 synthetic families, bundled XML files, Linux snapshots, x86 CPUID dumps, the live machine) is loaded for real under the three presets "
             "plus seeded picks of those configurations plus, for every type the source really contains, the two-call configurations of the model that remove it "
             "(alone, and with every other type kept) or keep it only when structuring; synthetic families are also loaded from their own XML exports (v3 and v2 formats), and under the model's binding configurations (the process binds itself to one of seven CPU lists before a load that claims IS_THISSYSTEM and asks for RESTRICT_TO_CPUBINDING / _MEMBINDING: nothing outside the binding may be left); every successful load is judged by WellFormed (Topology.tla). A behaviour is non-trivial when load was attempted.",
        assumptions=["sources that need hardware (CUDA, NVML, Windows ...) are not built here",
                     "RESTRICT_TO_*BINDING flags are not driven on the live machine",
                     "the configuration x source product is sampled per source (seeded), not exhausted, in the quick tier"],
        extra={"sources": len(srcs), "loads": len(behs)})


def rebase_paths(ctx, text):
    """a stored behaviour names files of the scratch directory of the run that found it: point them to this run's scratch directory"""
    import re
    for d in set(re.findall(r"(/\S*?/hwloc-verif\.[A-Za-z0-9_]+\.[A-Za-z0-9_]+)/", text)):
        if d != ctx.dir:
            text = text.replace(d, ctx.dir)
    if ctx.dir + "/corpus/" in text:
        corpus.extract_snapshots(ctx.path("corpus"))
    return text
