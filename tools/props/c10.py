"""C10 - binding calls validate arguments, hand only legal sets to the OS, and round-trip.
Oracle: spec/Bind.tla (Rel, SameHandling); model: spec/MC_Bind.tla on the topology kinds below and on one topology per
shape class of spec/MC_BindShape.tla, with the set classes of spec/BindClasses.tla; binding: spec/TraceBind.tla, harness/hwv_bind.c"""
import os, re, time, random, json, itertools, concurrent.futures as cf
import vlib

DOC_STRICT = os.environ.get("C10_DOC_STRICT", "0") == "1"

# (name, kind, desc, IS_THISSYSTEM flag, HWLOC_THISSYSTEM)
KINDS = [
    ("native",      "native", "-", 0, "-"),
    ("native_env0", "native", "-", 0, "0"),
    ("synth",       "synth", "node:2_pu:2", 0, "-"),
    ("synth_ts",    "synth", "node:2_pu:2", 1, "-"),
    ("synth_env1",  "synth", "pu:4", 0, "1"),
    ("synth_f1e0",  "synth", "pu:4", 1, "0"),
    ("xml",         "xml", "node:2_pu:2", 0, "-"),
    ("xml_ts",      "xml", "node:2_pu:2", 1, "-"),
    ("xmld",        "xmld", "node:3_pu:2/0-3/0-1", 0, "-"),
    ("xmld_ts",     "xmld", "node:3_pu:2/0-3/0-1", 1, "-"),
]

# base machine of the shape dimension (spec/MC_BindShape.tla): "node:K pu:P"
SHAPE_K, SHAPE_P = 3, 2

CPU_TOK = {1: "t1", 2: "t2", 3: "t3", 4: "t4", 5: "rest", 6: "x", 7: "out", 8: "inf"}
NODE_TOK = {1: "n1", 2: "n2", 4: "nrest", 3: "nx", 7: "out", 8: "inf"}
MEM_OPS = {"set_membind", "get_membind", "set_proc_membind", "get_proc_membind", "set_area_membind",
           "get_area_membind", "get_area_memlocation", "alloc_membind"}
CPU_SET_OPS = ["set_cpubind", "set_proc_cpubind", "set_thread_cpubind"]
CPU_GET_OPS = ["get_cpubind", "get_proc_cpubind", "get_thread_cpubind", "get_last_cpu_location", "get_proc_last_cpu_location"]
MEM_SET_OPS = ["set_membind", "set_proc_membind", "set_area_membind", "alloc_membind"]
MEM_GET_OPS = ["get_membind", "get_proc_membind", "get_area_membind", "get_area_memlocation"]


# ---------------------------------------------------------------- TLA+ text helpers
def tset(xs):
    return "{" + ", ".join(str(x) for x in sorted(xs)) + "}"


def tsets(fam):
    return "{" + ", ".join(tset(s) for s in sorted(set(frozenset(s) for s in fam), key=lambda s: (len(s), sorted(s)))) + "}"


def tstrs(xs):
    return "{" + ", ".join('"%s"' % x for x in sorted(xs)) + "}"


def powerset(atoms):
    atoms = sorted(atoms)
    return [frozenset(c) for n in range(len(atoms) + 1) for c in itertools.combinations(atoms, n)]


def ranges_to_set(rs):
    s = set()
    for lo, hi in rs:
        if hi == -1:
            raise vlib.Infra("unexpected infinite set in topology info")
        s.update(range(lo, hi + 1))
    return s


# ---------------------------------------------------------------- per-kind model constants from the real topology
class KindInfo:
    def __init__(self, name, kind, desc, flag, env, ev, chosen):
        self.name, self.kind, self.desc, self.flag, self.env = name, kind, desc, flag, env
        self.chosen = chosen
        cs, cc, ca = (ranges_to_set(ev[k]) for k in ("cs", "cc", "ca"))
        ns, nc, na = (ranges_to_set(ev[k]) for k in ("ns", "nc", "na"))
        kallowed, kmems = ranges_to_set(ev["kallowed"]), ranges_to_set(ev["kmems"])
        if max(cc | kallowed) >= 512 or max(nc | kmems) >= 512:
            raise vlib.Infra("machine too large for the index layout of the C10 recorder")
        self.ts = ev["ts"] == 1

        def catom(i):
            if i in chosen:
                return chosen.index(i) + 1
            if i in cs:
                return 5
            if i in cc:
                return 6
            return 9
        nsl = sorted(ns)

        def natom(i):
            if i in nsl[:2]:
                return nsl.index(i) + 1
            if i in ns:
                return 4
            if i in nc:
                return 3
            return 9
        self.CS = {catom(i) for i in cs}
        self.CC = {catom(i) for i in cc}
        self.CA = {catom(i) for i in ca}
        self.KAllowed = {catom(i) for i in kallowed}
        self.NS = {natom(i) for i in ns}
        self.NC = {natom(i) for i in nc}
        self.NA = {natom(i) for i in na}
        self.KMems = {natom(i) for i in kmems if i in nc}
        nodes = {}
        for n in ev["nodes"]:
            nodes.setdefault(natom(n["os"]), set()).update(catom(i) for i in ranges_to_set(n["cpus"]))
        self.Nodes = nodes
        self.Hooks = {h for h, v in ev["support"].items() if v == 1}
        self.cpu_atoms = sorted((self.CC - {9}) | {7, 8})
        self.node_atoms = sorted((self.NC - {9}) | {7, 8})

    def reset_line(self, thr):
        return "reset %s %s %d %s %d %s" % (self.kind, self.desc, self.flag, self.env, thr, " ".join(str(c) for c in (self.chosen + [-1] * 4)[:4]))


def tp_name(ki):
    return "TP_" + ki.name


def tp_record(ki):
    """the topology of a kind as the record of Bind.tla (over the atoms of MC_Bind)"""
    nodes = "{" + ", ".join("[os |-> %d, cpus |-> %s]" % (o, tset(c)) for o, c in sorted(ki.Nodes.items())) + "}"
    return ("[ts |-> %s, cs |-> %s, cc |-> %s, ca |-> %s, ns |-> %s, nc |-> %s, na |-> %s, nodes |-> %s, hooks |-> %s, "
            "kallowed |-> %s, kmems |-> %s]" % ("TRUE" if ki.ts else "FALSE", tset(ki.CS), tset(ki.CC), tset(ki.CA), tset(ki.NS),
                                                 tset(ki.NC), tset(ki.NA), nodes, tstrs(ki.Hooks), tset(ki.KAllowed), tset(ki.KMems)))


def cpu_classes(ki):
    """TLA+ text: the boundary classes of cpusets of this kind (computed by TLC, spec/BindClasses.tla)"""
    return "CpuClasses(%s, %s)" % (tp_name(ki), tset(ki.cpu_atoms))


def node_classes(ki):
    return "NodeClasses(%s, %s)" % (tp_name(ki), tset(ki.node_atoms))


def cfg_record(ki, threads, ops, cpufam, nodefam, cpuflags, memflags, pols, lens, loadcomps, onlyinit, twin=False):
    """one configuration of MC_Bind: the topology kind as the real library shows it + an alphabet of calls
    (cpufam / nodefam: a list of sets, or the TLA+ text of a family)"""
    nodes = "{" + ", ".join("[os |-> %d, cpus |-> %s]" % (o, tset(c)) for o, c in sorted(ki.Nodes.items())) + "}"
    fam = lambda f: f if isinstance(f, str) else tsets(f)
    d = [("TS", "TRUE" if ki.ts else "FALSE"), ("CS", tset(ki.CS)), ("CC", tset(ki.CC)), ("CA", tset(ki.CA)), ("NS", tset(ki.NS)),
         ("NC", tset(ki.NC)), ("NA", tset(ki.NA)), ("NodesC", nodes), ("Hooks", tstrs(ki.Hooks)), ("KAllowed", tset(ki.KAllowed)),
         ("KMems", tset(ki.KMems)), ("ThreadsC", tstrs(threads)), ("Ops", tstrs(ops)), ("CpuFam", fam(cpufam)),
         ("NodeFam", fam(nodefam)), ("CpuFlagsC", tset(cpuflags)), ("MemFlagsC", tset(memflags)), ("Pols", tset(pols)),
         ("Lens", tset(lens)), ("LoadComps", tstrs(loadcomps)), ("OnlyInit", "TRUE" if onlyinit else "FALSE"),
         ("Twin", "TRUE" if twin else "FALSE")]
    return "[" + ",\n    ".join("%s |-> %s" % x for x in d) + "]"


def gen_module(cfgs, kinds):
    """MC_Bind_cfg.tla: the configurations MC_Bind explores (an extended module: TLC evaluates the definition once,
    including the set classes BindClasses computes for a configuration)"""
    return ("---- MODULE MC_Bind_cfg ----\nEXTENDS BindClasses\n" +
            "".join("%s == %s\n" % (tp_name(ki), tp_record(ki)) for ki in kinds) + "Cfgs == [\n" +
            ",\n".join("  %s |-> %s" % (tag, rec) for tag, rec in cfgs) + "]\n====\n")


def lst(xs):
    return ",".join(str(x) for x in sorted(xs))


def shape_kinds(ctx):
    """the shape dimension: one topology per class of MC_BindShape (allowed PUs / nodes of the base machine chosen by TLC)"""
    out, st = ctx.tlc_mc("MC_BindShape", "SPECIFICATION Spec\nCONSTANTS K = %d\n P = %d\nINVARIANT Emit\nCHECK_DEADLOCK FALSE\n"
                         % (SHAPE_K, SHAPE_P), tag="shape", workers=1, heap="1g", timeout=600)
    if st["error"] or st["rc"] != 0:
        raise vlib.Infra("MC_BindShape failed (model-level, not a violation): %s\n%s" % (st["error"], out[-2000:]))
    shapes = sorted(printed(out, "SHAPE"), key=lambda x: x["sig"])
    if not shapes:
        raise vlib.Infra("MC_BindShape emitted no shape")
    return shapes


MC_CFG = ("SPECIFICATION Spec\nVIEW View\n"
          "INVARIANTS TypeOK ForeignInert AffLegal EmitInit\nACTION_CONSTRAINT EmitEdge\nCHECK_DEADLOCK FALSE\n")


# ---------------------------------------------------------------- TLC transitions -> behaviour text
def call_line(o):
    op, flags, s, pol, tgt, ln = o
    tok = NODE_TOK if (op in MEM_OPS and (flags >= 0 and (flags // 32) % 2 == 1)) else CPU_TOK
    spec = "+".join(tok[a] for a in sorted(s) if a in tok) or "-"
    return "call %s %d %s %d %s %d" % (op, flags, spec, pol, tgt, ln)


def beh_text(ki, thr, hist):
    return "\n".join([ki.reset_line(thr)] + [call_line(o) for o in hist]) + "\n"


def printed(out, tag):
    """payloads of  <<"TAG", "json">>  printed by PrintT (TLC may wrap the tuple over several lines)"""
    for m in re.finditer(r'<<\s*"%s",\s*"((?:[^"\\]|\\.)*)"\s*>>' % tag, out):
        yield json.loads(json.loads('"' + m.group(1) + '"'))


def tours(init, edges, frac, chunk, rng):
    """Transition tours: histories of the model (paths of its state graph starting in the initial state) that together
    take every selected transition once.  edges = [(src, dst, call)]; a fraction `frac` of them is selected."""
    seen, uniq = set(), []
    for s, d, c in edges:
        k = (s, json.dumps(c))
        if k not in seen:
            seen.add(k)
            uniq.append((s, d, c))
    adj, todo, remaining = {}, {}, 0
    for s, d, c in uniq:
        adj.setdefault(s, {}).setdefault(d, c)
        if frac >= 1 or rng.random() < frac:
            todo.setdefault(s, []).append((c, d))
            remaining += 1
    for s in todo:
        todo[s].reverse()

    def route(src):
        prev, queue = {src: None}, [src]
        while queue:
            nxt = []
            for u in queue:
                for v, c in adj.get(u, {}).items():
                    if v in prev:
                        continue
                    prev[v] = (u, c)
                    if todo.get(v):
                        path = []
                        while prev[v] is not None:
                            u2, c2 = prev[v]
                            path.append((c2, v))
                            v = u2
                        return path[::-1]
                    nxt.append(v)
            queue = nxt
        return None
    res, cur, beh = [], init, []
    while remaining:
        if todo.get(cur):
            c, d = todo[cur].pop()
            beh.append(c)
            cur = d
            remaining -= 1
        else:
            path = route(cur)
            if path is None:
                if cur == init and not beh:
                    break                      # transitions out of reach (cannot happen for a BFS-complete graph)
                res.append(beh)
                cur, beh = init, []
                continue
            for c, d in path:
                beh.append(c)
                cur = d
        if len(beh) >= chunk:
            res.append(beh)
            cur, beh = init, []
    if beh:
        res.append(beh)
    return res, len(uniq), sum(len(b) for b in res)


def run(ctx, replay=None):
    if replay:
        shapes_f = None
    else:                                      # the shape model needs nothing of the build: run it meanwhile
        pool = cf.ThreadPoolExecutor(max_workers=1)
        shapes_f = pool.submit(shape_kinds, ctx)
    ctx.build_lib()
    exe = ctx.cc("hwv_bind.c", "hwv_bind")
    vcfg = "SPECIFICATION Spec\nCONSTANT DocStrict = %s\nPOSTCONDITION Accepted\nCHECK_DEADLOCK FALSE\n" % ("TRUE" if DOC_STRICT else "FALSE")

    def replay_fn(text):
        p = ctx.path("replay-%d.beh" % random.randrange(1 << 30))
        open(p, "w").write(text)
        t = p + ".ndjson"
        ctx.record(exe, p, t, env={"HWV_WATCHDOG": "300"})
        return ctx.validate("TraceBind", t, cfg=vcfg, nshards=1)

    if replay:
        rej = replay_fn(open(replay).read())
        for r in rej:
            vlib.log("rejected event:", r["line"][:1500])
            print("VIOLATION property=C10 replay=%s" % replay)
        ctx.cleanup()
        return 1 if rej else 0

    thorough = ctx.tier == "thorough"
    rng = random.Random(ctx.seed)
    allowed = sorted(os.sched_getaffinity(0))
    if len(allowed) < 4:
        raise vlib.Infra("C10 needs at least 4 allowed CPUs")
    chosen_native = sorted(rng.sample(allowed, 4))

    # ---- (0) look at the real topologies of every kind (Reset events only)
    shapes = shapes_f.result()
    pool.shutdown()
    all_kinds = list(KINDS)
    shape_of = {}
    for sh in shapes:
        desc = "node:%d_pu:%d/%s/%s" % (SHAPE_K, SHAPE_P, lst(sh["ac"]), lst(sh["an"]))
        for flag in ((1, 0) if thorough else (1,)):
            name = "shape_%s%s" % ("".join(map(str, sh["sig"])), "_ts" if flag else "")
            all_kinds.append((name, "xmld", desc, flag, "-"))
            shape_of[name] = sh
    infof = ctx.path("info.beh")
    with open(infof, "w") as f:
        for name, kind, desc, flag, env in all_kinds:
            ch = chosen_native if kind == "native" else [0, 1, 2, 3]
            f.write("reset %s %s %d %s 0 %s\n" % (kind, desc, flag, env, " ".join(map(str, ch))))
    ctx.record(exe, infof, infof + ".ndjson")
    evs = [json.loads(x) for x in open(infof + ".ndjson") if x.strip()]
    if len(evs) != len(all_kinds) or any(e.get("e") != "Reset" for e in evs):
        raise vlib.Infra("could not load the topologies of the C10 universe: %r" % (evs[-1:],))
    kinds = []
    for (name, kind, desc, flag, env), ev in zip(all_kinds, evs):
        ch = chosen_native if kind == "native" else sorted(ranges_to_set(ev["cs"]))[:4]
        kinds.append(KindInfo(name, kind, desc, flag, env, ev, ch))
        sh = shape_of.get(name)
        if sh and (ranges_to_set(ev["cs"]) != set(sh["ac"]) or ranges_to_set(ev["ns"]) != set(sh["an"])
                   or {n["os"]: ranges_to_set(n["cpus"]) for n in ev["nodes"]}
                   != {n: set(range(n * SHAPE_P, (n + 1) * SHAPE_P)) & set(sh["ac"]) for n in sh["an"]}):
            raise vlib.Infra("the library did not build the topology shape %s the model asked for: %r" % (name, ev))

    # ---- (1) model runs: job = (configuration name, ki, thr, configuration record, fraction of transitions toured, chunk, weight)
    jobs = []
    allpols = [-1, 0, 1, 2, 3, 4, 5, 6]
    memflags_q = [0, 1, 2, 3, 4, 8, 16, 32, 33, 34, 36, 40, 44, 63, 64, 96, 1 << 20]
    memflags_t = list(range(0, 64)) + [64, 96, 127, 1 << 20, (1 << 20) + 32, -1]
    cpuflags = list(range(0, 32)) + [1 << 20, (1 << 20) + 2, -1]
    S = lambda *a: frozenset(a)
    Q = (lambda q, t: t) if thorough else (lambda q, t: q)
    shape_flags = Q([0, 4, 8, 32, 36], [0, 1, 2, 4, 8, 16, 32, 33, 34, 36, 40, 48])
    for ki in kinds:
        if ki.name in shape_of:
            # (S) the shape dimension: every memory binding entry point x the boundary classes of cpusets and nodesets
            #     (computed by TLC for this topology) x policy, each request followed by its canonical form
            jobs.append(("mem_" + ki.name, ki, 0,
                         cfg_record(ki, ["main"], MEM_SET_OPS + MEM_GET_OPS, cpu_classes(ki), node_classes(ki), [0],
                                    shape_flags, Q([0, 1, 2, 3, 4], [0, 1, 2, 3, 4, 5]), Q([1], [0, 1]), [], True, twin=True), 1.0, 60, 2))
            continue
        catoms, natoms = ki.cpu_atoms, ki.node_atoms
        full_c, full_n = powerset(catoms), powerset(natoms)
        topo4 = [s for s in powerset([a for a in catoms if a <= 4])]
        extras = [S(), S(7), S(8)] + ([S(5)] if 5 in catoms else []) + ([S(6)] if 6 in catoms else []) \
            + ([S(5, 6)] if 5 in catoms and 6 in catoms else [])
        small_c = [a | b for a in topo4 for b in extras]
        # (A) argument validation / dispatch: every call of the full alphabet from the initial state
        big = ki.name in ("native", "xmld_ts")
        jobs.append(("val_cpu_" + ki.name, ki, 0,
                     cfg_record(ki, ["main"], CPU_SET_OPS + CPU_GET_OPS, full_c, [S()], cpuflags, [0], [0], [1], [], True), Q(1.0 if big else 0.5, 1.0), 60, 2))
        jobs.append(("val_mem_" + ki.name, ki, 0,
                     cfg_record(ki, ["main"], MEM_SET_OPS + MEM_GET_OPS, small_c, full_n, [0],
                                Q(memflags_q, memflags_t), allpols, [0, 1], [], True), Q(0.5 if big else 0.25, 1.0), 60, 2))
        if not ki.ts:
            continue
        # (B) CPU round trip: set / get / last location from every reachable (pair of) thread affinities
        ok_c = [s for s in topo4 if s] + [frozenset(ki.CS), frozenset(ki.CC), S(), S(1, 7)] + ([S(6)] if 6 in catoms else [])
        two = ki.name == "native" or (thorough and ki.name == "xmld_ts")
        jobs.append(("rt_cpu_" + ki.name, ki, 1 if two else 0,
                     cfg_record(ki, ["main", "helper"] if two else ["main"], CPU_SET_OPS + CPU_GET_OPS, ok_c, [S()],
                                Q([0, 1, 2, 3, 4, 5, 6, 16], [0, 1, 2, 3, 4, 5, 6, 8, 10, 16]), [0], [0], [1], [], False), Q(0.2 if two else 0.5, 1.0), 80, 4 if two else 2))
        # (C) memory binding round trip through every reachable (thread policy, buffer policy)
        if thorough or ki.name in ("native", "synth_ts", "xmld_ts"):
            ok_n = [s for s in powerset([a for a in natoms if a <= 4]) if s] + [S(), S(1, 7)]
            ok_mc = [S(1), S(3), frozenset(ki.CS), S(1, 2), S(3, 4)]
            jobs.append(("rt_mem_" + ki.name, ki, 0,
                         cfg_record(ki, ["main"], MEM_SET_OPS + MEM_GET_OPS, Q(ok_mc[:3], ok_mc), ok_n, [0],
                                    Q([0, 2, 32, 34, 36, 40, 33], [0, 2, 32, 34, 36, 40, 44, 33, 4]), [0, 1, 2, 3, 5, 4], [1], [], False), Q(0.2, 0.6), 80, 2))
        # (D) hwloc_topology_load() (default components, x86 only) from every binding of the calling thread
        if ki.name == "native":
            for thr in (0, 1):
                jobs.append(("load_%s_%d" % (ki.name, thr), ki, thr,
                             cfg_record(ki, ["main", "helper"] if thr else ["main"], ["set_cpubind", "load"],
                                        [s for s in topo4 if s], [S()], [2], [0], [0], [1], Q(["x86"] if thr else ["default", "x86"], ["default", "x86"]), False), 1.0, 40, 1))

    behs, meta = [], []
    t0 = time.time()
    # one TLC run explores every configuration (the configuration is chosen in Init)
    nrun = 2 if thorough else 1
    groups = [jobs[i::nrun] for i in range(nrun)]

    def run_group(gi):
        grp = groups[gi]
        out, st = ctx.tlc_mc("MC_Bind", MC_CFG, tag="mc%d" % gi, extra_modules=[("MC_Bind_cfg.tla", gen_module([(j[0], j[3]) for j in grp], kinds))],
                             workers=max(2, min(8, vlib.NCPU // nrun)), heap="6g", timeout=2400)
        if st["error"] or st["rc"] != 0:
            raise vlib.Infra("model check of MC_Bind failed (model-level, not a violation): %s\n%s" % (st["error"], out[-3000:]))
        inits = {x["g"]: tuple(x["s"]) for x in printed(out, "INIT")}
        edges = {}
        for e in printed(out, "EDGE"):
            edges.setdefault(e["g"], []).append((tuple(e["s"]), tuple(e["d"]), e["c"]))
        return inits, edges

    with cf.ThreadPoolExecutor(max_workers=nrun) as ex:
        results = list(ex.map(run_group, range(nrun)))
    vlib.log("C10: model runs %.0fs" % (time.time() - t0))
    for job in jobs:
        tag, ki, thr, rec, frac, chunk, w = job
        inits, edges = next(r for r in results if tag in r[0])
        if not edges.get(tag):
            raise vlib.Infra("configuration %s has no transition" % tag)
        hs, nuniq, ncalls = tours(inits[tag], edges[tag], frac, chunk, random.Random(ctx.seed * 7919 + len(tag)))
        behs += [beh_text(ki, thr, h) for h in hs]
        meta.append((tag, nuniq, len(hs), ncalls))
    vlib.log("C10: model runs + tours %.0fs, %d behaviours" % (time.time() - t0, len(behs)))
    # group behaviours with the same topology so that the recorder's topology cache is effective (order is deterministic)
    ctx.samples = [behs[0], behs[len(behs) // 2], behs[-1]]
    # several recorder processes side by side (each has its own threads, affinities and memory policy;
    # a rebinding call mostly waits for the kernel to migrate the thread); recorder i takes behaviours i, i+nrec, ...
    t0 = time.time()
    nrec = min(8, max(1, vlib.NCPU // 2), max(1, len(behs) // 50))

    def record_slice(i):
        bf = ctx.path("behaviours-%d.txt" % i)
        open(bf, "w").write("".join(behs[i::nrec]))
        ctx.record(exe, bf, bf + ".ndjson", timeout=6000, env={"HWV_WATCHDOG": "300"})
        return bf + ".ndjson"

    with cf.ThreadPoolExecutor(max_workers=nrec) as ex:
        parts = list(ex.map(record_slice, range(nrec)))
    tf = ctx.path("trace.ndjson")
    with open(tf, "w") as fo:                  # one trace, behaviour numbers made global again
        for i, pf in enumerate(parts):
            for line in open(pf, errors="replace"):
                if nrec > 1 and '"beh":' in line[:40]:
                    line = re.sub(r'"beh":(-?\d+)', lambda m: '"beh":%d' % (int(m.group(1)) * nrec + i if int(m.group(1)) >= 0 else -1), line, count=1)
                fo.write(line)
            os.unlink(pf)
    vlib.log("C10: recorded in %.0fs by %d recorders (%d MB)" % (time.time() - t0, nrec, os.path.getsize(tf) >> 20))
    t0 = time.time()
    rejs = ctx.validate("TraceBind", tf, cfg=vcfg)
    vlib.log("C10: validated in %.0fs" % (time.time() - t0))
    ctx.handle_rejections(rejs, behs, replay_fn)
    return ctx.finish(
        rule="behaviours = transition tours of the bounded binding model: every (thorough) or a seeded fraction (quick) of the transitions "
             "TLC enumerated is taken once - every entry point x flag word x set over the atoms {4 chosen PUs, rest, disallowed, outside, "
             "infinite tail} x policy from the initial state of each of %d topology kinds; every call of a smaller alphabet from every "
             "reachable pair of thread affinities / memory policies for the kinds with OS hooks; hwloc_topology_load from every binding; "
             "every memory binding entry point x the boundary classes of cpusets / nodesets TLC computes (BindClasses) x policy on one "
             "topology per shape class of MC_BindShape (%d classes of allowed PUs / nodes of node:%d pu:%d: disallowed PUs / nodes, "
             "CPU-less nodes, PUs without a local node), each request followed by its canonical form (nodeset flavour, fixed set) and "
             "the two compared by Bind!SameHandling; "
             "each tour was replayed on the rebuilt library with the system calls intercepted and validated by TLC against Bind!Rel; "
             "a behaviour is non-trivial when it contains at least one call" % (len(KINDS), len(shapes), SHAPE_K, SHAPE_P),
        assumptions=["Linux x86_64 sandbox: the kernel's own behaviour (sched_setaffinity/set_mempolicy semantics) is trusted and read back with raw system calls",
                     "memory binding on the live system is limited to the NUMA nodes the sandbox has; kernel refusals are accepted where the property leaves them open",
                     "ENOMEM paths and hwloc_topology_set_pid() are not explored"],
        exhaustive=False,
        extra={"behaviours": len(behs), "model_runs": meta, "shapes": shapes, "chosen_cpus": chosen_native, "doc_strict": DOC_STRICT})
