"""C13 - Distances: what is added is what is returned, and it follows the objects.
Model: spec/Distances.tla (relations), spec/MC_Distances.tla (bounded store, behaviour generation);
binding: spec/TraceDistances.tla, harness/hwv_distances.c"""
import os, random, json, re, itertools, time
import concurrent.futures as cf
import vlib

XMLDIR = os.path.join(vlib.REPO, "tests", "hwloc", "xml")


# ---------------------------------------------------------------- TLA+ text
def tla(v):
    if isinstance(v, bool):
        return "TRUE" if v else "FALSE"
    if isinstance(v, int):
        return str(v)
    if isinstance(v, str):
        return '"%s"' % v
    if isinstance(v, (list, tuple)):
        return "<<" + ", ".join(tla(x) for x in v) + ">>"
    if isinstance(v, (set, frozenset)):
        return "{" + ", ".join(sorted(tla(x) for x in v)) + "}"
    if isinstance(v, dict):
        return "[" + ", ".join("%s |-> %s" % (k, tla(x)) for k, x in v.items()) + "]"
    raise TypeError(v)


CONST_NAMES = ["NC", "CType", "CSw", "Names", "Kinds", "CreateFlags", "ValuesFlags", "CommitFlags", "ObjSeqs", "ValPats", "Restricts",
               "MaxDists", "MaxRestricts", "Queries", "Xfs", "RmTypes", "BadDepths", "Ops", "MaxPhase", "PhaseQueries", "NStripes", "Stripe", "SimLen"]


def gen_module(name, c):
    lines = ["---- MODULE %s ----" % name, "EXTENDS MC_Distances"]
    for k in CONST_NAMES:
        lines.append("G_%s == %s" % (k, tla(c[k])))
    lines.append("====")
    return "\n".join(lines) + "\n"


def gen_cfg(c, bfs):
    s = "SPECIFICATION Spec\nCONSTANTS\n" + "".join("  %s <- G_%s\n" % (k, k) for k in CONST_NAMES)
    s += "VIEW View\nCHECK_DEADLOCK FALSE\n"
    if bfs:
        s += "INVARIANTS TypeOK StoreOK HandleOK FilterOK RestrictLaw XfOK\nACTION_CONSTRAINT EmitEdge\n"
    else:
        s += "INVARIANTS TypeOK StoreOK HandleOK EmitSim\n"
    return s


# ---------------------------------------------------------------- families: a topology, its candidates, its restrict options
class Family:
    def __init__(self, name, synth, cands, restricts, iofilter=0):
        self.name, self.synth, self.cands, self.restricts, self.iofilter = name, synth, cands, restricts, iofilter
        self.alive = {}         # restrict id -> set of surviving candidate numbers (probed on the real library)
        self.types = []

    def reset_line(self):
        return "reset synth %s %d %d %s" % (self.synth.replace(" ", ","), self.iofilter, len(self.cands),
                                            " ".join("%s:%d:%d" % c for c in self.cands))


# restrict options: (flags, set); flags 1 = REMOVE_CPULESS, 8 = BYNODESET, 24 = BYNODESET|REMOVE_MEMLESS
FAM_STORE = Family("store", "node:2 core:2 pu:2",
                   [("PU", 0, 0), ("PU", 5, 0), ("NUMANode", 1, 0), ("Core", 1, 0)],
                   [(0, "1-7"), (0, "0-4,6-7"), (0, "0-1,4-7"), (0, "0-3"), (1, "0-3"), (0, "0-7"), (8, "0"), (0, "-")])
FAM_SIX = Family("six", "pack:2 node:2 core:2 pu:2",
                 [("PU", 0, 0), ("PU", 9, 0), ("NUMANode", 1, 0), ("NUMANode", 2, 0), ("Core", 1, 0), ("Core", 6, 0), ("Package", 1, 0)],
                 [(0, "1-15"), (0, "0-8,10-15"), (0, "0-1,4-15"), (0, "0-7"), (1, "0-7"), (1, "0-3,8-11"), (24, "0,2"), (0, "0-15")])
FAM_SWITCH = Family("switch", "core:6 pu:1",
                    [("Core", 0, 0), ("Core", 1, 0), ("Core", 2, 0), ("Core", 3, 0), ("Core", 4, 1), ("Core", 5, 1)],
                    [(0, "1-5"), (0, "0-3,5")])
FAM_GROUP = Family("group", "node:4 core:2 pu:2",
                   [("NUMANode", 0, 0), ("NUMANode", 1, 0), ("NUMANode", 2, 0), ("NUMANode", 3, 0),
                    ("Core", 0, 0), ("Core", 2, 0), ("Core", 4, 0), ("Core", 6, 0),
                    ("PU", 0, 0), ("PU", 1, 0), ("PU", 8, 0), ("PU", 9, 0)],
                   [(0, "0-11"), (1, "4-15")])


def probe_family(ctx, exe, fam):
    """ask the real library which candidates survive each restrict option (steers the model only)"""
    n = len(fam.cands)
    lines = []
    for i, (fl, st) in enumerate(fam.restricts):
        lines += [fam.reset_line(), "create probe 6 0",
                  "values 0 %d %s %s" % (n, " ".join(str(k + 1) for k in range(n)), " ".join("1" for _ in range(n * n))),
                  "commit 0", "restrict %d %s" % (fl, st)]
    p = ctx.path("probe-%s.beh" % fam.name)
    open(p, "w").write("\n".join(lines) + "\n")
    ctx.record(exe, p, p + ".ndjson")
    gp2c, bi = {}, -1
    for line in open(p + ".ndjson"):
        e = json.loads(line)
        if e["e"] == "Reset":
            if not e["ok"] or any(c[0] == 0 for c in e["cands"]):
                raise vlib.Infra("probe: cannot resolve the candidates of family %s: %s" % (fam.name, line[:300]))
            gp2c = {c[0]: k + 1 for k, c in enumerate(e["cands"])}
            fam.types = [c[1] for c in e["cands"]]
            bi += 1
        elif e["e"] == "restrict":
            if e["ret"] == 0:
                fam.alive[bi + 1] = {gp2c[g] for g, a in e["surv"] if a and g in gp2c}
            else:
                fam.alive[bi + 1] = set(range(1, n + 1))
        elif e["e"] in ("Crash", "Hang"):
            fam.alive[bi + 1] = set(range(1, n + 1))
    for i in range(len(fam.restricts)):
        fam.alive.setdefault(i + 1, set(range(1, n + 1)))


def base_consts(fam):
    return {"NC": len(fam.cands), "CType": fam.types, "CSw": [bool(c[2]) for c in fam.cands],
            "Names": {"a"}, "Kinds": {6}, "CreateFlags": {0}, "ValuesFlags": {0}, "CommitFlags": {0},
            "ObjSeqs": {(1, 2)}, "ValPats": {1},
            "Restricts": {TlaRec(id=i, alive=frozenset(a)) for i, a in fam.alive.items()},
            "MaxDists": 1, "MaxRestricts": 1, "Queries": set(), "Xfs": set(), "RmTypes": set(), "BadDepths": set(),
            "Ops": set(), "MaxPhase": 0, "PhaseQueries": set(), "NStripes": 1, "Stripe": 0, "SimLen": 0}


class TlaRec(dict):
    def __init__(self, **kw):
        dict.__init__(self, **kw)

    def __hash__(self):
        return hash(tuple(sorted((k, tla(v)) for k, v in self.items())))


def perms_upto(objs, maxlen):
    out = set()
    for n in range(0, maxlen + 1):
        for p in itertools.permutations(objs, n):
            out.add(tuple(p))
    return out


def kind_queries(kinds, nrs):
    return {("kind", "", k, 0, n) for k in kinds for n in nrs}


def configs(fams, thorough, seed):
    """list of (tag, family, constants, mode, stripes, simulate-num, depth)"""
    st, six, sw, gr = fams["store"], fams["six"], fams["switch"], fams["group"]
    out = []
    # K: every kind word x create flags x names on one homogeneous and one mixed pair: validation, HETEROGENEOUS bit, by-name
    c = base_consts(st)
    c.update(Names={"-", "a"}, Kinds=set(range(128)) | {256 + 6}, CreateFlags={0, 1}, ObjSeqs={(1, 2), (1, 3)}, Ops={"q", "xml"},
             Queries={("name", "a", 0, 0, 2), ("name", "b", 0, 0, 1), ("kind", "", 0, 0, -1), ("kind", "", 63, 0, 1)}, Restricts=set(),
             MaxPhase=1, PhaseQueries={("name", "a", 0, 0, 2), ("kind", "", 63, 0, 1)})
    out.append(("kinds", st, c, "bfs", 1 if thorough else 2, 0, 0))
    # A: argument validation of add_values / add_commit, every edge: all arrays of 0..3 pointers over NULL and three
    # candidates (NULL in any position, duplicates), both values flags, valid and invalid commit flags
    c = base_consts(st)
    aseqs = {tuple(p) for n in range(0, 4) for p in itertools.product([0, 1, 2, 3], repeat=n)} | {(1, 2, 3, 4), (0, 1, 2, 3), (1, 2, 3, 0)}
    c.update(ValuesFlags={0, 1}, CommitFlags={0, 1, 2, 3, 4, 8}, ObjSeqs=aseqs, Restricts=set())
    out.append(("args", st, c, "bfs", 1, 0, 0))
    # O: every object array (order, size 0..4, NULL pointers, duplicates) x add flags, then the objects disappear
    c = base_consts(st)
    seqs = perms_upto([1, 2, 3, 4], 4) | {(0, 1), (1, 0), (0, 1, 2), (1, 0, 3), (1, 2, 0), (0, 0), (0, 0, 1), (0,), (1, 1), (1, 3, 1), (3, 3, 4)}
    c.update(Kinds={6, 9}, ValuesFlags={0, 1}, CommitFlags={0, 2, 4}, ObjSeqs=seqs, MaxRestricts=2,
             Ops={"restrict", "dup", "xml", "shm", "q", "rmtype", "rmdepth"}, RmTypes={"PU", "Core"}, BadDepths={99},
             Queries={("type", "PU", 0, 0, 1), ("type", "NUMANode", 0, 0, 2), ("type", "Core", 8, 0, 0), ("type", "Package", 0, 0, 1),
                      ("depth", "t:PU", 0, 0, -1), ("depth", "t:NUMANode", 4, 0, 1), ("depth", "99", 0, 0, 1), ("depth", "-99", 0, 0, 0),
                      ("kind", "", 0, 1, 1), ("name", "a", 0, 1, 1)},
             MaxPhase=1, PhaseQueries={("type", "PU", 0, 0, 1), ("depth", "t:NUMANode", 4, 0, 1), ("name", "a", 0, 1, 1)})
    out.append(("objs", st, c, "bfs", 8 if thorough else 150, 0, 0))
    # S: several structures: filters, array sizes, removals
    c = base_consts(st)
    c.update(Names={"-", "a", "b"} if thorough else {"-", "a"}, Kinds={6, 9, 33}, ObjSeqs={(1, 2), (3, 4), (2, 1, 3)},
             MaxDists=2, MaxRestricts=1,
             Ops={"q", "remove", "rmtype", "rmdepth", "rr", "rr2", "restrict", "dup", "xml", "shm"}, RmTypes={"PU", "NUMANode", "Package"}, BadDepths={99, -1},
             Queries=kind_queries(range(0, 48) if thorough else [0, 1, 2, 3, 4, 8, 12, 32, 36, 44, 5, 10, 35, 16, 22, 47], [-1, 0, 1, 2])
             | {("name", n, 0, 0, k) for n in ("a", "b", "c") for k in (-1, 0, 1)}
             | {("type", t, k, 0, n) for t in ("PU", "NUMANode", "Core") for k in (0, 4, 9) for n in (-1, 1)}
             | {("depth", d, 0, 0, 1) for d in ("t:PU", "t:Core", "7")},
             MaxPhase=1, PhaseQueries={("kind", "", 0, 0, -1), ("kind", "", 5, 0, 1), ("kind", "", 10, 0, -1), ("name", "a", 0, 0, -1), ("name", "b", 0, 0, 1),
                                       ("type", "PU", 0, 0, -1), ("type", "NUMANode", 9, 0, 1), ("depth", "t:PU", 0, 0, 1)})
    out.append(("store", st, c, "bfs", 250 if thorough else 600, 0, 0))
    if thorough:
        # S3: three structures at a time (removal in the middle of the list, identifiers), few queries
        c = base_consts(st)
        c.update(Names={"-", "a"}, Kinds={6, 9, 33}, ObjSeqs={(1, 2), (3, 4), (2, 1, 3)}, MaxDists=3, MaxRestricts=1,
                 Ops={"q", "remove", "rmtype", "rmdepth", "rr", "rr2", "restrict", "dup", "xml", "shm"}, RmTypes={"PU", "NUMANode"}, BadDepths={99},
                 Queries={("kind", "", 0, 0, -1), ("kind", "", 0, 0, 2), ("kind", "", 9, 0, 1), ("kind", "", 36, 0, -1), ("name", "a", 0, 0, -1), ("name", "a", 0, 0, 1),
                          ("type", "PU", 0, 0, -1), ("type", "NUMANode", 0, 0, 1)})
        out.append(("store3", st, c, "bfs", 200, 0, 0))
    # X: transforms on copies: all positions of 0..2 switch ports among up to 4 objects, NULLed objects, bad arguments
    c = base_consts(sw)
    xseq = set()
    for npos in (0, 1, 2):
        for pos in itertools.combinations(range(4), npos):
            s, g, p = [], iter([1, 2, 3, 4]), iter([5, 6])
            for i in range(4):
                s.append(next(p) if i in pos else next(g))
            xseq.add(tuple(s))
    xseq |= {(5, 6), (5, 1), (1, 5), (1, 5, 6), (5, 1, 6), (6, 5, 2), (1, 2, 3), (2, 1)}
    xfs = {(t, m, 0, 0) for t in (0, 1, 2, 3) for m in (0, 1, 2, 4, 6, 9, 14, 15)} | {(t, 0, f, a) for t in (0, 2) for f, a in ((1, 0), (0, 1))} | {(4, 0, 0, 0), (7, 1, 0, 0)}
    c.update(Kinds={9, 10, 6}, ObjSeqs=xseq, ValPats={1, 3, 4, 6}, Ops={"xf"}, Xfs=xfs, Restricts=set())
    out.append(("xf", sw, c, "bfs", 2 if thorough else 10, 0, 0))
    # G: grouping at commit: homogeneous sets of 3-4 objects, groupable and not, all flag words, then the usual followers
    c = base_consts(gr)
    c.update(Kinds={6, 33, 9}, CommitFlags={0, 1, 2, 3}, ValPats={1, 2, 5},
             ObjSeqs={(1, 2, 3, 4), (1, 3, 2, 4), (1, 2, 3), (5, 6, 7, 8), (6, 5, 8), (9, 10, 11, 12), (9, 11, 10, 12), (1, 2, 5, 6), (9, 10)},
             MaxDists=1, MaxPhase=1, Ops={"xml", "remove", "dup", "restrict"})
    if thorough:        # a second commit, after the topology went through restrict / dup / XML
        c.update(Kinds={6, 33}, CommitFlags={0, 1, 3}, ObjSeqs={(1, 2, 3, 4), (1, 3, 2, 4), (5, 6, 7, 8), (9, 10, 11, 12), (9, 11, 10, 12), (1, 2, 5, 6)},
                 MaxDists=2, Ops={"restrict", "dup", "xml", "remove"})
    out.append(("group", gr, c, "bfs", 20 if thorough else 6, 0, 0))
    # simulation: seven candidates of four types, random values, every family of actions interleaved
    for i in range(6 if thorough else 1):
        c = base_consts(six)
        c.update(Names={"-", "a", "b"}, Kinds={6, 9, 33, 5, 10, 34, 4, 2, 0, 22, 70, 3}, CreateFlags={0, 0, 1}, ValuesFlags={0}, CommitFlags={0, 0, 2, 4},
                 ObjSeqs=set(random.Random(seed * 77 + i).sample(sorted(perms_upto([1, 2, 3, 4, 5, 6, 7], 4)), 60)) | {(0, 1, 2), (1, 0), (0, 3), (7, 7, 1), (2,)},
                 ValPats={0, 1}, MaxDists=4, MaxRestricts=3,
                 Ops={"q", "remove", "rmtype", "rmdepth", "rr", "rr2", "restrict", "dup", "xml", "shm", "xf"}, RmTypes={"PU", "NUMANode", "Core", "Package"}, BadDepths={99},
                 Queries=kind_queries([0, 1, 2, 4, 8, 32, 6, 9, 45, 3], [-1, 1]) | {("name", "a", 0, 0, -1), ("name", "b", 0, 0, 1)}
                 | {("type", t, 0, 0, -1) for t in ("PU", "NUMANode", "Core", "Package")} | {("depth", "t:Core", 0, 0, 2)},
                 Xfs={(0, 1, 0, 0), (0, 6, 0, 0), (1, 0, 0, 0), (3, 0, 0, 0), (2, 0, 0, 0)}, SimLen=14)
        out.append(("sim%d" % i, six, c, "sim", 1, 200 if thorough else 40, 15))
    return out


# ---------------------------------------------------------------- history -> behaviour text
def beh_text(hist, fam):
    lines = [fam.reset_line()]
    for t in hist:
        op, a = t[1], t[2:]
        if op == "create":
            lines.append("create %s %d %d" % (a[0], a[1], a[2]))
        elif op == "values":
            f, cs, vals = a
            lines.append("values %d %d %s" % (f, len(cs), " ".join(str(x) for x in list(cs) + list(vals))))
        elif op == "commit":
            lines.append("commit %d" % a[0])
        elif op == "q":
            by, arg, kind, fl, nr = a
            if by == "kind":
                lines.append("q kind %d %d %d" % (kind, fl, nr))
            elif by == "name":
                lines.append("q name %s %d %d" % (arg, fl, nr))
            else:
                lines.append("q %s %s %d %d %d" % (by, arg, kind, fl, nr))
        elif op == "xf":
            lines.append("xf %d %d %d %d %d" % tuple(a))
        elif op in ("rr", "rr2"):
            lines.append("%s %d" % (op, a[0]))
        elif op == "remove":
            lines.append("remove")
        elif op == "rmtype":
            lines.append("rmtype %s" % a[0])
        elif op == "rmdepth":
            lines.append("rmdepth t:%s" % a[1] if a[0] == "t" else "rmdepth %d" % a[1])
        elif op == "restrict":
            fl, st = fam.restricts[a[0] - 1]
            lines.append("restrict %d %s" % (fl, st))
        elif op == "dup":
            lines.append("dup")
        elif op == "xml":
            lines.append("xml 0")
        elif op == "shm":
            lines.append("shm")
        else:
            raise vlib.Infra("unknown op in TLC history: %r" % (t,))
    return "\n".join(lines) + "\n"


# ---------------------------------------------------------------- bundled XML inputs (scripted around what the file contains)
BUNDLED = [("16amd64-4distances.xml", 0), ("fakeheterodistances.xml", 0), ("power8gpudistances.xml", 2), ("nvidiaDGX2.xml", 2),
           ("nvidiaDGX2.xml", 1), ("nvidiaDGX2.xml", 0), ("power8gpudistances.xml", 0), ("16amd64-8n2c-cpusets.xml", 0), ("memorysidecaches.xml", 0)]


def parse_list(s):
    out = set()
    for part in s.split(","):
        if not part:
            continue
        if "-" in part:
            a, b = part.split("-")
            out |= set(range(int(a), int(b) + 1))
        else:
            out.add(int(part))
    return out


def fmt_list(xs):
    xs = sorted(xs)
    if not xs:
        return "-"
    parts, i = [], 0
    while i < len(xs):
        j = i
        while j + 1 < len(xs) and xs[j + 1] == xs[j] + 1:
            j += 1
        parts.append("%d" % xs[i] if i == j else "%d-%d" % (xs[i], xs[j]))
        i = j + 1
    return ",".join(parts)


def bundled_behaviours(ctx, exe, rng, thorough):
    files = [(f, io) for f, io in BUNDLED if os.path.exists(os.path.join(XMLDIR, f))]
    p = ctx.path("probe-xml.beh")
    open(p, "w").write("".join("reset xml %s %d 0\n" % (os.path.join(XMLDIR, f), io) for f, io in files))
    ctx.record(exe, p, p + ".ndjson")
    info = {}
    for line in open(p + ".ndjson"):
        e = json.loads(line)
        if e["e"] == "Reset" and e["ok"]:
            info[e["beh"]] = e
    behs = []
    for bi, (f, io) in enumerate(files):
        e = info.get(bi)
        if not e or not e["obs"]["l"]:
            continue
        if any(isinstance(v, str) or v >= (1 << 24) for d in e["obs"]["l"] for v in d["vals"]):
            continue            # TLC integers are 32 bit; sums of a row must stay below 2^31
        reset = "reset xml %s %d 0" % (os.path.join(XMLDIR, f), io)
        dl = e["obs"]["l"]
        names = sorted({d["name"] for d in dl if d["hasname"]}) + ["nosuchname"]
        types = sorted({o[1] for d in dl for o in d["objs"]})
        root_c, root_n = parse_list(e["root"][0]), parse_list(e["root"][1])
        osets = {o[0]: (parse_list(o[2]), parse_list(o[3])) for o in e["objsets"]}
        queries = ["q kind 0 0 -1", "q kind 0 0 1"] + ["q name %s 0 -1" % n for n in names] + ["q type %s 0 0 -1" % t for t in types] \
            + ["q depth t:%s %d 0 2" % (t, k) for t in types[:2] for k in (0, 4, 8)] + ["q kind %d 0 %d" % (k, n) for k in (1, 2, 4, 8, 32, 9, 5, 37) for n in (-1,)]
        xfs = []
        for k, d in enumerate(dl):
            n = d["n"]
            masks = [0, 1, 1 << (n - 1), rng.getrandbits(n), (1 << n) - 2, rng.getrandbits(n) | 1]
            for tr in (0, 1, 2, 3):
                for m in (masks if tr in (0, 2) else masks[:2]):
                    xfs.append("xf %d %d %d 0 0" % (k, tr, m))
        # restrict sets: remove what sits under one object, or under a random group of objects
        gps = sorted(osets)
        victims = [[g] for g in gps] + [rng.sample(gps, rng.randint(2, max(2, len(gps) - 1))) for _ in range(6 if thorough else 2)]
        if not thorough:
            victims = rng.sample(victims, min(len(victims), 5))
        restr = []
        for v in victims:
            cs = root_c - set().union(*[osets[g][0] for g in v])
            ns = root_n - set().union(*[osets[g][1] for g in v])
            restr.append("restrict %d %s" % (rng.choice([0, 1, 1, 5]), fmt_list(cs)))
            if ns and ns != root_n:
                restr.append("restrict %d %s" % (rng.choice([8, 24]), fmt_list(ns)))
        behs.append("\n".join([reset] + queries + xfs + ["shm", "dup", "q kind 0 0 -1", "xml 0", "q kind 0 0 -1", "shm"]) + "\n")
        for r in restr:
            tail = rng.sample(queries, min(4, len(queries))) + rng.sample(xfs, min(3, len(xfs)))
            seq = [reset, r] + tail + rng.sample(["dup", "xml 0", "shm", rng.choice(restr)], 4) + ["q kind 0 0 -1"]
            behs.append("\n".join(seq) + "\n")
        # removals on a loaded file
        behs.append("\n".join([reset, "rmtype %s" % types[0], "q kind 0 0 -1", "rr2 0", "xml 0", "remove", "dup"]) + "\n")
        behs.append("\n".join([reset, "rr %d" % (len(dl) - 1), "rmdepth t:%s" % types[-1], "dup", "rmdepth 99", "remove"]) + "\n")
    return behs


def record_parallel(ctx, exe, behs, tracefile, nproc=8):
    """record chunks of the behaviour list in parallel; the chunk traces are concatenated with the behaviour
    numbers shifted to global ones (the recorder numbers behaviours from 0 within its file)"""
    n = len(behs)
    size = max(1, (n + nproc - 1) // nproc)
    chunks = [(i, behs[i:i + size]) for i in range(0, n, size)]

    def one(ch):
        off, bl = ch
        p = ctx.path("chunk-%d.beh" % off)
        open(p, "w").write("".join(bl))
        ctx.record(exe, p, p + ".ndjson")
        return off, p + ".ndjson"

    with cf.ThreadPoolExecutor(max_workers=nproc) as ex:
        parts = list(ex.map(one, chunks))
    pat = re.compile(r'"beh":(-?\d+)')
    with open(tracefile, "w") as fo:
        for off, p in parts:
            for line in open(p, errors="replace"):
                fo.write(pat.sub(lambda m: '"beh":%d' % (int(m.group(1)) + off), line, count=1) if off else line)
            os.remove(p)


# ---------------------------------------------------------------- main
def run(ctx, replay=None):
    ctx.build_lib()
    exe = ctx.cc("hwv_distances.c", "hwv_distances")

    def replay_fn(text):
        p = ctx.path("replay-%d.beh" % random.randrange(1 << 30))
        open(p, "w").write(text)
        t = p + ".ndjson"
        ctx.record(exe, p, t)
        return ctx.validate("TraceDistances", t, nshards=1)

    if replay:
        rej = replay_fn(open(replay).read())
        for r in rej:
            vlib.log("rejected event:", r["line"][:1500])
            print("VIOLATION property=C13 replay=%s" % replay)
        ctx.cleanup()
        return 1 if rej else 0

    thorough = ctx.tier == "thorough"
    rng = random.Random(ctx.seed)
    fams = {f.name: f for f in (FAM_STORE, FAM_SIX, FAM_SWITCH, FAM_GROUP)}
    for f in fams.values():
        probe_family(ctx, exe, f)

    behs, per_cfg = [], {}
    jobs = []
    for tag, fam, c, mode, nstripes, num, depth in configs(fams, thorough, ctx.seed):
        stripes = [ctx.seed % nstripes]
        if thorough and mode == "bfs":
            stripes = sorted({ctx.seed % nstripes, (ctx.seed + 1) % nstripes})
        for stripe in stripes:
            cc = dict(c)
            cc["NStripes"], cc["Stripe"] = nstripes, stripe
            jobs.append((tag, fam, cc, mode, stripe, num, depth))

    def run_job(job):
        tag, fam, c, mode, stripe, num, depth = job
        mod = "MC_Distances_gen"
        out, st = ctx.tlc_mc(mod, gen_cfg(c, mode == "bfs"), tag="%s_%d" % (tag, stripe), workers=4,
                             simulate=("num=%d" % num) if mode == "sim" else None, depth=depth or None,
                             extra_modules=[(mod + ".tla", gen_module(mod, c))], timeout=2400)
        if st["error"] or (mode == "bfs" and st["rc"] != 0):
            raise vlib.Infra("model check of MC_Distances (%s) failed (model-level, not a violation): %s\n%s" % (tag, st["error"], out[-2500:]))
        return [beh_text(h, fam) for h in vlib.tlc_printed(out, "EDGE" if mode == "bfs" else "SIM")]

    with cf.ThreadPoolExecutor(max_workers=4) as ex:
        results = list(ex.map(run_job, jobs))
    for job, res in zip(jobs, results):
        tag = job[0]
        cap = 20000 if thorough else 1200          # guard against a stripe that came out too fat
        if len(res) > cap:
            res = random.Random(ctx.seed + len(behs)).sample(res, cap)
            ctx.notes.append("configuration %s: sampled %d of the emitted behaviours" % (tag, cap))
        behs += res
        per_cfg[tag] = per_cfg.get(tag, 0) + len(res)
    nb = len(behs)
    behs += bundled_behaviours(ctx, exe, rng, thorough)
    per_cfg["bundled"] = len(behs) - nb
    vlib.log("C13 behaviours per configuration:", per_cfg)

    ctx.samples = [behs[0], behs[len(behs) // 3], behs[-1]]
    bf = ctx.path("behaviours.txt")
    open(bf, "w").write("".join(behs))
    tf = ctx.path("trace.ndjson")
    t0 = time.time()
    record_parallel(ctx, exe, behs, tf)
    t1 = time.time()
    rejs = ctx.validate("TraceDistances", tf)
    vlib.log("C13: recording %.0fs, validation %.0fs, trace %.1f MB" % (t1 - t0, time.time() - t1, os.path.getsize(tf) / 1e6))
    # every rejection is confirmed by a fresh re-run; a dozen distinct ones are enough to report
    seen, todo = set(), []
    for r in rejs:
        key = re.sub(r"\d+", "#", r["line"][:60])
        if key in seen and len(todo) >= 4:
            continue
        seen.add(key)
        todo.append(r)
    if len(todo) < len(rejs):
        ctx.notes.append("%d rejected behaviours, %d confirmed and reported" % (len(rejs), len(todo[:12])))
    ctx.handle_rejections(todo[:12], behs, replay_fn)
    return ctx.finish(
        rule="behaviours = one per (striped) edge of the state graph of the bounded distances store (MC_Distances.tla) in the "
             "configurations kinds (all kind words x names x create flags), args (every array of 0..3 pointers over NULL and 3 "
             "candidates x values/commit flags, all edges), objs (all ordered arrays of 0..4 of 4 mixed-type candidates, then "
             "restrict/dup/XML/shmem), store (2-3 structures: every kind filter x array size, by name/type/depth, every removal), "
             "xf (transforms over all positions of 0..2 switch ports among 4, NULLed objects, bad arguments) and group (commit with "
             "GROUP flags on fresh / restricted / duplicated / re-imported topologies); plus TLC-simulated interleavings over 7 "
             "candidates with random values and scripted sequences around the bundled XML inputs with distances; a behaviour is "
             "non-trivial when it reaches at least one committed structure or a rejected argument; each behaviour was replayed on "
             "the rebuilt (ASan+UBSan) library and every recorded event validated by TLC against the relations of Distances.tla",
        assumptions=["values stay below 2^24 (TLC integers); 64-bit overflow in transforms is not explored",
                     "shared-memory adoption is exercised within one process only (write, adopt, observe, destroy)",
                     "the order in which get* returns structures is not specified and not checked (bag comparison)",
                     "which Groups a GROUP commit creates is not specified; only hwloc_topology_check() afterwards",
                     "objects are identified by gp_index, assumed stable across dup and v3 XML round trip (C05/C12)"],
        exhaustive=False,
        extra={"behaviours": len(behs), "per_configuration": per_cfg})
