"""C06 - loading arbitrary XML never corrupts memory, hangs or yields a broken topology.
Model: spec/MC_XmlMut.tla (structure-aware mutation recipes over the element tree of each base document);
oracle: the lifecycle relation of spec/TraceXmlLoad.tla (+ WellFormed on every accepted document);
recorder: harness/hwv_xmlload.c under ASan+UBSan+LSan with a watchdog, for both XML backends."""
import os, random, json, re, hashlib
import vlib, corpus
from props import c01, c08

VALS = ["", "-1", "0", "1", "4294967296", "18446744073709551616", "0xffffffff", "0x", "9" * 300, "Unknown", "PU", "NUMANode",
        "Machine", "128", "0x00000001,0x00000000", "0xf...f", "3.14", "a b c", "65536", "-2147483648", "L2Cache", "OSDev",
        "1-7", "0-1", "2", "0x00000001", "Group", "%s%n", "&amp;", "é",
        "Capacity", "Locality", "Bandwidth", "Latency", "18446744073709551501", "1000000000000000", "hwvattr"]
# text contents (of <indexes>, <u64values>, <userdata> ...)
CONTENTS = ["", "0", "1 2 3", "18446744073709551615 " * 12, "NUMANode:18446744073709551501 " * 10, "PU:0 PU:1 PU:2 PU:3 ", "x", "-1 -1 -1 -1 ",
            "10 " * 400, "Unknown:0 Machine:1 ", "Zm9v", "====", "1,2,3", " "]
VERS = ["1.0", "2.0", "2.5", "3.0", "4.0", "", "abc", "2", "0.9", "3.0.1"]

DOCTYPES = ["", "<!DOCTYPE topology>", '<!DOCTYPE topology SYSTEM "">', '<!DOCTYPE topology SYSTEM "hwloc.dtd">', '<!DOCTYPE topology SYSTEM "hwloc2.dtd">',
            '<!DOCTYPE foo SYSTEM "hwloc2.dtd">', '<!DOCTYPE topology PUBLIC "-//x//y" "hwloc2.dtd">', '<!DOCTYPE topology [ <!ENTITY a "b"> ]>',
            '<!DOCTYPE topologydiff SYSTEM "hwloc2-diff.dtd">', "<!DOCTYPE topologydiff>", "<!DOCTYPE", "<!DOCTYPE topology SYSTEM \"hwloc2.dtd\"",
            '<!DOCTYPE topology SYSTEM "hwloc2.dtd"><!DOCTYPE topology SYSTEM "hwloc2.dtd">']
SETS = 'cpuset="0x00000001" complete_cpuset="0x00000001" nodeset="0x00000001" complete_nodeset="0x00000001"'
# one plausible attribute list per object type (hwloc/topology-xml.c hwloc__xml_import_object_attr)
TYPE_TEMPLATES = [
    'type="Machine" os_index="0" ' + SETS + ' allowed_cpuset="0x00000001" allowed_nodeset="0x00000001" gp_index="1"',
    'type="Package" os_index="0" ' + SETS + ' gp_index="3"',
    'type="Die" os_index="0" ' + SETS + ' gp_index="3"',
    'type="Core" os_index="0" ' + SETS + ' gp_index="3"',
    'type="PU" os_index="0" ' + SETS + ' gp_index="3"',
    'type="L1Cache" ' + SETS + ' gp_index="3" cache_size="32768" depth="1" cache_linesize="64" cache_associativity="8" cache_type="1"',
    'type="L2Cache" ' + SETS + ' gp_index="3" cache_size="1048576" depth="2" cache_linesize="64" cache_associativity="8" cache_type="0"',
    'type="L3Cache" ' + SETS + ' gp_index="3" cache_size="1048576" depth="3" cache_linesize="64" cache_associativity="0" cache_type="0"',
    'type="L1iCache" ' + SETS + ' gp_index="3" cache_size="32768" depth="1" cache_linesize="64" cache_associativity="8" cache_type="2"',
    'type="Group" ' + SETS + ' gp_index="3" kind="0" subkind="0" dont_merge="1" depth="0"',
    'type="NUMANode" os_index="0" ' + SETS + ' gp_index="3" local_memory="1024"',
    'type="MemCache" ' + SETS + ' gp_index="3" cache_size="1024" depth="1" cache_linesize="64" cache_associativity="1" cache_type="0"',
    'type="Bridge" gp_index="3" bridge_type="0-1" depth="0" bridge_pci="0000:[00-ff]"',
    'type="Bridge" gp_index="3" bridge_type="1-1" depth="1" bridge_pci="0000:[01-02]" pci_busid="0000:00:01.0" pci_type="0604 [8086:1234] [0000:0000] 01" pci_link_speed="0.25"',
    'type="PCIDev" gp_index="3" pci_busid="0000:01:00.0" pci_type="0200 [8086:1234] [8086:0000] 01" pci_link_speed="0.25"',
    'type="OSDev" gp_index="3" name="eth0" osdev_type="2"',
    'type="OSDev" gp_index="3" name="sda" subtype="Disk" osdev_type="1"',
    'type="Misc" gp_index="3" name="misc"',
    'type="Unknown" gp_index="3"',
    'type="System" os_index="0" ' + SETS + ' gp_index="3"',
    'type="Cache" ' + SETS + ' gp_index="3" cache_size="1024" depth="2" cache_linesize="64" cache_associativity="8" cache_type="0"',
    'type="Socket" os_index="0" ' + SETS + ' gp_index="3"',
]
GARBAGE = ["zz", "", "-1", "99999999999999999999"]


def _templates():
    res = []
    for t in TYPE_TEMPLATES:
        res.append(t)
        attrs = list(ATTR0.finditer(t))
        for a in attrs[1:]:
            if a.group(1) in ("complete_cpuset", "complete_nodeset", "gp_index"):
                continue
            for g in GARBAGE:
                res.append(t[:a.start(2)] + g + t[a.end(2):])
            res.append(t[:a.start(0)] + t[a.end(0):])          # attribute missing
    return res


ATTR0 = re.compile(r'([\w:.-]+)="([^"]*)"')
TEMPLATES = _templates()

DIFF_DOC = '''<?xml version="1.0" encoding="UTF-8"?>
<!DOCTYPE topologydiff SYSTEM "hwloc2-diff.dtd">
<topologydiff refname="ref.xml">
  <diff type="0" obj_depth="1" obj_index="0" obj_attr_type="1" obj_attr_name="" obj_attr_oldvalue="old" obj_attr_newvalue="new"/>
  <diff type="0" obj_depth="0" obj_index="0" obj_attr_type="2" obj_attr_name="Foo" obj_attr_oldvalue="a" obj_attr_newvalue="b"/>
  <diff type="0" obj_depth="-3" obj_index="1" obj_attr_type="0" obj_attr_index="0" obj_attr_oldvalue="1024" obj_attr_newvalue="2048"/>
  <diff type="1" obj_depth="2" obj_index="1"/>
</topologydiff>
'''

MAXA = 16            # MaxA of MC_XmlMut.tla
TAG = re.compile(r'<(/?)([A-Za-z_][\w.-]*)((?:\s+[\w:.-]+\s*=\s*"[^"]*")*)\s*(/?)>', re.S)
ATTR = re.compile(r'([\w:.-]+)(\s*=\s*")([^"]*)(")')


class Doc:
    """element tree of an XML text: elements in document order with byte spans; enough for the mutation alphabet"""

    def __init__(self, text):
        self.text = text
        self.elems = []          # dict(name, start, open_end, end, attrs=[(name, vstart, vend, astart, aend)])
        stack = []
        for m in TAG.finditer(text):
            closing, name, attrs, selfclose = m.group(1), m.group(2), m.group(3), m.group(4)
            if closing:
                if stack:
                    e = stack.pop()
                    e["end"] = m.end()
                continue
            e = {"name": name, "start": m.start(), "open_end": m.end(), "end": m.end(), "attrs": [], "parent": id(stack[-1]) if stack else 0}
            base = m.start(3)
            for a in ATTR.finditer(attrs):
                e["attrs"].append((a.group(1), base + a.start(3), base + a.end(3), base + a.start(1), base + a.end(4)))
            self.elems.append(e)
            if not selfclose:
                stack.append(e)
        for e in stack:
            e["end"] = len(text)

    def shape(self):
        return len(self.elems), [min(MAXA, len(e["attrs"])) for e in self.elems]

    def siblings(self):
        """pairs (e, f), 1-based, of elements that are consecutive children of one parent"""
        last, res = {}, []
        for i, e in enumerate(self.elems):
            if e["parent"] in last:
                res.append((last[e["parent"]], i + 1))
            last[e["parent"]] = i + 1
        return res


def apply_recipe(text, recipe):
    """apply mutations one after the other, re-tokenising in between"""
    for m in recipe:
        op = m[0]
        d = Doc(text)
        n = len(d.elems)
        if op in ("dropattr", "setattr", "dupattr"):
            e, a = m[1], m[2]
            if e > n or a > len(d.elems[e - 1]["attrs"]):
                continue
            name, vs, ve, as_, ae = d.elems[e - 1]["attrs"][a - 1]
            if op == "dropattr":
                text = text[:as_] + text[ae:]
            elif op == "setattr":
                v = VALS[(m[3] - 1) % len(VALS)].replace("&", "&amp;").replace('"', "&quot;").replace("<", "&lt;") if "&amp;" != VALS[(m[3] - 1) % len(VALS)] else "&amp;"
                text = text[:vs] + v + text[ve:]
            else:
                text = text[:ae] + " " + text[as_:ae] + text[ae:]
        elif op in ("dupelem", "dropelem"):
            e = m[1]
            if e > n:
                continue
            el = d.elems[e - 1]
            if op == "dupelem":
                text = text[:el["end"]] + text[el["start"]:el["end"]] + text[el["end"]:]
            else:
                text = text[:el["start"]] + text[el["end"]:]
        elif op == "swapelems":
            e, f = m[1], m[2]
            if e > n or f > n:
                continue
            a, b = d.elems[e - 1], d.elems[f - 1]
            if a["end"] > b["start"]:
                continue           # nested: not a swap
            text = text[:a["start"]] + text[b["start"]:b["end"]] + text[a["end"]:b["start"]] + text[a["start"]:a["end"]] + text[b["end"]:]
        elif op == "cutat":
            e, a, w = m[1], m[2], m[3]
            if e > n or a > len(d.elems[e - 1]["attrs"]):
                continue
            el = d.elems[e - 1]
            if a == 0:
                close = el["open_end"] - (2 if text[el["open_end"] - 2:el["open_end"]] == "/>" else 1)
                at = [el["start"], el["start"] + 1 + len(el["name"]), close, el["open_end"]][w - 1]
            else:
                name, vs, ve, as_, ae = el["attrs"][a - 1]
                at = [as_ + len(name), vs, vs + (ve - vs + 1) // 2, ve][w - 1]
            text = text[:at]
        elif op == "doctype":
            line = DOCTYPES[(m[1] - 1) % len(DOCTYPES)]
            if re.search(r"<!DOCTYPE[^>]*>\n?", text):
                text = re.sub(r"<!DOCTYPE[^>]*>\n?", lambda mm: line + ("\n" if line else ""), text, count=1)
            else:
                text = re.sub(r"(<\?xml[^>]*\?>\n?)", lambda mm: mm.group(1) + line + "\n", text, count=1)
        elif op == "retype":
            e, k = m[1], m[2]
            if e > n or d.elems[e - 1]["name"] != "object":
                continue
            el = d.elems[e - 1]
            selfclose = text[el["open_end"] - 2:el["open_end"]] == "/>"
            text = text[:el["start"]] + "<object " + TEMPLATES[(k - 1) % len(TEMPLATES)] + ("/>" if selfclose else ">") + text[el["open_end"]:]
        elif op == "setcontent":
            e, v = m[1], m[2]
            if e > n:
                continue
            el = d.elems[e - 1]
            if text[el["open_end"] - 2:el["open_end"]] == "/>" or el["end"] <= el["open_end"]:
                continue            # no content
            close = text.rfind("</", el["open_end"], el["end"])
            if close < 0 or "<" in text[el["open_end"]:close]:
                continue            # has child elements: not a text content
            text = text[:el["open_end"]] + CONTENTS[(v - 1) % len(CONTENTS)] + text[close:]
        elif op == "truncate":
            text = text[:len(text) * m[1] // 16]
        elif op == "setversion":
            text = re.sub(r'(<topology\s+version=")[^"]*(")', lambda mm: mm.group(1) + VERS[(m[1] - 1) % len(VERS)] + mm.group(2), text, count=1)
    return text


def base_documents(ctx, exe_topo):
    """small documents exported by hwloc itself: v3 and v2 of an annotated synthetic topology and of one with an I/O subtree"""
    info = c08.prepass(ctx, exe_topo)
    io = c08.make_io_xml(ctx, "sym")
    p = lambda n: ctx.path("base-%s.xml" % n)
    g = info["nested"]["gps"]                       # "[numa] pack:2 [numa] core:2 pu:2"
    pus, cores, numas = g[4], g[3], g[14]
    mat = lambda n: " ".join(str(10 if r == c else 20 + r + c) for r in range(n) for c in range(n))
    # every kind of element the exporter can write: infos with special characters, CPU kinds with infos, a homogeneous and a heterogeneous
    # distances structure, memory attributes with and without initiators, Misc, Group, userdata
    lines = ["reset 1", "init 0", "synthetic 0 [numa] pack:2 [numa] core:2 pu:2", "filter 0 19 0", "load 0",
             "add_info 0 1 Note a<b>&c", "cpukind 0 0-3 1 1", "cpukind 0 4-7 0 1",
             "dist_add 0 5 0 4 %s %s" % (" ".join(map(str, pus[:4])), mat(4)),
             "dist_add 0 6 0 3 %d %d %d %s" % (pus[0], cores[1], numas[0], mat(3)),
             "memattr 0 1 %d 100" % numas[0], "memattr 0 5 %d 7" % numas[1],
             "insert_misc 0 1 annot", "group 0 0-1 - 0 0 1",
             "xml_export 0 buffer %s 0 1" % p("v3"), "xml_export 0 buffer %s 2 1" % p("v2"), "destroy 0",
             "reset 1", "init 0", "xml 0 " + io, "filter 0 -1 0", "load 0",
             "xml_export 0 buffer %s 0 0" % p("io3"), "xml_export 0 buffer %s 2 0" % p("io2"), "destroy 0",
             # interleaved processor numbering (Package 0 = PUs 0 and 2, Package 1 = PUs 1 and 3), made "offline" below
             "reset 1", "init 0", "synthetic 0 pack:2 core:1 pu:2(indexes=0,2,1,3)", "load 0", "xml_export 0 buffer %s 0 0" % p("il"), "destroy 0"]
    bf = ctx.path("base.beh")
    open(bf, "w").write("\n".join(lines) + "\n")
    ctx.record(exe_topo, bf, bf + ".ndjson")
    docs = {}
    for n in ("v3", "v2", "io3", "io2"):
        if not os.path.exists(p(n)):
            raise vlib.Infra("base document %s was not exported" % n)
        docs[n] = open(p(n), encoding="latin-1").read()
    for need in ("<distances2 ", "<distances2hetero ", "<memattr ", "<cpukind ", "<userdata ", "<info "):
        if need not in docs["v3"]:
            raise vlib.Infra("the base document lacks a %s element" % need)
    docs["diff"] = DIFF_DOC
    # a document with an offline processor: PU 0 has no object and is in the complete cpusets only, so that siblings ordered by cpuset
    # (Package 1 = {1,3} before Package 0 = {2}) and by complete cpuset (Package 0 = {0,2} first) are ordered differently
    t = open(p("il"), encoding="latin-1").read()
    t, k = re.subn(r'[ \t]*<object type="PU" os_index="0"[^>]*/>\n', "", t)
    if k != 1:
        raise vlib.Infra("cannot make PU 0 of the interleaved document offline")
    docs["offl"] = re.sub(r'(\s)(cpuset|allowed_cpuset)="(0x[0-9a-f]+)"', lambda mm: '%s%s="0x%08x"' % (mm.group(1), mm.group(2), int(mm.group(3), 16) & ~1), t)
    # a document larger than the 16 KiB first read of the loaders that cannot stat their input: the v3 export with one long info value
    m = re.search(r'(<object type="Machine"[^>]*>\n)', docs["v3"])
    if m:
        docs["big"] = docs["v3"][:m.end()] + '    <info name="Padding" value="%s"/>\n' % ("0123456789abcdef" * 1400) + docs["v3"][m.end():]
    # the same document with every gp_index (and every reference to one) moved close to 2^64: valid, and what is printed gets 20 digits long
    K = 18446744073709550000
    def up(mm):
        return '%s="%d"' % (mm.group(1), int(mm.group(2)) + K)
    t = re.sub(r'\b(gp_index|target_obj_gp_index|initiator_obj_gp_index)="(\d+)"', up, docs["v3"])
    t = re.sub(r'(<distances2hetero[^>]*>\s*<indexes[^>]*>)([^<]*)(</indexes>)',
               lambda mm: mm.group(1) + re.sub(r':(\d+)', lambda x: ":%d" % (int(x.group(1)) + K), mm.group(2)) + mm.group(3), t)
    t = re.sub(r'(<indexes length=")(\d+)(">)([^<]*)(</indexes>)', lambda mm: mm.group(1) + str(len(mm.group(4))) + mm.group(3) + mm.group(4) + mm.group(5), t)
    docs["hugegp"] = t
    return docs


def mc_module(doc):
    n, attrs = doc.shape()
    objs = [str(i + 1) for i, e in enumerate(doc.elems) if e["name"] == "object"]
    texts = [str(i + 1) for i, e in enumerate(doc.elems) if e["name"] in ("indexes", "u64values", "userdata")]
    q = lambda x: '"%s"' % re.sub(r"[^\w:.-]", "_", x)
    return ("---- MODULE MC_XmlMut_gen ----\nEXTENDS MC_XmlMut\nGNAttr == <<%s>>\nGObjElems == {%s}\nGTextElems == {%s}\nGElemName == <<%s>>\nGAttrName == <<%s>>\nGSibs == {%s}\n====\n"
            % (", ".join(map(str, attrs)), ", ".join(objs), ", ".join(texts), ", ".join(q(e["name"]) for e in doc.elems),
               ", ".join("<<%s>>" % ", ".join(q(a[0]) for a in e["attrs"][:MAXA]) for e in doc.elems),
               ", ".join("<<%d, %d>>" % p for p in doc.siblings())), n)


def mc_cfg(n, maxmut, simlen, sim):
    return ("SPECIFICATION %s\nCONSTANTS\n  NElem = %d\n  NAttr <- GNAttr\n  ObjElems <- GObjElems\n  NVals = %d\n  NVers = %d\n  NDoctypes = %d\n  NTemplates = %d\n  NContents = %d\n  TextElems <- GTextElems\n  ElemName <- GElemName\n  AttrName <- GAttrName\n  Sibs <- GSibs\n  MaxMut = %d\n  SimLen = %d\nINVARIANTS RecipeOK %s\nCHECK_DEADLOCK FALSE\n"
            % ("SpecSim" if sim else "Spec", n, len(VALS), len(VERS), len(DOCTYPES), len(TEMPLATES), len(CONTENTS), maxmut, simlen, "EmitSim" if sim else "EmitState"))


def by_kind(recipes, keep, rng):
    """seeded sample spread evenly over the mutation kinds (rare kinds are taken whole)"""
    groups = {}
    for r in recipes:
        groups.setdefault(r[0][0], []).append(r)
    for g in groups.values():
        rng.shuffle(g)
    res = []
    while len(res) < keep and any(groups.values()):
        for k in sorted(groups):
            if groups[k] and len(res) < keep:
                res.append(groups[k].pop())
    return res


def run(ctx, replay=None):
    ctx.build_lib()
    exe = ctx.cc("hwv_xmlload.c", "hwv_xmlload")
    # an allocation of more than 2 GiB fails (as it does on an ordinary machine) instead of being served by the sanitizer's allocator out of
    # overcommitted memory: a document that declares 4294967295 objects made one load take 10 s of page zeroing, i.e. a "Hang" under load
    env_base = {"HWV_WATCHDOG": "20", "HWV_LEAKCHECK": "1", "ASAN_OPTIONS": "max_allocation_size_mb=2048:allocator_may_return_null=1"}

    def mk_replay(imp):
        def replay_fn(text):
            # a replay carries its document inline: "#doc <hex>" line
            for m in re.finditer(r"^#doc (\S+) ([0-9a-f]*)$", text, re.M):
                os.makedirs(os.path.dirname(m.group(1)), exist_ok=True)
                open(m.group(1), "wb").write(bytes.fromhex(m.group(2)))
            p = ctx.path("replay-%d.beh" % random.randrange(1 << 30))
            open(p, "w").write(text)
            t = p + ".ndjson"
            e = dict(env_base)
            e["HWLOC_LIBXML_IMPORT"] = imp
            ctx.record(exe, p, t, env=e)
            return ctx.validate("TraceXmlLoad", t, nshards=1)
        return replay_fn

    if replay:
        text = open(replay).read()
        m = re.match(r"# import backend (\d)\n", text)
        rej = mk_replay(m.group(1) if m else "0")(text)
        for r in rej:
            vlib.log("rejected event:", r["line"][:1500])
            print("VIOLATION property=C06 replay=%s" % replay)
        ctx.cleanup()
        return 1 if rej else 0

    thorough = ctx.tier == "thorough"
    rng = random.Random(ctx.seed)
    exe_topo = ctx.cc("hwv_topo.c", "hwv_topo")
    docs = base_documents(ctx, exe_topo)
    if thorough:
        for name in ("8intel64-4n2t-memattrs", "fakecpukinds", "memorysidecaches", "16-2gr2gr2n2c+misc", "fakeheterodistances"):
            pth = os.path.join(vlib.REPO, "tests", "hwloc", "xml", name + ".xml")
            if os.path.exists(pth):
                docs["b-" + name] = open(pth, encoding="latin-1").read()
    ddir = ctx.path("docs")
    os.makedirs(ddir)
    items = []              # (path, kind topo|diff, pristine, bytes)

    def add(text, kind, pristine):
        b = text.encode("latin-1", "replace")
        h = hashlib.sha1(b).hexdigest()[:16]
        p = os.path.join(ddir, h + ".xml")
        if not os.path.exists(p):
            open(p, "wb").write(b)
            items.append((p, kind, pristine, b))

    nrec = 0
    seen_classes, ncls_new = set(), 0
    docorder = ["v3", "offl", "io3", "diff", "hugegp", "v2", "io2", "big"]
    ordered = sorted(docs.items(), key=lambda kv: (docorder.index(kv[0]) if kv[0] in docorder else 99, kv[0]))

    def model_runs(item):
        # every single mutation (exhaustive), and simulated pairs / triples
        name, text = item
        d = Doc(text)
        gen, n = mc_module(d)
        out, st = ctx.tlc_mc("MC_XmlMut_gen", mc_cfg(n, 1, 0, False), tag="mut1_" + name, workers=2,
                             extra_modules=[("MC_XmlMut_gen.tla", gen)], timeout=1200)
        if st["error"] or st["rc"] != 0:
            raise vlib.Infra("MC_XmlMut failed: %s\n%s" % (st["error"], out[-2000:]))
        recs = list(vlib.tlc_printed(out, "RECIPE"))
        out, st = ctx.tlc_mc("MC_XmlMut_gen", mc_cfg(n, 3, 2 + (ctx.seed % 2), True), tag="mutsim_" + name, workers=2,
                             extra_modules=[("MC_XmlMut_gen.tla", gen)], simulate="num=%d" % (4000 if thorough else 500), depth=5, timeout=900)
        return d, n, recs, list(vlib.tlc_printed(out, "SIM"))

    from concurrent.futures import ThreadPoolExecutor
    with ThreadPoolExecutor(max_workers=max(1, vlib.NCPU // 2)) as ex:
        models = list(ex.map(model_runs, ordered))
    for (name, text), (d, n, recs, multi) in zip(ordered, models):
        kind = "diff" if name == "diff" else "topo"
        add(text, kind, 1)
        big = n > 60
        singles = [x["r"] for x in recs]
        main = name in ("v3", "io3", "diff", "hugegp", "offl")           # quick: the other documents (v2 formats, the padded one) get the always-taken recipes and a smaller sample
        keep1 = len(singles) if (thorough and not big) else min(len(singles), 2500 if thorough else (120 if main else 40))
        keepm = min(len(multi), 4000 if thorough else (100 if main else 30))
        if keep1 == len(singles):
            picks1 = singles
            for x in recs:
                seen_classes.add(tuple(x["c"]))
        else:
            # always taken: (1) the first recipe (seeded order) of every mutation class - Class(m) of MC_XmlMut.tla: kind of mutation x element
            # name x attribute name x pool value - that no earlier base document offered; (2) the document ends at every point of the first start
            # tag of each distinct element name, and the root object (first <object>) gets every attribute-list template; the rest is a seeded
            # sample spread over the mutation kinds
            order = list(range(len(recs)))
            rng.shuffle(order)
            percls = {}
            for i in order:
                c = tuple(recs[i]["c"])
                if c[0] in ("swapelems", "dupelem", "dropelem", "setcontent"):
                    c = c + (name,)          # what moving whole elements does depends on the document: these classes are taken in every document
                if c in seen_classes:
                    continue
                percls.setdefault(c, [])
                if len(percls[c]) < (3 if thorough else 1):
                    percls[c].append(recs[i]["r"])
            seen_classes.update(percls)
            bycls = [r for c in sorted(percls) for r in percls[c]]
            ncls_new += len(percls)
            first, root = {}, None
            for i, e in enumerate(d.elems):
                first.setdefault(e["name"], i + 1)
                if root is None and e["name"] == "object":
                    root = i + 1
            firsts = set(first.values())
            prio = [r for r in singles if (r[0][0] in ("cutat", "dupelem", "dropelem") and r[0][1] in firsts) or (r[0][0] == "retype" and r[0][1] == root and (thorough or (main and r[0][2] % 3 == ctx.seed % 3)))
                    or r[0][0] in ("doctype", "setversion", "truncate") or (r[0][0] == "setcontent" and r[0][1] in firsts)]
            taken = set(json.dumps(r) for r in bycls)
            prio = [r for r in prio if json.dumps(r) not in taken]
            rest = singles
            picks1 = bycls + prio + by_kind(rest, keep1, rng)
            ctx.extra.setdefault("classes", {})[name] = len(percls)
        picks = picks1 + (multi if keepm == len(multi) else rng.sample(multi, keepm))
        ctx.extra["recipes_" + name] = {"single_enumerated": len(singles), "single_used": keep1, "multi_used": keepm, "elements": n}
        nrec += len(picks)
        for r in picks:
            add(apply_recipe(text, r), kind, 0)
    # unstructured inputs: random bytes, bit flips, truncation at every offset of the smallest document
    small = docs["v3"]
    for k in range(0, len(small), 1 if thorough else 13):
        add(small[:k], "topo", 0)
    for _ in range(3000 if thorough else 150):
        b = bytearray(small.encode("latin-1"))
        for _j in range(rng.randint(1, 4)):
            i = rng.randrange(len(b))
            b[i] = b[i] ^ (1 << rng.randrange(8)) if rng.random() < 0.7 else rng.randrange(256)
        add(b.decode("latin-1"), "topo", 0)
    for _ in range(200 if thorough else 40):
        add("".join(chr(rng.randrange(256)) for _ in range(rng.randint(0, 400))), "topo", 0)
        add(DIFF_DOC[:rng.randrange(len(DIFF_DOC))] + "".join(chr(rng.randrange(32, 127)) for _ in range(rng.randint(0, 40))), "diff", 0)
    add("", "topo", 0)
    add("", "diff", 0)

    behs = []
    good = [it for it in items if it[2] == 1 and it[1] == "topo"]          # pristine documents: what a failed topology is given next (after = 2)
    for p, kind, pristine, b in items:
        mode = rng.choice(["buffer", "file", "fifo"])
        head = "#doc %s %s\n" % (p, b.hex())
        if kind == "diff":
            behs.append(head + "reset\ndiffload %s %s %d\n" % (p, mode, pristine))
        else:
            after = rng.randrange(3)
            g = rng.choice(good)
            if after == 2:
                head += "#doc %s %s\n" % (g[0], g[3].hex())
            behs.append(head + "reset\nxmlload %s %s %d %d %d %d %s\n" % (p, mode, rng.choice([0, 0, 1, 8, 9]), rng.choice([1, 1, 0]), pristine, after, g[0]))
    ctx.samples = [behs[0][behs[0].index("reset"):], behs[len(behs) // 2][-200:], behs[-1][-200:]]
    bf = ctx.path("behaviours.txt")
    open(bf, "w").write("".join(x[x.index("reset\n"):] for x in behs))         # the recorder does not need the inline bytes
    for imp in (["0", "1"] if thorough else [str(ctx.seed % 2), str(1 - ctx.seed % 2)]):
        tf = ctx.path("trace-%s.ndjson" % imp)
        e = dict(env_base)
        e["HWLOC_LIBXML_IMPORT"] = imp
        ctx.record(exe, bf, tf, timeout=3000, parallel=vlib.NCPU, env=e)
        rejs = ctx.validate("TraceXmlLoad", tf, nshards=32 if thorough else 16, timeout=3000, max_rej=int(os.environ.get("HWV_MAXREJ", "30")))
        ctx.handle_rejections(rejs, ["# import backend %s\n" % imp + x for x in behs], mk_replay(imp))
        os.unlink(tf)
    return ctx.finish(
        rule="documents = hwloc's own v3 and v2 exports of an annotated topology (infos, cpukinds, distances, Misc, Group, userdata) and of one with an I/O subtree, a diff document"
             "%s; TLC enumerates every single structure-aware mutation (drop/set/duplicate attribute with a boundary value pool, duplicate/drop/swap element, truncate, set version) of each "
             "and simulates 2-3 mutation recipes (MC_XmlMut.tla; also: the document ends at 4 points of every start tag and 4 points of every attribute, the DOCTYPE line is replaced from a pool, an object gets the whole attribute list of another type with one attribute damaged or missing); a failed topology is destroyed, reconfigured, or given a pristine document and compared with a fresh load of it; plus truncation at offsets, bit flips and random bytes from VERIF_SEED; each document is loaded by the ASan+UBSan+LSan "
             "recorder with a watchdog under both XML import backends and judged by the lifecycle relation + WellFormed. Non-trivial = a document that differs from the pristine export."
             % (" and five bundled XML files" if thorough else ""),
        assumptions=["absence of out-of-bounds access, use of freed memory and leaks is observed by the sanitizers in the recorder on the documents that were run, not decided by the specification",
                     "no MSan build (libxml2 is not instrumented): uninitialised reads are not observed"],
        extra={"documents": len(items), "recipes": nrec})
