"""C18 - discovery from Linux/x86 snapshots is robust, deterministic and self-consistent.
Model: spec/Snapshot.tla (the four relations), spec/MC_Snapshot.tla (enumeration of snapshot x fault set x configuration
and the call protocol); binding: spec/TraceSnapshot.tla, harness/hwv_snapshot.c"""
import os, re, json, random, shutil, time
import vlib, corpus

MOD = "MC_Snapshot_gen"
SKIP_ENV = ("HWLOC_FSROOT", "HWLOC_CPUID_PATH", "HWLOC_COMPONENTS")


# ---------------------------------------------------------------- path tables
def core_area(kind, rel):
    if kind == "linux":
        return rel.startswith("sys/devices/system/") or rel.startswith("proc/")
    if kind == "x86":
        return True
    return rel.startswith("fsroot/sys/devices/system/") or rel.startswith("fsroot/proc/") or rel.startswith("cpuid/")


def snapshot_root(src):
    """root of what is copied: for the combined snapshots the directory holding fsroot/ and cpuid/"""
    return src["path"]


def path_table(src):
    """sorted table of the paths of an extracted snapshot: (rel, type) with type in file/symlink/dir"""
    root = snapshot_root(src)
    ents = []

    def walk(d, rel):
        with os.scandir(d) as it:
            for e in sorted(it, key=lambda x: x.name):
                r = rel + "/" + e.name if rel else e.name
                if e.is_symlink():
                    ents.append((r, "symlink"))
                elif e.is_dir(follow_symlinks=False):
                    ents.append((r, "dir"))
                    walk(e.path, r)
                else:
                    ents.append((r, "file"))
    walk(root, "")
    return ents


def removable(rel, typ):
    """the rule of the property statement: regular files, symlinks, directories whose name does not end in a digit"""
    return typ != "dir" or not rel[-1].isdigit()


def expressible(rel):
    """paths the line-based behaviour format can carry"""
    return re.fullmatch(r"[\x21-\x7e]+(?: [\x21-\x7e]+)*", rel) is not None and ".." not in rel


KEY_LINUX = re.compile(r"(fsroot/)?(sys/devices/system/(cpu|node)/(online|possible|present|has_cpu|has_memory|has_normal_memory|kernel_max|offline)"
                       r"|proc/(cpuinfo|meminfo|mounts|self|hwloc-nofile-info)|sys/devices/system/(cpu|node)|sys/(bus|class|firmware|kernel|fs)|sys/bus/pci|sys/bus/pci/devices"
                       r"|sys/devices/virtual/dmi|sys/class/dmi|sys/firmware/devicetree|sys/firmware/acpi|proc/device-tree|proc|sys|var|sys/devices/system|cpuid)")


def key_paths(kind, ents):
    """paths that every run removes on their own: the global files and directories of the core area, and for a CPUID dump
    its summary file and its last PU file (a dump with a pu file missing in the middle is refused as a whole)"""
    keys = []
    pus = sorted((int(r.rsplit("pu", 1)[1]), i) for i, (r, t) in enumerate(ents) if re.fullmatch(r"(cpuid/)?pu\d+", r))
    for i, (r, t) in enumerate(ents):
        if re.fullmatch(r"(cpuid/)?hwloc-cpuid-info", r) or (pus and i == pus[-1][1]) or (kind != "x86" and KEY_LINUX.fullmatch(r)):
            keys.append(i + 1)
    return keys


# ---------------------------------------------------------------- feature classes of snapshots, path classes of per-instance attributes
# (input classification that steers the enumeration; spec/Snapshot.tla says which pairs are Interesting)
NODE_DIR = re.compile(r"((?:fsroot/)?sys/devices/system/node)/node(\d+)")
CPU_DIR = re.compile(r"((?:fsroot/)?sys/devices/system/cpu)/cpu(\d+)")
PATH_CLASSES = [
    ("node.cpumap", "node", r"cpumap|cpulist"),
    ("node.distance", "node", r"distance"),
    ("node.meminfo", "node", r"meminfo|hugepages|hugepages/[^/]+/nr_hugepages"),
    ("node.hmat", "node", r"access\d+/(initiators|targets)(/(?!power/|uevent$).+)?|memory_side_cache(/index\d+/.+)?"),
    ("cpu.topology", "cpu", r"topology(/.+)?"),
    ("cpu.cache", "cpu", r"cache(/index\d+/.+)?"),
    ("cpu.online", "cpu", r"online"),
    ("cpu.kind", "cpu", r"cpu_capacity|cpufreq/(cpuinfo_max_freq|base_frequency)|acpi_cppc(/.+)?|regs/identification(/.+)?"),
]
PATH_CLASSES = [(n, w, re.compile(rx)) for n, w, rx in PATH_CLASSES]


def features(src, ents):
    """feature classes of a snapshot (names of spec/Snapshot.tla SnFeatureClasses), read from its content"""
    if src["kind"] == "x86":
        return ["plain"]
    root = snapshot_root(src)
    names = {r for r, t in ents}

    def rd(rel):
        try:
            return open(os.path.join(root, rel), errors="replace").read()
        except OSError:
            return None
    nodes = {int(m.group(2)): r for r, t in ents if t == "dir" for m in [NODE_DIR.fullmatch(r)] if m}
    cpus = {int(m.group(2)): r for r, t in ents if t == "dir" for m in [CPU_DIR.fullmatch(r)] if m}
    feat = set()
    for d in nodes.values():
        cm = rd(d + "/cpumap")
        if cm is not None and re.fullmatch(r"[0,\s]*", cm):
            feat.add("cpuless")
        if any((d + s) in names for s in ("/access0/initiators", "/access1/initiators", "/memory_side_cache")):
            feat.add("hmat")
    for r in names:
        if re.fullmatch(r"(fsroot/)?proc/cpuinfo", r):
            ci = rd(r) or ""
            if re.search(r"cpu family\s*:\s*6\b", ci) and re.search(r"model\s*:\s*(87|133)\b", ci):
                feat.add("knl")
        if re.fullmatch(r"(fsroot/)?sys/devices/(system/cpu/types|cpu_core|cpu_atom)", r):
            feat.add("kinds")
    if sorted(nodes) != list(range(len(nodes))) or sorted(cpus) != list(range(len(cpus))):
        feat.add("sparse")
    for d in cpus.values():
        if (d + "/topology") not in names or (rd(d + "/online") or "").strip() == "0":
            feat.add("offline")
    # CPU kinds: an attribute that ranks CPUs has different values on different CPUs (or is there for some CPUs only)
    for attr in ("/cpu_capacity", "/cpufreq/base_frequency", "/cpufreq/cpuinfo_max_freq", "/acpi_cppc/nominal_perf", "/regs/identification/midr_el1"):
        if len({(rd(d + attr) or "").strip() for d in cpus.values()}) > 1:
            feat.add("kinds")
    for d in {os.path.dirname(x) for x in cpus.values()}:
        on, pr = rd(d + "/online"), rd(d + "/present")
        if on is not None and pr is not None and on.strip() != pr.strip():
            feat.add("offline")
    return sorted(feat) or ["plain"]


def instance_matrices(ents, rem):
    """per path class, the matrix rows[instance][attribute] (1-based path indexes) of the removable paths below ONE numbered
    NUMA node / CPU directory; instances in numeric order, attributes in path order"""
    mats = {}
    for i, (r, t) in enumerate(ents):
        if not rem[i]:
            continue
        for which, rx in (("node", NODE_DIR), ("cpu", CPU_DIR)):
            m = re.match(rx.pattern + "/(.+)", r)
            if m:
                attr = m.group(3)
                pc = next((n for n, w, ax in PATH_CLASSES if w == which and ax.fullmatch(attr)), None)
                if pc:              # the other per-instance files (power/*, uevent, memoryN links ...) stay with the striped single removals
                    mats.setdefault(pc, {}).setdefault(int(m.group(2)), []).append(i + 1)
    return [{"pc": pc, "rows": [rows[n] for n in sorted(rows)]} for pc, rows in sorted(mats.items())]


TOP_KEYS = re.compile(r"(fsroot/)?(sys/devices/system/node|sys/devices/system/cpu/online|proc/cpuinfo)|(cpuid/)?hwloc-cpuid-info")


def make_table(src):
    ents = path_table(src)
    kind = src["kind"]
    rem = [1 if removable(r, t) and expressible(r) else 0 for r, t in ents]
    key = [i for i in key_paths(kind, ents) if rem[i - 1]]
    # removed on their own in every run and under every configuration: no NUMA information at all, no list of online CPUs,
    # no /proc/cpuinfo, no summary of the CPUID dump; and the last PU file of a dump
    pus = sorted((int(ents[i - 1][0].rsplit("pu", 1)[1]), i) for i in key if re.fullmatch(r"(cpuid/)?pu\d+", ents[i - 1][0]))
    top = [i for i in key if TOP_KEYS.fullmatch(ents[i - 1][0]) or (pus and i == pus[-1][1])]
    ks = set(key)
    cand = [i + 1 for i, (r, t) in enumerate(ents) if rem[i] and core_area(kind, r) and i + 1 not in ks]
    rest = [i + 1 for i, (r, t) in enumerate(ents) if rem[i] and not core_area(kind, r) and i + 1 not in ks]
    # classes: the same attribute of different instances = same path once digit runs (and PCI bus addresses) are erased;
    # at least two members; those with a member in the core area first (ncore of them), then the others
    cls = {}
    for i, (r, t) in enumerate(ents):
        if rem[i]:
            k = re.sub(r"[0-9a-f]{4}:[0-9a-f]{2}:[0-9a-f]{2}\.[0-9a-f]", "@", r)
            cls.setdefault(re.sub(r"\d+", "#", k), []).append(i + 1)
    cs = set(cand) | ks
    multi = [(k, v) for k, v in sorted(cls.items()) if len(v) >= 2]
    core_classes = [(k, v) for k, v in multi if any(x in cs for x in v)]
    rest_classes = [(k, v) for k, v in multi if not any(x in cs for x in v)]
    classes = core_classes + rest_classes
    # share of the per-snapshot budget: every removal from a CPUID dump but the key ones makes hwloc refuse the dump as a whole
    w = 25 if kind == "x86" else 100
    # "types" (object types of the unmodified snapshot with every type kept) is filled in by the first recorder pass
    return {"id": src["id"], "kind": kind, "np": len(ents), "removable": rem, "type": [t for r, t in ents], "last": [r[-1] for r, t in ents], "key": key, "top": top, "cand": cand, "rest": rest, "w": w,
            "classes": [v for k, v in classes], "ncore": len(core_classes),
            "feat": features(src, ents), "inst": instance_matrices(ents, rem) if kind != "x86" else [], "types": []}, ents, [k for k, v in classes]


# ---------------------------------------------------------------- TLC model runs
def tla(v):
    if isinstance(v, bool):
        return "TRUE" if v else "FALSE"
    if isinstance(v, int):
        return str(v)
    if isinstance(v, str):
        return '"%s"' % v
    if isinstance(v, (list, tuple)):
        return "<<" + ", ".join(tla(x) for x in v) + ">>"
    if isinstance(v, (set, frozenset)):
        return "{" + ", ".join(sorted(tla(x) for x in v)) + "}"
    raise TypeError(v)


# object types (numbers of hwloc.h, named in spec/Topology.tla) whose filter the type-targeted configurations set:
# Package, Die, Core, L1..L5, L1i..L3i, Group, MemCache; thorough adds Bridge, PCIDev, OSDev, Misc
TARGET_QUICK = {1, 2, 3, 5, 6, 7, 8, 9, 10, 11, 12, 13, 15}
TARGET_ALL = TARGET_QUICK | {16, 17, 18, 19}
CONSTS = ["TableFile", "Sel", "NKeys", "NSingles", "NRest", "NClasses", "NRClasses", "PairMax", "Seed", "FlagSeqs", "CfgStride", "SimMode", "SimMax",
          "InstFull", "InstMax", "NInstPlain", "InstCfgs", "InstFlagSeqs", "TargetTypes", "TargetModes", "TargetStride", "StagMods", "StagOffs"]


def gen_module(c):
    return ("---- MODULE %s ----\nEXTENDS MC_Snapshot\n" % MOD + "".join("G_%s == %s\n" % (k, tla(c[k])) for k in CONSTS) + "====\n")


def gen_cfg(c):
    s = "SPECIFICATION Spec\nCONSTANTS\n" + "".join("  %s <- G_%s\n" % (k, k) for k in CONSTS)
    s += "VIEW SnView\nCHECK_DEADLOCK FALSE\nINVARIANTS TypeOK RuleOK BudgetOK CfgOK ProtocolOK EmitDone\n"
    return s


def run_model(ctx, c, tag, simulate=None, depth=None, workers=4):
    for attempt in range(3):
        out, st = ctx.tlc_mc(MOD, gen_cfg(c), tag=tag, workers=workers, heap="3g", timeout=2400, simulate=simulate, depth=depth,
                             extra_modules=[(MOD + ".tla", gen_module(c))])
        if st["error"]:
            raise vlib.Infra("MC_Snapshot failed (model level, not a violation): %s\n%s" % (st["error"], out[-2000:]))
        if "Finished in" in out or simulate:
            return list(vlib.tlc_printed(out, "TUPLE"))
    raise vlib.Infra("MC_Snapshot did not finish:\n" + out[-2000:])


# ---------------------------------------------------------------- histories -> behaviour text
def behaviour(ctx, hist, srcs, tables, compact=1):
    """render one TLC history; returns (sort key, text)"""
    k = hist[0][1] - 1
    src, (tab, ents, cnames) = srcs[k], tables[k]
    lines = ["reset", "option compact %d" % compact, "scratch " + ctx.path("scr")]
    for n, v in sorted(src["env"].items()):
        if n not in SKIP_ENV:
            lines.append("env %s %s" % (n, v))
    body, removed = [], []
    for h in hist[1:]:
        if h[0] in ("rm", "rminst"):
            removed.append(h[1])
        elif h[0] == "rmclass":
            removed += tab["classes"][h[1] - 1]
        elif h[0] == "rmstag":
            removed += sorted(h[1])
        elif h[0] == "rmset":
            removed += sorted(h[1]) + (tab["classes"][h[2] - 1] if h[2] else [])
        elif h[0] == "cfg":
            lines.append("env HWLOC_COMPONENTS " + h[1])
        elif h[0] == "load":
            body.append("load %d %d %d" % (h[1], h[2], h[3]) + (" %d %d" % (h[4], h[5]) if len(h) > 5 and h[4] >= 0 else ""))
        elif h[0] == "xml_import":
            body.append("xml_import %d %d" % (h[1], h[2]))
        elif h[0] == "destroy":
            body += ["destroy 0", "destroy 1", "destroy 2"]
    lines.append("copy %s %s %s" % (src["id"], src["kind"], snapshot_root(src)))
    for i in sorted(set(removed)):
        rel, typ = ents[i - 1]
        if not (removable(rel, typ) and expressible(rel)):
            raise vlib.Infra("model emitted a non-removable path: %s %s" % (src["id"], rel))
        lines.append("remove " + rel)
    lines += body + ["cleanup"]
    # third component: an estimate of the cost of recording it (loads x size of the snapshot), used to balance the recorders
    return (k, len(removed) > 0), "\n".join(lines) + "\n", (300 + tab["np"]) * max(1, sum(1 for x in body if x.startswith(("load", "xml"))))


def rebase(ctx, text):
    """replay files name the scratch directory of the run that produced them"""
    m = re.search(r"(/\S*?/hwloc-verif\.[^/\s]+)/", text)
    if m and m.group(1) != ctx.dir:
        text = text.replace(m.group(1), ctx.dir)
    if "/corpus/" in text:
        corpus.extract_snapshots(ctx.path("corpus"))
    return text


def check_infra(tracefile):
    bad = 0
    with open(tracefile, errors="replace") as f:
        for line in f:
            if line.startswith('{"e":"InfraFail"'):
                raise vlib.Infra("recorder could not prepare a scratch copy: " + line[:300])
            if line.startswith('{"e":"remove"') and '"kind":"dir"' in line:
                p = json.loads(line)["path"]
                if p[-1].isdigit():
                    bad += 1
    if bad:
        raise vlib.Infra("%d behaviours removed an instance directory on its own (generator bug)" % bad)


def diag(ctx, event_line):
    """which WellFormed clauses are false on the topology of a load event / where an imported topology differs from its
    source (spec/DiagTopo.tla, spec/DiagXml.tla; same text as vlib.Ctx.diag_topo, usable from several threads)"""
    if '"topos"' not in event_line:
        return ""
    d = ctx.path("diag-%d-%d" % (os.getpid(), random.randrange(1 << 40)))
    os.makedirs(d)
    try:
        for f in os.listdir(vlib.SPEC):
            if f.endswith(".tla"):
                shutil.copy(os.path.join(vlib.SPEC, f), d)
        open(os.path.join(d, "event.ndjson"), "w").write(event_line.strip() + "\n")
        res, outs = "", {}
        # an imported topology is only compared with its source (DiagXml); a loaded one is judged by WellFormed (DiagTopo)
        mods = ["DiagXml"] if '"e":"xml_import"' in event_line else ["DiagTopo"]
        for mod in mods + ["DiagSnapshot"]:
            if mod == "DiagSnapshot" and '"SetInclusions"' not in res:
                continue
            open(os.path.join(d, mod + ".cfg"), "w").write("INIT Init\nNEXT Next\n")
            cmd = ["java", "-Xmx3g", "-XX:ParallelGCThreads=2", vlib.JAVA_OPTS, "-cp", vlib.TLA_CP, "tlc2.TLC", "-noGenerateSpecTE", "-workers", "1",
                   "-metadir", os.path.join(d, "meta" + mod), "-config", mod + ".cfg", mod + ".tla"]
            rc, out = vlib.run(cmd, cwd=d, timeout=600, env={"EVENT": os.path.join(d, "event.ndjson"), "DOCV2": "0"})
            flat = re.sub(r"\s+", " ", out).replace("<< ", "<<").replace(" >>", ">>")
            if mod == "DiagTopo":
                m = re.search(r'<<"ALLBAD", (\{.*?\})>>', flat)
                f = re.search(r'<<"FIRSTBAD", "(.*?)">>', flat)
                if m or f:
                    res = "WellFormed clauses false after the call: first=%s all=%s" % (f.group(1) if f else "?", m.group(1) if m else "?")
            elif mod == "DiagXml":
                m2 = re.search(r'<<"EQUIVDIFF", (<<.*?>>)>>', flat)
                if m2:
                    res += "equiv_diff(object fields, object types, top-level fields)=" + m2.group(1)
                m3 = re.search(r'<<"MEMCCSONLY", (TRUE|FALSE)>>', flat)
                if m3:
                    res += " only_moved_memory_child_complete_cpuset=" + m3.group(1)
            else:
                m4 = re.search(r'<<"MEMCCSINCLUSIONONLY", (TRUE|FALSE)>>', flat)
                if m4:
                    res += " setinclusions_only_memory_child_complete_cpuset=" + m4.group(1)
        return res
    except Exception:
        return ""
    finally:
        shutil.rmtree(d, ignore_errors=True)


def trimmed(event_line):
    """the event without the projections (they are megabytes)"""
    try:
        e = json.loads(event_line)
        if "topos" in e:            # under another name: vlib's handle_rejections runs DiagTopo on every line that has "topos"
            e["topo_sizes"] = ["<%d objects>" % t.get("n", 0) for t in e.pop("topos")]
        return json.dumps(e, separators=(",", ":"))
    except Exception:
        return event_line[:2000]


def expanded(rej):
    """the rejected event with the projections that compact mode left out (named by their digest only), taken from the
    earlier events of the same behaviour"""
    line = rej["line"]
    try:
        e = json.loads(line)
        if "topos" not in e:
            return line
        need = [k for k in range(len(e["topos"])) if e["live"][k] == 1 and e["full"][k] == 0]
        for prev in rej.get("blines") or []:
            if not need:
                break
            if '"topos"' not in prev:
                continue
            o = json.loads(prev)
            for k in list(need):
                for j in range(len(o["topos"])):
                    if o["full"][j] == 1 and o["pds"][j] == e["pds"][k]:
                        e["topos"][k], e["full"][k] = o["topos"][j], 1
                        need.remove(k)
                        break
        return json.dumps(e, separators=(",", ":"))
    except Exception:
        return line


def record_balanced(ctx, exe, behs, costs, tracefile, env, timeout=3000):
    """like ctx.record(parallel=NCPU), but the behaviours (sorted by snapshot, and snapshots differ by a factor 100 in
    size) are cut into many more chunks of about equal estimated cost than there are processors, and the expensive chunks
    start first; behaviour indexes stay global through HWV_BEH_BASE, the traces are concatenated in order"""
    import concurrent.futures as cf
    vlib.log("[%6.1fs] recording %d behaviours" % (time.time() - ctx.t0, len(behs)))
    target = (sum(costs) or 1) / (6.0 * vlib.NCPU)
    chunks, cur, acc, start = [], [], 0, 0
    for i, (b, c) in enumerate(zip(behs, costs)):
        cur.append(b)
        acc += c
        if acc >= target:
            chunks.append((start, cur, acc))
            cur, acc, start = [], 0, i + 1
    if cur:
        chunks.append((start, cur, acc))
    e = dict(env, HWLOC_HIDE_ERRORS="2")

    def one(ch):
        first, texts, cost = ch
        bp, tp = "%s.b%d" % (tracefile, first), "%s.t%d" % (tracefile, first)
        open(bp, "w").write("".join(texts))
        rc, out = vlib.run([exe, bp, tp], timeout=timeout, env=dict(e, HWV_BEH_BASE=str(first)))
        os.unlink(bp)
        # the scratch copy of this recorder (scr/w<pid>-<first> and its journal) is not needed any more
        vlib.run(["sh", "-c", "rm -rf %s/w*-%d %s/w*-%d.journal" % (ctx.path("scr"), first, ctx.path("scr"), first)], timeout=600)
        return rc, out, tp
    order = sorted(chunks, key=lambda ch: -ch[2])
    with cf.ThreadPoolExecutor(max_workers=vlib.NCPU) as ex:
        res = dict(zip([ch[0] for ch in order], ex.map(one, order)))
    for first in sorted(res):
        rc, out, tp = res[first]
        if rc != 0:
            raise vlib.Infra("recorder failed rc=%d on the chunk starting at behaviour %d: %s" % (rc, first, out[-2000:]))
    with open(tracefile, "w") as fo:
        for first in sorted(res):
            with open(res[first][2]) as fi:
                shutil.copyfileobj(fi, fo)
            os.unlink(res[first][2])


def present_types(ctx, exe, srcs, tables, env):
    """first pass of the recorder: the object types each unmodified snapshot has when every type is kept (default component
    selection, no flag); they steer the type-targeted configurations and are not judged here (the main run repeats these loads)"""
    behs, costs = [], []
    for k, s in enumerate(srcs):
        comp = {"linux": "linux,stop", "x86": "x86,stop"}.get(s["kind"], "x86,linux,stop")
        key, text, cost = behaviour(ctx, [["snap", k + 1], ["cfg", comp, 0, -1, -1], ["load", 0, 0, 0, -1, -1], ["destroy"]], srcs, tables, compact=0)
        behs.append(text)
        costs.append(cost)
    t = ctx.path("types.ndjson")
    record_balanced(ctx, exe, behs, costs, t, env)
    beh, res = None, {}
    with open(t, errors="replace") as f:
        for line in f:
            if line.startswith('{"e":"Reset"'):
                beh = json.loads(line)["beh"]
            elif line.startswith('{"e":"load"') and beh is not None:
                e = json.loads(line)
                if e["ret"] == 0 and e["topos"][0].get("objs"):
                    res[beh] = sorted({o["type"] for o in e["topos"][0]["objs"]})
    os.unlink(t)
    return [res.get(k, []) for k in range(len(srcs))]


def explain(tracefile, rej):
    """diagnostic text for a rejected event (not part of the oracle)"""
    try:
        e = json.loads(rej["line"])
    except Exception:
        return ""
    if e.get("e") in ("Crash", "Hang"):
        return "the loader process died (%s%s) during this behaviour" % (e.get("e"), " signal %s" % e["sig"] if "sig" in e else "")
    if e.get("e") == "Leak":
        return "LeakSanitizer reports memory still allocated and unreachable after this behaviour released everything"
    if e.get("e") == "load" and e.get("ret") == 0:
        evs = [json.loads(x) for x in open(tracefile, errors="replace") if x.startswith('{"e":"load"')]
        for o in evs:
            if o is not e and o["filt"] == e["filt"] and o["flags"] == e["flags"] and o["slot"] != e["slot"] and o["ret"] == 0:
                a, b = o["topos"][o["slot"]], e["topos"][e["slot"]]
                if o["pds"][o["slot"]] != e["pds"][e["slot"]] and a.get("n") and b.get("n"):
                    diff = sorted(k for k in a if a[k] != b.get(k))
                    od = sorted({f for x, y in zip(a["objs"], b["objs"]) for f in x if x[f] != y.get(f)}) if "objs" in diff else []
                    return "two loads with the same key differ: top-level fields %s, object fields %s, objects %d vs %d" % (diff, od, a["n"], b["n"])
    if e.get("e") == "load" and e.get("ret") == 0 and e.get("flags", 0) & 1:
        evs = [json.loads(x) for x in open(tracefile, errors="replace") if x.startswith('{"e":"load"')]
        for o in evs:
            if o["filt"] == e["filt"] and o["flags"] == e["flags"] - 1 and o["ret"] == 0:
                d, a = o["topos"][o["slot"]], e["topos"][e["slot"]]
                if d.get("n") and a.get("n"):
                    osd = lambda t, ty: sorted(x["os"] for x in t["objs"] if x["type"] == ty)
                    return ("INCLUDE_DISALLOWED against the default load: default root cpuset %s nodeset %s, allowed sets with the flag %s %s; "
                            "PUs of the default load missing with the flag %s, NUMA nodes missing %s"
                            % (d["objs"][0]["cs"], d["objs"][0]["ns"], a["tacs"], a["tans"],
                               sorted(set(osd(d, 4)) - set(osd(a, 4))), sorted(set(osd(d, 14)) - set(osd(a, 14)))))
    return ""


# ---------------------------------------------------------------- trace validation that reports every rejected behaviour in one pass
def validate(ctx, tracefile, nshards, timeout=3000, max_rej=12, heap="3g", quiet=False):
    """like ctx.validate("TraceSnapshot", ...) but one TLC run per shard reports every rejected behaviour: TraceSnapshot
    counts and prints a rejected event (with the diagnostics DiagTopo / DiagXml / DiagSnapshot would give) and goes on with
    the next behaviour - its state is cleared by every Reset event (wf / eq only cache verdicts); a trace is accepted only
    if the final TAccept step (no rejection) is taken.  Returns the rejections (dicts like vlib's, plus "diag")."""
    import concurrent.futures as cf
    module = "TraceSnapshot"
    d = ctx.path("tv-%d-%d" % (os.getpid(), random.randrange(1 << 40)))
    os.makedirs(d)
    for f in os.listdir(vlib.SPEC):
        if f.endswith(".tla"):
            shutil.copy(os.path.join(vlib.SPEC, f), d)
    open(os.path.join(d, module + ".cfg"), "w").write("SPECIFICATION Spec\nPOSTCONDITION Accepted\nCHECK_DEADLOCK FALSE\n")
    shards = vlib.split_trace(tracefile, d, nshards)
    if not quiet:
        vlib.log("[%6.1fs] validating %s (%.1f MB, %d shards) against %s" % (time.time() - ctx.t0, os.path.basename(tracefile),
                                                                           os.path.getsize(tracefile) / 1e6, len(shards), module))

    def inspec_diag(flat, pos, what, why):
        """the diagnostics TraceSnapshot printed where it rejected event number pos (same wording as diag())"""
        def tag(name, rx):
            m = re.search(r'<<"%s", %d, %s>>' % (name, pos, rx), flat)
            return m.group(1) if m else None
        if what == "load" and why == "WellFormed":
            res = "WellFormed clauses false after the call: first=%s all=%s" % (tag("FIRSTBAD", '"(.*?)"') or "?", tag("ALLBAD", r"(\{.*?\})") or "?")
            inc = tag("MEMCCSINCLUSIONONLY", "(TRUE|FALSE)")
            return res + (" setinclusions_only_memory_child_complete_cpuset=" + inc if inc else "")
        if what == "xml_import" and why == "XmlSelfConsistent":
            return ("equiv_diff(object fields, object types, top-level fields)=%s only_moved_memory_child_complete_cpuset=%s"
                    % (tag("EQUIVDIFF", "(<<.*?>>)") or "?", tag("MEMCCSONLY", "(TRUE|FALSE)") or "?"))
        if what in ("load", "xml_import"):
            return "part of the %s relation that is false: %s" % (what, why)
        return ""

    def one(shard):
        """validate one piece: the specification reports every rejected event (REJECT lines) and goes on with the next
        behaviour; when it cannot go on at all (an event outside the recorder's protocol, an evaluation error), the event
        it stopped at is a rejection too and what follows that behaviour is cut into up to four pieces (new tasks)"""
        lines = [x for x in open(shard, errors="replace").read().split("\n") if x.strip()]
        if not lines:
            return [], 0, 0, []
        meta = shard + ".meta"
        cmd = ["java", "-XX:+UseParallelGC", "-XX:ParallelGCThreads=2", "-Xmx" + heap, vlib.JAVA_OPTS, "-cp", vlib.TLA_CP, "tlc2.TLC", "-noGenerateSpecTE",
               "-workers", "1", "-metadir", meta, "-config", module + ".cfg", module + ".tla"]
        rc, out = vlib.run(cmd, cwd=d, timeout=timeout, env={"TRACE": shard})
        shutil.rmtree(meta, ignore_errors=True)
        st = vlib.parse_tlc_stats(out)
        if rc == 124:
            raise vlib.Infra("trace validation timed out on " + shard)
        if st["distinct"] == 0 and "states generated" not in out:
            raise vlib.Infra("TLC failed on %s:\n%s" % (shard, out[-3000:]))
        k = st["distinct"] - 1                      # events read; one more step (TAccept) when nothing was rejected
        flat = re.sub(r"\s+", " ", out).replace("<< ", "<<").replace(" >>", ">>")
        reported = sorted({(int(m.group(1)), m.group(2), m.group(3)) for m in re.finditer(r'<<"REJECT", (\d+), "(\w+)", "([^"]*)">>', flat)})
        if k > len(lines) and reported:
            raise vlib.Infra("TraceSnapshot accepted %s and reported rejections" % shard)
        if k == len(lines) and not reported:
            raise vlib.Infra("TraceSnapshot neither accepted %s nor reported a rejection:\n%s" % (shard, out[-2000:]))

        def rejection(idx, why, dg):
            b0 = idx
            while b0 > 0 and not lines[b0].startswith('{"e":"Reset"'):
                b0 -= 1
            beh = None
            for cand in (lines[idx], lines[b0]):
                mm = re.search(r'"beh":(-?\d+)', cand)
                if mm:
                    beh = int(mm.group(1))
                    break
            return {"beh": beh, "line": lines[idx], "prev": lines[idx - 1] if idx > b0 else None, "reset": lines[b0], "why": why, "pos": idx - b0,
                    "blines": lines[b0:idx], "diag": dg}
        rejs = [rejection(pos - 1, "", inspec_diag(flat, pos, what, why)) for pos, what, why in reported if 1 <= pos <= len(lines)]
        paths, end = [], len(lines)
        if k < len(lines):                           # stopped at event k
            why = ""
            mm = re.search(r"Error: (.*)", out)
            if mm and "POSTCONDITION" not in mm.group(1).upper():
                why = mm.group(1)[:300]
            rejs.append(rejection(k, why, None))
            end = k
            while end > 0 and not lines[end].startswith('{"e":"Reset"'):
                end -= 1
            b1 = k + 1
            while b1 < len(lines) and not lines[b1].startswith('{"e":"Reset"'):
                b1 += 1
            rest = lines[b1:]
            parts, cur, size, target = [], [], 0, sum(len(x) for x in rest) / 4.0 + 1
            for x in rest:
                if x.startswith('{"e":"Reset"') and cur and size >= target:
                    parts.append(cur)
                    cur, size = [], 0
                cur.append(x)
                size += len(x)
            if cur:
                parts.append(cur)
            for j, part in enumerate(parts):
                pp = "%s.%d" % (shard, j)
                open(pp, "w").write("\n".join(part) + "\n")
                paths.append(pp)
        os.unlink(shard)
        nres = sum(1 for x in lines[:end] if x.startswith('{"e":"Reset"'))
        skipped = 0                                  # events from a reported rejection to the end of its behaviour are not judged
        for pos, what, why in reported:
            j = pos - 1
            while j < end and (j == pos - 1 or not lines[j].startswith('{"e":"Reset"')):
                j += 1
            skipped += j - (pos - 1)
        return rejs, nres - sum(1 for r in rejs if r["diag"] is not None), end - skipped, paths

    rejs = []
    with cf.ThreadPoolExecutor(max_workers=vlib.NCPU) as ex:
        futs = {ex.submit(one, s) for s in shards}
        while futs:
            done, futs = cf.wait(futs, return_when=cf.FIRST_COMPLETED)
            for f in done:
                r, nb, ne, parts = f.result()
                rejs += r
                if not quiet:
                    ctx.accepted += nb
                    ctx.events += ne
                if len(rejs) < max_rej:
                    futs |= {ex.submit(one, pp) for pp in parts}
    rejs.sort(key=lambda r: (r["beh"] is None, r["beh"] or 0))
    if not os.environ.get("HWV_KEEP"):
        shutil.rmtree(d, ignore_errors=True)
    return rejs


# ---------------------------------------------------------------- main
def run(ctx, replay=None):
    ctx.build_lib()
    exe = ctx.cc("hwv_snapshot.c", "hwv_snapshot")
    os.makedirs(ctx.path("scr"), exist_ok=True)
    # a leak (LeakSanitizer, consulted after every behaviour) is a memory error: logged as a Leak event, which no action accepts
    env = {"HWV_WATCHDOG": "60", "HWV_LEAKCHECK": "1"}

    def replay_fn(text):
        """one behaviour alone in a fresh recorder with full projections; the rejection, if any, comes back with the
        diagnostics in "why" and the event trimmed of its projections"""
        tag = "%d-%d" % (os.getpid(), random.randrange(1 << 40))
        p = ctx.path("replay-%s.beh" % tag)
        text = rebase(ctx, text).replace("option compact 1", "option compact 0")
        text = re.sub(r"(?m)^scratch (\S+)$", "scratch " + ctx.path("scr-" + tag), text)      # replays run in parallel
        open(p, "w").write(text)
        t = p + ".ndjson"
        rc, out = vlib.run([exe, p, t], timeout=1800, env=dict(env, HWLOC_HIDE_ERRORS="2"))
        shutil.rmtree(ctx.path("scr-" + tag), ignore_errors=True)
        if rc != 0:
            raise vlib.Infra("recorder failed rc=%d: %s" % (rc, out[-2000:]))
        check_infra(t)
        rej = validate(ctx, t, nshards=1, quiet=True)
        for r in rej:
            r["why"] = " ".join(x for x in (r.get("why", ""), r.get("diag") or diag(ctx, r["line"]), explain(t, r)) if x)
            r["line"] = trimmed(r["line"])
            r.pop("blines", None)
            if r.get("prev"):
                r["prev"] = trimmed(r["prev"])
        for f in (p, t):
            if os.path.exists(f):
                os.unlink(f)
        return rej

    if replay:
        rej = replay_fn(open(replay).read())
        for r in rej:
            vlib.log("rejected event:", r["line"][:1500])
            if r.get("why"):
                vlib.log("  why:", r["why"])
            print("VIOLATION property=C18 replay=%s" % replay)
        ctx.cleanup()
        return 1 if rej else 0

    thorough = ctx.tier == "thorough"
    srcs = corpus.extract_snapshots(ctx.path("corpus"))
    if os.environ.get("C18_ONLY"):          # development aid: restrict the run to the snapshots whose id matches
        srcs = [s for s in srcs if re.search(os.environ["C18_ONLY"], s["id"])]
    tables = [make_table(s) for s in srcs]
    for (tab, ents, cn), ty in zip(tables, present_types(ctx, exe, srcs, tables, env)):
        tab["types"] = ty
    tf = ctx.path("tables.ndjson")
    with open(tf, "w") as f:
        for tab, ents, cn in tables:
            f.write(json.dumps(tab) + "\n")
    nsnap = len(srcs)
    base = {"TableFile": tf, "Sel": set(range(1, nsnap + 1)), "Seed": ctx.seed, "SimMode": False, "SimMax": 40,
            "FlagSeqs": {(0, 1)}, "PairMax": 0, "CfgStride": 2, "NKeys": 3, "NSingles": 6, "NRest": 3, "NClasses": 8, "NRClasses": 3,
            # per-instance attributes: every instance of the Interesting (feature class, path class) pairs, one instance of the other
            # pairs; one configuration each, without INCLUDE_DISALLOWED
            "InstFull": False, "InstMax": 150, "NInstPlain": 1, "InstCfgs": 1, "InstFlagSeqs": {(0,)},
            # type-targeted configurations on the unmodified snapshots: the type removed with the rest default (always), and either
            # removed with the rest kept or kept alone
            "TargetTypes": TARGET_QUICK, "TargetModes": ((-1, 1), (0, 1), (1, 0)), "TargetStride": 2,
            # staggered removals (SnStaggered pairs: the attributes whose values partition the CPUs into kinds): attribute class j
            # removed on the instances i with (i + offset) % modulus = j % modulus
            "StagMods": {3, 4, 5}, "StagOffs": {0, 2}}
    hists = []
    if not thorough:
        hists += run_model(ctx, base, "enum")
        sim = dict(base, SimMode=True)
        hists += run_model(ctx, sim, "sim", simulate="num=%d" % (2 * nsnap), depth=16, workers=1)
    else:
        tgt = dict(TargetTypes=TARGET_ALL, TargetModes=((-1, 1), (0, 1), (1, 0), (0, 2), (1, 2)), TargetStride=1)
        c = dict(base, NKeys=40, NSingles=30, NRest=20, NClasses=40, NRClasses=25, CfgStride=4, FlagSeqs={(0, 1), (896, 897)},
                 InstFull=True, InstMax=60, NInstPlain=3, InstCfgs=1, InstFlagSeqs={(0, 1)},
                 StagMods={2, 3, 4, 5, 6, 7, 8}, StagOffs={0, 1, 2, 3, 4, 5, 6, 7}, **tgt)
        hists += run_model(ctx, c, "enum")
        c = dict(base, NKeys=0, NSingles=0, NRest=0, NClasses=0, NRClasses=0, PairMax=60, CfgStride=8, NInstPlain=0, TargetTypes=set(), StagMods=set())
        hists += run_model(ctx, c, "pairs")
        sim = dict(base, SimMode=True, FlagSeqs={(0, 1), (896, 897), (1, 0)}, **tgt)
        hists += run_model(ctx, sim, "sim", simulate="num=%d" % (12 * nsnap), depth=16, workers=1)
    seen, behs, cats = set(), [], {}
    for h in hists:
        key, text, cost = behaviour(ctx, h, srcs, tables)
        if text not in seen:
            seen.add(text)
            behs.append((key, text, cost))
            cat = (h[1][0] if h[1][0] != "cfg" else "nofault") + ("+typefilter" if any(x[0] == "cfg" and len(x) > 4 and x[3] >= 0 for x in h) else "")
            cats[cat] = cats.get(cat, 0) + 1
    ctx.extra["behaviours_by_fault_and_configuration_class"] = cats
    if os.environ.get("C18_DRY"):           # development aid: what would be recorded
        vlib.log("behaviours:", len(behs), json.dumps(cats, sort_keys=True))
        for k, (tab, ents, cn) in enumerate(tables):
            vlib.log("  %-50s feat=%s types=%s inst=%s n=%d" % (tab["id"], ",".join(tab["feat"]), tab["types"], {m["pc"]: len(m["rows"]) for m in tab["inst"]},
                                                                sum(1 for kk, t, c in behs if kk[0] == k)))
        ctx.cleanup()
        return 0
    behs.sort(key=lambda x: x[0])            # by snapshot, the unmodified snapshot first: consecutive projections repeat
    costs = [c for k, t, c in behs]
    behs = [t for k, t, c in behs]
    ctx.samples = [behs[0], behs[len(behs) // 2], behs[-1]]
    ctx.extra.update({"snapshots": nsnap, "behaviours": len(behs), "removable_paths": sum(len(t[0]["cand"]) + len(t[0]["rest"]) for t in tables),
                      "classes": sum(len(t[0]["classes"]) for t in tables),
                      "type_targeted_configurations": sum(1 for b in behs if re.search(r"(?m)^load 0 -?\d+ \d+ \d+ \d+$", b)),
                      "feature_classes": {c: sum(1 for t in tables if c in t[0]["feat"]) for c in sorted({x for t in tables for x in t[0]["feat"]})}})
    trf = ctx.path("trace.ndjson")
    record_balanced(ctx, exe, behs, costs, trf, env)
    check_infra(trf)
    shutil.rmtree(ctx.path("scr"), ignore_errors=True)
    os.makedirs(ctx.path("scr"), exist_ok=True)
    # a shard is read into memory as a whole (by TLC and here): keep shards small
    nshards = max(vlib.NCPU, int(os.path.getsize(trf) / 16e6) + 1)
    rejs = validate(ctx, trf, nshards=nshards, max_rej=200)
    os.unlink(trf)
    # every rejected behaviour is run again alone in a fresh recorder (handle_rejections demands that); do these runs in parallel
    # ... except those whose diagnostic (printed by TraceSnapshot where it rejected the event; for an event validation stopped
    # at, the DiagTopo / DiagXml run the replay would make, with the projections compact mode left out put back) already
    # matches a recorded known finding: they are not reported as violations whatever the replay says, so the replay and its
    # validation are skipped
    import concurrent.futures as cf
    kf = vlib.load_known_findings(ctx.prop)
    confirmed, groups = {}, {}
    good = [r for r in rejs if r.get("beh") is not None and 0 <= r["beh"] < len(behs)]
    for r in good:
        # the diagnostic is a function of the projections of the event: one run per (kind of event, digests)
        mm = re.search(r'"e":"(\w+)".*"pds":(\[[\[\]\d,]*\])\}\s*$', r["line"][:40] + r["line"][-400:], re.S)
        groups.setdefault(mm.groups() if mm and '"topos"' in r["line"] and r.get("diag") is None else ("", id(r)), []).append(r)

    def prematch(rs):
        if rs[0].get("diag") is not None:           # TraceSnapshot printed the diagnostics where it rejected the event
            return rs, rs[0]["diag"]
        return rs, (diag(ctx, expanded(rs[0])) if rs[0]["line"].startswith(('{"e":"load"', '{"e":"xml_import"')) else "")
    if kf and good:
        with cf.ThreadPoolExecutor(max_workers=vlib.NCPU) as ex:
            for rs, d in ex.map(prematch, list(groups.values())):
                for r in rs:
                    text, line = behs[r["beh"]], trimmed(r["line"])
                    why = " ".join(x for x in (r.get("why", ""), d) if x)
                    if d and vlib.match_known(kf, text, line + " #" + why):
                        confirmed[text] = [dict(r, line=line, why=why, prev=trimmed(r["prev"]) if r.get("prev") else None, blines=None)]
        ctx.extra["known_finding_hits_matched_without_replay"] = len(confirmed)
    for r in rejs:
        r.pop("blines", None)
    todo = sorted({behs[r["beh"]] for r in good} - set(confirmed))
    with cf.ThreadPoolExecutor(max_workers=vlib.NCPU) as ex:
        confirmed.update(zip(todo, ex.map(replay_fn, todo)))
    ctx.handle_rejections(rejs, behs, lambda text: confirmed[text] if text in confirmed else replay_fn(text))
    if not os.environ.get("HWV_KEEP"):          # 170k hard links and directories: rm is much faster than shutil.rmtree
        vlib.run(["rm", "-rf", ctx.path("corpus"), ctx.path("scr")], timeout=900)
    return ctx.finish(
        rule="tuples (snapshot, fault set, component selection, filter preset [+ one type filter], flag words) enumerated by TLC from MC_Snapshot.tla "
             "over the path tables of every bundled Linux snapshot, CPUID dump and combined snapshot: no removal under every preset and, for every "
             "type the unmodified snapshot really contains (first recorder pass), under the presets followed by one type filter (the type removed "
             "with the rest default / kept, the type kept alone; thorough: also kept only when structuring, and the I/O and Misc types); striped "
             "single paths; per-instance attributes of NUMA nodes and CPUs (nodeN/cpumap, distance, meminfo, initiators, cpuN/topology/*, cache/*, "
             "online, capacity/frequency) removed singly: every instance for the Interesting (snapshot feature class, path class) pairs of "
             "Snapshot.tla (CPU-less node, heterogeneous memory, KNL, sparse numbering x node attributes; offline CPUs, CPU kinds x CPU attributes), "
             "one instance per path class otherwise; staggered removals on the snapshots with CPU kinds (attribute class j of cpuN/cpu_capacity, "
             "cpufreq/*, acpi_cppc/* removed on the CPUs i with (i + offset) % modulus = j % modulus, moduli 3..5: the partitions of the CPUs "
             "by the different attributes stop nesting); whole attribute classes, pairs of core paths of the small snapshots (thorough) and simulated "
             "sets of up to 40 paths (half of them with a type filter); each tuple is executed on a hard-linked scratch copy: load twice, XML "
             "round trip, per flag word. A behaviour is non-trivial when a load was attempted.",
        assumptions=["the recorder's projection digest (64-bit FNV-1a of the projection text) stands for the projection when the same "
                     "projection occurs again in a behaviour; equal projections always have equal digests",
                     "fault sets are sampled (seeded stripes / simulation) except single and pairwise removals on the small snapshots and the "
                     "per-instance removals of the Interesting pairs (quick: one rotating attribute per CPU instance, every attribute per NUMA node)",
                     "a rejection whose diagnostic matches a recorded known finding is not replayed in a fresh process",
                     "RESTRICT_TO_*BINDING and IS_THISSYSTEM flag words are not driven on snapshots"])
