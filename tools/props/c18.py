"""C18 - discovery from Linux/x86 snapshots is robust, deterministic and self-consistent.
Model: spec/Snapshot.tla (the four relations), spec/MC_Snapshot.tla (enumeration of snapshot x fault set x configuration
and the call protocol); binding: spec/TraceSnapshot.tla, harness/hwv_snapshot.c"""
import os, re, json, random, shutil, time
import vlib, corpus

MOD = "MC_Snapshot_gen"
SKIP_ENV = ("HWLOC_FSROOT", "HWLOC_CPUID_PATH", "HWLOC_COMPONENTS")


# ---------------------------------------------------------------- path tables
def core_area(kind, rel):
    if kind == "linux":
        return rel.startswith("sys/devices/system/") or rel.startswith("proc/")
    if kind == "x86":
        return True
    return rel.startswith("fsroot/sys/devices/system/") or rel.startswith("fsroot/proc/") or rel.startswith("cpuid/")


def snapshot_root(src):
    """root of what is copied: for the combined snapshots the directory holding fsroot/ and cpuid/"""
    return src["path"]


def path_table(src):
    """sorted table of the paths of an extracted snapshot: (rel, type) with type in file/symlink/dir"""
    root = snapshot_root(src)
    ents = []

    def walk(d, rel):
        with os.scandir(d) as it:
            for e in sorted(it, key=lambda x: x.name):
                r = rel + "/" + e.name if rel else e.name
                if e.is_symlink():
                    ents.append((r, "symlink"))
                elif e.is_dir(follow_symlinks=False):
                    ents.append((r, "dir"))
                    walk(e.path, r)
                else:
                    ents.append((r, "file"))
    walk(root, "")
    return ents


def removable(rel, typ):
    """the rule of the property statement: regular files, symlinks, directories whose name does not end in a digit"""
    return typ != "dir" or not rel[-1].isdigit()


def expressible(rel):
    """paths the line-based behaviour format can carry"""
    return re.fullmatch(r"[\x21-\x7e]+(?: [\x21-\x7e]+)*", rel) is not None and ".." not in rel


KEY_LINUX = re.compile(r"(fsroot/)?(sys/devices/system/(cpu|node)/(online|possible|present|has_cpu|has_memory|has_normal_memory|kernel_max|offline)"
                       r"|proc/(cpuinfo|meminfo|mounts|self|hwloc-nofile-info)|sys/devices/system/(cpu|node)|sys/(bus|class|firmware|kernel|fs)|sys/bus/pci|sys/bus/pci/devices"
                       r"|sys/devices/virtual/dmi|sys/class/dmi|sys/firmware/devicetree|sys/firmware/acpi|proc/device-tree|proc|sys|var|sys/devices/system|cpuid)")


def key_paths(kind, ents):
    """paths that every run removes on their own: the global files and directories of the core area, and for a CPUID dump
    its summary file and its last PU file (a dump with a pu file missing in the middle is refused as a whole)"""
    keys = []
    pus = sorted((int(r.rsplit("pu", 1)[1]), i) for i, (r, t) in enumerate(ents) if re.fullmatch(r"(cpuid/)?pu\d+", r))
    for i, (r, t) in enumerate(ents):
        if re.fullmatch(r"(cpuid/)?hwloc-cpuid-info", r) or (pus and i == pus[-1][1]) or (kind != "x86" and KEY_LINUX.fullmatch(r)):
            keys.append(i + 1)
    return keys


TOP_KEYS = re.compile(r"(fsroot/)?(sys/devices/system/node|sys/devices/system/cpu/online|proc/cpuinfo)|(cpuid/)?hwloc-cpuid-info")


def make_table(src):
    ents = path_table(src)
    kind = src["kind"]
    rem = [1 if removable(r, t) and expressible(r) else 0 for r, t in ents]
    key = [i for i in key_paths(kind, ents) if rem[i - 1]]
    # removed on their own in every run and under every configuration: no NUMA information at all, no list of online CPUs,
    # no /proc/cpuinfo, no summary of the CPUID dump; and the last PU file of a dump
    pus = sorted((int(ents[i - 1][0].rsplit("pu", 1)[1]), i) for i in key if re.fullmatch(r"(cpuid/)?pu\d+", ents[i - 1][0]))
    top = [i for i in key if TOP_KEYS.fullmatch(ents[i - 1][0]) or (pus and i == pus[-1][1])]
    ks = set(key)
    cand = [i + 1 for i, (r, t) in enumerate(ents) if rem[i] and core_area(kind, r) and i + 1 not in ks]
    rest = [i + 1 for i, (r, t) in enumerate(ents) if rem[i] and not core_area(kind, r) and i + 1 not in ks]
    # classes: the same attribute of different instances = same path once digit runs (and PCI bus addresses) are erased;
    # at least two members; those with a member in the core area first (ncore of them), then the others
    cls = {}
    for i, (r, t) in enumerate(ents):
        if rem[i]:
            k = re.sub(r"[0-9a-f]{4}:[0-9a-f]{2}:[0-9a-f]{2}\.[0-9a-f]", "@", r)
            cls.setdefault(re.sub(r"\d+", "#", k), []).append(i + 1)
    cs = set(cand) | ks
    multi = [(k, v) for k, v in sorted(cls.items()) if len(v) >= 2]
    core_classes = [(k, v) for k, v in multi if any(x in cs for x in v)]
    rest_classes = [(k, v) for k, v in multi if not any(x in cs for x in v)]
    classes = core_classes + rest_classes
    # share of the per-snapshot budget: every removal from a CPUID dump but the key ones makes hwloc refuse the dump as a whole
    w = 25 if kind == "x86" else 100
    return {"id": src["id"], "kind": kind, "np": len(ents), "removable": rem, "type": [t for r, t in ents], "last": [r[-1] for r, t in ents], "key": key, "top": top, "cand": cand, "rest": rest, "w": w,
            "classes": [v for k, v in classes], "ncore": len(core_classes)}, ents, [k for k, v in classes]


# ---------------------------------------------------------------- TLC model runs
def tla(v):
    if isinstance(v, bool):
        return "TRUE" if v else "FALSE"
    if isinstance(v, int):
        return str(v)
    if isinstance(v, str):
        return '"%s"' % v
    if isinstance(v, (list, tuple)):
        return "<<" + ", ".join(tla(x) for x in v) + ">>"
    if isinstance(v, (set, frozenset)):
        return "{" + ", ".join(sorted(tla(x) for x in v)) + "}"
    raise TypeError(v)


CONSTS = ["TableFile", "Sel", "NKeys", "NSingles", "NRest", "NClasses", "NRClasses", "PairMax", "Seed", "FlagSeqs", "CfgStride", "SimMode", "SimMax"]


def gen_module(c):
    return ("---- MODULE %s ----\nEXTENDS MC_Snapshot\n" % MOD + "".join("G_%s == %s\n" % (k, tla(c[k])) for k in CONSTS) + "====\n")


def gen_cfg(c):
    s = "SPECIFICATION Spec\nCONSTANTS\n" + "".join("  %s <- G_%s\n" % (k, k) for k in CONSTS)
    s += "VIEW SnView\nCHECK_DEADLOCK FALSE\nINVARIANTS TypeOK RuleOK BudgetOK CfgOK ProtocolOK EmitDone\n"
    return s


def run_model(ctx, c, tag, simulate=None, depth=None, workers=4):
    for attempt in range(3):
        out, st = ctx.tlc_mc(MOD, gen_cfg(c), tag=tag, workers=workers, heap="3g", timeout=2400, simulate=simulate, depth=depth,
                             extra_modules=[(MOD + ".tla", gen_module(c))])
        if st["error"]:
            raise vlib.Infra("MC_Snapshot failed (model level, not a violation): %s\n%s" % (st["error"], out[-2000:]))
        if "Finished in" in out or simulate:
            return list(vlib.tlc_printed(out, "TUPLE"))
    raise vlib.Infra("MC_Snapshot did not finish:\n" + out[-2000:])


# ---------------------------------------------------------------- histories -> behaviour text
def behaviour(ctx, hist, srcs, tables, compact=1):
    """render one TLC history; returns (sort key, text)"""
    k = hist[0][1] - 1
    src, (tab, ents, cnames) = srcs[k], tables[k]
    lines = ["reset", "option compact %d" % compact, "scratch " + ctx.path("scr")]
    for n, v in sorted(src["env"].items()):
        if n not in SKIP_ENV:
            lines.append("env %s %s" % (n, v))
    body, removed = [], []
    for h in hist[1:]:
        if h[0] == "rm":
            removed.append(h[1])
        elif h[0] == "rmclass":
            removed += tab["classes"][h[1] - 1]
        elif h[0] == "rmset":
            removed += sorted(h[1]) + (tab["classes"][h[2] - 1] if h[2] else [])
        elif h[0] == "cfg":
            lines.append("env HWLOC_COMPONENTS " + h[1])
        elif h[0] == "load":
            body.append("load %d %d %d" % (h[1], h[2], h[3]))
        elif h[0] == "xml_import":
            body.append("xml_import %d %d" % (h[1], h[2]))
        elif h[0] == "destroy":
            body += ["destroy 0", "destroy 1", "destroy 2"]
    lines.append("copy %s %s %s" % (src["id"], src["kind"], snapshot_root(src)))
    for i in sorted(set(removed)):
        rel, typ = ents[i - 1]
        if not (removable(rel, typ) and expressible(rel)):
            raise vlib.Infra("model emitted a non-removable path: %s %s" % (src["id"], rel))
        lines.append("remove " + rel)
    lines += body + ["cleanup"]
    return (k, len(removed) > 0), "\n".join(lines) + "\n"


def rebase(ctx, text):
    """replay files name the scratch directory of the run that produced them"""
    m = re.search(r"(/\S*?/hwloc-verif\.[^/\s]+)/", text)
    if m and m.group(1) != ctx.dir:
        text = text.replace(m.group(1), ctx.dir)
    if "/corpus/" in text:
        corpus.extract_snapshots(ctx.path("corpus"))
    return text


def check_infra(tracefile):
    bad = 0
    with open(tracefile, errors="replace") as f:
        for line in f:
            if line.startswith('{"e":"InfraFail"'):
                raise vlib.Infra("recorder could not prepare a scratch copy: " + line[:300])
            if line.startswith('{"e":"remove"') and '"kind":"dir"' in line:
                p = json.loads(line)["path"]
                if p[-1].isdigit():
                    bad += 1
    if bad:
        raise vlib.Infra("%d behaviours removed an instance directory on its own (generator bug)" % bad)


def diag(ctx, event_line):
    """which WellFormed clauses are false on the topology of a load event / where an imported topology differs from its
    source (spec/DiagTopo.tla, spec/DiagXml.tla; same text as vlib.Ctx.diag_topo, usable from several threads)"""
    if '"topos"' not in event_line:
        return ""
    d = ctx.path("diag-%d-%d" % (os.getpid(), random.randrange(1 << 40)))
    os.makedirs(d)
    try:
        for f in os.listdir(vlib.SPEC):
            if f.endswith(".tla"):
                shutil.copy(os.path.join(vlib.SPEC, f), d)
        open(os.path.join(d, "event.ndjson"), "w").write(event_line.strip() + "\n")
        res, outs = "", {}
        # an imported topology is only compared with its source (DiagXml); a loaded one is judged by WellFormed (DiagTopo)
        mods = ["DiagXml"] if '"e":"xml_import"' in event_line else ["DiagTopo"]
        for mod in mods + ["DiagSnapshot"]:
            if mod == "DiagSnapshot" and '"SetInclusions"' not in res:
                continue
            open(os.path.join(d, mod + ".cfg"), "w").write("INIT Init\nNEXT Next\n")
            cmd = ["java", "-Xmx3g", "-XX:ParallelGCThreads=2", vlib.JAVA_OPTS, "-cp", vlib.TLA_CP, "tlc2.TLC", "-noGenerateSpecTE", "-workers", "1",
                   "-metadir", os.path.join(d, "meta" + mod), "-config", mod + ".cfg", mod + ".tla"]
            rc, out = vlib.run(cmd, cwd=d, timeout=600, env={"EVENT": os.path.join(d, "event.ndjson"), "DOCV2": "0"})
            flat = re.sub(r"\s+", " ", out).replace("<< ", "<<").replace(" >>", ">>")
            if mod == "DiagTopo":
                m = re.search(r'<<"ALLBAD", (\{.*?\})>>', flat)
                f = re.search(r'<<"FIRSTBAD", "(.*?)">>', flat)
                if m or f:
                    res = "WellFormed clauses false after the call: first=%s all=%s" % (f.group(1) if f else "?", m.group(1) if m else "?")
            elif mod == "DiagXml":
                m2 = re.search(r'<<"EQUIVDIFF", (<<.*?>>)>>', flat)
                if m2:
                    res += "equiv_diff(object fields, object types, top-level fields)=" + m2.group(1)
                m3 = re.search(r'<<"MEMCCSONLY", (TRUE|FALSE)>>', flat)
                if m3:
                    res += " only_moved_memory_child_complete_cpuset=" + m3.group(1)
            else:
                m4 = re.search(r'<<"MEMCCSINCLUSIONONLY", (TRUE|FALSE)>>', flat)
                if m4:
                    res += " setinclusions_only_memory_child_complete_cpuset=" + m4.group(1)
        return res
    except Exception:
        return ""
    finally:
        shutil.rmtree(d, ignore_errors=True)


def trimmed(event_line):
    """the event without the projections (they are megabytes)"""
    try:
        e = json.loads(event_line)
        if "topos" in e:
            e["topos"] = ["<%d objects>" % t.get("n", 0) for t in e["topos"]]
        return json.dumps(e, separators=(",", ":"))
    except Exception:
        return event_line[:2000]


def explain(tracefile, rej):
    """diagnostic text for a rejected event (not part of the oracle)"""
    try:
        e = json.loads(rej["line"])
    except Exception:
        return ""
    if e.get("e") in ("Crash", "Hang"):
        return "the loader process died (%s%s) during this behaviour" % (e.get("e"), " signal %s" % e["sig"] if "sig" in e else "")
    if e.get("e") == "Leak":
        return "LeakSanitizer reports memory still allocated and unreachable after this behaviour released everything"
    if e.get("e") == "load" and e.get("ret") == 0:
        evs = [json.loads(x) for x in open(tracefile, errors="replace") if x.startswith('{"e":"load"')]
        for o in evs:
            if o is not e and o["filt"] == e["filt"] and o["flags"] == e["flags"] and o["slot"] != e["slot"] and o["ret"] == 0:
                a, b = o["topos"][o["slot"]], e["topos"][e["slot"]]
                if o["pds"][o["slot"]] != e["pds"][e["slot"]] and a.get("n") and b.get("n"):
                    diff = sorted(k for k in a if a[k] != b.get(k))
                    od = sorted({f for x, y in zip(a["objs"], b["objs"]) for f in x if x[f] != y.get(f)}) if "objs" in diff else []
                    return "two loads with the same key differ: top-level fields %s, object fields %s, objects %d vs %d" % (diff, od, a["n"], b["n"])
    if e.get("e") == "load" and e.get("ret") == 0 and e.get("flags", 0) & 1:
        evs = [json.loads(x) for x in open(tracefile, errors="replace") if x.startswith('{"e":"load"')]
        for o in evs:
            if o["filt"] == e["filt"] and o["flags"] == e["flags"] - 1 and o["ret"] == 0:
                d, a = o["topos"][o["slot"]], e["topos"][e["slot"]]
                if d.get("n") and a.get("n"):
                    osd = lambda t, ty: sorted(x["os"] for x in t["objs"] if x["type"] == ty)
                    return ("INCLUDE_DISALLOWED against the default load: default root cpuset %s nodeset %s, allowed sets with the flag %s %s; "
                            "PUs of the default load missing with the flag %s, NUMA nodes missing %s"
                            % (d["objs"][0]["cs"], d["objs"][0]["ns"], a["tacs"], a["tans"],
                               sorted(set(osd(d, 4)) - set(osd(a, 4))), sorted(set(osd(d, 14)) - set(osd(a, 14)))))
    return ""


# ---------------------------------------------------------------- trace validation that resumes after a rejected behaviour
def validate(ctx, tracefile, nshards, timeout=3000, max_rej=12, heap="3g", quiet=False):
    """like ctx.validate("TraceSnapshot", ...) but a shard is not validated again from its start after a rejection:
    the specification's state is cleared by every Reset event (wf / eq only cache verdicts), so validation resumes
    with the behaviour that follows the rejected one"""
    import concurrent.futures as cf
    module = "TraceSnapshot"
    d = ctx.path("tv-%d-%d" % (os.getpid(), random.randrange(1 << 40)))
    os.makedirs(d)
    for f in os.listdir(vlib.SPEC):
        if f.endswith(".tla"):
            shutil.copy(os.path.join(vlib.SPEC, f), d)
    open(os.path.join(d, module + ".cfg"), "w").write("SPECIFICATION Spec\nPOSTCONDITION Accepted\nCHECK_DEADLOCK FALSE\n")
    shards = vlib.split_trace(tracefile, d, nshards)
    if not quiet:
        vlib.log("[%6.1fs] validating %s (%.1f MB, %d shards) against %s" % (time.time() - ctx.t0, os.path.basename(tracefile),
                                                                           os.path.getsize(tracefile) / 1e6, len(shards), module))

    def one(shard):
        rejs, nacc, nev = [], 0, 0
        lines = [x for x in open(shard, errors="replace").read().split("\n") if x.strip()]
        while lines:
            open(shard, "w").write("\n".join(lines) + "\n")
            meta = shard + ".meta"
            cmd = ["java", "-XX:+UseParallelGC", "-XX:ParallelGCThreads=2", "-Xmx" + heap, vlib.JAVA_OPTS, "-cp", vlib.TLA_CP, "tlc2.TLC", "-noGenerateSpecTE",
                   "-workers", "1", "-metadir", meta, "-config", module + ".cfg", module + ".tla"]
            rc, out = vlib.run(cmd, cwd=d, timeout=timeout, env={"TRACE": shard})
            shutil.rmtree(meta, ignore_errors=True)
            st = vlib.parse_tlc_stats(out)
            if rc == 124:
                raise vlib.Infra("trace validation timed out on " + shard)
            if st["distinct"] == 0 and "states generated" not in out:
                raise vlib.Infra("TLC failed on %s:\n%s" % (shard, out[-3000:]))
            k = st["distinct"] - 1
            if k >= len(lines):
                return rejs, nacc + sum(1 for x in lines if x.startswith('{"e":"Reset"')), nev + len(lines)
            b0 = k
            while b0 > 0 and not lines[b0].startswith('{"e":"Reset"'):
                b0 -= 1
            b1 = k + 1
            while b1 < len(lines) and not lines[b1].startswith('{"e":"Reset"'):
                b1 += 1
            beh = None
            for cand in (lines[k], lines[b0]):
                mm = re.search(r'"beh":(-?\d+)', cand)
                if mm:
                    beh = int(mm.group(1))
                    break
            why = ""
            mm = re.search(r"Error: (.*)", out)
            if mm and "POSTCONDITION" not in mm.group(1).upper():
                why = mm.group(1)[:300]
            rejs.append({"beh": beh, "line": lines[k], "prev": lines[k - 1] if k > b0 else None, "reset": lines[b0], "why": why, "pos": k - b0})
            nacc += sum(1 for x in lines[:b0] if x.startswith('{"e":"Reset"'))
            nev += b0
            lines = lines[b1:]
            if len(rejs) >= max_rej:
                break
        return rejs, nacc, nev

    rejs = []
    with cf.ThreadPoolExecutor(max_workers=vlib.NCPU) as ex:
        for r, nb, ne in ex.map(one, shards):
            rejs += r
            if not quiet:
                ctx.accepted += nb
                ctx.events += ne
    if not os.environ.get("HWV_KEEP"):
        shutil.rmtree(d, ignore_errors=True)
    return rejs


# ---------------------------------------------------------------- main
def run(ctx, replay=None):
    ctx.build_lib()
    exe = ctx.cc("hwv_snapshot.c", "hwv_snapshot")
    os.makedirs(ctx.path("scr"), exist_ok=True)
    # a leak (LeakSanitizer, consulted after every behaviour) is a memory error: logged as a Leak event, which no action accepts
    env = {"HWV_WATCHDOG": "60", "HWV_LEAKCHECK": "1"}

    def replay_fn(text):
        """one behaviour alone in a fresh recorder with full projections; the rejection, if any, comes back with the
        diagnostics in "why" and the event trimmed of its projections"""
        tag = "%d-%d" % (os.getpid(), random.randrange(1 << 40))
        p = ctx.path("replay-%s.beh" % tag)
        text = rebase(ctx, text).replace("option compact 1", "option compact 0")
        text = re.sub(r"(?m)^scratch (\S+)$", "scratch " + ctx.path("scr-" + tag), text)      # replays run in parallel
        open(p, "w").write(text)
        t = p + ".ndjson"
        rc, out = vlib.run([exe, p, t], timeout=1800, env=dict(env, HWLOC_HIDE_ERRORS="2"))
        shutil.rmtree(ctx.path("scr-" + tag), ignore_errors=True)
        if rc != 0:
            raise vlib.Infra("recorder failed rc=%d: %s" % (rc, out[-2000:]))
        check_infra(t)
        rej = validate(ctx, t, nshards=1, quiet=True)
        for r in rej:
            r["why"] = " ".join(x for x in (r.get("why", ""), diag(ctx, r["line"]), explain(t, r)) if x)
            r["line"] = trimmed(r["line"])
            if r.get("prev"):
                r["prev"] = trimmed(r["prev"])
        for f in (p, t):
            if os.path.exists(f):
                os.unlink(f)
        return rej

    if replay:
        rej = replay_fn(open(replay).read())
        for r in rej:
            vlib.log("rejected event:", r["line"][:1500])
            if r.get("why"):
                vlib.log("  why:", r["why"])
            print("VIOLATION property=C18 replay=%s" % replay)
        ctx.cleanup()
        return 1 if rej else 0

    thorough = ctx.tier == "thorough"
    srcs = corpus.extract_snapshots(ctx.path("corpus"))
    if os.environ.get("C18_ONLY"):          # development aid: restrict the run to the snapshots whose id matches
        srcs = [s for s in srcs if re.search(os.environ["C18_ONLY"], s["id"])]
    tables = [make_table(s) for s in srcs]
    tf = ctx.path("tables.ndjson")
    with open(tf, "w") as f:
        for tab, ents, cn in tables:
            f.write(json.dumps(tab) + "\n")
    nsnap = len(srcs)
    base = {"TableFile": tf, "Sel": set(range(1, nsnap + 1)), "Seed": ctx.seed, "SimMode": False, "SimMax": 40,
            "FlagSeqs": {(0, 1)}, "PairMax": 0, "CfgStride": 2, "NKeys": 3, "NSingles": 6, "NRest": 3, "NClasses": 8, "NRClasses": 3}
    hists = []
    if not thorough:
        hists += run_model(ctx, base, "enum")
        sim = dict(base, SimMode=True)
        hists += run_model(ctx, sim, "sim", simulate="num=%d" % (2 * nsnap), depth=16, workers=1)
    else:
        c = dict(base, NKeys=40, NSingles=30, NRest=20, NClasses=40, NRClasses=25, CfgStride=4, FlagSeqs={(0, 1), (896, 897)})
        hists += run_model(ctx, c, "enum")
        c = dict(base, NKeys=0, NSingles=0, NRest=0, NClasses=0, NRClasses=0, PairMax=60, CfgStride=8)
        hists += run_model(ctx, c, "pairs")
        sim = dict(base, SimMode=True, FlagSeqs={(0, 1), (896, 897), (1, 0)})
        hists += run_model(ctx, sim, "sim", simulate="num=%d" % (12 * nsnap), depth=16, workers=1)
    seen, behs = set(), []
    for h in hists:
        key, text = behaviour(ctx, h, srcs, tables)
        if text not in seen:
            seen.add(text)
            behs.append((key, text))
    behs.sort(key=lambda x: x[0])            # by snapshot, the unmodified snapshot first: consecutive projections repeat
    behs = [t for k, t in behs]
    ctx.samples = [behs[0], behs[len(behs) // 2], behs[-1]]
    ctx.extra.update({"snapshots": nsnap, "behaviours": len(behs), "removable_paths": sum(len(t[0]["cand"]) + len(t[0]["rest"]) for t in tables),
                      "classes": sum(len(t[0]["classes"]) for t in tables)})
    bf = ctx.path("behaviours.txt")
    open(bf, "w").write("".join(behs))
    trf = ctx.path("trace.ndjson")
    ctx.record(exe, bf, trf, timeout=3000, parallel=vlib.NCPU, env=env)
    check_infra(trf)
    shutil.rmtree(ctx.path("scr"), ignore_errors=True)
    os.makedirs(ctx.path("scr"), exist_ok=True)
    # a shard is read into memory as a whole, and after a rejection its remainder is read again: keep shards small
    nshards = max(vlib.NCPU, int(os.path.getsize(trf) / 16e6) + 1)
    rejs = validate(ctx, trf, nshards=nshards, max_rej=200)
    os.unlink(trf)
    # every rejected behaviour is run again alone in a fresh recorder (handle_rejections demands that); do these runs in parallel
    import concurrent.futures as cf
    todo = sorted({behs[r["beh"]] for r in rejs if r.get("beh") is not None and 0 <= r["beh"] < len(behs)})
    with cf.ThreadPoolExecutor(max_workers=vlib.NCPU) as ex:
        confirmed = dict(zip(todo, ex.map(replay_fn, todo)))
    ctx.handle_rejections(rejs, behs, lambda text: confirmed[text] if text in confirmed else replay_fn(text))
    if not os.environ.get("HWV_KEEP"):          # 170k hard links and directories: rm is much faster than shutil.rmtree
        vlib.run(["rm", "-rf", ctx.path("corpus"), ctx.path("scr")], timeout=900)
    return ctx.finish(
        rule="tuples (snapshot, fault set, component selection, filter preset, flag words) enumerated by TLC from MC_Snapshot.tla over the path "
             "tables of every bundled Linux snapshot, CPUID dump and combined snapshot: no removal under every configuration; striped single "
             "paths, whole attribute classes, pairs of core paths of the small snapshots (thorough) and simulated sets of up to 40 paths; each tuple "
             "is executed on a hard-linked scratch copy: load twice, XML round trip, per flag word. A behaviour is non-trivial when a load was attempted.",
        assumptions=["the recorder's projection digest (64-bit FNV-1a of the projection text) stands for the projection when the same "
                     "projection occurs again in a behaviour; equal projections always have equal digests",
                     "fault sets are sampled (seeded stripes / simulation) except single and pairwise removals on the small snapshots",
                     "RESTRICT_TO_*BINDING and IS_THISSYSTEM flag words are not driven on snapshots"])
