"""C07 - synthetic descriptions: safe parsing, faithful build, export/import round trip.
Model: spec/Synthetic.tla (relations + constructive build), spec/MC_Synthetic.tla (bounded grammar);
binding: spec/TraceSynthetic.tla, harness/hwv_synthetic.c.  Python only orchestrates: the description text is
rendered by the TLA+ model (Render), checked again by the trace specification, and passed through as hex."""
import os, random, json, binascii, re, concurrent.futures as cf
import vlib

T_NAMES = {13: "GROUP", 1: "PACKAGE", 2: "DIE", 7: "L3", 6: "L2", 5: "L1", 3: "CORE", 14: "NUMANODE", 10: "L1I", 11: "L2I", 12: "L3I"}
FULL_ALPHABET = [13, 1, 2, 7, 6, 5, 3, 14]
ICACHES = [10, 11, 12]
CACHE_T = {5, 6, 7, 10, 11, 12}
FLT_ALPHABET = [13, 1, 6, 10, 3, 14]      # Group, a type above the caches, a data cache, an instruction cache, Core, NUMA
KIND_NAMES = {0: "all", 1: "none", 2: "structure", 3: "important"}


def gen_module(c):
    return ("---- MODULE MC_Syn_gen ----\nEXTENDS MC_Synthetic\n"
            "GAlphabet == {%s}\nGArities == {%s}\nGVariants == {%s}\nGIdxKinds == {%s}\nGPerturbs == {%s}\nGLates == {%s}\n====\n"
            % (", ".join(T_NAMES[t] for t in c["alphabet"]), ", ".join(map(str, c["arities"])), ", ".join(map(str, c["variants"])),
               ", ".join('"%s"' % k for k in c["idx"]), ", ".join('"%s"' % k for k in c["perturbs"]), ", ".join("TRUE" if x else "FALSE" for x in c["lates"])))


def cfg_text(c):
    return ("SPECIFICATION Spec\nCONSTANTS\n  Family = \"%s\"\n  Alphabet <- GAlphabet\n  MaxLv = %d\n  MinLv = %d\n  Arities <- GArities\n  MaxPU = %d\n"
            "  MaxGroups = %d\n  MaxAtt = %d\n  Style = %d\n  Deep = %d\n  Variants <- GVariants\n  IdxKinds <- GIdxKinds\n  Perturbs <- GPerturbs\n"
            "  PermLv = %d\n  MaxFlt = %d\n  Lates <- GLates\n  NStripes = %d\n  Stripe = %d\nINVARIANTS DescInv BuildInv ExportInv Emit\nCHECK_DEADLOCK FALSE\n"
            % (c["family"], c["maxlv"], c["minlv"], c["maxpu"], c["maxgroups"], c["maxatt"], c["style"], c["deep"], c["permlv"], c["maxflt"], c["nstripes"], c["stripe"]))


def job(tag, family="typed", alphabet=FULL_ALPHABET, maxlv=2, minlv=0, arities=(1, 2), maxpu=8, maxgroups=1, maxatt=2, style=1, deep=0,
        variants=(0, 3), idx=("none", "list", "types", "loops"), perturbs=("none", "cpu", "node"), permlv=0, nstripes=1, stripe=0, maxflt=0, lates=(False,), keep=False,
        simulate=None, depth=None, workers=4, timeout=1500):
    return dict(tag=tag, family=family, alphabet=list(alphabet), maxlv=maxlv, minlv=minlv, arities=list(arities), maxpu=maxpu, maxgroups=maxgroups,
                maxatt=maxatt, style=style, deep=deep, variants=list(variants), idx=list(idx), perturbs=list(perturbs), permlv=permlv, maxflt=maxflt, lates=list(lates), keep=keep,
                nstripes=nstripes, stripe=stripe, simulate=simulate, depth=depth, workers=workers, timeout=timeout)


def run_job(ctx, c):
    out, st = ctx.tlc_mc("MC_Syn_gen", cfg_text(c), tag=c["tag"], workers=c["workers"], timeout=c["timeout"], simulate=c["simulate"], depth=c["depth"],
                         extra_modules=[("MC_Syn_gen.tla", gen_module(c))], heap="6g")
    if st["error"] or (st["rc"] != 0 and not c["simulate"]):
        raise vlib.Infra("model check of MC_Synthetic (%s) failed (model-level, not a violation): %s\n%s" % (c["tag"], st["error"], out[-2500:]))
    res = []
    for h in vlib.tlc_printed(out, "BEH"):
        h["deep"] = c["deep"]
        h["keep"] = c["keep"] or c["deep"] > 0
        res.append(h)
    return res


def hexs(b):
    return binascii.hexlify(b).decode()


def has_cache(d):
    lv = d["lv"]
    if all(L["T"] == -1 for L in lv):
        return len(lv) >= 4
    return any(L["T"] in CACHE_T for L in lv)


def features(items):
    """which parts of the model the emitted behaviours exercise (non-vacuity of the actions), for the evidence file"""
    f = {}

    def inc(k):
        f[k] = f.get(k, 0) + 1
    for it in items:
        d = it["d"]
        lv = d["lv"]
        inc("untyped" if all(L["T"] == -1 for L in lv) else "typed")
        if it.get("deep"):
            inc("deep_%d_levels" % len(lv))
        if d["ratt"] or any(L["att"] for L in lv):
            inc("attached_numa")
            if sum(1 for L in lv if L["att"]) + (1 if d["ratt"] else 0) > 1:
                inc("attached_at_several_depths")
        elif any(L["T"] == 14 for L in lv):
            inc("numa_level")
        else:
            inc("implicit_numa")
        inc("pu_idx_" + lv[-1]["idx"]["k"])
        for L in lv[:-1]:
            if L["idx"]["k"] != "none":
                inc("numa_level_idx_" + L["idx"]["k"])
        if any(a["idx"]["k"] != "none" for a in d["ratt"] + [a for L in lv for a in L["att"]]):
            inc("attached_idx_list")
        if d["rattr"] or any(L["size"] for L in lv):
            inc("explicit_sizes")
        if any(L["T"] == 13 for L in lv):
            inc("group_level")
        if any(L["T"] == 2 for L in lv):
            inc("die_level")
        if has_cache(d):
            inc("cache_level")
        inc("perturb_" + (it["pert"][0] if it["pert"] else "none"))
        for T, k in it.get("flt", []):
            hit = [L for L in lv[:-1] if L["T"] == T]
            inc("filter_%s_%s" % ("group" if T == 13 else "icache" if T in ICACHES else "refused" if T in (4, 14) or (T, k) == (13, 0) else "level", KIND_NAMES[k]))
            if k == 1 and any(L["att"] for L in hit):
                inc("filter_none_on_level_with_attached_numa")
        if not it.get("flt") and any(L["T"] in ICACHES and L["att"] for L in lv):
            inc("default_filter_icache_level_with_attached_numa")
        if it.get("late"):
            inc("filter_after_set_synthetic")
    return f


def model_behaviours(item, k):
    """behaviour texts for one model-emitted description; descriptions with cache levels get a dedicated behaviour for the
    NO_EXTENDED_TYPES flag words (known finding C07-noext-cache: the generic 'Cache' item is not parsed back)"""
    d, text, pert = item["d"], item["text"], item["pert"]
    deep = item.get("deep", 0) > 0
    dj = json.dumps(d, separators=(",", ":"))
    fl = ["filter %d %d" % (T, kd) for T, kd in item.get("flt", [])]
    setl = ["set x" + hexs(text.encode("latin1"))]
    head = ["reset", "d " + dj] + (setl + fl if item.get("late") else fl + setl)
    allset = set(range(16)) if deep else {(k * 5 + j * 3) % 16 for j in range(4)}
    maxsizes = 48 if deep else 0

    def exp(flags, reload=1):
        return "export %d %d " % (maxsizes, reload) + " ".join("%d:%d" % (f, 1 if f in allset else 0) for f in flags)
    per = ["perturb %s %d" % (pert[0], pert[1])] if pert else []
    if has_cache(d):
        b1 = head + ["load 1"] + per + [exp(list(range(0, 16, 2)) + [16]), "end"]
        # exports only with the NO_EXTENDED_TYPES words; item["noext"]: a dedicated behaviour that also reloads them
        b2 = head + ["load 0"] + per + [exp(list(range(1, 16, 2)), 1 if item.get("noext") else 0), "end"]
        return ["\n".join(b1) + "\n", "\n".join(b2) + "\n"]
    return ["\n".join(head + ["load 1"] + per + [exp(list(range(16)) + [16]), "end"]) + "\n"]


# ---------------------------------------------------------------- hostile strings
SEEDS = [
    "pack:2 node:1 l2:1 core:2 pu:1", "2 3 4 5 6", "Package:2 NUMANode:3 L2Cache:4 Core:5 PU:6", "package:1 group:4 [numa] [numa] core:16 pu:4",
    "L2iCache:2(size=32kB) pu:2", "NUMANode:3(memory=16MB) pu:2", "core:2 PU:2(indexes=0,2,1,3)", "node:2 core:2 PU:2(indexes=numa:core)",
    "pack:2(indexes=3,5) numa:2(memory=256GiB indexes=pack) l3u:1(size=20mib) l2:2 l1i:1(size=16kiB) l1dcache:2 core:1 pu:2(indexes=l2)",
    "pack:2 core:2 pu:2(indexes=0,4,2,6,1,5,3,7)", "pack:2 [numa(memory=1GiB)] [numa(memory=1MiB)] core:2 [numa(indexes=8,7,5,6,4,3,1,2)] pu:4",
    "(memory=1GB) pack:2 pu:2", "[numa(memory=1GB memorysidecachesize=1MB)] pu:2", "node:2(memorysidecachesize=4kB) pu:2", "pack:2 core:2 pu:2(indexes=4*2:2*2:1*2)",
    "group:2 group:2 pu:2", "Tile:2 Module:2 pu:1", "Socket:2 Cache:1 Core:2 PU:1", "pu:1", "1", "node:4(indexes=3,2,1,0) pu:2",
]
# inputs that crashed the tree this check was first run on (fixed since); kept as regression probes
REGRESSIONS = [
    "group:1 " * 125 + "pu:2", "group:1 " * 124 + "pu:2", "1 " * 125 + "2", "pack:2 pu:2(indexes=die)", "pack:2(indexes=core) core:2 pu:1",
    "pu:2(indexes=1*65536:1*65536:1*65536:1*65536)", "group:65536 group:65536 group:65536 core:65536 pu:1(indexes=core)",
    "memcache:1 pu:2", "pack:2 memcache:1 pu:2", "node:2(memorysidecachesize=1MB) pu:2", "pack:2 [numa(memorysidecachesize=1MB)] pu:2",
    "node:2(indexes=0,0) pu:2", "pack:2 [numa(indexes=0,0)] pu:2", "pack:2 [numa] [numa(indexes=1,2,3,1)] pu:1", "pu:3(indexes=0,1,1)",
    "l3:3 l3:3 pu:1", "l2:2 core:1 l2:2 pu:1", "l1:2 l1d:2 pu:1", "l3:2 l3u:1 pu:2",
    "node:2(indexes=pu) pu:2", "pu:2(indexes=pu)", "pu:2(indexes=machine)", "pu:4(indexes=2*2:1*4)", "pu:4(indexes=0*2)", "pu:4(indexes=2*0)",
]
OVERFLOW_PROBES = [      # set only (never loaded)
    "pu:4294967295", "pu:4294967296", "pu:99999999999999999999", "pack:65536 core:65536 pu:65536", "65536 65536 65536 65536 65536",
    "pack:4294967295 core:4294967295 pu:4294967295", "group:65536 group:65536 group:65536 group:65536 pu:1",
    "pu:1(indexes=" + ",".join(str(i) for i in range(3000)) + ")", "pack:1(memory=99999999999999999999TB) pu:1", "l2:1(size=18446744073709551615TiB) pu:1",
    "node:1(memory=0x7fffffffffffffff) pu:1", "pu:0", "pack:0 pu:1", "pu:-1", "pu:+2", "pu: 2", "pu:0x2", "pu:02",
]
ALPHA = "()[]: ,=*0123456789abcdeglmnoprstuxPLNCGM\n\t-+."
NUMS = ["0", "1", "2", "3", "7", "16", "255", "4096", "65536", "4294967295", "4294967296", "99999999999999999999", "-1", "0x10", "1e3", ""]
ATTRS = ["(size=32kB)", "(memory=1GB)", "(indexes=1,0)", "(indexes=0,0)", "(indexes=5)", "(indexes=)", "(indexes=,)", "(indexes=1*2)", "(indexes=2*1:1*2)",
         "(indexes=core)", "(indexes=core:core)", "(indexes=pack:numa:core)", "(indexes=pu)", "(indexes=machine)", "(indexes=misc)", "(indexes=group0)",
         "(indexes=1*0)", "(indexes=0*1)", "(indexes=1*-1)", "(indexes=4294967296*1)", "(indexes=1*4294967296)", "(indexes=1*2:)", "(indexes=:)", "(indexes=a)",
         "(memorysidecachesize=1MB)", "(size=)", "(memory=)", "(memory=-1)", "(size=1XB)", "(foo=bar)", "( )", "()", "(", ")", "(size=1kB", "(memory=1GB indexes=1,0)",
         "(indexes=1,0 indexes=0,1)", "(size=1kB,memory=2)", "(indexes=0x1,0)", "(indexes= 1,0)", "(indexes=1,0 )", "(indexes=1, 0)"]
ITEMS = ["[numa]", "[numa", "numa]", "[]", "[pack]", "[pu]", "[numa(memory=1GB)]", "[numa(indexes=1,0)]", "[numa(]", "[numa)]", "[numa()]", "[[numa]]", "[numa] [numa] [numa]",
         "[mem]", "[memcache]", "machine:1", "misc:1", "bridge:1", "pci:1", "os:1", "l1i:1", "l2i:2", "l3i:1", "l4:1", "l5:1", "l6:1", "memcache:1", "pu:2", "pu:1", "core:2", "pack:2",
         "die:2", "node:2", "group:2", "group0:2", "group3:2", "gr:1", "x:2", ":2", "2:", "pack", "pack:", "pack:2:2", "pack::2", "cache:2", "Tile:2", "Module:1", "2", "1"]


def num_product(s):
    """upper bound of the product of the arities in a string (every digit run counts, hex/octal prefixes read generously)"""
    p = 1
    for m in re.finditer(rb"0[xX][0-9a-fA-F]+|[0-9]+", s):
        t = m.group(0)
        try:
            v = int(t, 16) if t[:2].lower() == b"0x" else int(t)
        except ValueError:
            v = 1 << 62
        # numbers inside an attribute list are sizes or indexes, but stay conservative: only skip what follows '='
        if v > 1:
            p *= v
        if p > 1 << 40:
            break
    return p


def arity_product(s):
    """upper bound of the product of the numbers that can be arities: digit runs outside attribute lists.  An attribute
    list is recognised the way the parser does: "(" right after a number, inside "[...]" or at the very beginning, up to
    the first ")"; anything else (an unclosed or misplaced parenthesis) hides nothing."""
    out, i, n, inbr = bytearray(), 0, len(s), False
    while i < n:
        ch = s[i]
        if ch == 91:
            inbr = True
        elif ch == 93:
            inbr = False
        if ch == 40 and (i == 0 or inbr or 48 <= s[i - 1] <= 57):
            j = s.find(b")", i)
            if j >= 0:
                out += b" "
                i = j + 1
                continue
        out.append(ch)
        i += 1
    return num_product(bytes(out))


def mutate(rng, s):
    b = bytearray(s)
    for _ in range(rng.choice([1, 1, 1, 2, 3])):
        op = rng.randrange(12)
        pos = rng.randrange(len(b) + 1)
        if op == 0 and b:
            del b[rng.randrange(len(b))]
        elif op == 1:
            b[pos:pos] = rng.choice(ALPHA).encode()
        elif op == 2 and b:
            b[rng.randrange(len(b))] = ord(rng.choice(ALPHA))
        elif op == 3:
            ms = list(re.finditer(rb"[0-9]+", bytes(b)))
            if ms:
                m = rng.choice(ms)
                b[m.start():m.end()] = rng.choice(NUMS).encode()
        elif op == 4:
            b[pos:pos] = rng.choice(ATTRS).encode()
        elif op == 5:
            b[pos:pos] = (" " + rng.choice(ITEMS) + " ").encode()
        elif op == 6 and b:
            del b[pos:]
        elif op == 7 and len(b) > 2:
            i, j = sorted(rng.sample(range(len(b)), 2))
            b[pos:pos] = b[i:j]
        elif op == 8:
            toks = bytes(b).split(b" ")
            rng.shuffle(toks)
            b = bytearray(b" ".join(toks))
        elif op == 9:
            b[pos:pos] = bytes(rng.choice([rng.randrange(1, 256) for _ in range(3)] + [0x80, 0xff, 0xe0, 0x7f, 1]) for _ in range(rng.randrange(1, 4)))
        elif op == 10:
            b = bytearray(bytes(b).swapcase())
        elif op == 11:
            ms = list(re.finditer(rb"\([^)]*\)", bytes(b)))
            if ms:
                m = rng.choice(ms)
                b[m.start():m.end()] = rng.choice(ATTRS).encode()
    return bytes(b).replace(b"\0", b"0")


def hostile_strings(rng, n, model_texts):
    pool = [s.encode() for s in SEEDS] + [t.encode("latin1") for t in model_texts]
    res = [s.encode() for s in REGRESSIONS + OVERFLOW_PROBES]
    res += [b"", b" ", b"\n", b"(", b")", b"[", b"]", b":", b"pu", b"pu:", b"()", b"[]", b"(()", b"[numa", b"(" * 2000, b"[" * 2000, b"[numa]" * 600 + b" pu:1",
            b"pack:1 " * 300 + b"pu:1", b"1 " * 200, b"pu:1" + b" " * 5000, b"pu:1(" + b"x " * 3000 + b")", b"pu:2(indexes=" + b"1*1:" * 500 + b"1*2)",
            b"pu:2(indexes=" + b"core:" * 300 + b"core)", b"l1:1 l1:1 pu:1", b"pack:1 pack:1 pu:1", b"core:1 core:1 pu:1", b"die:1 die:1 pu:1", b"node:1 node:1 pu:1",
            b"node:2 [numa] pu:1", b"pu:2 pu:2", b"pu:2 core:2", b"pu:2 [numa]", b"2 pack:2 2", bytes(range(1, 256)), bytes(range(255, 0, -1))]
    # every item x every attribute in a small frame
    for it in ITEMS:
        res.append(("%s pu:2" % it).encode())
        res.append(("pack:2 %s pu:2" % it).encode())
    for at in ATTRS:
        res.append(("pack:2 pu:2%s" % at).encode())
        res.append(("node:2%s pu:2" % at).encode())
        res.append(("pack:2 [numa%s] pu:2" % at).encode())
        res.append(("%s pack:2 pu:2" % at).encode())
        res.append(("l2:2%s core:2 pu:1" % at).encode())
    while len(res) < n:
        s = rng.choice(pool)
        for _ in range(rng.choice([1, 1, 2, 4])):
            s = mutate(rng, s)
        res.append(s)
    # drop duplicates, keep order; an index attribute on a level of billions of objects makes the parser allocate and fill
    # an array of that size (tens of GB, minutes): resource exhaustion proportional to the described machine, not looked at
    seen, out = set(), []
    for s in res:
        if b"indexes" in s.lower() and arity_product(s) > 10000000:
            continue
        if s not in seen:
            seen.add(s)
            out.append(s)
    return out[:max(n, 0)] if n else out


def max_number(s):
    m = 0
    for x in re.finditer(rb"0[xX][0-9a-fA-F]+|[0-9]+", s):
        t = x.group(0)
        m = max(m, int(t, 16) if t[:2].lower() == b"0x" else int(t))
    return m


def hostile_behaviour(s):
    lines = ["reset", "set x" + hexs(s)]
    prod = arity_product(s)
    if max_number(s) > 1000000:
        prod = 1 << 40       # an os_index of 4e9 makes every cpuset a 512 MB bitmap: parse only
    # upper bound of the number of objects: every level and every attached item may exist once per object of the widest level
    est = prod * (s.count(b"[") + s.count(b":") + len(re.findall(rb"(?:^|[ \n])[0-9]", s)) + 2)
    if est <= 300:
        lines += ["load 1", "export 40 1 0:1 2:0 4:1 6:0 8:0 10:0 12:0 14:1 16:0"]
    elif est <= 700:
        lines += ["load 1"]
    elif est <= 12000:
        lines += ["load 0"]          # looked at for crashes only: WellFormed on thousands of objects is too slow for TLC
    lines.append("end")
    return "\n".join(lines) + "\n"


# ---------------------------------------------------------------- jobs
def jobs_for(tier, seed):
    """TLC jobs of a tier.  BFS jobs enumerate the whole bounded grammar (every state is checked against the model
    invariants) and emit the stripe selected by the seed; simulation jobs sample a larger grammar."""
    style = seed % 3 + 1
    J = []
    deep_kw = dict(arities=(1, 2), maxpu=4, maxatt=1, perturbs=("none",))
    flt_kw = dict(alphabet=FULL_ALPHABET + ICACHES, maxflt=2, lates=(False, True))
    if tier == "quick":
        J.append(job("core1", maxlv=1, arities=(1, 2, 3), maxpu=9, maxatt=2, style=style, permlv=1, nstripes=8, stripe=seed % 8, workers=4))
        J.append(job("sim2", maxlv=2, minlv=1, arities=(1, 2, 3), maxpu=12, maxatt=3, style=style % 3 + 1, variants=(0, 1, 2, 3), workers=2, simulate="num=350", depth=14, alphabet=FULL_ALPHABET + ICACHES))
        J.append(job("sim3", maxlv=3, minlv=2, arities=(1, 2, 3), maxpu=12, maxatt=3, style=(style + 1) % 3 + 1, variants=(0, 1, 2, 3), workers=2, simulate="num=400", depth=14, alphabet=FULL_ALPHABET + ICACHES))
        J.append(job("simf", maxlv=3, minlv=1, arities=(1, 2, 3), maxpu=12, maxatt=3, style=style, variants=(0, 1, 2, 3), workers=1, simulate="num=150", depth=14, **flt_kw))
        # every filter class of every two-level description over one representative of each kind of level type
        J.append(job("flt2", maxlv=2, arities=(1, 2), maxpu=4, maxatt=1, style=style, idx=("none",), perturbs=("none",), alphabet=FLT_ALPHABET, maxflt=1, keep=True,
                     nstripes=6, stripe=seed % 6, workers=2))
        J.append(job("simu", family="untyped", maxlv=4, minlv=1, arities=(1, 2, 3), maxpu=24, maxatt=2, variants=(0,), idx=("none", "list", "loops"),
                     perturbs=("none", "cpu"), workers=1, simulate="num=200", depth=12))
        for k in (124, 125, 126):
            J.append(job("deep%d" % k, maxlv=1, style=style, deep=k, variants=(0,), idx=("none", "list"), alphabet=[1, 14], workers=1, **deep_kw))
        J.append(job("deepu", family="untyped", maxlv=1, deep=124, variants=(0,), idx=("none",), workers=1, **deep_kw))
    else:
        J.append(job("core1", maxlv=1, arities=(1, 2, 3), maxpu=9, maxatt=2, style=style, permlv=1, workers=4))
        J.append(job("typed2", maxlv=2, arities=(1, 2, 3), maxpu=9, maxatt=2, style=style % 3 + 1, permlv=0, nstripes=6, stripe=seed % 6, workers=6, timeout=3000))
        J.append(job("typed3", maxlv=3, arities=(1, 2), maxpu=8, maxatt=2, style=(style + 1) % 3 + 1, idx=("none", "types", "loops"), perturbs=("none",),
                     alphabet=[13, 1, 6, 3, 14], nstripes=8, stripe=seed % 8, workers=6, timeout=3000))
        J.append(job("untyped", family="untyped", maxlv=4, arities=(1, 2), maxpu=16, maxatt=1, variants=(0,), idx=("none", "list", "loops"), perturbs=("none",), workers=2))
        J.append(job("sim3", maxlv=3, minlv=2, arities=(1, 2, 3), maxpu=18, maxatt=3, style=style, variants=(0, 1, 2, 3), workers=4, simulate="num=1000", depth=14, alphabet=FULL_ALPHABET + ICACHES))
        J.append(job("sim4", maxlv=4, minlv=3, arities=(1, 2, 3), maxpu=24, maxatt=3, maxgroups=2, style=style % 3 + 1, variants=(0, 1, 2, 3), workers=4, simulate="num=500", depth=16, alphabet=FULL_ALPHABET + ICACHES))
        J.append(job("simf", maxlv=3, minlv=1, arities=(1, 2, 3), maxpu=18, maxatt=3, style=style, variants=(0, 1, 2, 3), workers=2, simulate="num=600", depth=14, **flt_kw))
        J.append(job("flt2", maxlv=2, arities=(1, 2), maxpu=4, maxatt=2, style=style, idx=("none", "list"), perturbs=("none",), alphabet=FLT_ALPHABET + [2, 12], maxflt=1,
                     lates=(False, True), keep=True, workers=4, timeout=3000))
        J.append(job("simu", family="untyped", maxlv=4, minlv=1, arities=(1, 2, 3), maxpu=24, maxatt=2, variants=(0,), idx=("none", "list", "loops"),
                     perturbs=("none", "cpu"), workers=2, simulate="num=500", depth=12))
        for k in range(120, 130):
            J.append(job("deep%d" % k, maxlv=1, style=(k % 3) + 1, deep=k, variants=(0, 3), idx=("none", "list", "loops"), alphabet=[13, 1, 14], workers=1, **deep_kw))
        for k in (124, 125, 126):
            J.append(job("deepb%d" % k, maxlv=2, style=(k % 3) + 1, deep=k, variants=(0,), idx=("none", "types"), alphabet=[1, 14], workers=2, **deep_kw))
            J.append(job("deepu%d" % k, family="untyped", maxlv=2, deep=k, variants=(0,), idx=("none",), workers=1, **deep_kw))
    J.sort(key=lambda c: 0 if c["deep"] else 1)      # the boundary jobs are the slowest per state: start them first
    return J


def run(ctx, replay=None):
    ctx.build_lib()
    exe = ctx.cc("hwv_synthetic.c", "hwv_synthetic")
    # fill the whole heap block of malloc so that a read of never-written backend data is not accidentally zero
    renv = {"ASAN_OPTIONS": "max_malloc_fill_size=1048576"}

    def replay_fn(text):
        p = ctx.path("replay-%d.beh" % random.randrange(1 << 30))
        open(p, "w").write(text)
        t = p + ".ndjson"
        ctx.record(exe, p, t, env=renv)
        return ctx.validate("TraceSynthetic", t, nshards=1)

    if replay:
        rej = replay_fn(open(replay).read())
        for r in rej:
            vlib.log("rejected event:", r["line"][:1500])
            print("VIOLATION property=C07 replay=%s" % replay)
        ctx.cleanup()
        return 1 if rej else 0

    thorough = ctx.tier == "thorough"
    rng = random.Random(ctx.seed)
    J = jobs_for(ctx.tier, ctx.seed)
    items = []
    with cf.ThreadPoolExecutor(max_workers=5) as ex:
        for res in ex.map(lambda c: run_job(ctx, c), J):
            items += res
    if not items:
        raise vlib.Infra("the model emitted no behaviour")
    # the model families overlap (the same description may come from two jobs): replay each once
    seen, uniq = set(), []
    for it in items:
        key = (it["text"], json.dumps(it["pert"]), json.dumps(it.get("flt", [])), it.get("late", False))
        if key not in seen:
            seen.add(key)
            uniq.append(it)
    items = uniq
    cap = 50000 if thorough else 3700
    if len(items) > cap:
        deep = [it for it in items if it.get("keep")]
        rest = [it for it in items if not it.get("keep")]
        rng.shuffle(rest)
        items = deep + rest[:max(0, cap - len(deep))]
        ctx.notes.append("model behaviours capped at %d (seeded sample of the striped enumeration; the boundary family is kept whole)" % cap)
    # known finding C07-noext-cache is looked at in a few dedicated behaviours only (each one is rejected and replayed)
    withcache = [it for it in items if has_cache(it["d"]) and not it["pert"]]
    for it in rng.sample(withcache, min(len(withcache), 16 if thorough else 4)):
        it["noext"] = True
    behs = []
    for k, it in enumerate(items):
        behs += model_behaviours(it, k)
    n_model = len(behs)
    hs = hostile_strings(rng, 12000 if thorough else 2200, [it["text"] for it in rng.sample(items, min(len(items), 400))])
    for s in hs:
        behs.append(hostile_behaviour(s))
    ctx.samples = [behs[0], behs[n_model // 2], behs[n_model - 1], behs[n_model + len(hs) // 2], behs[-1]]
    bf = ctx.path("behaviours.txt")
    open(bf, "w").write("".join(behs))
    tf = ctx.path("trace.ndjson")
    ctx.record(exe, bf, tf, timeout=3000, env=renv, parallel=vlib.NCPU)
    rejs = ctx.validate("TraceSynthetic", tf, nshards=64 if thorough else 32, timeout=3000, max_rej=3)
    if len(rejs) > 16:
        # every rejection is replayed in a fresh process: confirm a sample, one per kind of rejected event first
        ctx.notes.append("%d behaviours were rejected; 16 of them were replayed and reported" % len(rejs))
        rejs.sort(key=lambda r: (r["line"][:40], r["beh"]))
        step = len(rejs) / 16.0
        rejs = [rejs[int(i * step)] for i in range(16)]
    ctx.handle_rejections(rejs, behs, replay_fn)
    return ctx.finish(
        rule="descriptions = every word of the bounded grammar of MC_Synthetic.tla (levels over Group/Package/Die/L3/L2/L1/Core/NUMA + PU, arities, attached NUMA "
             "nodes, sizes, explicit / type-named / step*nb index specifications, untyped levels) enumerated by TLC (BFS; stripes in the quick tier), the 128-level "
             "boundary family, and the type-filter family (instruction-cache levels; per level type of the description every set_type_filter kind that differs "
             "from the default, before or after set_synthetic, pairs and refused calls: what is attached to an ignored level must still be built), each rendered by the model, loaded for real, optionally made asymmetric by a restrict, exported with the 16 flag words (every buffer "
             "length for a rotating share of them), reloaded and re-exported; plus seeded hostile strings (mutations, brackets, huge numbers, bytes). "
             "A behaviour is non-trivial when set_synthetic was called.",
        assumptions=["type filters: defaults or set_type_filter on the level types of the description; Groups are never ignored (where hwloc hangs the memory of a NUMA level "
                     "without Groups is not documented), memory-side caches stay filtered, untyped descriptions are loaded with default filters; the reload topology gets the same filters",
                     "level types appear in the conventional order Package, Die, L3, L2, L1, Core (hwloc orders identical objects by type, not by position)",
                     "the order convention of an explicit index list on NUMA nodes attached at several depths is not documented: only the set of indexes is demanded there",
                     "hostile strings that may describe more than 12000 objects, or that contain a number above 10^6 (a 512 MB cpuset per object), are parsed but not loaded; between 700 and 12000 objects the load is only watched for crashes"],
        exhaustive=False,
        extra={"model_behaviours": n_model, "hostile_strings": len(hs), "descriptions": len(items), "features": features(items)})
