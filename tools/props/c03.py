"""C03 - bitmap operations implement exact finite/cofinite set semantics.
Model: spec/Bitmap.tla, BitmapOps.tla, MC_Bitmap.tla; binding: spec/TraceBitmap.tla, harness/hwv_bitmap.c"""
import os, random, json
import vlib

QMAP = ([0, 1, 63, 64, 65], [0, 62, 63, 64, 127])
# three words
TMAP = ([0, 1, 63, 64, 65, 128, 129], [0, 62, 63, 64, 127, 128, 191])
# preallocation boundary (512 bits = 8 words preallocated)
PMAP = ([0, 1, 64, 448, 511, 512, 513], [0, 63, 447, 510, 511, 512, 575])
# 32-bit halves
HMAP = ([0, 1, 31, 32, 33, 63, 64, 65, 66], [0, 30, 31, 32, 62, 63, 64, 65, 127])


def tla_seq(xs):
    return "<<" + ", ".join(str(x) for x in xs) + ">>"


def gen_module(name, m):
    return ("---- MODULE %s ----\nEXTENDS MC_Bitmap\nGLo == %s\nGHi == %s\n====\n" % (name, tla_seq(m[0]), tla_seq(m[1])))


def cfg(R, nstripes, stripe, simlen, bfs):
    inv = "TypeOK WordAligned Consistent EmitState" if bfs else "TypeOK EmitSim"
    s = ("SPECIFICATION Spec\nCONSTANTS\n  Lo <- GLo\n  Hi <- GHi\n  R = %d\n  NStripes = %d\n  Stripe = %d\n  SimLen = %d\n"
         "VIEW View\nINVARIANTS %s\nCHECK_DEADLOCK FALSE\n" % (R, nstripes, stripe, simlen, inv))
    if bfs:
        s += "ACTION_CONSTRAINT EmitEdge\n"
    return s


def random_map(rng):
    """block map with cut points biased to word / preallocation boundaries, singletons at most starts"""
    pool = [1, 2, 31, 32, 33, 63, 64, 65, 127, 128, 129, 191, 192, 255, 256, 447, 448, 510, 511, 512, 513, 514, 575, 576,
            1023, 1024, 1025, 4095, 4096, 65535, 65536, 65537, 1 << 20]
    cuts = set()
    n = rng.randint(2, 4)
    while len(cuts) < n:
        c = rng.choice(pool) if rng.random() < 0.8 else rng.randint(1, 1 << 20)
        cuts.add(c)
    starts = {0}
    for c in cuts:
        starts.add(c)
        if rng.random() < 0.7:
            starts.add(c + 1)      # makes {c} a singleton
    starts = sorted(starts)
    # tail must start on a word boundary so that MaxCnt is meaningful
    last = starts[-1]
    tail = ((last // 64) + 1) * 64
    lo = starts
    hi = [s - 1 for s in starts[1:]] + [tail - 1]
    return (lo, hi)


def op_line(o, m):
    name, d, a, b, x, y, bl = o
    ranges = [(m[0][p - 1], m[1][p - 1]) for p in sorted(bl)]
    # merge adjacent ranges
    mr = []
    for lo, hi in ranges:
        if mr and mr[-1][1] + 1 == lo:
            mr[-1] = (mr[-1][0], hi)
        else:
            mr.append((lo, hi))
    return "op %s %d %d %d %d %d %d %s" % (name, d, a, b, x, y, len(mr), " ".join("%d %d" % r for r in mr))


def beh_text(hist, m, R, battery_every=0, final_battery=True):
    lines = ["reset %d %d %s" % (R, len(m[0]), " ".join("%d %d" % (l, h) for l, h in zip(*m)))]
    for i, o in enumerate(hist):
        lines.append(op_line(o, m))
        if battery_every and (i + 1) % battery_every == 0 and i + 1 < len(hist):
            lines.append("battery")
    if final_battery:
        lines.append("battery")
    return "\n".join(lines) + "\n"


def run(ctx, replay=None):
    ctx.build_lib()
    exe = ctx.cc("hwv_bitmap.c", "hwv_bitmap")

    def replay_fn(text):
        p = ctx.path("replay-%d.beh" % random.randrange(1 << 30))
        open(p, "w").write(text)
        t = p + ".ndjson"
        ctx.record(exe, p, t)
        return ctx.validate("TraceBitmap", t, nshards=1)

    if replay:
        rej = replay_fn(open(replay).read())
        for r in rej:
            vlib.log("rejected event:", r["line"][:1500])
            print("VIOLATION property=C03 replay=%s" % replay)
        ctx.cleanup()
        return 1 if rej else 0

    thorough = ctx.tier == "thorough"
    rng = random.Random(ctx.seed)
    behs = []

    # (1) exhaustive BFS over the quick map (two words): one behaviour per state, striped edges
    nstripes = 4 if thorough else 64
    jobs = [("q", QMAP, 2, nstripes)]
    if thorough:
        jobs.append(("t", TMAP, 2, 64))
    for tag, m, R, ns in jobs:
        for stripe in ([ctx.seed % ns] if not thorough or tag == "t" else range(ns)):
            out, st = ctx.tlc_mc("MC_Bitmap_gen", cfg(R, ns, stripe, 0, True), tag="bfs_%s_%d" % (tag, stripe),
                                 extra_modules=[("MC_Bitmap_gen.tla", gen_module("MC_Bitmap_gen", m))], timeout=3000)
            if st["error"] or st["rc"] != 0:
                raise vlib.Infra("model check of MC_Bitmap failed (model-level, not a violation): %s\n%s" % (st["error"], out[-1500:]))
            if stripe == (ctx.seed % ns if not thorough or tag == "t" else 0):
                for h in vlib.tlc_printed(out, "STATE"):
                    behs.append(beh_text(h, m, R))
            for h in vlib.tlc_printed(out, "EDGE"):
                behs.append(beh_text(h, m, R, final_battery=False))

    # (2) simulation over boundary maps and seeded random maps, three registers
    maps = [("p", PMAP), ("h", HMAP), ("t", TMAP)] + [("r%d" % i, random_map(rng)) for i in range(12 if thorough else 4)]
    num = 400 if thorough else 60
    for tag, m in maps:
        out, st = ctx.tlc_mc("MC_Bitmap_gen", cfg(3, 1, 0, 12, False), tag="sim_" + tag, simulate="num=%d" % num, depth=13,
                             extra_modules=[("MC_Bitmap_gen.tla", gen_module("MC_Bitmap_gen", m))], timeout=600, workers=4)
        if st["error"]:
            raise vlib.Infra("simulation of MC_Bitmap failed: %s\n%s" % (st["error"], out[-1500:]))
        for h in vlib.tlc_printed(out, "SIM"):
            behs.append(beh_text(h, m, 3, battery_every=4))

    ctx.samples = [behs[0], behs[len(behs) // 2], behs[-1]]
    bf = ctx.path("behaviours.txt")
    open(bf, "w").write("".join(behs))
    tf = ctx.path("trace.ndjson")
    ctx.record(exe, bf, tf)
    # the number of shards follows the size of the trace, not the load of the machine (a shard of more than ~60 MB takes TLC too long)
    rejs = ctx.validate("TraceBitmap", tf, nshards=max(16, os.path.getsize(tf) // (48 << 20) + 1), timeout=3600)
    ctx.handle_rejections(rejs, behs, replay_fn)
    return ctx.finish(
        rule="behaviours = one per distinct (set,word-count) state pair of the exhaustive two-word register model (with the full query battery), "
             "one per striped state-graph edge, plus TLC-simulated histories over boundary and seeded random block maps; "
             "a behaviour is non-trivial when it contains at least one modifying call; each was replayed on the rebuilt library and validated by TLC",
        assumptions=["indexes above 2^20 and ENOMEM paths are not explored",
                     "word-count steering (cnt) is a model of bitmap.c used to reach representations, never asserted"],
        exhaustive=False,
        extra={"behaviours": len(behs)})
