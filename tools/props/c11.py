"""C11 - object type strings parse back; obj/attr snprintf obey the length contract; compare_types laws.
Model: spec/Types.tla (vocabulary, relations, reference implementation), spec/MC_Types.tla (bounded client model,
emits one behaviour per transition); binding: spec/TraceTypes.tla, harness/hwv_types.c.
Objects with the attribute values chosen by the model are obtained by loading XML rendered here."""
import os, random, json, glob, binascii, hashlib, concurrent.futures as cf
import vlib

TYPE_NAMES = ["Machine", "Package", "Die", "Core", "PU", "L1Cache", "L2Cache", "L3Cache", "L4Cache", "L5Cache",
              "L1iCache", "L2iCache", "L3iCache", "Group", "NUMANode", "MemCache", "Bridge", "PCIDev", "OSDev", "Misc"]
GROUP, NUMANODE, MEMCACHE, BRIDGE, PCIDEV, OSDEV, MISC = 13, 14, 15, 16, 17, 18, 19
WATCHDOG = "10"      # seconds per behaviour; the heaviest one takes ~0.2 s
MAX_CRASHES = "3"    # per recorder process: a defect that hangs thousands of cases must not take hours


def okey(o):
    return (o["type"], o["cd"], o["ct"], o["gd"], o["up"], o["down"], tuple(sorted(o["os"])))


# ---------------------------------------------------------------------------------------------
# XML rendering (v3 format, as written by hwloc_topology_export_xml)
# ---------------------------------------------------------------------------------------------
class Xml:
    def __init__(self, name):
        self.name, self.gp, self.out, self.where = name, 0, [], {}

    def obj(self, typ, key, attrs="", sets=None, infos=(), ind=1, close=False):
        self.gp += 1
        s = ""
        if sets:
            cpu, node = sets
            s = ' cpuset="0x%08x" complete_cpuset="0x%08x" nodeset="0x%08x" complete_nodeset="0x%08x"' % (cpu, cpu, node, node)
            if typ == "Machine":
                s += ' allowed_cpuset="0x%08x" allowed_nodeset="0x%08x"' % (cpu, node)
        self.out.append("%s<object type=\"%s\"%s gp_index=\"%d\" id=\"obj%d\"%s%s>" % ("  " * ind, typ, s, self.gp, self.gp, (" " + attrs) if attrs else "",
                                                                                  "/" if close and not infos else ""))
        for n, v in infos:
            self.out.append('%s<info name="%s" value="%s"/>' % ("  " * (ind + 1), n, v))
        if close and infos:
            self.out.append("%s</object>" % ("  " * ind))
        if key is not None:
            self.where.setdefault(key, []).append(self.gp)
        return self.gp

    def end(self, ind):
        self.out.append("%s</object>" % ("  " * ind))

    def text(self, version="3.0"):
        return ('<?xml version="1.0" encoding="UTF-8"?>\n<!DOCTYPE topology SYSTEM "hwloc2.dtd">\n<topology version="%s">\n' % version
                + "\n".join(self.out) + "\n</topology>\n")


def plain(t):
    return (t, -1, -1, -1, -1, -1, ())


CACHE_VARIETY = [  # (size, linesize, associativity) per chain
    [(32768, 64, 8), (1048576, 64, 16), (33554432, 128, 0), (1 << 40, 64, -1), (1023, 1, 1)],
    [(0, 0, 0), ((1 << 64) - 1, 4294967295, -1), (1000, 3, 2147483647), (1025, 64, -2147483647), (999999, 7, 3)],
]


def render_main(name, G, caches, osdevs, bridges=((0, 1), (1, 1)), mixed=False):
    """Two identical chains Group^G > Package > Die > caches > Core > PU under one Machine, memory, I/O and Misc objects.
    caches: list of (depth, cachetype) sorted from outer to inner.  Returns Xml."""
    x = Xml(name)
    ALL, NODES = 0xf, 0x3
    x.obj("Machine", plain(0), 'os_index="0"', (ALL, NODES), ind=1,
          infos=[("Backend", "XML"), ("DMIProductName", "a product with spaces"), ("Empty", ""), ("hwlocVersion", "3.0.0a1-git")])
    x.obj("MemCache", plain(MEMCACHE), 'cache_size="17179869184" depth="1" cache_linesize="64" cache_associativity="1" cache_type="0"', (ALL, 0x1), ind=2)
    x.obj("NUMANode", plain(NUMANODE), 'os_index="0" local_memory="1073741824"', (ALL, 0x1), ind=3)
    x.out.append('        <page_type size="4096" count="262144"/>')
    x.end(3)
    x.end(2)
    x.obj("NUMANode", plain(NUMANODE), 'os_index="1" subtype="HBM" local_memory="0"', (ALL, 0x2), ind=2, close=True)
    for c in (0, 1):
        pk = 0x3 << (2 * c)         # the package has two dies (a Die level identical to the Package level would be merged)
        cpu = 1 << (2 * c)          # the first die carries the caches
        ind = 2
        for g in range(G):
            x.obj("Group", (GROUP, -1, -1, g, -1, -1, ()), 'kind="0" subkind="%d" dont_merge="1"' % g, (pk, NODES), ind=ind)
            ind += 1
        x.obj("Package", plain(1), 'os_index="%d"' % c, (pk, NODES), ind=ind, infos=[("CPUModel", "Model %d with spaces" % c)] if c == 0 else [])
        ipk = ind
        ind += 1
        x.obj("Die", plain(2), 'os_index="%d"' % (2 * c), (cpu, NODES), ind=ind)
        idie = ind
        ind += 1
        for i, (d, ct) in enumerate(caches):
            if mixed and c == 1 and ct == 0:
                ct = 1          # same level, other cache type (unified vs data)
            size, line, assoc = CACHE_VARIETY[c][i % 5]
            t = (9 + d) if ct == 2 else (4 + d)
            x.obj(TYPE_NAMES[t], (t, d, ct, -1, -1, -1, ()),
                  'cache_size="%d" depth="%d" cache_linesize="%d" cache_associativity="%d" cache_type="%d"' % (size, d, line, assoc, ct), (cpu, NODES), ind=ind)
            ind += 1
        x.obj("Core", plain(3), 'os_index="%d"' % (2 * c), (cpu, NODES), ind=ind)
        x.obj("PU", plain(4), 'os_index="%d"' % (2 * c), (cpu, NODES), ind=ind + 1)
        x.obj("Misc", plain(MISC), 'name="below-pu" subtype="Sub Type"', ind=ind + 2, close=True)
        x.end(ind + 1)
        x.end(ind)
        while ind > idie:
            ind -= 1
            x.end(ind)
        x.obj("Die", plain(2), 'os_index="%d"' % (2 * c + 1), (cpu << 1, NODES), ind=idie)
        x.obj("Core", plain(3), 'os_index="%d"' % (2 * c + 1), (cpu << 1, NODES), ind=idie + 1)
        x.obj("PU", plain(4), 'os_index="%d"' % (2 * c + 1), (cpu << 1, NODES), ind=idie + 2, close=True)
        x.end(idie + 1)
        x.end(idie)
        ind = idie
        while ind > 2:
            ind -= 1
            x.end(ind)
    # I/O: host bridge > { PCI device > OS devices ; PCI bridge > PCI device > OS devices }
    half = (len(osdevs) + 1) // 2

    def osdev_list(lst, ind):
        for bits in lst:
            word = sum(1 << b for b in bits)
            infos = [("Backend", "X"), ("Address", "00:11 22")] if len(bits) == 1 else []
            x.obj("OSDev", (OSDEV, -1, -1, -1, -1, -1, tuple(sorted(bits))), 'name="od%d" osdev_type="%d"' % (word % 1000003, word), ind=ind, infos=infos, close=True)

    if (0, 1) in bridges:
        x.obj("Bridge", (BRIDGE, -1, -1, -1, 0, 1, ()), 'bridge_type="0-1" depth="0" bridge_pci="0000:[00-ff]"', ind=2)
        x.obj("PCIDev", plain(PCIDEV), 'pci_busid="0000:00:01.0" pci_type="0200 [8086:1521] [00d9:0021] 01 00" pci_link_speed="0.000000"', ind=3,
              infos=[("PCIVendor", "Some Vendor"), ("PCIDevice", "I350")])
        osdev_list(osdevs[:half], 4)
        x.end(3)
        if (1, 1) in bridges:
            x.obj("Bridge", (BRIDGE, -1, -1, -1, 1, 1, ()),
                  'bridge_type="1-1" depth="1" bridge_pci="0000:[01-02]" pci_busid="0000:00:02.0" pci_type="0604 [8086:3c02] [0000:0000] 07 00" pci_link_speed="7.876923"', ind=3)
            x.obj("PCIDev", plain(PCIDEV), 'pci_busid="0000:01:00.0" pci_type="0302 [10de:1094] [00de:0088] a1 00" pci_link_speed="15.753846"', ind=4)
            osdev_list(osdevs[half:], 5)
            x.end(4)
            x.obj("PCIDev", plain(PCIDEV), 'pci_busid="ffff:02:1f.7" pci_type="ffff [ffff:ffff] [ffff:ffff] ff ff" pci_link_speed="0.250000"', ind=4, close=True)
            x.end(3)
        x.end(2)
    x.obj("Misc", plain(MISC), 'name="m0"', ind=2)
    x.obj("Misc", plain(MISC), 'name="m1" subtype="Nested"', ind=3, close=True, infos=[("k", "v w")])
    x.end(2)
    x.end(1)
    return x


def render_bad_bridge(name, btype):
    """A bridge whose upstream/downstream types the core cannot print: the loader must refuse it (or everything must still work)"""
    x = Xml(name)
    x.obj("Machine", None, 'os_index="0"', (1, 1), ind=1)
    x.obj("NUMANode", None, 'os_index="0" local_memory="1024"', (1, 1), ind=2, close=True)
    x.obj("PU", None, 'os_index="0"', (1, 1), ind=2, close=True)
    bt = ('bridge_type="%s" ' % btype) if btype else ""
    x.obj("Bridge", None, bt + 'depth="0" bridge_pci="0000:[00-05]"', ind=2)
    x.obj("PCIDev", None, 'pci_busid="0000:00:1f.2" pci_type="0106 [8086:1d02] [00d9:0062] 06 00" pci_link_speed="0.000000"', ind=3, close=True)
    x.end(2)
    x.end(1)
    return x


def render_v2(name):
    """v2-format OS-device types (0..5 remapped by name/subtype/infos at import, anything else becomes 0)"""
    x = Xml(name)
    x.obj("Machine", None, 'os_index="0"', (1, 1), ind=1)
    x.obj("NUMANode", None, 'os_index="0" local_memory="1024"', (1, 1), ind=2, close=True)
    x.obj("PU", None, 'os_index="0"', (1, 1), ind=2, close=True)
    x.obj("Bridge", None, 'bridge_type="0-1" depth="0" bridge_pci="0000:[00-05]"', ind=2)
    x.obj("PCIDev", None, 'pci_busid="0000:00:1f.2" pci_type="0106 [8086:1d02] [00d9:0062] 06" pci_link_speed="0.000000"', ind=3)
    n = 0
    for t in range(0, 9):
        for nm, sub, infos in (("sda", None, []), ("dax0.0", "NVM", []), ("dax1.0", None, []), ("mem0", "CXLMem", [("CXLPMEMSize", "1")]), ("mem1", "CXLMem", []),
                               ("rsmi0", None, []), ("nvml0", "NVML", []), ("bxi0", "BXI", []), ("mlx5_0", None, []), ("cuda0", "CUDA", []),
                               ("ze0", "LevelZero", []), ("opencl0d0", "OpenCL", [("OpenCLDeviceType", "GPU")]), ("opencl0d1", "OpenCL", [("OpenCLDeviceType", "CPU")])):
            n += 1
            x.obj("OSDev", None, 'name="%s"%s osdev_type="%d"' % (nm, (' subtype="%s"' % sub) if sub else "", t if t < 8 else 4000000000), ind=4, infos=infos, close=True)
    x.end(3)
    x.end(2)
    x.end(1)
    return x


# ---------------------------------------------------------------------------------------------
# model configuration and translation of TLC histories
# ---------------------------------------------------------------------------------------------
def tla_set(xs):
    return "{" + ", ".join(str(x) for x in xs) + "}"


def gen_module(unk):
    return "---- MODULE MC_Types_gen ----\nEXTENDS MC_Types\nGUnk == %s\n====\n" % tla_set(tla_set(sorted(u)) for u in unk)


def cfg(G, tsn, asn, seps, varf, maxcut):
    return ("SPECIFICATION Spec\nCONSTANTS\n  G = %d\n  UnkChoices <- GUnk\n  TsnFlags = %s\n  AsnFlags = %s\n  Seps = %s\n  VarFlags = %s\n  MaxCut = %d\n"
            "VIEW View\nINVARIANTS TypeOK InvRoundTrip InvShortNames InvSnprintf InvTypeString InvCase InvSuffix InvWeakScan InvCmp InvKinds\n"
            "ACTION_CONSTRAINT EmitEdge\nCHECK_DEADLOCK FALSE\n" % (G, tla_set(tsn), tla_set(asn), tla_set(seps), tla_set(varf), maxcut))


def hexs(s):
    b = s.encode("latin-1", "replace") if isinstance(s, str) else s
    return binascii.hexlify(b).decode() or "-"


def random_strings(rng, n):
    """hostile inputs for hwloc_type_sscanf: prefixes of valid names, case changes, digits/garbage, very long, empty"""
    words = TYPE_NAMES + ["OS", "OSDev[", "OS[", "osdev", "socket", "node", "memory-side cache", "hostbridge", "pcibridge", "pci", "block", "storage", "memory",
                          "network", "ofed", "openfabrics", "dma", "gpu", "coproc", "co-processor", "l", "L1", "L2d", "l3i", "L5u", "L1icache", "Group", "gr",
                          "Tile", "Module", "Cluster", "Unknown"]
    tails = ["", "0", "7", "99999999999999999999", ":", ":0", "[", "]", "[]", "[,]", ",", "[gpu", "[gpu,", "[gpu,]", "[foo,bar]", "-", "_", " ", "\t", "\r", "\x7f", "\xff",
             "cache", "Cache", "cach", "cachex", "icache", "dcache", "ucache", "-1", "+3", " 3", "0x10", "4294967295", "4294967296", "18446744073709551615", "2147483648"]
    res = []
    while len(res) < n:
        k = rng.random()
        w = rng.choice(words)
        if k < 0.25:
            s = w[:rng.randint(0, len(w))]
        elif k < 0.4:
            s = "".join(ch.upper() if rng.random() < 0.5 else ch.lower() for ch in w)
        elif k < 0.6:
            s = w + rng.choice(tails)
        elif k < 0.7:
            s = "os" + rng.choice(["", "dev", "DEV", "d"]) + "[" + ",".join(rng.choice(["gpu", "net", "Co-Processor", "coproc", "dma", "mem", "Storage", "block", "ofed", "OpenFabrics",
                                                                                          "foo", "", "g", "gp", "co", "co-", "openfab"]) for _ in range(rng.randint(0, 9))) + rng.choice(["]", "", "]]", ",", "]x"])
        elif k < 0.78:
            s = "L" + str(rng.choice([0, 1, 2, 3, 4, 5, 6, 9, 10, 255, 4294967297, 18446744073709551617])) + rng.choice(["", "i", "d", "u", "I", "D", "U", "x", "ii", "-"]) + rng.choice(["", "cache", "Cache", "CACHE", "c", "cachez", ":1", "1"])
        elif k < 0.84:
            s = "Group" + rng.choice(["", "0", "3", "4294967295", "4294967296", "-1", " 1", "007", "1x", "9" * 40])
        elif k < 0.9:
            s = rng.choice(words) * rng.randint(50, 3000) if rng.random() < 0.5 else rng.choice(["a", "L1", "os[gpu,", ",", "["]) * rng.randint(100, 5000)
        elif k < 0.95:
            s = "".join(chr(rng.choice([rng.randint(1, 255), rng.randint(32, 126)])) for _ in range(rng.randint(0, 12)))
        else:
            s = w + "".join(chr(rng.randint(1, 255)) for _ in range(rng.randint(1, 4)))
        res.append(s)
    res[0] = ""
    return res


# every name literal hwloc_type_sscanf compares its input with
MATCH_NAMES = ["storage", "block", "memory", "network", "ofed", "openfabrics", "dma", "gpu", "coproc", "co-processor", "osdev", "machine", "numanode", "node",
               "memcache", "memory-side cache", "package", "socket", "die", "core", "pu", "misc", "bridge", "hostbridge", "pcibridge", "pcidev", "group",
               "l1cache", "L2dcache", "l3icache", "os[gpu", "osdev[dma"]


def byte_sweep(rng, per_byte):
    """a complete (or partial) name followed by every possible byte value and something after it"""
    res = []
    for b in range(1, 256):
        names = MATCH_NAMES if per_byte is None else rng.sample(MATCH_NAMES, per_byte)
        for n in names:
            w = n if rng.random() < 0.7 else n.upper() if rng.random() < 0.5 else n.capitalize()
            res.append(w + chr(b) + rng.choice(["x", "x", "1", "]", chr(b), ""]))
            if per_byte is None:
                res.append(w[:rng.randint(1, len(w))] + chr(b) + "zz")
    return res


def run(ctx, replay=None):
    ctx.build_lib()
    exe = ctx.cc("hwv_types.c", "hwv_types")
    xmldir = ctx.path("xml")
    os.makedirs(xmldir, exist_ok=True)
    REPLAY_XML = os.path.join(vlib.VERIF, "evidence", "replays", "xml-C11")   # not named C11-*: Ctx() removes those

    def replay_fn(text):
        p = ctx.path("replay-%d.beh" % random.randrange(1 << 30))
        open(p, "w").write(text)
        t = p + ".ndjson"
        ctx.record(exe, p, t, env={"HWV_WATCHDOG": WATCHDOG})
        return ctx.validate("TraceTypes", t, nshards=1)

    if replay:
        text = open(replay).read()
        # generated XML inputs of a stored replay live next to it; bundled ones are taken from the tree under test
        text = text.replace("@XML@", REPLAY_XML).replace("@REPO@", vlib.REPO)
        rej = replay_fn(text)
        for r in rej:
            vlib.log("rejected event:", r["line"][:1500])
            print("VIOLATION property=C11 replay=%s" % replay)
        ctx.cleanup()
        return 1 if rej else 0

    thorough = ctx.tier == "thorough"
    rng = random.Random(ctx.seed)

    # ---- (1) the model: attribute product x flag words, reference implementation checked against the relations ----
    if thorough:
        G = 5
        unk = [(), (7,), (63,), (8, 40), (31, 32), (7, 15, 23, 47, 62), (9,), (62, 63), (7, 8, 9, 10, 11, 12), tuple(range(7, 64))]
        unk += [tuple(sorted(rng.sample(range(7, 64), rng.randint(1, 5)))) for _ in range(2)]
        tsn, asn, seps, varf, maxcut = list(range(64)), list(range(64)), [0, 1, 3, 4], [0, 1, 2, 3, 4, 6, 8, 34], 16
    else:
        G, unk = 3, [(), (7,), (63,), (8, 40)]
        tsn = [a | b | c | d for a in (0, 1) for b in (0, 2) for c in (0, 4) for d in (0, 8)]
        asn, seps, varf, maxcut = [0, 1, 8, 16, 32, 9, 24, 40, 56, 63], [1, 3], [0, 2], 6
    out, st = ctx.tlc_mc("MC_Types_gen", cfg(G, tsn, asn, seps, varf, maxcut), tag="mc", workers=8,
                         extra_modules=[("MC_Types_gen.tla", gen_module(unk))], timeout=3000)
    if st["error"] or st["rc"] != 0:
        raise vlib.Infra("model check of MC_Types failed (model-level, not a violation): %s\n%s" % (st["error"], out[-1500:]))
    hists = list(vlib.tlc_printed(out, "EDGE"))
    if not hists:
        raise vlib.Infra("TLC emitted no behaviour")

    # ---- (2) render the XML inputs that contain an object for every descriptor the model selected ----
    descs = {}
    for h in hists:
        if h[0]["a"] == "sel":
            descs[okey(h[0]["o"])] = h[0]["o"]
    osd = sorted((k[6] for k in descs if k[0] == OSDEV), key=lambda b: (len(b), b))
    gmax = max([k[3] for k in descs if k[0] == GROUP] + [-1]) + 1
    cu = [(d, 0) for d in (5, 4, 3)] + [(3, 2), (2, 0), (2, 2), (1, 0), (1, 2)]
    cd = [(d, 1) for d in (5, 4, 3, 2, 1)]
    xmls = {"u": render_main("c11_u.xml", gmax, cu, osd), "d": render_main("c11_d.xml", 1, cd, osd[:3])}
    where = {}
    for tag in ("d", "u"):
        for k, gps in xmls[tag].where.items():
            where[k] = (tag, gps)
    missing = [k for k in descs if k not in where]
    if missing:
        raise vlib.Infra("no XML object for model descriptors %r" % missing[:5])
    bad = {"bad%d" % i: render_bad_bridge("c11_bad%d.xml" % i, bt) for i, bt in enumerate(["0-0", "1-0", "0-2", "2-1", "5-1", "1-7", None, "4294967295-1"])}
    others = {"v2": render_v2("c11_v2.xml"), "mixed": render_main("c11_mixed.xml", 1, cu, osd[:2], mixed=True)}
    files = {}
    for tag, x in list(xmls.items()) + list(bad.items()) + list(others.items()):
        text = x.text("2.0" if tag == "v2" else "3.0")
        # content-addressed names: stored replays keep referring to the right input
        files[tag] = os.path.join(xmldir, "%s_%s.xml" % (x.name[:-4], hashlib.sha1(text.encode()).hexdigest()[:8]))
        open(files[tag], "w").write(text)

    def ref(o, k=None):
        tag, gps = where[okey(o)]
        return "reset %s\nsel gp %d\n" % (files[tag], gps[rng.randrange(len(gps)) if k is None else k % len(gps)])

    # ---- (3) behaviours: one per transition of the model ----
    behs, expected = [], {}
    for h in hists:
        a = h[-1]
        if a["a"] in ("tsn", "asn", "var"):
            expected[len(behs)] = okey(h[0]["o"])
        if a["a"] == "tsn":
            behs.append(ref(h[0]["o"]) + "tsn %d\n" % a["f"])
        elif a["a"] == "asn":
            if thorough:     # every instance of the descriptor (they differ in sizes, associativity, infos); one reset per behaviour
                tag, gps = where[okey(h[0]["o"])]
                behs.append("reset %s\n" % files[tag] + "".join("sel gp %d\nasn %d %d\n" % (g, a["f"], a["sep"]) for g in gps))
            else:
                behs.append(ref(h[0]["o"]) + "asn %d %d\n" % (a["f"], a["sep"]))
        elif a["a"] == "var":
            behs.append(ref(h[0]["o"]) + "tsn %d 6\nscan %s\n" % (h[1]["f"], hexs(a["s"])))
        elif a["a"] == "tstr":
            behs.append("reset -\ntstr %d\n" % a["t"])
        elif a["a"] == "cmp":
            behs.append("reset -\ncmp %d %d\ncmp %d %d\n" % (a["x"], a["y"], a["y"], a["x"]))
        elif a["a"] == "kinds":
            behs.append("reset -\nkinds %d\n" % a["t"])
    n_model = len(behs)
    # levels of the generated inputs, the whole compare table in one behaviour (antisymmetry across all pairs)
    lvflags = tsn if thorough else [0, 1, 2, 4, 6, 8]
    for tag in ("u", "d"):
        behs.append("reset %s\n" % files[tag] + "".join("levels %d\n" % f for f in lvflags))
    behs.append("reset -\n" + "".join("cmp %d %d\n" % (a, b) for a in range(20) for b in range(20)) + "".join("kinds %d\n" % t for t in range(-2, 23)))
    # XML inputs that must be refused or handled: invalid bridge types; v2 OS-device types; every object of each
    for tag in list(bad) + ["v2"]:
        behs.append("reset %s\nsel all\n" % files[tag] + "".join("tsn %d\n" % f for f in (0, 2, 4, 1)) + "asn 8 1\nasn 0 1\nlevels 0\n")
    # every object of every bundled XML input
    bundled = sorted(glob.glob(os.path.join(vlib.REPO, "tests", "hwloc", "xml", "*.xml")))
    bflags = [0, 2, 4, 9, 1, 8, 6, 3] if thorough else [0, 2, 4, 9]
    for p in bundled:
        big = os.path.getsize(p) > 300000
        for i, f in enumerate(bflags if (thorough or not big) else bflags[:2]):
            behs.append("reset %s\nsel all\ntsn %d\nasn %d %d %d\nlevels %d\n" % (p, f, f, 1 + (i % 2) * 2, 0 if thorough and not big else 24, f))
    # hostile strings for hwloc_type_sscanf
    strs = random_strings(rng, 20000 if thorough else 600) + byte_sweep(rng, None if thorough else 3)
    for i in range(0, len(strs), 25):
        behs.append("reset -\n" + "".join("scan %s\n" % hexs(s) for s in strs[i:i + 25]))
    # a level that mixes unified and data caches of one depth (hwloc.h: "same for all objects of a level")
    behs.append("reset %s\nsel all\ntsn 0\ntsn 2\ntsn 4\nasn 9 1\n" % files["mixed"])
    for f in (0, 2):
        behs.append("reset %s\nlevels %d\n" % (files["mixed"], f))

    assert all(b.startswith("reset ") and b.count("\nreset ") == 0 for b in behs)
    ctx.samples = [behs[0], behs[n_model // 2], behs[n_model - 1], behs[-2]]
    ctx.samples = [s.replace(xmldir, "@XML@") for s in ctx.samples]

    # ---- (4) record on the real library (parallel recorders on index-aligned behaviour files) and validate ----
    tf = record_parallel(ctx, exe, behs, 8)
    check_vocabulary(tf)
    rejs = ctx.validate("TraceTypes", tf, max_rej=3)
    rejs = rejs[:6]
    if rejs:
        # keep the generated inputs of the replays
        os.makedirs(REPLAY_XML, exist_ok=True)
        for f in files.values():
            open(os.path.join(REPLAY_XML, os.path.basename(f)), "w").write(open(f).read())
    stored = [b.replace(xmldir, "@XML@").replace(vlib.REPO + "/", "@REPO@/") for b in behs]

    def replay2(text):
        return replay_fn(text.replace("@XML@", xmldir).replace("@REPO@", vlib.REPO))
    ctx.handle_rejections(rejs, stored, replay2)
    if not ctx.rejections:
        check_coverage(ctx, tf, expected)       # with violations at hand they are the verdict, whatever loaded
    return ctx.finish(
        rule="behaviours = one per transition of the bounded client model (every object of the reachable attribute product x flag word for "
             "type_snprintf / attr_snprintf at every buffer size 0..needed+1, text variants, type_string of every type, every ordered pair of "
             "compare_types, kind predicates), plus every object and level of every bundled XML input, XML inputs with invalid bridge types and "
             "v2 OS-device types, and hostile strings for hwloc_type_sscanf (seeded random ones and every byte value after every name literal); a behaviour is non-trivial when it performs at least one API call; "
             "each was run on the rebuilt library (ASan+UBSan, guard bytes) and validated by TLC against the relations of Types.tla",
        assumptions=["the integer values of hwloc_obj_type_t, the cache/bridge/osdev enums, the snprintf flags and the special depths are those of the pinned include/hwloc.h",
                     "attribute values are those reachable by loading XML (v3, plus the v2 OS-device remapping); group depths above %d are not explored" % (G - 1),
                     "LevelUniform is demanded for normal levels and the NUMA/MemCache/PCI/Misc levels; the Bridge and OSDev virtual levels are heterogeneous by design",
                     "unnamed OS-device type bits cannot round-trip: the parsed set must equal the object's named types and invent nothing",
                     "the reference implementation (PrintM/ParseM/CmpM) only generates cases and shows the relations satisfiable; it never judges the real code"],
        exhaustive=False,
        extra={"behaviours": len(behs), "model_behaviours": n_model, "descriptors": len(descs), "bundled_xml": len(bundled)})


def check_coverage(ctx, tf, expected):
    """infrastructure sanity (not an oracle): did the XML load give an object with the attributes the model asked for"""
    seen, cur = {}, None
    with open(tf, errors="replace") as f:
        for line in f:
            if line.startswith('{"e":"Reset"'):
                cur = int(line.split('"beh":', 1)[1].split(",", 1)[0])
                cur = cur if cur in expected and cur not in seen else None
            elif cur is not None and (line.startswith('{"e":"tsn"') or line.startswith('{"e":"asn"')):
                o = json.loads(line)["o"]
                seen[cur] = (o["type"], o.get("cd", -1), o.get("ct", -1), o.get("gd", -1), o.get("up", -1), o.get("down", -1), tuple(o.get("os", [])))
                cur = None
    absent = [b for b in expected if b not in seen]
    differ = [b for b in seen if seen[b] != expected[b]]
    ctx.extra["objects_as_requested"] = len(seen) - len(differ)
    ctx.extra["objects_absent_or_different"] = len(absent) + len(differ)
    if absent or differ:
        ctx.notes.append("loaded object differs from the requested descriptor in %d behaviours, absent (or crashed before) in %d, e.g. %r" %
                         (len(differ), len(absent), [(expected[b], seen.get(b)) for b in (differ + absent)[:3]]))
    if len(absent) + len(differ) > len(expected) // 2:
        raise vlib.Infra("the generated XML inputs did not load as intended (%d of %d objects absent or different)" % (len(absent) + len(differ), len(expected)))


def check_vocabulary(tf):
    """infrastructure sanity (not an oracle): the spec's type table has 20 entries"""
    with open(tf, errors="replace") as f:
        for line in f:
            if line.startswith('{"e":"kinds"'):
                if json.loads(line).get("max") != 20:
                    raise vlib.Infra("HWLOC_OBJ_TYPE_MAX is not 20: spec/Types.tla does not describe this tree")
                return


def record_parallel(ctx, exe, behs, nproc):
    """Run nproc recorders; recorder p executes behaviours i with i % nproc == p, the others are replaced by a stub
    'reset !' so that behaviour indexes (also those of Crash/Hang lines) stay global.  Returns the merged trace."""
    paths = []
    for p in range(nproc):
        bf = ctx.path("behaviours-%d.txt" % p)
        with open(bf, "w") as f:
            for i, b in enumerate(behs):
                f.write(b if i % nproc == p else "reset !\n")
        paths.append(bf)
    with cf.ThreadPoolExecutor(max_workers=nproc) as ex:
        outs = list(ex.map(lambda bf: ctx.record(exe, bf, bf + ".ndjson", env={"HWV_WATCHDOG": WATCHDOG, "HWV_MAX_CRASHES": MAX_CRASHES}, timeout=3000), paths))
    for o in outs:
        for line in o.split("\n"):
            if "stopping after" in line:
                ctx.notes.append("a recorder stopped early (crash cap): " + line.strip())
    # merge by behaviour index
    per = {}
    for p, bf in enumerate(paths):
        cur = None
        with open(bf + ".ndjson", errors="replace") as f:
            for line in f:
                if line.startswith('{"e":"Reset"'):
                    if '"xml":"!"' in line:
                        cur = None
                        continue
                    cur = int(line.split('"beh":', 1)[1].split(",", 1)[0])
                    per.setdefault(cur, []).append(line)
                elif line.startswith('{"e":"Crash"') or line.startswith('{"e":"Hang"'):
                    b = int(line.split('"beh":', 1)[1].rstrip("}\n"))
                    if b % nproc == p:
                        per.setdefault(b, []).append(line)
                    cur = None
                elif cur is not None:
                    per[cur].append(line)
    tf = ctx.path("trace.ndjson")
    with open(tf, "w") as f:
        for b in sorted(per):
            f.writelines(per[b])
    return tf
