"""C05 - XML export followed by import reproduces the topology (and is a fixpoint).
Model: histories from spec/MC_TopoOps.tla followed by the export/import matrix; relations in spec/XmlDoc.tla
(Equivalent, SameTreeAndSets, byte-identical fixpoint, userdata deliveries) checked by TXmlExport/TXmlImport of
spec/TraceTopo.tla; recorder: harness/hwv_topo.c, run once per (export backend, import backend) pair."""
import os, random, json, re
import vlib, corpus
from props import c01, c02, c08

# strings with the XML-special characters, tab/newline (exportable) and bytes that hwloc documents as dropped
POOL = ["plain", "a<b>&\"'c", "x%09tab", "nl%0aline", "sp%20ace", "caf%e9", "ctl%01x", "%7fdel", "&amp;lt;", "]]>", "q\"q", "ap'os"]


def special(lines, rng):
    """replace the info / subtype / misc-name arguments of a rendered history by pool strings"""
    out = []
    for ln in lines:
        t = ln.split(" ")
        if t[0] == "add_info":
            t[3] = rng.choice(POOL)
            t[4] = rng.choice(POOL)
        elif t[0] == "set_subtype" and t[3] != "-":
            t[3] = rng.choice(POOL)
        elif t[0] == "insert_misc":
            t[3] = rng.choice(POOL)
        out.append(" ".join(t))
    return out


def nosupport(flags):
    """support bits describe the loader; they are part of the XML only when the importer asked for them (IMPORT_SUPPORT),
    so the byte-identical fixpoint is checked with support export disabled otherwise (as the repository's own XML tests do)"""
    return [] if flags & 8 else ["env HWLOC_XML_EXPORT_SUPPORT 0"]


def matrix(ctx, rng, tag, flags, thorough, k, ncomb=3, first=None, rootgp=1):
    """the export/import steps for slot 0 -> slot 1; first = (export mode, format) of the first export when it matters"""
    combos = [(me, mi, v2, ud) for me in ("buffer", "file") for mi in ("buffer", "file") for v2 in (0, 2) for ud in (0, 1)]
    picks = combos if thorough else rng.sample(combos, ncomb) + [("buffer", "buffer", 0, 1)]
    if first:
        picks = [(first[0], rng.choice(["buffer", "file"]), first[1], rng.randrange(2))] + picks
    lines = []
    for j, (me, mi, v2, ud) in enumerate(picks):
        p1 = ctx.path("x-%s-%d-%d.xml" % (tag, k, j))
        lines.append("xml_export 0 %s %s %d %d" % (me, p1, v2, ud))
        lines.append("xml_import 1 %s %s %d %d 1" % (mi, p1, flags, ud))
        if not v2:
            lines.append("xml_export 1 %s %s.again %d %d" % (me, p1, 0, ud))      # fixpoint: same bytes again
        # what was imported is a topology like any other: a modifying call on it keeps it well formed (e.g. the new object's gp_index is new)
        lines.append("insert_misc 1 %d postimport%d" % (rootgp, j))
        lines.append("destroy 1")
    return lines


def run(ctx, replay=None):
    ctx.build_lib()
    exe = ctx.cc("hwv_topo.c", "hwv_topo")
    backends = [("0", "0"), ("1", "1"), ("0", "1"), ("1", "0")]

    def env_of(b):
        return {"HWLOC_LIBXML_EXPORT": b[0], "HWLOC_LIBXML_IMPORT": b[1]}

    def mk_replay(b):
        def replay_fn(text):
            p = ctx.path("replay-%d.beh" % random.randrange(1 << 30))
            open(p, "w").write(c01.rebase_paths(ctx, text))
            t = p + ".ndjson"
            ctx.record(exe, p, t, env=env_of(b))
            return ctx.validate("TraceTopo", t, nshards=1)
        return replay_fn

    if replay:
        text = open(replay).read()
        m = re.match(r"# backends (\d) (\d)\n", text)
        b = (m.group(1), m.group(2)) if m else ("0", "0")
        rej = mk_replay(b)(text)
        for r in rej:
            vlib.log("rejected event:", r["line"][:1500])
            print("VIOLATION property=C05 replay=%s" % replay)
        ctx.cleanup()
        return 1 if rej else 0

    thorough = ctx.tier == "thorough"
    rng = random.Random(ctx.seed)
    info = c02.prepass(ctx, exe)
    behs = []
    k = 0
    # (1) modified synthetic topologies: histories from the C02 model
    fams = c02.FAMS if thorough else [c02.FAMS[0], c02.FAMS[2]]
    rflags = [0, 1, 6, 8, 24]
    for name, desc in fams:
        choices = c02.set_choices(info[name])
        gen = [("MC_TopoOps_gen.tla", c02.mc_module(info[name], choices, rflags))]
        simlen = 4
        out, st = ctx.tlc_mc("MC_TopoOps_gen", c02.mc_cfg(simlen, False, 1, 0, simlen, False), tag="xml_sim_" + name,
                             workers=4, extra_modules=gen, simulate="num=%d" % (120 if thorough else 25), depth=simlen + 1, timeout=900)
        if st["error"]:
            raise vlib.Infra("MC_TopoOps simulation failed: %s\n%s" % (st["error"], out[-2000:]))
        sims = list(vlib.tlc_printed(out, "SIM"))
        nsim = 400 if thorough else 30
        if len(sims) > nsim:
            sims = rng.sample(sims, nsim)
        # every edge to depth 2 of the calls that fill the stores (distances, memory attributes, CPU kinds, infos, Misc, Group) and restrict:
        # what the exporter has to write is then exactly what a modification left behind
        out, st = ctx.tlc_mc("MC_TopoOps_gen", c02.mc_cfg(2, False, 1, 0, 0, True, "GOpsStores"), tag="xml_bfs_" + name,
                             workers=8, extra_modules=gen, timeout=1800)
        if st["error"] or st["rc"] != 0:
            raise vlib.Infra("MC_TopoOps (stores) failed: %s\n%s" % (st["error"], out[-2000:]))
        edges = list(vlib.tlc_printed(out, "EDGE"))
        picked, nsig, allsig = c02.stratified(edges, 3000 if thorough else 110, rng, c02.prio_stores)
        ctx.extra["xml_bfs_" + name] = {"edges": len(edges), "signatures": allsig, "signatures_replayed": nsig, "edges_replayed": len(picked)}
        prio0 = [h for h in picked if len(h) >= 2 and h[-1][0] == "restrict" and h[-1][4] == 0 and h[-2][0] in ("dist_add", "memattr", "cpukind", "cpukind_info")]
        todo = [(h, None) for h in [[]] + sims + picked]
        # what a modification left behind must be exported right by the very first export, through either entry point: lazy store observation,
        # first export in the v3 format to a buffer and to a file
        todo += [(h, (me, 0)) for h in (prio0 if thorough else prio0[:40]) for me in ("buffer", "file")]
        for h, first in todo:
            flags = rng.choice([0, 1, 8, 9, 128, 256 | 512]) if not first else rng.choice([0, 1, 8])
            cfg = rng.choice([["filter 0 19 0"], ["filter 0 -1 0"], ["filter 0 -1 2", "filter 0 19 0"], []])
            # lazy store observation for every other behaviour: the recorder does not query (and thereby refresh) the stores before the first export
            lines = (["reset 2", "option stores %d" % (2 if (k % 2 == 0 or first) else 1)] + nosupport(flags) + ["init 0", c02.source_line(ctx, name, desc)] + c02.FAM_EXTRA.get(name, []) + cfg + ["flags 0 %d" % flags, "load 0"]
                     + special(c02.render(h, info[name], choices), rng) + matrix(ctx, rng, name, flags, thorough, k, first=first, rootgp=info[name]["gps"][0][0]))
            k += 1
            behs.append("\n".join(lines) + "\n")
    # (1b) userdata whose content has XML-special characters, in dedicated behaviours (known finding with the nolibxml backend)
    for name, desc in fams[:1]:
        for me in ("buffer", "file"):
            p1 = ctx.path("x-udspecial-%s.xml" % me)
            behs.append("\n".join(["reset 2", "option stores 1", "option udspecial 1", "env HWLOC_XML_EXPORT_SUPPORT 0", "init 0", "synthetic 0 " + desc, "load 0",
                                   "xml_export 0 %s %s 0 1" % (me, p1), "xml_import 1 %s %s 0 1 1" % (me, p1), "xml_export 1 %s %s.again 0 1" % (me, p1), "destroy 1"]) + "\n")
    # (2) every bundled input through the matrix
    srcs = corpus.xml_sources() + corpus.extract_snapshots(ctx.path("corpus"))
    srcs.append({"id": "live", "kind": "live", "env": {}})
    srcs += [{"id": "io", "kind": "xml", "path": None, "env": {}}]
    c08info = c08.prepass(ctx, exe)
    for s in srcs:
        if s["id"] == "io":
            s["path"] = c08.make_io_xml(ctx, "sym")
        # quick: every source is taken once with every type kept (what a default load filters out - I/O, Misc, instruction caches - must survive
        # the round trip too), every third one also with the default filters
        for flags, cfg in ([((1, 9)[k % 2], ["filter 0 -1 0"])] + ([(0, [])] if k % 3 == 0 else []) if not thorough else [(1, ["filter 0 -1 0"]), (0, []), (8, ["filter 0 -4 3"]), (9, ["filter 0 -1 2"])]):
            lines = (["reset 2", "option stores 1"] + nosupport(flags) + corpus.env_lines(s) + ["init 0"] + corpus.source_lines(s) + cfg
                     + ["flags 0 %d" % flags, "load 0"] + matrix(ctx, rng, "c", flags, thorough, k, ncomb=1))
            k += 1
            behs.append("\n".join(lines) + "\n")
    ctx.samples = [behs[0], behs[len(behs) // 2], behs[-1]]
    bf = ctx.path("behaviours.txt")
    open(bf, "w").write("".join(behs))
    use = backends if thorough else [backends[ctx.seed % 2], backends[2 + ctx.seed % 2]]
    for b in use:
        tf = ctx.path("trace-%s%s.ndjson" % b)
        ctx.record(exe, bf, tf, timeout=3000, parallel=vlib.NCPU, env=env_of(b))
        rejs = ctx.validate("TraceTopo", tf, nshards=32, timeout=3000)
        ctx.handle_rejections(rejs, ["# backends %s %s\n" % b + x for x in behs], mk_replay(b))
        os.unlink(tf)
    return ctx.finish(
        rule="topologies = synthetic families modified by TLC-simulated histories of the C02 model (names, infos, subtypes from a pool with XML-special, tab/newline and "
             "non-exportable characters; distances, memattrs, cpukinds, groups, misc objects, restricts) plus every bundled XML file, Linux snapshot, CPUID dump, an I/O subtree and "
             "the live machine; each goes through {buffer,file} export x {buffer,file} import x {v3,v2} x {userdata on,off}, under 2 (quick) or all 4 (thorough) export/import "
             "backend pairs. TLC checks Equivalent / SameTreeAndSets, the byte-identical re-export and the userdata delivery lists. Non-trivial = at least one export+import pair.",
        assumptions=["values outside the pools (arbitrary floats in linkspeed, 64-bit extremes) are only those present in the bundled inputs",
                     "the XML text itself is not parsed by the specification"],
        extra={"behaviours": len(behs), "backend_pairs": ["export=%s import=%s" % b for b in use]})
