"""C15 - CPU kinds always partition the registered PUs and are ranked consistently.
Model: spec/CpuKinds.tla (oracle relations + transcription of cpukinds.c), spec/MC_CpuKinds.tla (bounded model);
binding: spec/TraceCpuKinds.tla, harness/hwv_cpukinds.c"""
import os, random, glob, tarfile
import concurrent.futures as cf
import vlib

# info arrays of the generators (names/values that the ranking heuristics look at, plus neutral ones)
F1 = ("FrequencyMaxMHz", "1000")
F2 = ("FrequencyMaxMHz", "2000")
F3 = ("FrequencyMaxMHz", "3000")
B1 = ("FrequencyBaseMHz", "1500")
B2 = ("FrequencyBaseMHz", "1000")
CA = ("CoreType", "IntelAtom")
CC = ("CoreType", "IntelCore")
CX = ("CoreType", "Other")
XS = ("Features", "a<b&c\"d'e f>")          # XML-special characters and a space
XN = ("A b", "1")

# the oracle: relations of the property only
CFG_REL = "SPECIFICATION Spec\nCONSTANT Strict = FALSE\nPOSTCONDITION Accepted\nCHECK_DEADLOCK FALSE\n"
# relations + "the constructive model mirrors the implementation" (a rejection under this one alone is a SPEC-DRIFT note)
CFG_STRICT = "SPECIFICATION Spec\nCONSTANT Strict = TRUE\nPOSTCONDITION Accepted\nCHECK_DEADLOCK FALSE\n"

# synthetic topologies per number of PUs for the configurations that only restrict by cpuset with flags 0 (the PUs that are
# left do not depend on the NUMA layout there, so the description rotates over the behaviours)
SYNTH = {2: ["pu:2"], 3: ["pu:3"], 4: ["pu:4", "core:2 pu:2", "pack:2 core:2 pu:1"], 5: ["pu:5"],
         6: ["pu:6", "pack:2 core:3 pu:1", "core:3 pu:2", "[numa] pack:2 pu:3"], 7: ["pu:7"], 8: ["pack:2 core:2 pu:2", "pu:8", "numa:2 core:2 pu:2"]}

# topology families for the configurations whose restricts depend on the NUMA layout (BYNODESET, REMOVE_MEMLESS, REMOVE_CPULESS):
# one NUMA node for the machine, one per package / group, memory at two and three levels, interleaved PU numbering.
# The model gets the layout (NUMA node -> local PUs) as the constant Fams; NUMA node indexes stay below the number of PUs so
# that node n is atom n of a nodeset.
NUMA_SYNTH = {
    3: ["pu:3", "numa:3 pu:1", "[numa] pack:1 [numa] pu:3"],
    4: ["pu:4", "pack:2 [numa] pu:2", "[numa] pack:2 [numa] pu:2", "pack:2 [numa] pu:2(indexes=0,2,1,3)", "numa:4 pu:1",
        "[numa] pack:1 [numa] core:2 [numa] pu:2"],
    5: ["pu:5", "numa:5 pu:1", "[numa] pack:1 [numa] pu:5"],
    6: ["numa:2 pu:3", "numa:3 pu:2", "[numa] pack:2 [numa] pu:3", "[numa] pack:3 [numa] core:2 pu:1", "pack:2 [numa] core:3 pu:1",
        "core:3 [numa] pu:2(indexes=0,3,1,4,2,5)"],
    7: ["pu:7", "numa:7 pu:1", "[numa] pack:1 [numa] pu:7"]}

R_CPULESS, R_MISC, R_IO, R_BYNODE, R_MEMLESS = 1, 2, 4, 8, 16
# the legal flag words that change which PUs / nodes disappear
RES_FLAGS = [0, R_CPULESS, R_BYNODE, R_BYNODE | R_MEMLESS]


def synth_nodes(desc):
    """NUMA layout of a synthetic description: {node OS index: [PU OS indexes]}.  hwloc numbers the nodes in the order the
    objects they are attached to are completed (children first); without any node there is one for the machine.
    Steering only: the trace specification reads the layout from the recorded state."""
    levels, rootmem = [], False          # levels: [count, memory attached, PU indexes or None]
    for tok in desc.split():
        if tok == "[numa]":
            if levels:
                levels[-1][1] = True
            else:
                rootmem = True
            continue
        typ, _, rest = tok.partition(":")
        cnt, _, attr = rest.partition("(")
        idx = [int(x) for x in attr.rstrip(")").split("=")[1].split(",")] if attr else None
        levels.append([int(cnt), typ.lower().startswith("numa"), idx])
    nodes, npu = {}, [0]
    puidx = levels[-1][2]

    def build(d):
        if d == len(levels):
            k = npu[0]
            npu[0] += 1
            return [puidx[k] if puidx else k]
        pus = []
        for _ in range(levels[d][0]):
            sub = build(d + 1)
            if levels[d][1]:
                nodes[len(nodes)] = sorted(sub)
            pus += sub
        return pus
    allp = build(0)
    if rootmem or not nodes:
        nodes[len(nodes)] = sorted(allp)
    return nodes


def fams_of(ntopo, numa):
    if not numa:
        return [{"synth": None, "nodes": {0: list(range(ntopo))}}]
    return [{"synth": d, "nodes": synth_nodes(d)} for d in NUMA_SYNTH[ntopo]]


def tla_fams(fams):
    return "<< " + ", ".join("[nodes |-> %s, cpus |-> %s]" % (tla_set(f["nodes"]), " @@ ".join("(%d :> %s)" % (n, tla_set(p)) for n, p in sorted(f["nodes"].items())))
                             for f in fams) + " >>"


def tla_str(s):
    return '"' + s.replace("\\", "\\\\").replace('"', '\\"') + '"'


def tla_infoarrs(arrs):
    return "<< " + ", ".join("<< " + ", ".join("<<%s, %s>>" % (tla_str(n), tla_str(v)) for n, v in a) + " >>" for a in arrs) + " >>"


def tla_set(xs):
    return "{" + ", ".join(str(x) for x in sorted(xs)) + "}"


def gen_module(c):
    return ("---- MODULE MC_CpuKinds_gen ----\nEXTENDS MC_CpuKinds\nGRegMasks == %s\nGResMasks == %s\nGNodeMasks == %s\nGResFlags == %s\n"
            "GFams == %s\nGForced == %s\nGInfoArrs == %s\n====\n"
            % (tla_set(c["reg"]), tla_set(c["res"]), tla_set(c.get("nres", [1])), tla_set(c.get("flags", [0])), tla_fams(c["fams"]),
               tla_set(c["forced"]), tla_infoarrs(c["infos"])))


def cfg(c, nstripes=1, stripe=0, simlen=0, bfs=True):
    s = ("SPECIFICATION Spec\nCONSTANTS\n  NA = %d\n  NTopo = %d\n  RegMasks <- GRegMasks\n  ResMasks <- GResMasks\n  NodeMasks <- GNodeMasks\n  ResFlags <- GResFlags\n  Fams <- GFams\n  Forced <- GForced\n"
         "  InfoArrs <- GInfoArrs\n  MaxReg = %d\n  MaxRes = %d\n  MaxAux = %d\n  MaxErr = %d\n  NStripes = %d\n  Stripe = %d\n  SimLen = %d\n"
         "VIEW View\nCHECK_DEADLOCK FALSE\n"
         % (c["na"], c["ntopo"], c["maxreg"], c["maxres"], c["maxaux"], c["maxerr"], nstripes, stripe, simlen))
    if bfs:
        s += "INVARIANTS TypeOK PropertyHolds LookupHolds XmlStable RankStable\nACTION_CONSTRAINT EmitEdge\n"
    else:
        s += "INVARIANTS TypeOK PropertyHolds XmlStable RankStable\n"
    return s


def atom_map(ntopo, na, wide=True):
    """atoms 0..ntopo-1 are the PUs; the outside atoms are a block crossing the first word boundary (if two) and the infinite tail"""
    lo = list(range(ntopo))
    hi = list(range(ntopo))
    nout = na - ntopo
    assert nout >= 1
    start = ntopo
    for k in range(nout - 1):
        end = 70 + 60 * k if wide else start
        lo.append(start)
        hi.append(end)
        start = end + 1
    lo.append(start)
    hi.append(-1)
    return lo, hi


def esc(s):
    assert s
    return "".join(ch if (ch.isalnum() or ch in "-_.:+=/,") else "%%%02X" % ord(ch) for ch in s)


def atoms_of(mask, na):
    return [a for a in range(na) if mask >> a & 1]


def atoms_txt(atoms):
    return "%d%s" % (len(atoms), "".join(" %d" % a for a in atoms))


def op_line(o, c):
    name, a, b, fl, ia = o
    if name == "register":
        infos = None if ia == 0 else c["infos"][ia - 1]
        itxt = "-1" if infos is None else "%d%s" % (len(infos), "".join(" %s %s" % (esc(n), esc(v)) for n, v in infos))
        stxt = "-1" if a < 0 else atoms_txt(atoms_of(a, c["na"]))
        return "register %s %d %d %s" % (stxt, b, fl, itxt)
    if name == "restrict":
        return "restrict %s %d" % (atoms_txt(atoms_of(a, c["na"])), fl)
    if name == "dup":
        return "dup %d" % a
    if name == "xml":
        return "xml %d" % a
    if name == "refresh":
        return "refresh"
    raise vlib.Infra("unknown op in history: %r" % (o,))


def reset_line(kind, arg, lo, hi):
    return "reset %s %s %d %s" % (kind, esc(arg) if kind != "synth" else arg.replace(" ", "_"), len(lo), " ".join("%d %d" % p for p in zip(lo, hi)))


def beh_text(hist, c, rot, amap):
    """hist = [family index, op, op, ...]; a family without description stands for the rotating plain ones"""
    f = c["fams"][hist[0] - 1]
    lines = [reset_line("synth", f["synth"] or rot, *amap)]
    lines += [op_line(o, c) for o in hist[1:]]
    return "\n".join(lines) + "\n"


def node_masks(fams, na):
    """nodesets of the exhaustive configurations: every non-empty subset of the node indexes, and the infinite tail (atom na-1)
    alone and with everything"""
    nn = max(len(f["nodes"]) for f in fams)
    return sorted(set(list(range(1, 1 << nn)) + [1 << (na - 1), (1 << na) - 1]))


def all_masks(n):
    return list(range(1, 1 << n))


# ---- bounded configurations ----
def bfs_configs(thorough):
    cs = []
    # P: every non-empty subset of 4 PUs, <= 3 registrations, <= 1 restrict, two info arrays (quick: one) + NULL, no forced
    #    efficiency: partition, info accumulation, lookup
    cs.append(dict(tag="P", na=5, ntopo=4, reg=all_masks(4), res=all_masks(4), forced=[-1], infos=[[F1], [CA]] if thorough else [[F1]],
                   maxreg=3, maxres=1, maxaux=0, maxerr=0, nstripes=12 if thorough else 64))
    # R: ranking: 3 PUs, forced efficiencies -1..2, frequency infos
    cs.append(dict(tag="R", na=4, ntopo=3, reg=all_masks(3), res=all_masks(3), forced=[-1, 0, 1, 2] if thorough else [-1, 0, 1],
                   infos=[[F1], [F2]], maxreg=3, maxres=1, maxaux=0, maxerr=0, nstripes=24 if thorough else 128))
    # O: registrations outside the topology (atom 3 is the infinite tail), rejected calls, dup / XML / refresh steps
    cs.append(dict(tag="O", na=4, ntopo=3, reg=all_masks(4), res=all_masks(4), forced=[-1, 1], infos=[[F1], [F1, CA, F1]] if thorough else [[F1, CA, F1]],
                   maxreg=2, maxres=1, maxaux=1, maxerr=1, nstripes=12 if thorough else 128))
    # D: deeper histories on 3 PUs: <= 4 registrations, <= 2 restricts
    if thorough:
        cs.append(dict(tag="D", na=4, ntopo=3, reg=all_masks(3), res=all_masks(3), forced=[-1, 0, 1], infos=[[F1], [CA]],
                       maxreg=4, maxres=2, maxaux=0, maxerr=0, nstripes=192))
    else:
        cs.append(dict(tag="D", na=4, ntopo=3, reg=all_masks(3), res=all_masks(3), forced=[-1, 1], infos=[[F1]],
                       maxreg=4, maxres=2, maxaux=0, maxerr=0, nstripes=96))
    for c in cs:
        c["fams"] = fams_of(c["ntopo"], False)
    # N, M: which PUs a restrict removes: every legal flag word that changes it (by cpuset with / without REMOVE_CPULESS, by
    #    nodeset with / without REMOVE_MEMLESS) over the NUMA families of 4 PUs (one node, one per package, memory at two and
    #    three levels, interleaved PUs, one node per PU), every subset of the PUs / of the nodes.  Two focused configurations:
    #    N = every layout of kinds that <= 2 registrations build, then one restrict (or a restrict in between);
    #    M = restrict sequences (a node dropped first, its PUs later; CPU-less nodes dropped, then by nodeset ...): <= 1
    #        registration, <= 2 restricts.  Thorough adds NM = <= 2 registrations and <= 2 restricts.
    fams = fams_of(4, True)
    base = dict(na=5, ntopo=4, reg=all_masks(4), res=all_masks(4), nres=node_masks(fams, 5), flags=RES_FLAGS, fams=fams, maxaux=0, maxerr=0)
    cs.append(dict(base, tag="N", forced=[-1, 0, 1] if thorough else [0, 1], infos=[[F1]] if thorough else [], maxreg=2, maxres=1,
                   nstripes=96 if thorough else 48))
    cs.append(dict(base, tag="M", forced=[-1, 0, 1] if thorough else [0, 1], infos=[[F1]], maxreg=1, maxres=2,
                   nstripes=64 if thorough else 128))
    if thorough:
        cs.append(dict(base, tag="NM", forced=[0, 1], infos=[], maxreg=2, maxres=2, nstripes=512))
    return cs


def sim_configs(thorough, rng):
    cs = []
    pool = [[F1], [F2], [F3], [CA], [CC], [B1], [B2], [F1, CA], [F2, CC], [B1, F2, CC], [CX], [XS], [XN, XS], [F1, F1], [F3, B2, CA, XS]]
    n = 12 if thorough else 4
    # flag words of the walks: the four of RES_FLAGS, also with ADAPT_MISC / ADAPT_IO (which change nothing here)
    flags = RES_FLAGS + [R_MISC, R_CPULESS | R_IO, R_BYNODE | R_MISC | R_IO, R_BYNODE | R_MEMLESS | R_MISC, R_BYNODE | R_MEMLESS]
    for k in range(n):
        ntopo = rng.choice([4, 5, 6, 6, 7])
        na = min(8, ntopo + rng.choice([1, 1, 2]))
        infos = rng.sample(pool, 7)
        forced = sorted(set([-1, 0, 1, 2, rng.choice([3, 5, 1000]), rng.choice([-7, 2147483647, 100])]))
        cs.append(dict(tag="S%d" % k, na=na, ntopo=ntopo, reg=all_masks(na), res=all_masks(na), nres=all_masks(na), flags=flags,
                       fams=fams_of(ntopo, True), forced=forced, infos=infos, maxreg=9, maxres=9, maxaux=9, maxerr=9))
    return cs


# ---- bundled inputs that carry cpukinds ----
def find_inputs(ctx, thorough):
    repo = vlib.REPO
    res = []
    t = os.path.join(repo, "tests", "hwloc")
    for x in sorted(glob.glob(os.path.join(t, "xml", "*.xml")) + glob.glob(os.path.join(t, "linux", "*.xml")) + glob.glob(os.path.join(t, "x86", "*.xml"))):
        try:
            txt = open(x, errors="replace").read()
        except OSError:
            continue
        if "<cpukind" in txt:
            res.append(("xml", x))
    for tb in sorted(glob.glob(os.path.join(t, "linux", "*.tar.bz2"))):
        base = tb[:-8]
        cons = base + ".console"
        hybrid = os.path.exists(cons) and "CPU kind" in open(cons, errors="replace").read()
        if hybrid or "hybrid" in os.path.basename(tb):
            res.append(("fsroot", tb))
    for tb in sorted(glob.glob(os.path.join(t, "x86", "*.tar.bz2"))):
        x = tb[:-8] + ".xml"
        if os.path.exists(x) and "<cpukind" in open(x, errors="replace").read():
            res.append(("cpuid", tb))
    return res


def extract(ctx, tb):
    d = ctx.path("inputs", os.path.basename(tb)[:-8])
    if not os.path.isdir(d):
        os.makedirs(d)
        with tarfile.open(tb, "r:bz2") as tf:
            tf.extractall(d)
    subs = [x for x in os.listdir(d) if os.path.isdir(os.path.join(d, x))]
    return os.path.join(d, subs[0]) if len(subs) == 1 else d


def run(ctx, replay=None):
    ctx.build_lib()
    exe = ctx.cc("hwv_cpukinds.c", "hwv_cpukinds")

    def env_of(text):
        """a behaviour may start with '#env NAME=VALUE' lines (ignored by the recorder): environment of the recorder process"""
        env = {}
        for line in text.split("\n"):
            if not line.startswith("#env "):
                break
            k, _, v = line[5:].partition("=")
            env[k.strip()] = v.strip()
        return env

    def replay_fn(text):
        p = ctx.path("replay-%d.beh" % random.randrange(1 << 30))
        open(p, "w").write(text)
        t = p + ".ndjson"
        ctx.record(exe, p, t, env=env_of(text))
        return ctx.validate("TraceCpuKinds", t, cfg=CFG_REL, nshards=1)

    if replay:
        rej = replay_fn(open(replay).read())
        for r in rej:
            vlib.log("rejected event:", r["line"][:1500])
            print("VIOLATION property=C15 replay=%s" % replay)
        ctx.cleanup()
        return 1 if rej else 0

    thorough = ctx.tier == "thorough"
    rng = random.Random(ctx.seed)
    behs = []
    exhaustive = []

    # TLC jobs run side by side: (1) exhaustive BFS of the bounded models - the property is an invariant of the model, one
    # behaviour per (striped) state-graph edge; (2) random walks of larger models (5-8 atoms, depth 8, dup / XML / refresh /
    # rejected calls)
    bcs = bfs_configs(thorough)
    scs = sim_configs(thorough, rng)
    share = ({"P": 0.15, "R": 0.15, "O": 0.1, "D": 0.3, "N": 0.1, "M": 0.1, "NM": 0.3} if thorough
             else {"P": 0.1, "R": 0.3, "O": 0.2, "D": 0.15, "N": 0.1, "M": 0.15})

    def bfs_job(c):
        ns = c["nstripes"]
        return ctx.tlc_mc("MC_CpuKinds_gen", cfg(c, ns, ctx.seed % ns, 0, True), tag="bfs_" + c["tag"],
                          extra_modules=[("MC_CpuKinds_gen.tla", gen_module(c))], timeout=3000, workers=max(2, int(round(vlib.NCPU * share[c["tag"]]))), heap="5g")

    def sim_job(c):
        num = 400 if thorough else 75          # per simulation worker
        return ctx.tlc_mc("MC_CpuKinds_gen", cfg(c, 1, 0, 8, False), tag="sim_" + c["tag"], simulate="num=%d" % num, depth=10,
                          extra_modules=[("MC_CpuKinds_gen.tla", gen_module(c))], timeout=900, workers=4, heap="2g")

    with cf.ThreadPoolExecutor(max_workers=len(bcs) + 1) as ex:
        bf_ = [ex.submit(bfs_job, c) for c in bcs]
        sf_ = ex.submit(lambda: [sim_job(c) for c in scs])
        bres = [f.result() for f in bf_]
        sres = sf_.result()
    ctx.tlc_stats["states"] = sum(r["distinct"] for r in ctx.tlc_stats["runs"])
    ctx.tlc_stats["transitions"] = sum(r["generated"] for r in ctx.tlc_stats["runs"])

    for c, (out, st) in zip(bcs, bres):
        if st["error"] or st["rc"] != 0:
            raise vlib.Infra("model check of MC_CpuKinds (%s) failed (model-level, not a violation): %s\n%s" % (c["tag"], st["error"], out[-2500:]))
        exhaustive.append({"config": c["tag"], "states": st["distinct"], "edges": st["generated"], "stripes": c["nstripes"]})
        synths = SYNTH[c["ntopo"]]
        amap = atom_map(c["ntopo"], c["na"])
        n0 = len(behs)
        for h in vlib.tlc_printed(out, "EDGE"):
            behs.append(beh_text(h, c, synths[len(behs) % len(synths)], amap))
        vlib.log("bfs %s: %d states, %d edges, %d behaviours (%.0fs)" % (c["tag"], st["distinct"], st["generated"], len(behs) - n0, st["wall_s"]))

    nsim0 = len(behs)
    for c, (out, st) in zip(scs, sres):
        if st["error"]:
            raise vlib.Infra("simulation of MC_CpuKinds (%s) failed: %s\n%s" % (c["tag"], st["error"], out[-2500:]))
        synths = SYNTH[c["ntopo"]]
        amap = atom_map(c["ntopo"], c["na"], wide=(len(behs) % 2 == 0))
        for h in vlib.tlc_printed(out, "SIM"):
            behs.append(beh_text(h, c, synths[len(behs) % len(synths)], amap))
    nsim1 = len(behs)
    vlib.log("simulation: %d behaviours" % (nsim1 - nsim0))
    if nsim1 == nsim0:
        raise vlib.Infra("TLC simulation printed no behaviour")

    # the call sequence of tests/hwloc/cpukinds.c (12 PUs), followed by an XML round trip
    lo, hi = list(range(13)), list(range(12)) + [-1]
    behs.append("\n".join([
        reset_line("synth", "pack:4 pu:3", lo, hi),
        "register -1 0 0 -1", "register 0 0 0 -1", "register 6 0 1 2 3 4 5 0 1 -1",
        "register 6 0 1 2 3 4 5 1000 0 1 CoreType BigCore", "dup 0",
        "register 3 6 7 8 10 0 1 CoreType SmallCore",
        "register 6 5 6 7 8 9 10 -1 0 1 Features this,%20that%20and%20those",
        "register 5 0 1 2 3 4 1000 0 -1", "register 1 5 100 0 -1", "register 3 6 7 8 10 0 -1", "register 2 9 10 1 0 -1",
        "restrict 6 3 4 7 8 9 10 0", "xml 0", "xml 1", "dup 1", "refresh"]) + "\n")
    # the same registrations on four packages with their own NUMA node, restricted by nodeset
    behs.append("\n".join([
        reset_line("synth", "pack:4 [numa] pu:3", lo, hi),
        "register 6 0 1 2 3 4 5 1000 0 1 CoreType BigCore", "register 3 6 7 8 10 0 1 CoreType SmallCore",
        "register 6 5 6 7 8 9 10 -1 0 1 Features this,%20that%20and%20those", "register 2 9 10 1 0 -1",
        "restrict 3 0 1 3 %d" % R_BYNODE, "xml 0", "restrict 2 1 3 %d" % (R_BYNODE | R_MEMLESS), "xml 1", "dup 0",
        "restrict 3 9 10 11 %d" % R_CPULESS, "refresh"]) + "\n")

    # (3) bundled inputs that carry cpukinds: shape after load, then the loaded kinds count as registrations
    nload0 = len(behs)
    for kind, path in find_inputs(ctx, thorough):
        arg = path if kind == "xml" else extract(ctx, path)
        n = 140
        lo, hi = list(range(n)) + [n], list(range(n)) + [-1]
        for rep in range(3 if thorough else 1):
            lines = [reset_line(kind, arg, lo, hi)]
            for step in range(5):
                x = rng.random()
                if x < 0.45:
                    a0 = rng.randrange(0, 24)
                    atoms = sorted(set([a0] + [rng.randrange(0, 24) for _ in range(rng.randrange(0, 6))]))
                    infos = rng.choice([None, [F1], [CC, XS]])
                    itxt = "-1" if infos is None else "%d%s" % (len(infos), "".join(" %s %s" % (esc(nm), esc(v)) for nm, v in infos))
                    lines.append("register %s %d 0 %s" % (atoms_txt(atoms), rng.choice([-1, 0, 1, 2, 3]), itxt))
                elif x < 0.65:
                    fl = rng.choice([0, 0, 0, R_CPULESS, R_BYNODE, R_BYNODE | R_MEMLESS, R_BYNODE | R_MEMLESS, R_BYNODE | R_CPULESS])
                    if fl & R_BYNODE:
                        atoms = sorted(set(rng.randrange(0, 4) for _ in range(rng.randrange(1, 4))))
                    else:
                        atoms = sorted(set(rng.randrange(0, 24) for _ in range(rng.randrange(4, 20))))
                    lines.append("restrict %s %d" % (atoms_txt(atoms), fl))
                elif x < 0.8:
                    lines.append("dup %d" % rng.randrange(2))
                elif x < 0.95:
                    lines.append("xml %d" % rng.randrange(2))
                else:
                    lines.append("refresh")
            behs.append("\n".join(lines) + "\n")
    vlib.log("bundled inputs: %d behaviours" % (len(behs) - nload0))

    ctx.samples = [behs[0], behs[nsim0] if nsim0 < len(behs) else behs[-1], behs[-1]]
    bf = ctx.path("behaviours.txt")
    open(bf, "w").write("".join(behs))
    tf = ctx.path("trace.ndjson")
    ctx.record(exe, bf, tf, parallel=max(1, vlib.NCPU // 2))
    # the walks once more with the XML backend that does not use libxml2 (chosen per process through the environment)
    behs2 = ["#env HWLOC_LIBXML=0\n" + b for b in behs[nsim0:] if "\nxml " in b]
    bf2 = ctx.path("behaviours-nolibxml.txt")
    open(bf2, "w").write("".join(behs2))
    tf2 = ctx.path("trace-nolibxml.ndjson")
    ctx.record(exe, bf2, tf2, env={"HWLOC_LIBXML": "0"})
    drift = []

    def judge(rejs, blist):
        """rejections of the strict pass: validate the behaviour again with the relations only; only that verdict counts"""
        real = []
        for r in rejs[:40]:
            b = r.get("beh")
            if b is None or not (0 <= b < len(blist)):
                raise vlib.Infra("rejection without behaviour index: %r" % (r,))
            acc, ev = ctx.accepted, ctx.events
            again = replay_fn(blist[b])
            ctx.accepted, ctx.events = acc, ev
            if again:
                real.append(r)
            else:
                drift.append((blist[b], r["line"]))
                ctx.accepted += 1
        return real

    rejs = judge(ctx.validate("TraceCpuKinds", tf, cfg=CFG_STRICT, nshards=max(vlib.NCPU, os.path.getsize(tf) // (24 << 20))), behs)
    rejs2 = judge(ctx.validate("TraceCpuKinds", tf2, cfg=CFG_STRICT, nshards=max(1, vlib.NCPU // 2)), behs2)
    if len(rejs) + len(rejs2) > 10:
        ctx.notes.append("%d rejected behaviours, only the first 10 were reported" % (len(rejs) + len(rejs2)))
    ctx.handle_rejections(rejs[:10], behs, replay_fn)
    ctx.handle_rejections(rejs2[:max(0, 10 - len(rejs))], behs2, replay_fn)
    for text, line in drift[:5]:
        print("SPEC-DRIFT: property=C15 the constructive model of cpukinds.c predicted another state (not a violation): %s" % line[:300])
    if drift:
        ctx.notes.append("SPEC-DRIFT on %d behaviours (constructive model differs from the implementation, relations hold); first: %s"
                         % (len(drift), drift[0][0][:600]))
    return ctx.finish(
        rule="behaviours = one per striped state-graph edge of five exhaustively model-checked bounded configurations of MC_CpuKinds "
             "(P: all subsets of 4 PUs, <=3 registrations, <=1 restrict; R: 3 PUs with forced efficiencies -1..2 (quick: -1..1) and frequency infos; "
             "O: registrations outside the topology, rejected calls (register and restrict flag words), dup/XML/refresh steps; D: 3 PUs, <=4 registrations, <=2 restricts; "
             "N: 4 PUs over six NUMA layouts (memory at one to three levels, interleaved PUs), <=2 registrations, <=2 restricts by cpuset "
             "with/without REMOVE_CPULESS and by nodeset with/without REMOVE_MEMLESS over every subset of the PUs / nodes), "
             "TLC-simulated walks of depth 8 over 5-8 atoms on the NUMA layouts of 4-7 PUs with all restrict flag words, "
             "dup, XML export+import, refresh and rejected calls, and the bundled inputs that carry cpukinds followed by random steps "
             "(restricts by cpuset and by nodeset); "
             "every behaviour was replayed on the rebuilt library (ASan+UBSan) and every recorded event validated by TLC against the "
             "relations of CpuKinds.tla; a behaviour is non-trivial when it contains at least one accepted registration",
        assumptions=["restrict: the PUs that are left are derived in TLA+ (RestrictOutcome) from the set, the flag word (by cpuset with / without "
                     "REMOVE_CPULESS, by nodeset with / without REMOVE_MEMLESS; ADAPT_MISC / ADAPT_IO change nothing) and the NUMA nodes "
                     "reported before the call; all PUs and nodes of the exercised topologies are allowed; the synthetic NUMA layouts are "
                     "symmetric (PUs without local node only arise through an earlier restrict by nodeset, also across an XML round trip)",
                     "forced efficiencies: only 'the latest known forced efficiency of every PU is uniform per kind and distinct across kinds' "
                     "obliges a ranking; the relation is silent when a later -1 overrides a known value",
                     "ranking heuristics from info strings are modelled (steering, model-level invariants) but the implementation is only "
                     "required to produce a valid efficiency assignment",
                     "ENOMEM paths are not explored"],
        exhaustive=False,
        extra={"behaviours": len(behs) + len(behs2), "bounded_models": exhaustive, "spec_drift": len(drift)})
