"""C19 - shared-memory topologies: length suffices, adopted copy is equal and read-only.
Model: spec/Shmem.tla (expectations), spec/MC_Shmem.tla (bounded protocol model: master / writer / adopter processes, file images,
address ranges); binding: spec/TraceShmem.tla, harness/hwv_shmem.c (write and adopt in separate forked processes, PROT_NONE
reservation around the target range, file bytes outside the segment digested)."""
import os, random, json
import vlib, corpus

# ---- original topologies: (name, INCLUDE_DISALLOWED, behaviour lines up to the first snapshot) ----
TOPOS = [
    ("stores+disallowed", True, [
        "load 1 0 synthetic node:2 core:2 pu:2",
        "prep dist 5 14 2 0", "prep dist 6 4 4 0",
        "prep memattr 2 2 0", "prep memattr 5 2 1", "prep memattr 6 2 2", "prep memvalue Bandwidth 1 500",
        "prep cpukind 0-3 1 CoreType big", "prep cpukind 4-7 0 CoreType small",
        "prep info hwvinfo hello", "prep tinfo hwvtinfo world", "prep subtype MySub", "prep userdata"]),
    ("plain", False, [
        "load 0 0 synthetic pack:2 core:2 pu:2", "prep info hwvroot r"]),
    ("restricted-stale+disallowed", True, [
        "load 1 0 synthetic [numa] pack:2 [numa] core:2 pu:2",
        "prep dist 5 4 8 0", "prep dist 9 3 4 0", "prep memattr 5 3 1", "prep cpukind 0-1 -1 FrequencyMaxMHz 3000", "prep cpukind 2-7 -1 FrequencyMaxMHz 2000",
        "prep allow 4 0-5 -", "prep info hwvroot r",
        "prep restrict 0 0-5"]),                      # caches of distances / memattrs are stale when the topology is measured and written
    ("keepall-misc-group", False, [
        "load 0 1 synthetic pack:2 numa:2 l2:1 l1i:1 l1d:1 core:1 pu:2",
        "prep misc hwvmisc", "prep group 0-3", "prep info hwvroot r", "prep memvalue Latency 0 30", "prep memattr 1 4 0", "prep dist 5 14 4 1",
        "prep restrict 8 0-2", "prep refresh", "prep userdata"]),
]
MODS = ["prep info hwvmod v%d", "prep cpukind 0 3 Mod m%d", "prep memattr 2 1 0 # %d", "prep misc mod%d"]

CALLS_MODIFY = [
    ("restrict", 0, 0, "0-1", ""), ("restrict", 1, 0, "0", ""), ("restrict", 8, 0, "0", ""), ("restrict", 64, 0, "0", ""), ("restrict", 0, 0, "none", ""),
    ("insert_misc", 0, 0, "hwvmisc2", ""), ("alloc_group", 0, 0, "", ""), ("insert_group", 0, 0, "0-1", ""), ("free_group", 0, 0, "", ""),
    ("dist_add_create", 5, 0, "", ""), ("dist_add_create", 0, 0, "", ""), ("dist_remove", 0, 0, "", ""),
    ("dist_remove_by_depth", 14, 0, "", ""), ("dist_remove_by_depth", 4, 0, "", ""), ("dist_release_remove", 0, 0, "", ""), ("dist_release_remove", 1, 0, "", ""),
    ("memattr_register", 2, 0, "hwvnew", ""), ("memattr_register", 0, 0, "hwvbad", ""), ("memattr_register", 1, 0, "Bandwidth", ""),
    ("memattr_set_value", 2, 1, "", ""), ("memattr_set_value", 8, 0, "", ""), ("memattr_set_value", 0, 0, "", ""), ("memattr_set_value", 3, 2, "", ""),
    ("cpukinds_register", 1, 0, "0-1", ""), ("cpukinds_register", -1, 0, "2", ""),
    ("diff_apply", 0, 0, "", ""), ("diff_apply", 1, 0, "", ""), ("set_subtype", 0, 0, "hwvsub", ""),
]
CALLS_CONFIG = [("set_flags", 0, 0, "", ""), ("set_flags", 1, 0, "", ""), ("set_type_filter", 19, 0, "", ""), ("set_synthetic", 0, 0, "", ""), ("load", 0, 0, "", "")]
CALLS_CONSULT = [("observe", 0, 0, "", ""), ("export_xml", 0, 0, "", ""), ("dup", 0, 0, "", ""), ("dup", 1, 0, "", ""), ("get_length", 0, 0, "", ""), ("get_length", 1, 0, "", ""),
                 ("check", 0, 0, "", ""), ("set_userdata", 77, 0, "", ""), ("bind_get", 1, 0, "", ""), ("abi_check", 0, 0, "", ""), ("refresh", 0, 0, "", "")]
CALLS_SPECIAL = [("allow", 1, 0, "-", "-"), ("allow", 4, 0, "0-1", "-"), ("allow", 4, 0, "-", "0"), ("allow", 4, 0, "2-3", "0"), ("allow", 4, 0, "100", "-"),
                 ("allow", 2, 0, "-", "-"), ("allow", 1, 0, "0", "-"), ("allow", 3, 0, "-", "-"), ("allow", 4, 0, "-", "-"), ("tinfo_add", 0, 0, "hwvt", "1")]
ALL_CALLS = CALLS_MODIFY + CALLS_CONFIG + CALLS_CONSULT + CALLS_SPECIAL
ALL_ADOPT_DEVS = ["none", "doff+", "doff-", "dorem", "eof", "slot", "shift+", "shift-", "arem", "dlen+", "dlen-", "lrem", "flags"]
ALL_WRITE_DEVS = ["none", "orem", "arem", "dlen", "lrem", "busy", "flags"]
ALL_FIELDS = ["version", "hdrlen", "addr", "len", "abi"]


def tla_str_set(xs):
    return "{" + ", ".join('"%s"' % x for x in xs) + "}"


def tla_int_set(xs):
    return "{" + ", ".join(str(x) for x in xs) + "}"


def tla_calls(cs):
    return "{" + ", ".join('<<"%s", %d, %d, "%s", "%s">>' % c for c in cs) + "}"


BASE = dict(Offsets=[0, 1, 3], Slots=[0], WriteDevs=["none"], AdoptDevs=["none"], PunchModes=[1], PatchFields=[], CallSet=[("observe", 0, 0, "", "")],
            MaxWrites=1, MaxMods=0, MaxPatches=0, MaxAdopters=1, MaxFail=0, MaxOK=1, MaxCalls=0, MaxDestroys=1)


def model_cfgs(thorough):
    """focused configurations of MC_Shmem: each explores one dimension exhaustively around the nominal protocol"""
    c = []
    # every write variant at every offset, a failed write may be followed by a second one; then the nominal adoption
    c.append(("write", dict(BASE, WriteDevs=ALL_WRITE_DEVS, MaxWrites=2, MaxCalls=1, MaxFail=1)))
    # every adopt variant x preparation of the range, up to 2 failures, re-adoption after destroy
    c.append(("adopt", dict(BASE, AdoptDevs=ALL_ADOPT_DEVS, PunchModes=[0, 1, 2], MaxFail=2, MaxOK=2, MaxCalls=1 if thorough else 0, MaxDestroys=2 if thorough else 1)))
    # nothing written at all, and a damaged header / ABI word, repaired again, seen by up to two adopter processes
    c.append(("patch", dict(BASE, Offsets=[1] if not thorough else [0, 1, 3], PatchFields=ALL_FIELDS, MaxPatches=2, MaxAdopters=2, MaxFail=2, MaxOK=2, MaxWrites=1,
                            AdoptDevs=["none", "doff+"], MaxCalls=0)))
    # the whole alphabet of public calls on the adopted topology, up to 3 in a row
    c.append(("calls", dict(BASE, Offsets=[1], CallSet=ALL_CALLS, MaxCalls=3, MaxOK=1, MaxDestroys=1)))
    # two images (the original modified in between) at two addresses, two adopted topologies alive at once
    c.append(("two", dict(BASE, Offsets=[0, 1] if not thorough else [0, 1, 3], Slots=[0, 1], MaxWrites=2, MaxMods=1, AdoptDevs=["none", "slot"], PunchModes=[0, 1], MaxFail=1, MaxOK=3,
                          MaxCalls=1, MaxDestroys=2, CallSet=[("allow", 4, 0, "0-1", "-"), ("restrict", 0, 0, "0-1", ""), ("observe", 0, 0, "", "")])))
    return c


def gen_module(k, disallowed):
    return ("---- MODULE MC_Shmem_gen ----\nEXTENDS MC_Shmem\nGOffsets == %s\nGSlots == %s\nGWriteDevs == %s\nGAdoptDevs == %s\nGPunch == %s\nGFields == %s\nGCalls == %s\n====\n"
            % (tla_int_set(k["Offsets"]), tla_int_set(k["Slots"]), tla_str_set(k["WriteDevs"]), tla_str_set(k["AdoptDevs"]), tla_int_set(k["PunchModes"]),
               tla_str_set(k["PatchFields"]), tla_calls(k["CallSet"])))


def gen_cfg(k, disallowed, nstripes, stripe, simlen, bfs):
    s = ("SPECIFICATION Spec\nCONSTANTS\n  Disallowed = %s\n  Offsets <- GOffsets\n  Slots <- GSlots\n  WriteDevs <- GWriteDevs\n  AdoptDevs <- GAdoptDevs\n  PunchModes <- GPunch\n"
         "  PatchFields <- GFields\n  CallSet <- GCalls\n" % ("TRUE" if disallowed else "FALSE"))
    for n in ("MaxWrites", "MaxMods", "MaxPatches", "MaxAdopters", "MaxFail", "MaxOK", "MaxCalls", "MaxDestroys"):
        s += "  %s = %d\n" % (n, k[n])
    s += "  NStripes = %d\n  Stripe = %d\n  SimLen = %d\nVIEW StateView\nCHECK_DEADLOCK FALSE\n" % (nstripes, stripe, simlen)
    s += "INVARIANTS AdoptedExact RangesExclusive AllowNeedsFlag ImagesDisjoint MasterHasNoAdoptions\n"
    if bfs:
        s += "ACTION_CONSTRAINT EmitEdge\n"
    return s


REM = 8           # a model remainder of 1 is 8 bytes
EOF_PAGES = 100000


def render(hist, topo, modseed=0):
    """TLC history -> behaviour text"""
    name, dis, head = topo
    lines = ["reset"] + head + ["snapshot", "get_length 0"]
    nmod = 0
    for e in hist:
        op = e[0]
        if op == "write":
            _, obase, opg, orem, slot, shift, arem, dlen, lrem, punch, flags, tail = e
            lines.append("write %d %d %d %d %d %d %d %d %d %d %d" % (obase, opg, orem * REM, slot, shift, arem * REM, dlen, lrem * REM, punch, flags, tail))
        elif op == "modify":
            m = MODS[(modseed + nmod) % len(MODS)]
            lines += [(m % nmod) if "%d" in m else m, "snapshot", "get_length 0"]
            nmod += 1
        elif op == "patch":
            lines.append("patch %d %s" % (e[1], e[2]))
        elif op == "adopter":
            lines.append("adopter")
        elif op == "end":
            lines.append("end")
        elif op == "adopt":
            _, h, k, doff, dorem, slot, shift, arem, dlen, lrem, punch, flags = e
            lines.append("adopt %d %d %d %d %d %d %d %d %d %d %d" % (h, k, EOF_PAGES if doff == 100 else doff, dorem * REM, slot, shift, arem * REM, dlen, lrem * REM, punch, flags))
        elif op == "call":
            _, h, name_, x, y, s1, s2 = e
            lines.append(("call %d %s %d %d %s %s" % (h, name_, x, y, s1, s2)).rstrip())
        elif op == "destroy":
            lines.append("destroy %d" % e[1])
    if "adopter" in lines and lines.count("adopter") > lines.count("end"):
        lines.append("end")
    return "\n".join(lines) + "\n"


def corpus_behaviours(thorough, rng):
    """every bundled XML input and synthetic family: written and adopted once (all types kept), observed, destroyed, adopted again"""
    behs = []
    srcs = corpus.xml_sources() + corpus.synthetic_sources()
    for n, s in enumerate(srcs):
        if s["kind"] == "xml":
            if not thorough and os.path.getsize(s["path"]) > 120000 and n % 2:
                continue
            load = "load %d 1 xml %s" % (1 if n % 2 == 0 else 0, s["path"])
        else:
            load = "load %d 1 synthetic %s" % (1 if n % 2 == 0 else 0, s["desc"])
        off = [0, 1, 3][n % 3]
        lines = ["reset", load, "prep userdata", "prep info hwvroot r", "snapshot", "get_length 0", "write 0 %d 0 %d 0 0 0 0 1 0 %d" % (off, n % 2, 2 if n % 4 == 0 else 0), "adopter",
                 "adopt 0 0 0 0 %d 0 0 0 0 1 0" % (n % 2), "call 0 check 0 0", "call 0 restrict 0 0 0", "call 0 diff_apply 0 0", "call 0 refresh 0 0", "call 0 allow 1 0 - -", "call 0 dup 1 0",
                 "destroy 0", "adopt 1 0 0 0 %d 0 0 0 0 0 0" % (n % 2), "call 1 observe 0 0", "end"]
        behs.append("\n".join(lines) + "\n")
    # this machine (is_thissystem: binding hooks and HWLOC_ALLOW_FLAG_LOCAL_RESTRICTIONS reach the operating system from the adopted copy)
    for fl in (1, 0):
        lines = ["reset", "load %d 1 native" % fl, "prep userdata", "snapshot", "get_length 0", "write 0 1 0 0 0 0 0 0 1 0 0", "adopter",
                 "adopt 0 0 0 0 0 0 0 0 0 1 0", "call 0 bind_get 1 0", "call 0 allow 2 0 - -", "call 0 check 0 0", "call 0 allow 1 0 - -", "call 0 restrict 0 0 0",
                 "call 0 dup 1 0", "call 0 refresh 0 0", "destroy 0", "adopt 0 0 0 0 0 0 0 0 0 0 0", "call 0 observe 0 0", "end"]
        behs.append("\n".join(lines) + "\n")
    return behs


def sweep_behaviours(thorough):
    """the needed size moves in steps of 8 bytes across one page (an info value that grows): whatever the alignment of the used area,
    some behaviour has it end within 8 bytes of a page boundary, where an underestimated get_length() makes write() hit the guard page"""
    behs = []
    step = 8
    for n, k in enumerate(range(0, 4096 + step, step)):
        off = [0, 1, 3][n % 3]
        desc = ["pu:2", "core:2 pu:2", "node:2 pu:1"][(n // 3) % 3] if thorough else "pu:2"
        lines = ["reset", "load %d 0 synthetic %s" % (n % 2, desc), "prep info hwvpad %s" % ("x" * k if k else "y"), "snapshot", "get_length 0",
                 "write 0 %d 0 0 0 0 0 0 1 0 0" % off, "adopter", "adopt 0 0 0 0 0 0 0 0 0 1 0", "destroy 0", "end"]
        behs.append("\n".join(lines) + "\n")
    return behs


def run(ctx, replay=None):
    ctx.build_lib()
    exe = ctx.cc("hwv_shmem.c", "hwv_shmem")
    # a small ASan quarantine keeps the recorder processes small: every behaviour forks a writer and adopters from them
    env = {"HWV_WATCHDOG": "120", "ASAN_OPTIONS": "quarantine_size_mb=4"}

    def replay_fn(text):
        p = ctx.path("replay-%d.beh" % random.randrange(1 << 30))
        open(p, "w").write(text)
        t = p + ".ndjson"
        ctx.record(exe, p, t, env=env)
        return ctx.validate("TraceShmem", t, nshards=1)

    if replay:
        rej = replay_fn(open(replay).read())
        for r in rej:
            vlib.log("rejected event:", r["line"][:1500])
            print("VIOLATION property=C19 replay=%s" % replay)
        ctx.cleanup()
        return 1 if rej else 0

    thorough = ctx.tier == "thorough"
    rng = random.Random(ctx.seed)
    behs = []
    per_cfg = {}
    budget = {"write": 4000, "adopt": 6000, "patch": 3000, "calls": 9000, "two": 6000} if thorough else {"write": 250, "adopt": 400, "patch": 200, "calls": 700, "two": 300}
    # long random walks over the whole alphabet
    simk = dict(BASE, Slots=[0, 1], WriteDevs=ALL_WRITE_DEVS, AdoptDevs=ALL_ADOPT_DEVS, PunchModes=[0, 1, 2], PatchFields=ALL_FIELDS, CallSet=ALL_CALLS,
                MaxWrites=3, MaxMods=2, MaxPatches=4, MaxAdopters=40, MaxFail=40, MaxOK=40, MaxCalls=60, MaxDestroys=40)
    simlen = 30 if thorough else 24
    jobs = []
    for cname, k in model_cfgs(thorough):
        for dis in (True, False):
            if cname in ("write", "patch") and not dis and not thorough:
                continue        # Disallowed only matters for calls
            jobs.append(("bfs", cname, dis, k))
    for dis in (True, False):
        jobs.append(("sim", "sim", dis, simk))

    def tlc_job(j):
        kind, cname, dis, k = j
        gen = [("MC_Shmem_gen.tla", gen_module(k, dis))]
        if kind == "bfs":
            return ctx.tlc_mc("MC_Shmem_gen", gen_cfg(k, dis, 1, 0, 0, True), tag="bfs_%s_%d" % (cname, dis), workers=3, extra_modules=gen, timeout=2400, heap="4g")
        return ctx.tlc_mc("MC_Shmem_gen", gen_cfg(k, dis, 1, 0, simlen, False), tag="sim_%d" % dis, workers=2, extra_modules=gen,
                          simulate="num=%d" % (300 if thorough else 30), depth=simlen + 2, timeout=900, heap="4g")
    import concurrent.futures as cf
    with cf.ThreadPoolExecutor(max_workers=4) as ex:
        results = list(ex.map(tlc_job, jobs))
    for (kind, cname, dis, k), (out, st) in zip(jobs, results):
        topos = [t for t in TOPOS if t[1] == dis]
        if kind == "bfs":
            if st["error"] or st["rc"] != 0:
                raise vlib.Infra("model check of MC_Shmem (%s) failed (model-level, not a violation): %s\n%s" % (cname, st["error"], out[-2500:]))
            hists = list(vlib.tlc_printed(out, "EDGE"))
            per_cfg["%s/%s" % (cname, "dis" if dis else "nodis")] = len(hists)
            keep = budget[cname] // 2 if cname not in ("write", "patch") or thorough else budget[cname]
            if len(hists) > keep:
                hists = rng.sample(hists, keep)          # seeded sample of the state-graph edges
        else:
            if st["error"]:
                raise vlib.Infra("simulation of MC_Shmem failed: %s\n%s" % (st["error"], out[-2500:]))
            hists = list(vlib.tlc_printed(out, "SIM"))
            per_cfg["sim/%s" % ("dis" if dis else "nodis")] = len(hists)
        for n, h in enumerate(hists):
            behs.append(render(h, topos[n % len(topos)], n))
    nmodel = len(behs)
    behs += corpus_behaviours(thorough, rng)
    ncorpus = len(behs) - nmodel
    behs += sweep_behaviours(thorough)

    ctx.samples = [behs[0], behs[nmodel // 2], behs[-1]]
    bf = ctx.path("behaviours.txt")
    open(bf, "w").write("".join(behs))
    tf = ctx.path("trace.ndjson")
    ctx.record(exe, bf, tf, timeout=3000, env=env, parallel=vlib.NCPU)
    rejs = ctx.validate("TraceShmem", tf, nshards=32 if thorough else 16, timeout=3000)
    ctx.handle_rejections(rejs, behs, replay_fn)
    return ctx.finish(
        rule="behaviours = edges of the state graph of MC_Shmem.tla explored exhaustively in five focused configurations (all write variants x 3 page-aligned offsets; all 13 adopt "
             "deviations x 3 preparations of the address range with up to 2 failures and re-adoption after destroy; damaged/repaired header and ABI bytes seen by two adopter processes; "
             "the whole alphabet of %d public calls on the adopted topology, 3 in a row; two images at two addresses with two adopted topologies alive), seeded samples of them in the quick "
             "tier, plus TLC-simulated long walks over everything, plus every bundled XML input and synthetic family written and adopted once, plus a sweep of the needed size in 8-byte "
             "steps across one page (so that the used area ends right below a page boundary in some behaviour). Each is replayed on the rebuilt library "
             "(write and adopt in separate forked processes, PROT_NONE pages around the target range) and every event validated by TLC against TraceShmem.tla. "
             "Non-trivial = contains at least one write and one adopt." % len(ALL_CALLS),
        assumptions=["cross-ABI adoption is simulated by flipping a bit of the ABI word / header fields in the file, not by a second build",
                     "object-level calls without a topology argument (hwloc_obj_add_info on an object of the mapping) are documented as not usable and are not driven",
                     "ENOMEM paths are not driven; the adopter is always a fork of the master (same address-space layout)"],
        extra={"behaviours": len(behs), "model_edges": per_cfg, "corpus_behaviours": ncorpus, "size_sweep_behaviours": len(behs) - nmodel - ncorpus})
