"""C19 - shared-memory topologies: length suffices, adopted copy is equal and read-only.
Model: spec/Shmem.tla (expectations), spec/MC_Shmem.tla (bounded protocol model: configuration of the original topology = topology
flag word x source x stores added by the application x stale caches; master / writer / adopter processes, file images at near and far
(2 GiB, 4 GiB) offsets, address ranges); binding: spec/TraceShmem.tla, harness/hwv_shmem.c (write and adopt in separate forked
processes, PROT_NONE reservation around the target range, file bytes outside the segment digested, sparse file)."""
import os, random, json
import vlib, corpus

# ---- original topologies.  The model (MC_Shmem.tla, OrigSpace) says how the original is loaded (from the description or through XML,
# topology flag word), which stores the application adds after load and whether a restrict leaves their caches stale; a family says
# with which description and which lines (the restrict of a family removes objects that its stores name) ----
FAMILIES = {
    "numa2": dict(desc="node:2 core:2 pu:2", preset=0, pre=[],
                  dist=["prep dist 5 14 2 0", "prep dist 6 4 4 0"],
                  memattr=["prep memattr 2 2 0", "prep memattr 5 2 1", "prep memattr 6 2 2", "prep memvalue Bandwidth 1 500"],
                  cpukind=["prep cpukind 0-3 1 CoreType big", "prep cpukind 4-7 0 CoreType small"],
                  deco=["prep info hwvinfo hello", "prep tinfo hwvtinfo world", "prep subtype MySub", "prep userdata"],
                  restrict="prep restrict 1 0-2", tail=[]),
    "pack2": dict(desc="pack:2 core:2 pu:2", preset=0, pre=[],
                  dist=["prep dist 5 4 8 0"], memattr=["prep memattr 2 1 0"], cpukind=["prep cpukind 0-3 1 CoreType big"],
                  deco=["prep info hwvroot r"], restrict="prep restrict 0 0-5", tail=[]),
    "numa3": dict(desc="[numa] pack:2 [numa] core:2 pu:2", preset=0, pre=[],
                  dist=["prep dist 5 4 8 0", "prep dist 9 3 4 0"], memattr=["prep memattr 5 3 1"],
                  cpukind=["prep cpukind 0-1 -1 FrequencyMaxMHz 3000", "prep cpukind 2-7 -1 FrequencyMaxMHz 2000"],
                  deco=["prep allow 4 0-5 -", "prep info hwvroot r"], restrict="prep restrict 0 0-5", tail=[]),
    "keepall": dict(desc="pack:2 numa:2 l2:1 l1i:1 l1d:1 core:1 pu:2", preset=1, pre=["prep misc hwvmisc", "prep group 0-3", "prep info hwvroot r"],
                    dist=["prep dist 5 14 4 1"], memattr=["prep memvalue Latency 0 30", "prep memattr 1 4 0"], cpukind=["prep cpukind 0-1 2 CoreType k"],
                    deco=["prep userdata"], restrict="prep restrict 8 0-2", tail=[]),
}
# the four hand-made originals the check started with, as points of the space: (family, source, flag word, dist, memattr, cpukind, staleness)
LEGACY = [("numa2", "syn", 1, 1, 1, 1, "none"), ("pack2", "syn", 0, 0, 0, 0, "none"), ("numa3", "syn", 1, 1, 1, 1, "restrict"), ("keepall", "syn", 0, 1, 1, 0, "refreshed")]


def orig_lines(o):
    """the configuration of the original (first entry of a history) -> behaviour lines up to the first snapshot"""
    fam, src, flags, d, m, c, stale = o
    F = FAMILIES[fam]
    if src == "xml":
        # the XML source carries all three stores; the flag word decides what the import keeps
        lines = ["load 0 %d synthetic %s" % (F["preset"], F["desc"])] + F["dist"] + F["memattr"] + F["cpukind"] + ["reload %d %d" % (flags, F["preset"])]
    else:
        lines = ["load %d %d synthetic %s" % (flags, F["preset"], F["desc"])]
    lines += F["pre"] + (F["dist"] if d else []) + (F["memattr"] if m else []) + (F["cpukind"] if c else []) + F["deco"]
    if stale != "none":
        lines.append(F["restrict"])        # caches of distances / memattrs are stale when the topology is measured and written
    if stale == "refreshed":
        lines.append("prep refresh")
    return lines + F["tail"]


MODS = ["prep info hwvmod v%d", "prep cpukind 0 3 Mod m%d", "prep memattr 2 1 0 # %d", "prep misc mod%d"]

CALLS_MODIFY = [
    ("restrict", 0, 0, "0-1", ""), ("restrict", 1, 0, "0", ""), ("restrict", 8, 0, "0", ""), ("restrict", 64, 0, "0", ""), ("restrict", 0, 0, "none", ""),
    ("insert_misc", 0, 0, "hwvmisc2", ""), ("alloc_group", 0, 0, "", ""), ("insert_group", 0, 0, "0-1", ""), ("free_group", 0, 0, "", ""),
    ("dist_add_create", 5, 0, "", ""), ("dist_add_create", 0, 0, "", ""), ("dist_remove", 0, 0, "", ""),
    ("dist_remove_by_depth", 14, 0, "", ""), ("dist_remove_by_depth", 4, 0, "", ""), ("dist_release_remove", 0, 0, "", ""), ("dist_release_remove", 1, 0, "", ""),
    ("memattr_register", 2, 0, "hwvnew", ""), ("memattr_register", 0, 0, "hwvbad", ""), ("memattr_register", 1, 0, "Bandwidth", ""),
    ("memattr_set_value", 2, 1, "", ""), ("memattr_set_value", 8, 0, "", ""), ("memattr_set_value", 0, 0, "", ""), ("memattr_set_value", 3, 2, "", ""),
    ("cpukinds_register", 1, 0, "0-1", ""), ("cpukinds_register", -1, 0, "2", ""),
    ("diff_apply", 0, 0, "", ""), ("diff_apply", 1, 0, "", ""), ("set_subtype", 0, 0, "hwvsub", ""),
]
CALLS_CONFIG = [("set_flags", 0, 0, "", ""), ("set_flags", 1, 0, "", ""), ("set_type_filter", 19, 0, "", ""), ("set_synthetic", 0, 0, "", ""), ("load", 0, 0, "", "")]
CALLS_CONSULT = [("observe", 0, 0, "", ""), ("export_xml", 0, 0, "", ""), ("dup", 0, 0, "", ""), ("dup", 1, 0, "", ""), ("get_length", 0, 0, "", ""), ("get_length", 1, 0, "", ""),
                 ("check", 0, 0, "", ""), ("set_userdata", 77, 0, "", ""), ("bind_get", 1, 0, "", ""), ("abi_check", 0, 0, "", ""), ("refresh", 0, 0, "", ""),
                 ("reshare", 0, 0, "", "")]
CALLS_SPECIAL = [("allow", 1, 0, "-", "-"), ("allow", 4, 0, "0-1", "-"), ("allow", 4, 0, "-", "0"), ("allow", 4, 0, "2-3", "0"), ("allow", 4, 0, "100", "-"),
                 ("allow", 2, 0, "-", "-"), ("allow", 1, 0, "0", "-"), ("allow", 3, 0, "-", "-"), ("allow", 4, 0, "-", "-"), ("tinfo_add", 0, 0, "hwvt", "1")]
CALLS_STORES = [("observe", 0, 0, "", ""), ("export_xml", 0, 0, "", ""), ("dup", 1, 0, "", ""), ("reshare", 0, 0, "", ""), ("refresh", 0, 0, "", ""), ("check", 0, 0, "", ""),
                ("dist_release_remove", 0, 0, "", ""), ("dist_remove", 0, 0, "", ""), ("memattr_set_value", 2, 1, "", ""), ("cpukinds_register", 1, 0, "0-1", ""),
                ("allow", 1, 0, "-", "-"), ("diff_apply", 0, 0, "", "")]
ALL_CALLS = CALLS_MODIFY + CALLS_CONFIG + CALLS_CONSULT + CALLS_SPECIAL
ALL_ADOPT_DEVS = ["none", "doff+", "doff-", "dorem", "eof", "slot", "shift+", "shift-", "arem", "dlen+", "dlen-", "lrem", "flags"]
ALL_WRITE_DEVS = ["none", "orem", "arem", "dlen", "lrem", "busy", "flags"]
ALL_FIELDS = ["version", "hdrlen", "addr", "len", "abi"]


def tla_str_set(xs):
    return "{" + ", ".join('"%s"' % x for x in xs) + "}"


def tla_int_set(xs):
    return "{" + ", ".join(str(x) for x in xs) + "}"


def tla_calls(cs):
    return "{" + ", ".join('<<"%s", %d, %d, "%s", "%s">>' % c for c in cs) + "}"


BASE = dict(Origs=LEGACY, Bases=[0, 1], Offsets=[0, 1, 3], Slots=[0], WriteDevs=["none"], AdoptDevs=["none"], PunchModes=[1], PatchFields=[], CallSet=[("observe", 0, 0, "", "")],
            MaxWrites=1, MaxMods=0, MaxPatches=0, MaxAdopters=1, MaxFail=0, MaxOK=1, MaxCalls=0, MaxDestroys=1)


def model_cfgs(thorough, seed=0):
    """focused configurations of MC_Shmem: each explores one dimension exhaustively around the nominal protocol"""
    c = []
    # every write variant at every offset, a failed write may be followed by a second one; then the nominal adoption
    # (also at file offsets of 2 GiB and 4 GiB + k pages: the file is sparse)
    c.append(("write", dict(BASE, Bases=[0, 1, 2, 3] if thorough else [0, 1, 2], WriteDevs=ALL_WRITE_DEVS, MaxWrites=2, MaxCalls=1, MaxFail=1)))
    # every adopt variant x preparation of the range, up to 2 failures, re-adoption after destroy
    c.append(("adopt", dict(BASE, AdoptDevs=ALL_ADOPT_DEVS, PunchModes=[0, 1, 2], MaxFail=2, MaxOK=2, MaxCalls=1 if thorough else 0, MaxDestroys=2 if thorough else 1)))
    # nothing written at all, and a damaged header / ABI word, repaired again, seen by up to two adopter processes
    c.append(("patch", dict(BASE, Offsets=[1] if not thorough else [0, 1, 3], PatchFields=ALL_FIELDS, MaxPatches=2, MaxAdopters=2, MaxFail=2, MaxOK=2, MaxWrites=1,
                            AdoptDevs=["none", "doff+"], MaxCalls=0)))
    # the whole alphabet of public calls on the adopted topology, up to 3 in a row
    c.append(("calls", dict(BASE, Offsets=[1], CallSet=ALL_CALLS, MaxCalls=3, MaxOK=1, MaxDestroys=1)))
    # two images (the original modified in between) at two addresses, two adopted topologies alive at once
    # (the largest graph: the quick tier runs it from one hand-made original per INCLUDE_DISALLOWED value, chosen by the seed)
    c.append(("two", dict(BASE, Origs=LEGACY if thorough else [LEGACY[(0, 2)[seed % 2]], LEGACY[(1, 3)[seed % 2]]], Offsets=[0, 1] if not thorough else [0, 1, 3], Slots=[0, 1], MaxWrites=2, MaxMods=1, AdoptDevs=["none", "slot"], PunchModes=[0, 1], MaxFail=1, MaxOK=3,
                          MaxCalls=1, MaxDestroys=2, CallSet=[("allow", 4, 0, "0-1", "-"), ("restrict", 0, 0, "0-1", ""), ("observe", 0, 0, "", "")])))
    # the original topology: topology flag words x source (description / through XML) x stores added by the application after load x
    # stale caches left by a restrict, around the nominal protocol with one call that consults or tries to modify a store
    c.append(("orig", dict(BASE, Origs='OrigSpace(%s, {"syn", "xml"}, %s)' % (tla_str_set(sorted(FAMILIES) if thorough else ["numa2"]), "AllFlagWords" if thorough else "FewFlagWords"),
                           Bases=[0], Offsets=[1], CallSet=CALLS_STORES, MaxCalls=1, MaxOK=1, MaxDestroys=1)))
    return c


def tla_origs(origs, disallowed=None):
    if isinstance(origs, str):
        return origs
    return "{" + ", ".join('<<"%s", "%s", %d, %d, %d, %d, "%s">>' % o for o in origs if disallowed is None or bool(o[2] & 1) == disallowed) + "}"


def gen_module(k, disallowed):
    return ("---- MODULE MC_Shmem_gen ----\nEXTENDS MC_Shmem\nGOrigs == %s\nGBases == %s\nGOffsets == %s\nGSlots == %s\nGWriteDevs == %s\nGAdoptDevs == %s\nGPunch == %s\nGFields == %s\nGCalls == %s\n====\n"
            % (tla_origs(k["Origs"], disallowed), tla_int_set(k["Bases"]), tla_int_set(k["Offsets"]), tla_int_set(k["Slots"]), tla_str_set(k["WriteDevs"]), tla_str_set(k["AdoptDevs"]), tla_int_set(k["PunchModes"]),
               tla_str_set(k["PatchFields"]), tla_calls(k["CallSet"])))


def gen_cfg(k, disallowed, nstripes, stripe, simlen, bfs):
    s = ("SPECIFICATION Spec\nCONSTANTS\n  Origs <- GOrigs\n  Bases <- GBases\n  Offsets <- GOffsets\n  Slots <- GSlots\n  WriteDevs <- GWriteDevs\n  AdoptDevs <- GAdoptDevs\n  PunchModes <- GPunch\n"
         "  PatchFields <- GFields\n  CallSet <- GCalls\n")
    for n in ("MaxWrites", "MaxMods", "MaxPatches", "MaxAdopters", "MaxFail", "MaxOK", "MaxCalls", "MaxDestroys"):
        s += "  %s = %d\n" % (n, k[n])
    s += "  NStripes = %d\n  Stripe = %d\n  SimLen = %d\nVIEW StateView\nCHECK_DEADLOCK FALSE\n" % (nstripes, stripe, simlen)
    s += "INVARIANTS AdoptedExact RangesExclusive AllowNeedsFlag ImagesDisjoint MasterHasNoAdoptions\n"
    if bfs:
        s += "ACTION_CONSTRAINT EmitEdge\n"
    return s


REM = 8           # a model remainder of 1 is 8 bytes
EOF_PAGES = 100000


def render(hist, modseed=0):
    """TLC history -> behaviour text"""
    lines = ["reset"]
    nmod = 0
    for e in hist:
        op = e[0]
        if op == "orig":
            lines += orig_lines(tuple(e[1:])) + ["snapshot", "get_length 0"]
        elif op == "write":
            _, obase, opg, orem, slot, shift, arem, dlen, lrem, punch, flags, tail = e
            lines.append("write %d %d %d %d %d %d %d %d %d %d %d" % (obase, opg, orem * REM, slot, shift, arem * REM, dlen, lrem * REM, punch, flags, tail))
        elif op == "modify":
            m = MODS[(modseed + nmod) % len(MODS)]
            lines += [(m % nmod) if "%d" in m else m, "snapshot", "get_length 0"]
            nmod += 1
        elif op == "patch":
            lines.append("patch %d %s" % (e[1], e[2]))
        elif op == "adopter":
            lines.append("adopter")
        elif op == "end":
            lines.append("end")
        elif op == "adopt":
            _, h, k, doff, dorem, slot, shift, arem, dlen, lrem, punch, flags = e
            lines.append("adopt %d %d %d %d %d %d %d %d %d %d %d" % (h, k, EOF_PAGES if doff == 100 else doff, dorem * REM, slot, shift, arem * REM, dlen, lrem * REM, punch, flags))
        elif op == "call":
            _, h, name_, x, y, s1, s2 = e
            lines.append(("call %d %s %d %d %s %s" % (h, name_, x, y, s1, s2)).rstrip())
        elif op == "destroy":
            lines.append("destroy %d" % e[1])
    if "adopter" in lines and lines.count("adopter") > lines.count("end"):
        lines.append("end")
    return "\n".join(lines) + "\n"


# topology flag bits that the corpus inputs are loaded with besides INCLUDE_DISALLOWED (NO_DISTANCES, NO_MEMATTRS, NO_CPUKINDS, IMPORT_SUPPORT:
# what the XML carries is ignored / imported), cycling with a period coprime to the other choices
CORPUS_FLAGS = [0, 0, 128, 0, 256, 0, 512, 8, 896]


def corpus_behaviours(thorough, rng):
    """every bundled XML input and synthetic family: written and adopted once (all types kept), observed, destroyed, adopted again"""
    behs = []
    srcs = corpus.xml_sources() + corpus.synthetic_sources()
    for n, s in enumerate(srcs):
        if s["kind"] == "xml":
            if not thorough and os.path.getsize(s["path"]) > 120000 and n % 2:
                continue
            load = "load %d 1 xml %s" % ((1 if n % 2 == 0 else 0) + CORPUS_FLAGS[n % len(CORPUS_FLAGS)], s["path"])
        else:
            load = "load %d 1 synthetic %s" % ((1 if n % 2 == 0 else 0) + CORPUS_FLAGS[n % len(CORPUS_FLAGS)], s["desc"])
        off = [0, 1, 3][n % 3]
        lines = ["reset", load, "prep userdata", "prep info hwvroot r", "snapshot", "get_length 0", "write 0 %d 0 %d 0 0 0 0 1 0 %d" % (off, n % 2, 2 if n % 4 == 0 else 0), "adopter",
                 "adopt 0 0 0 0 %d 0 0 0 0 1 0" % (n % 2), "call 0 check 0 0", "call 0 restrict 0 0 0", "call 0 diff_apply 0 0", "call 0 refresh 0 0", "call 0 allow 1 0 - -", "call 0 dup 1 0",
                 "destroy 0", "adopt 1 0 0 0 %d 0 0 0 0 0 0" % (n % 2), "call 1 observe 0 0", "end"]
        behs.append("\n".join(lines) + "\n")
    # this machine (is_thissystem: binding hooks and HWLOC_ALLOW_FLAG_LOCAL_RESTRICTIONS reach the operating system from the adopted copy)
    for fl in (1, 0):
        lines = ["reset", "load %d 1 native" % fl, "prep userdata", "snapshot", "get_length 0", "write 0 1 0 0 0 0 0 0 1 0 0", "adopter",
                 "adopt 0 0 0 0 0 0 0 0 0 1 0", "call 0 bind_get 1 0", "call 0 allow 2 0 - -", "call 0 check 0 0", "call 0 allow 1 0 - -", "call 0 restrict 0 0 0",
                 "call 0 dup 1 0", "call 0 refresh 0 0", "destroy 0", "adopt 0 0 0 0 0 0 0 0 0 0 0", "call 0 observe 0 0", "end"]
        behs.append("\n".join(lines) + "\n")
    return behs


def sweep_behaviours(thorough):
    """the needed size moves in steps of 8 bytes across one page (an info value that grows): whatever the alignment of the used area,
    some behaviour has it end within 8 bytes of a page boundary, where an underestimated get_length() makes write() hit the guard page"""
    behs = []
    step = 8
    for n, k in enumerate(range(0, 4096 + step, step)):
        off = [0, 1, 3][n % 3]
        desc = ["pu:2", "core:2 pu:2", "node:2 pu:1"][(n // 3) % 3] if thorough else "pu:2"
        lines = ["reset", "load %d 0 synthetic %s" % (n % 2, desc), "prep info hwvpad %s" % ("x" * k if k else "y"), "snapshot", "get_length 0",
                 "write 0 %d 0 0 0 0 0 0 1 0 0" % off, "adopter", "adopt 0 0 0 0 0 0 0 0 0 1 0", "destroy 0", "end"]
        behs.append("\n".join(lines) + "\n")
    return behs


def run(ctx, replay=None):
    ctx.build_lib()
    exe = ctx.cc("hwv_shmem.c", "hwv_shmem")
    # a small ASan quarantine keeps the recorder processes small: every behaviour forks a writer and adopters from them
    env = {"HWV_WATCHDOG": "120", "ASAN_OPTIONS": "quarantine_size_mb=4"}

    def replay_fn(text):
        p = ctx.path("replay-%d.beh" % random.randrange(1 << 30))
        open(p, "w").write(text)
        t = p + ".ndjson"
        ctx.record(exe, p, t, env=env)
        return ctx.validate("TraceShmem", t, nshards=1)

    if replay:
        rej = replay_fn(open(replay).read())
        for r in rej:
            vlib.log("rejected event:", r["line"][:1500])
            print("VIOLATION property=C19 replay=%s" % replay)
        ctx.cleanup()
        return 1 if rej else 0

    thorough = ctx.tier == "thorough"
    rng = random.Random(ctx.seed)
    behs = []
    per_cfg = {}
    budget = ({"write": 4000, "adopt": 6000, "patch": 3000, "calls": 9000, "two": 6000, "orig": 6200} if thorough
              else {"write": 300, "adopt": 400, "patch": 200, "calls": 700, "two": 300, "orig": 450})
    # the quick tier only prints a stripe of the edges of the two largest graphs (it samples a few hundred of them anyway)
    stripes = {"orig": 4} if thorough else {"write": 2, "two": 2}
    # long random walks over the whole alphabet
    simk = dict(BASE, Origs='OrigSpace(%s, {"syn", "xml"}, AllFlagWords)' % tla_str_set(sorted(FAMILIES)), Bases=[0, 1, 2, 3], Slots=[0, 1], WriteDevs=ALL_WRITE_DEVS, AdoptDevs=ALL_ADOPT_DEVS, PunchModes=[0, 1, 2], PatchFields=ALL_FIELDS, CallSet=ALL_CALLS,
                MaxWrites=3, MaxMods=2, MaxPatches=4, MaxAdopters=40, MaxFail=40, MaxOK=40, MaxCalls=60, MaxDestroys=40)
    simlen = 30 if thorough else 24
    jobs = []
    for cname, k in model_cfgs(thorough, ctx.seed):
        if isinstance(k["Origs"], str):
            jobs.append(("bfs", cname, None, k))          # the configuration ranges over the originals itself
            continue
        for dis in (True, False):                         # the hand-made originals loaded with / without INCLUDE_DISALLOWED
            if cname in ("write", "patch") and not dis and not thorough:
                continue        # INCLUDE_DISALLOWED only matters for calls
            jobs.append(("bfs", cname, dis, k))
    jobs.append(("sim", "sim", None, simk))

    def tlc_job(j):
        kind, cname, dis, k = j
        gen = [("MC_Shmem_gen.tla", gen_module(k, dis))]
        if kind == "bfs":
            ns = stripes.get(cname, 1)
            return ctx.tlc_mc("MC_Shmem_gen", gen_cfg(k, dis, ns, ctx.seed % ns, 0, True), tag="bfs_%s_%s" % (cname, {True: "1", False: "0", None: "x"}[dis]), workers=3, extra_modules=gen, timeout=2400, heap="4g")
        return ctx.tlc_mc("MC_Shmem_gen", gen_cfg(k, dis, 1, 0, simlen, False), tag="sim", workers=2, extra_modules=gen,
                          simulate="num=%d" % (600 if thorough else 60), depth=simlen + 2, timeout=900, heap="4g")
    import concurrent.futures as cf
    with cf.ThreadPoolExecutor(max_workers=4) as ex:
        results = list(ex.map(tlc_job, jobs))
    disname = {True: "dis", False: "nodis", None: "all"}
    for (kind, cname, dis, k), (out, st) in zip(jobs, results):
        if kind == "bfs":
            if st["error"] or st["rc"] != 0:
                raise vlib.Infra("model check of MC_Shmem (%s) failed (model-level, not a violation): %s\n%s" % (cname, st["error"], out[-2500:]))
            hists = list(vlib.tlc_printed(out, "EDGE"))
            per_cfg["%s/%s" % (cname, disname[dis])] = len(hists)
            keep = budget[cname] // 2 if dis is not None and (cname not in ("write", "patch") or thorough) else budget[cname]
            if len(hists) > keep and dis is None:
                # every original gets its share: the longest histories of each (they contain the write, the adoption and a call), seeded choice among them
                groups = {}
                for h in hists:
                    groups.setdefault(tuple(h[0]), []).append(h)
                share = max(1, keep // len(groups))
                hists = []
                for key in sorted(groups):
                    g = groups[key]
                    rng.shuffle(g)
                    g.sort(key=len, reverse=True)
                    hists += g[:share]
            elif len(hists) > keep:
                hists = rng.sample(hists, keep)          # seeded sample of the state-graph edges
        else:
            if st["error"]:
                raise vlib.Infra("simulation of MC_Shmem failed: %s\n%s" % (st["error"], out[-2500:]))
            hists = list(vlib.tlc_printed(out, "SIM"))
            per_cfg["sim/all"] = len(hists)
        for n, h in enumerate(hists):
            behs.append(render(h, n))
    nmodel = len(behs)
    behs += corpus_behaviours(thorough, rng)
    ncorpus = len(behs) - nmodel
    behs += sweep_behaviours(thorough)

    ctx.samples = [behs[0], behs[nmodel // 2], behs[-1]]
    bf = ctx.path("behaviours.txt")
    open(bf, "w").write("".join(behs))
    tf = ctx.path("trace.ndjson")
    ctx.record(exe, bf, tf, timeout=3000, env=env, parallel=vlib.NCPU)
    rejs = ctx.validate("TraceShmem", tf, nshards=32 if thorough else 16, timeout=3000)
    ctx.handle_rejections(rejs, behs, replay_fn)
    return ctx.finish(
        rule="behaviours = edges of the state graph of MC_Shmem.tla explored exhaustively in six focused configurations (all write variants x 3 page-aligned offsets from the file start, "
             "the previous image, 2 GiB and 4 GiB in a sparse file; all 13 adopt "
             "deviations x 3 preparations of the address range with up to 2 failures and re-adoption after destroy; damaged/repaired header and ABI bytes seen by two adopter processes; "
             "the whole alphabet of %d public calls on the adopted topology, 3 in a row; two images at two addresses with two adopted topologies alive; the original topology ranging over topology flag words (INCLUDE_DISALLOWED, IMPORT_SUPPORT, NO_DISTANCES, "
             "NO_MEMATTRS, NO_CPUKINDS) x loaded from a description or through XML x distances / memory attribute values / CPU kinds added by the application after load x stale caches "
             "left by a restrict, refreshed or not), seeded samples of them in the quick "
             "tier, plus TLC-simulated long walks over everything, plus every bundled XML input and synthetic family written and adopted once, plus a sweep of the needed size in 8-byte "
             "steps across one page (so that the used area ends right below a page boundary in some behaviour). Each is replayed on the rebuilt library "
             "(write and adopt in separate forked processes, PROT_NONE pages around the target range) and every event validated by TLC against TraceShmem.tla. "
             "Non-trivial = contains at least one write and one adopt." % len(ALL_CALLS),
        assumptions=["cross-ABI adoption is simulated by flipping a bit of the ABI word / header fields in the file, not by a second build",
                     "object-level calls without a topology argument (hwloc_obj_add_info on an object of the mapping) are documented as not usable and are not driven",
                     "ENOMEM paths are not driven; the adopter is always a fork of the master (same address-space layout)"],
        extra={"behaviours": len(behs), "model_edges": per_cfg, "corpus_behaviours": ncorpus, "size_sweep_behaviours": len(behs) - nmodel - ncorpus})
