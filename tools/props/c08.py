"""C08 - hwloc_topology_restrict removes exactly what the set excludes, or nothing.
Model: spec/MC_Restrict.tla (resources-level design model, emits every (flags,set) edge once and twice);
oracle: TopoOps!RestrictRel via spec/TraceTopo.tla; recorder: harness/hwv_topo.c."""
import os, random, json, re, itertools
import vlib, corpus
from props import c01

# family: (name, source kind, description, prefix lines after load)
FAMILIES = [
    ("sym", "pack:2 core:2 pu:2", []),
    ("nested", "[numa] pack:2 [numa] core:2 pu:2", []),
    ("numa2", "node:2 core:2 pu:2", []),
    ("group", "group:2 pack:2 pu:2", []),
    ("asym", "pack:2 core:2 pu:2", ["restrict 0 0 c 0-4"]),
    ("cpuless", "node:3 pu:2", ["restrict 0 0 c 0-3"]),
    ("caches", "pack:2 l2:2 l1:1 core:1 pu:1", []),
    ("misc", "pack:2 core:2 pu:2", "MISC"),
    ("io", "pack:2 core:2 pu:2", "IO"),
    ("groupmisc", "pack:2 group:2 core:2 pu:1", "GROUPMISC"),      # Misc below objects of a level that a restrict makes redundant (merged)
    ("offline", "pack:2 core:2 pu:2", "OFFLINE"),       # PUs 1 and 6 offline: the complete cpuset is larger than the cpuset
]
OFFLINE_PUS = (1, 6)
PRESETS = {"default": [], "keepall": ["filter 0 -1 0"], "structure": ["filter 0 -1 2"]}

IO_SNIPPET = '''<object type="Bridge" gp_index="9001" bridge_type="0-1" bridge_pci="0000:[00-02]">
<object type="PCIDev" gp_index="9002" pci_busid="0000:01:00.0" pci_type="0200 [8086:1521] [0000:0000] 01" pci_link_speed="0.000000">
<object type="OSDev" gp_index="9003" name="eth0" osdev_type="16"/>
<object type="Misc" gp_index="9005" name="misc-under-pci"/>
</object>
<object type="PCIDev" gp_index="9004" pci_busid="0000:02:00.0" pci_type="0108 [144d:a808] [0000:0000] 00" pci_link_speed="0.000000">
<object type="OSDev" gp_index="9006" name="nvme0n1" osdev_type="1"/>
</object>
</object>
'''


def ranges_text(r):
    """list of (lo,hi) -> hwloc list-format string"""
    if not r:
        return "none"
    return ",".join(("%d-" % lo) if hi == -1 else ("%d" % lo if lo == hi else "%d-%d" % (lo, hi)) for lo, hi in r)


def set_to_ranges(s):
    s = sorted(s)
    out = []
    for x in s:
        if out and out[-1][1] + 1 == x:
            out[-1][1] = x
        else:
            out.append([x, x])
    return [tuple(x) for x in out]


def tla_ranges(r):
    return "<<" + ", ".join("<<%d, %d>>" % (lo, hi) for lo, hi in r) + ">>"


def prepass(ctx, exe):
    """load every family once; returns {name: dict(pus, nodes{os:cpus}, gps{type:[gp..]}, xml)}"""
    lines = []
    for name, desc, prefix in FAMILIES:
        lines += ["reset 1", "init 0", "synthetic 0 " + desc, "filter 0 -1 0", "load 0", "export_xml 0 %s 0" % ctx.path("fam-%s.xml" % name), "destroy 0"]
    bf = ctx.path("prepass.beh")
    open(bf, "w").write("\n".join(lines) + "\n")
    tf = ctx.path("prepass.ndjson")
    ctx.record(exe, bf, tf)
    info = {}
    fams = iter(FAMILIES)
    for line in open(tf):
        if '"e":"load"' not in line:
            continue
        name = next(fams)[0]
        ev = json.loads(line)
        t = ev["topos"][0]
        pus = sorted(o["os"] for o in t["objs"] if o["type"] == 4)
        nodes = {}
        for o in t["objs"]:
            if o["type"] == 14:
                cs = set()
                for lo, hi in o["cs"]:
                    cs.update(range(lo, hi + 1))
                nodes[o["os"]] = sorted(cs)
        gps = {}
        for o in t["objs"]:
            gps.setdefault(o["type"], []).append(o["gp"])
        info[name] = {"pus": pus, "nodes": nodes, "gps": gps}
    for name, desc, prefix in FAMILIES:
        if prefix == "OFFLINE" and name in info:        # the model knows the online PUs only
            info[name]["pus"] = [p for p in info[name]["pus"] if p not in OFFLINE_PUS]
            info[name]["nodes"] = {n: [p for p in cs if p not in OFFLINE_PUS] for n, cs in info[name]["nodes"].items()}
    return info


def make_io_xml(ctx, name):
    """the family's own XML export with a small PCI subtree attached under the first Package"""
    text = open(ctx.path("fam-%s.xml" % name)).read()
    m = re.search(r'<object type="Package"[^>]*>\n', text)
    if not m:
        raise vlib.Infra("cannot find Package in exported XML")
    text = text[:m.end()] + IO_SNIPPET + text[m.end():]
    p = ctx.path("fam-%s-io.xml" % name)
    open(p, "w").write(text)
    return p


def make_offline_xml(ctx, name, off=OFFLINE_PUS):
    """the family's own XML export where some PUs are offline: their PU objects are gone and their bits are cleared from every cpuset and
    allowed_cpuset, but kept in the complete cpusets (what the Linux backend reports for offline processors)"""
    text = open(ctx.path("fam-%s.xml" % name)).read()
    mask = 0
    for p in off:
        text, n = re.subn(r'[ \t]*<object type="PU" os_index="%d"[^>]*/>\n' % p, "", text)
        if n != 1:
            raise vlib.Infra("cannot find PU %d in exported XML" % p)
        mask |= 1 << p

    def clear(m):
        v = int(m.group(3), 16) & ~mask
        return "%s%s=\"0x%08x\"" % (m.group(1), m.group(2), v)
    text = re.sub(r'(\s)(cpuset|allowed_cpuset)="(0x[0-9a-f]+)"', clear, text)
    p = ctx.path("fam-%s-offline.xml" % name)
    open(p, "w").write(text)
    return p


def set_choices(info, rng, thorough):
    pus = info["pus"]
    choices = []
    n = len(pus)
    if thorough and n <= 8:
        for k in range(1, 1 << n):
            choices.append(set_to_ranges([pus[i] for i in range(n) if k >> i & 1]))
    else:
        # structured: singles, pairs of neighbours, halves, node localities, plus seeded random subsets
        for p in pus:
            choices.append(set_to_ranges([p]))
        for i in range(0, n - 1, 2):
            choices.append(set_to_ranges(pus[i:i + 2]))
        choices.append(set_to_ranges(pus[:n // 2]))
        choices.append(set_to_ranges(pus[n // 2:]))
        choices.append(set_to_ranges(pus[1:]))
        choices.append(set_to_ranges(pus[::2]))
        choices.append(set_to_ranges(pus[0:2] + pus[4:6]))        # one sub-tree of each half (levels become redundant)
        choices.append(set_to_ranges(pus[2:4] + pus[6:8]))
        for cs in info["nodes"].values():
            if cs:
                choices.append(set_to_ranges(cs))
        for _ in range(14):
            k = rng.randrange(1, 1 << n)
            choices.append(set_to_ranges([pus[i] for i in range(n) if k >> i & 1]))
    # supersets, disjoint, infinite, empty
    choices += [[(0, 63)], [(0, -1)], [(pus[n // 2], -1)], [(100, 100)], [(100, -1)], [], [(pus[0], pus[0]), (200, 300)]]
    uniq = []
    for c in choices:
        if c not in uniq:
            uniq.append(c)
    return uniq


def mc_module(info, choices, flagwords):
    nodes = info["nodes"]
    nc = "[n \\in {%s} |-> CASE %s]" % (", ".join(map(str, sorted(nodes))),
                                         " [] ".join("n = %d -> {%s}" % (n, ", ".join(map(str, cs))) for n, cs in sorted(nodes.items())))
    return ("---- MODULE MC_Restrict_gen ----\nEXTENDS MC_Restrict\nGPUs == {%s}\nGNodes == {%s}\nGNodeCpus == %s\nGSets == <<%s>>\nGFlags == {%s}\n====\n"
            % (", ".join(map(str, info["pus"])), ", ".join(map(str, sorted(nodes))), nc,
               ", ".join(tla_ranges(c) for c in choices), ", ".join(map(str, flagwords))))


def mc_cfg(maxsteps, nstripes, stripe):
    return ("SPECIFICATION Spec\nCONSTANTS\n  PUs <- GPUs\n  Nodes <- GNodes\n  NodeCpus <- GNodeCpus\n  SetChoices <- GSets\n  FlagWords <- GFlags\n"
            "  MaxSteps = %d\n  NStripes = %d\n  Stripe = %d\nVIEW StateView\nINVARIANTS NeverEmpty Monotone ComposeOK\nACTION_CONSTRAINT EmitEdge\nCHECK_DEADLOCK FALSE\n"
            % (maxsteps, nstripes, stripe))


def family_prefix(ctx, fam, info, preset):
    name, desc, prefix = fam
    lines = ["reset 1", "init 0"]
    if prefix == "IO":
        lines += ["xml 0 " + make_io_xml(ctx, name)]
        lines += PRESETS[preset] if preset != "default" else ["filter 0 -4 0", "filter 0 19 0"]
        lines += ["load 0"]
    elif prefix == "OFFLINE":
        lines += ["xml 0 " + make_offline_xml(ctx, name)] + PRESETS[preset] + ["load 0"]
    elif prefix == "GROUPMISC":
        lines += ["synthetic 0 " + desc] + (PRESETS[preset] if preset != "default" else []) + ["filter 0 19 0", "load 0"]
        g = info["gps"]
        # Misc below the first and third Group, below a Package and below a Core
        lines += ["insert_misc 0 %d m-g0" % g[13][0], "insert_misc 0 %d m-g2" % g[13][2], "insert_misc 0 %d m-pack" % g[1][0], "insert_misc 0 %d m-core" % g[3][1]]
    elif prefix == "MISC":
        lines += ["synthetic 0 " + desc] + (PRESETS[preset] if preset != "default" else []) + ["filter 0 19 0", "load 0"]
        g = info["gps"]
        # Misc under a PU, under a Core, under the root, and a Misc below a Misc
        lines += ["insert_misc 0 %d m-pu" % g[4][1], "insert_misc 0 %d m-core" % g[3][2], "insert_misc 0 %d m-root" % g[0][0],
                  "insert_misc 0 %d m-pack" % g[1][1]]
    else:
        lines += ["synthetic 0 " + desc] + PRESETS[preset] + ["load 0"] + list(prefix)
    return lines


def run(ctx, replay=None):
    ctx.build_lib()
    exe = ctx.cc("hwv_topo.c", "hwv_topo")
    replay_fn = c01.make_replay(ctx, exe)
    if replay:
        text = open(replay).read()
        m = re.search(r"xml 0 (\S+)/fam-(\w+)-(io|offline)\.xml", text)
        if m:
            prepass(ctx, exe)
            text = text.replace(m.group(0), "xml 0 " + (make_io_xml if m.group(3) == "io" else make_offline_xml)(ctx, m.group(2)))
        rej = replay_fn(text)
        for r in rej:
            vlib.log("rejected event:", r["line"][:1500])
            print("VIOLATION property=C08 replay=%s" % replay)
        ctx.cleanup()
        return 1 if rej else 0

    thorough = ctx.tier == "thorough"
    rng = random.Random(ctx.seed)
    info = prepass(ctx, exe)
    flagwords = list(range(33))
    behs = []
    fams = FAMILIES if thorough else [f for f in FAMILIES if f[0] in ("sym", "nested", "misc", "io", "cpuless", "offline", "groupmisc")]
    for fam in fams:
        name = fam[0]
        presets = ["default", "keepall", "structure"] if (thorough or name in ("nested",)) else (["structure"] if name == "sym" else ["default"])
        choices = set_choices(info[name], rng, thorough and name in ("sym", "nested"))
        if thorough:
            steps, ns = 2, (400 if name in ("sym", "nested") else 40)
        else:
            steps, ns = 2, 150
        out, st = ctx.tlc_mc("MC_Restrict_gen", mc_cfg(steps, ns, ctx.seed % ns), tag="restrict_" + name, workers=8,
                             extra_modules=[("MC_Restrict_gen.tla", mc_module(info[name], choices, flagwords))], timeout=1500)
        if st["error"] or st["rc"] != 0:
            raise vlib.Infra("MC_Restrict failed for family %s (model-level): %s\n%s" % (name, st["error"], out[-2000:]))
        edges = list(vlib.tlc_printed(out, "EDGE"))
        # every single-step edge is kept in thorough; quick keeps the stripe
        if thorough:
            single = [[[f, k + 1, 0]] for f in flagwords for k in range(len(choices))]
            edges = single + [e for e in edges if len(e) > 1]
        else:
            # quick: every flag word on every structured set (not the seeded random subsets) once, plus the stripe of the two-step edges
            nrand = 14
            structured = [k for k in range(len(choices)) if not (len(choices) - 7 - nrand <= k < len(choices) - 7)]
            single = [[[f, k + 1, 0]] for f in flagwords for k in structured]
            edges = single + [e for e in edges if len(e) > 1]
        for preset in presets:
            pre = family_prefix(ctx, fam, info[name], preset)
            for e in edges:
                lines = list(pre)
                for f, k, _ret in e:
                    lines.append("restrict 0 %d %s %s" % (f, "n" if f & 8 else "c", ranges_text(choices[k - 1])))
                lines.append("destroy 0")
                behs.append("\n".join(lines) + "\n")
    ctx.samples = [behs[0], behs[len(behs) // 2], behs[-1]]
    bf = ctx.path("behaviours.txt")
    open(bf, "w").write("".join(behs))
    tf = ctx.path("trace.ndjson")
    ctx.record(exe, bf, tf, timeout=3000, parallel=vlib.NCPU)
    rejs = ctx.validate("TraceTopo", tf, nshards=32 if thorough else 16, timeout=3000)
    ctx.handle_rejections(rejs, behs, replay_fn)
    return ctx.finish(
        rule="for each topology family (symmetric, nested memory, two NUMA, Group level, asymmetric, CPU-less node, caches, Misc objects, I/O subtree, offline PUs i.e. complete cpuset larger than cpuset) and filter preset, "
             "TLC enumerates every (flag word 0..32, argument set) pair applied once and (striped) twice from MC_Restrict.tla; each edge is replayed on the rebuilt "
             "library and RestrictRel (TopoOps.tla) is evaluated between the projections before and after. Non-trivial = the behaviour contains at least one restrict call.",
        assumptions=["which of two mergeable levels survives a KEEP_STRUCTURE merge is not asserted", "ENOMEM paths are not driven"],
        extra={"behaviours": len(behs), "families": [f[0] for f in fams]})
