"""C16 - topology diffs: build/apply/reverse are inverse, failures roll back.
Model: spec/Diff.tla (semantics + relations), spec/MC_Diff.tla (bounded scenarios);
binding: spec/TraceDiff.tla, harness/hwv_diff.c"""
import os, random, json
import concurrent.futures as cf
import vlib

# ---------------------------------------------------------------- model topologies (what a diff can see of them)
def obj(d, i, par, numa=0, name=None, infos=(), mem=0, tot=0, shape="s"):
    return dict(d=d, i=i, gp=0, par=par, numa=numa, name=[name] if name else [], infos=[list(x) for x in infos],
                mem=[mem, 0], tot=[tot, 0], shape=shape)

# three objects (root, one NUMA node, one leaf), duplicate info name on the root, one topology info
CFG1 = dict(depth=2, tshape="t", tinfos=[["k", "a"]], objs=[
    obj(0, 0, 0, name="a", infos=[("k", "a"), ("k", "b")], tot=1, shape="s1"),
    obj(-3, 0, 1, numa=1, mem=1, tot=1, shape="s2"),
    obj(1, 0, 1, name="b", infos=[("k", "a"), ("j", "b")], shape="s3")])
# a chain root > package > NUMA node (total_memory of two ancestors), identical duplicate pairs, duplicate topology info name
CFG2 = dict(depth=3, tshape="t", tinfos=[["k", "a"], ["k", "b"]], objs=[
    obj(0, 0, 0, infos=[("j", "a")], tot=2, shape="s1"),
    obj(1, 0, 1, name="a", infos=[("k", "b"), ("k", "a")], tot=2, shape="s2"),
    obj(-3, 0, 2, numa=1, name="c", infos=[("k", "a"), ("k", "a")], mem=2, tot=2, shape="s3")])
CONFIGS = {"c1": CFG1, "c2": CFG2}

# ---------------------------------------------------------------- real topologies the model objects are mapped to
# objs: model object number -> (depth, logical index) in the real topology
REAL = {
    "n2": dict(synth="node:2 pu:2", depth=3, numas=[(-3, 0), (-3, 1)], lastpu=3,
               maps={"c1": {1: (0, 0), 2: (-3, 0), 3: (2, 1)}, "c2": {1: (0, 0), 2: (1, 1), 3: (-3, 1)}}),
    "p2": dict(synth="pack:2 node:1 core:2 pu:1", depth=4, numas=[(-3, 0), (-3, 1)], lastpu=3,
               maps={"c1": {1: (0, 0), 2: (-3, 1), 3: (2, 0)}, "c2": {1: (0, 0), 2: (1, 0), 3: (-3, 0)}}),
    # with caches (their attributes are compared by diff_build); named/annotated objects: an L3 and a Core
    "l3": dict(synth="pack:2 [numa] l3:1 core:2 pu:1", depth=5, numas=[(-3, 0), (-3, 1)], lastpu=3,
               maps={"c1": {1: (0, 0), 2: (-3, 0), 3: (2, 1)}, "c2": {1: (0, 0), 2: (1, 1), 3: (-3, 1)}}),
}
STRINGS = [
    dict(vals={"a": "alpha", "b": "beta", "c": "gamma"}, keys={"k": "Key", "j": "Other"}, ref="ref.xml", unit=4096),
    dict(vals={"a": "a&b", "b": "<x y=\"1\"> ", "c": "it's > \\ %41;&amp;"}, keys={"k": "K&<\"'>", "j": "J j"}, ref="r&<>\"' .xml", unit=(1 << 32) + 1),
    dict(vals={"a": "0", "b": " ", "c": "x" * 300}, keys={"k": "k", "j": "kk"}, ref="/a/b c", unit=1),
    dict(vals={"a": "A", "b": "a", "c": "-1"}, keys={"k": "Backend", "j": "k"}, ref="ref", unit=10 ** 12),
    dict(vals={"a": "node", "b": "node0", "c": "nod"}, keys={"k": "Key2", "j": "Key"}, ref="x", unit=1 << 20),   # prefixes of each other
]


def enc(s):
    if s is None:
        return "-"
    out = "="
    for ch in s.encode():
        c = chr(ch)
        out += c if (c.isalnum() or c in "._:/+,") else "%%%02X" % ch
    return out


# ---------------------------------------------------------------- TLA+ text generation
def tla(v):
    if isinstance(v, dict):
        return "[" + ", ".join("%s |-> %s" % (k, tla(x)) for k, x in v.items()) + "]"
    if isinstance(v, (list, tuple)):
        return "<<" + ", ".join(tla(x) for x in v) + ">>"
    if isinstance(v, (set, frozenset)):
        return "{" + ", ".join(tla(x) for x in sorted(v, key=str)) + "}"
    if isinstance(v, str):
        return '"%s"' % v
    return str(v)


def gen_module(cfgname, flags, nvals):
    c = CONFIGS[cfgname]
    return ("---- MODULE MC_Diff_gen ----\nEXTENDS MC_Diff\nGA0 == %s\nGVals == %s\nGMems == %s\n"
            "GKeys == {\"k\", \"j\"}\nGFlags == %s\n====\n" % (tla(c), tla(set(["a", "b", "c"][:nvals])), tla(set([1, 2, 3][:nvals])), tla(set(flags))))


def cfg(mode, maxedits, maxhand, bfs, minlen=0):
    s = ("SPECIFICATION Spec\nCONSTANTS\n  A0 <- GA0\n  Vals <- GVals\n  Mems <- GMems\n  InfoKeys <- GKeys\n  ApplyFlags <- GFlags\n"
         "  MaxEdits = %d\n  MaxHand = %d\n  MinLen = %d\n  Mode = \"%s\"\nVIEW View\nCHECK_DEADLOCK FALSE\n" % (maxedits, maxhand, minlen, mode))
    if bfs:
        s += "INVARIANTS ModelOK\nACTION_CONSTRAINT EmitEdge\n"
    else:
        s += "INVARIANTS ModelOK EmitSim\n"
    return s


# ---------------------------------------------------------------- model history -> behaviour text
class Binding:
    def __init__(self, cfgname, realname, strings):
        self.cfgname, self.realname, self.sidx = cfgname, realname, strings
        self.c, self.r, self.s = CONFIGS[cfgname], REAL[realname], STRINGS[strings]
        self.m = self.r["maps"][cfgname]
        self.byaddr = {(o["d"], o["i"]): k + 1 for k, o in enumerate(self.c["objs"])}
        self.bydepth = {o["d"]: k + 1 for k, o in enumerate(self.c["objs"])}

    def target(self, o):
        """model object number (0 = topology infos) -> real address"""
        return (self.r["depth"], 0) if o == 0 else self.m[o]

    def addr(self, d, i):
        """model entry address -> real entry address"""
        if (d, i) in self.byaddr:
            return self.m[self.byaddr[(d, i)]]
        if d == self.c["depth"]:
            return (self.r["depth"], i)
        if d > self.c["depth"]:
            return (self.r["depth"] + (d - self.c["depth"]), i)
        if d in self.bydepth:                       # known depth, unknown index
            return (self.m[self.bydepth[d]][0], 1000 + i)
        return (d, i)

    def val(self, v):            # optional string <<>> / <<"a">>
        if not v:
            return None
        return self.s["vals"].get(v[0], v[0])

    def key(self, n):
        return self.s["keys"].get(n, n)

    def prologue(self, with_b=True):
        """set-up of topology 1 (unlogged edits, then one Snap event), and its copy 2 when the scenario edits it"""
        L = ["reset %d" % self.s["unit"], "!load 1 %s" % enc(self.r["synth"])]
        for k, o in enumerate(self.c["objs"]):
            d, i = self.m[k + 1]
            if o["name"]:
                L.append("!setname 1 %d %d %s" % (d, i, enc(self.val(o["name"]))))
            if o["numa"]:
                L.append("!setmem 1 %d %d %d" % (d, i, o["mem"][0]))
            for n, v in o["infos"]:
                L.append("!addinfo 1 %d %d %s %s" % (d, i, enc(self.key(n)), enc(self.val([v]))))
        for n, v in self.c["tinfos"]:
            L.append("!addinfo 1 %d 0 %s %s" % (self.r["depth"], enc(self.key(n)), enc(self.val([v]))))
        L.append("snap 1")
        if with_b:
            L.append("dup 2 1")
        return L

    def entry(self, e):
        d, i = self.addr(e["d"], e["i"])
        n = self.key(e["n"][0]) if e["n"] else None
        return "%s %d %d %s %s %s %d %d" % (e["t"], d, i, enc(n), enc(self.val(e["so"])), enc(self.val(e["sn"])), e["uo"][0], e["un"][0])

    def step(self, h, variant=0):
        a = h["a"]
        if a == "edit":
            e = h["e"]
            k = e["k"]
            if k == "restrict":
                return "restrict 2 %d" % self.r["lastpu"]
            d, i = self.target(e["o"])
            if k == "setname":
                return "setname 2 %d %d %s" % (d, i, enc(self.val(e["v"])))
            if k == "setinfo":
                return "setinfo 2 %d %d %s %d %s" % (d, i, enc(self.key(e["n"])), e["occ"], enc(self.val(e["v"])))
            if k == "setmem":
                return "setmem 2 %d %d %d" % (d, i, e["x"])
            if k == "addinfo":
                return "addinfo 2 %d %d %s %s" % (d, i, enc(self.key(e["n"])), enc(self.val(e["v"])))
            if k == "rminfo":
                return "rminfo 2 %d %d %s" % (d, i, enc(self.key(e["n"])))
            if k == "misc":
                return "misc 2 %d %d %s" % (d, i, enc("misc obj"))
            raise vlib.Infra("unknown edit %r" % (e,))
        if a == "build":
            return "build %d %d %d %d" % (h["dd"], h["x"], h["y"], h["flags"])
        if a == "dup":
            return "dup %d %d" % (h["dst"], h["src"])
        if a == "apply":
            return "apply %d %d %d" % (h["s"], h["dd"], h["flags"])
        if a == "xml":
            ref = self.s["ref"] if variant & 1 else None
            return "xml %d %d %s %s" % (h["dd"], h["d2"], enc(ref), "file" if variant & 2 else "buf")
        if a == "mk":
            return "mk %d %d %s" % (h["dd"], len(h["L"]), " ".join(self.entry(e) for e in h["L"]))
        raise vlib.Infra("unknown model action %r" % (h,))

    def text(self, hist, variant=0):
        """variant: bit 0 = export with a reference name, bit 1 = through a file instead of a buffer"""
        return "\n".join(self.prologue(hist[0]["a"] != "mk") + [self.step(h, variant) for h in hist] + ["free 1"]) + "\n"


def run(ctx, replay=None):
    ctx.build_lib()
    exe = ctx.cc("hwv_diff.c", "hwv_diff")

    def record(texts, tag, nolibxml, offset=0):
        bf = ctx.path("beh-%s.txt" % tag)
        open(bf, "w").write("".join(texts))
        tf = ctx.path("trace-%s.ndjson" % tag)
        ctx.record(exe, bf, tf, env={"HWLOC_LIBXML": "0" if nolibxml else "1"}, args=[str(offset)])
        return tf

    def replay_fn(text):
        rej = []
        for nolib in (0, 1):
            t = record([text], "replay-%d-%d" % (random.randrange(1 << 30), nolib), nolib)
            rej += ctx.validate("TraceDiff", t, nshards=1)
        return rej

    if replay:
        rej = replay_fn(open(replay).read())
        for r in rej:
            vlib.log("rejected event:", r["line"][:1500])
            print("VIOLATION property=C16 replay=%s" % replay)
        ctx.cleanup()
        return 1 if rej else 0

    thorough = ctx.tier == "thorough"
    rng = random.Random(ctx.seed)
    hists = []          # (config name, history)

    def mc(cfgname, mode, maxedits, maxhand, flags, tag, nvals=3, simulate=None, depth=None):
        out, st = ctx.tlc_mc("MC_Diff_gen", cfg(mode, maxedits, maxhand, simulate is None, 0 if simulate is None else 3),
                             tag=tag, simulate=simulate, depth=depth,
                             extra_modules=[("MC_Diff_gen.tla", gen_module(cfgname, flags, nvals))], timeout=3000,
                             workers=1)      # one worker: the emitted histories depend only on the model and the seed
        if st["error"] or (simulate is None and st["rc"] != 0):
            raise vlib.Infra("model check of MC_Diff (%s) failed (model-level, not a violation): %s\n%s" % (tag, st["error"], out[-2500:]))
        hs = list(vlib.tlc_printed(out, "EDGE" if simulate is None else "SIM"))
        if not hs:
            raise vlib.Infra("model run %s emitted no behaviour\n%s" % (tag, out[-1500:]))
        return cfgname, hs

    jobs = []
    for cn in sorted(CONFIGS):
        # (1) exhaustive: every set of edits, full scenario
        jobs.append((cn, "build", 3 if thorough else 2, 0, [0, 1], "bfs_build_" + cn))
        # (2) exhaustive: every hand-built list, both directions
        jobs.append((cn, "hand", 0, 2, [0, 1], "bfs_hand2_" + cn, 3 if thorough else 2))
        if thorough:
            jobs.append((cn, "hand", 0, 3, [0, 1], "bfs_hand3_" + cn, 2))
        # (3) unknown flag bits, short lists
        jobs.append((cn, "hand", 0, 1, [2, 3, 1 << 30], "bfs_flags_" + cn, 2))
        # (4) simulation: longer edit sequences and longer lists
        num, deep = (4000, 8) if thorough else (200, 6)
        jobs.append((cn, "build", deep, 0, [0, 1], "sim_build_" + cn, 3, "num=%d" % num, 24))
        jobs.append((cn, "hand", 0, deep, [0, 1], "sim_hand_" + cn, 3, "num=%d" % num, 24))
    seen = set()
    with cf.ThreadPoolExecutor(max_workers=6) as ex:
        for cn, hs in ex.map(lambda j: mc(*j), jobs):
            for h in hs:
                key = cn + json.dumps(h, sort_keys=True)
                if key not in seen:
                    seen.add(key)
                    hists.append((cn, h))

    hists.sort(key=lambda x: (x[0], json.dumps(x[1], sort_keys=True)))
    # bind every history to a real topology, a string table and an XML variant
    reals = sorted(REAL)
    behs = []
    binds = {}
    for idx, (cn, h) in enumerate(hists):
        k = idx + ctx.seed
        choices = [(reals[k % len(reals)], (k // 2) % len(STRINGS), (k // 3) % 4)]
        if thorough and h[0]["a"] != "mk":
            choices.append((reals[(k + 1) % len(reals)], (k // 2 + 1) % len(STRINGS), (k // 3 + 3) % 4))
        for rn, si, variant in choices:
            b = binds.setdefault((cn, rn, si), Binding(cn, rn, si))
            behs.append(b.text(h, variant))
    rng.shuffle(behs)

    ctx.samples = [behs[0], behs[len(behs) // 2], behs[-1]]
    # half of the (shuffled) behaviours run with the libxml2 backend, half with the built-in XML code
    half = len(behs) // 2
    traces = [record(behs[:half], "libxml", 0), record(behs[half:], "nolibxml", 1, offset=half)]
    tf = ctx.path("trace.ndjson")
    with open(tf, "w") as fo:
        for t in traces:
            fo.write(open(t).read())
    rejs = ctx.validate("TraceDiff", tf, max_rej=2)
    rejs.sort(key=lambda r: r.get("pos") or 0)
    ctx.handle_rejections(rejs[:10], behs, replay_fn)       # the shortest ones; any single one decides the verdict
    return ctx.finish(
        rule="behaviours = every complete scenario of the bounded model MC_Diff: all edit sets up to the bound followed by build / apply / "
             "build / reverse apply / build / XML round trip / apply of the loaded list, all hand-built lists up to the bound applied in both "
             "directions (and with unknown flag bits) then exported, plus TLC-simulated longer edit sequences and lists; each bound to a real "
             "synthetic topology and a string table, replayed on the rebuilt library with both XML backends and validated by TLC against the "
             "relations of Diff.tla; a behaviour is non-trivial when it contains at least one diff_build or diff_apply call (all do)",
        assumptions=["topologies are synthetic (Machine/Group/Package/Core/PU/NUMA plus inserted Misc); cache, I/O, distances, memattrs and "
                     "cpukinds comparisons of diff_build are exercised only through 'equal on both sides'",
                     "allocation failures are not explored",
                     "APPLY_REVERSE is specified as: entries in list order with old and new swapped",
                     "hand-built lists never carry NULL strings; obj_index stays below 2^30"],
        exhaustive=False,
        extra={"behaviours": len(behs)})
