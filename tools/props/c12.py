"""C12 - hwloc_topology_dup yields an equivalent, fully independent topology.
Same model and machinery as C02 with two slots: histories <= 2 modifications, dup, modifications on either copy, destroy in either order
(spec/MC_TopoOps.tla with TwoSlots); oracle: TopoOps!DupRel (full projection equality incl. userdata and XML export digest) and the frame
condition of spec/TraceTopo.tla on the copy that was not the target of each later call."""
from props import c02


def run(ctx, replay=None):
    return c02.run_generic(ctx, True, replay)
