"""C09 - traversal and locality helpers agree with their set-theoretic definitions.
Spec: spec/Helpers.tla (brute-force definitions / relations); model: spec/MC_Helpers.tla (enumerates the queries over the
real projection of each topology family and checks witnesses / consequences on the model alone); binding:
spec/TraceHelpers.tla + harness/hwv_helpers.c."""
import os, random, json, re
import concurrent.futures as cf
import vlib

# (name, lines before load, lines after load).  "XML:<base>:<edit>[+<edit>..]" families are built from the XML export of <base>
# (see make_xml1 for the edits), "FILE:<path in the tree>" families from an XML input bundled with the tree.
FAMILIES = [
    ("sym", ["synthetic pack:2 core:2 pu:2"], []),
    ("asym", ["synthetic pack:2 core:2 pu:2"], ["restrict 0 0-4"]),
    ("asym2", ["synthetic pack:2 core:2 pu:2"], ["restrict 0 0-2,4-6"]),
    ("grpcore", ["synthetic pack:2 core:3 pu:1"], ["group 0-1 1"]),
    ("cpuless", ["synthetic node:3 pu:2"], ["restrict 0 0-3"]),
    ("numashift", ["synthetic node:3 pu:2"], ["restrict 1 2-5"]),
    ("nested", ["synthetic [numa] pack:2 [numa] core:2 pu:2"], []),
    ("numa2", ["synthetic node:2 core:2 pu:2"], []),
    ("caches", ["synthetic pack:2 l3:1 l2:2 l1:1 core:1 pu:1"], []),
    ("icaches", ["synthetic pack:2 l2:2 l1i:1 l1d:1 core:1 pu:1", "filter -3 0"], []),
    ("groups", ["synthetic group:2 group:2 pu:2"], []),
    ("grpins", ["synthetic pack:4 pu:2"], ["group 0-3 1"]),
    ("interleave", ["synthetic pack:2 core:2 pu:2(indexes=0,4,2,6,1,5,3,7)"], []),
    ("nocore", ["synthetic pack:2 l2:2 pu:2"], ["restrict 0 0-2,4-7"]),
    ("misc", ["synthetic pack:2 core:2 pu:2", "filter 19 0"], ["misc 3 1 m-pu", "misc 2 2 m-core", "misc 0 0 m-root", "misc -7 0 m-below-misc", "subtype 1 0 BigPkg", "subtype 1 1 bigpkg"]),
    ("io", "XML:sym:io", []),
    ("memcache", "XML:numa2:memcache", []),
    # topologies whose cpuset, complete cpuset and allowed cpuset differ (every helper must look at the cpuset only)
    ("offline", "XML:sym:offline=1,6,7", []),          # PU 1 offline next to an online sibling, the last core (PUs 6-7) wholly offline
    ("disallowed", ["synthetic node:2 core:2 pu:2", "flags 1"], ["allow 0-1,3-4,6-7 0"]),    # INCLUDE_DISALLOWED: every object kept, allowed sets smaller
    ("disdrop", "XML:disallowed:asis", []),            # the same machine without the flag: the library itself drops PUs 2, 5 and node 1
    ("offlines16", "FILE:tests/hwloc/xml/16em64t-4s2c2t-offlines.xml", []),    # bundled: 7 of 16 processors online
    ("iodis", "XML:sym:io+allowed=0xf0", []),          # first package fully disallowed: it stays, without CPUs, because of its I/O children
    ("memless", ["synthetic node:3 pu:2"], ["restrict 8 0-1"]),    # by-nodeset restrict without REMOVE_MEMLESS: PUs left without a local node
]
BIG_FAMILIES = [   # thorough only, sampled argument sets
    ("big16", ["synthetic pack:2 l3:2 core:2 pu:2"], ["restrict 0 0-12,14-15"]),
    ("big12", ["synthetic [numa] pack:3 [numa] core:2 pu:2"], ["restrict 0 0-6,8-11"]),
]
QUICK_FAMILIES = ("asym", "grpcore", "cpuless", "numashift", "nested", "icaches", "groups", "grpins", "interleave", "misc", "io", "memcache",
                  "offline", "disallowed", "offlines16")

IO_SNIPPET = ('<object type="Bridge" gp_index="9001" bridge_type="0-1" bridge_pci="0000:[00-02]">'
              '<object type="PCIDev" gp_index="9002" name="NicCard" pci_busid="0000:01:00.0" pci_type="0200 [8086:1521] [0000:0000] 01" pci_link_speed="0.000000">'
              '<object type="OSDev" gp_index="9003" name="eth0" subtype="Fancy" osdev_type="16"/>'
              '<object type="OSDev" gp_index="9007" name="eth1" osdev_type="16"/>'
              '<object type="OSDev" gp_index="9008" name="Ethx" subtype="fancy" osdev_type="16"/>'
              '<object type="Misc" gp_index="9005" name="misc-under-pci"/>'
              '</object>'
              '<object type="PCIDev" gp_index="9004" pci_busid="0000:02:00.0" pci_type="0108 [144d:a808] [0000:0000] 00" pci_link_speed="0.000000">'
              '<object type="OSDev" gp_index="9006" name="nvme0n1" osdev_type="1"/>'
              '</object>'
              '</object>'
              '<object type="OSDev" gp_index="9010" name="dax0" subtype="Fancy" osdev_type="1"/>')


def one_line(xml):
    return re.sub(r"\s*\n\s*", "", xml)


def make_xml(kinds, base_xml):
    """applies the '+'-separated edits to the XML export of the base family; returns (xml on one line, filter lines)"""
    x, filters = one_line(base_xml), []
    for kind in kinds.split("+"):
        x, f = make_xml1(kind, x)
        filters += f
    return x, filters


def make_xml1(kind, x):
    if kind == "asis":
        return x, []
    if kind.startswith("offline="):
        # what the Linux backend reports for offline processors: no PU object, bit cleared from every cpuset and from the allowed
        # cpuset, kept in the complete cpusets
        mask = 0
        for p in map(int, kind.split("=")[1].split(",")):
            x, n = re.subn(r'<object type="PU" os_index="%d"[^>]*/>' % p, "", x)
            if n != 1:
                raise vlib.Infra("no PU %d in the exported XML" % p)
            mask |= 1 << p
        return re.sub(r'(\s)(cpuset|allowed_cpuset)="(0x[0-9a-f]+)"', lambda m: '%s%s="0x%08x"' % (m.group(1), m.group(2), int(m.group(3), 16) & ~mask), x), []
    if kind.startswith("allowed="):
        # processors the administrator disallowed (cgroup): only the allowed cpuset of the root says so
        x, n = re.subn(r'(\sallowed_cpuset=)"0x[0-9a-f]+"', r'\1"%s"' % kind.split("=")[1], x, count=1)
        if n != 1:
            raise vlib.Infra("no allowed_cpuset in the exported XML")
        return x, []
    if kind == "io":
        m = re.search(r'<object type="Package"[^>]*>', x)
        if not m:
            raise vlib.Infra("no Package in the exported XML")
        x = x[:m.end()] + IO_SNIPPET + x[m.end():]
        # names and subtypes on normal objects too
        x = x.replace('<object type="Package" os_index="1"', '<object type="Package" subtype="Fancy" name="SecondPkg" os_index="1"', 1)
        x = x.replace('<object type="Core" os_index="0"', '<object type="Core" name="corezero" os_index="0"', 1)
        return x, ["filter -4 0", "filter 19 0"]
    if kind == "memcache":
        m = re.search(r'<object type="NUMANode"([^>]*)>(.*?)</object>', x)
        if not m:
            raise vlib.Infra("no NUMANode in the exported XML")
        sets = " ".join(re.findall(r'(?:complete_)?(?:cpuset|nodeset)="[^"]*"', m.group(1)))
        mc = ('<object type="MemCache" %s gp_index="9100" cache_size="1024" depth="1" cache_linesize="64" cache_associativity="1" cache_type="0">%s</object>'
              % (sets, m.group(0)))
        x = x[:m.start()] + mc + x[m.end():]
        return x, ["filter 15 0"]
    raise vlib.Infra("unknown xml family kind " + kind)


def header(pre, post):
    return ["reset", "init"] + list(pre) + ["load"] + list(post)


def prepass(ctx, exe, fams):
    """builds every family once; returns {name: dict(pre, post, topo_line, topo)}"""
    info = {}
    plain = [f for f in fams if not isinstance(f[1], str)]
    derived = [f for f in fams if isinstance(f[1], str)]

    def run_round(items, tag):
        lines = []
        for name, pre, post in items:
            lines += header(pre, post) + ["exportxml", "topo", "destroy"]
        bf = ctx.path("prepass-%s.beh" % tag)
        open(bf, "w").write("\n".join(lines) + "\n")
        tf = ctx.path("prepass-%s.ndjson" % tag)
        ctx.record(exe, bf, tf)
        k = -1
        for line in open(tf):
            if line.startswith('{"e":"Reset"'):
                k += 1
                info[items[k][0]] = {"pre": items[k][1], "post": items[k][2], "setup_ok": True}
            elif line.startswith('{"e":"setup"') and '"ret":-1' in line:
                info[items[k][0]]["setup_ok"] = False
            elif line.startswith('{"e":"exportxml"'):
                info[items[k][0]]["xml"] = json.loads(line)["xml"]
            elif line.startswith('{"e":"topo"'):
                info[items[k][0]]["topo_line"] = line
                info[items[k][0]]["topo"] = json.loads(line)["topo"]
            elif line.startswith('{"e":"Crash"') or line.startswith('{"e":"Hang"'):
                raise vlib.Infra("pre-pass crashed while building family %s" % items[k][0])
        for name, _, _ in items:
            # a failing setup call only means another topology than intended (the queries are derived from the real projection);
            # it never happens on the trees this check was developed on, so it is worth a note in the evidence
            if not info.get(name, {}).get("setup_ok", False):
                ctx.notes.append("family %s: a setup call failed, the family is used as built" % name)
            if "topo" not in info.get(name, {}):
                ctx.notes.append("family %s could not be loaded and is skipped" % name)
                info.pop(name, None)

    run_round(plain, "a")
    items = []
    for name, spec, post in derived:
        src, base, kind = (spec.split(":") + ["asis"])[:3]
        if src == "FILE":                                # an input bundled with the tree under verification
            try:
                base_xml = open(os.path.join(vlib.REPO, base)).read()
            except OSError as e:
                ctx.notes.append("family %s skipped: %s" % (name, e))
                continue
        elif base not in info or "xml" not in info[base]:
            ctx.notes.append("family %s skipped: its base %s could not be built" % (name, base))
            continue
        else:
            base_xml = info[base]["xml"]
        try:
            xml, filters = make_xml(kind, base_xml)
        except vlib.Infra as e:
            ctx.notes.append("family %s skipped: %s" % (name, e))
            continue
        items.append((name, ["xmlbuf " + xml] + filters, post))
    if items:
        run_round(items, "b")
    for name, d in info.items():
        p = ctx.path("fam-%s.ndjson" % name)
        open(p, "w").write(d["topo_line"])
        d["topo_file"] = p
        d["pus"] = [o["os"] for o in d["topo"]["objs"] if o["type"] == 4]
        d["npu"] = len(d["pus"])
        # processors known to the complete cpuset of the root only (offline / dropped): MC_Helpers appends them to the mask universe,
        # the driver only needs to know how many bits a mask has
        known = set()
        for lo, hi in d["topo"]["objs"][0]["ccs"]:
            if hi >= lo:
                known.update(range(lo, hi + 1))
        d["ghosts"] = sorted(known - set(d["pus"]))
        d["nbits"] = d["npu"] + len(d["ghosts"])
    return info


def ranges(xs):
    xs = sorted(xs)
    out = []
    for x in xs:
        if out and out[-1][1] + 1 == x:
            out[-1][1] = x
        else:
            out.append([x, x])
    return out


def set_text(s, x, maxos, tail=None):
    parts = ["%d" % lo if lo == hi else "%d-%d" % (lo, hi) for lo, hi in ranges(s)]
    if x == 1:
        parts.append("%d" % (maxos + 3))
    elif x == 2:
        parts.append("%d-" % (tail if tail is not None else maxos + 2))
    return ",".join(parts) if parts else "none"


def opt_text(v):
    if not v:
        return "-"
    return v[0]


def query_line(q, maxos):
    k = q["k"]
    st = lambda: set_text(q["s"], q["x"], maxos)
    if k in ("covering", "cache_covering", "first_largest", "to_nodeset"):
        return "q %s %s" % (k, st())
    if k == "from_nodeset":
        return "q from_nodeset %s" % set_text(q["s"], q["x"], maxos, q["tail"])
    if k == "child_covering":
        return "q child_covering %s %d" % (st(), q["parent"])
    if k == "largest":
        return "q largest %s %d" % (st(), q["max"])
    if k in ("inside_depth", "covering_depth"):
        return "q %s %s %d" % (k, st(), q["depth"])
    if k in ("inside_type", "covering_type"):
        return "q %s %s %d" % (k, st(), q["type"])
    if k == "index_inside":
        return "q index_inside %s %d" % (st(), q["obj"])
    if k == "anc_depth":
        return "q anc_depth %d %d" % (q["obj"], q["depth"])
    if k == "anc_type":
        return "q anc_type %d %d" % (q["obj"], q["type"])
    if k == "common":
        return "q common %d %d" % (q["a"], q["b"])
    if k == "in_subtree":
        return "q in_subtree %d %d" % (q["obj"], q["root"])
    if k == "next_child":
        return "q next_child %d" % q["parent"]
    if k in ("shared_cache", "non_io_anc"):
        return "q %s %d" % (k, q["obj"])
    if k == "closest":
        return "q closest %d %d" % (q["src"], q["max"])
    if k == "below":
        return "q below %d %d %d %d" % (q["t1"], q["i1"], q["t2"], q["i2"])
    if k == "below_array":
        return "q below_array %d %s" % (len(q["types"]), " ".join("%d %d" % (a, b) for a, b in zip(q["types"], q["idxs"])))
    if k == "same_locality":
        s, n = opt_text(q["st"]), opt_text(q["np"])
        if re.search(r"\s", s + n) or not s or not n:
            return None
        return "q same_locality %d %d %s %s %d" % (q["src"], q["type"], s, n, q["flags"])
    if k in ("type_depth", "type_lookup"):
        return "q %s %d" % (k, q["type"])
    if k == "depth_lookup":
        return "q depth_lookup %d" % q["depth"]
    if k == "cache_type_depth":
        return "q cache_type_depth %d %d" % (q["level"], q["ctype"])
    if k in ("pu_by_os", "numa_by_os"):
        return "q %s %d" % (k, q["os"])
    if k == "distrib":
        return "q distrib %d %s %d %d %d" % (len(q["roots"]), " ".join(map(str, q["roots"])), q["n"], q["until"], q["flags"])
    if k == "mem_parents_depth":
        return "q mem_parents_depth"
    if k == "type_depth_attr":
        return "q type_depth_attr %d %d %d" % (q["type"], q["gdepth"], q["noattr"])
    if k == "pcidev_by_busid":
        return "q pcidev_by_busid %d %d %d %d" % (q["dom"], q["bus"], q["dev"], q["func"])
    if k == "bridge_covers":
        return "q bridge_covers %d %d %d" % (q["obj"], q["dom"], q["bus"])
    if k == "singlify":
        return "q singlify %s %d" % (st(), q["which"])
    raise vlib.Infra("unknown query kind %r" % k)


INVARIANTS = ("TopoWellFormed WitnessCovering WitnessCacheCovering WitnessCommon WitnessAncDepth ThmLargest ThmOutsideRoot ThmFirstLargest ThmIterators "
              "ThmClosest ThmNodesets ThmSinglify ThmTypeDepth ThmDepthType ThmDistrib ThmMemParents ThmTypeDepthAttr Emit")


def tla_set(xs):
    return "{" + ", ".join(str(x) for x in sorted(set(xs))) + "}"


def mc_cfg(topo_file, masks, xmasks, ns, light):
    return ("SPECIFICATION Spec\nCONSTANTS\n  TopoFile = \"%s\"\n  Masks = %s\n  XMasks = %s\n  DistribNs = %s\n  Light = %s\n"
            "VIEW View\nINVARIANTS %s\nCHECK_DEADLOCK FALSE\n" % (topo_file, tla_set(masks), tla_set(xmasks), tla_set(ns), "TRUE" if light else "FALSE", INVARIANTS))


def choose_params(nbits, rng, thorough, sampled, npu=None):
    """masks over the nbits processors the topology knows: the npu PUs in logical order, then the ghosts"""
    npu = npu or nbits
    full = (1 << nbits) - 1
    online = (1 << npu) - 1
    structured = {0, full, 1, 1 << (nbits - 1), 3, full >> 1, full & ~1, (full >> (nbits // 2)), full & ~((1 << (nbits // 2)) - 1), 5, 6,
                  online, online >> 1, full & ~online, 1 | (1 << (nbits - 1))}
    structured = {m & full for m in structured}
    if thorough and not sampled:
        masks = set(range(full + 1))
        xmasks = {0, 1, full, online, 6 & full, full >> 1, 1 << (nbits - 1)} | {rng.randrange(full + 1) for _ in range(2)}
        ns = set(range(1, 2 * npu + 2))
        light = False
    elif thorough:
        masks = structured | {rng.randrange(full + 1) for _ in range(300)}
        xmasks = {0, 1, full, online} | {rng.randrange(full + 1) for _ in range(4)}
        ns = set(range(1, npu + 3)) | {2 * npu, 2 * npu + 1}
        light = False
    else:
        masks = structured | {rng.randrange(full + 1) for _ in range(20)}
        xmasks = {0, full, online, rng.randrange(full + 1)}
        ns = {1, 2, 3, npu - 1, npu, npu + 1, 2 * npu + 1} | {rng.randrange(1, 2 * npu + 2)}
        ns = {n for n in ns if n >= 1}
        light = True
    return masks, xmasks, ns, light


def run(ctx, replay=None):
    ctx.build_lib()
    exe = ctx.cc("hwv_helpers.c", "hwv_helpers")

    def replay_fn(text):
        p = ctx.path("replay-%d.beh" % random.randrange(1 << 30))
        open(p, "w").write(text)
        t = p + ".ndjson"
        ctx.record(exe, p, t)
        return ctx.validate("TraceHelpers", t, nshards=1)

    if replay:
        rej = replay_fn(open(replay).read())
        for r in rej:
            vlib.log("rejected event:", r["line"][:1500])
            print("VIOLATION property=C09 replay=%s" % replay)
        ctx.cleanup()
        return 1 if rej else 0

    thorough = ctx.tier == "thorough"
    rng = random.Random(ctx.seed)
    only = [x for x in os.environ.get("HWV_C09_FAMILIES", "").split(",") if x]    # debugging aid: these families only (never set by check.py or the manifest)
    fams = [f for f in FAMILIES if thorough or f[0] in QUICK_FAMILIES or f[0] in ("sym", "numa2") or f[0] in only]
    sampled = set()
    if thorough:
        fams = fams + BIG_FAMILIES
        sampled = {f[0] for f in BIG_FAMILIES}
    info = prepass(ctx, exe, fams)
    names = [f[0] for f in fams if (thorough or f[0] in QUICK_FAMILIES or f[0] in only) and f[0] in info]
    if only:
        names = [n for n in names if n in only]
    elif len(names) < 5:
        raise vlib.Infra("only %d topology families could be built" % len(names))

    # (1) TLC: enumerate the queries of each family over its real projection, check the model-level invariants
    params = {n: choose_params(info[n]["nbits"], rng, thorough, n in sampled or info[n]["nbits"] > 8, npu=info[n]["npu"]) for n in names}

    def mc(name):
        masks, xmasks, ns, light = params[name]
        out, st = ctx.tlc_mc("MC_Helpers", mc_cfg(info[name]["topo_file"], masks, xmasks, ns, light), tag="queries_" + name,
                             workers=2, heap="3g", timeout=2400)
        if st["error"] or st["rc"] != 0:
            raise vlib.Infra("MC_Helpers failed for family %s (model-level, not a violation): %s\n%s" % (name, st["error"], "\n".join(x for x in out.split("\n") if not x.startswith('<<"Q"'))[-2500:]))
        return name, list(vlib.tlc_printed(out, "Q"))

    with cf.ThreadPoolExecutor(max_workers=4) as ex:
        results = list(ex.map(mc, names))

    # (2) behaviours: one topology + a batch of queries each
    batch = 400
    behs = []
    nq = {}
    for name, qs in results:
        d = info[name]
        maxos = max(d["pus"] + d["ghosts"])
        lines = [l for l in (query_line(q, maxos) for q in qs) if l]
        lines = sorted(set(lines))
        rng.shuffle(lines)
        if not thorough:
            lines = lines[:6000]
        nq[name] = len(lines)
        head = header(d["pre"], d["post"]) + ["topo"]
        for i in range(0, len(lines), batch):
            behs.append("\n".join(head + lines[i:i + batch] + ["destroy"]) + "\n")
    ctx.samples = [re.sub(r"xmlbuf .*", "xmlbuf <...>", b)[:1500] for b in (behs[0], behs[len(behs) // 2], behs[-1])]
    bf = ctx.path("behaviours.txt")
    open(bf, "w").write("".join(behs))
    tf = ctx.path("trace.ndjson")
    ctx.record(exe, bf, tf, timeout=3000, parallel=vlib.NCPU)
    rejs = ctx.validate("TraceHelpers", tf, nshards=32 if thorough else 16, timeout=3000)
    # confirm (fresh process) and report at most a dozen rejections, one per event kind first
    seen, first, rest = set(), [], []
    for r in rejs:
        m = re.match(r'\{"e":"(\w+)"', r["line"])
        kind = m.group(1) if m else "?"
        (rest if kind in seen else first).append(r)
        seen.add(kind)
    if len(rejs) > 12:
        ctx.notes.append("%d rejected behaviours in total; 12 confirmed and reported" % len(rejs))
    ctx.handle_rejections((first + rest)[:12], behs, replay_fn)
    for dline in sorted(getattr(ctx, "drift", ())):
        ctx.notes.append(dline)
    return ctx.finish(
        rule="for each topology family (symmetric, asymmetric by restrict, CPU-less NUMA node, nested memory, caches incl. instruction caches, "
             "multi-depth Groups, inserted Group, interleaved PU numbering, no Core level, Misc, I/O subtree with names/subtypes, MemCache, offline processors (edited export and the bundled "
             "16em64t-4s2c2t-offlines.xml), disallowed processors / node kept (INCLUDE_DISALLOWED + hwloc_topology_allow) and dropped by the library, a CPU-less Package kept for its I/O, "
             "PUs without local node) the real topology is projected, TLC enumerates the helper queries over that projection from MC_Helpers.tla - argument sets are drawn from every "
             "processor / node the topology mentions in any of its sets (PUs, then the ghosts of the complete cpuset; all subsets of <= 8 of them in the thorough tier) plus the sets the "
             "topology names itself (cpuset, complete cpuset, allowed / disallowed part of every object), all objects / pairs / depths / types, n in 1..2|PU|+1, all until depths, "
             "both flag values - and checks witnesses/consequences on the model; each query is executed on the rebuilt library and judged by the brute-force relations of Helpers.tla. "
             "Non-trivial = the behaviour contains at least one helper call on a well-formed topology.",
        assumptions=["topologies are bounded (<= 16 PUs); families are fixed, argument sets beyond 8 PUs are sampled",
                     "helpers documented as not working on objects without cpusets are not called on I/O and Misc objects",
                     "ENOMEM paths are not driven"],
        extra={"behaviours": len(behs), "families": names, "queries": nq})
