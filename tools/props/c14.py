"""C14 - memory attributes: stored values are returned, best-of queries are optimal.
Model: spec/MemAttrs.tla (relations of the property + transcription of memattrs.c), spec/MC_MemAttrs.tla (bounded model);
binding: spec/TraceMemAttrs.tla, harness/hwv_memattrs.c"""
import os, random, json, tarfile, hashlib
import vlib

REPO = vlib.REPO

# ---------------------------------------------------------------------------------------------
# topology families: synthetic description + setup steps (executed by the recorder before the Reset event),
# the objects and cpusets every observation queries with
# ---------------------------------------------------------------------------------------------
FAMILIES = {
    # 3 NUMA nodes over 4 PUs: N0 {0,1}, N2 CPU-less, N3 {0-3} (larger locality); different capacities
    "A": dict(syn="[numa(memory=4096)] pack:3 [numa(memory=8192)] pu:2",
              pre=["restrict n 0,2,3 8", "restrict c 0,1,2,3 0"],
              objs=["P0", "P3", "K1"], cpusets=["0", "0,1", "2,3", "1,2", "0,1,2,3", "3", "-"]),
    # OS indexes neither contiguous nor in logical order
    "B": dict(syn="pack:2 [numa(indexes=4,1)] pu:2", pre=[],
              objs=["P1", "K0"], cpusets=["0", "0,1", "2,3", "1,2", "0,1,2,3", "-"]),
    # nested locality without CPU-less node, cores
    "D": dict(syn="[numa(memory=1000000)] pack:2 [numa(memory=2000000)] core:2 pu:1", pre=[],
              objs=["P0", "P2", "K1", "C3"], cpusets=["0", "0,1", "2,3", "1,2", "0,1,2,3", "2", "-"]),
    # three flat nodes, six PUs
    "C": dict(syn="node:3 pu:2", pre=[],
              objs=["P0", "P5", "M0"], cpusets=["0", "0,1", "2,3", "4,5", "1,2", "0,1,2,3", "0,1,2,3,4,5", "-"]),
    # two levels of memory, one node per L2
    "E": dict(syn="pack:2 [numa] l2:2 [numa] pu:1", pre=["restrict c 0,1,2 0"],
              objs=["P0", "P2", "K1"], cpusets=["0", "1", "0,1", "2", "1,2", "0,1,2", "-"]),
}

BIGVALS = [0, 1, (1 << 32) + 5, (1 << 63), (1 << 64) - 1]


def limbs(v):
    return "<<%d, %d, %d>>" % ((v >> 44) & 0x3fffff, (v >> 22) & 0x3fffff, v & 0x3fffff)


def unlimbs(l):
    return (l[0] << 44) | (l[1] << 22) | l[2]


def tla_str(s):
    return '"' + s + '"'


def tla_set(xs):
    return "{" + ", ".join(xs) + "}"


def tla_intset(xs):
    return "{" + ", ".join(str(x) for x in sorted(xs)) + "}"


def tla_fn(dom, val):
    """[x \\in dom |-> CASE ...] for a python dict-like val(x) -> tla text"""
    dom = list(dom)
    if not dom:
        return "<<>>"
    if len(dom) == 1:
        return "[x \\in {%s} |-> %s]" % (tla_str(dom[0]), val(dom[0]))
    cases = " [] ".join("x = %s -> %s" % (tla_str(d), val(d)) for d in dom)
    return "[x \\in %s |-> CASE %s]" % (tla_set(tla_str(d) for d in dom), cases)


def csv(xs):
    xs = sorted(xs)
    return ",".join(str(x) for x in xs) if xs else "-"


def parse_csv(s):
    return set() if s == "-" else set(int(x) for x in s.split(","))


def preamble(fam, names):
    f = FAMILIES[fam]
    lines = ["reset", "topo syn " + f["syn"]]
    lines += ["pre " + p for p in f["pre"]]
    lines += ["objs " + " ".join(f["objs"]), "cpusets " + " ".join(f["cpusets"]), "names " + " ".join(names), "begin"]
    return lines


def ini_tok(q):
    k = q["k"]
    if k == "c":
        return "c:" + csv(q["s"])
    if k == "o":
        return "o:" + q["o"]
    return k


def ini_tla(tok):
    if tok.startswith("c:"):
        return "CpuIni(%s)" % tla_intset(parse_csv(tok[2:]))
    if tok.startswith("o:"):
        return "ObjIni(%s)" % tla_str(tok[2:])
    if tok == "n":
        return "NoIni"
    return "BadIni(%s)" % tla_str(tok)


def topo_tla(op):
    # op: ("restrict", by, csv, flags) | ("dup",) | ("dupdrop",) | ("xml", flags)
    if op[0] == "restrict":
        return '[op |-> "restrict", by |-> "%s", set |-> %s, flags |-> %d]' % (op[1], tla_intset(parse_csv(op[2])), op[3])
    return '[op |-> "%s", by |-> "", set |-> {}, flags |-> %d]' % (op[0], op[1] if len(op) > 1 else 0)


# ---------------------------------------------------------------------------------------------
# model configurations
# ---------------------------------------------------------------------------------------------
RESTRICTS = {
    "A": [("restrict", "c", "0,2", 0), ("restrict", "c", "0,1", 1), ("restrict", "c", "1,2,3", 0), ("restrict", "n", "0,3", 8),
          ("restrict", "n", "2,3", 24), ("restrict", "c", "-", 0), ("restrict", "c", "2,3", 1)],
    "B": [("restrict", "c", "0,2", 0), ("restrict", "c", "2,3", 1), ("restrict", "n", "4", 8), ("restrict", "n", "1", 24), ("restrict", "n", "0", 8)],
    "D": [("restrict", "c", "0,3", 0), ("restrict", "c", "2,3", 1), ("restrict", "n", "0,2", 8), ("restrict", "n", "1", 24), ("restrict", "c", "1", 0)],
    "C": [("restrict", "c", "0,2,3", 0), ("restrict", "c", "2,3,4", 1), ("restrict", "n", "0,2", 8), ("restrict", "n", "1", 24)],
    "E": [("restrict", "c", "0,2", 0), ("restrict", "c", "1", 1), ("restrict", "n", "0,2,5", 8), ("restrict", "n", "1,5", 24)],
}
OTHERS = [("dup",), ("dupdrop",), ("xml", 0), ("xml", 2)]


def configs(tier):
    """bounded models explored exhaustively (BFS): dict(name, fam, init, reg, attrs, targets, inis, vals, flags, topo, obs, max*, stripes, cap)"""
    th = tier == "thorough"
    cs = []
    # (1) one attribute with initiators: the store, lookup by inclusion / identity, best-of with ties, restrict/dup/XML
    for fl in ([5, 6] if th else [6]):
        cs.append(dict(name="ini%d" % fl, fam="A", init=[("A", fl)], reg=[], attrs=["A"], targets=["N0", "N2", "N3"],
                       inis=["c:0", "c:0,1", "c:2,3", "c:1,2", "o:P3", "o:K1"] if th else ["c:0", "c:0,1", "c:2,3", "c:1,2", "o:P3"],
                       vals=[0, 1, 2] if th else [0, 1], flags=[0],
                       topo=(RESTRICTS["A"][:5] + OTHERS) if th else ([RESTRICTS["A"][i] for i in (0, 1, 3)] + [("xml", 0)]),
                       obs=["A"], maxreg=0, maxset=2, maxtopo=1, maxtouch=1, maxlen=4,
                       stripes=12 if th else 24, cap=5000 if th else 900))
    # three stored values (ties and strict orders for best-of), fewer initiators
    cs.append(dict(name="ini3", fam="A", init=[("A", 5)], reg=[], attrs=["A"], targets=["N0", "N2", "N3"] if th else ["N0", "N3"],
                   inis=["c:0,1", "c:2,3", "o:P3"] if th else ["c:0,1", "o:P3"], vals=[0, 1, 2], flags=[0],
                   topo=[("xml", 0), ("restrict", "c", "0,2", 0)], obs=["A"], maxreg=0, maxset=3, maxtopo=1, maxtouch=0, maxlen=4,
                   stripes=12 if th else 12, cap=4000 if th else 500))
    # (2) attribute without initiator, non-NUMA target, read-only attributes, bad arguments
    cs.append(dict(name="noini", fam="D", init=[("A", 1)], reg=[], attrs=["A", "Capacity", "Locality", "#4242"], targets=["N0", "N1", "N2", "K1"],
                   inis=["n", "c:0", "x", "z", "c:-", "o:P2"], vals=[0, 1, 2] if th else [0, 1], flags=[0, 1],
                   topo=(RESTRICTS["D"][:4] + OTHERS) if th else (RESTRICTS["D"][:3] + [("dupdrop",), ("xml", 2)]),
                   obs=["A", "Capacity", "Locality", "#4242"], maxreg=0, maxset=2, maxtopo=1, maxtouch=1, maxlen=4,
                   stripes=16 if th else 64, cap=3000 if th else 500))
    # (3) a custom and a predefined attribute side by side (XML export of predefined attributes with values)
    cs.append(dict(name="two", fam="B", init=[("A", 6)], reg=[], attrs=["A", "Bandwidth"], targets=["N4", "N1"],
                   inis=["c:0,1", "c:2,3", "c:0", "o:P1", "n"] if th else ["c:0,1", "c:2,3", "o:P1", "n"], vals=[0, 1], flags=[0],
                   topo=(RESTRICTS["B"] + OTHERS) if th else (RESTRICTS["B"][:3] + [("dup",), ("xml", 0)]),
                   obs=["A", "Bandwidth"], maxreg=0, maxset=3 if th else 2, maxtopo=1, maxtouch=1, maxlen=4,
                   stripes=24 if th else 16, cap=4000 if th else 500))
    # (4) registration: every flag word 0..8 and 16, new and used names, interleaved with dup / XML
    cs.append(dict(name="reg", fam="B", init=[], reg=[(n, w) for n in ("A", "B", "Capacity", "Latency") for w in list(range(9)) + [16]],
                   attrs=["A", "B"], targets=["N4"], inis=["c:0,1", "n"], vals=[1], flags=[0],
                   topo=OTHERS + [("restrict", "c", "0,1", 1)], obs=["A", "B", "Capacity"], maxreg=3 if th else 2, maxset=1, maxtopo=1, maxtouch=0, maxlen=4 if th else 3,
                   stripes=8 if th else 8, cap=2000 if th else 400))
    return cs


def sim_configs(tier):
    th = tier == "thorough"
    n = 300 if th else 60          # walks per TLC worker
    cs = []
    for fam, targets, inis, attrs, init in [
        ("A", ["N0", "N2", "N3", "K1"], ["c:0", "c:0,1", "c:2,3", "c:1,2", "c:0,1,2,3", "c:3", "o:P3", "o:K1", "o:P0", "n", "c:-"], ["A", "B", "Latency"], [("A", 5), ("B", 2)]),
        ("B", ["N4", "N1"], ["c:0", "c:0,1", "c:2,3", "c:1,2", "c:0,1,2,3", "o:P1", "o:K0", "x"], ["A", "B", "Bandwidth"], [("A", 6), ("B", 5)]),
        ("C", ["N0", "N1", "N2"], ["c:0", "c:0,1", "c:2,3", "c:4,5", "c:1,2", "c:0,1,2,3", "o:P0", "o:P5", "o:M0"], ["A", "ReadLatency"], [("A", 5)]),
        ("D", ["N0", "N1", "N2", "C3"], ["c:0", "c:0,1", "c:2,3", "c:1,2", "c:2", "o:P2", "o:K1", "o:C3"], ["A", "B"], [("A", 6), ("B", 1)]),
        ("E", ["N0", "N1", "N2", "N3", "N5"], ["c:0", "c:1", "c:0,1", "c:2", "c:1,2", "c:0,1,2", "o:P0", "o:K1"], ["A", "WriteBandwidth"], [("A", 5)]),
    ]:
        cs.append(dict(name="sim" + fam, fam=fam, init=init, reg=[("C", 1), ("C", 3), ("A", 2)], attrs=attrs, targets=targets, inis=inis,
                       vals=BIGVALS[:5], flags=[0], topo=RESTRICTS[fam] + OTHERS, obs=attrs, maxreg=1, maxset=8, maxtopo=2, maxtouch=2, maxlen=9,
                       simlen=9, num=n))
    return cs


def gen_module(c, topo):
    """TLA+ module with the constants of configuration c over the described topology"""
    nodes = [n[0] for n in topo["nodes"]]
    nos = {n[0]: n[1] for n in topo["nodes"]}
    ncpus = {n[0]: set(n[2]) for n in topo["nodes"]}
    nmem = {n[0]: unlimbs(n[3]) for n in topo["nodes"]}
    objs = [o[0] for o in topo["objs"]]
    ocpus = {o[0]: set(o[2]) for o in topo["objs"]}
    onodes = {o: [n for n in nodes if ncpus[n] and ncpus[n] <= ocpus[o]] for o in objs}
    fam = FAMILIES[c["fam"]]
    d = []
    d.append("GPU0 == " + tla_intset(topo["pus"]))
    d.append("GNodeSeq == <<" + ", ".join(tla_str(n) for n in nodes) + ">>")
    d.append("GNodeOs == " + tla_fn(nodes, lambda n: str(nos[n])))
    d.append("GNodeCpus == " + tla_fn(nodes, lambda n: tla_intset(ncpus[n])))
    d.append("GNodeMem == " + tla_fn(nodes, lambda n: limbs(nmem[n])))
    d.append("GObjIds == " + tla_set(tla_str(o) for o in objs))
    d.append("GObjCpus == " + tla_fn(objs, lambda o: tla_intset(ocpus[o])))
    d.append("GObjNodes == " + tla_fn(objs, lambda o: tla_set(tla_str(n) for n in onodes[o])))
    d.append("GCSets == " + tla_set(tla_intset(parse_csv(s)) for s in fam["cpusets"]))
    d.append("GInitUser == <<" + ", ".join('[name |-> "%s", flags |-> %d]' % u for u in c["init"]) + ">>")
    d.append("GRegOps == " + tla_set('<<"%s", %d>>' % r for r in c["reg"]))
    d.append("GSetAttrs == " + tla_set(tla_str(a) for a in c["attrs"]))
    d.append("GSetTargets == " + tla_set(tla_str(t) for t in c["targets"]))
    d.append("GSetInis == " + tla_set(ini_tla(i) for i in c["inis"]))
    d.append("GSetVals == " + tla_set(limbs(v) for v in c["vals"]))
    d.append("GSetFlags == " + tla_intset(c["flags"]))
    d.append("GTopoOps == " + tla_set(topo_tla(o) for o in c["topo"]))
    d.append("GObsAttrs == " + tla_set(tla_str(a) for a in c["obs"]))
    return "---- MODULE MC_MemAttrs_gen ----\nEXTENDS MC_MemAttrs\n" + "\n".join(d) + "\n====\n"


def cfg(c, nstripes, stripe, mode):
    s = "SPECIFICATION Spec\nCONSTANTS\n"
    for k in ("PU0", "NodeSeq", "NodeOs", "NodeCpus", "NodeMem", "ObjIds", "ObjCpus", "ObjNodes", "CSets", "InitUser", "RegOps",
              "SetAttrs", "SetTargets", "SetInis", "SetVals", "SetFlags", "TopoOps", "ObsAttrs"):
        s += "  %s <- G%s\n" % (k, k)
    s += "  MaxReg = %d\n  MaxSet = %d\n  MaxTopo = %d\n  MaxTouch = %d\n  MaxLen = %d\n" % (c["maxreg"], c["maxset"], c["maxtopo"], c["maxtouch"], c["maxlen"])
    s += "  NStripes = %d\n  Stripe = %d\n  SimLen = %d\n" % (nstripes, stripe, c.get("simlen", 0))
    s += "VIEW View\nCHECK_DEADLOCK FALSE\n"
    if mode == "bfs":
        s += "INVARIANTS TypeOK ActionsOK QueriesOK StoreAgrees WeakSound DefaultOK EmitState\nACTION_CONSTRAINT EmitEdge\n"
    else:
        s += "INVARIANTS TypeOK ActionsOK QueriesOK StoreAgrees WeakSound EmitSim\n"
    return s


def beh_text(c, hist, salt=0, sim=False):
    """behaviour text of one model history"""
    names = sorted(set([u[0] for u in c["init"]] + [r[0] for r in c["reg"]] + [a for a in c["obs"] if not a.startswith("#")] + ["Capacity"]))
    lines = preamble(c["fam"], names)
    for u in c["init"]:
        lines.append("reg %s %d" % u)
    h = int(hashlib.md5((json.dumps(hist, sort_keys=True) + str(salt)).encode()).hexdigest()[:8], 16)
    every = (h % (8 if sim else 4) == 0)   # observe after every step (eager refresh) or only where the model does (lazy paths)
    obsline = "obs " + " ".join(c["obs"])
    for i, o in enumerate(hist):
        if o[0] == "reg":
            lines.append("reg %s %d" % (o[1], o[2]))
        elif o[0] == "set":
            lines.append("set %s %s %s %d %d" % (o[1], o[2], ini_tok(o[3]), unlimbs(o[4]), o[5]))
        elif o[0] == "restrict":
            lines.append("restrict %s %s %d" % (o[1], csv(o[2]), o[3]))
        elif o[0] in ("dup", "dupdrop"):
            lines.append(o[0])
        elif o[0] == "xml":
            lines.append("xml %d" % o[1])
            if o[1] == 2:
                lines.append("adopt")      # v2 format "may miss some details": the reloaded store is adopted afresh
        elif o[0] == "touch":
            lines.append("refresh" if (h >> (3 + i)) & 1 else obsline)
        if every and i + 1 < len(hist) and o[0] != "touch":
            lines.append(obsline)
    lines.append(obsline)
    if h % 8 in (1, 2) or any(o[0] == "restrict" for o in hist[-1:]):
        lines.append("obs Capacity Locality nosuchattr")
        lines.append("local")
    return "\n".join(lines) + "\n"


# ---------------------------------------------------------------------------------------------
# hand-written behaviours: arguments outside the model alphabets
# ---------------------------------------------------------------------------------------------
def extra_behaviours():
    behs = []
    names = ["A", "B", "C", "Capacity", "Locality", "Bandwidth"]
    # large flag words and values, long name, convenience attributes, unknown identifiers
    for fam in ("A", "B", "D"):
        f = FAMILIES[fam]
        t0 = "N0" if fam != "B" else "N4"
        t1 = "N3" if fam == "A" else ("N1" if fam == "B" else "N2")
        l = preamble(fam, names)
        l += ["reg A %d" % ((1 << 40) | 1), "reg A %d" % ((1 << 32) | 2), "reg A 1073741825", "reg A 5", "reg B 6", "reg A 6", "reg Bandwidth 1", "reg C 7", "reg C 4",
              "obs A B C Capacity",
              "set A %s c:0,1 %d 0" % (t0, (1 << 64) - 1), "set A %s c:2,3 %d 0" % (t0, 1 << 63), "set A %s c:0,1 %d 0" % (t1, (1 << 32) + 5),
              "set B %s c:0,1 %d 0" % (t0, (1 << 64) - 1), "set B %s c:0,1 %d 0" % (t1, (1 << 64) - 2), "set B %s o:%s 0 0" % (t1, f["objs"][0]),
              "set Capacity %s n 5 0" % t0, "set Locality %s n 5 0" % t0, "set #77 %s n 5 0" % t0, "set A %s c:0,1 1 4" % t0,
              "obs A B Capacity Locality #77", "xml 0", "obs A B", "dup", "obs A B", "xml 2", "adopt", "obs A B", "local"]
        behs.append("\n".join(l) + "\n")
    # default nodeset: subtypes, nodes whose OS index differs from their rank
    for syn, pre in [("pack:2 [numa(indexes=1,2)] pu:2", ["subtype N2 HBM"]),
                     ("pack:3 [numa(indexes=2,0,1)] pu:2", ["subtype N0 HBM", "subtype N1 HBM"]),
                     ("pack:2 [numa(indexes=4,1)] pu:2", []),
                     ("pack:2 [numa] [numa(indexes=3,2)] pu:2", ["subtype N3 HBM", "subtype N2 HBM"]),
                     ("[numa] pack:2 [numa] pu:2", ["subtype N2 NVM"]),
                     ("pack:4 [numa(indexes=0,1,2,3)] pu:1", ["subtype N1 HBM", "subtype N3 HBM", "restrict n 1,2,3 8"])]:
        l = ["reset", "topo syn " + syn] + ["pre " + p for p in pre] + ["objs P0", "cpusets 0 0,1 -", "names A", "begin", "local", "obs Capacity Locality"]
        behs.append("\n".join(l) + "\n")
    return behs


# default-nodeset scenarios also checked against the advisory maximality (never a verdict)
def advisory_behaviours():
    behs = []
    for syn, pre in [("pack:2 [numa(indexes=1,2)] pu:2", ["subtype N2 HBM"]),
                     ("pack:3 [numa(indexes=2,0,1)] pu:2", ["subtype N0 HBM"]),
                     ("pack:2 [numa(indexes=0,1)] pu:2", ["subtype N1 HBM"]),
                     ("pack:4 [numa(indexes=0,1,2,3)] pu:1", ["subtype N1 HBM", "subtype N3 HBM", "restrict n 1,2,3 8"]),
                     ("[numa] pack:2 [numa] pu:2", []),
                     ("node:3 pu:2", [])]:
        l = ["reset", "topo syn " + syn] + ["pre " + p for p in pre] + ["objs P0", "cpusets 0", "names A", "begin", "local"]
        behs.append("\n".join(l) + "\n")
    return behs


# ---------------------------------------------------------------------------------------------
# bundled inputs that carry memory attributes
# ---------------------------------------------------------------------------------------------
BUNDLED_XML = ["tests/hwloc/xml/8intel64-4n2t-memattrs.xml", "tests/hwloc/xml/64intel64-fakeKNL-SNC4-hybrid.xml"]
BUNDLED_TAR = ["tests/hwloc/linux/fakeheteromemtiers.tar.bz2", "tests/hwloc/linux/fakememinitiators-1np2c+1npp+gi.tar.bz2",
               "tests/hwloc/linux/64intel64-fakeKNL-SNC4-hybrid.tar.bz2", "tests/hwloc/linux/nvidiagpunumanodes.tar.bz2"]
BUNDLED_ENV = {"nvidiagpunumanodes.tar.bz2": "HWLOC_KEEP_NVIDIA_GPU_NUMA_NODES=1"}


def bundled_behaviours(ctx, thorough):
    behs = []
    srcs = []
    for x in BUNDLED_XML:
        p = os.path.join(REPO, x)
        if os.path.exists(p):
            srcs.append(("xml", p, None))
    for t in BUNDLED_TAR:
        p = os.path.join(REPO, t)
        if not os.path.exists(p):
            continue
        d = ctx.path("fsroot-" + os.path.basename(t).replace(".tar.bz2", ""))
        if not os.path.isdir(d):
            os.makedirs(d)
            with tarfile.open(p) as tf:
                tf.extractall(d)
        sub = [e for e in os.listdir(d)]
        root = os.path.join(d, sub[0]) if len(sub) == 1 and os.path.isdir(os.path.join(d, sub[0])) else d
        srcs.append(("fsroot", root, BUNDLED_ENV.get(os.path.basename(t))))
    tails = [["dup", "obs", "xml 0", "obs", "local"],
             ["xml 2", "adopt", "obs", "dupdrop", "obs"],
             ["restrict c 0,1,2,3 0", "obs", "xml 0", "obs", "local"],
             ["restrict n 0,1 8", "dup", "obs"],
             ["restrict c 0 1", "xml 0", "obs", "local"]]
    for kind, p, env in srcs:
        for tail in (tails if thorough else tails[:3]):
            l = ["reset", "topo %s %s" % (kind, p)] + (["env " + env] if env else []) + ["auto", "names Bandwidth Latency Capacity", "begin adopt", "adopt"] + tail
            behs.append("\n".join(l) + "\n")
    return behs


# ---------------------------------------------------------------------------------------------
def describe(ctx, exe, fams):
    """run the setup of every family on the real library and read the topology back from the Reset event"""
    bf = ctx.path("describe.beh")
    open(bf, "w").write("".join("\n".join(preamble(f, ["A"])) + "\n" for f in fams))
    tf = ctx.path("describe.ndjson")
    ctx.record(exe, bf, tf)
    res = {}
    evs = [json.loads(x) for x in open(tf) if x.strip()]
    for f, e in zip(fams, evs):
        if e.get("e") != "Reset" or not e.get("ok"):
            raise vlib.Infra("could not build topology family %s: %r" % (f, e))
        res[f] = e["topo"]
    return res


TV_CFG = "SPECIFICATION Spec\nCONSTANTS\n  Advisory = %s\n  Diag = FALSE\nPOSTCONDITION Accepted\nCHECK_DEADLOCK FALSE\n"


def run(ctx, replay=None):
    ctx.build_lib()
    exe = ctx.cc("hwv_memattrs.c", "hwv_memattrs")

    def replay_fn(text, advisory=False):
        p = ctx.path("replay-%d.beh" % random.randrange(1 << 30))
        open(p, "w").write(text)
        t = p + ".ndjson"
        ctx.record(exe, p, t)
        return ctx.validate("TraceMemAttrs", t, cfg=TV_CFG % ("TRUE" if advisory else "FALSE"), nshards=1)

    def diagnose(text):
        """which logged query breaks its relation: one more TLC pass over the recorded replay with Diag = TRUE"""
        p = ctx.path("diag.beh")
        open(p, "w").write(text)
        ctx.record(exe, p, p + ".ndjson")
        d = ctx.path("diag")
        os.makedirs(d, exist_ok=True)
        for f in os.listdir(vlib.SPEC):
            if f.endswith(".tla"):
                import shutil
                shutil.copy(os.path.join(vlib.SPEC, f), d)
        open(os.path.join(d, "TraceMemAttrs.cfg"), "w").write((TV_CFG % "FALSE").replace("Diag = FALSE", "Diag = TRUE"))
        rc, out = vlib.run(["java", "-Xmx2g", vlib.JAVA_OPTS, "-cp", vlib.TLA_CP, "tlc2.TLC", "-noGenerateSpecTE", "-workers", "1",
                            "-metadir", os.path.join(d, "meta"), "-config", "TraceMemAttrs.cfg", "TraceMemAttrs.tla"],
                           cwd=d, timeout=600, env={"TRACE": p + ".ndjson"})
        for line in out.split("\n"):
            if line.startswith('"FAILED '):
                vlib.log("  relation broken by:", line[8:1200])

    if replay:
        rej = replay_fn(open(replay).read())
        for r in rej:
            vlib.log("rejected event:", r["line"][:1500])
            print("VIOLATION property=C14 replay=%s" % replay)
        if rej:
            diagnose(open(replay).read())
        ctx.cleanup()
        return 1 if rej else 0

    thorough = ctx.tier == "thorough"
    behs = []
    topos = describe(ctx, exe, list(FAMILIES))
    rng = random.Random(ctx.seed)

    # (1) exhaustive BFS over the bounded configurations: behaviours = striped edges and states (seeded sample up to the cap)
    # (2) simulation: longer histories, two attributes, 64-bit values, every family
    jobs = []
    for c in sorted(configs(ctx.tier), key=lambda c: -len(c["inis"]) ** c["maxset"] * len(c["attrs"])):     # largest first
        jobs.append(("bfs", c, ctx.seed % c["stripes"]))
    for c in sim_configs(ctx.tier):
        jobs.append(("sim", c, 0))
    par = 4
    wk = max(1, min(vlib.NCPU, 16) // par)

    def runjob(j):
        kind, c, st = j
        mod = gen_module(c, topos[c["fam"]])
        if kind == "bfs":
            return ctx.tlc_mc("MC_MemAttrs_gen", cfg(c, c["stripes"], st, "bfs"), tag="bfs_%s_%d" % (c["name"], st),
                              extra_modules=[("MC_MemAttrs_gen.tla", mod)], timeout=3000, workers=wk, heap="3g")
        return ctx.tlc_mc("MC_MemAttrs_gen", cfg(c, 1, 0, "sim"), tag=c["name"], simulate="num=%d" % c["num"], depth=c["simlen"] + 1,
                          extra_modules=[("MC_MemAttrs_gen.tla", mod)], timeout=1500, workers=wk, heap="2g")

    import concurrent.futures as cf
    with cf.ThreadPoolExecutor(max_workers=par) as ex:
        results = list(ex.map(runjob, jobs))
    ctx.tlc_stats["states"] = sum(r["distinct"] for r in ctx.tlc_stats["runs"])
    ctx.tlc_stats["transitions"] = sum(r["generated"] for r in ctx.tlc_stats["runs"])
    for (kind, c, st), (out, s) in zip(jobs, results):
        if s["error"] or (kind == "bfs" and s["rc"] != 0):
            raise vlib.Infra("TLC run %s of MC_MemAttrs failed (model-level, not a violation): %s\n%s" % (c["name"], s["error"], out[-3000:]))
        if kind == "bfs":
            hs = [(h, 0) for h in vlib.tlc_printed(out, "EDGE")] + [(h, 1) for h in vlib.tlc_printed(out, "STATE") if h]
            if len(hs) > c["cap"]:
                hs = rng.sample(hs, c["cap"])
            behs += [beh_text(c, h, salt=ctx.seed + k) for h, k in hs]
        else:
            behs += [beh_text(c, h, salt=ctx.seed, sim=True) for h in vlib.tlc_printed(out, "SIM")]

    nmodel = len(behs)
    vlib.log("C14: %d model behaviours after %.0fs" % (nmodel, __import__("time").time() - ctx.t0))
    # (3) hand-written argument corners, (4) bundled inputs
    behs += extra_behaviours()
    behs += bundled_behaviours(ctx, thorough)

    ctx.samples = [behs[0], behs[nmodel // 2], behs[-1]]
    bf = ctx.path("behaviours.txt")
    open(bf, "w").write("".join(behs))
    tf = ctx.path("trace.ndjson")
    ctx.record(exe, bf, tf, timeout=3000)
    vlib.log("C14: recorded %d MB after %.0fs" % (os.path.getsize(tf) >> 20, __import__("time").time() - ctx.t0))
    rejs = ctx.validate("TraceMemAttrs", tf, cfg=TV_CFG % "FALSE", timeout=3000, heap="2g",
                        nshards=max(vlib.NCPU, (os.path.getsize(tf) >> 20) // 12))
    vlib.log("C14: validated after %.0fs" % (__import__("time").time() - ctx.t0))
    ctx.handle_rejections(rejs, behs, replay_fn)

    # (5) advisory: default nodeset maximality (documented aim of the heuristic, outside the fixed statement)
    adv = advisory_behaviours()
    acc0, ev0 = ctx.accepted, ctx.events
    ap = ctx.path("advisory.beh")
    open(ap, "w").write("".join(adv))
    ctx.record(exe, ap, ap + ".ndjson")
    arej = ctx.validate("TraceMemAttrs", ap + ".ndjson", cfg=TV_CFG % "TRUE", nshards=1, max_rej=len(adv))
    ctx.accepted, ctx.events = acc0, ev0
    nadv = len(arej)
    for r in arej:
        b = adv[r["beh"]]
        ctx.notes.append("ADVISORY (not a verdict): hwloc_topology_get_default_nodeset() left out a non-empty node disjoint from "
                         "every selected one: " + " / ".join(b.strip().split("\n")[1:-5]))
    if nadv:
        vlib.log("ADVISORY: default nodeset not maximal on %d of %d scenarios (see evidence notes; outside the fixed statement)" % (nadv, len(adv)))

    return ctx.finish(
        rule="behaviours = one per striped state-graph edge and state of the exhaustive bounded models (one attribute with initiators over "
             "3 NUMA nodes incl. a CPU-less and a larger-locality one x 4 PUs; no-initiator / read-only / bad arguments; custom + predefined; "
             "registration over all flag words), TLC-simulated longer histories over five topology families with two attributes and 64-bit values, "
             "hand-written argument corners, and bundled XML / Linux snapshots with memory attributes (adopted store checked for consistency and "
             "through dup / XML / restrict); each behaviour ends with the full observation battery, was replayed on the rebuilt library and validated by TLC",
        assumptions=["what restrict removes from the topology is taken from the recorder's projection (property C08), only its effect on the attributes is judged",
                     "targets whose stored cpuset initiators intersect (or lie outside the topology) are only held to the weak contract",
                     "errno is only demanded where memattrs.h documents it; best_initiator on a target without value may report ENOENT or EINVAL",
                     "ENOMEM paths are not explored"],
        exhaustive=False,
        extra={"behaviours": len(behs), "model_behaviours": nmodel, "advisory_default_nodeset_not_maximal": nadv})
