"""C20 - command-line tools compute what the library API defines.
Model: spec/Calc.tla (semantics and relations) + spec/MC_Calc.tla (command-line generator over the projection of the
very input the tools get); binding: spec/TraceCalc.tla; helper recorder (library view of the inputs): harness/hwv_calc.c;
the tool invocations are process-level events recorded here (argv, stdout lines, exit status, signal - no judgement)."""
import os, re, json, random, subprocess, signal, shutil, concurrent.futures as cf
import vlib
from props import c08

TOOLS = ["hwloc-calc", "hwloc-distrib", "hwloc-diff", "hwloc-patch", "lstopo-no-graphics"]
# (name, kind, source, restrict) - the C08 families plus unordered / sparse OS indexes and heterogeneous memory
FAMILIES = [
    ("sym", "S", "pack:2 core:2 pu:2", ""),
    ("nested", "S", "[numa] pack:2 [numa] core:2 pu:2", ""),
    ("numa2", "S", "node:2 core:2 pu:2", ""),
    ("group", "S", "group:2 pack:2 pu:2", ""),
    ("asym", "S", "pack:2 core:2 pu:2", "c0x1f"),
    ("cpuless", "S", "node:3 pu:2", "c0xf"),
    ("caches", "S", "pack:2 l2:2 l1:1 core:1 pu:1", ""),
    ("io", "X", "@DIR@/fam-io.xml", ""),
    ("perm", "S", "pack:2(indexes=1,0) core:2 pu:2(indexes=0,4,2,6,1,5,3,7)", ""),
    ("sparse", "S", "node:2(indexes=3,1) pu:2", ""),
    ("hetero", "S", "pack:2 [numa] group:2 [numa] [numa] pu:2", ""),
    ("groups3", "S", "group:2 node:2 group:2 pu:2", ""),
    ("nrestrict", "S", "node:3 core:2 pu:2", "n0x5"),
]
QUICK_FAMILIES = ["sym", "nested", "asym", "cpuless", "io", "perm", "sparse", "group"]
ENV = {"ASAN_OPTIONS": "abort_on_error=1:detect_leaks=0:allocator_may_return_null=1", "UBSAN_OPTIONS": "abort_on_error=1:print_stacktrace=1",
       "HWLOC_DONT_ADD_VERSION_INFO": "1", "HWLOC_HIDE_ERRORS": "2", "LC_ALL": "C", "LANG": "C"}
TIMEOUT = 25


def topo_line(tid, kind, src, restrict="", flags=8, allf="0", io="-", tf="-", rflags=0, xml="-", syn="-", save="-"):
    return "topo %s flags=%d all=%s io=%s tf=%s restrict=%s rflags=%d xml=%s syn=%s save=%s %s %s" % (
        tid, flags, allf, io, tf, restrict or "-", rflags, xml, syn, save, kind, src)


def parse_topo_line(line):
    p = line.split(" ", 12)
    kv = dict(x.split("=", 1) for x in p[2:11])
    return {"id": p[1], "kind": p[11], "src": p[12], "restrict": "" if kv["restrict"] == "-" else kv["restrict"], "rflags": int(kv["rflags"])}


def input_argv(t):
    a = ["-i", t["src"]]
    if t["restrict"]:
        a += ["--restrict", ("nodeset=" if t["restrict"][0] == "n" else "") + t["restrict"][1:]]
        if t["rflags"]:
            a += ["--restrict-flags", str(t["rflags"])]
    return a


class Exec:
    """runs behaviours: helper lines through hwv_calc, tool lines as processes; writes one ndjson trace"""

    def __init__(self, ctx, helper, bindir):
        self.ctx, self.helper, self.bin = ctx, helper, bindir
        self.n = 0
        self.lock = __import__("threading").Lock()

    def tool(self, name, argv, stdin=None):
        """one process-level event: stdout / stderr go to files capped at 32 MB (a runaway tool dies of SIGXFSZ, a signal like any other)"""
        e = dict(os.environ)
        e.update(ENV)
        with self.lock:
            self.n += 1
            k = self.n
        fo, fe = self.ctx.path("o-%d.txt" % k), self.ctx.path("e-%d.txt" % k)
        try:
            with open(fo, "wb") as so, open(fe, "wb") as se:
                p = subprocess.Popen(["prlimit", "--fsize=33554432", os.path.join(self.bin, name)] + argv, stdin=subprocess.DEVNULL, stdout=so, stderr=se,
                                     env=e, cwd=self.ctx.dir, start_new_session=True)
                try:
                    rc = p.wait(timeout=TIMEOUT)
                except subprocess.TimeoutExpired:
                    os.killpg(p.pid, signal.SIGKILL)
                    p.wait()
                    rc = -9
        except OSError as ex:
            raise vlib.Infra("cannot run %s: %s" % (name, ex))
        out = open(fo, "rb").read().decode("utf-8", "replace")
        with open(fe, "rb") as f:
            f.seek(0, 2)
            f.seek(max(0, f.tell() - 65536))
            err = f.read().decode("utf-8", "replace")
        os.unlink(fo)
        os.unlink(fe)
        lines = out.split("\n")
        if lines and lines[-1] == "":
            lines.pop()
        san = 1 if ("Sanitizer" in err or "runtime error:" in err) else 0
        return {"lines": lines, "text": out, "rc": rc if rc >= 0 else 128 - rc, "sig": -rc if rc < 0 else 0, "san": san}, err

    def helper_events(self, lines, k):
        bf = self.ctx.path("h-%d.beh" % k)
        tf = bf + ".ndjson"
        open(bf, "w").write("reset\n" + "\n".join(lines) + "\n")
        rc, out = vlib.run([self.helper, bf, tf], timeout=120, env=dict(ENV, HWV_WATCHDOG="60"))
        if rc != 0:
            raise vlib.Infra("hwv_calc failed rc=%d: %s" % (rc, out[-1000:]))
        ev = [x for x in open(tf).read().split("\n") if x.strip() and not x.startswith('{"e":"Reset"')]
        os.unlink(bf)
        os.unlink(tf)
        return ev

    def run_behaviour(self, idx, text, errlog=None):
        """returns the list of event lines of one behaviour"""
        D = self.ctx.dir
        wd = self.ctx.path("w%d" % idx)
        os.makedirs(wd, exist_ok=True)
        events = ['{"e":"Reset","beh":%d}' % idx]
        cur = None            # parsed topo line of the current input
        slots = {}
        prev_lines = []
        pending = []
        lines = [x for x in text.replace("@DIR@", D).replace("@W@", wd).split("\n") if x.strip()]

        def flush():
            if pending:
                events.extend(self.helper_events(pending, idx))
                del pending[:]
        for line in lines[1:]:
            cmd, _, rest = line.partition(" ")
            if cmd == "topo":
                if "@PREV@" in line:       # reload of what the previous tool printed (first stdout line)
                    line = line.replace("@PREV@", prev_lines[0] if prev_lines else "")
                t = parse_topo_line(line)
                if t["id"] == "t":
                    cur = t
                slots[t["id"]] = t
                pending.append(line)
                continue
            if cmd in ("class", "#"):
                continue
            flush()
            j = json.loads(rest)
            if cmd == "calc":
                argv = j["argv"]
                if j["mode"]["m"] == "fbL":
                    argv = (["--pi"] if j["mode"]["po"] else []) + (prev_lines[0].split(" ") if prev_lines and prev_lines[0] else [])
                elif j["mode"]["m"] == "fbH":
                    argv = ["-I", j["mode"]["tn"]] + (prev_lines[0].split(" ") if prev_lines and prev_lines[0] else [])
                targs = input_argv(cur)
                r, err = self.tool("hwloc-calc", targs + argv)
                prev_lines = r["lines"]
                ev = {"e": "calc", "beh": idx, "toks": j["toks"], "mode": j["mode"], "targs": targs, "argv": argv,
                      "lines": r["lines"], "rc": r["rc"], "sig": r["sig"], "san": r["san"]}
            elif cmd == "distrib":
                targs = input_argv(cur)
                r, err = self.tool("hwloc-distrib", targs + j["argv"])
                ev = {"e": "distrib", "beh": idx, "dm": j["dm"], "targs": targs, "argv": j["argv"],
                      "lines": r["lines"], "rc": r["rc"], "sig": r["sig"], "san": r["san"]}
            elif cmd == "lstopo":
                targs = input_argv(slots["lib"])
                r, err = self.tool("lstopo-no-graphics", targs + j["argv"])
                prev_lines = r["lines"]
                if j.get("save"):
                    open(j["save"], "w").write(r["text"])
                ev = {"e": "lstopo", "beh": idx, "lm": j["lm"], "targs": targs, "argv": j["argv"], "lines": r["lines"], "text": r["text"],
                      "rc": r["rc"], "sig": r["sig"], "san": r["san"]}
            elif cmd == "diff":
                argv = [slots["a"]["src"], slots["b"]["src"], j["out"]]
                r, err = self.tool("hwloc-diff", argv)
                slots["diffrc"] = r["rc"]
                ev = {"e": "diff", "beh": idx, "edit": j["edit"], "out": j["out"], "argv": argv, "lines": r["lines"], "rc": r["rc"], "sig": r["sig"], "san": r["san"]}
            elif cmd == "patch":
                argv = (["-R", slots["b"]["src"]] if j["reverse"] else [slots["a"]["src"]]) + [j["diff"], j["out"]]
                r, err = self.tool("hwloc-patch", argv)
                if not os.path.exists(j["out"]):
                    open(j["out"], "w").write("")
                ev = {"e": "patch", "beh": idx, "reverse": j["reverse"], "diff": j["diff"], "out": j["out"], "diffrc": slots.get("diffrc", -1),
                      "argv": argv, "lines": r["lines"], "rc": r["rc"], "sig": r["sig"], "san": r["san"]}
            elif cmd == "patched":
                err = ""
                ev = {"e": "patched", "beh": idx, "reverse": j["reverse"], "diffrc": slots.get("diffrc", -1)}
            else:
                raise vlib.Infra("unknown behaviour line: " + line[:200])
            if errlog is not None and err:
                errlog.append((line[:300], err[-1500:]))
            events.append(json.dumps(ev, separators=(",", ":")))
        flush()
        shutil.rmtree(wd, ignore_errors=True)
        return events

    def run_all(self, behs, tracefile, base=0, parallel=12):
        self.ctx_log("running %d behaviours (%d tool invocations)" % (len(behs), sum(b.count("\ncalc ") + b.count("\ndistrib ") + b.count("\nlstopo ") + b.count("\ndiff ") + b.count("\npatch ") for b in behs)))
        with cf.ThreadPoolExecutor(max_workers=parallel) as ex:
            res = list(ex.map(lambda ib: self.run_behaviour(base + ib[0], ib[1]), enumerate(behs)))
        with open(tracefile, "w") as f:
            for evs in res:
                f.write("\n".join(evs) + "\n")

    def ctx_log(self, msg):
        vlib.log("[%6.1fs] %s" % (__import__("time").time() - self.ctx.t0, msg))


# ---------------------------------------------------------------- inputs
def make_inputs(ctx, ex):
    """the I/O XML of the C08 families (its own export of 'pack:2 core:2 pu:2' with a PCI subtree), written by the helper + c08's snippet"""
    base = ctx.path("fam-base.xml")
    ex.helper_events([topo_line("t", "S", "pack:2 core:2 pu:2", xml="0", save=base)], 900000)
    text = open(base).read()
    m = re.search(r'<object type="Package"[^>]*>\n', text)
    if not m:
        raise vlib.Infra("cannot find Package in exported XML")
    open(ctx.path("fam-io.xml"), "w").write(text[:m.end()] + c08.IO_SNIPPET + text[m.end():])


def family_topo_event(ctx, ex, fam, cfg):
    name, kind, src, restrict = fam
    allf = "0" if cfg == "calc" else "-"
    ev = ex.helper_events([topo_line("t", kind, src.replace("@DIR@", ctx.dir), restrict, allf=allf)], 900001)
    p = ctx.path("topo-%s-%s.ndjson" % (name, cfg))
    open(p, "w").write(ev[0] + "\n")
    if '"ok":1' not in ev[0]:
        raise vlib.Infra("family %s does not load: %s" % (name, ev[0][:300]))
    return p


def tla_shapes(shapes):
    return "{" + ", ".join("<<" + ", ".join('"%s"' % c for c in s) + ">>" for s in shapes) + "}"


def mc_cfg(topofile, nstripes, stripe, other, laws=True):
    inv = "TypeOK FoldOK Inside LargestLaw HLaw" if laws else "TypeOK"
    return ("SPECIFICATION Spec\nCONSTANTS\n  TopoFile = \"%s\"\n  Shapes <- GShapes\n  NStripes = %d\n  Stripe = %d\n  WithOther = %s\n"
            "INVARIANTS %s\nACTION_CONSTRAINT EmitEdge\nCHECK_DEADLOCK FALSE\n" % (topofile, nstripes, stripe, "TRUE" if other else "FALSE", inv))


def session_lines(sess):
    out = []
    for inv in sess["invs"]:
        out.append("calc " + json.dumps({"toks": sess["toks"], "mode": inv["mode"], "argv": inv["argv"]}, separators=(",", ":")))
    return out


def fam_topo_line(fam, cfg):
    name, kind, src, restrict = fam
    return topo_line("t", kind, src, restrict, allf="0" if cfg == "calc" else "-")


# ---------------------------------------------------------------- lstopo and diff/patch behaviours (small fixed enumerations)
def lstopo_behaviours(fams, thorough):
    behs = []
    ofs = ["xml", "synthetic", "v2xml"] if thorough else ["xml", "synthetic"]
    filts = ["", "--merge", "--no-io", "--whole-io", "--no-caches"] if thorough else ["", "--merge", "--no-io"]
    for fam in fams:
        name, kind, src, restrict = fam
        for of in ofs:
            for filt in filts:
                for fl in ([0, 1, 2, 4, 8] if (thorough and of == "synthetic") else [0]):
                    lm = {"of": of, "filt": filt, "xflags": 0, "sflags": fl if of == "synthetic" else 0, "extra": []}
                    behs.append(lstopo_behaviour(fam, lm))
        behs.append(lstopo_behaviour(fam, {"of": "bogus", "filt": "", "xflags": 0, "sflags": 0, "extra": []}))
        behs.append(lstopo_behaviour(fam, {"of": "xml", "filt": "", "xflags": 0, "sflags": 0, "extra": ["-.xml", "second.xml"]}))
        behs.append(lstopo_behaviour(fam, {"of": "xml", "filt": "", "xflags": 0, "sflags": 0, "extra": ["--export-xml-flags"]}))
    return behs


def lstopo_tf(filt):
    return {"--merge": ",".join("%d:2" % t for t in range(20)), "--no-io": "16:1,17:1,18:1", "--whole-io": "16:0,17:0,18:0",
            "--no-caches": ",".join("%d:1" % t for t in range(5, 13)), "": "-"}[filt]


def lstopo_argv(lm):
    a = [lm["filt"]] if lm["filt"] else []
    if lm["xflags"]:
        a += ["--export-xml-flags", str(lm["xflags"])]
    if lm["sflags"]:
        a += ["--export-synthetic-flags", str(lm["sflags"])]
    return a + lm["extra"] + ["--of", lm["of"]]


def lstopo_behaviour(fam, lm):
    name, kind, src, restrict = fam
    xml = "-"
    syn = "-"
    if lm["of"] in ("xml", "v2xml"):
        xml = str(lm["xflags"] + (2 if lm["of"] == "v2xml" and lm["xflags"] % 4 < 2 else 0))
    if lm["of"] == "synthetic":
        syn = str(lm["sflags"])
    lines = ["reset", topo_line("lib", kind, src, restrict, allf="0", io="3", tf=lstopo_tf(lm["filt"]), xml=xml, syn=syn)]
    save = "@W@/ls.out"
    lines.append("lstopo " + json.dumps({"lm": lm, "argv": lstopo_argv(lm), "save": save}, separators=(",", ":")))
    if lm["of"] == "xml" and not lm["extra"]:
        lines.append(topo_line("re", "X", save, "", allf="0"))
    if lm["of"] == "synthetic" and not lm["extra"]:
        lines.append(topo_line("re", "S", "@PREV@", "", allf="0"))
    return "\n".join(lines) + "\n"


EDITS = [
    ("none", None, None),
    ("info", r'(<info name="Backend" value=")[^"]*(")', r"\1Edited\2"),
    ("info", r'(<info name="SyntheticDescription" value=")[^"]*(")', r"\1pack:2 core:2 pu:2 changed &amp; more\2"),
    ("name", r'(type="OSDev"[^>]* name=")eth0(")', r"\1eth7\2"),
    ("name", r'(type="Misc"[^>]* name=")misc-under-pci(")', r"\1renamed misc\2"),
    ("memory", r'(type="NUMANode"[^>]* local_memory=")\d+(")', r"\g<1>2147483648\2"),
    ("structure", r'(<object type="OSDev" gp_index="9006"[^>]*/>\n)', r""),
]


def diffpatch_behaviours(ctx, thorough):
    """A = the I/O family XML, B = A with one edit (renamed object / changed info value / changed NUMA local memory / removed object)"""
    a = open(ctx.path("fam-io.xml")).read()
    behs = []
    for k, (kind, pat, rep) in enumerate(EDITS):
        b = a if pat is None else re.sub(pat, rep, a, count=1)
        if pat is not None and b == a:
            raise vlib.Infra("edit %d does not apply to the I/O XML" % k)
        bp = ctx.path("fam-io-b%d.xml" % k)
        open(bp, "w").write(b)
        lines = ["reset",
                 topo_line("a", "X", "@DIR@/fam-io.xml", "", flags=9, xml="0"),
                 topo_line("b", "X", "@DIR@/fam-io-b%d.xml" % k, "", flags=9, xml="0"),
                 "diff " + json.dumps({"edit": kind, "out": "@W@/d.xml"}),
                 "patch " + json.dumps({"reverse": False, "diff": "@W@/d.xml", "out": "@W@/p.xml"}),
                 topo_line("p", "X", "@W@/p.xml", "", flags=9, xml="0"),
                 "patched " + json.dumps({"reverse": False}),
                 "patch " + json.dumps({"reverse": True, "diff": "@W@/d.xml", "out": "@W@/q.xml"}),
                 topo_line("q", "X", "@W@/q.xml", "", flags=9, xml="0"),
                 "patched " + json.dumps({"reverse": True})]
        behs.append("\n".join(lines) + "\n")
    return behs


# ---------------------------------------------------------------- main
def run(ctx, replay=None):
    ctx.build_lib()
    helper = ctx.cc("hwv_calc.c", "hwv_calc")
    bindir = ctx.path("bin")
    rc, out = vlib.run([os.path.join(vlib.VERIF, "tools", "build_utils.sh"), ctx.libdir, bindir], timeout=900)
    if rc != 0:
        raise vlib.Infra("tool build failed:\n" + out[-4000:])
    ex = Exec(ctx, helper, bindir)
    make_inputs(ctx, ex)
    counter = [0]

    def replay_fn(text, verbose=False):
        counter[0] += 1
        tf = ctx.path("replay-%d.ndjson" % counter[0])
        errlog = []
        evs = ex.run_behaviour(0, text, errlog=errlog)
        open(tf, "w").write("\n".join(evs) + "\n")
        rej = ctx.validate("TraceCalc", tf, nshards=1)
        if rej and verbose:
            for line, err in errlog[-3:]:
                vlib.log("stderr of", line, ":\n", err)
        return rej

    if replay:
        if os.path.exists(ctx.path("fam-io.xml")):
            diffpatch_behaviours(ctx, True)      # recreates the edited XML files a diff/patch replay refers to
        rej = replay_fn(open(replay).read(), verbose=True)
        for r in rej:
            vlib.log("rejected event:", r["line"][:1500])
            print("VIOLATION property=C20 replay=%s" % replay)
        ctx.cleanup()
        return 1 if rej else 0

    thorough = ctx.tier == "thorough"
    rng = random.Random(ctx.seed)
    fams = [f for f in FAMILIES if thorough or f[0] in QUICK_FAMILIES]

    # (1) TLC enumerates command lines per family, on the projection of the input the tools will get
    base = [["A"], ["all", "B"], ["X"], ["all", "X"]]
    if thorough:
        runs = [("s", base + [["O", "P"]], 150, ctx.seed % 150, True),
                ("m", [["M", "M"], ["O", "m", "m"], ["O", "R", "R"], ["m", "m", "m"]], 1200, ctx.seed % 1200, False)]
    else:
        runs = [("s", base + [["O", "p"]], 600, ctx.seed % 600, True),
                ("m", [["M", "M"], ["O", "m", "m"], ["m", "m", "m"]], 3000, ctx.seed % 3000, False)]
    jobs = []
    for fam in fams:
        tfile = family_topo_event(ctx, ex, fam, "calc")
        dfile = family_topo_event(ctx, ex, fam, "distrib")
        for tag, shapes, ns, stripe, laws in runs:
            jobs.append((fam, "calc", tag, tfile, shapes, ns, stripe, laws))
        jobs.append((fam, "distrib", "d", dfile, [], 1 if thorough else 3, 0 if thorough else ctx.seed % 3, False))

    def mc(job):
        fam, cfg, tag, tfile, shapes, ns, stripe, laws = job
        mod = "---- MODULE MC_Calc_gen ----\nEXTENDS MC_Calc\nGShapes == %s\n====\n" % tla_shapes(shapes)
        out, st = ctx.tlc_mc("MC_Calc_gen", mc_cfg(tfile, ns, stripe, cfg == "distrib", laws), tag="mc_%s_%s" % (fam[0], tag), workers=2,
                             extra_modules=[("MC_Calc_gen.tla", mod)], timeout=2400, heap="4g")
        if st["error"] or st["rc"] != 0:
            raise vlib.Infra("MC_Calc failed for family %s (model-level, not a violation): %s\n%s" % (fam[0], st["error"], out[-2500:]))
        return list(vlib.tlc_printed(out, "CALC")), list(vlib.tlc_printed(out, "DISTRIB"))

    with cf.ThreadPoolExecutor(max_workers=4) as pool:
        results = list(pool.map(mc, jobs))

    # (2) behaviours: per family, batches of sessions; inputs of the recorded finding go to behaviours of their own
    behs = []
    special = []     # inputs of a recorded finding: one session per behaviour, validated apart so that nothing else is masked
    per = 25
    ninv = 0
    for job, (calcs, distribs) in zip(jobs, results):
        fam, cfg = job[0], job[1]
        head = ["reset", fam_topo_line(fam, cfg)]
        if cfg == "distrib":
            lines = ["distrib " + json.dumps(d, separators=(",", ":")) for d in distribs]
            for k in range(0, len(lines), per):
                behs.append("\n".join(head + lines[k:k + per]) + "\n")
            ninv += len(lines)
            continue
        plain = [s for s in calcs if s["cls"] == ""]
        rng.shuffle(plain)
        cur = []
        for s in plain:
            cur += session_lines(s)
            if len(cur) >= per:
                behs.append("\n".join(head + cur) + "\n")
                cur = []
        if cur:
            behs.append("\n".join(head + cur) + "\n")
        for s in calcs:
            if s["cls"]:
                special.append("\n".join(head + ["class " + s["cls"]] + session_lines(s)) + "\n")
            ninv += len(s["invs"])
    behs += lstopo_behaviours(fams, thorough)
    behs += diffpatch_behaviours(ctx, thorough)
    ctx.samples = [behs[0], behs[len(behs) // 2], behs[-1]]
    rng.shuffle(special)
    nspecial = len(special)
    special = special[:60 if thorough else 12]
    tf = ctx.path("trace.ndjson")
    ex.run_all(behs, tf)
    rejs = ctx.validate("TraceCalc", tf, nshards=vlib.NCPU, timeout=3000)
    if special:
        tf2 = ctx.path("trace-special.ndjson")
        ex.run_all(special, tf2, base=len(behs))
        rejs += ctx.validate("TraceCalc", tf2, nshards=4, timeout=3000, max_rej=len(special) + 1)
    ctx.handle_rejections(rejs, behs + special, replay_fn)
    return ctx.finish(
        rule="for each input family TLC enumerates hwloc-calc command lines from MC_Calc.tla (location sequences over the token alphabet of the loaded "
             "projection x groups of output modes, striped), hwloc-distrib command lines, and fixed lstopo / hwloc-diff+patch scenarios; every "
             "invocation of the rebuilt ASan tools is one trace event validated by TLC against Calc.tla. Non-trivial = the behaviour has at least one tool invocation.",
        assumptions=["hwloc-calc options --no-smt, --cpukind, --local-memory, --best-memattr, stdin mode and type filters ([subtype], [tier=]) are not modelled",
                     "where hwloc(7) leaves a location open (memory objects in chains, x:y starting past the level, guessed set formats that are ambiguous) only the exit status / absence of crash is checked",
                     "lstopo graphical and text renderings, hwloc-bind, hwloc-ps, hwloc-annotate, hwloc-info are outside the property"],
        extra={"behaviours": len(behs) + len(special), "invocations": ninv, "families": [f[0] for f in fams],
               "recorded_finding_inputs": {"generated": nspecial, "run": len(special)}})
