"""C20 - command-line tools compute what the library API defines.
Model: spec/Calc.tla (semantics and relations) + spec/MC_Calc.tla (hwloc-calc / hwloc-distrib command-line generator over the
projection of the very input the tools get) + spec/MC_Lstopo.tla (lstopo command lines, and generated wide synthetic inputs
whose exported texts have chosen lengths around the tools' buffer sizes); binding: spec/TraceCalc.tla; helper recorder (library
view of the inputs): harness/hwv_calc.c; the tool invocations are process-level events recorded here (argv, standard input,
stdout lines or destination file, exit status, signal - no judgement)."""
import os, re, json, random, subprocess, signal, shutil, concurrent.futures as cf
import vlib
from props import c08

TOOLS = ["hwloc-calc", "hwloc-distrib", "hwloc-diff", "hwloc-patch", "lstopo-no-graphics"]
# (name, kind, source, restrict) - the C08 families plus unordered / sparse OS indexes and heterogeneous memory
FAMILIES = [
    ("sym", "S", "pack:2 core:2 pu:2", ""),
    ("nested", "S", "[numa] pack:2 [numa] core:2 pu:2", ""),
    ("numa2", "S", "node:2 core:2 pu:2", ""),
    ("group", "S", "group:2 pack:2 pu:2", ""),
    ("asym", "S", "pack:2 core:2 pu:2", "c0x1f"),
    ("cpuless", "S", "node:3 pu:2", "c0xf"),
    ("caches", "S", "pack:2 l2:2 l1:1 core:1 pu:1", ""),
    ("io", "X", "@DIR@/fam-io.xml", ""),
    ("perm", "S", "pack:2(indexes=1,0) core:2 pu:2(indexes=0,4,2,6,1,5,3,7)", ""),
    ("sparse", "S", "node:2(indexes=3,1) pu:2", ""),
    ("hetero", "S", "pack:2 [numa] group:2 [numa] [numa] pu:2", ""),
    ("groups3", "S", "group:2 node:2 group:2 pu:2", ""),
    ("nrestrict", "S", "node:3 core:2 pu:2", "n0x5"),
]
QUICK_FAMILIES = ["sym", "nested", "asym", "cpuless", "io", "perm", "sparse", "group"]
ENV = {"ASAN_OPTIONS": "abort_on_error=1:detect_leaks=0:allocator_may_return_null=1", "UBSAN_OPTIONS": "abort_on_error=1:print_stacktrace=1",
       "HWLOC_DONT_ADD_VERSION_INFO": "1", "HWLOC_HIDE_ERRORS": "2", "LC_ALL": "C", "LANG": "C"}
TIMEOUT = 25


def topo_line(tid, kind, src, restrict="", flags=8, allf="0", io="-", tf="-", rflags=0, xml="-", syn="-", save="-"):
    return "topo %s flags=%d all=%s io=%s tf=%s restrict=%s rflags=%d xml=%s syn=%s save=%s %s %s" % (
        tid, flags, allf, io, tf, restrict or "-", rflags, xml, syn, save, kind, src)


def parse_topo_line(line):
    p = line.split(" ", 12)
    kv = dict(x.split("=", 1) for x in p[2:11])
    return {"id": p[1], "kind": p[11], "src": p[12], "restrict": "" if kv["restrict"] == "-" else kv["restrict"], "rflags": int(kv["rflags"])}


def input_argv(t):
    a = ["-i", t["src"]]
    if t["restrict"]:
        a += ["--restrict", ("nodeset=" if t["restrict"][0] == "n" else "") + t["restrict"][1:]]
        if t["rflags"]:
            a += ["--restrict-flags", str(t["rflags"])]
    return a


class Exec:
    """runs behaviours: helper lines through hwv_calc, tool lines as processes; writes one ndjson trace"""

    def __init__(self, ctx, helper, bindir):
        self.ctx, self.helper, self.bin = ctx, helper, bindir
        self.n = 0
        self.lock = __import__("threading").Lock()

    def tool(self, name, argv, stdin=None):
        """one process-level event: stdout / stderr go to files capped at 32 MB (a runaway tool dies of SIGXFSZ, a signal like any other);
        stdin: None (nothing to read), or the bytes the tool finds on its standard input"""
        e = dict(os.environ)
        e.update(ENV)
        with self.lock:
            self.n += 1
            k = self.n
        fo, fe, fi = self.ctx.path("o-%d.txt" % k), self.ctx.path("e-%d.txt" % k), self.ctx.path("i-%d.txt" % k)
        if stdin is not None:
            open(fi, "wb").write(stdin)
        try:
            with open(fo, "wb") as so, open(fe, "wb") as se, open(fi if stdin is not None else os.devnull, "rb") as si:
                p = subprocess.Popen(["prlimit", "--fsize=33554432", os.path.join(self.bin, name)] + argv, stdin=si, stdout=so, stderr=se,
                                     env=e, cwd=self.ctx.dir, start_new_session=True)
                try:
                    rc = p.wait(timeout=TIMEOUT)
                except subprocess.TimeoutExpired:
                    os.killpg(p.pid, signal.SIGKILL)
                    p.wait()
                    rc = -9
        except OSError as ex:
            raise vlib.Infra("cannot run %s: %s" % (name, ex))
        out = open(fo, "rb").read().decode("utf-8", "replace")
        with open(fe, "rb") as f:
            f.seek(0, 2)
            f.seek(max(0, f.tell() - 65536))
            err = f.read().decode("utf-8", "replace")
        os.unlink(fo)
        os.unlink(fe)
        if stdin is not None:
            os.unlink(fi)
        lines = out.split("\n")
        if lines and lines[-1] == "":
            lines.pop()
        san = 1 if ("Sanitizer" in err or "runtime error:" in err) else 0
        return {"lines": lines, "text": out, "rc": rc if rc >= 0 else 128 - rc, "sig": -rc if rc < 0 else 0, "san": san}, err

    def helper_events(self, lines, k):
        bf = self.ctx.path("h-%d.beh" % k)
        tf = bf + ".ndjson"
        open(bf, "w").write("reset\n" + "\n".join(lines) + "\n")
        rc, out = vlib.run([self.helper, bf, tf], timeout=120, env=dict(ENV, HWV_WATCHDOG="60"))
        if rc != 0:
            raise vlib.Infra("hwv_calc failed rc=%d: %s" % (rc, out[-1000:]))
        ev = [x for x in open(tf).read().split("\n") if x.strip() and not x.startswith('{"e":"Reset"')]
        os.unlink(bf)
        os.unlink(tf)
        return ev

    def run_behaviour(self, idx, text, errlog=None):
        """returns the list of event lines of one behaviour"""
        D = self.ctx.dir
        wd = self.ctx.path("w%d" % idx)
        os.makedirs(wd, exist_ok=True)
        events = ['{"e":"Reset","beh":%d}' % idx]
        cur = None            # parsed topo line of the current input
        slots = {}
        prev_lines = []
        pending = []
        lines = [x for x in text.replace("@DIR@", D).replace("@W@", wd).split("\n") if x.strip()]

        def flush():
            if pending:
                events.extend(self.helper_events(pending, idx))
                del pending[:]
        for line in lines[1:]:
            cmd, _, rest = line.partition(" ")
            if cmd == "topo":
                if "@PREV@" in line:       # reload of what the previous tool printed (first stdout line)
                    line = line.replace("@PREV@", prev_lines[0] if prev_lines else "")
                t = parse_topo_line(line)
                if t["id"] == "t":
                    cur = t
                slots[t["id"]] = t
                pending.append(line)
                continue
            if cmd in ("class", "#"):
                continue
            flush()
            j = json.loads(rest)
            if cmd == "calc":
                argv = j["argv"]
                if j["mode"]["m"] == "fbL":
                    argv = (["--pi"] if j["mode"]["po"] else []) + (prev_lines[0].split(" ") if prev_lines and prev_lines[0] else [])
                elif j["mode"]["m"] == "fbH":
                    argv = ["-I", j["mode"]["tn"]] + (prev_lines[0].split(" ") if prev_lines and prev_lines[0] else [])
                targs = input_argv(cur)
                sin = j.get("stdin", "")
                r, err = self.tool("hwloc-calc", targs + argv, stdin=sin.encode() if j["mode"]["m"] == "stdin" else None)
                prev_lines = r["lines"]
                ev = {"e": "calc", "beh": idx, "toks": j["toks"], "mode": j["mode"], "targs": targs, "argv": argv, "stdin": sin,
                      "lines": r["lines"], "rc": r["rc"], "sig": r["sig"], "san": r["san"]}
            elif cmd == "distrib":
                targs = input_argv(cur)
                r, err = self.tool("hwloc-distrib", targs + j["argv"])
                ev = {"e": "distrib", "beh": idx, "dm": j["dm"], "targs": targs, "argv": j["argv"],
                      "lines": r["lines"], "rc": r["rc"], "sig": r["sig"], "san": r["san"]}
            elif cmd == "lstopo":
                targs = input_argv(slots["lib"])
                lm = j["lm"]
                outfile, existed = "", 0
                if lm["dest"] in ("file", "filef"):        # a destination file named after the format; filef: it exists already
                    outfile = os.path.join(wd, "out." + lm["of"])
                    if lm["dest"] == "filef":
                        open(outfile, "w").write("stale content\n")
                        existed = 1
                argv = [outfile if a == "@OUT@" else a for a in j["argv"]]
                r, err = self.tool("lstopo-no-graphics", targs + argv)
                text = r["text"]
                if outfile:                                 # what lstopo wrote to its destination
                    text = open(outfile, "rb").read().decode("utf-8", "replace") if os.path.exists(outfile) else ""
                tl = text.split("\n")
                if tl and tl[-1] == "":
                    tl.pop()
                prev_lines = tl
                if j.get("save"):
                    open(j["save"], "w").write(text)
                if lm["of"] == "console":                   # the rendering is not judged: only its size is logged
                    text, tl = "", []
                ml = re.search(r'"synlen":(-?\d+)', events[-1]) if j.get("T") else None     # achieved length of the library export (statistics)
                ev = {"e": "lstopo", "beh": idx, "lm": lm, "targs": targs, "argv": argv, "outfile": outfile, "existed": existed,
                      "lines": tl, "text": text, "nstdout": len(r["text"]), "T": j.get("T", 0), "liblen": int(ml.group(1)) if ml else -1,
                      "rc": r["rc"], "sig": r["sig"], "san": r["san"]}
            elif cmd == "diff":
                argv = [slots["a"]["src"], slots["b"]["src"], j["out"]]
                r, err = self.tool("hwloc-diff", argv)
                slots["diffrc"] = r["rc"]
                ev = {"e": "diff", "beh": idx, "edit": j["edit"], "out": j["out"], "argv": argv, "lines": r["lines"], "rc": r["rc"], "sig": r["sig"], "san": r["san"]}
            elif cmd == "patch":
                sin = 1 if j.get("stdin") else 0       # the diff is given as "-" and fed on the standard input
                argv = (["-R", slots["b"]["src"]] if j["reverse"] else [slots["a"]["src"]]) + ["-" if sin else j["diff"], j["out"]]
                dbytes = open(j["diff"], "rb").read() if os.path.exists(j["diff"]) else b""
                r, err = self.tool("hwloc-patch", argv, stdin=dbytes if sin else None)
                if not os.path.exists(j["out"]):
                    open(j["out"], "w").write("")
                ev = {"e": "patch", "beh": idx, "reverse": j["reverse"], "diff": j["diff"], "out": j["out"], "diffrc": slots.get("diffrc", -1),
                      "stdin": sin, "dsize": len(dbytes), "argv": argv, "lines": r["lines"], "rc": r["rc"], "sig": r["sig"], "san": r["san"]}
            elif cmd == "patched":
                err = ""
                ev = {"e": "patched", "beh": idx, "reverse": j["reverse"], "diffrc": slots.get("diffrc", -1)}
            else:
                raise vlib.Infra("unknown behaviour line: " + line[:200])
            if errlog is not None and err:
                errlog.append((line[:300], err[-1500:]))
            events.append(json.dumps(ev, separators=(",", ":")))
        flush()
        shutil.rmtree(wd, ignore_errors=True)
        return events

    def run_all(self, behs, tracefile, base=0, parallel=12):
        self.ctx_log("running %d behaviours (%d tool invocations)" % (len(behs), sum(b.count("\ncalc ") + b.count("\ndistrib ") + b.count("\nlstopo ") + b.count("\ndiff ") + b.count("\npatch ") for b in behs)))
        with cf.ThreadPoolExecutor(max_workers=parallel) as ex:
            res = list(ex.map(lambda ib: self.run_behaviour(base + ib[0], ib[1]), enumerate(behs)))
        with open(tracefile, "w") as f:
            for evs in res:
                f.write("\n".join(evs) + "\n")

    def ctx_log(self, msg):
        vlib.log("[%6.1fs] %s" % (__import__("time").time() - self.ctx.t0, msg))


# ---------------------------------------------------------------- inputs
def make_inputs(ctx, ex):
    """the I/O XML of the C08 families (its own export of 'pack:2 core:2 pu:2' with a PCI subtree), written by the helper + c08's snippet"""
    base = ctx.path("fam-base.xml")
    ex.helper_events([topo_line("t", "S", "pack:2 core:2 pu:2", xml="0", save=base)], 900000)
    text = open(base).read()
    m = re.search(r'<object type="Package"[^>]*>\n', text)
    if not m:
        raise vlib.Infra("cannot find Package in exported XML")
    open(ctx.path("fam-io.xml"), "w").write(text[:m.end()] + c08.IO_SNIPPET + text[m.end():])


def family_topo_event(ctx, ex, fam, cfg):
    name, kind, src, restrict = fam
    allf = "0" if cfg == "calc" else "-"
    ev = ex.helper_events([topo_line("t", kind, src.replace("@DIR@", ctx.dir), restrict, allf=allf)], 900001)
    p = ctx.path("topo-%s-%s.ndjson" % (name, cfg))
    open(p, "w").write(ev[0] + "\n")
    if '"ok":1' not in ev[0]:
        raise vlib.Infra("family %s does not load: %s" % (name, ev[0][:300]))
    return p


def tla_shapes(shapes):
    return "{" + ", ".join("<<" + ", ".join('"%s"' % c for c in s) + ">>" for s in shapes) + "}"


def mc_cfg(topofile, nstripes, stripe, other, laws=True, stdin=True):
    inv = "TypeOK FoldOK Inside LargestLaw LargestEq HLaw" if laws else "TypeOK"
    return ("SPECIFICATION Spec\nCONSTANTS\n  TopoFile = \"%s\"\n  Shapes <- GShapes\n  NStripes = %d\n  Stripe = %d\n  WithOther = %s\n  WithStdin = %s\n"
            "INVARIANTS %s\nACTION_CONSTRAINT EmitEdge\nCHECK_DEADLOCK FALSE\n"
            % (topofile, nstripes, stripe, "TRUE" if other else "FALSE", "TRUE" if stdin and not other else "FALSE", inv))


def session_lines(sess):
    out = []
    for inv in sess["invs"]:
        out.append("calc " + json.dumps({"toks": sess["toks"], "mode": inv["mode"], "argv": inv["argv"], "stdin": inv["stdin"]}, separators=(",", ":")))
    return out


def fam_topo_line(fam, cfg):
    name, kind, src, restrict = fam
    return topo_line("t", kind, src, restrict, allf="0" if cfg == "calc" else "-")


# ---------------------------------------------------------------- lstopo: command lines and wide inputs from MC_Lstopo.tla
# smallest members of the wide families of MC_Lstopo.tla (WBaseSrc): the helper's export of them tells the model how much
# longer than its input a description gets; the model refuses to generate members if these texts are not its own
WIDE_BASE = {"wpu": "node:2(indexes=1,0) pu:2(indexes=100,101,3000,3001)", "wnode": "node:4(indexes=3001,3000,101,100) pu:1"}
WIDE_FLAGS = [0, 1, 4, 5, 8, 9, 12, 13]
CALC_WIDE_T = 1536       # the member of wpu that is also an input family of hwloc-calc / hwloc-distrib


def wide_runs(thorough):
    """which lengths of the synthetic export are aimed at: around powers of two from 1024 (lstopo's own text buffer) and well beyond"""
    runs = []

    def add(fam, sw, ts, dest="of", of="synthetic"):
        for t in ts:
            runs.append({"fam": fam, "sw": sw, "T": t, "dest": dest, "of": of})
    if thorough:
        add("wpu", "", list(range(1016, 1033)) + list(range(2045, 2051)) + list(range(4094, 4099)) + [3000, 8191, 8192, 8193, 10000])
        add("wnode", "", list(range(1020, 1029)) + [2047, 2048, 2049, 4096, 4097])
        for sw in ("ignore_mem", "v1", "1", "no_ext,v1", "9", "12", "13"):
            add("wpu", sw, [1022, 1023, 1024, 1025, 2048, 4096])
        for sw in ("v1", "1", "5"):
            add("wnode", sw, [1023, 1024, 1025, 2048])
        add("wpu", "", [1023, 1024, 2048, 4096], dest="file")
        add("wpu", "", [1023, 1024, 4096], dest="filef")
        add("wnode", "", [1024, 1025], dest="dash")
        add("wpu", "", [1100, 3000], of="console")
        add("wpu", "", [1100, 3000], of="xml")
        add("wnode", "", [1100], of="xml")
    else:
        add("wpu", "", [1022, 1023, 1024, 1025, 2047, 2048, 5000])
        add("wnode", "", [1023, 1024, 1025])
        add("wpu", "ignore_mem", [1023, 1024])
        add("wpu", "1", [1023, 1025])
        add("wpu", "no_ext,v1", [1024])
        add("wnode", "v1", [1024])
        add("wpu", "", [1024, 2048], dest="file")
        add("wnode", "", [1024], dest="dash")
        add("wpu", "", [1100], of="console")
        add("wpu", "", [1100], of="xml")
    add("wpu", "", [CALC_WIDE_T])
    seen, out = set(), []
    for r in runs:
        k = tuple(sorted(r.items()))
        if k not in seen:
            seen.add(k)
            out.append(r)
    return out


def lstopo_model(ctx, ex, fams, thorough):
    """runs MC_Lstopo: returns the emitted scenarios [fam, src, lm, cfg, argv, reload, T]"""
    lines = [topo_line("base", "S", WIDE_BASE[w], allf="0", io="3", syn=str(f)) for w in sorted(WIDE_BASE) for f in WIDE_FLAGS]
    evs = ex.helper_events(lines, 900002)
    bf = ctx.path("wide-base.ndjson")
    open(bf, "w").write("\n".join(evs) + "\n")
    runs = wide_runs(thorough)
    mod = "---- MODULE MC_Lstopo_gen ----\nEXTENDS MC_Lstopo\nGWideRuns == {%s}\n====\n" % ", ".join(
        '[fam |-> "%s", sw |-> "%s", T |-> %d, dest |-> "%s", of |-> "%s"]' % (r["fam"], r["sw"], r["T"], r["dest"], r["of"]) for r in runs)
    ns = 1 if thorough else 6
    cfg = ("SPECIFICATION Spec\nCONSTANTS\n  FamNames = {%s}\n  BaseFile = \"%s\"\n  WideRuns <- GWideRuns\n  NStripes = %d\n  Stripe = %d\n"
           "INVARIANTS TypeOK\nACTION_CONSTRAINT EmitEdge\nCHECK_DEADLOCK FALSE\n"
           % (", ".join('"%s"' % f[0] for f in fams), bf, ns, ctx.seed % ns))
    out, st = ctx.tlc_mc("MC_Lstopo_gen", cfg, tag="mc_lstopo", workers=2, extra_modules=[("MC_Lstopo_gen.tla", mod)], timeout=1800, heap="4g")
    if st["error"] or st["rc"] != 0:
        raise vlib.Infra("MC_Lstopo failed (model-level, not a violation): %s\n%s" % (st["error"], out[-2500:]))
    items = list(vlib.tlc_printed(out, "LSTOPO"))
    nwide = sum(1 for i in items if i["T"])
    if nwide != len(runs):
        raise vlib.Infra("MC_Lstopo generated %d of %d wide members (do WIDE_BASE and WBaseSrc agree?)" % (nwide, len(runs)))
    return items


def lstopo_behaviour(item, famdict):
    lm, cfg = item["lm"], item["cfg"]
    if item["src"]:
        kind, src, restrict = "S", item["src"], ""
    else:
        _, kind, src, restrict = famdict[item["fam"]]
    xml = "-" if cfg["xmlf"] < 0 else str(cfg["xmlf"])
    syn = "-" if cfg["synf"] < 0 else str(cfg["synf"])
    lines = ["reset", topo_line("lib", kind, src, restrict, flags=cfg["fl"], allf="0", io="3", tf=cfg["tf"] or "-", xml=xml, syn=syn)]
    save = "@W@/ls.out"
    lines.append("lstopo " + json.dumps({"lm": lm, "argv": item["argv"], "save": save, "T": item["T"]}, separators=(",", ":")))
    if item["reload"]:
        if lm["of"] == "synthetic":
            lines.append(topo_line("re", "S", "@PREV@", "", allf="0"))
        else:
            lines.append(topo_line("re", "X", save, "", allf="0"))
    return "\n".join(lines) + "\n"


EDITS = [
    ("none", None, None),
    ("info", r'(<info name="Backend" value=")[^"]*(")', r"\1Edited\2"),
    ("info", r'(<info name="SyntheticDescription" value=")[^"]*(")', r"\1pack:2 core:2 pu:2 changed &amp; more\2"),
    ("name", r'(type="OSDev"[^>]* name=")eth0(")', r"\1eth7\2"),
    ("name", r'(type="Misc"[^>]* name=")misc-under-pci(")', r"\1renamed misc\2"),
    ("memory", r'(type="NUMANode"[^>]* local_memory=")\d+(")', r"\g<1>2147483648\2"),
    ("structure", r'(<object type="OSDev" gp_index="9006"[^>]*/>\n)', r""),
]


def diffpatch_behaviours(ctx, ex, thorough):
    """A = the I/O family XML, B = A with one edit (renamed object / changed info value / changed NUMA local memory / removed object).
    hwloc-patch also takes the diff from its standard input ("-"), which it reads in chunks: B = A with an info value so long that
    the diff file has a chosen size, around powers of two from 4096 and well beyond (the size of a diff is linear in the length of the
    value; one hwloc-diff run on a 16-character value calibrates it)"""
    a = open(ctx.path("fam-io.xml")).read()
    pat_backend = r'(<info name="Backend" value=")[^"]*(")'
    cases = []
    for kind, pat, rep in EDITS:
        b = a if pat is None else re.sub(pat, rep, a, count=1)
        if pat is not None and b == a:
            raise vlib.Infra("edit %d does not apply to the I/O XML" % len(cases))
        cases.append((kind, b, False, "%d" % len(cases)))
    cases.append(("info", re.sub(r'(<info name="SyntheticDescription" value=")[^"]*(")', r"\1other\2", a, count=1), True, "sd"))
    cal, cald = ctx.path("fam-io-cal.xml"), ctx.path("fam-io-cal.diff")
    open(cal, "w").write(re.sub(pat_backend, r"\g<1>" + "v" * 16 + r"\2", a, count=1))
    r, err = ex.tool("hwloc-diff", [ctx.path("fam-io.xml"), cal, cald])
    if r["rc"] != 0 or not os.path.exists(cald):
        raise vlib.Infra("calibration hwloc-diff failed: " + err[-500:])
    size16 = os.path.getsize(cald)
    if thorough:
        targets = list(range(4094, 4099)) + list(range(8190, 8195)) + [16383, 16384, 16385, 65536, 65537, 200000]
    else:
        targets = [4095, 4096, 4097, 8192, 8193, 65536]
    for t in targets:
        cases.append(("info", re.sub(pat_backend, r"\g<1>" + "v" * (t - size16 + 16) + r"\2", a, count=1), True, "s%d" % t))
    cases.append(("info", re.sub(pat_backend, r"\g<1>" + "v" * (5000 - size16 + 16) + r"\2", a, count=1), False, "f5000"))
    behs = []
    for kind, b, sin, k in cases:
        bp = ctx.path("fam-io-b%s.xml" % k)
        open(bp, "w").write(b)
        lines = ["reset",
                 topo_line("a", "X", "@DIR@/fam-io.xml", "", flags=9, xml="0"),
                 topo_line("b", "X", "@DIR@/fam-io-b%s.xml" % k, "", flags=9, xml="0"),
                 "diff " + json.dumps({"edit": kind, "out": "@W@/d.xml"}),
                 "patch " + json.dumps({"reverse": False, "diff": "@W@/d.xml", "out": "@W@/p.xml", "stdin": sin}),
                 topo_line("p", "X", "@W@/p.xml", "", flags=9, xml="0"),
                 "patched " + json.dumps({"reverse": False}),
                 "patch " + json.dumps({"reverse": True, "diff": "@W@/d.xml", "out": "@W@/q.xml", "stdin": sin}),
                 topo_line("q", "X", "@W@/q.xml", "", flags=9, xml="0"),
                 "patched " + json.dumps({"reverse": True})]
        behs.append("\n".join(lines) + "\n")
    return behs


# ---------------------------------------------------------------- main
def run(ctx, replay=None):
    ctx.build_lib()
    helper = ctx.cc("hwv_calc.c", "hwv_calc")
    bindir = ctx.path("bin")
    rc, out = vlib.run([os.path.join(vlib.VERIF, "tools", "build_utils.sh"), ctx.libdir, bindir], timeout=900)
    if rc != 0:
        raise vlib.Infra("tool build failed:\n" + out[-4000:])
    ex = Exec(ctx, helper, bindir)
    make_inputs(ctx, ex)
    counter = [0]

    def replay_fn(text, verbose=False):
        counter[0] += 1
        tf = ctx.path("replay-%d.ndjson" % counter[0])
        errlog = []
        evs = ex.run_behaviour(0, text, errlog=errlog)
        open(tf, "w").write("\n".join(evs) + "\n")
        rej = ctx.validate("TraceCalc", tf, nshards=1)
        if rej and verbose:
            for line, err in errlog[-3:]:
                vlib.log("stderr of", line, ":\n", err)
        return rej

    if replay:
        if os.path.exists(ctx.path("fam-io.xml")):
            diffpatch_behaviours(ctx, ex, True)      # recreates the edited XML files a diff/patch replay refers to (thorough: a superset)
        rej = replay_fn(open(replay).read(), verbose=True)
        for r in rej:
            vlib.log("rejected event:", r["line"][:1500])
            print("VIOLATION property=C20 replay=%s" % replay)
        ctx.cleanup()
        return 1 if rej else 0

    thorough = ctx.tier == "thorough"
    rng = random.Random(ctx.seed)
    fams = [f for f in FAMILIES if thorough or f[0] in QUICK_FAMILIES]
    famdict = {f[0]: f for f in FAMILIES}

    # (0) TLC enumerates the lstopo command lines and generates the wide inputs
    ls_items = lstopo_model(ctx, ex, fams, thorough)

    # (1) TLC enumerates command lines per family, on the projection of the input the tools will get
    base = [["A"], ["all", "B"], ["X"], ["all", "X"], ["L"], ["all", "L"]]
    if thorough:
        runs = [("s", base + [["O", "P"]], 150, ctx.seed % 150, True),
                ("m", [["M", "M"], ["O", "m", "m"], ["O", "R", "R"], ["m", "m", "m"]], 1200, ctx.seed % 1200, False)]
        wruns = [("w", [["W"], ["O", "W"], ["W", "W"]], 40, ctx.seed % 40, False)]
        wdist = 4
    else:
        runs = [("s", base + [["O", "p"]], 600, ctx.seed % 600, True),
                ("m", [["M", "M"], ["O", "m", "m"], ["m", "m", "m"]], 3000, ctx.seed % 3000, False)]
        wruns = [("w", [["W"], ["O", "W"]], 150, ctx.seed % 150, False)]
        wdist = 16
    # the wide input family of hwloc-calc / hwloc-distrib: the generated member of MC_Lstopo's wpu family whose synthetic
    # description is CALC_WIDE_T characters long (hundreds of PUs with sparse OS indexes: -I / --largest lists, set strings
    # and input lines of more than a thousand characters)
    wsrc = [i["src"] for i in ls_items if i["T"] == CALC_WIDE_T and i["fam"] == "wpu" and i["lm"]["of"] == "synthetic" and i["lm"]["dest"] == "of" and not i["lm"]["sw"]]
    if not wsrc:
        raise vlib.Infra("MC_Lstopo did not generate the wide hwloc-calc family")
    wide = ("wide", "S", wsrc[0], "")
    jobs = []
    only = os.environ.get("C20_ONLY", "")          # development aid: C20_ONLY=lstopo / wide skips the other hwloc-calc / hwloc-distrib models
    for fam in ([] if only in ("lstopo", "wide") else fams):
        tfile = family_topo_event(ctx, ex, fam, "calc")
        dfile = family_topo_event(ctx, ex, fam, "distrib")
        for tag, shapes, ns, stripe, laws in runs:
            jobs.append((fam, "calc", tag, tfile, shapes, ns, stripe, laws))
        jobs.append((fam, "distrib", "d", dfile, [], 1 if thorough else 3, 0 if thorough else ctx.seed % 3, False))
    if only != "lstopo":
        tfile = family_topo_event(ctx, ex, wide, "calc")
        dfile = family_topo_event(ctx, ex, wide, "distrib")
        for tag, shapes, ns, stripe, laws in wruns:
            jobs.append((wide, "calc", tag, tfile, shapes, ns, stripe, laws))
        jobs.append((wide, "distrib", "d", dfile, [], wdist, ctx.seed % wdist, False))

    def mc(job):
        fam, cfg, tag, tfile, shapes, ns, stripe, laws = job
        mod = "---- MODULE MC_Calc_gen ----\nEXTENDS MC_Calc\nGShapes == %s\n====\n" % tla_shapes(shapes)
        out, st = ctx.tlc_mc("MC_Calc_gen", mc_cfg(tfile, ns, stripe, cfg == "distrib", laws), tag="mc_%s_%s" % (fam[0], tag), workers=2,
                             extra_modules=[("MC_Calc_gen.tla", mod)], timeout=2400, heap="4g")
        if st["error"] or st["rc"] != 0:
            raise vlib.Infra("MC_Calc failed for family %s (model-level, not a violation): %s\n%s" % (fam[0], st["error"], out[-2500:]))
        return list(vlib.tlc_printed(out, "CALC")), list(vlib.tlc_printed(out, "DISTRIB"))

    with cf.ThreadPoolExecutor(max_workers=4) as pool:
        results = list(pool.map(mc, jobs))

    # (2) behaviours: per family, batches of sessions; inputs of the recorded finding go to behaviours of their own
    behs = []
    wbehs = []       # behaviours on the wide family: each event costs seconds to validate, so they get a trace (and shards) of their own
    special = []     # inputs of a recorded finding: one session per behaviour, validated apart so that nothing else is masked
    ninv = 0
    for job, (calcs, distribs) in zip(jobs, results):
        fam, cfg = job[0], job[1]
        per = 4 if fam[0] == "wide" else 25
        out = wbehs if fam[0] == "wide" else behs
        head = ["reset", fam_topo_line(fam, cfg)]
        if cfg == "distrib":
            lines = ["distrib " + json.dumps(d, separators=(",", ":")) for d in distribs]
            for k in range(0, len(lines), per):
                out.append("\n".join(head + lines[k:k + per]) + "\n")
            ninv += len(lines)
            continue
        plain = [s for s in calcs if s["cls"] == ""]
        rng.shuffle(plain)
        cur = []
        for s in plain:
            cur += session_lines(s)
            if len(cur) >= per:
                out.append("\n".join(head + cur) + "\n")
                cur = []
        if cur:
            out.append("\n".join(head + cur) + "\n")
        for s in calcs:
            if s["cls"]:
                special.append("\n".join(head + ["class " + s["cls"]] + session_lines(s)) + "\n")
            ninv += len(s["invs"])
    behs += [lstopo_behaviour(i, famdict) for i in ls_items if not i["T"]]
    wbehs += [lstopo_behaviour(i, famdict) for i in ls_items if i["T"]]
    behs += diffpatch_behaviours(ctx, ex, thorough)
    ctx.samples = [behs[0], behs[len(behs) // 2], behs[-1]]
    rng.shuffle(special)
    nspecial = len(special)
    special = special[:60 if thorough else 12]
    tf = ctx.path("trace.ndjson")
    ex.run_all(behs, tf)
    rejs = ctx.validate("TraceCalc", tf, nshards=vlib.NCPU, timeout=3000)
    tfw = ctx.path("trace-wide.ndjson")
    rng.shuffle(wbehs)
    ex.run_all(wbehs, tfw, base=len(behs))
    rejs += ctx.validate("TraceCalc", tfw, nshards=vlib.NCPU, timeout=3000)
    if special:
        tf2 = ctx.path("trace-special.ndjson")
        ex.run_all(special, tf2, base=len(behs) + len(wbehs))
        rejs += ctx.validate("TraceCalc", tf2, nshards=4, timeout=3000, max_rej=len(special) + 1)
    ctx.handle_rejections(rejs, behs + wbehs + special, replay_fn)
    # statistics of what the generated inputs reached (nothing here judges the tools)
    aimed, hit, dsizes, longest, nstdin = [], [], [], 0, 0
    for tfn in (tf, tfw, ctx.path("trace-special.ndjson")):
        if not os.path.exists(tfn):
            continue
        for line in open(tfn):
            if line.startswith('{"e":"lstopo"'):
                m = re.search(r'"T":(\d+),"liblen":(-?\d+)', line)
                if m and int(m.group(1)) and int(m.group(2)) >= 0:
                    aimed.append(int(m.group(1)))
                    hit.append(int(m.group(2)))
            elif line.startswith('{"e":"patch"'):
                m = re.search(r'"stdin":1,"dsize":(\d+)', line)
                if m:
                    dsizes.append(int(m.group(1)))
            elif line.startswith('{"e":"calc"'):
                e = json.loads(line)
                longest = max([longest] + [len(x) for x in e["lines"]])
                if e["mode"]["m"] == "stdin":
                    nstdin += 1
    if aimed != hit:
        ctx.notes.append("synthetic export lengths aimed at %s, reached %s" % (aimed, hit))
    return ctx.finish(
        rule="for each input family TLC enumerates hwloc-calc command lines from MC_Calc.tla (location sequences over the token alphabet of the loaded "
             "projection x groups of output modes incl. locations on the standard input, striped), hwloc-distrib command lines, lstopo command lines from "
             "MC_Lstopo.tla (format x destination x filter option x export flag words x console options x malformed variants on every family, plus "
             "generated wide synthetic inputs whose export lengths straddle powers of two from 1024), and hwloc-diff+patch scenarios (diff files and "
             "diffs on the standard input with sizes around powers of two from 4096); every "
             "invocation of the rebuilt ASan tools is one trace event validated by TLC against Calc.tla. Non-trivial = the behaviour has at least one tool invocation.",
        assumptions=["hwloc-calc options --no-smt, --cpukind, --local-memory, --best-memattr and type filters ([subtype], [tier=]) are not modelled",
                     "lstopo --filter <type> without a kind and --ignore <unknown type> are not generated (documentation and code disagree; reported apart); "
                     "the console rendering is only checked for crashes",
                     "where hwloc(7) leaves a location open (memory objects in chains, x:y starting past the level, guessed set formats that are ambiguous) only the exit status / absence of crash is checked",
                     "lstopo graphical and text renderings, hwloc-bind, hwloc-ps, hwloc-annotate, hwloc-info are outside the property"],
        extra={"behaviours": len(behs) + len(wbehs) + len(special), "invocations": ninv, "families": [f[0] for f in fams] + ["wide(%d chars)" % len(wide[2])],
               "lstopo_scenarios": len(ls_items), "synthetic_export_lengths_reached": sorted(set(hit)), "stdin_diff_sizes": sorted(set(dsizes)),
               "longest_hwloc_calc_output_line": longest, "hwloc_calc_stdin_invocations": nstdin,
               "recorded_finding_inputs": {"generated": nspecial, "run": len(special)}})
