"""C17 - documented thread-safety: concurrent readers and independent topologies.
Model: spec/Concurrency.tla (protocol of caches, environment caches and the components registry; exhaustive TLC run with the
documented discipline, and the same model without it where TLC must find the reader write); binding: hook events of the
library built with -DHWLOC_VERIF recorded by harness/hwv_threads.c and validated against spec/TraceConcurrency.tla."""
import os, random, re
import vlib, corpus

CFG = ("SPECIFICATION Spec\nCONSTANTS\n  Readers <- R\n  Indep <- I\n  NDist = %d\n  NAttr = %d\n  NEnv = %d\n  Discipline = %s\n  MaxModify = %d\n"
       "INVARIANTS TypeOK NoReaderWrite NoRace RegistryOK\nCHECK_DEADLOCK FALSE\n")
TRACE_CFG = "INIT TInit\nNEXT TNext\nPOSTCONDITION Accepted\nCHECK_DEADLOCK FALSE\n"


def mc_module(nr, ni):
    return ("---- MODULE MC_Concurrency_gen ----\nEXTENDS Concurrency\nR == {%s}\nI == {%s}\n====\n"
            % (", ".join('"r%d"' % k for k in range(nr)), ", ".join('"i%d"' % k for k in range(ni))))


def run(ctx, replay=None):
    ctx.build_lib()
    exe = ctx.cc("hwv_threads.c", "hwv_threads", extra="-lpthread")
    env = {"HWV_WATCHDOG": "120", "HWV_LEAKCHECK": "1"}

    def replay_fn(text):
        p = ctx.path("replay-%d.beh" % random.randrange(1 << 30))
        open(p, "w").write(text)
        t = p + ".ndjson"
        ctx.record(exe, p, t, env=env)
        return ctx.validate("TraceConcurrency", t, cfg=TRACE_CFG, nshards=1)

    if replay:
        rej = replay_fn(open(replay).read())
        for r in rej:
            vlib.log("rejected event:", r["line"][:1500])
            print("VIOLATION property=C17 replay=%s" % replay)
        ctx.cleanup()
        return 1 if rej else 0

    thorough = ctx.tier == "thorough"
    rng = random.Random(ctx.seed)
    # (1) the protocol model, exhaustively: with the documented discipline the properties are invariants ...
    nr, ni = (4, 3) if thorough else (3, 2)
    gen = [("MC_Concurrency_gen.tla", mc_module(nr, ni))]
    out, st = ctx.tlc_mc("MC_Concurrency_gen", CFG % (2, 2, 2, "TRUE", 2), tag="protocol_ok", workers=8, extra_modules=gen, timeout=2400)
    if st["error"] or st["rc"] != 0:
        raise vlib.Infra("Concurrency.tla violates its own properties under the documented discipline (model-level): %s\n%s" % (st["error"], out[-2000:]))
    # ... and without it TLC must find the reader write (non-vacuity)
    out, st = ctx.tlc_mc("MC_Concurrency_gen", CFG % (1, 1, 1, "FALSE", 1), tag="protocol_race", workers=4, extra_modules=gen, timeout=600)
    if "Invariant NoReaderWrite is violated" not in out and "Invariant NoRace is violated" not in out:
        raise vlib.Infra("non-vacuity failed: without the discipline TLC did not find the race\n" + out[-1500:])
    ctx.extra["non_vacuity"] = "without the documented discipline TLC finds the reader write (NoReaderWrite violated), as it must"

    # (2) real executions
    srcs = [("synthetic", d) for d in ["node:2 core:2 pu:2", "pack:2 core:2 pu:2", "[numa] pack:2 [numa] core:2 pu:2", "pack:2 l2:2 l1:1 core:1 pu:2", "pu:4",
                                       "node:4 core:2 pu:2", "group:2 pack:2 node:1 core:2 pu:1"]]
    xmls = ["8intel64-4n2t-memattrs", "fakeheterodistances", "fakecpukinds", "16amd64-4distances", "nvidiaDGX2", "power8gpudistances", "memorysidecaches",
            "64intel64-fakeKNL-SNC4-hybrid", "16-2gr2gr2n2c+misc"]
    for x in xmls:
        p = os.path.join(vlib.REPO, "tests", "hwloc", "xml", x + ".xml")
        if os.path.exists(p):
            srcs.append(("xml", p))
    behs = []
    reps = 8 if thorough else 3
    for rep in range(reps):
        for kind, arg in srcs:
            T = rng.choice([2, 4, 8, 16] if thorough else [4, 8])
            rounds = rng.choice([2, 4, 8] if thorough else [2, 3])
            lines = ["reset", "setup %s %s" % (kind, arg), "adopted",
                     "readers %d %d 0 %d" % (T, rounds, rng.randrange(1 << 30)),
                     "readers %d %d 1 %d" % (rng.choice([2, 4, 8, 16]), rounds, rng.randrange(1 << 30)),
                     "readers %d %d 1 %d" % (T, rounds, rng.randrange(1 << 30)),
                     "indep %d %d %d" % (rng.choice([2, 4, 8, 12]), rng.choice([2, 4, 6]), rng.randrange(1 << 30))]
            behs.append("\n".join(lines) + "\n")
    ctx.samples = [behs[0], behs[len(behs) // 2], behs[-1]]
    bf = ctx.path("behaviours.txt")
    open(bf, "w").write("".join(behs))
    tf = ctx.path("trace.ndjson")
    ctx.record(exe, bf, tf, timeout=3000, parallel=2, env=env)       # few recorders at a time: the threads inside need the cores
    rejs = ctx.validate("TraceConcurrency", tf, cfg=TRACE_CFG, nshards=4, timeout=1200)
    ctx.handle_rejections(rejs, behs, replay_fn)
    return ctx.finish(
        rule="the protocol model (caches, environment caches, components registry) is explored exhaustively by TLC for %d readers and %d independent threads with the documented "
             "discipline (NoReaderWrite, NoRace, RegistryOK are invariants) and without it (TLC must find the reader write); on the real library built with -DHWLOC_VERIF each behaviour "
             "= one topology (synthetic families and bundled XML with distances/memattrs/cpukinds), the whole consulting battery on a shared-memory adopted read-only copy, reader "
             "phases of 2-16 threads after load and after modify+refresh with seeded sched_yield patterns, and 2-12 threads running independent histories; hook events and digests "
             "are validated against TraceConcurrency.tla. Non-trivial = a behaviour with at least one multi-threaded phase." % (nr, ni),
        assumptions=["race-freedom is decided for the shared state the model names (distances and memattr caches, environment caches, components registry); the adopted read-only copy extends "
                     "it to every byte of topology memory, but a racy write to another process-global in a reader path would be seen only if hooked",
                     "real interleavings are sampled (exploration), the exhaustive part is the protocol model; no ThreadSanitizer verdict is used"],
        extra={"behaviours": len(behs)})
