"""C17 - documented thread-safety: concurrent readers and independent topologies.
Model: spec/Concurrency.tla (protocol of caches, environment caches and the components registry; exhaustive TLC runs with the
documented discipline and balanced return paths, and the same model without them where TLC must find the reader write / the
interference through the registry); spec/IndepCalls.tla + MC_IndepCalls.tla generate independent histories over every public entry
point that takes the registry (Registry.tla), succeeding and failing; binding: hook events of the library built with
-DHWLOC_VERIF recorded by harness/hwv_threads.c and validated against spec/TraceConcurrency.tla."""
import os, random, re, json, collections
import concurrent.futures as cf
import vlib, corpus

CFG = ("SPECIFICATION Spec\nCONSTANTS\n  Readers <- R\n  Indep <- I\n  NDist = %d\n  NAttr = %d\n  NEnv = %d\n  Discipline = %s\n  MaxModify = %d\n"
       "  MaxLive = %d\n  Balance = %s\n"
       "INVARIANTS TypeOK NoReaderWrite NoRace RegistryOK\nCHECK_DEADLOCK FALSE\n")
TRACE_CFG = "INIT TInit\nNEXT TNext\nPOSTCONDITION Accepted\nCHECK_DEADLOCK FALSE\n"
GEN_CFG = ("SPECIFICATION Spec\nCONSTANTS\n  Threads <- Th\n  Slots <- Sl\n  Variants <- Va\n  MaxLen = %d\n  Mode = \"%s\"\n"
           "INVARIANTS ModelBalanced AlphabetOK\nCHECK_DEADLOCK FALSE\n")
NOLIBXML = "xmlbackend nolibxml"      # behaviour line: this behaviour is recorded with HWLOC_LIBXML=0 (the variable is cached process-wide)


def mc_module(nr, ni):
    return ("---- MODULE MC_Concurrency_gen ----\nEXTENDS Concurrency\nR == {%s}\nI == {%s}\n====\n"
            % (", ".join('"r%d"' % k for k in range(nr)), ", ".join('"i%d"' % k for k in range(ni))))


def gen_module(nt):
    return ("---- MODULE MC_IndepCalls_gen ----\nEXTENDS MC_IndepCalls\nTh == {%s}\nSl == {0, 1}\nVa == {0, 1, 2}\n====\n"
            % ", ".join(str(k) for k in range(nt)))


def calls_block(mode, nt, seed, sched):
    """sched: list of (tid, [name, a, b]) in schedule order"""
    return ["calls %s %d %d" % (mode, nt, seed)] + ["c %d %s %d %d" % (t, op[0], op[1], op[2]) for t, op in sched] + ["endcalls"]


def run(ctx, replay=None):
    ctx.build_lib()
    exe = ctx.cc("hwv_threads.c", "hwv_threads", extra="-lpthread")
    env = {"HWV_WATCHDOG": "120", "HWV_LEAKCHECK": "1"}

    def replay_fn(text):
        p = ctx.path("replay-%d.beh" % random.randrange(1 << 30))
        open(p, "w").write(text)
        t = p + ".ndjson"
        e = dict(env)
        if NOLIBXML in text.split("\n"):
            e["HWLOC_LIBXML"] = "0"
        ctx.record(exe, p, t, env=e)
        return ctx.validate("TraceConcurrency", t, cfg=TRACE_CFG, nshards=1)

    if replay:
        rej = replay_fn(open(replay).read())
        for r in rej:
            vlib.log("rejected event:", r["line"][:1500])
            print("VIOLATION property=C17 replay=%s" % replay)
        ctx.cleanup()
        return 1 if rej else 0

    thorough = ctx.tier == "thorough"
    rng = random.Random(ctx.seed)
    # (1) the protocol model, exhaustively: with the documented discipline the properties are invariants ...
    # (the two halves of the model share no variable: the product run keeps few independent threads, the registry gets its own run below)
    nr, ni = (4, 2) if thorough else (3, 1)
    gen = [("MC_Concurrency_gen.tla", mc_module(nr, ni))]
    out, st = ctx.tlc_mc("MC_Concurrency_gen", CFG % (2, 2, 2, "TRUE", 2, 1, "TRUE"), tag="protocol_ok", workers=8, extra_modules=gen, timeout=2400)
    if st["error"] or st["rc"] != 0:
        raise vlib.Infra("Concurrency.tla violates its own properties under the documented discipline (model-level): %s\n%s" % (st["error"], out[-2000:]))
    # ... and without it TLC must find the reader write (non-vacuity)
    out, st = ctx.tlc_mc("MC_Concurrency_gen", CFG % (1, 1, 1, "FALSE", 1, 1, "TRUE"), tag="protocol_race", workers=4, extra_modules=gen, timeout=600)
    if "Invariant NoReaderWrite is violated" not in out and "Invariant NoRace is violated" not in out:
        raise vlib.Infra("non-vacuity failed: without the discipline TLC did not find the race\n" + out[-1500:])
    ctx.extra["non_vacuity"] = "without the documented discipline TLC finds the reader write (NoReaderWrite violated), as it must"
    # the registry alone (the two halves of the model share no variable): more threads owning several topologies, every call of the
    # alphabet in its succeeding and failing variant, every footprint the balance law allows; and with one unbalanced return path,
    # where TLC must find the interference (non-vacuity of RegistryOK and of the balance law).  These runs and the generation of the
    # independent histories (2b) are independent of each other: they run side by side
    nreg = 4 if thorough else 3
    nsim, per_thread = (80, 24) if thorough else (16, 24)
    jobs = {
        "registry_ok": lambda: ctx.tlc_mc("MC_Concurrency_gen", CFG % (1, 1, 1, "TRUE", 1, 2, "TRUE"), tag="registry_ok", workers=4,
                                          extra_modules=[("MC_Concurrency_gen.tla", mc_module(0, nreg))], timeout=2400),
        "registry_broken": lambda: ctx.tlc_mc("MC_Concurrency_gen", CFG % (1, 1, 1, "TRUE", 1, 1, "FALSE"), tag="registry_broken", workers=2,
                                              extra_modules=[("MC_Concurrency_gen.tla", mc_module(0, 2))], timeout=600),
        "calls_bfs": lambda: ctx.tlc_mc("MC_IndepCalls_gen", GEN_CFG % (8, "bfs") + "VIEW View\nACTION_CONSTRAINT Emit\n", tag="calls_bfs", workers=2,
                                        extra_modules=[("MC_IndepCalls_gen.tla", gen_module(1))], heap="2g", timeout=900),
    }
    for nt_ in (2, 3):
        jobs["calls_sim%d" % nt_] = (lambda nt=nt_: ctx.tlc_mc("MC_IndepCalls_gen", GEN_CFG % (per_thread * nt, "sim"), tag="calls_sim%d" % nt, workers=1,
                                                               simulate="num=%d" % nsim, depth=per_thread * nt + 2,
                                                               extra_modules=[("MC_IndepCalls_gen.tla", gen_module(nt))], heap="2g", timeout=900))
    with cf.ThreadPoolExecutor(max_workers=len(jobs)) as ex:
        futs = {k: ex.submit(f) for k, f in jobs.items()}
        mc = {k: f.result() for k, f in futs.items()}
    out, st = mc["registry_ok"]
    if st["error"] or st["rc"] != 0:
        raise vlib.Infra("Concurrency.tla: RegistryOK is not an invariant with balanced return paths (model-level): %s\n%s" % (st["error"], out[-2000:]))
    out, st = mc["registry_broken"]
    if "Invariant RegistryOK is violated" not in out:
        raise vlib.Infra("non-vacuity failed: with an unbalanced return path TLC did not find the interference\n" + out[-1500:])
    ctx.extra["non_vacuity_registry"] = "with a return path that breaks the balance law TLC finds RegistryOK violated, as it must"

    # (2) real executions
    srcs = [("synthetic", d) for d in ["node:2 core:2 pu:2", "pack:2 core:2 pu:2", "[numa] pack:2 [numa] core:2 pu:2", "pack:2 l2:2 l1:1 core:1 pu:2", "pu:4",
                                       "node:4 core:2 pu:2", "group:2 pack:2 node:1 core:2 pu:1"]]
    xmls = ["8intel64-4n2t-memattrs", "fakeheterodistances", "fakecpukinds", "16amd64-4distances", "nvidiaDGX2", "power8gpudistances", "memorysidecaches",
            "64intel64-fakeKNL-SNC4-hybrid", "16-2gr2gr2n2c+misc"]
    for x in xmls:
        p = os.path.join(vlib.REPO, "tests", "hwloc", "xml", x + ".xml")
        if os.path.exists(p):
            srcs.append(("xml", p))
    behs = []
    reps = 8 if thorough else 3
    for rep in range(reps):
        for kind, arg in srcs:
            T = rng.choice([2, 4, 8, 16] if thorough else [4, 8])
            rounds = rng.choice([2, 4, 8] if thorough else [2, 3])
            # the shared topology is what load returned, or what a binding-restricted load returned, or a duplicate of either:
            # each of them "has been loaded" and may be consulted concurrently right away
            variant = ["", "+dup", "+bound", "+bound+dup"][(rep + len(behs)) % 4]
            lines = ["reset", "setup %s%s %s" % (kind, variant, arg), "adopted",
                     "readers %d %d 0 %d" % (T, rounds, rng.randrange(1 << 30)),
                     "readers %d %d 1 %d" % (rng.choice([2, 4, 8, 16]), rounds, rng.randrange(1 << 30)),
                     "readers %d %d 1 %d" % (T, rounds, rng.randrange(1 << 30)),
                     "indep %d %d %d" % (rng.choice([2, 4, 8, 12]), rng.choice([2, 4, 6]), rng.randrange(1 << 30))]
            behs.append("\n".join(lines) + "\n")

    # (2b) independent histories over the alphabet of Registry.tla / IndepCalls.tla, generated by TLC:
    #  - one thread, breadth-first under the view "set of enabled outcome classes": one history per generated transition, hence
    #    every outcome class of every entry point; python keeps, per class, the first histories found (all of them in the
    #    thorough tier up to a cap) and runs each in 2-4 free-running threads;
    #  - 2 and 3 threads, coverage-guided random interleavings: each walk is run with its schedule forced call by call, and
    #    free-running.
    out, st = mc["calls_bfs"]
    if st["error"] or st["rc"] != 0:
        raise vlib.Infra("MC_IndepCalls (bfs): %s\n%s" % (st["error"], out[-2000:]))
    edges = list(vlib.tlc_printed(out, "EDGE"))
    byclass = collections.defaultdict(list)
    for h in edges:
        byclass[json.dumps(h[-1]["c"])].append(h)
    if len(byclass) < 40:
        raise vlib.Infra("MC_IndepCalls (bfs) emitted only %d outcome classes" % len(byclass))
    per_class, cap = (12, 600) if thorough else (3, 160)
    chosen = []
    for c in sorted(byclass):
        hs = sorted(byclass[c], key=len)          # stable: the shortest first, in TLC's order
        head, tail = hs[:1], hs[1:]
        rng.shuffle(tail)
        chosen += head + tail[:per_class - 1]
    chosen = chosen[:cap] if len(chosen) > cap else chosen
    walks = []
    for nt in (2, 3):
        out, st = mc["calls_sim%d" % nt]
        ws = list(vlib.tlc_printed(out, "SIM"))
        if len(ws) < nsim // 2:
            raise vlib.Infra("MC_IndepCalls (sim, %d threads) printed %d walks:\n%s" % (nt, len(ws), out[-1500:]))
        walks += [(nt, w) for w in ws]
    cbehs = []
    classes = collections.Counter()
    for k, h in enumerate(chosen):
        nt = rng.choice([2, 3, 4])
        sched = [(t, e["op"]) for e in h for t in range(nt)]          # every thread runs the history; free-running, the line order is immaterial
        lines = ["reset"] + (["setup synthetic pu:4"] if k % 2 else []) + ([NOLIBXML] if k % 4 >= 2 else [])
        lines += calls_block("free", nt, rng.randrange(1 << 30), sched)
        cbehs.append("\n".join(lines) + "\n")
        for e in h:
            classes[json.dumps(e["c"])] += nt
    for k, (nt, w) in enumerate(walks):
        sched = [(e["t"], e["op"]) for e in w]
        lines = ["reset"] + (["setup synthetic pu:4"] if k % 2 else []) + ([NOLIBXML] if k % 4 >= 2 else [])
        lines += calls_block("sched", nt, rng.randrange(1 << 30), sched) + calls_block("free", nt, rng.randrange(1 << 30), sched)
        cbehs.append("\n".join(lines) + "\n")
        for e in w:
            classes[json.dumps(e["c"])] += 2
    missing = [c for c in byclass if not classes[c]]
    if missing:
        raise vlib.Infra("outcome classes of the alphabet without a behaviour: %s" % missing)

    ctx.samples = [behs[0], behs[-1], cbehs[0], cbehs[len(chosen) // 2], cbehs[-1]]
    bf = ctx.path("behaviours.txt")
    open(bf, "w").write("".join(behs))
    tf = ctx.path("trace.ndjson")
    ctx.record(exe, bf, tf, timeout=3000, parallel=2, env=env)       # few recorders at a time: the threads inside need the cores
    rejs = ctx.validate("TraceConcurrency", tf, cfg=TRACE_CFG, nshards=4, timeout=1200)
    ctx.handle_rejections(rejs, behs, replay_fn)
    outcome = collections.Counter()
    for tag, e2 in (("libxml", {}), ("nolibxml", {"HWLOC_LIBXML": "0"})):
        part = [b for b in cbehs if (NOLIBXML in b.split("\n")) == (tag == "nolibxml")]
        if not part:
            continue
        bf = ctx.path("calls-%s.txt" % tag)
        open(bf, "w").write("".join(part))
        tf = ctx.path("calls-%s.ndjson" % tag)
        ctx.record(exe, bf, tf, timeout=3000, parallel=2, env=dict(env, **e2))
        for line in open(tf, errors="replace"):            # coverage accounting only (what the calls returned), nothing is judged here
            if line.startswith('{"e":"calls"'):
                try:
                    ev = json.loads(line)
                except ValueError:
                    continue
                if ev.get("stage") != "run":
                    continue
                for prog, res in zip(ev["prog"], ev["res"]):
                    for op, r in zip(prog, res):
                        outcome["%s:%s" % (op[0], "ok" if r[0] >= 0 else "NOT-MADE" if r[0] == -99 else r[1] if r[1] != "0" else "fail")] += 1
        rejs = ctx.validate("TraceConcurrency", tf, cfg=TRACE_CFG, nshards=4, timeout=1200)
        ctx.handle_rejections(rejs, part, replay_fn)
    return ctx.finish(
        rule="the protocol model (caches, environment caches, components registry) is explored exhaustively by TLC for %d readers and %d independent threads with the documented "
             "discipline (NoReaderWrite, NoRace, RegistryOK are invariants) and without it (TLC must find the reader write), and the registry alone for %d threads owning up to 2 "
             "topologies each over every entry point that takes the registry, succeeding and failing, with every footprint the balance law allows (RegistryOK invariant) and with one "
             "unbalanced return path (TLC must find the interference); on the real library built with -DHWLOC_VERIF each behaviour = one topology (synthetic families and bundled XML "
             "with distances/memattrs/cpukinds), the whole consulting battery on a shared-memory adopted read-only copy, reader phases of 2-16 threads after load and after "
             "modify+refresh with seeded sched_yield patterns, and 2-12 threads running independent histories; plus TLC-generated independent histories over the call alphabet "
             "(topology init/dup/shmem adopt, destroy, shmem get_length/write, diff load/export by buffer and by file, each succeeding and failing: %d outcome classes, all covered; "
             "BFS edge cover run in 2-4 free-running threads, interleaved walks of 2-3 threads run with the schedule forced and free-running, with and without a topology held by "
             "the main thread, libxml and nolibxml backends); hook events, results and digests are validated against TraceConcurrency.tla (results equal to the single-threaded run, "
             "balance law per call, users = live topologies at the end). Non-trivial = a behaviour with at least one multi-threaded phase."
             % (nr, ni, nreg, len(byclass)),
        assumptions=["race-freedom is decided for the shared state the model names (distances and memattr caches, environment caches, components registry); the adopted read-only copy extends "
                     "it to every byte of topology memory, but a racy write to another process-global in a reader path would be seen only if hooked",
                     "real interleavings are sampled (exploration), the exhaustive part is the protocol model; no ThreadSanitizer verdict is used",
                     "the model of what a call does to the thread's own state (IndepCalls.tla) only steers generation; allocation-failure return paths of the entry points are not exercised"],
        extra={"behaviours": len(behs) + len(cbehs), "call_histories": {"bfs_edges": len(edges), "bfs_chosen": len(chosen), "walks": len(walks), "outcome_classes": len(byclass)},
               "call_outcomes": dict(sorted(outcome.items()))})
