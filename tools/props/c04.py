"""C04 - bitmap <-> string conversions round-trip and honour the snprintf contract.
Model: spec/BitmapStr.tla, MC_BitmapStr.tla; binding: spec/TraceBitmapStr.tla, harness/hwv_bitmapstr.c

Python only orchestrates: it turns TLC-emitted histories into behaviour text (histories that share a read-only prefix
are concatenated), draws the hostile input strings from VERIF_SEED, and never judges a result.
Families of values (all computed by the model): unions of the blocks of a block map (Mode full/light), and the text-length
ladder of each format (Mode ladder: one value per text length 0..TextMax and finite/infinite, BitmapStr!Ladder)."""
import os, random, json
import vlib

FMTS = ("hwloc", "list", "taskset")

# block maps (lo, hi): the model's value family is every union of blocks, with or without the infinite tail
MAP_A = ([0, 1, 4, 31, 32, 33, 63, 64], [0, 3, 30, 31, 32, 62, 63, 95])                                 # nibble / group / word edges
MAP_C = ([0, 4, 32, 63, 64, 96, 128, 129, 160], [3, 31, 62, 63, 95, 127, 128, 159, 191])                # three words
MAP_D = ([0, 3, 31, 33, 64, 65, 95, 127, 128], [2, 30, 32, 63, 64, 94, 126, 127, 159])                  # odd group count, straddling
MAP_E = ([0, 32, 60, 64, 68, 96, 124, 128, 192, 224], [31, 59, 63, 67, 95, 123, 127, 191, 223, 255])    # four words
MAP_P = ([0, 32, 480, 512, 544, 576], [31, 479, 511, 543, 575, 639])                                      # across the 512-bit preallocation


# ladder: every text length up to 264 (520) characters, i.e. past 64, 128, 256 (512) with some margin
TEXTMAX = {False: 264, True: 520}


def groups_map(nb):
    return ([32 * i for i in range(nb)], [32 * i + 31 for i in range(nb)])


def tla_seq(xs):
    return "<<" + ", ".join(str(x) for x in xs) + ">>"


def gen_module(name, m, steer):
    return ("---- MODULE %s ----\nEXTENDS MC_BitmapStr\nGLo == %s\nGHi == %s\nGSteer == {%s}\n====\n"
            % (name, tla_seq(m[0]), tla_seq(m[1]), ", ".join(tla_seq(s) for s in steer)))


def cfg(maxlen, chain, mode, sim, textmax=0):
    inv = "TypeOK CallOK" if sim else "TypeOK Laws CallOK EmitState"
    return ("SPECIFICATION Spec\nCONSTANTS\n  Lo <- GLo\n  Hi <- GHi\n  Steer <- GSteer\n  MaxLen = %d\n  Chain = %s\n  Mode = \"%s\"\n  TextMax = %d\n"
            "  SimPick = 1\nVIEW View\nINVARIANTS %s\nCHECK_DEADLOCK FALSE\n" % (maxlen, "TRUE" if chain else "FALSE", mode, textmax, inv))


def random_map(rng):
    pool = [1, 2, 3, 4, 5, 7, 8, 28, 31, 32, 33, 36, 60, 63, 64, 65, 68, 95, 96, 97, 127, 128, 129, 159, 160, 191, 192, 193, 223, 224, 255, 256]
    cuts = set()
    n = rng.randint(6, 8)
    while len(cuts) < n:
        cuts.add(rng.choice(pool))
    starts = sorted({0} | cuts)
    lo = starts[:-1]
    hi = [s - 1 for s in starts[1:]]
    return (lo, hi)


def hexstr(s):
    if isinstance(s, str):
        s = s.encode("latin-1", "replace")
    return "x:" + s.hex()


def op_line(o):
    op = o["op"]
    if op == "set":
        r = o["r"]
        return "set %d %d %d %s" % (o["pad"], o["via"], len(r), " ".join("%d %d" % (a, b) for a, b in r))
    if op == "asprintf":
        return "asprintf %s" % o["fmt"]
    if op == "snprintf":
        return "snprintf %s %d" % (o["fmt"], o["len"])
    if op == "snprintf0":
        return "snprintf0 %s" % o["fmt"]
    if op == "reparse":
        return "reparse %s" % o["fmt"]
    if op == "sscanf":
        return "sscanf %s %s" % (o["fmt"], hexstr(o["str"]))
    raise vlib.Infra("unknown op in history: %r" % (o,))


def group_bfs(hists):
    """histories of the exhaustive runs have the shape <<set>>, <<set, sscanf>>, <<set, asprintf f>>, <<set, asprintf f, call>>.
    One behaviour per set: every history is replayed literally; the calls following the same <<set, asprintf f>> do not
    modify the register, so they share that prefix."""
    by_set = {}
    for h in hists:
        if not h:
            continue
        key = op_line(h[0])
        g = by_set.setdefault(key, {"sscanf": [], "fmt": {}})
        if len(h) == 1:
            continue
        if h[1]["op"] == "sscanf":
            g["sscanf"].append(op_line(h[1]))
        elif h[1]["op"] == "asprintf":
            calls = g["fmt"].setdefault(h[1]["fmt"], [])
            if len(h) == 3:
                calls.append(h[2])
        else:
            raise vlib.Infra("unexpected history shape: %r" % (h,))
    behs = []
    for key in sorted(by_set):
        g = by_set[key]
        lines = ["reset"]
        for f in FMTS:
            if f not in g["fmt"]:
                continue
            calls = g["fmt"][f]
            rank = {"snprintf": 0, "snprintf0": 1, "reparse": 2}
            calls.sort(key=lambda o: (rank.get(o["op"], 3), o.get("len", 0)))
            lines += [key, "asprintf %s" % f] + [op_line(o) for o in calls]
        for s in sorted(g["sscanf"]):
            lines += [key, s]
        if len(lines) == 1:
            lines.append(key)
        behs.append("\n".join(lines) + "\n")
    return behs


# ---------------------------------------------------------------- hostile strings (seeded)
CORNER = {
    "hwloc": ["", ",", ",,", "0x", "0xf...f", "0xf...f,", "0xf...f,,", "0xf...fg", "0xf...f0", "0xf..f", "0x,", "0x1,", ",0x1", ",,0x1",
              "0x1,,", "1", "1,2", "0x1ffffffff", "0x123456789abcdef01", "0x123456789abcdef0123456789", " 0x1", "0x 1", "-0x1", "+0x1", "0X1",
              "x", "0xg", "0x1,0xg", "0x1;0x2", "0x1,0x2,", "0xf...f,0xf...f", "0xf...f,0x1,", "0x00000000,0x00000000",
              "0x1,0x2,0x3,0x4,0x5", "0xf...f,,,,,", ",0xf...f", "0x0,0xf...f", "0xf...f,-1", "0x1 ,0x2", "0x1, 0x2", "\t0x1", "0x1\n",
              "0xffffffff,0xffffffff,0xffffffff", "0xf...f,0x0,0x0,0x0", "ffffffff", "0xf...f,ffffffff", "0x" + "f" * 40, "," * 40, "0x1" + "," * 33],
    "list": ["", ",", ",,", " ", "-", "1-", "1-,", "1- ", "1--", "3-1", "1-2-3", "1-x", "1-,2", "x", "1x", "1,", ",1", "1,,2", "1 2", " 1", "1 ",
             "0x10", "010", "08", "1,x", "+5", "1.5", "1;2", "0-", "0-,", "0-0", "5,5,5", "1-2,2-3", "10-20,15", "a", "0xg", "1\n", "\t1", "1-2 ",
             "1,2-", "2-,1", "007", "1" + ",1" * 60, ",".join(str(i) for i in range(0, 200, 2)), "0-999", "999", "12-", "1 - 2", "1,-", "1-2-"],
    "taskset": ["", "0", "0x", "0X1", "x", "1", "ff", "0xf...f", "0xf...", "0xf...ff", "0xf...f0", "0xf...fg", "0xf...f ", "0xg", "0x1g", "0x 1", " 0x1",
                "0x-1", "0x+1", "0x0x1", "0x1,0x2", "0x,", "0x" + "0" * 40, "0x" + "f" * 33, "0xf...f" + "f" * 33, "0xf...f" + "0" * 16, "0xf...f" + "0" * 17,
                "0x" + "123456789abcdef0" * 3 + "1", "0x1\n", "0xffffffffffffffff", "0x10000000000000000", "0xf...f-1", "0xf...f 1", "0x\t1", "f...f",
                "0xF...F", "0xf...F", "0x" + "0" * 15 + "g", "0x" + "1" * 16 + " " + "1" * 15, "0xf...f" + "1" * 15 + "-"],
}
ALPHA = {
    "hwloc": "0123456789abcdefABCDEFx,,,,. -+gX\t",
    "taskset": "0123456789abcdefABCDEFx. -+gX,\t",
    "list": "0123456789,,,  -x+a\t",
}


def list_safe(s):
    """resource guard for list strings (steering, not judgement): a mutated list string must not be able to denote an index
    of more than three characters, nor a negative number (strtoul turns it into an index near 2^32, i.e. a 512 MB bitmap)"""
    run = 0
    for ch in s:
        if ch in "0123456789abcdefABCDEFxX":
            run += 1
            if run > 3:
                return False
        else:
            run = 0
    for i, ch in enumerate(s):
        if ch == "-" and i + 1 < len(s) and s[i + 1] in "0123456789":
            if i == 0 or s[i - 1] not in "0123456789":
                return False
    if "-" in s:
        # a number with a leading 0 may be cut short (octal/hex), leaving "-<digits>" for the next strtoul
        prev = ""
        for i, ch in enumerate(s):
            if ch == "0" and (prev == "" or prev not in "0123456789abcdefABCDEFxX") and i + 1 < len(s) and s[i + 1] in "0123456789abcdefABCDEFxX":
                return False
            prev = ch
    return True


def mutate(rng, s, fmt):
    a = ALPHA[fmt]
    b = list(s)
    for _ in range(rng.choice((1, 1, 1, 2, 3))):
        k = rng.randrange(7)
        pos = rng.randrange(len(b) + 1)
        if k == 0 and b:
            del b[min(pos, len(b) - 1)]
        elif k == 1:
            b.insert(pos, rng.choice(a))
        elif k == 2 and b:
            b[min(pos, len(b) - 1)] = rng.choice(a)
        elif k == 3:
            b = b[:pos]
        elif k == 4 and b:
            q = rng.randrange(len(b) + 1)
            lo, hi = min(pos, q), max(pos, q)
            b = b[:hi] + b[lo:hi] + b[hi:]
        elif k == 5:
            b.insert(pos, chr(rng.choice((1, 0x7f, 0x80, 0xff, 0xc3, 0x20, 0x0a))))
        else:
            b = b[pos:]
    return "".join(b)[:240]


def hostile_behaviours(rng, pool, n):
    """pool: fmt -> valid strings seen in the model's histories"""
    stale = ["set 0 0 0", "set 0 0 1 0 -1", "set 3 0 2 1 5 70 130", "set 0 1 2 3 40 100 -1", "set 2 0 1 64 127", "set 0 0 1 0 191"]
    out = []
    todo = [(f, s, True) for f in FMTS for s in CORNER[f]]      # hand-audited corner cases
    while len(todo) < n:
        f = rng.choice(FMTS)
        r = rng.random()
        if r < 0.75 and pool[f]:
            s = mutate(rng, rng.choice(pool[f]), f)
        elif r < 0.9:
            s = mutate(rng, rng.choice(CORNER[f]), f)
        else:
            s = "".join(chr(rng.choice([rng.randrange(1, 256), ord(rng.choice(ALPHA[f]))])) for _ in range(rng.randrange(0, 24)))
        todo.append((f, s, False))
    for f, s, audited in todo:
        if f == "list" and not audited and not list_safe(s):
            continue
        lines = ["reset", rng.choice(stale), "sscanf %s %s" % (f, hexstr(s))]
        for g in (f,) + tuple(x for x in FMTS if x != f):
            lines += ["asprintf %s" % g, "reparse %s" % g]
        out.append("\n".join(lines) + "\n")
    return out


def run(ctx, replay=None):
    ctx.build_lib()
    exe = ctx.cc("hwv_bitmapstr.c", "hwv_bitmapstr")
    strict = os.environ.get("HWV_C04_STRICT", "0") not in ("", "0")
    tcfg = "SPECIFICATION Spec\nCONSTANT Strict = %s\nPOSTCONDITION Accepted\nCHECK_DEADLOCK FALSE\n" % ("TRUE" if strict else "FALSE")
    # a runaway allocation (e.g. an index near 2^32 parsed from a string) fails instead of eating the machine
    renv = {"ASAN_OPTIONS": "max_allocation_size_mb=1024:symbolize=0"}

    def replay_fn(text):
        p = ctx.path("replay-%d.beh" % random.randrange(1 << 30))
        open(p, "w").write(text)
        t = p + ".ndjson"
        ctx.record(exe, p, t, env=renv)
        return ctx.validate("TraceBitmapStr", t, cfg=tcfg, nshards=1)

    if replay:
        rej = replay_fn(open(replay).read())
        for r in rej:
            vlib.log("rejected event:", r["line"][:1500])
            print("VIOLATION property=C04 replay=%s" % replay)
        ctx.cleanup()
        return 1 if rej else 0

    thorough = ctx.tier == "thorough"
    rng = random.Random(ctx.seed)
    behs = []
    pool = {f: [] for f in FMTS}
    S0, S3 = [(0, 0)], [(0, 0), (3, 0), (0, 1)]

    def mc(tag, m, steer, maxlen, chain, mode, simulate=None, workers=vlib.NCPU, timeout=1500, textmax=0):
        for attempt in (1, 2):
            out, st = ctx.tlc_mc("MC_BitmapStr_gen", cfg(maxlen, chain, mode, simulate is not None, textmax), tag=tag,
                                 extra_modules=[("MC_BitmapStr_gen.tla", gen_module("MC_BitmapStr_gen", m, steer))],
                                 simulate=simulate, depth=(maxlen + 2) if simulate else None, timeout=timeout, workers=workers,
                                 heap="1g" if simulate else "2g")
            done = "Finished in" in out
            if st["error"] or (done and st["rc"] != 0):
                raise vlib.Infra("model run %s of MC_BitmapStr failed (model-level, not a violation): %s\n%s" % (tag, st["error"], out[-1500:]))
            if done:
                return list(vlib.tlc_printed(out, "SIM" if simulate else "STATE"))
            vlib.log("model run %s did not finish (rc=%s, killed?), attempt %d" % (tag, st["rc"], attempt))
        raise vlib.Infra("model run %s of MC_BitmapStr was interrupted twice (rc=%s)" % (tag, st["rc"]))

    # (1) exhaustive: every value of the family, every call, every buffer length 0..needed+1
    jobs = [("full", "a", MAP_A, S3)]
    if thorough:
        jobs = [("light", "g", groups_map(13), S0)] + jobs          # the longest run starts first
        jobs += [("full", "c", MAP_C, S3), ("full", "d", MAP_D, S0), ("full", "e", MAP_E, S0)]
        jobs += [("full", "p", MAP_P, S3)] + [("full", "r%d" % i, random_map(rng), S0) for i in range(2)]
    # (2) exhaustive round trips over larger families: set -> asprintf -> reparse
    if thorough:
        jobs += [("light", "e", MAP_E, S3), ("light", "d", MAP_D, S3)]
        jobs += [("light", "r%d" % i, random_map(rng), S3) for i in range(3)]
    else:
        jobs += [("light", "g", groups_map(10), S0), ("light", "c", MAP_C, S3), ("light", "p", MAP_P, S3)]
    # (2b) the text-length ladder: for each format one value per (text length 0..TextMax, finite/infinite), computed by the
    # model; set -> asprintf -> snprintf at the buffer lengths around the text length, NULL/0, reparse
    jobs.insert(1 if thorough else 0, ("ladder", "t", groups_map(1), S0))
    # (3) simulation: free interleaving of the calls on one register (stale contents, sscanf into a used bitmap)
    jobs += [("sim", "c", MAP_C, S3), ("sim", "r", random_map(rng), S3)]
    if thorough:
        jobs += [("sim", "d", MAP_D, S3), ("sim", "a", MAP_A, S3)] + [("sim", "r%d" % i, random_map(rng), S3) for i in range(3)]

    def do_job(j):
        kind, tag, m, steer = j
        if kind == "sim":
            # one worker: the set of simulated histories is then a function of the seed
            return mc("sim_" + tag, m, steer, 16, True, "full", simulate="num=%d" % (300 if thorough else 100), workers=1, timeout=1500)
        return mc(kind + "_" + tag, m, steer, 3, False, kind, workers=4, timeout=3000, textmax=TEXTMAX[thorough] if kind == "ladder" else 0)

    # exhaustive runs use 4 TLC workers each (3 at a time), simulations one worker each (4 at a time)
    import concurrent.futures as cf
    with cf.ThreadPoolExecutor(max_workers=max(1, (vlib.NCPU - 4) // 4)) as ex_bfs, cf.ThreadPoolExecutor(max_workers=4) as ex_sim:
        futs = [(ex_sim if j[0] == "sim" else ex_bfs).submit(do_job, j) for j in jobs]
        results = [f.result() for f in futs]          # in job order: the behaviour list is deterministic
    for (kind, tag, m, steer), hs in zip(jobs, results):
        for h in hs:
            for o in h:
                if o["op"] == "sscanf":
                    pool[o["fmt"]].append(o["str"])
        if kind == "sim":
            behs += ["reset\n" + "\n".join(op_line(o) for o in h) + "\n" for h in sorted(hs, key=json.dumps)]
        else:
            behs += group_bfs(hs)

    nmodel = len(behs)
    pool = {f: sorted(set(v)) for f, v in pool.items()}      # TLC's output order depends on thread scheduling
    # (4) hostile strings
    behs += hostile_behaviours(rng, pool, 20000 if thorough else 2500)

    ctx.samples = [behs[0], behs[nmodel - 1], behs[-1]]
    bf = ctx.path("behaviours.txt")
    open(bf, "w").write("".join(behs))
    tf = ctx.path("trace.ndjson")
    ctx.record(exe, bf, tf, env=renv, parallel=8 if thorough else 1)
    # Behaviours that ended in a Crash/Hang event are validated apart (TLC still rejects each of them: no action matches):
    # a rejection makes TLC restart on the rest of its shard, which is cheap on this small file and keeps the big one in one pass.
    tf_ok, tf_bad = tf + ".clean", tf + ".crashed"
    with open(tf) as fi, open(tf_ok, "w") as fo, open(tf_bad, "w") as fb:
        cur = []

        def flush():
            if cur:
                (fb if any(x.startswith('{"e":"Crash"') or x.startswith('{"e":"Hang"') for x in cur) else fo).writelines(cur)
        for line in fi:
            if line.startswith('{"e":"Reset"'):
                flush()
                cur = []
            cur.append(line)
        flush()
    rejs = ctx.validate("TraceBitmapStr", tf_ok, cfg=tcfg, max_rej=6) if os.path.getsize(tf_ok) else []
    if os.path.getsize(tf_bad):
        rejs += ctx.validate("TraceBitmapStr", tf_bad, cfg=tcfg, max_rej=40)          # per shard: a library that crashes thousands of times is judged on the first few hundred
    # every rejection is replayed in a fresh process; listed known findings first (cheaply recognised, a few are replayed so
    # that they are reported), then at most a dozen of the others
    kf = vlib.load_known_findings(ctx.prop)
    known = [r for r in rejs if r.get("beh") is not None and vlib.match_known(kf, behs[r["beh"]], r["line"])]
    other = [r for r in rejs if r not in known]
    if len(known) > 3 or len(other) > 12:
        ctx.notes.append("%d rejected behaviours match known findings (3 replayed), %d others (%d replayed)"
                         % (len(known), len(other), min(12, len(other))))
    rejs = known[:3] + sorted(other, key=lambda r: r["beh"] if r.get("beh") is not None else -1)[:12]
    for d in sorted(getattr(ctx, "drift", ()))[:20]:
        vlib.log("SPEC-DRIFT:", d[:600])
        ctx.notes.append("SPEC-DRIFT " + d[:300])
    ctx.handle_rejections(rejs, behs, replay_fn)
    return ctx.finish(
        rule="behaviours = one per value of each exhaustively enumerated family (all three formats, every buffer length 0..needed+1, NULL/0, "
             "reparse, canonical and variant strings of the documented grammars), one per value of the text-length ladder of each format "
             "(every text length 0..%d the format can produce, finite and infinite, buffer lengths around the text length), "
             "TLC-simulated call sequences on one register, and seeded " % TEXTMAX[thorough] +
             "hostile strings each followed by print/reparse in the three formats; each was replayed on the rebuilt ASan library and validated by TLC",
        assumptions=["indexes stay below ~1000 for hostile list strings and below 256 in the model families (below ~%d in the ladder)" % (4 * TEXTMAX[thorough]),
                     "texts longer than %d characters only arise from hostile strings" % TEXTMAX[thorough],
                     "allocation failure (-1 returns of snprintf/asprintf) is not explored",
                     "out-of-bounds reads are observed by ASan in the recorder, not modelled",
                     "text equality with the canonical printer is %s" % ("decisive (HWV_C04_STRICT)" if strict else
                                                                       "reported as SPEC-DRIFT only; membership in the documented output language and denotation are decisive")],
        exhaustive=False,
        extra={"behaviours": len(behs), "model_behaviours": nmodel, "hostile_behaviours": len(behs) - nmodel,
               "spec_drift": len(getattr(ctx, "drift", ()))})
