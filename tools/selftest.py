#!/usr/bin/env python3
"""Development aid (not a registered check): demonstrates the binding between the specifications and the code.
For each mutants/<Cnn>_*.patch (and seeded/<id>/patch.diff) it copies /repo to a scratch directory outside /repo and
/verif, applies the patch there, runs the property's quick check against that copy (HWLOC_REPO) and expects exit 1 with
a VIOLATION line; the copy is removed afterwards.  Results go to mutants/RESULTS.jsonl.
usage: selftest.py [pattern ...]      e.g.  selftest.py C03 c08_   (substring match on the patch file name)"""
import os, sys, re, json, glob, shutil, subprocess, tempfile, time
V = os.path.dirname(os.path.dirname(os.path.abspath(__file__)))
REPO = "/repo"


def prop_of(path):
    b = os.path.basename(path)
    m = re.match(r"[cC](\d\d)", b)
    if m:
        return "C" + m.group(1)
    meta = os.path.join(os.path.dirname(path), "meta.json")
    if os.path.exists(meta):
        return json.load(open(meta)).get("property")
    return None


def main():
    pats = sys.argv[1:]
    jobs = 1
    if pats and pats[0].startswith("-j"):
        jobs = int(pats[0][2:] or 2)
        pats = pats[1:]
    files = sorted(glob.glob(os.path.join(V, "mutants", "*.patch"))) + sorted(glob.glob(os.path.join(V, "seeded", "*", "patch.diff")))
    if pats:
        files = [f for f in files if any(p in f for p in pats)]
    res = []

    def one(f):
        prop = prop_of(f)
        if not prop:
            return
        d = tempfile.mkdtemp(prefix="hwloc-mut.", dir="/var/tmp")
        try:
            subprocess.run(["rsync", "-a", "--exclude", ".git", REPO + "/", d + "/"], check=True)
            p = subprocess.run(["patch", "-p1", "-s", "-f", "-i", f], cwd=d, capture_output=True, text=True)
            if p.returncode != 0:
                res.append({"patch": os.path.relpath(f, V), "property": prop, "result": "does-not-apply", "detail": (p.stdout + p.stderr)[-300:]})
                print(res[-1], flush=True)
                return
            t = time.time()
            env = dict(os.environ, HWLOC_REPO=d)
            q = subprocess.run([sys.executable, os.path.join(V, "tools", "check.py"), prop, "--tier", "quick"], cwd=V, env=env, capture_output=True, text=True)
            viol = len(re.findall(r"^VIOLATION property=", q.stdout, re.M))
            r = {"patch": os.path.relpath(f, V), "property": prop, "exit": q.returncode, "violations": viol, "wall_s": round(time.time() - t),
                 "result": "caught" if q.returncode == 1 and viol else ("MISSED" if q.returncode == 0 else "infra-error")}
            if r["result"] == "infra-error":
                r["detail"] = (q.stdout + q.stderr)[-400:]
            res.append(r)
            print(r, flush=True)
        finally:
            shutil.rmtree(d, ignore_errors=True)

    from concurrent.futures import ThreadPoolExecutor
    with ThreadPoolExecutor(max_workers=jobs) as ex:
        list(ex.map(one, files))
    with open(os.path.join(V, "mutants", "RESULTS.jsonl"), "a") as fo:
        for r in res:
            fo.write(json.dumps(r) + "\n")
    missed = [r for r in res if r["result"] != "caught"]
    print("%d patches, %d caught, %d not caught" % (len(res), len(res) - len(missed), len(missed)))
    return 1 if missed else 0


if __name__ == "__main__":
    sys.exit(main())
