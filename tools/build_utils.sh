#!/bin/sh
# Rebuild the command-line tools of property C20 from /repo's *current working tree*
# against the static libhwloc.a produced by tools/build.sh (same sanitizer flags).
#   usage: build_utils.sh <libdir> <outdir>
# <libdir> is the directory made by build.sh (libhwloc.a, flags, libs).
# Produces <outdir>/{hwloc-calc,hwloc-distrib,hwloc-diff,hwloc-patch,lstopo-no-graphics}
set -e
REPO=${HWLOC_REPO:-/repo}
LIB=$1; OUT=$2
[ -n "$LIB" ] && [ -n "$OUT" ] || { echo "usage: build_utils.sh libdir outdir" >&2; exit 2; }
[ -f "$LIB/libhwloc.a" ] || { echo "build_utils.sh: $LIB/libhwloc.a missing" >&2; exit 2; }
mkdir -p "$OUT/uobj"
FLAGS=$(cat "$LIB/flags")
LIBS=$(cat "$LIB/libs")
INC="-I$REPO/utils/hwloc -I$REPO/utils/lstopo"
fail=0
pids=""
for t in hwloc-calc hwloc-distrib hwloc-diff hwloc-patch; do
  ( gcc $FLAGS $INC "$REPO/utils/hwloc/$t.c" -o "$OUT/$t" "$LIB/libhwloc.a" $LIBS 2>"$OUT/uobj/$t.err" || { cat "$OUT/uobj/$t.err" >&2; exit 1; } ) &
  pids="$pids $!"
done
LS="lstopo lstopo-draw lstopo-tikz lstopo-fig lstopo-svg lstopo-ascii lstopo-text lstopo-xml lstopo-shmem"
for s in $LS; do
  ( gcc $FLAGS $INC -c "$REPO/utils/lstopo/$s.c" -o "$OUT/uobj/$s.o" 2>"$OUT/uobj/$s.err" || { cat "$OUT/uobj/$s.err" >&2; exit 1; } ) &
  pids="$pids $!"
done
( gcc $FLAGS $INC -c "$REPO/utils/hwloc/common-ps.c" -o "$OUT/uobj/common-ps.o" 2>"$OUT/uobj/common-ps.err" || { cat "$OUT/uobj/common-ps.err" >&2; exit 1; } ) &
pids="$pids $!"
for p in $pids; do wait $p || fail=1; done
[ $fail = 0 ] || { echo "build_utils.sh: compilation failed" >&2; exit 2; }
OBJS=""
for s in $LS common-ps; do OBJS="$OBJS $OUT/uobj/$s.o"; done
gcc $FLAGS $OBJS -o "$OUT/lstopo-no-graphics" "$LIB/libhwloc.a" $LIBS -lm -lncursesw 2>"$OUT/uobj/link.err" || { cat "$OUT/uobj/link.err" >&2; echo "build_utils.sh: link failed" >&2; exit 2; }
echo "built tools in $OUT"
