#!/bin/sh
# usage: diag_restrict.sh <trace.ndjson> : for every restrict event prints the failing RestrictRel checks
T=$(readlink -f "$1")
d=$(mktemp -d /var/tmp/diag.XXXXXX); cp /verif/spec/*.tla $d/; printf 'INIT Init\nNEXT Next\n' > $d/DiagRestrict.cfg
cd $d
grep -n '"e":"restrict"' "$T" | cut -d: -f1 | while read n; do
  p=$((n-1)); sed -n "${p}p;${n}p" "$T" > ev.ndjson
  printf "line %s: " $n
  EVENT=$d/ev.ndjson java -Xss512m -cp /opt/veriftools/tla/tla2tools.jar:/opt/veriftools/tla/CommunityModules-deps.jar tlc2.TLC -noGenerateSpecTE -config DiagRestrict.cfg DiagRestrict.tla 2>&1 | grep -i 'WHY\|error' | head -3
done
rm -rf $d
