#!/bin/sh
# Rebuild libhwloc from /repo's *current working tree* into a scratch directory.
#   usage: build.sh <outdir> [plain|asan] [extra CFLAGS...]
# Produces <outdir>/libhwloc.a and <outdir>/flags (compile flags for harness code)
# The in-tree generated headers (include/private/autogen/config.h,
# include/hwloc/autogen/config.h, hwloc/static-components.h) are used as they are.
set -e
REPO=${HWLOC_REPO:-/repo}
OUT=$1; MODE=${2:-asan}
[ -n "$OUT" ] || { echo "usage: build.sh outdir [plain|asan]" >&2; exit 2; }
shift; [ $# -gt 0 ] && shift
EXTRA="$*"
mkdir -p "$OUT/obj"
for f in include/private/autogen/config.h include/hwloc/autogen/config.h hwloc/static-components.h; do
  [ -f "$REPO/$f" ] || { echo "build.sh: missing generated header $REPO/$f (run ./configure in $REPO)" >&2; exit 2; }
done
SRCS="topology traversal distances memattrs cpukinds components bind bitmap pci-common diff shmem misc base64 topology-noos topology-synthetic topology-xml topology-xml-nolibxml topology-xml-libxml topology-pci topology-linux topology-hardwired topology-x86"
case "$MODE" in
  asan)  SAN="-fsanitize=address,undefined -fno-sanitize-recover=undefined -fno-omit-frame-pointer" ;;
  plain) SAN="" ;;
  *) echo "bad mode $MODE" >&2; exit 2 ;;
esac
CPP="-DHAVE_CONFIG_H -DHWLOC_VERIF -I$REPO/include -I$REPO/hwloc -I/usr/include/libxml2"
CFLAGS="-g -O1 -w $SAN $EXTRA"
echo "$CPP $CFLAGS" > "$OUT/flags"
echo "-lxml2 -lpciaccess -ludev -lm -lpthread" > "$OUT/libs"
pids=""
fail=0
for s in $SRCS; do
  ( gcc $CPP -DHWLOC_INSIDE_LIBHWLOC -DRUNSTATEDIR='"/var/run"' $CFLAGS -c "$REPO/hwloc/$s.c" -o "$OUT/obj/$s.o" 2>"$OUT/obj/$s.err" || { cat "$OUT/obj/$s.err" >&2; exit 1; } ) &
  pids="$pids $!"
done
for p in $pids; do wait $p || fail=1; done
[ $fail = 0 ] || { echo "build.sh: compilation failed" >&2; exit 2; }
rm -f "$OUT/libhwloc.a"
ar rcs "$OUT/libhwloc.a" "$OUT"/obj/*.o
echo "built $OUT/libhwloc.a ($MODE)"
