#!/usr/bin/env python3
"""development aid: replay stored rejected behaviours of a property and print the rejected events without their bulky fields
usage: summarize_rejections.py <prop> <exe> <TraceModule> [max]"""
import sys, os, json, glob, re
sys.path.insert(0, os.path.dirname(os.path.abspath(__file__)))
import vlib
prop, exe, module = sys.argv[1:4]
mx = int(sys.argv[4]) if len(sys.argv) > 4 else 20
ctx = vlib.Ctx(prop + "x", "quick", 1, replay=True)
for f in sorted(glob.glob(os.path.join(vlib.VERIF, "evidence", "replays", prop + "-*.beh")))[:mx]:
    text = open(f).read()
    env = {}
    m = re.match(r"# backends (\d) (\d)\n", text)
    if m:
        env = {"HWLOC_LIBXML_EXPORT": m.group(1), "HWLOC_LIBXML_IMPORT": m.group(2)}
    p = ctx.path("r.beh"); open(p, "w").write(text)
    try:
        ctx.record(exe, p, p + ".ndjson", env=env)
        rej = ctx.validate(module, p + ".ndjson", nshards=1)
    except Exception as e:
        print(os.path.basename(f), "ERROR", e); continue
    for r in rej:
        try:
            e = json.loads(r["line"])
        except Exception:
            print(os.path.basename(f), r["line"][:200]); continue
        for k in ("topos", "topo", "deliv"):
            e.pop(k, None)
        print(os.path.basename(f), json.dumps(e)[:400], "| why:", r["why"][:300])
    if not rej:
        print(os.path.basename(f), "ACCEPTED on replay")
ctx.cleanup()
