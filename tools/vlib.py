"""Common machinery of the /verif checks: build, TLC model runs, recorder runs,
trace validation, known findings, evidence.  No property-specific logic here."""
import os, sys, re, json, time, shutil, subprocess, tempfile, hashlib, concurrent.futures as cf

VERIF = os.path.dirname(os.path.dirname(os.path.abspath(__file__)))
REPO = os.environ.get("HWLOC_REPO", "/repo")
SPEC = os.path.join(VERIF, "spec")
HARNESS = os.path.join(VERIF, "harness")
JAVA_OPTS = "-Xss512m"
TLA_CP = "/opt/veriftools/tla/tla2tools.jar:/opt/veriftools/tla/CommunityModules-deps.jar"
def _ncpu():
    """workers per check: HWV_NCPU if set; else all cores (max 16), throttled when the machine is already oversubscribed"""
    if os.environ.get("HWV_NCPU"):
        return max(1, int(os.environ["HWV_NCPU"]))
    n = min(16, os.cpu_count() or 4)
    try:
        if os.getloadavg()[0] > 2 * n:
            return max(2, n // 4)
    except OSError:
        pass
    return n


NCPU = _ncpu()


class Infra(Exception):
    """infrastructure failure (exit 2, never a VIOLATION)"""


def log(*a):
    print(*a, file=sys.stderr, flush=True)


def run(cmd, timeout=None, env=None, cwd=None, check=False, capture=True, input=None):
    e = dict(os.environ)
    if env:
        e.update(env)
    try:
        p = subprocess.run(cmd, shell=isinstance(cmd, str), timeout=timeout, env=e, cwd=cwd, input=input,
                           stdout=subprocess.PIPE if capture else None,
                           stderr=subprocess.STDOUT if capture else None, text=True, errors="replace")
    except subprocess.TimeoutExpired as ex:
        out = ex.stdout or ""
        if isinstance(out, bytes):
            out = out.decode("utf-8", "replace")
        return 124, out
    if check and p.returncode != 0:
        raise Infra("command failed (%d): %s\n%s" % (p.returncode, cmd, (p.stdout or "")[-4000:]))
    return p.returncode, p.stdout or ""


class Ctx:
    def __init__(self, prop, tier, seed, replay=None):
        self.prop, self.tier, self.seed = prop, tier, seed
        self.t0 = time.time()
        base = os.environ.get("TMPDIR", "/var/tmp")
        self.dir = tempfile.mkdtemp(prefix="hwloc-verif.%s." % prop, dir=base)
        rp = os.path.join(VERIF, "evidence", "replays")
        if os.path.isdir(rp) and not replay:
            for f in os.listdir(rp):
                if f.startswith(prop + "-") and os.path.isfile(os.path.join(rp, f)):
                    os.unlink(os.path.join(rp, f))
        self.libdir = None
        self.tlc_stats = {"states": 0, "transitions": 0, "runs": []}
        self.accepted = 0          # behaviours validated against the implementation
        self.events = 0            # trace lines validated
        self.rejections = []       # confirmed, unlisted
        self.known_hits = []       # rejections matching known_findings
        self.samples = []
        self.notes = []
        self.extra = {}

    def cleanup(self):
        if os.environ.get("HWV_KEEP"):
            log("keeping scratch", self.dir)
            return
        shutil.rmtree(self.dir, ignore_errors=True)

    def path(self, *a):
        return os.path.join(self.dir, *a)

    # ---------- build ----------
    def build_lib(self, mode="asan", extra=""):
        key = "lib-" + mode + ("-" + hashlib.md5(extra.encode()).hexdigest()[:6] if extra else "")
        d = self.path(key)
        if os.path.exists(os.path.join(d, "libhwloc.a")):
            return d
        rc, out = run([os.path.join(VERIF, "tools", "build.sh"), d, mode] + extra.split(), timeout=900)
        if rc != 0:
            raise Infra("library build failed:\n" + out[-4000:])
        self.libdir = d
        return d

    def cc(self, srcs, outname, libdir=None, extra="", lang="c"):
        libdir = libdir or self.libdir or self.build_lib()
        flags = open(os.path.join(libdir, "flags")).read().strip()
        libs = open(os.path.join(libdir, "libs")).read().strip()
        exe = self.path(outname)
        if isinstance(srcs, str):
            srcs = [srcs]
        srcs = [s if os.path.isabs(s) else os.path.join(HARNESS, s) for s in srcs]
        comp = "gcc" if lang == "c" else "g++"
        cmd = "%s %s -I%s %s %s -o %s %s/libhwloc.a %s" % (comp, flags, HARNESS, extra, " ".join(srcs), exe, libdir, libs)
        rc, out = run(cmd, timeout=600)
        if rc != 0:
            raise Infra("harness build failed: %s\n%s" % (cmd, out[-4000:]))
        return exe

    # ---------- TLC model checking ----------
    def tlc_mc(self, module, cfg, workers=NCPU, timeout=900, simulate=None, depth=None, heap="8g", extra_modules=(), tag=None):
        """Run TLC on spec/<module>.tla with config text `cfg`.  Returns (stdout, stats)."""
        tag = tag or module
        d = self.path("mc-" + tag)
        os.makedirs(d, exist_ok=True)
        for f in os.listdir(SPEC):
            if f.endswith(".tla"):
                shutil.copy(os.path.join(SPEC, f), d)
        for name, text in extra_modules:
            open(os.path.join(d, name), "w").write(text)
        open(os.path.join(d, tag + ".cfg"), "w").write(cfg)
        cmd = ["java", "-XX:+UseParallelGC", "-Xmx" + heap, "-Xss64m", "-cp", TLA_CP, "tlc2.TLC", "-noGenerateSpecTE",
               "-workers", str(workers), "-metadir", os.path.join(d, "meta"), "-config", tag + ".cfg"]
        if simulate:
            cmd += ["-simulate", simulate, "-seed", str(self.seed)]
            if depth:
                cmd += ["-depth", str(depth)]
        cmd += [module + ".tla"]
        t = time.time()
        outp = os.path.join(d, "out.txt")
        with open(outp, "w") as fo:
            try:
                p = subprocess.run(cmd, cwd=d, stdout=fo, stderr=subprocess.STDOUT, timeout=timeout)
                rc = p.returncode
            except subprocess.TimeoutExpired:
                rc = 124
        out = open(outp, errors="replace").read()
        st = parse_tlc_stats(out)
        st.update({"module": module, "tag": tag, "rc": rc, "wall_s": round(time.time() - t, 1)})
        log("[%6.1fs] tlc %s: %d distinct states, %d transitions, %.1fs" % (time.time() - self.t0, tag, st["distinct"], st["generated"], st["wall_s"]))
        self.tlc_stats["runs"].append({k: st[k] for k in ("tag", "generated", "distinct", "depth", "rc", "wall_s")})
        self.tlc_stats["states"] += st["distinct"]
        self.tlc_stats["transitions"] += st["generated"]
        shutil.rmtree(os.path.join(d, "meta"), ignore_errors=True)
        return out, st

    # ---------- recorder ----------
    def record(self, exe, behfile, tracefile, timeout=1800, env=None, args=(), parallel=1):
        """run the recorder; parallel > 1 splits the behaviour file at reset lines over several recorder processes
        (behaviour indexes stay global through HWV_BEH_BASE) and concatenates the traces in order"""
        e = {"HWLOC_HIDE_ERRORS": "2"}
        if env:
            e.update(env)
        log("[%6.1fs] recording %s" % (time.time() - self.t0, os.path.basename(behfile)))
        if parallel <= 1:
            rc, out = run([exe, behfile, tracefile] + list(args), timeout=timeout, env=e)
            if rc != 0:
                raise Infra("recorder failed rc=%d: %s" % (rc, out[-2000:]))
            return out
        behs, cur = [], []
        for line in open(behfile):
            if line.startswith("reset") and cur:
                behs.append("".join(cur))
                cur = []
            cur.append(line)
        if cur:
            behs.append("".join(cur))
        n = max(1, min(parallel, len(behs)))
        per = (len(behs) + n - 1) // n
        jobs = []
        for k in range(n):
            part = behs[k * per:(k + 1) * per]
            if not part:
                continue
            bp, tp = "%s.part%d" % (behfile, k), "%s.part%d" % (tracefile, k)
            open(bp, "w").write("".join(part))
            jobs.append((bp, tp, k * per))

        def one(j):
            ee = dict(e)
            ee["HWV_BEH_BASE"] = str(j[2])
            return run([exe, j[0], j[1]] + list(args), timeout=timeout, env=ee)
        with cf.ThreadPoolExecutor(max_workers=n) as ex:
            res = list(ex.map(one, jobs))
        for (rc, out), j in zip(res, jobs):
            if rc != 0:
                raise Infra("recorder failed rc=%d on %s: %s" % (rc, j[0], out[-2000:]))
        with open(tracefile, "w") as fo:
            for bp, tp, _ in jobs:
                with open(tp) as fi:
                    shutil.copyfileobj(fi, fo)
                os.unlink(tp)
                os.unlink(bp)
        return ""

    # ---------- trace validation ----------
    def validate(self, module, tracefile, cfg=None, nshards=NCPU, timeout=1800, max_rej=8, heap="3g"):
        """Validate tracefile (ndjson, behaviours start with a Reset event) against spec/<module>.tla.
        Returns list of rejections: dict(beh=<behaviour index>, line=<event text>, prev=<last matched event>, why)."""
        cfg = cfg or "SPECIFICATION Spec\nPOSTCONDITION Accepted\nCHECK_DEADLOCK FALSE\n"
        d = self.path("tv-%s-%d" % (module, len(os.listdir(self.dir))))
        os.makedirs(d)
        for f in os.listdir(SPEC):
            if f.endswith(".tla"):
                shutil.copy(os.path.join(SPEC, f), d)
        open(os.path.join(d, module + ".cfg"), "w").write(cfg)
        shards = split_trace(tracefile, d, nshards)
        log("[%6.1fs] validating %s (%.1f MB, %d shards) against %s" % (time.time() - self.t0, os.path.basename(tracefile), os.path.getsize(tracefile) / 1e6, len(shards), module))
        rejs = []
        with cf.ThreadPoolExecutor(max_workers=NCPU) as ex:
            futs = [ex.submit(self._validate_shard, d, module, s, timeout, max_rej, heap) for s in shards]
            for f in futs:
                r, nbeh, nev = f.result()
                rejs += r
                self.accepted += nbeh
                self.events += nev
        if not os.environ.get("HWV_KEEP"):
            shutil.rmtree(d, ignore_errors=True)
        return rejs

    def _validate_shard(self, d, module, shard, timeout, max_rej, heap):
        rejs = []
        lines = open(shard).read().split("\n")
        lines = [x for x in lines if x.strip()]
        nbeh_total = sum(1 for x in lines if x.startswith('{"e":"Reset"'))
        while True:
            if not lines:
                return rejs, 0, 0
            open(shard, "w").write("\n".join(lines) + "\n")
            meta = shard + ".meta"
            cmd = ["java", "-XX:+UseParallelGC", "-Xmx" + heap, JAVA_OPTS, "-cp", TLA_CP, "tlc2.TLC", "-noGenerateSpecTE",
                   "-workers", "1", "-metadir", meta, "-config", module + ".cfg", module + ".tla"]
            rc, out = run(cmd, cwd=d, timeout=timeout, env={"TRACE": shard})
            shutil.rmtree(meta, ignore_errors=True)
            if '"DRIFT ' in out:     # non-decisive notes printed by a trace spec with PrintT("DRIFT ...")
                self.__dict__.setdefault("drift", set()).update(x for x in out.split("\n") if x.startswith('"DRIFT '))
            st = parse_tlc_stats(out)
            if rc == 124:
                raise Infra("trace validation timed out on " + shard)
            if st["distinct"] == 0 and "states generated" not in out:
                raise Infra("TLC failed on %s:\n%s" % (shard, out[-3000:]))
            consumed = st["distinct"] - 1
            if consumed >= len(lines):
                nacc = sum(1 for x in lines if x.startswith('{"e":"Reset"'))
                return rejs, nacc, len(lines)
            # rejected at lines[consumed]
            k = consumed
            b0 = k
            while b0 > 0 and not lines[b0].startswith('{"e":"Reset"'):
                b0 -= 1
            b1 = k + 1
            while b1 < len(lines) and not lines[b1].startswith('{"e":"Reset"'):
                b1 += 1
            beh = None
            for cand in (lines[k], lines[b0]):
                mm = re.search(r'"beh":(-?\d+)', cand)
                if mm:
                    beh = int(mm.group(1))
                    break
            why = ""
            mm = re.search(r"Error: (.*)", out)
            if mm and "Postcondition" not in mm.group(1) and "POSTCONDITION" not in mm.group(1).upper():
                why = mm.group(1)[:300]
            rejs.append({"beh": beh, "line": lines[k], "prev": lines[k - 1] if k > b0 else None,
                         "reset": lines[b0], "why": why, "pos": k - b0})
            del lines[b0:b1]
            if len(rejs) >= max_rej:
                return rejs, 0, 0

    # ---------- diagnostics: which WellFormed clause is false on the topology of an event ----------
    def diag_topo(self, event_line, beh_text=""):
        if '"topos"' not in event_line or '"slot"' not in event_line:
            return ""
        d = self.path("diag-%d" % len(os.listdir(self.dir)))
        os.makedirs(d)
        try:
            for f in os.listdir(SPEC):
                if f.endswith(".tla"):
                    shutil.copy(os.path.join(SPEC, f), d)
            open(os.path.join(d, "DiagTopo.cfg"), "w").write("INIT Init\nNEXT Next\n")
            open(os.path.join(d, "event.ndjson"), "w").write(event_line.strip() + "\n")
            cmd = ["java", "-Xmx3g", JAVA_OPTS, "-cp", TLA_CP, "tlc2.TLC", "-noGenerateSpecTE", "-workers", "1",
                   "-metadir", os.path.join(d, "meta"), "-config", "DiagTopo.cfg", "DiagTopo.tla"]
            rc, out = run(cmd, cwd=d, timeout=600, env={"EVENT": os.path.join(d, "event.ndjson")})
            extra = ""
            if '"e":"xml_import"' in event_line:
                open(os.path.join(d, "DiagXml.cfg"), "w").write("INIT Init\nNEXT Next\n")
                cmd2 = cmd[:-3] + ["-config", "DiagXml.cfg", "DiagXml.tla"]
                # tell the diagnostic whether the imported document was a v2-format export (export flags of the same path in the behaviour)
                v2 = "0"
                mp = re.search(r'"path":"([^"]*)"', event_line)
                if mp:
                    for bl in (beh_text or "").splitlines():
                        w = bl.split()
                        if len(w) >= 5 and w[0] == "xml_export" and os.path.basename(w[3]) == os.path.basename(mp.group(1)) and w[4].isdigit():
                            v2 = "1" if int(w[4]) & 2 else "0"
                rc2, out2 = run(cmd2, cwd=d, timeout=600, env={"EVENT": os.path.join(d, "event.ndjson"), "DOCV2": v2})
                flat = re.sub(r"\s+", " ", out2).replace("<< ", "<<").replace(" >>", ">>")
                m2 = re.search(r'<<"EQUIVDIFF", (<<.*?>>)>>', flat)
                if m2:
                    extra = " equiv_diff(object fields, object types, top-level fields)=" + m2.group(1)
                m3 = re.search(r'<<"MEMCCSONLY", (TRUE|FALSE)>>', flat)
                if m3:
                    extra += " only_moved_memory_child_complete_cpuset=" + m3.group(1)
            m = re.search(r'<<"ALLBAD", (\{.*?\})>>', out)
            f = re.search(r'<<"FIRSTBAD", "(.*?)">>', out)
            if m or f:
                return "WellFormed clauses false after the call: first=%s all=%s%s" % (f.group(1) if f else "?", m.group(1) if m else "?", extra)
            return extra
        except Exception:
            return ""
        finally:
            shutil.rmtree(d, ignore_errors=True)

    # ---------- rejections: confirm, match known findings ----------
    def handle_rejections(self, rejs, behaviours, replay_fn, describe=None):
        """behaviours: list of behaviour texts indexed by beh; replay_fn(text)-> list of rejections (fresh process)."""
        kf = load_known_findings(self.prop)
        # every rejection is confirmed by a replay in a fresh process (a TLC launch each): once a dozen violations are confirmed the verdict
        # cannot change any more, and a badly broken library must not turn a five-minute check into an hour of replays
        maxconf = int(os.environ.get("HWV_MAXCONFIRM", "12"))
        for n, r in enumerate(rejs):
            if len(self.rejections) >= maxconf:
                self.notes.append("%d further rejected behaviours were not replayed (%d violations already confirmed)" % (len(rejs) - n, len(self.rejections)))
                break
            b = r.get("beh")
            text = behaviours[b] if b is not None and 0 <= b < len(behaviours) else None
            if text is None:
                raise Infra("rejection without behaviour index: %r" % (r,))
            again = replay_fn(text)
            if not again:
                self.notes.append("rejection of behaviour %d did not repeat in a fresh process; ignored (rule 4)" % b)
                log("NOTE: rejection did not repeat:", r["line"][:300])
                continue
            r2 = again[0]
            dg = self.diag_topo(r2["line"], text)
            if dg:
                r2["why"] = (r2.get("why", "") + " " + dg).strip()
            hit = match_known(kf, text, r2["line"] + " #" + r2.get("why", ""))
            if hit:
                self.known_hits.append((hit, text))
                continue
            os.makedirs(os.path.join(VERIF, "evidence", "replays"), exist_ok=True)
            h = hashlib.sha1(text.encode()).hexdigest()[:12]
            rp = os.path.join(VERIF, "evidence", "replays", "%s-%s.beh" % (self.prop, h))
            open(rp, "w").write(text)
            self.rejections.append({"replay": rp, "event": r2["line"][:2000], "prev": (r2.get("prev") or "")[:2000],
                                    "why": r2.get("why", ""), "pos": r2.get("pos")})

    # ---------- verdict ----------
    def finish(self, level="model_checking", rule="", assumptions=(), exhaustive=False, extra=None):
        wall = round(time.time() - self.t0, 1)
        seen = set()
        for hit, _ in self.known_hits:
            if hit["id"] not in seen:
                seen.add(hit["id"])
                print("KNOWN-FINDING: property=%s %s" % (self.prop, hit["what"]))
        cov = {
            "states": max(1, self.tlc_stats["states"]),
            "transitions": max(1, self.tlc_stats["transitions"]),
            "traces_validated_against_impl": self.accepted,
            "events_validated": self.events,
            "samples": self.samples[:5] or ["(none)"],
            "rule": rule,
            "tlc_runs": self.tlc_stats["runs"],
            "exhaustive": bool(exhaustive),
            "known_finding_hits": len(self.known_hits),
            "notes": self.notes[:20],
        }
        if extra:
            cov.update(extra)
        cov.update(self.extra)
        ev = {"property_id": self.prop, "tier": self.tier, "seed": self.seed, "level": level, "coverage": cov,
              "assumptions": list(assumptions), "wall_s": wall, "violations": len(self.rejections)}
        # evidence/<id>.json describes runs against /repo itself; a run against a scratch copy (HWLOC_REPO) must not overwrite it
        evdir = os.path.join(VERIF, "evidence") if os.path.realpath(REPO) == "/repo" else os.path.join(VERIF, "evidence", "scratch-runs")
        os.makedirs(evdir, exist_ok=True)
        with open(os.path.join(evdir, self.prop + ".json"), "w") as f:
            json.dump(ev, f, indent=1)
        for r in self.rejections:
            log("rejected event:", r["event"][:1500])
            if r.get("prev"):
                log("  after       :", r["prev"][:600])
            if r.get("why"):
                log("  TLC said    :", r["why"])
            print("VIOLATION property=%s replay=%s" % (self.prop, r["replay"]))
        self.cleanup()
        print("%s %s: %d model states, %d behaviours / %d events validated against the implementation, %d known, %d violations, %.0fs"
              % (self.prop, self.tier, self.tlc_stats["states"], self.accepted, self.events, len(seen), len(self.rejections), wall))
        return 1 if self.rejections else 0


def parse_tlc_stats(out):
    st = {"generated": 0, "distinct": 0, "depth": 0, "error": None}
    m = None
    for m in re.finditer(r"(\d[\d,]*) states generated, (\d[\d,]*) distinct states found", out):
        pass
    if m:
        st["generated"] = int(m.group(1).replace(",", ""))
        st["distinct"] = int(m.group(2).replace(",", ""))
    if not m:
        # simulation mode reports generated states only
        ms = re.search(r"The number of states generated: (\d[\d,]*)", out)
        if ms:
            st["generated"] = st["distinct"] = int(ms.group(1).replace(",", ""))
    m = re.search(r"depth of the complete state graph search is (\d+)", out)
    if m:
        st["depth"] = int(m.group(1))
    m = re.search(r"^Error: (.*)$", out, re.M)
    if m:
        st["error"] = m.group(1)
    return st


def tlc_printed(out, tag):
    """yield the JSON payloads of lines  <<"TAG", "json-escaped">>  printed by PrintT"""
    pre = '<<"%s", "' % tag
    for line in out.split("\n"):
        if line.startswith(pre) and line.endswith('">>'):
            s = line[len(pre):-3]
            yield json.loads(json.loads('"' + s + '"'))


def split_trace(tracefile, d, nshards):
    """split an ndjson trace at Reset events into <= nshards files of similar size"""
    size = os.path.getsize(tracefile)
    target = max(1, size // nshards)
    shards, cur, cur_size, idx = [], None, 0, 0
    with open(tracefile, errors="replace") as f:
        for line in f:
            if not line.strip():
                continue
            if line.startswith('{"e":"Reset"') and (cur is None or cur_size >= target):
                if cur:
                    cur.close()
                p = os.path.join(d, "shard%03d.ndjson" % idx)
                idx += 1
                cur = open(p, "w")
                shards.append(p)
                cur_size = 0
            if cur is None:
                p = os.path.join(d, "shard%03d.ndjson" % idx)
                idx += 1
                cur = open(p, "w")
                shards.append(p)
            cur.write(line)
            cur_size += len(line)
    if cur:
        cur.close()
    return shards


def load_known_findings(prop):
    p = os.path.join(VERIF, "known_findings.jsonl")
    res = []
    if os.path.exists(p):
        for i, line in enumerate(open(p)):
            line = line.strip()
            if not line or line.startswith("#"):
                continue
            try:
                e = json.loads(line)
            except Exception:
                continue
            if e.get("property") == prop and e.get("status") == "known":
                e.setdefault("id", "kf%d" % i)
                res.append(e)
    return res


def match_known(kf, behaviour_text, event_line):
    for e in kf:
        m = e.get("match", {})
        br, er = m.get("behaviour_regex"), m.get("event_regex")
        if br and not re.search(br, behaviour_text, re.S):
            continue
        if er and not re.search(er, event_line, re.S):
            continue
        if br or er:
            return e
    return None


def main_wrapper(fn):
    """fn(ctx, args) -> exit code"""
    import argparse
    ap = argparse.ArgumentParser()
    ap.add_argument("--tier", default=os.environ.get("VERIF_TIER", "quick"))
    ap.add_argument("--replay")
    ap.add_argument("--seed", type=int, default=int(os.environ.get("VERIF_SEED", "1") or 1))
    return ap
