#!/usr/bin/env python3
"""check.py <Cxx> [--tier quick|thorough] [--replay FILE]
exit 0: property held on everything explored; 1: VIOLATION line printed; 2: infrastructure failure."""
import sys, os, argparse, importlib, traceback
sys.path.insert(0, os.path.dirname(os.path.abspath(__file__)))
import vlib


def main():
    ap = argparse.ArgumentParser()
    ap.add_argument("prop")
    ap.add_argument("--tier", default=os.environ.get("VERIF_TIER") or "quick", choices=["quick", "thorough"])
    ap.add_argument("--replay")
    a = ap.parse_args()
    try:
        seed = int(os.environ.get("VERIF_SEED", "1") or 1)
    except ValueError:
        seed = 1
    mod = importlib.import_module("props." + a.prop.lower())
    ctx = vlib.Ctx(a.prop, a.tier, seed, replay=a.replay)
    try:
        rc = mod.run(ctx, replay=a.replay)
    except vlib.Infra as e:
        vlib.log("INFRASTRUCTURE FAILURE:", e)
        ctx.cleanup()
        return 2
    except Exception:
        traceback.print_exc()
        ctx.cleanup()
        return 2
    return rc


if __name__ == "__main__":
    sys.exit(main())
