"""The bundled inputs of /repo as topology sources, and a family of synthetic descriptions."""
import os, glob, subprocess, itertools
import vlib


def extract_snapshots(dest):
    """extract the Linux sysfs snapshots and x86 CPUID dumps under dest; returns list of source dicts"""
    os.makedirs(dest, exist_ok=True)
    srcs = []
    base = os.path.join(vlib.REPO, "tests", "hwloc")
    for kind, sub in (("linux", "linux"), ("x86", "x86"), ("x86+linux", "x86+linux")):
        for tb in sorted(glob.glob(os.path.join(base, sub, "*.tar.bz2"))):
            name = os.path.basename(tb)[:-8]
            d = os.path.join(dest, kind.replace("+", "_"), name)
            if not os.path.isdir(d):
                os.makedirs(d)
                subprocess.run(["tar", "xjf", tb, "-C", d], check=True)
            sub_entries = os.listdir(d)
            root = os.path.join(d, sub_entries[0]) if len(sub_entries) == 1 else d
            if kind == "linux":
                srcs.append({"id": "linux:" + name, "kind": "linux", "path": root,
                             "env": {"HWLOC_FSROOT": root, "HWLOC_COMPONENTS": "linux,stop", "HWLOC_THISSYSTEM": "0",
                                     "HWLOC_DUMPED_HWDATA_DIR": "/var/run/hwloc"}})
            elif kind == "x86":
                srcs.append({"id": "x86:" + name, "kind": "x86", "path": root,
                             "env": {"HWLOC_CPUID_PATH": root, "HWLOC_COMPONENTS": "x86,stop", "HWLOC_THISSYSTEM": "0",
                                     "HWLOC_X86_TOPOEXT_NUMANODES": "1"}})
            else:
                # combined snapshots: <root>/fsroot is the sysfs tree and <root>/cpuid the CPUID dump (as tests/hwloc/x86+linux/test-topology.sh)
                fsroot = os.path.join(root, "fsroot") if os.path.isdir(os.path.join(root, "fsroot")) else root
                cpuid = os.path.join(root, "cpuid") if os.path.isdir(os.path.join(root, "cpuid")) else None
                env = {"HWLOC_FSROOT": fsroot, "HWLOC_COMPONENTS": "x86,linux,stop", "HWLOC_THISSYSTEM": "0",
                       "HWLOC_DUMPED_HWDATA_DIR": "/var/run/hwloc"}
                if cpuid:
                    env["HWLOC_CPUID_PATH"] = cpuid
                srcs.append({"id": "x86+linux:" + name, "kind": "x86+linux", "path": root, "env": env})
    return srcs


def xml_sources():
    base = os.path.join(vlib.REPO, "tests", "hwloc", "xml")
    res = []
    for p in sorted(glob.glob(os.path.join(base, "*.xml"))):
        res.append({"id": "xml:" + os.path.basename(p)[:-4], "kind": "xml", "path": p, "env": {}})
    for p in sorted(glob.glob(os.path.join(vlib.REPO, "tests", "hwloc", "linux", "*.xml"))):
        res.append({"id": "xml:linux-" + os.path.basename(p)[:-4], "kind": "xml", "path": p, "env": {}})
    return res


SYNTHETIC_FAMILIES = [
    # the C08 / C02 families of DESIGN.md
    "pack:2 core:2 pu:2",
    "pack:2 core:2 pu:1",
    "node:2 core:2 pu:2",
    "pack:2 node:1 core:2 pu:1",
    "[numa] pack:2 [numa] core:2 pu:2",
    "pack:2 [numa] [numa] core:2 pu:1",
    "group:2 pack:2 pu:2",
    "pack:2 l3:1 l2:2 l1:1 core:1 pu:2",
    "pack:1 die:2 l3:1 core:2 pu:1",
    "node:3 pu:2",
    "pu:4",
    "core:2 pu:2",
    "pack:3 core:1 pu:1",
    "node:2 pack:1 core:1 pu:2",
    "pack:2 numa:2 l2:1 l1i:1 l1d:1 core:1 pu:2",
    "group:2 group:2 node:1 pu:2",
    "pack:2(indexes=1,0) core:2 pu:2(indexes=0,4,2,6,1,5,3,7)",
    "node:2(indexes=3,1 memory=1GB) pu:2",
    "[numa(memory=2GB)] pack:2 [numa(memory=1GB)] [numa] core:2 pu:1",
    "pack:2 core:2 l1:1 pu:2",
    "machine:1 pack:2 die:1 core:2 pu:1",
    "pack:1 core:1 pu:1",
    "l3:2 l2:1 l1:1 l1i:1 core:1 pu:1",
    "group:3 pu:3",
    "pack:2 die:2 pu:1",
    "numa:4 core:1 pu:1",
    "pack:2 [numa] l3:2 [numa] core:1 pu:1",
    # NUMA nodes numbered against the tree order, memory-side caches, memory at several levels
    "pack:2 [numa(indexes=1,0)] core:2 pu:1",
    "group:2 [numa(indexes=2,0,1,3)] pack:2 pu:1",
    "pack:2 group:2 [numa(memorysidecachesize=256MB)] core:2 pu:1",
    "[numa(memorysidecachesize=1GB)] pack:2 [numa(memorysidecachesize=256MB)] pu:2",
    "node:3(indexes=2,0,1) core:1 pu:2",
    "pack:2 die:2 [numa(indexes=3,2,1,0)] l2:1 core:1 pu:1",
    # number-only descriptions: hwloc assigns the types itself (up to four automatic cache levels)
    "2 1 2 1 2 1 2 2",
    "2 [numa] 1 2 1 2 1 2",
    "2 2 2",
    "3 1 2 2 1 2",
]


def synthetic_sources(extra=()):
    res = []
    for d in list(SYNTHETIC_FAMILIES) + list(extra):
        res.append({"id": "syn:" + d, "kind": "synthetic", "desc": d, "env": {}})
    return res


def source_lines(src, slot=0):
    """behaviour lines configuring a source on an initialised slot (env lines must come before init)"""
    if src["kind"] == "synthetic":
        return ["synthetic %d %s" % (slot, src["desc"])]
    if src["kind"] == "xml":
        return ["xml %d %s" % (slot, src["path"])]
    return []


def env_lines(src):
    return ["env %s %s" % (k, v) for k, v in sorted(src.get("env", {}).items())]
