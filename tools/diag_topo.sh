#!/bin/sh
# usage: diag_topo.sh <file with one ndjson event that carries "topos"> : prints the failing WellFormed clauses
d=$(mktemp -d /var/tmp/diag.XXXXXX); cp /verif/spec/*.tla $d/; printf 'INIT Init\nNEXT Next\n' > $d/DiagTopo.cfg
cd $d && EVENT=$(readlink -f "$1") java -Xss512m -cp /opt/veriftools/tla/tla2tools.jar:/opt/veriftools/tla/CommunityModules-deps.jar tlc2.TLC -noGenerateSpecTE -config DiagTopo.cfg DiagTopo.tla 2>&1 | grep -i 'FIRSTBAD\|ALLBAD\|error' ; rm -rf $d
