/* hwv_cpukinds: recorder for the CPU kinds API (C15).  No oracle logic: it performs the calls of a
 * behaviour on the real library and logs arguments, return values, errno and the complete state
 * observable through hwloc_cpukinds_get_nr / get_info / get_by_cpuset after every call.
 *
 * Cpusets are given as lists of ATOMS: the reset line fixes a partition of the naturals in blocks
 * [lo,hi] (hi = -1: infinite); atom k (0-based) stands for all indexes of block k.
 *
 * behaviour file (tokens separated by one space, strings %XX-escaped):
 *   reset <synth|xml|fsroot|cpuid> <arg> <NA> lo0 hi0 lo1 hi1 ...     (synth: '_' stands for ' ')
 *   register <n|-1> a1 .. an <forced_efficiency> <flags> <ninfos|-1> name1 value1 ...   (-1: NULL pointer)
 *   restrict <n> a1 .. an <flags>      the set is the union of the atoms (a cpuset, or a nodeset when flags has BYNODESET)
 *   dup <0|1>            0: continue on the copy and destroy the original, 1: destroy the copy
 *   xml <0|1>            export to a buffer (1: v2 format), load it in a new topology, continue there
 *   refresh              hwloc_topology_refresh()
 */
#include "hwv_common.h"
#include <hwloc.h>

#define MAXA 512
#define FULL_NA 8          /* all subsets of the atoms are queried up to this many atoms */
static hwloc_topology_t topo;
static int NA; static long alo[MAXA], ahi[MAXA];

static void out_set(hwloc_const_bitmap_t b) {
  int i, n = 0;
  out("[");
  if (b) {
    i = hwloc_bitmap_first(b);
    while (i != -1 && n < 100000) {
      int j = hwloc_bitmap_next_unset(b, i);
      if (j == -1) { out("%s[%d,-1]", n ? "," : "", i); n++; break; }
      out("%s[%d,%d]", n ? "," : "", i, j - 1); n++;
      i = hwloc_bitmap_next(b, j);
    }
  }
  out("]");
}
static void out_infos(const struct hwloc_infos_s *infos) {
  unsigned i;
  out("[");
  if (infos) for (i = 0; i < infos->count; i++) {
    out("%s[", i ? "," : ""); out_jstr(infos->array[i].name); out(","); out_jstr(infos->array[i].value); out("]");
  }
  out("]");
}
static void out_rc(int ret) { int e = errno; out("[%d,\"%s\"]", ret, ret < 0 ? errname(e) : "0"); }
static void out_atoms(int n, const int *a) { int i; out("["); for (i = 0; i < n; i++) out("%s%d", i ? "," : "", a[i]); out("]"); }

static char *pct_decode(char *s) {
  char *r = s, *w = s;
  if (!s) return s;
  while (*r) {
    if (r[0] == '%' && r[1] && r[2]) { char h[3] = { r[1], r[2], 0 }; *w++ = (char)strtol(h, NULL, 16); r += 3; }
    else *w++ = *r++;
  }
  *w = 0;
  return s;
}
static void add_atom(hwloc_bitmap_t b, int a) {
  if (a < 0 || a >= NA) return;
  hwloc_bitmap_set_range(b, (unsigned)alo[a], (int)ahi[a]);
}
static hwloc_bitmap_t atoms_to_set(int n, const int *a) {
  hwloc_bitmap_t b = hwloc_bitmap_alloc(); int i;
  for (i = 0; i < n; i++) add_atom(b, a[i]);
  return b;
}
static int read_atoms(char **p, int *a) {      /* returns n (or -1 for NULL) */
  int n = (int)hwv_tokl(p), i;
  for (i = 0; i < n && i < MAXA; i++) a[i] = (int)hwv_tokl(p);
  return n;
}

/* one get_by_cpuset query on a bitmap given as ranges */
static void out_query(hwloc_topology_t t, hwloc_const_bitmap_t q, int *first) {
  int r;
  out("%s[", *first ? "" : ","); *first = 0;
  out_set(q); out(",");
  errno = 0; r = hwloc_cpukinds_get_by_cpuset(t, q, 0); out_rc(r);
  out("]");
}

/* the complete observable cpukinds state of t */
static void out_state(hwloc_topology_t t) {
  int nr, i, r, eff, first; struct hwloc_infos_s *infosp; hwloc_bitmap_t set = hwloc_bitmap_alloc(), q = hwloc_bitmap_alloc();
  out("{\"topo\":"); out_set(hwloc_topology_get_topology_cpuset(t));
  out(",\"allowed\":"); out_set(hwloc_topology_get_allowed_cpuset(t));
  /* the NUMA nodes (OS index, local cpuset) and the allowed nodeset: what a restrict by nodeset / with REMOVE_* flags is about */
  { hwloc_obj_t n = NULL; int k = 0;
    out(",\"nodes\":[");
    while ((n = hwloc_get_next_obj_by_type(t, HWLOC_OBJ_NUMANODE, n)) != NULL) { out("%s[%d,", k++ ? "," : "", (int)n->os_index); out_set(n->cpuset); out("]"); }
    out("],\"anodes\":"); out_set(hwloc_topology_get_allowed_nodeset(t));
  }
  errno = 0; nr = hwloc_cpukinds_get_nr(t, 0);
  out(",\"nr\":"); out_rc(nr);
  errno = 0; r = hwloc_cpukinds_get_nr(t, 1); out(",\"nr_bf\":"); out_rc(r);
  out(",\"kinds\":[");
  for (i = 0; i < nr; i++) {
    hwloc_bitmap_zero(set); eff = -99; infosp = NULL;
    errno = 0; r = hwloc_cpukinds_get_info(t, (unsigned)i, set, &eff, &infosp, 0);
    out("%s{\"ret\":", i ? "," : ""); out_rc(r);
    errno = 0; r = hwloc_cpukinds_get_info(t, (unsigned)i, NULL, NULL, NULL, 0);
    out(",\"retn\":"); out_rc(r);
    out(",\"cs\":"); out_set(set); out(",\"eff\":%d,\"infos\":", eff); out_infos(infosp); out("}");
  }
  out("]");
  errno = 0; r = hwloc_cpukinds_get_info(t, (unsigned)(nr < 0 ? 0 : nr), set, &eff, &infosp, 0); out(",\"info_oob\":"); out_rc(r);
  errno = 0; r = hwloc_cpukinds_get_info(t, (unsigned)-1, NULL, NULL, NULL, 0); out(",\"info_max\":"); out_rc(r);
  errno = 0; r = hwloc_cpukinds_get_info(t, 0, set, &eff, &infosp, 1); out(",\"info_bf\":"); out_rc(r);
  /* get_by_cpuset: every subset of the atoms (mask order) when there are few atoms;
   * gr = return values, ge = errno numbers (0 when the call succeeded) */
  if (NA <= FULL_NA) {
    int m, nm = 1 << NA; int *ge = malloc(sizeof(int) * (size_t)nm);
    out(",\"gr\":[");
    for (m = 0; m < nm; m++) {
      hwloc_bitmap_zero(q);
      for (i = 0; i < NA; i++) if (m & (1 << i)) add_atom(q, i);
      errno = 0; r = hwloc_cpukinds_get_by_cpuset(t, q, 0);
      ge[m] = r < 0 ? errno : 0;
      out("%s%d", m ? "," : "", r);
    }
    out("],\"ge\":[");
    for (m = 0; m < nm; m++) out("%s%d", m ? "," : "", ge[m]);
    free(ge);
  } else out(",\"gr\":[],\"ge\":[");
  out("],\"gq\":[");
  first = 1;
  if (NA > FULL_NA) {
    /* a fixed battery: single atoms, pairs of neighbours, every kind, kind + last atom, kind minus its first index,
     * unions of two consecutive kinds */
    for (i = 0; i < NA; i++) { hwloc_bitmap_zero(q); add_atom(q, i); out_query(t, q, &first); }
    for (i = 0; i + 1 < NA; i++) { hwloc_bitmap_zero(q); add_atom(q, i); add_atom(q, i + 1); out_query(t, q, &first); }
    for (i = 0; i < nr; i++) {
      hwloc_bitmap_t s2 = hwloc_bitmap_alloc();
      if (hwloc_cpukinds_get_info(t, (unsigned)i, set, NULL, NULL, 0) < 0) { hwloc_bitmap_free(s2); continue; }
      out_query(t, set, &first);
      hwloc_bitmap_copy(q, set); add_atom(q, NA - 1); out_query(t, q, &first);
      hwloc_bitmap_copy(q, set); if (hwloc_bitmap_first(q) >= 0) hwloc_bitmap_clr(q, (unsigned)hwloc_bitmap_first(q)); out_query(t, q, &first);
      if (i + 1 < nr && hwloc_cpukinds_get_info(t, (unsigned)(i + 1), s2, NULL, NULL, 0) == 0) { hwloc_bitmap_or(q, set, s2); out_query(t, q, &first); }
      hwloc_bitmap_free(s2);
    }
  }
  out("]");
  errno = 0; r = hwloc_cpukinds_get_by_cpuset(t, NULL, 0); out(",\"gbc_null\":"); out_rc(r);
  hwloc_bitmap_zero(q); add_atom(q, 0);
  errno = 0; r = hwloc_cpukinds_get_by_cpuset(t, q, 1); out(",\"gbc_bf\":"); out_rc(r);
  out("}");
  hwloc_bitmap_free(set); hwloc_bitmap_free(q);
}

static void do_reset(char *p, int beh) {
  char *kind = hwv_tok(&p), *arg = hwv_tok(&p); int i, r0, r1 = -1, r2 = -1; char *s;
  if (topo) { hwloc_topology_destroy(topo); topo = NULL; }
  NA = (int)hwv_tokl(&p); if (NA > MAXA) NA = MAXA;
  for (i = 0; i < NA; i++) { alo[i] = hwv_tokl(&p); ahi[i] = hwv_tokl(&p); }
  if (!kind || !arg) return;
  pct_decode(arg);
  out("{\"e\":\"Reset\",\"beh\":%d,\"kind\":\"%s\",\"arg\":", beh, kind);
  if (!strcmp(kind, "synth")) for (s = arg; *s; s++) if (*s == '_') *s = ' ';
  out_jstr(arg);
  out(",\"lo\":["); for (i = 0; i < NA; i++) out("%s%ld", i ? "," : "", alo[i]);
  out("],\"hi\":["); for (i = 0; i < NA; i++) out("%s%ld", i ? "," : "", ahi[i]);
  out("]");
  errno = 0; r0 = hwloc_topology_init(&topo);
  if (!r0) {
    if (!strcmp(kind, "synth")) r1 = hwloc_topology_set_synthetic(topo, arg);
    else if (!strcmp(kind, "xml")) r1 = hwloc_topology_set_xml(topo, arg);
    else if (!strcmp(kind, "fsroot")) { setenv("HWLOC_FSROOT", arg, 1); setenv("HWLOC_COMPONENTS", "linux,stop", 1); setenv("HWLOC_DUMPED_HWDATA_DIR", "/var/run/hwloc", 1); r1 = 0; }
    else if (!strcmp(kind, "cpuid")) { setenv("HWLOC_CPUID_PATH", arg, 1); setenv("HWLOC_COMPONENTS", "x86,stop", 1); setenv("HWLOC_THISSYSTEM", "0", 1); r1 = 0; }
    if (!r1) r2 = hwloc_topology_load(topo);
    unsetenv("HWLOC_FSROOT"); unsetenv("HWLOC_COMPONENTS"); unsetenv("HWLOC_DUMPED_HWDATA_DIR"); unsetenv("HWLOC_CPUID_PATH"); unsetenv("HWLOC_THISSYSTEM");
  }
  out(",\"ret\":[%d,%d,%d]", r0, r1, r2);
  if (!r0 && !r1 && !r2) {
    out(",\"ccs\":"); out_set(hwloc_topology_get_complete_cpuset(topo));
    out(",\"st\":"); out_state(topo);
  } else {
    if (!r0) hwloc_topology_destroy(topo);
    topo = NULL;
  }
  out("}"); out_end();
}

static void do_register(char *p) {
  int a[MAXA], n, fe, ni, i, ret; unsigned long flags; hwloc_bitmap_t set = NULL;
  struct hwloc_infos_s infos, *ip = NULL; struct hwloc_info_s arr[16];
  n = read_atoms(&p, a); fe = (int)hwv_tokl(&p); flags = (unsigned long)hwv_tokl(&p); ni = (int)hwv_tokl(&p);
  if (n >= 0) set = atoms_to_set(n, a);
  memset(&infos, 0, sizeof infos);
  if (ni >= 0) {
    if (ni > 16) ni = 16;
    for (i = 0; i < ni; i++) { arr[i].name = pct_decode(hwv_tok(&p)); arr[i].value = pct_decode(hwv_tok(&p)); if (!arr[i].name) arr[i].name = (char *)""; if (!arr[i].value) arr[i].value = (char *)""; }
    infos.array = arr; infos.count = (unsigned)ni; infos.allocated = 0; ip = &infos;
  }
  out("{\"e\":\"register\",\"S\":"); out_atoms(n < 0 ? 0 : n, a);
  out(",\"null\":%d,\"fe\":%d,\"flags\":%lu,\"inull\":%d,\"infos\":", n < 0, fe, flags, ni < 0); out_infos(ip);
  errno = 0; ret = hwloc_cpukinds_register(topo, set, fe, ip, flags);
  out(",\"ret\":"); out_rc(ret);
  out(",\"after\":"); out_set(set); out(",\"infos_after\":"); out_infos(ip);
  out(",\"st\":"); out_state(topo); out("}"); out_end();
  if (set) hwloc_bitmap_free(set);
}

static void do_restrict(char *p) {
  int a[MAXA], n, ret; unsigned long flags; hwloc_bitmap_t set;
  n = read_atoms(&p, a); flags = (unsigned long)hwv_tokl(&p);
  set = atoms_to_set(n < 0 ? 0 : n, a);
  out("{\"e\":\"restrict\",\"S\":"); out_atoms(n < 0 ? 0 : n, a); out(",\"flags\":%lu", flags);
  errno = 0; ret = hwloc_topology_restrict(topo, set, flags);
  out(",\"ret\":"); out_rc(ret);
  out(",\"after\":"); out_set(set);
  out(",\"st\":"); out_state(topo); out("}"); out_end();
  hwloc_bitmap_free(set);
}

static void do_dup(char *p) {
  int var = (int)hwv_tokl(&p), ret; hwloc_topology_t copy = NULL;
  errno = 0; ret = hwloc_topology_dup(&copy, topo);
  out("{\"e\":\"dup\",\"var\":%d,\"ret\":", var); out_rc(ret);
  if (!ret && copy) {
    if (var == 0) {                      /* look at the original, destroy it, then look at the copy */
      out(",\"other\":"); out_state(topo);
      hwloc_topology_destroy(topo); topo = copy;
      out(",\"st\":"); out_state(topo);
    } else {                             /* look at the copy, destroy it, then look at the original */
      out(",\"other\":"); out_state(copy);
      hwloc_topology_destroy(copy);
      out(",\"st\":"); out_state(topo);
    }
  } else { out(",\"other\":0,\"st\":"); out_state(topo); }
  out("}"); out_end();
}

static void do_xml(char *p) {
  int var = (int)hwv_tokl(&p), r0, r1 = -1, r2 = -1, r3 = -1, len = 0; char *buf = NULL; hwloc_topology_t nt = NULL;
  errno = 0; r0 = hwloc_topology_export_xmlbuffer(topo, &buf, &len, var ? HWLOC_TOPOLOGY_EXPORT_XML_FLAG_V2 : 0UL);
  if (!r0) {
    r1 = hwloc_topology_init(&nt);
    if (!r1) {
      r2 = hwloc_topology_set_xmlbuffer(nt, buf, len);
      if (!r2) r3 = hwloc_topology_load(nt);
      if (r2 || r3) { hwloc_topology_destroy(nt); nt = NULL; }
    }
    hwloc_free_xmlbuffer(topo, buf);
  }
  if (nt) { hwloc_topology_destroy(topo); topo = nt; }
  out("{\"e\":\"xml\",\"var\":%d,\"ret\":[%d,%d,%d,%d],\"st\":", var, r0, r1, r2, r3); out_state(topo); out("}"); out_end();
}

static void do_refresh(void) {
  int ret;
  errno = 0; ret = hwloc_topology_refresh(topo);
  out("{\"e\":\"refresh\",\"ret\":"); out_rc(ret); out(",\"st\":"); out_state(topo); out("}"); out_end();
}

static void handler(char **lines, size_t n, int beh) {
  size_t i;
  for (i = 0; i < n; i++) {
    char *p = lines[i]; char *cmd = hwv_tok(&p);
    if (!cmd) continue;
    if (!strcmp(cmd, "reset")) { do_reset(p, beh); continue; }
    if (!topo) continue;
    if (!strcmp(cmd, "register")) do_register(p);
    else if (!strcmp(cmd, "restrict")) do_restrict(p);
    else if (!strcmp(cmd, "dup")) do_dup(p);
    else if (!strcmp(cmd, "xml")) do_xml(p);
    else if (!strcmp(cmd, "refresh")) do_refresh();
  }
  /* destroying the topology is part of the behaviour: double frees show up here */
  if (topo) { hwloc_topology_destroy(topo); topo = NULL; }
}

int main(int argc, char **argv) {
  if (argc < 3) { fprintf(stderr, "usage: hwv_cpukinds <behaviours> <trace.ndjson>\n"); return 2; }
  unsetenv("HWLOC_CPUKINDS_RANKING"); unsetenv("HWLOC_XMLFILE"); unsetenv("HWLOC_SYNTHETIC"); unsetenv("HWLOC_COMPONENTS");
  unsetenv("HWLOC_FSROOT"); unsetenv("HWLOC_CPUID_PATH");
  return hwv_run(argv[1], argv[2], handler);
}
