/* hwv_bitmap: recorder for the bitmap API (C03).  No oracle logic.
 * behaviour file:
 *   reset <R> <NB> lo1 hi1 ... loNB hiNB
 *   op <name> <d> <a> <b> <x> <y> <nranges> lo hi lo hi ...   (mask bit ranges, absolute indexes)
 *   battery
 */
#include "hwv_common.h"
#include <hwloc.h>
#include <private/misc.h>   /* hwloc_bitmap_compare_inclusion */

#define MAXR 8
static hwloc_bitmap_t reg[MAXR + 1];
static int R, NB; static long lo[64], hi[64];

static int sgn(int v) { return v < 0 ? -1 : v > 0 ? 1 : 0; }

/* project a bitmap as a list of [lo,hi] ranges (hi=-1: infinite), through the public iterators */
static void out_ranges(hwloc_const_bitmap_t b) {
  int i = hwloc_bitmap_first(b), n = 0;
  out("[");
  while (i != -1 && n < 4096) {
    int j = hwloc_bitmap_next_unset(b, i);
    if (j == -1) { out("%s[%d,-1]", n ? "," : "", i); n++; break; }
    out("%s[%d,%d]", n ? "," : "", i, j - 1); n++;
    i = hwloc_bitmap_next(b, j);
  }
  out("]");
}
static void out_word(unsigned long w) {
  int n = 0, i = 0;
  out("[");
  while (i < 64) {
    if (w & (1UL << i)) { int j = i; while (j + 1 < 64 && (w & (1UL << (j + 1)))) j++; out("%s[%d,%d]", n++ ? "," : "", i, j); i = j + 1; }
    else i++;
  }
  out("]");
}

static void do_reset(char *p, int beh) {
  int i;
  for (i = 1; i <= MAXR; i++) { if (reg[i]) hwloc_bitmap_free(reg[i]); reg[i] = NULL; }
  R = (int)hwv_tokl(&p); NB = (int)hwv_tokl(&p);
  for (i = 0; i < NB; i++) { lo[i] = hwv_tokl(&p); hi[i] = hwv_tokl(&p); }
  for (i = 1; i <= R; i++) reg[i] = hwloc_bitmap_alloc();
  out("{\"e\":\"Reset\",\"beh\":%d,\"R\":%d,\"lo\":[", beh, R);
  for (i = 0; i < NB; i++) out("%s%ld", i ? "," : "", lo[i]);
  out("],\"hi\":[");
  for (i = 0; i < NB; i++) out("%s%ld", i ? "," : "", hi[i]);
  out("]}"); out_end();
}

static void do_op(char *p) {
  char *name = hwv_tok(&p);
  int d = (int)hwv_tokl(&p), a = (int)hwv_tokl(&p), b = (int)hwv_tokl(&p);
  long x = hwv_tokl(&p), y = hwv_tokl(&p);
  int nr = (int)hwv_tokl(&p), i, ret = 0;
  long rl[64], rh[64];
  unsigned long masks[64], xmask = 0; unsigned nwords = 0, w;
  memset(masks, 0, sizeof masks);
  for (i = 0; i < nr && i < 64; i++) {
    long k;
    rl[i] = hwv_tokl(&p); rh[i] = hwv_tokl(&p);
    for (k = rl[i]; k <= rh[i] && k < 64 * 64; k++) masks[k / 64] |= 1UL << (k % 64);
  }
  /* the word given to from_ith_ulong / set_ith_ulong is the part of the ranges that falls into word x (x may be far beyond masks[]) */
  for (i = 0; i < nr && i < 64; i++) {
    long k, lo = rl[i] > 64 * x ? rl[i] : 64 * x, hi = rh[i] < 64 * x + 63 ? rh[i] : 64 * x + 63;
    for (k = lo; x >= 0 && k <= hi; k++) xmask |= 1UL << (k % 64);
  }
  if (!name || d < 1 || d > R) return;
  errno = 0;
  if (!strcmp(name, "zero")) hwloc_bitmap_zero(reg[d]);
  else if (!strcmp(name, "fill")) hwloc_bitmap_fill(reg[d]);
  else if (!strcmp(name, "only")) ret = hwloc_bitmap_only(reg[d], (unsigned)x);
  else if (!strcmp(name, "allbut")) ret = hwloc_bitmap_allbut(reg[d], (unsigned)x);
  else if (!strcmp(name, "set")) ret = hwloc_bitmap_set(reg[d], (unsigned)x);
  else if (!strcmp(name, "clr")) ret = hwloc_bitmap_clr(reg[d], (unsigned)x);
  else if (!strcmp(name, "set_range")) ret = hwloc_bitmap_set_range(reg[d], (unsigned)x, (int)y);
  else if (!strcmp(name, "clr_range")) ret = hwloc_bitmap_clr_range(reg[d], (unsigned)x, (int)y);
  else if (!strcmp(name, "from_ulong")) ret = hwloc_bitmap_from_ulong(reg[d], masks[0]);
  else if (!strcmp(name, "from_ith_ulong")) ret = hwloc_bitmap_from_ith_ulong(reg[d], (unsigned)x, xmask);
  else if (!strcmp(name, "set_ith_ulong")) ret = hwloc_bitmap_set_ith_ulong(reg[d], (unsigned)x, xmask);
  else if (!strcmp(name, "from_ulongs")) { nwords = (unsigned)x; ret = hwloc_bitmap_from_ulongs(reg[d], nwords, masks); }
  else if (!strcmp(name, "copy")) ret = hwloc_bitmap_copy(reg[d], reg[a]);
  else if (!strcmp(name, "dup")) { hwloc_bitmap_t n = hwloc_bitmap_dup(reg[a]); hwloc_bitmap_free(reg[d]); reg[d] = n; ret = n ? 0 : -1; }
  else if (!strcmp(name, "not")) ret = hwloc_bitmap_not(reg[d], reg[a]);
  else if (!strcmp(name, "or")) ret = hwloc_bitmap_or(reg[d], reg[a], reg[b]);
  else if (!strcmp(name, "and")) ret = hwloc_bitmap_and(reg[d], reg[a], reg[b]);
  else if (!strcmp(name, "andnot")) ret = hwloc_bitmap_andnot(reg[d], reg[a], reg[b]);
  else if (!strcmp(name, "xor")) ret = hwloc_bitmap_xor(reg[d], reg[a], reg[b]);
  else if (!strcmp(name, "singlify")) ret = hwloc_bitmap_singlify(reg[d]);
  else return;
  (void)w;
  out("{\"e\":\"op\",\"op\":\"%s\",\"d\":%d,\"a\":%d,\"b\":%d,\"x\":%ld,\"y\":%ld,\"r\":[", name, d, a, b, x, y);
  for (i = 0; i < nr && i < 64; i++) out("%s[%ld,%ld]", i ? "," : "", rl[i], rh[i]);
  out("],\"ret\":%d,\"res\":", ret);
  out_ranges(reg[d]);
  /* all registers after the call: operands must not move */
  out(",\"all\":[");
  for (i = 1; i <= R; i++) { if (i > 1) out(","); out_ranges(reg[i]); }
  out("]}"); out_end();
}

static void do_battery(void) {
  long probes[300]; int np = 0, i, j, k; long tail = hi[NB - 1] + 1;
  int nwords = tail / 64 + 2 > 12 ? 12 : (int)(tail / 64) + 2;
  probes[np++] = -1;
  for (i = 0; i < NB; i++) { long c[4] = { lo[i] - 1, lo[i], hi[i], hi[i] + 1 }; for (k = 0; k < 4; k++) if (c[k] >= 0) probes[np++] = c[k]; }
  probes[np++] = tail + 1; probes[np++] = tail + 63; probes[np++] = tail + 64; probes[np++] = tail + 200;
  out("{\"e\":\"battery\",\"u\":[");
  for (i = 1; i <= R; i++) {
    hwloc_bitmap_t s = reg[i];
    unsigned long *ul = calloc((size_t)nwords, sizeof *ul);
    out("%s{\"r\":%d,\"iszero\":%d,\"isfull\":%d,\"first\":%d,\"last\":%d,\"weight\":%d,\"nr\":%d,\"first_unset\":%d,\"last_unset\":%d,\"to_ulong\":",
        i > 1 ? "," : "", i, hwloc_bitmap_iszero(s), hwloc_bitmap_isfull(s), hwloc_bitmap_first(s), hwloc_bitmap_last(s),
        hwloc_bitmap_weight(s), hwloc_bitmap_nr_ulongs(s), hwloc_bitmap_first_unset(s), hwloc_bitmap_last_unset(s));
    out_word(hwloc_bitmap_to_ulong(s));
    out(",\"probes\":[");
    for (j = 0; j < np; j++)
      out("%s[%ld,%d,%d,%d]", j ? "," : "", probes[j], probes[j] >= 0 ? hwloc_bitmap_isset(s, (unsigned)probes[j]) : 0,
          hwloc_bitmap_next(s, (int)probes[j]), hwloc_bitmap_next_unset(s, (int)probes[j]));
    out("],\"words\":[");
    { /* words that contain a block boundary, plus the first ones and the tail's */
      long seen[140]; int ns = 0, q, dup;
      for (j = 0; j < np && ns < 128; j++) {
        long wd = probes[j] < 0 ? 0 : probes[j] / 64;
        for (q = 0, dup = 0; q < ns; q++) if (seen[q] == wd) dup = 1;
        if (dup) continue;
        seen[ns] = wd;
        out("%s[%ld,", ns ? "," : "", wd); out_word(hwloc_bitmap_to_ith_ulong(s, (unsigned)wd)); out("]");
        ns++;
      }
    }
    out("],\"ulongs\":[");
    hwloc_bitmap_to_ulongs(s, (unsigned)nwords, ul);
    for (j = 0; j < nwords; j++) { out("%s", j ? "," : ""); out_word(ul[j]); }
    out("]}");
    free(ul);
  }
  out("],\"p\":[");
  for (i = 1; i <= R; i++) for (j = 1; j <= R; j++)
    out("%s{\"a\":%d,\"b\":%d,\"eq\":%d,\"incl\":%d,\"inter\":%d,\"cmp\":%d,\"cmpf\":%d,\"cmpi\":%d}",
        (i > 1 || j > 1) ? "," : "", i, j, hwloc_bitmap_isequal(reg[i], reg[j]), hwloc_bitmap_isincluded(reg[i], reg[j]),
        hwloc_bitmap_intersects(reg[i], reg[j]), sgn(hwloc_bitmap_compare(reg[i], reg[j])),
        sgn(hwloc_bitmap_compare_first(reg[i], reg[j])), hwloc_bitmap_compare_inclusion(reg[i], reg[j]));
  out("]}"); out_end();
}

static void handler(char **lines, size_t n, int beh) {
  size_t i;
  for (i = 0; i < n; i++) {
    char *p = lines[i]; char *cmd = hwv_tok(&p);
    if (!cmd) continue;
    if (!strcmp(cmd, "reset")) do_reset(p, beh);
    else if (!strcmp(cmd, "op")) do_op(p);
    else if (!strcmp(cmd, "battery")) do_battery();
  }
}

int main(int argc, char **argv) {
  if (argc < 3) { fprintf(stderr, "usage: hwv_bitmap <behaviours> <trace.ndjson>\n"); return 2; }
  return hwv_run(argv[1], argv[2], handler);
}
