/* hwv_helpers: recorder for the traversal and locality helpers (C09).
 * No oracle logic: builds a topology, logs its projection (project.h) once,
 * then performs one helper call (or one documented iteration loop) per line
 * and logs arguments and results.  Objects are named by their position in the
 * projection (depth-first order, 1-based; 0 = NULL, -1 = a pointer that is not
 * an object of the projection).  Sets are hwloc list strings in the behaviour
 * ("none" = empty) and range lists in the trace.
 *
 * behaviour file:
 *   reset
 *   init | load | destroy
 *   synthetic <description ...>          xmlbuf <xml text on one line>
 *   filter <type|-1 all|-2 cache|-3 icache|-4 io> <filter>      flags <word>
 *   restrict <flags> <list|none>         allow <cpuset list|-> <nodeset list|->   (custom allowed sets)
 *   group <cpuset> <dont_merge>          misc <depth> <lidx> <name>
 *   subtype <depth> <lidx> <text|->
 *   exportxml                            (logs the XML text; used by the pre-pass only)
 *   topo                                 (projection + hwloc_compare_types matrix; fixes the positions)
 *   q <kind> <args...>                   (see do_query)
 */
#include "project.h"
#include <hwloc.h>
#include <limits.h>

static hwloc_topology_t topo; static int loaded; static struct prj P; static int have_prj;

#define MAXIT 4096
static int pos(hwloc_obj_t o) { return prj_pos(&P, o); }
static hwloc_obj_t at(long p) { return (p >= 1 && (unsigned long)p <= P.n) ? P.objs[p - 1] : NULL; }
static hwloc_bitmap_t parse_set(const char *s) {
  hwloc_bitmap_t b = hwloc_bitmap_alloc();
  if (s && strcmp(s, "none")) hwloc_bitmap_list_sscanf(b, s);
  return b;
}
static void out_poslist(hwloc_obj_t *v, unsigned n) { unsigned i; out("["); for (i = 0; i < n; i++) out("%s%d", i ? "," : "", pos(v[i])); out("]"); }
static const char *optarg_str(char *s) { return (!s || !strcmp(s, "-")) ? NULL : s; }

static void drop_prj(void) { if (have_prj) { prj_fini(&P); have_prj = 0; } }
static void do_reset(int beh) {
  drop_prj();
  if (topo) hwloc_topology_destroy(topo);
  topo = NULL; loaded = 0;
  out("{\"e\":\"Reset\",\"beh\":%d}", beh); out_end();
}
/* errno is only meaningful after a failure */
static void ev_setup(const char *op, int ret, int err) { out("{\"e\":\"setup\",\"op\":\"%s\",\"ret\":%d,\"errno\":\"%s\"}", op, ret, errname(ret ? err : 0)); out_end(); }

static void do_topo(void) {
  int a, b;
  drop_prj();
  out("{\"e\":\"topo\",\"topo\":"); project_topology(topo, 1);
  out(",\"tcmp\":[");
  for (a = 0; a < HWLOC_OBJ_TYPE_MAX; a++) {
    out("%s[", a ? "," : "");
    for (b = 0; b < HWLOC_OBJ_TYPE_MAX; b++) {
      int c = hwloc_compare_types((hwloc_obj_type_t)a, (hwloc_obj_type_t)b);
      out("%s%d", b ? "," : "", c == HWLOC_TYPE_UNORDERED ? 2 : c < 0 ? -1 : c > 0 ? 1 : 0);
    }
    out("]");
  }
  out("]}"); out_end();
  prj_init(&P, topo); have_prj = 1;
}

/* iteration loops exactly as the documentation describes them: start with NULL, pass the previous return value */
#define ITER(call) do { hwloc_obj_t prev = NULL, v[MAXIT]; unsigned n = 0; \
    while (n < MAXIT) { hwloc_obj_t nx = (call); if (!nx) break; v[n++] = nx; prev = nx; } \
    out_poslist(v, n); out(",\"trunc\":%d", n >= MAXIT); } while (0)

static void do_query(char *p) {
  char *k = hwv_tok(&p);
  if (!k || !topo || !loaded || !have_prj) return;
  errno = 0;
  if (!strcmp(k, "covering") || !strcmp(k, "cache_covering") || !strcmp(k, "first_largest")) {
    hwloc_bitmap_t s = parse_set(hwv_tok(&p)); hwloc_obj_t r;
    if (k[0] == 'c' && k[1] == 'o') r = hwloc_get_obj_covering_cpuset(topo, s);
    else if (k[0] == 'c') r = hwloc_get_cache_covering_cpuset(topo, s);
    else r = hwloc_get_first_largest_obj_inside_cpuset(topo, s);
    out("{\"e\":\"%s\",\"set\":", k); out_set(s); out(",\"res\":%d}", pos(r)); out_end();
    hwloc_bitmap_free(s);
  } else if (!strcmp(k, "child_covering")) {
    hwloc_bitmap_t s = parse_set(hwv_tok(&p)); long par = hwv_tokl(&p); hwloc_obj_t o = at(par), r;
    if (o) { r = hwloc_get_child_covering_cpuset(topo, s, o);
      out("{\"e\":\"child_covering\",\"set\":"); out_set(s); out(",\"parent\":%ld,\"res\":%d}", par, pos(r)); out_end(); }
    hwloc_bitmap_free(s);
  } else if (!strcmp(k, "largest")) {
    hwloc_bitmap_t s = parse_set(hwv_tok(&p)); int max = (int)hwv_tokl(&p), ret, i, cap = (max > 0 ? max : 0) + 4, clean = 1;
    hwloc_obj_t *v = calloc((size_t)cap, sizeof *v);
    ret = hwloc_get_largest_objs_inside_cpuset(topo, s, v, max);
    for (i = (ret > 0 ? ret : 0); i < cap; i++) if (v[i]) clean = 0;       /* slots past the returned count must be untouched */
    out("{\"e\":\"largest\",\"set\":"); out_set(s); out(",\"max\":%d,\"ret\":%d,\"objs\":", max, ret);
    out_poslist(v, ret > 0 ? (unsigned)(ret < cap ? ret : cap) : 0); out(",\"clean\":%d}", clean); out_end();
    free(v); hwloc_bitmap_free(s);
  } else if (!strcmp(k, "inside_depth")) {
    hwloc_bitmap_t s = parse_set(hwv_tok(&p)); int d = (int)hwv_tokl(&p); unsigned nb, i;
    out("{\"e\":\"inside_depth\",\"set\":"); out_set(s); out(",\"depth\":%d,\"iter\":", d);
    ITER(hwloc_get_next_obj_inside_cpuset_by_depth(topo, s, d, prev));
    nb = hwloc_get_nbobjs_inside_cpuset_by_depth(topo, s, d);
    out(",\"nb\":%u,\"byidx\":[", nb & 0x7fffffff);
    for (i = 0; i <= nb + 1 && i < MAXIT; i++) out("%s%d", i ? "," : "", pos(hwloc_get_obj_inside_cpuset_by_depth(topo, s, d, i)));
    out("]}"); out_end();
    hwloc_bitmap_free(s);
  } else if (!strcmp(k, "inside_type")) {
    hwloc_bitmap_t s = parse_set(hwv_tok(&p)); int ty = (int)hwv_tokl(&p), nb; unsigned i;
    out("{\"e\":\"inside_type\",\"set\":"); out_set(s); out(",\"type\":%d,\"iter\":", ty);
    ITER(hwloc_get_next_obj_inside_cpuset_by_type(topo, s, (hwloc_obj_type_t)ty, prev));
    nb = hwloc_get_nbobjs_inside_cpuset_by_type(topo, s, (hwloc_obj_type_t)ty);
    out(",\"nb\":%d,\"byidx\":[", nb);
    for (i = 0; (int)i <= (nb > 0 ? nb : 0) + 1 && i < MAXIT; i++) out("%s%d", i ? "," : "", pos(hwloc_get_obj_inside_cpuset_by_type(topo, s, (hwloc_obj_type_t)ty, i)));
    out("]}"); out_end();
    hwloc_bitmap_free(s);
  } else if (!strcmp(k, "index_inside")) {
    hwloc_bitmap_t s = parse_set(hwv_tok(&p)); long op = hwv_tokl(&p); hwloc_obj_t o = at(op);
    if (o && o->cpuset) { int r = hwloc_get_obj_index_inside_cpuset(topo, s, o);
      out("{\"e\":\"index_inside\",\"set\":"); out_set(s); out(",\"obj\":%ld,\"res\":%d}", op, r); out_end(); }
    hwloc_bitmap_free(s);
  } else if (!strcmp(k, "covering_depth")) {
    hwloc_bitmap_t s = parse_set(hwv_tok(&p)); int d = (int)hwv_tokl(&p);
    out("{\"e\":\"covering_depth\",\"set\":"); out_set(s); out(",\"depth\":%d,\"iter\":", d);
    ITER(hwloc_get_next_obj_covering_cpuset_by_depth(topo, s, d, prev));
    out("}"); out_end();
    hwloc_bitmap_free(s);
  } else if (!strcmp(k, "covering_type")) {
    hwloc_bitmap_t s = parse_set(hwv_tok(&p)); int ty = (int)hwv_tokl(&p);
    out("{\"e\":\"covering_type\",\"set\":"); out_set(s); out(",\"type\":%d,\"iter\":", ty);
    ITER(hwloc_get_next_obj_covering_cpuset_by_type(topo, s, (hwloc_obj_type_t)ty, prev));
    out("}"); out_end();
    hwloc_bitmap_free(s);
  } else if (!strcmp(k, "anc_depth")) {
    long op = hwv_tokl(&p); int d = (int)hwv_tokl(&p); hwloc_obj_t o = at(op);
    if (o) { out("{\"e\":\"anc_depth\",\"obj\":%ld,\"depth\":%d,\"res\":%d}", op, d, pos(hwloc_get_ancestor_obj_by_depth(topo, d, o))); out_end(); }
  } else if (!strcmp(k, "anc_type")) {
    long op = hwv_tokl(&p); int ty = (int)hwv_tokl(&p); hwloc_obj_t o = at(op);
    if (o) { out("{\"e\":\"anc_type\",\"obj\":%ld,\"type\":%d,\"res\":%d}", op, ty, pos(hwloc_get_ancestor_obj_by_type(topo, (hwloc_obj_type_t)ty, o))); out_end(); }
  } else if (!strcmp(k, "common")) {
    long a = hwv_tokl(&p), b = hwv_tokl(&p); hwloc_obj_t oa = at(a), ob = at(b);
    if (oa && ob) { out("{\"e\":\"common\",\"a\":%ld,\"b\":%ld,\"res\":%d}", a, b, pos(hwloc_get_common_ancestor_obj(topo, oa, ob))); out_end(); }
  } else if (!strcmp(k, "in_subtree")) {
    long a = hwv_tokl(&p), b = hwv_tokl(&p); hwloc_obj_t oa = at(a), ob = at(b);
    if (oa && ob) { out("{\"e\":\"in_subtree\",\"obj\":%ld,\"root\":%ld,\"res\":%d}", a, b, hwloc_obj_is_in_subtree(topo, oa, ob)); out_end(); }
  } else if (!strcmp(k, "next_child")) {
    long op = hwv_tokl(&p); hwloc_obj_t o = at(op);
    if (o) { out("{\"e\":\"next_child\",\"parent\":%ld,\"iter\":", op); ITER(hwloc_get_next_child(topo, o, prev)); out("}"); out_end(); }
  } else if (!strcmp(k, "shared_cache") || !strcmp(k, "non_io_anc")) {
    long op = hwv_tokl(&p); hwloc_obj_t o = at(op);
    if (o) { out("{\"e\":\"%s\",\"obj\":%ld,\"res\":%d}", k, op, pos(k[0] == 's' ? hwloc_get_shared_cache_covering_obj(topo, o) : hwloc_get_non_io_ancestor_obj(topo, o))); out_end(); }
  } else if (!strcmp(k, "closest")) {
    long op = hwv_tokl(&p); unsigned max = (unsigned)hwv_tokl(&p), ret, i, cap = max + 4; hwloc_obj_t o = at(op), *v; int clean = 1;
    if (!o) return;
    v = calloc(cap, sizeof *v);
    ret = hwloc_get_closest_objs(topo, o, v, max);
    for (i = ret; i < cap; i++) if (v[i]) clean = 0;
    out("{\"e\":\"closest\",\"src\":%ld,\"max\":%u,\"ret\":%u,\"objs\":", op, max, ret); out_poslist(v, ret < cap ? ret : cap); out(",\"clean\":%d}", clean); out_end();
    free(v);
  } else if (!strcmp(k, "below")) {
    int t1 = (int)hwv_tokl(&p); unsigned i1 = (unsigned)hwv_tokl(&p); int t2 = (int)hwv_tokl(&p); unsigned i2 = (unsigned)hwv_tokl(&p);
    out("{\"e\":\"below\",\"t1\":%d,\"i1\":%u,\"t2\":%d,\"i2\":%u,\"res\":%d}", t1, i1, t2, i2,
        pos(hwloc_get_obj_below_by_type(topo, (hwloc_obj_type_t)t1, i1, (hwloc_obj_type_t)t2, i2))); out_end();
  } else if (!strcmp(k, "below_array")) {
    int nr = (int)hwv_tokl(&p), i; hwloc_obj_type_t tv[8]; unsigned iv[8];
    if (nr < 0 || nr > 8) return;
    for (i = 0; i < nr; i++) { tv[i] = (hwloc_obj_type_t)hwv_tokl(&p); iv[i] = (unsigned)hwv_tokl(&p); }
    out("{\"e\":\"below_array\",\"types\":["); for (i = 0; i < nr; i++) out("%s%d", i ? "," : "", (int)tv[i]);
    out("],\"idxs\":["); for (i = 0; i < nr; i++) out("%s%u", i ? "," : "", iv[i]);
    out("],\"res\":%d}", pos(hwloc_get_obj_below_array_by_type(topo, nr, tv, iv))); out_end();
  } else if (!strcmp(k, "to_nodeset") || !strcmp(k, "from_nodeset")) {
    hwloc_bitmap_t s = parse_set(hwv_tok(&p)), r = hwloc_bitmap_alloc(); int ret;
    hwloc_bitmap_set_range(r, 700, 702);                                    /* stale content the call must erase */
    ret = k[0] == 't' ? hwloc_cpuset_to_nodeset(topo, s, r) : hwloc_cpuset_from_nodeset(topo, r, s);
    out("{\"e\":\"%s\",\"set\":", k); out_set(s); out(",\"ret\":%d,\"res\":", ret); out_set(r); out("}"); out_end();
    hwloc_bitmap_free(s); hwloc_bitmap_free(r);
  } else if (!strcmp(k, "same_locality")) {
    long sp = hwv_tokl(&p); int ty = (int)hwv_tokl(&p); const char *st = optarg_str(hwv_tok(&p)), *np = optarg_str(hwv_tok(&p)); unsigned long fl = (unsigned long)hwv_tokl(&p);
    hwloc_obj_t o = at(sp), r; int err;
    if (!o) return;
    errno = 0; r = hwloc_get_obj_with_same_locality(topo, o, (hwloc_obj_type_t)ty, st, np, fl); err = errno;
    out("{\"e\":\"same_locality\",\"src\":%ld,\"type\":%d,\"st\":", sp, ty); out_optstr(st); out(",\"np\":"); out_optstr(np);
    out(",\"flags\":%lu,\"res\":%d,\"errno\":\"%s\"}", fl, pos(r), errname(r ? 0 : err)); out_end();
  } else if (!strcmp(k, "type_depth")) {
    int ty = (int)hwv_tokl(&p);
    out("{\"e\":\"type_depth\",\"type\":%d,\"d\":%d}", ty, hwloc_get_type_depth(topo, (hwloc_obj_type_t)ty)); out_end();
  } else if (!strcmp(k, "type_lookup")) {
    int ty = (int)hwv_tokl(&p), nb; unsigned i;
    if (ty < 0 || ty >= HWLOC_OBJ_TYPE_MAX) return;
    nb = hwloc_get_nbobjs_by_type(topo, (hwloc_obj_type_t)ty);
    out("{\"e\":\"type_lookup\",\"type\":%d,\"d\":%d,\"below\":%d,\"above\":%d,\"nb\":%d,\"iter\":", ty, hwloc_get_type_depth(topo, (hwloc_obj_type_t)ty),
        hwloc_get_type_or_below_depth(topo, (hwloc_obj_type_t)ty), hwloc_get_type_or_above_depth(topo, (hwloc_obj_type_t)ty), nb);
    ITER(hwloc_get_next_obj_by_type(topo, (hwloc_obj_type_t)ty, prev));
    out(",\"byidx\":[");
    for (i = 0; (int)i <= (nb > 0 ? nb : 0) + 1 && i < MAXIT; i++) out("%s%d", i ? "," : "", pos(hwloc_get_obj_by_type(topo, (hwloc_obj_type_t)ty, i)));
    out("]}"); out_end();
  } else if (!strcmp(k, "depth_lookup")) {
    int d = (int)hwv_tokl(&p); unsigned nb = hwloc_get_nbobjs_by_depth(topo, d), i;
    out("{\"e\":\"depth_lookup\",\"depth\":%d,\"type\":%d,\"nb\":%u,\"iter\":", d, (int)hwloc_get_depth_type(topo, d), nb & 0x7fffffff);
    ITER(hwloc_get_next_obj_by_depth(topo, d, prev));
    out(",\"byidx\":[");
    for (i = 0; i <= nb + 1 && i < MAXIT; i++) out("%s%d", i ? "," : "", pos(hwloc_get_obj_by_depth(topo, d, i)));
    out("]}"); out_end();
  } else if (!strcmp(k, "cache_type_depth")) {
    unsigned lv = (unsigned)hwv_tokl(&p); int ct = (int)hwv_tokl(&p);
    out("{\"e\":\"cache_type_depth\",\"level\":%u,\"ctype\":%d,\"res\":%d}", lv, ct, hwloc_get_cache_type_depth(topo, lv, (hwloc_obj_cache_type_t)ct)); out_end();
  } else if (!strcmp(k, "pu_by_os") || !strcmp(k, "numa_by_os")) {
    unsigned idx = (unsigned)hwv_tokl(&p);
    out("{\"e\":\"%s\",\"os\":%u,\"res\":%d}", k, idx, pos(k[0] == 'p' ? hwloc_get_pu_obj_by_os_index(topo, idx) : hwloc_get_numanode_obj_by_os_index(topo, idx))); out_end();
  } else if (!strcmp(k, "distrib")) {
    /* q distrib <nroots> r1 .. rk <n> <until> <flags> */
    unsigned nr = (unsigned)hwv_tokl(&p), i, n; int until, ret, err, over = 0; unsigned long fl; hwloc_obj_t roots[64]; long rp[64]; hwloc_cpuset_t *sets;
    if (nr > 64) return;
    for (i = 0; i < nr; i++) { rp[i] = hwv_tokl(&p); roots[i] = at(rp[i]); if (!roots[i] || !roots[i]->cpuset) return; }
    n = (unsigned)hwv_tokl(&p); until = (int)hwv_tokl(&p); fl = (unsigned long)hwv_tokl(&p);
    if (n > 4096) return;
    sets = calloc(n + 2, sizeof *sets);
    errno = 0; ret = hwloc_distrib(topo, roots, nr, sets, n, until, fl); err = errno;
    out("{\"e\":\"distrib\",\"roots\":["); for (i = 0; i < nr; i++) out("%s%ld", i ? "," : "", rp[i]);
    out("],\"n\":%u,\"until\":%d,\"flags\":%lu,\"ret\":%d,\"errno\":\"%s\",\"sets\":[", n, until, fl, ret, errname(ret ? err : 0));
    for (i = 0; i < n; i++) { if (i) out(","); out_set(sets[i]); }
    out("],\"nulls\":["); for (i = 0; i < n; i++) out("%s%d", i ? "," : "", sets[i] ? 0 : 1);
    if (sets[n] || sets[n + 1]) over = 1;                                  /* wrote past the n requested entries */
    out("],\"over\":%d}", over); out_end();
    for (i = 0; i < n + 2; i++) if (sets[i]) hwloc_bitmap_free(sets[i]);
    free(sets);
  } else if (!strcmp(k, "mem_parents_depth")) {
    out("{\"e\":\"mem_parents_depth\",\"res\":%d}", hwloc_get_memory_parents_depth(topo)); out_end();
  } else if (!strcmp(k, "type_depth_attr")) {
    /* q type_depth_attr <type> <group depth | -1 unspecified> <0: pass attr, 1: pass NULL/0> */
    int ty = (int)hwv_tokl(&p); long gd = hwv_tokl(&p); int noattr = (int)hwv_tokl(&p); union hwloc_obj_attr_u a; int r;
    memset(&a, 0, sizeof a); a.group.depth = (unsigned)gd;
    r = noattr ? hwloc_get_type_depth_with_attr(topo, (hwloc_obj_type_t)ty, NULL, 0) : hwloc_get_type_depth_with_attr(topo, (hwloc_obj_type_t)ty, &a, sizeof a);
    out("{\"e\":\"type_depth_attr\",\"type\":%d,\"gdepth\":%ld,\"noattr\":%d,\"res\":%d}", ty, gd, noattr, r); out_end();
  } else if (!strcmp(k, "pcidev_by_busid")) {
    unsigned dom = (unsigned)hwv_tokl(&p), bus = (unsigned)hwv_tokl(&p), dev = (unsigned)hwv_tokl(&p), fn = (unsigned)hwv_tokl(&p); char str[64], shortstr[64];
    snprintf(str, sizeof str, "%04x:%02x:%02x.%01x", dom, bus, dev, fn); snprintf(shortstr, sizeof shortstr, "%02x:%02x.%01x", bus, dev, fn);
    out("{\"e\":\"pcidev_by_busid\",\"dom\":%u,\"bus\":%u,\"dev\":%u,\"func\":%u,\"res\":%d,\"sres\":%d,\"short\":%d}", dom, bus, dev, fn,
        pos(hwloc_get_pcidev_by_busid(topo, dom, bus, dev, fn)), pos(hwloc_get_pcidev_by_busidstring(topo, str)), pos(hwloc_get_pcidev_by_busidstring(topo, shortstr))); out_end();
  } else if (!strcmp(k, "bridge_covers")) {
    long op = hwv_tokl(&p); unsigned dom = (unsigned)hwv_tokl(&p), bus = (unsigned)hwv_tokl(&p); hwloc_obj_t o = at(op);
    if (o) { out("{\"e\":\"bridge_covers\",\"obj\":%ld,\"dom\":%u,\"bus\":%u,\"res\":%d}", op, dom, bus, hwloc_bridge_covers_pcibus(o, dom, bus)); out_end(); }
  } else if (!strcmp(k, "singlify")) {
    hwloc_bitmap_t s = parse_set(hwv_tok(&p)), a = hwloc_bitmap_dup(s); unsigned which = (unsigned)hwv_tokl(&p); int ret;
    ret = hwloc_bitmap_singlify_per_core(topo, s, which);
    out("{\"e\":\"singlify\",\"set\":"); out_set(a); out(",\"which\":%u,\"ret\":%d,\"res\":", which, ret); out_set(s); out("}"); out_end();
    hwloc_bitmap_free(s); hwloc_bitmap_free(a);
  }
}

static void handler(char **lines, size_t n, int beh) {
  size_t i;
  for (i = 0; i < n; i++) {
    char *p = lines[i]; char *cmd = hwv_tok(&p); int ret, err;
    if (!cmd) continue;
    errno = 0;
    if (!strcmp(cmd, "reset")) { do_reset(beh); continue; }
    if (!strcmp(cmd, "init")) { if (topo) continue; ret = hwloc_topology_init(&topo); ev_setup("init", ret, errno); if (ret) topo = NULL; continue; }
    if (!topo) continue;
    if (!strcmp(cmd, "destroy")) { drop_prj(); hwloc_topology_destroy(topo); topo = NULL; loaded = 0; ev_setup("destroy", 0, 0); continue; }
    if (!strcmp(cmd, "q")) { do_query(p); continue; }
    if (!loaded) {
      if (!strcmp(cmd, "synthetic")) { while (*p == ' ') p++; ret = hwloc_topology_set_synthetic(topo, p); ev_setup("synthetic", ret, errno); }
      else if (!strcmp(cmd, "xmlbuf")) { while (*p == ' ') p++; ret = hwloc_topology_set_xmlbuffer(topo, p, (int)strlen(p) + 1); ev_setup("xmlbuf", ret, errno); }
      else if (!strcmp(cmd, "flags")) { ret = hwloc_topology_set_flags(topo, (unsigned long)hwv_tokl(&p)); ev_setup("flags", ret, errno); }
      else if (!strcmp(cmd, "filter")) {
        int ty = (int)hwv_tokl(&p), f = (int)hwv_tokl(&p);
        if (ty == -1) ret = hwloc_topology_set_all_types_filter(topo, (enum hwloc_type_filter_e)f);
        else if (ty == -2) ret = hwloc_topology_set_cache_types_filter(topo, (enum hwloc_type_filter_e)f);
        else if (ty == -3) ret = hwloc_topology_set_icache_types_filter(topo, (enum hwloc_type_filter_e)f);
        else if (ty == -4) ret = hwloc_topology_set_io_types_filter(topo, (enum hwloc_type_filter_e)f);
        else ret = hwloc_topology_set_type_filter(topo, (hwloc_obj_type_t)ty, (enum hwloc_type_filter_e)f);
        ev_setup("filter", ret, errno);
      } else if (!strcmp(cmd, "load")) {
        ret = hwloc_topology_load(topo); err = errno; loaded = !ret; ev_setup("load", ret, err);
        if (ret) { hwloc_topology_destroy(topo); topo = NULL; }
      }
      continue;
    }
    if (!strcmp(cmd, "topo")) { do_topo(); continue; }
    if (have_prj) continue;            /* the topology is frozen once projected */
    if (!strcmp(cmd, "restrict")) {
      unsigned long fl = (unsigned long)hwv_tokl(&p); hwloc_bitmap_t s = parse_set(hwv_tok(&p));
      ret = hwloc_topology_restrict(topo, s, fl); ev_setup("restrict", ret, errno); hwloc_bitmap_free(s);
    } else if (!strcmp(cmd, "allow")) {
      /* allow <cpuset list|-> <nodeset list|-> : HWLOC_ALLOW_FLAG_CUSTOM (needs the INCLUDE_DISALLOWED topology flag) */
      const char *cs = optarg_str(hwv_tok(&p)), *ns = optarg_str(hwv_tok(&p));
      hwloc_bitmap_t c = cs ? parse_set(cs) : NULL, n = ns ? parse_set(ns) : NULL;
      ret = hwloc_topology_allow(topo, c, n, HWLOC_ALLOW_FLAG_CUSTOM); ev_setup("allow", ret, errno);
      if (c) hwloc_bitmap_free(c);
      if (n) hwloc_bitmap_free(n);
    } else if (!strcmp(cmd, "group")) {
      char *cs = hwv_tok(&p); int dm = (int)hwv_tokl(&p); hwloc_obj_t g = hwloc_topology_alloc_group_object(topo), o = NULL;
      if (g) { g->cpuset = parse_set(cs); g->attr->group.dont_merge = (unsigned char)dm; errno = 0; o = hwloc_topology_insert_group_object(topo, g); }
      ev_setup("group", o ? 0 : -1, o ? 0 : errno);
    } else if (!strcmp(cmd, "misc")) {
      int d = (int)hwv_tokl(&p); unsigned li = (unsigned)hwv_tokl(&p); char *name = hwv_tok(&p); hwloc_obj_t par = hwloc_get_obj_by_depth(topo, d, li), o = NULL;
      if (par) o = hwloc_topology_insert_misc_object(topo, par, name ? name : "misc");
      ev_setup("misc", o ? 0 : -1, o ? 0 : errno);
    } else if (!strcmp(cmd, "subtype")) {
      int d = (int)hwv_tokl(&p); unsigned li = (unsigned)hwv_tokl(&p); const char *st = optarg_str(hwv_tok(&p)); hwloc_obj_t o = hwloc_get_obj_by_depth(topo, d, li);
      ret = o ? hwloc_obj_set_subtype(topo, o, st) : -1; ev_setup("subtype", ret, errno);
    } else if (!strcmp(cmd, "exportxml")) {
      char *buf = NULL; int len = 0;
      ret = hwloc_topology_export_xmlbuffer(topo, &buf, &len, 0);
      out("{\"e\":\"exportxml\",\"ret\":%d,\"xml\":", ret); out_jstr(ret ? "" : buf); out("}"); out_end();
      if (!ret) hwloc_free_xmlbuffer(topo, buf);
    }
  }
}

int main(int argc, char **argv) {
  if (argc < 3) { fprintf(stderr, "usage: hwv_helpers <behaviours> <trace.ndjson>\n"); return 2; }
  return hwv_run(argv[1], argv[2], handler);
}
