/* hwv_xmlload: recorder for C06 (loading arbitrary XML).  No oracle logic.
 * behaviour file:
 *   reset
 *   xmlload <path> <buffer|file> <topology flags> <keepall 0|1> <pristine 0|1> <after 0=destroy|1=reconfigure+reload|2=reload a good XML> [<good XML path>]
 *     after = 2: when the load fails, the same topology is given <good XML path>, configured as before and loaded; a fresh topology
 *     does the same; both projections (with stores) are logged as "re_topo" / "fresh_topo"
 *   diffload <path> <buffer|file> <pristine 0|1>
 * On a successful load the read-only battery runs (projection with hwloc_topology_check in a forked child, store queries,
 * type/attr printing at three sizes for every object, XML v3/v2 and synthetic export, dup, destroy); "battery":1 is logged
 * only when all of it returned.  A crash / hang / leak leaves the corresponding event instead (see hwv_common.h).
 */
#include "project_stores.h"
#include <hwloc.h>
#include <hwloc/export.h>
#include <hwloc/diff.h>
#include <sys/stat.h>

static char *slurp(const char *path, long *len) {
  FILE *f = fopen(path, "rb"); char *buf = NULL;
  *len = 0;
  if (!f) return NULL;
  fseek(f, 0, SEEK_END); *len = ftell(f); fseek(f, 0, SEEK_SET);
  buf = malloc((size_t)*len + 1);                       /* exactly sized: over-reads are visible to ASan */
  if (fread(buf, 1, (size_t)*len, f) != (size_t)*len) *len = 0;
  buf[*len] = 0; fclose(f);
  return buf;
}

/* mode "fifo": the document is given by path through a FIFO fed by a child process (what `lstopo -i /dev/stdin` or a process
 * substitution gives): the loaders cannot stat its size and read it in growing chunks */
static pid_t fifo_feed(const char *path, char *fifo, size_t fsz) {
  char *buf; long len = 0; pid_t pid; int fd; long off = 0;
  snprintf(fifo, fsz, "%s.fifo.%d", path, (int)getpid());
  unlink(fifo);
  if (mkfifo(fifo, 0600) < 0) return -1;
  pid = fork();
  if (pid) return pid;
  /* child: write the bytes and leave */
  signal(SIGPIPE, SIG_IGN);
  buf = slurp(path, &len);
  fd = open(fifo, O_WRONLY);
  while (fd >= 0 && buf && off < len) { ssize_t w = write(fd, buf + off, (size_t)(len - off)); if (w <= 0) break; off += w; }
  _exit(0);
}
static void fifo_done(pid_t pid, const char *fifo) {
  int st, fd;
  if (pid <= 0) return;
  /* a loader that failed early never opened the FIFO: unblock the writer */
  fd = open(fifo, O_RDONLY | O_NONBLOCK); if (fd >= 0) { char b[4096]; while (read(fd, b, sizeof b) > 0) {} close(fd); }
  kill(pid, SIGKILL); waitpid(pid, &st, 0); unlink(fifo);
}

static void print_all(hwloc_topology_t t) {
  struct prj P; unsigned i; char b0[1], b8[8], b256[256];
  prj_init(&P, t);
  for (i = 0; i < P.n; i++) {
    unsigned long fl;
    for (fl = 0; fl < 4; fl++) {
      unsigned long f2 = fl == 0 ? 0 : fl == 1 ? HWLOC_OBJ_SNPRINTF_FLAG_LONG_NAMES : fl == 2 ? HWLOC_OBJ_SNPRINTF_FLAG_MORE_ATTRS : HWLOC_OBJ_SNPRINTF_FLAG_OLD_VERBOSE;
      hwloc_obj_type_snprintf(NULL, 0, P.objs[i], f2); hwloc_obj_type_snprintf(b0, 0, P.objs[i], f2);
      hwloc_obj_type_snprintf(b8, sizeof b8, P.objs[i], f2); hwloc_obj_type_snprintf(b256, sizeof b256, P.objs[i], f2);
      hwloc_obj_attr_snprintf(NULL, 0, P.objs[i], " ", f2); hwloc_obj_attr_snprintf(b8, sizeof b8, P.objs[i], " ", f2);
      hwloc_obj_attr_snprintf(b256, sizeof b256, P.objs[i], " ", f2);
    }
  }
  prj_fini(&P);
}

static void do_xmlload(char *p) {
  char *path = hwv_tok(&p), *mode = hwv_tok(&p); unsigned long fl = (unsigned long)hwv_tokl(&p);
  int keepall = (int)hwv_tokl(&p), pristine = (int)hwv_tokl(&p), after = (int)hwv_tokl(&p);
  char *good = hwv_tok(&p); int two = 0; char fifo[4200]; pid_t fpid = 0;
  hwloc_topology_t t = NULL; int r1 = -1, r2 = -2, err = 0, battery = 0, re_set = -2, re_load = -2, re_n = 0; char *buf = NULL; long len = 0;
  hwloc_topology_init(&t);
  errno = 0;
  if (mode && !strcmp(mode, "buffer")) { buf = slurp(path, &len); r1 = hwloc_topology_set_xmlbuffer(t, buf ? buf : "", (int)len + 1); err = errno; }
  else if (mode && !strcmp(mode, "fifo")) { fpid = fifo_feed(path, fifo, sizeof fifo); r1 = hwloc_topology_set_xml(t, fifo); err = errno; }
  else { r1 = hwloc_topology_set_xml(t, path); err = errno; }
  if (!r1) {
    hwloc_topology_set_flags(t, fl);
    if (keepall) hwloc_topology_set_all_types_filter(t, HWLOC_TYPE_FILTER_KEEP_ALL);
    errno = 0;
    r2 = hwloc_topology_load(t); err = errno;
  }
  fifo_done(fpid, fifo);
  free(buf);
  out("{\"e\":\"xmlload\",\"path\":"); out_jstr(path); out(",\"mode\":\"%s\",\"flags\":%lu,\"keepall\":%d,\"pristine\":%d,\"after\":%d,\"set\":%d,\"load\":%d,\"errno\":\"%s\",\"topo\":",
      mode ? mode : "", fl, keepall, pristine, after, r1, r2, errname(err));
  if (!r1 && !r2) {
    char *xb = NULL; int xl = 0; char syn[4096]; hwloc_topology_t d = NULL;
    project_topology(t, 1);
    hwv_len--; out(",\"stores\":"); project_stores(t); out("}");
    print_all(t);
    if (!hwloc_topology_export_xmlbuffer(t, &xb, &xl, 0)) hwloc_free_xmlbuffer(t, xb);
    if (!hwloc_topology_export_xmlbuffer(t, &xb, &xl, HWLOC_TOPOLOGY_EXPORT_XML_FLAG_V2)) hwloc_free_xmlbuffer(t, xb);
    hwloc_topology_export_synthetic(t, syn, sizeof syn, 0);
    hwloc_topology_export_synthetic(t, syn, 16, HWLOC_TOPOLOGY_EXPORT_SYNTHETIC_FLAG_IGNORE_MEMORY);
    if (!hwloc_topology_dup(&d, t)) hwloc_topology_destroy(d);
    hwloc_topology_destroy(t); t = NULL;
    battery = 1;
  } else {
    out("{\"n\":0}");
    if (after == 2 && good) {
      /* a failed load leaves a topology that may be given another source and loaded: it must then be what a fresh topology gets */
      hwloc_topology_t f = NULL; int fs, fl2 = -1;
      re_set = hwloc_topology_set_xml(t, good);
      if (!re_set) {
        hwloc_topology_set_flags(t, fl);
        if (keepall) hwloc_topology_set_all_types_filter(t, HWLOC_TYPE_FILTER_KEEP_ALL);
        re_load = hwloc_topology_load(t);
      }
      hwloc_topology_init(&f);
      fs = hwloc_topology_set_xml(f, good);
      if (!fs) {
        hwloc_topology_set_flags(f, fl);
        if (keepall) hwloc_topology_set_all_types_filter(f, HWLOC_TYPE_FILTER_KEEP_ALL);
        fl2 = hwloc_topology_load(f);
      }
      out(",\"fresh_set\":%d,\"fresh_load\":%d,\"re_topo\":", fs, fl2);
      if (!re_set && !re_load) { project_topology(t, 1); hwv_len--; out(",\"stores\":"); project_stores(t); out("}"); } else out("{\"n\":0}");
      out(",\"fresh_topo\":");
      if (!fs && !fl2) { project_topology(f, 1); hwv_len--; out(",\"stores\":"); project_stores(f); out("}"); } else out("{\"n\":0}");
      hwloc_topology_destroy(f);
      two = 1;
    } else if (after) {
      /* a failed load leaves a topology that may be configured and loaded again */
      re_set = hwloc_topology_set_synthetic(t, "pu:2");
      if (!re_set) { re_load = hwloc_topology_load(t); if (!re_load) re_n = (int)hwloc_get_nbobjs_by_type(t, HWLOC_OBJ_PU); }
    }
    hwloc_topology_destroy(t); t = NULL;
  }
  out(",\"battery\":%d,\"re_set\":%d,\"re_load\":%d,\"re_n\":%d,\"two\":%d}", battery, re_set, re_load, re_n, two); out_end();
}

static void do_diffload(char *p) {
  char *path = hwv_tok(&p), *mode = hwv_tok(&p); int pristine = (int)hwv_tokl(&p);
  hwloc_topology_diff_t diff = NULL, d; char *refname = NULL; int ret, err, n = 0; char *buf = NULL; long len = 0;
  errno = 0;
  if (mode && !strcmp(mode, "buffer")) { buf = slurp(path, &len); ret = hwloc_topology_diff_load_xmlbuffer(buf ? buf : "", (int)len + 1, &diff, &refname); err = errno; free(buf); }
  else if (mode && !strcmp(mode, "fifo")) { char fifo[4200]; pid_t fpid = fifo_feed(path, fifo, sizeof fifo); ret = hwloc_topology_diff_load_xml(fifo, &diff, &refname); err = errno; fifo_done(fpid, fifo); }
  else { ret = hwloc_topology_diff_load_xml(path, &diff, &refname); err = errno; }
  if (!ret) { for (d = diff; d && n < 100000; d = d->generic.next) n++; hwloc_topology_diff_destroy(diff); free(refname); }
  out("{\"e\":\"diffload\",\"path\":"); out_jstr(path); out(",\"mode\":\"%s\",\"pristine\":%d,\"ret\":%d,\"errno\":\"%s\",\"n\":%d}", mode ? mode : "", pristine, ret, errname(err), n); out_end();
}

static void handler(char **lines, size_t n, int beh) {
  size_t i;
  for (i = 0; i < n; i++) {
    char *p = lines[i]; char *cmd = hwv_tok(&p);
    if (!cmd) continue;
    if (!strcmp(cmd, "reset")) { if (!hwv_quiet) { out("{\"e\":\"Reset\",\"beh\":%d}", beh); out_end(); } }
    else if (!strcmp(cmd, "xmlload")) do_xmlload(p);
    else if (!strcmp(cmd, "diffload")) do_diffload(p);
  }
}

int main(int argc, char **argv) {
  if (argc < 3) { fprintf(stderr, "usage: hwv_xmlload <behaviours> <trace.ndjson>\n"); return 2; }
  return hwv_run(argv[1], argv[2], handler);
}
