/* hwv_bind: recorder for the CPU / memory binding API (C10).  No oracle logic.
 *
 * The executable links libhwloc.a statically and DEFINES sched_setaffinity, sched_getaffinity,
 * pthread_setaffinity_np, pthread_getaffinity_np and syscall() itself: what hwloc hands to the
 * operating system (sched_setaffinity, set_mempolicy, mbind, migrate_pages, move_pages) is logged
 * and then forwarded to the kernel with a raw system call.
 *
 * behaviour file:
 *   reset <kind> <desc> <flag> <env> <thr> <c1> <c2> <c3> <c4>
 *        kind  native | synth | xml | xmld          desc  synthetic description, '_' for ' ', or '-'
 *              (xmld: desc/allowedcpus/allowednodes: XML export with disallowed PUs and nodes)
 *        flag  1: HWLOC_TOPOLOGY_FLAG_IS_THISSYSTEM   env  - | 0 | 1 : HWLOC_THISSYSTEM
 *        thr   1: a second (sleeping) thread exists    c1..c4 the OS indexes the tokens t1..t4 denote (-1: none)
 *   call <op> <flags> <set> <pol> <tgt> <len>
 *        set   '-' or tokens joined by '+': t1 t2 t3 t4 rest x out inf | n1 n2 nrest nx out inf
 *        tgt   main | helper (thread / pid argument)  or the component list of "load" (default | x86)
 *        len   0 | 1 (1 = the whole test buffer)
 */
#include "hwv_common.h"
#include <hwloc.h>
#include <sched.h>
#include <pthread.h>
#include <sys/syscall.h>

#define OUT_IDX 600            /* an index outside every complete set; the infinite tail starts right after */
#define BUFLEN 8192
#define KBYTES 128             /* 1024 CPUs */
#define NBYTES 512             /* 4096 nodes */

/* ------------------------------------------------------------------ raw system calls */
static long raw6(long nr, long a, long b, long c, long d, long e, long f) {
#if defined(__x86_64__)
  long ret; register long r10 __asm__("r10") = d; register long r8 __asm__("r8") = e; register long r9 __asm__("r9") = f;
  __asm__ volatile("syscall" : "=a"(ret) : "a"(nr), "D"(a), "S"(b), "d"(c), "r"(r10), "r"(r8), "r"(r9) : "rcx", "r11", "memory");
  return ret;
#else
#error "hwv_bind needs a raw system call stub for this architecture"
#endif
}

/* ------------------------------------------------------------------ log of intercepted system calls */
struct sysrec { const char *k; int tid; int ret; int err; unsigned char mask[NBYTES]; size_t nbits; };
#define MAXSYS 128
static struct sysrec sysbuf[MAXSYS]; static int nsys, nq, sysovf; static int armed;
static pid_t main_tid, helper_tid; static pthread_t helper_th; static int have_helper;

static void rec(const char *k, int tid, const void *mask, size_t nbits, long rawret) {
  struct sysrec *s;
  if (!armed) return;
  if (nsys == MAXSYS) { sysovf = 1; return; }
  s = &sysbuf[nsys++];
  s->k = k; s->tid = tid; s->ret = rawret < 0 ? -1 : 0; s->err = rawret < 0 ? (int)-rawret : 0;
  if (nbits > NBYTES * 8) nbits = NBYTES * 8;
  memset(s->mask, 0, sizeof s->mask);
  if (mask && nbits) memcpy(s->mask, mask, (nbits + 7) / 8);
  s->nbits = mask ? nbits : 0;
}

int sched_setaffinity(pid_t pid, size_t sz, const cpu_set_t *m) {
  long r = raw6(SYS_sched_setaffinity, pid, (long)sz, (long)m, 0, 0, 0);
  rec("setaff", pid, m, sz * 8, r);
  if (r < 0) { errno = (int)-r; return -1; }
  return 0;
}
int sched_getaffinity(pid_t pid, size_t sz, cpu_set_t *m) {
  long r = raw6(SYS_sched_getaffinity, pid, (long)sz, (long)m, 0, 0, 0);
  if (armed) nq++;
  if (r < 0) { errno = (int)-r; return -1; }
  if ((size_t)r < sz) memset((char *)m + r, 0, sz - (size_t)r);
  return 0;
}
static pid_t tid_of(pthread_t th) { return have_helper && pthread_equal(th, helper_th) ? helper_tid : pthread_equal(th, pthread_self()) ? 0 : -1; }
int pthread_setaffinity_np(pthread_t th, size_t sz, const cpu_set_t *m) {
  pid_t tid = tid_of(th); long r;
  if (tid < 0) return ESRCH;
  r = raw6(SYS_sched_setaffinity, tid, (long)sz, (long)m, 0, 0, 0);
  rec("setaff", tid, m, sz * 8, r);
  return r < 0 ? (int)-r : 0;
}
int pthread_getaffinity_np(pthread_t th, size_t sz, cpu_set_t *m) {
  pid_t tid = tid_of(th); long r;
  if (tid < 0) return ESRCH;
  r = raw6(SYS_sched_getaffinity, tid, (long)sz, (long)m, 0, 0, 0);
  if (armed) nq++;
  if (r < 0) return (int)-r;
  if ((size_t)r < sz) memset((char *)m + r, 0, sz - (size_t)r);
  return 0;
}
long syscall(long nr, ...) {
  va_list ap; long a, b, c, d, e, f, r;
  va_start(ap, nr); a = va_arg(ap, long); b = va_arg(ap, long); c = va_arg(ap, long); d = va_arg(ap, long); e = va_arg(ap, long); f = va_arg(ap, long); va_end(ap);
  r = raw6(nr, a, b, c, d, e, f);
  switch (nr) {
  case SYS_set_mempolicy: rec("set_mempolicy", 0, (void *)b, c ? (size_t)c - 1 : 0, r); break;     /* (mode, mask, maxnode) */
  case SYS_mbind:         rec("mbind", 0, (void *)d, e ? (size_t)e - 1 : 0, r); break;             /* (addr, len, mode, mask, maxnode, flags) */
  case SYS_migrate_pages: rec("migrate_pages", 0, (void *)d, b ? (size_t)b - 1 : 0, r); break;     /* (pid, maxnode, old, new) */
  case SYS_move_pages:    if (d) rec("move_pages_set", 0, NULL, 0, r); else if (armed) nq++; break;   /* (pid, count, pages, nodes, status, flags) */
  case SYS_get_mempolicy: if (armed) nq++; break;
  case SYS_sched_setaffinity: rec("setaff", (int)a, (void *)c, (size_t)b * 8, r); break;
  case SYS_sched_getaffinity: if (armed) nq++; break;
  default: break;
  }
  if (r < 0 && r > -4096) { errno = (int)-r; return -1; }
  return r;
}

/* ------------------------------------------------------------------ output helpers */
static void out_bits(const unsigned char *m, size_t nbits) {
  size_t i = 0; int n = 0;
  out("[");
  while (i < nbits) {
    if (m[i / 8] & (1u << (i % 8))) { size_t j = i; while (j + 1 < nbits && (m[(j + 1) / 8] & (1u << ((j + 1) % 8)))) j++; out("%s[%zu,%zu]", n++ ? "," : "", i, j); i = j + 1; }
    else i++;
  }
  out("]");
}
static void out_ranges(hwloc_const_bitmap_t b) {
  int i = hwloc_bitmap_first(b), n = 0;
  out("[");
  while (i != -1 && n < 4096) {
    int j = hwloc_bitmap_next_unset(b, i);
    if (j == -1) { out("%s[%d,-1]", n ? "," : "", i); n++; break; }
    out("%s[%d,%d]", n ? "," : "", i, j - 1); n++;
    i = hwloc_bitmap_next(b, j);
  }
  out("]");
}
static const char *tname(int tid) { return tid == 0 || tid == main_tid ? "main" : (have_helper && tid == helper_tid) ? "helper" : "other"; }
static void out_sys(void) {
  int i;
  out("\"sys\":[");
  for (i = 0; i < nsys; i++) {
    out("%s{\"k\":\"%s\",\"t\":\"%s\",\"mask\":", i ? "," : "", sysbuf[i].k, tname(sysbuf[i].tid));
    out_bits(sysbuf[i].mask, sysbuf[i].nbits);
    out(",\"ret\":%d,\"err\":\"%s\"}", sysbuf[i].ret, errname(sysbuf[i].err));
  }
  out("],\"nq\":%d", sysovf ? -1 : nq);
}
/* kernel state read back with raw system calls */
static void out_kaff(void) {
  unsigned char m[KBYTES]; long r;
  out("\"aff\":{\"main\":");
  memset(m, 0, sizeof m); r = raw6(SYS_sched_getaffinity, 0, KBYTES, (long)m, 0, 0, 0); out_bits(m, r > 0 ? (size_t)r * 8 : 0);
  if (have_helper) { out(",\"helper\":"); memset(m, 0, sizeof m); r = raw6(SYS_sched_getaffinity, helper_tid, KBYTES, (long)m, 0, 0, 0); out_bits(m, r > 0 ? (size_t)r * 8 : 0); }
  out("}");
}
static void out_kmp(void) {
  unsigned char m[NBYTES]; int mode = -1; long r;
  memset(m, 0, sizeof m);
  r = raw6(SYS_get_mempolicy, (long)&mode, (long)m, NBYTES * 8 + 1, 0, 0, 0);
  out("\"mp\":{\"mode\":%d,\"nodes\":", r < 0 ? (int)r : mode); out_bits(m, NBYTES * 8); out("}");
}

/* ------------------------------------------------------------------ helper thread */
static pthread_mutex_t hm = PTHREAD_MUTEX_INITIALIZER; static pthread_cond_t hc = PTHREAD_COND_INITIALIZER; static int hstate; /* 1 ready, 2 quit */
static void *helper_main(void *arg) {
  (void)arg;
  pthread_mutex_lock(&hm); helper_tid = (pid_t)raw6(SYS_gettid, 0, 0, 0, 0, 0, 0); hstate = 1; pthread_cond_broadcast(&hc);
  while (hstate != 2) pthread_cond_wait(&hc, &hm);
  pthread_mutex_unlock(&hm);
  return NULL;
}
static void helper_stop(void) {
  if (!have_helper) return;
  pthread_mutex_lock(&hm); hstate = 2; pthread_cond_broadcast(&hc); pthread_mutex_unlock(&hm);
  pthread_join(helper_th, NULL); have_helper = 0; helper_tid = 0;
}
static void helper_start(void) {
  hstate = 0;
  if (pthread_create(&helper_th, NULL, helper_main, NULL)) { fprintf(stderr, "hwv_bind: pthread_create failed\n"); _exit(3); }
  pthread_mutex_lock(&hm); while (hstate != 1) pthread_cond_wait(&hc, &hm); pthread_mutex_unlock(&hm);
  have_helper = 1;
}

/* ------------------------------------------------------------------ topologies */
struct tcache { char key[200]; hwloc_topology_t t; int loadret; };
static struct tcache cache[64]; static int ncache;
static unsigned char kallowed[KBYTES]; static size_t kallowed_bits; static unsigned char kmems[NBYTES];
static hwloc_topology_t topo; static int cur_loadret;
static char kind[16], desc[128], envs[8]; static int flag, thr; static long cidx[4];
static void *buf;

static void despace(char *s) { for (; *s; s++) if (*s == '_') *s = ' '; }
static void list_to_bitmap(hwloc_bitmap_t b, const char *s) { hwloc_bitmap_list_sscanf(b, s); }

static hwloc_topology_t build_topology(int *loadret) {
  hwloc_topology_t t = NULL; char d[128]; unsigned long fl = flag ? HWLOC_TOPOLOGY_FLAG_IS_THISSYSTEM : 0;
  if (!strcmp(envs, "-")) unsetenv("HWLOC_THISSYSTEM"); else setenv("HWLOC_THISSYSTEM", envs, 1);
  snprintf(d, sizeof d, "%s", desc);
  hwloc_topology_init(&t);
  if (!strcmp(kind, "native")) {
    /* nothing to set */
  } else if (!strcmp(kind, "synth")) {
    despace(d); hwloc_topology_set_synthetic(t, d);
  } else {                                   /* xml, xmld: export a synthetic topology, import the buffer */
    hwloc_topology_t s; char *xml = NULL; int len = 0; char *ac = NULL, *an = NULL;
    if (!strcmp(kind, "xmld")) { ac = strchr(d, '/'); if (ac) { *ac++ = 0; an = strchr(ac, '/'); if (an) *an++ = 0; } }
    despace(d);
    unsetenv("HWLOC_THISSYSTEM");
    hwloc_topology_init(&s); hwloc_topology_set_synthetic(s, d);
    hwloc_topology_set_flags(s, HWLOC_TOPOLOGY_FLAG_INCLUDE_DISALLOWED);
    hwloc_topology_load(s);
    if (ac && an) {
      hwloc_bitmap_t c = hwloc_bitmap_alloc(), n = hwloc_bitmap_alloc();
      list_to_bitmap(c, ac); list_to_bitmap(n, an);
      hwloc_topology_allow(s, c, n, HWLOC_ALLOW_FLAG_CUSTOM);
      hwloc_bitmap_free(c); hwloc_bitmap_free(n);
    }
    hwloc_topology_export_xmlbuffer(s, &xml, &len, 0);
    hwloc_topology_destroy(s);
    if (strcmp(envs, "-")) setenv("HWLOC_THISSYSTEM", envs, 1);
    hwloc_topology_set_xmlbuffer(t, xml, len);
    hwloc_free_xmlbuffer(t, xml);
  }
  hwloc_topology_set_flags(t, fl);
  *loadret = hwloc_topology_load(t);
  unsetenv("HWLOC_THISSYSTEM");
  return t;
}

static void restore_kernel_state(void) {
  raw6(SYS_sched_setaffinity, 0, KBYTES, (long)kallowed, 0, 0, 0);
  raw6(SYS_set_mempolicy, 0 /* MPOL_DEFAULT */, 0, 0, 0, 0, 0);
}

static void out_support(hwloc_topology_t t) {
  const struct hwloc_topology_support *s = hwloc_topology_get_support(t);
#define C(f) out("%s\"" #f "\":%d", first++ ? "," : "", (int)s->cpubind->f)
#define M(f) out(",\"" #f "\":%d", (int)s->membind->f)
  int first = 0;
  out("\"support\":{");
  C(set_thisproc_cpubind); C(get_thisproc_cpubind); C(set_proc_cpubind); C(get_proc_cpubind);
  C(set_thisthread_cpubind); C(get_thisthread_cpubind); C(set_thread_cpubind); C(get_thread_cpubind);
  C(get_thisproc_last_cpu_location); C(get_proc_last_cpu_location); C(get_thisthread_last_cpu_location);
  M(set_thisproc_membind); M(get_thisproc_membind); M(set_proc_membind); M(get_proc_membind);
  M(set_thisthread_membind); M(get_thisthread_membind); M(set_area_membind); M(get_area_membind);
  M(alloc_membind); M(get_area_memlocation);
  /* the policies / flags the topology announces as supported */
  M(firsttouch_membind); M(bind_membind); M(interleave_membind); M(weighted_interleave_membind);
  M(nexttouch_membind); M(migrate_membind);
  out("}");
#undef C
#undef M
}

static void do_reset(char *p, int beh) {
  char key[200]; int i; hwloc_obj_t n = NULL; char *t;
  helper_stop();
  restore_kernel_state();
  if (buf) munmap(buf, BUFLEN);
  buf = mmap(NULL, BUFLEN, PROT_READ | PROT_WRITE, MAP_PRIVATE | MAP_ANONYMOUS, -1, 0);
  if (buf == MAP_FAILED) { fprintf(stderr, "hwv_bind: mmap failed\n"); _exit(3); }
  memset(buf, 1, BUFLEN);
  t = hwv_tok(&p); snprintf(kind, sizeof kind, "%s", t ? t : "native");
  t = hwv_tok(&p); snprintf(desc, sizeof desc, "%s", t ? t : "-");
  flag = (int)hwv_tokl(&p);
  t = hwv_tok(&p); snprintf(envs, sizeof envs, "%s", t ? t : "-");
  thr = (int)hwv_tokl(&p);
  for (i = 0; i < 4; i++) cidx[i] = hwv_tokl(&p);
  snprintf(key, sizeof key, "%s %s %d %s", kind, desc, flag, envs);
  topo = NULL;
  for (i = 0; i < ncache; i++) if (!strcmp(cache[i].key, key)) { topo = cache[i].t; cur_loadret = cache[i].loadret; }
  if (!topo) {
    topo = build_topology(&cur_loadret);
    if (ncache < 64) { snprintf(cache[ncache].key, sizeof cache[ncache].key, "%s", key); cache[ncache].t = topo; cache[ncache].loadret = cur_loadret; ncache++; }
    restore_kernel_state();
  }
  if (thr) helper_start();
  out("{\"e\":\"Reset\",\"beh\":%d,\"kind\":\"%s\",\"desc\":", beh, kind); out_jstr(desc);
  out(",\"flag\":%d,\"env\":\"%s\",\"thr\":%d,\"loadret\":%d,\"ts\":%d", flag, envs, thr, cur_loadret, hwloc_topology_is_thissystem(topo));
  out(",\"cs\":"); out_ranges(hwloc_topology_get_topology_cpuset(topo));
  out(",\"cc\":"); out_ranges(hwloc_topology_get_complete_cpuset(topo));
  out(",\"ca\":"); out_ranges(hwloc_topology_get_allowed_cpuset(topo));
  out(",\"ns\":"); out_ranges(hwloc_topology_get_topology_nodeset(topo));
  out(",\"nc\":"); out_ranges(hwloc_topology_get_complete_nodeset(topo));
  out(",\"na\":"); out_ranges(hwloc_topology_get_allowed_nodeset(topo));
  out(",\"nodes\":[");
  for (i = 0; (n = hwloc_get_next_obj_by_type(topo, HWLOC_OBJ_NUMANODE, n)) != NULL; i++) {
    out("%s{\"os\":%u,\"cpus\":", i ? "," : "", n->os_index); out_ranges(n->cpuset); out("}");
  }
  out("],\"chosen\":[%ld,%ld,%ld,%ld],", cidx[0], cidx[1], cidx[2], cidx[3]);
  out_support(topo);
  out(",\"kallowed\":"); out_bits(kallowed, kallowed_bits);
  out(",\"kmems\":"); out_bits(kmems, NBYTES * 8);
  out(","); out_kaff(); out(","); out_kmp();
  out("}"); out_end();
}

/* resolve a symbolic set: only builds the argument, the concrete set is what gets logged */
static void resolve(hwloc_bitmap_t b, char *spec) {
  hwloc_const_bitmap_t cs = hwloc_topology_get_topology_cpuset(topo), cc = hwloc_topology_get_complete_cpuset(topo);
  hwloc_const_bitmap_t ns = hwloc_topology_get_topology_nodeset(topo), nc = hwloc_topology_get_complete_nodeset(topo);
  char *tok, *save = NULL; int i;
  hwloc_bitmap_zero(b);
  if (!spec || !strcmp(spec, "-")) return;
  for (tok = strtok_r(spec, "+", &save); tok; tok = strtok_r(NULL, "+", &save)) {
    hwloc_bitmap_t x = hwloc_bitmap_alloc();
    if (tok[0] == 't' && tok[1] >= '1' && tok[1] <= '4' && !tok[2]) { if (cidx[tok[1] - '1'] >= 0) hwloc_bitmap_set(x, (unsigned)cidx[tok[1] - '1']); }
    else if (!strcmp(tok, "rest")) { hwloc_bitmap_copy(x, cs); for (i = 0; i < 4; i++) if (cidx[i] >= 0) hwloc_bitmap_clr(x, (unsigned)cidx[i]); }
    else if (!strcmp(tok, "x")) hwloc_bitmap_andnot(x, cc, cs);
    else if (!strcmp(tok, "out")) hwloc_bitmap_set(x, OUT_IDX);
    else if (!strcmp(tok, "inf")) hwloc_bitmap_set_range(x, OUT_IDX + 1, -1);
    else if (!strcmp(tok, "n1") || !strcmp(tok, "n2") || !strcmp(tok, "nrest")) {
      int a = hwloc_bitmap_first(ns), c2 = a >= 0 ? hwloc_bitmap_next(ns, a) : -1;
      if (!strcmp(tok, "n1")) { if (a >= 0) hwloc_bitmap_set(x, (unsigned)a); }
      else if (!strcmp(tok, "n2")) { if (c2 >= 0) hwloc_bitmap_set(x, (unsigned)c2); }
      else { hwloc_bitmap_copy(x, ns); if (a >= 0) hwloc_bitmap_clr(x, (unsigned)a); if (c2 >= 0) hwloc_bitmap_clr(x, (unsigned)c2); }
    }
    else if (!strcmp(tok, "nx")) hwloc_bitmap_andnot(x, nc, ns);
    hwloc_bitmap_or(b, b, x); hwloc_bitmap_free(x);
  }
}

static void do_call(char *p) {
  char *op = hwv_tok(&p); int flags = (int)hwv_tokl(&p); char *spec = hwv_tok(&p); int pol = (int)hwv_tokl(&p);
  char *tgt = hwv_tok(&p); int lenflag = (int)hwv_tokl(&p);
  size_t len = lenflag ? BUFLEN : 0;
  hwloc_bitmap_t set = hwloc_bitmap_alloc(), o = hwloc_bitmap_alloc();
  hwloc_membind_policy_t opol = (hwloc_membind_policy_t)0;
  int ret = 0, e, fret = 0, helper, known = 1, is_get; pid_t pid; pthread_t th; void *ptr;
  if (!op || !tgt || !topo) { hwloc_bitmap_free(set); hwloc_bitmap_free(o); return; }
  helper = !strcmp(tgt, "helper");
  if (helper && !have_helper) { hwloc_bitmap_free(set); hwloc_bitmap_free(o); return; }
  resolve(set, spec);
  is_get = !strncmp(op, "get_", 4);
  if (is_get) hwloc_bitmap_only(o, OUT_IDX - 1);   /* sentinel: shows whether the call wrote its output */
  pid = helper ? helper_tid : getpid();
  th = helper ? helper_th : pthread_self();
  nsys = 0; nq = 0; sysovf = 0; errno = 0; armed = 1;
  if (!strcmp(op, "set_cpubind")) ret = hwloc_set_cpubind(topo, set, flags);
  else if (!strcmp(op, "get_cpubind")) ret = hwloc_get_cpubind(topo, o, flags);
  else if (!strcmp(op, "set_proc_cpubind")) ret = hwloc_set_proc_cpubind(topo, pid, set, flags);
  else if (!strcmp(op, "get_proc_cpubind")) ret = hwloc_get_proc_cpubind(topo, pid, o, flags);
  else if (!strcmp(op, "set_thread_cpubind")) ret = hwloc_set_thread_cpubind(topo, th, set, flags);
  else if (!strcmp(op, "get_thread_cpubind")) ret = hwloc_get_thread_cpubind(topo, th, o, flags);
  else if (!strcmp(op, "get_last_cpu_location")) ret = hwloc_get_last_cpu_location(topo, o, flags);
  else if (!strcmp(op, "get_proc_last_cpu_location")) ret = hwloc_get_proc_last_cpu_location(topo, pid, o, flags);
  else if (!strcmp(op, "set_membind")) ret = hwloc_set_membind(topo, set, (hwloc_membind_policy_t)pol, flags);
  else if (!strcmp(op, "get_membind")) ret = hwloc_get_membind(topo, o, &opol, flags);
  else if (!strcmp(op, "set_proc_membind")) ret = hwloc_set_proc_membind(topo, getpid(), set, (hwloc_membind_policy_t)pol, flags);
  else if (!strcmp(op, "get_proc_membind")) ret = hwloc_get_proc_membind(topo, getpid(), o, &opol, flags);
  else if (!strcmp(op, "set_area_membind")) ret = hwloc_set_area_membind(topo, buf, len, set, (hwloc_membind_policy_t)pol, flags);
  else if (!strcmp(op, "get_area_membind")) ret = hwloc_get_area_membind(topo, buf, len, o, &opol, flags);
  else if (!strcmp(op, "get_area_memlocation")) ret = hwloc_get_area_memlocation(topo, buf, len, o, flags);
  else if (!strcmp(op, "alloc_membind")) {
    ptr = hwloc_alloc_membind(topo, BUFLEN, set, (hwloc_membind_policy_t)pol, flags);
    e = errno; armed = 0;
    ret = ptr ? 0 : -1;
    if (ptr) { memset(ptr, 2, BUFLEN); fret = hwloc_free(topo, ptr, BUFLEN); }
    errno = e;
  }
  else if (!strcmp(op, "load")) {
    hwloc_topology_t t2;
    armed = 0;
    if (!strcmp(tgt, "x86")) setenv("HWLOC_COMPONENTS", "x86,stop", 1);
    hwloc_topology_init(&t2);
    errno = 0; armed = 1;
    ret = hwloc_topology_load(t2);
    e = errno; armed = 0;
    hwloc_topology_destroy(t2);
    unsetenv("HWLOC_COMPONENTS");
    errno = e;
  }
  else known = 0;
  e = errno; armed = 0;
  if (known) {
    out("{\"e\":\"call\",\"op\":\"%s\",\"flags\":%d,\"set\":", op, flags); out_ranges(set);
    out(",\"pol\":%d,\"tgt\":\"%s\",\"len\":%d,\"ret\":%d,\"err\":\"%s\",\"out\":", pol, tgt, lenflag, ret, errname(e)); out_ranges(o);
    out(",\"opol\":%d,\"fret\":%d,", (int)opol, fret);
    out_sys(); out(","); out_kaff(); out(","); out_kmp();
    out("}"); out_end();
  }
  hwloc_bitmap_free(set); hwloc_bitmap_free(o);
}

static void handler(char **lines, size_t n, int beh) {
  size_t i;
  if (!main_tid) main_tid = (pid_t)raw6(SYS_gettid, 0, 0, 0, 0, 0, 0);
  if (main_tid != getpid()) main_tid = getpid();      /* after fork */
  for (i = 0; i < n; i++) {
    char *p = lines[i]; char *cmd = hwv_tok(&p);
    if (!cmd) continue;
    if (!strcmp(cmd, "reset")) do_reset(p, beh);
    else if (!strcmp(cmd, "call")) do_call(p);
  }
  helper_stop();
  restore_kernel_state();
}

int main(int argc, char **argv) {
  long r;
  if (argc < 3) { fprintf(stderr, "usage: hwv_bind <behaviours> <trace.ndjson>\n"); return 2; }
  /* what the kernel lets this process use, before anything is bound */
  memset(kallowed, 0, sizeof kallowed);
  r = raw6(SYS_sched_getaffinity, 0, KBYTES, (long)kallowed, 0, 0, 0);
  if (r <= 0) { fprintf(stderr, "hwv_bind: sched_getaffinity failed (%ld)\n", r); return 2; }
  kallowed_bits = (size_t)r * 8;
  memset(kmems, 0, sizeof kmems);
  r = raw6(SYS_get_mempolicy, 0, (long)kmems, NBYTES * 8 + 1, 0, 4 /* MPOL_F_MEMS_ALLOWED */, 0);
  if (r < 0) { fprintf(stderr, "hwv_bind: get_mempolicy(MEMS_ALLOWED) failed (%ld)\n", r); return 2; }
  return hwv_run(argv[1], argv[2], handler);
}
