/* hwv_calc: helper recorder of property C20 (command-line tools).
 * No oracle logic.  The tool invocations themselves are process-level events
 * recorded by tools/props/c20.py (argv, stdout lines, exit status, signal);
 * this helper gives the specification the *library's* view of the same input:
 * it loads the input a tool is given, configured through the public API the way
 * the tool documents it configures its topology, and logs the projection
 * (project.h), the level names the library prints, and - on request - the
 * library's own XML / synthetic export texts.
 *
 * behaviour file:
 *   reset
 *   topo <id> flags=<n> all=<filter|-> io=<filter|-> tf=<type:filter,...|-> restrict=<c|n><set>|- rflags=<n>
 *        xml=<exportflags|-> syn=<exportflags|-> save=<path|-> <S|X> <synthetic description... | xml path>
 *       init; set flags; optional all-types / io-types / per-type filters (in that order); set source;
 *       load; optional restrict; log projection; optional exports (logged as text; XML optionally saved to a file)
 */
#include "project.h"
#include <hwloc.h>
#include <hwloc/export.h>

static void out_names(hwloc_topology_t t, unsigned long flags) {
  int depth = hwloc_topology_get_depth(t), d;
  out("[");
  for (d = 0; d < depth + 6; d++) {
    int dd = d < depth ? d : prj_sdepths[d - depth];
    hwloc_obj_t o = hwloc_get_obj_by_depth(t, dd, 0);
    char buf[128]; buf[0] = 0;
    if (o) hwloc_obj_type_snprintf(buf, sizeof buf, o, flags);
    out("%s", d ? "," : ""); out_jstr(buf);
  }
  out("]");
}

static const char *kv(char *tok, const char *key) {
  size_t n = strlen(key);
  if (tok && !strncmp(tok, key, n) && tok[n] == '=') return tok + n + 1;
  return NULL;
}

static void do_topo(char *p) {
  char *id = hwv_tok(&p), *t;
  const char *v;
  unsigned long flags = 0, rflags = 0; int allf = -1, iof = -1; char *tf = NULL, *restr = NULL, *save = NULL;
  long xmlf = -1, synf = -1; char *kind; hwloc_topology_t topo; int r, ok = 1, err = 0;
  const char *stage = "";
  t = hwv_tok(&p); if ((v = kv(t, "flags"))) flags = strtoul(v, NULL, 0);
  t = hwv_tok(&p); if ((v = kv(t, "all")) && strcmp(v, "-")) allf = atoi(v);
  t = hwv_tok(&p); if ((v = kv(t, "io")) && strcmp(v, "-")) iof = atoi(v);
  t = hwv_tok(&p); if ((v = kv(t, "tf")) && strcmp(v, "-")) tf = strdup(v);
  t = hwv_tok(&p); if ((v = kv(t, "restrict")) && strcmp(v, "-")) restr = strdup(v);
  t = hwv_tok(&p); if ((v = kv(t, "rflags"))) rflags = strtoul(v, NULL, 0);
  t = hwv_tok(&p); if ((v = kv(t, "xml")) && strcmp(v, "-")) xmlf = strtol(v, NULL, 0);
  t = hwv_tok(&p); if ((v = kv(t, "syn")) && strcmp(v, "-")) synf = strtol(v, NULL, 0);
  t = hwv_tok(&p); if ((v = kv(t, "save")) && strcmp(v, "-")) save = strdup(v);
  kind = hwv_tok(&p);
  while (*p == ' ') p++;
  out("{\"e\":\"Topo\",\"id\":"); out_jstr(id ? id : "");
  out(",\"flags\":%lu,\"all\":%d,\"io\":%d,\"tf\":", flags, allf, iof); out_jstr(tf ? tf : "");
  out(",\"restrict\":"); out_jstr(restr ? restr : ""); out(",\"rflags\":%lu,\"xmlf\":%ld,\"synf\":%ld,\"kind\":", rflags, xmlf, synf); out_jstr(kind ? kind : "");
  out(",\"src\":"); out_jstr(p);
  hwloc_topology_init(&topo);
  if (hwloc_topology_set_flags(topo, flags) < 0) { ok = 0; err = errno; stage = "flags"; }
  if (ok && allf >= 0 && hwloc_topology_set_all_types_filter(topo, (enum hwloc_type_filter_e)allf) < 0) { ok = 0; err = errno; stage = "all"; }
  if (ok && iof >= 0 && hwloc_topology_set_io_types_filter(topo, (enum hwloc_type_filter_e)iof) < 0) { ok = 0; err = errno; stage = "io"; }
  if (ok && tf) {
    char *q = tf;
    while (q && *q) {
      char *c = strchr(q, ','); int ty, f;
      if (c) *c = 0;
      if (sscanf(q, "%d:%d", &ty, &f) == 2) hwloc_topology_set_type_filter(topo, (hwloc_obj_type_t)ty, (enum hwloc_type_filter_e)f);
      q = c ? c + 1 : NULL;
    }
  }
  if (ok && kind && kind[0] == 'S') { if (hwloc_topology_set_synthetic(topo, p) < 0) { ok = 0; err = errno; stage = "synthetic"; } }
  else if (ok) { if (hwloc_topology_set_xml(topo, p) < 0) { ok = 0; err = errno; stage = "xml"; } }
  if (ok && hwloc_topology_load(topo) < 0) { ok = 0; err = errno; stage = "load"; }
  r = 0;
  if (ok && restr) {
    hwloc_bitmap_t b = hwloc_bitmap_alloc();
    hwloc_bitmap_sscanf(b, restr + 1);
    r = hwloc_topology_restrict(topo, b, rflags | (restr[0] == 'n' ? HWLOC_RESTRICT_FLAG_BYNODESET : 0));
    hwloc_bitmap_free(b);
  }
  out(",\"ok\":%d,\"stage\":", ok); out_jstr(stage); out(",\"errno\":\"%s\",\"rret\":%d", errname(err), r);
  if (ok) {
    out(",\"topo\":"); project_topology(topo, 0);
    out(",\"lnames\":"); out_names(topo, HWLOC_OBJ_SNPRINTF_FLAG_LONG_NAMES);
    out(",\"snames\":"); out_names(topo, 0);
    out(",\"sym\":%d", hwloc_get_root_obj(topo)->symmetric_subtree);
    if (xmlf >= 0) {
      char *buf = NULL; int len = 0;
      int xr = hwloc_topology_export_xmlbuffer(topo, &buf, &len, (unsigned long)xmlf);
      out(",\"xmlret\":%d,\"xml\":", xr);
      if (xr >= 0 && buf) {
        /* the buffer length includes the ending NUL */
        out_jstrn(buf, len > 0 ? (size_t)len - 1 : 0);
        if (save) { FILE *f = fopen(save, "w"); if (f) { fwrite(buf, 1, len > 0 ? (size_t)len - 1 : 0, f); fclose(f); } }
        hwloc_free_xmlbuffer(topo, buf);
      } else out("\"\"");
    } else out(",\"xmlret\":-2,\"xml\":\"\"");
    if (synf >= 0) {
      /* one export into a buffer that is large enough for every description the model generates (no retry logic here) */
      size_t sblen = 1 << 20; char *sbuf = malloc(sblen); int sr;
      sbuf[0] = 0;
      sr = hwloc_topology_export_synthetic(topo, sbuf, sblen, (unsigned long)synf);
      out(",\"synret\":%d,\"synlen\":%d,\"syn\":", sr < 0 ? -1 : 0, sr); out_jstr(sr < 0 ? "" : sbuf);
      free(sbuf);
    } else out(",\"synret\":-2,\"synlen\":-1,\"syn\":\"\"");
  }
  out("}"); out_end();
  hwloc_topology_destroy(topo);
  free(tf); free(restr); free(save);
}

static void handler(char **lines, size_t n, int beh) {
  size_t i;
  out("{\"e\":\"Reset\",\"beh\":%d}", beh); out_end();
  for (i = 1; i < n; i++) {
    char *line = strdup(lines[i]), *p = line, *cmd = hwv_tok(&p);
    if (cmd && !strcmp(cmd, "topo")) do_topo(p);
    free(line);
  }
}

int main(int argc, char **argv) {
  if (argc < 3) { fprintf(stderr, "usage: hwv_calc behaviours.txt trace.ndjson\n"); return 2; }
  return hwv_run(argv[1], argv[2], handler);
}
