/* hwv_bitmapstr: recorder for the bitmap <-> string conversions (C04).  No oracle logic.
 * behaviour file (one bitmap register; <fmt> is hwloc | list | taskset):
 *   reset
 *   set <pad> <via> <nranges> lo hi lo hi ...   build the set (hi = -1: up to infinity).  pad: words allocated first;
 *                                               via = 1: build the complement and negate it
 *   asprintf <fmt>
 *   snprintf <fmt> <buflen>                      into a malloc'ed area of exactly 32 + buflen + 32 bytes
 *   snprintf0 <fmt>                              buf = NULL, buflen = 0
 *   sscanf <fmt> x:<hex bytes>                   the string is passed in a malloc'ed buffer of exactly strlen+1 bytes
 *   reparse <fmt>                                sscanf of the text returned by the last asprintf <fmt>
 */
#include "hwv_common.h"
#include <hwloc.h>

#define GUARD 32
#define GUARDBYTE 0xA5
#define FILLBYTE 0x5A

static hwloc_bitmap_t reg;
static char *last_text[3];

static int fmt_index(const char *f) {
  if (!f) return -1;
  if (!strcmp(f, "hwloc")) return 0;
  if (!strcmp(f, "list")) return 1;
  if (!strcmp(f, "taskset")) return 2;
  return -1;
}
static const char *fmt_name[3] = { "hwloc", "list", "taskset" };

static int do_snprintf_call(int f, char *buf, size_t len, hwloc_const_bitmap_t b) {
  switch (f) {
  case 0: return hwloc_bitmap_snprintf(buf, len, b);
  case 1: return hwloc_bitmap_list_snprintf(buf, len, b);
  default: return hwloc_bitmap_taskset_snprintf(buf, len, b);
  }
}
static int do_asprintf_call(int f, char **s, hwloc_const_bitmap_t b) {
  switch (f) {
  case 0: return hwloc_bitmap_asprintf(s, b);
  case 1: return hwloc_bitmap_list_asprintf(s, b);
  default: return hwloc_bitmap_taskset_asprintf(s, b);
  }
}
static int do_sscanf_call(int f, hwloc_bitmap_t b, const char *s) {
  switch (f) {
  case 0: return hwloc_bitmap_sscanf(b, s);
  case 1: return hwloc_bitmap_list_sscanf(b, s);
  default: return hwloc_bitmap_taskset_sscanf(b, s);
  }
}

/* project a bitmap as a list of [lo,hi] ranges (hi=-1: infinite), through the public iterators */
static void out_ranges(hwloc_const_bitmap_t b) {
  int i = hwloc_bitmap_first(b), n = 0;
  out("[");
  while (i != -1 && n < 100000) {
    int j = hwloc_bitmap_next_unset(b, i);
    if (j == -1) { out("%s[%d,-1]", n ? "," : "", i); n++; break; }
    out("%s[%d,%d]", n ? "," : "", i, j - 1); n++;
    i = hwloc_bitmap_next(b, j);
  }
  out("]");
}

static void do_reset(int beh) {
  int i;
  if (reg) hwloc_bitmap_free(reg);
  reg = hwloc_bitmap_alloc();
  for (i = 0; i < 3; i++) { free(last_text[i]); last_text[i] = NULL; }
  out("{\"e\":\"Reset\",\"beh\":%d}", beh); out_end();
}

static void do_set(char *p) {
  long pad = hwv_tokl(&p), via = hwv_tokl(&p), nr = hwv_tokl(&p), i;
  long *lo, *hi;
  if (nr < 0 || nr > (1 << 20)) return;
  lo = malloc(((size_t)nr + 1) * sizeof *lo); hi = malloc(((size_t)nr + 1) * sizeof *hi);
  if (!lo || !hi) { free(lo); free(hi); return; }
  for (i = 0; i < nr; i++) { lo[i] = hwv_tokl(&p); hi[i] = hwv_tokl(&p); }
  if (via) {
    hwloc_bitmap_fill(reg);                                                   /* complement, negated below */
    if (pad > 0) hwloc_bitmap_set(reg, (unsigned)(64 * pad - 1));             /* allocates pad full words */
  } else {
    hwloc_bitmap_zero(reg);
    if (pad > 0) { hwloc_bitmap_set(reg, (unsigned)(64 * pad - 1)); hwloc_bitmap_clr(reg, (unsigned)(64 * pad - 1)); }   /* pad zero words */
  }
  for (i = 0; i < nr; i++) {
    if (via) hwloc_bitmap_clr_range(reg, (unsigned)lo[i], (int)hi[i]);
    else hwloc_bitmap_set_range(reg, (unsigned)lo[i], (int)hi[i]);
  }
  if (via) hwloc_bitmap_not(reg, reg);
  out("{\"e\":\"set\",\"pad\":%ld,\"via\":%ld,\"req\":[", pad, via);
  for (i = 0; i < nr; i++) out("%s[%ld,%ld]", i ? "," : "", lo[i], hi[i]);
  out("],\"set\":"); out_ranges(reg); out("}"); out_end();
  free(lo); free(hi);
}

static void do_asprintf(char *p) {
  int f = fmt_index(hwv_tok(&p)), ret;
  char *s = NULL;
  if (f < 0) return;
  ret = do_asprintf_call(f, &s, reg);
  out("{\"e\":\"asprintf\",\"fmt\":\"%s\",\"ret\":%d,\"text\":", fmt_name[f], ret);
  out_jstr(ret >= 0 && s ? s : "");
  out("}"); out_end();
  free(last_text[f]);
  last_text[f] = ret >= 0 ? s : NULL;
}

static void do_snprintf(char *p, int null) {
  int f = fmt_index(hwv_tok(&p)), ret, gl = 1, gr = 1;
  long buflen = null ? 0 : hwv_tokl(&p), i, nul = -1;
  unsigned char *area = NULL; char *buf = NULL;
  if (f < 0 || buflen < 0 || buflen > (1 << 24)) return;
  if (!null) {
    area = malloc((size_t)(GUARD + buflen + GUARD));
    if (!area) return;
    memset(area, GUARDBYTE, GUARD);
    memset(area + GUARD, FILLBYTE, (size_t)buflen);
    memset(area + GUARD + buflen, GUARDBYTE, GUARD);
    buf = (char *)area + GUARD;
  }
  ret = do_snprintf_call(f, buf, (size_t)buflen, reg);
  if (!null) {
    for (i = 0; i < GUARD; i++) { if (area[i] != GUARDBYTE) gl = 0; if (area[GUARD + buflen + i] != GUARDBYTE) gr = 0; }
    for (i = 0; i < buflen; i++) if (!buf[i]) { nul = i; break; }
  }
  out("{\"e\":\"snprintf\",\"fmt\":\"%s\",\"null\":%d,\"buflen\":%ld,\"ret\":%d,\"nul\":%ld,\"buf\":", fmt_name[f], null, buflen, ret, nul);
  if (null) out("\"\""); else out_jstrn(buf, (size_t)(nul >= 0 ? nul : buflen));
  out(",\"gl\":%d,\"gr\":%d}", gl, gr); out_end();
  free(area);
}

static int hexv(int c) { return c >= '0' && c <= '9' ? c - '0' : c >= 'a' && c <= 'f' ? c - 'a' + 10 : c >= 'A' && c <= 'F' ? c - 'A' + 10 : -1; }

static void do_sscanf(char *p, int last) {
  int f = fmt_index(hwv_tok(&p)), ret;
  char *str = NULL;
  if (f < 0) return;
  if (last) {
    if (!last_text[f]) return;
    str = malloc(strlen(last_text[f]) + 1);
    strcpy(str, last_text[f]);
  } else {
    char *h = hwv_tok(&p); size_t n, i, k = 0;
    if (!h || h[0] != 'x' || h[1] != ':') return;
    h += 2; n = strlen(h) / 2;
    str = malloc(n + 1);
    for (i = 0; i < n; i++) {
      int c = hexv(h[2 * i]) * 16 + hexv(h[2 * i + 1]);
      if (c <= 0) continue;          /* no embedded NUL: the string argument is NUL-terminated */
      str[k++] = (char)c;
    }
    str[k] = 0;
    if (k < n) { char *t = malloc(k + 1); memcpy(t, str, k + 1); free(str); str = t; }   /* keep the buffer exactly sized */
  }
  ret = do_sscanf_call(f, reg, str);
  out("{\"e\":\"sscanf\",\"fmt\":\"%s\",\"src\":\"%s\",\"str\":", fmt_name[f], last ? "last" : "lit");
  out_jstr(str);
  out(",\"ret\":%d,\"res\":", ret); out_ranges(reg); out("}"); out_end();
  free(str);
}

static void handler(char **lines, size_t n, int beh) {
  size_t i;
  for (i = 0; i < n; i++) {
    char *p = lines[i]; char *cmd = hwv_tok(&p);
    if (!cmd) continue;
    if (!strcmp(cmd, "reset")) do_reset(beh);
    else if (!strcmp(cmd, "set")) do_set(p);
    else if (!strcmp(cmd, "asprintf")) do_asprintf(p);
    else if (!strcmp(cmd, "snprintf")) do_snprintf(p, 0);
    else if (!strcmp(cmd, "snprintf0")) do_snprintf(p, 1);
    else if (!strcmp(cmd, "sscanf")) do_sscanf(p, 0);
    else if (!strcmp(cmd, "reparse")) do_sscanf(p, 1);
  }
}

int main(int argc, char **argv) {
  if (argc < 3) { fprintf(stderr, "usage: hwv_bitmapstr <behaviours> <trace.ndjson>\n"); return 2; }
  return hwv_run(argv[1], argv[2], handler);
}
