/* hwv_topo: recorder for topology-level behaviours (C01, C02, C08, C12, ...).
 * No oracle logic: performs the calls, logs arguments as the library parsed
 * them, return value, errno and the projection (project.h) of every live slot.
 *
 * behaviour file (one action per line; S = slot number):
 *   reset <nslots>
 *   env NAME VALUE|-                     setenv / unsetenv (before init)
 *   init S | destroy S | load S | refresh S | observe S
 *   synthetic S <description ...>        xml S <path>      xmlbuffer S <path>
 *   flags S <word>                       filter S <type|-1 all|-2 cache|-3 icache|-4 io> <filter>
 *   restrict S <flags> <c|n> <list|none>
 *   insert_misc S <parent gp> <name>
 *   group S <cpuset|-> <nodeset|-> <kind> <subkind> <dont_merge>     alloc + fill + insert
 *   group_free S                                                    alloc + free
 *   group_obj S <gp> <kind> <dont_merge>                            alloc + add_other_obj_sets(obj) + insert
 *   allow S <flags> <cpuset|-> <nodeset|->
 *   add_info S <gp> <name> <value>       set_subtype S <gp> <text|->
 *   dup SRC DST
 */
#include "project_stores.h"
#include <sched.h>
#include <hwloc.h>
#include <hwloc/export.h>
#include <hwloc/distances.h>
#include <hwloc/memattrs.h>
#include <hwloc/cpukinds.h>

#define MAXSLOT 4
static hwloc_topology_t topo[MAXSLOT]; static int loaded[MAXSLOT]; static int nslots = 1;

static hwloc_obj_t find_gp(hwloc_topology_t t, unsigned long gp) {
  struct prj P; unsigned i; hwloc_obj_t r = NULL;
  prj_init(&P, t);
  for (i = 0; i < P.n; i++) if ((P.objs[i]->gp_index & 0x7fffffff) == gp) { r = P.objs[i]; break; }
  prj_fini(&P);
  return r;
}
static int opt_xmldigest, opt_stores, opt_udspecial;
/* names of the distances structures and memory attributes a behaviour adds: numbered per topology; a copy goes on where its original was,
 * so that the same call made on both gives both the same name */
static int dcounter[8], acounter[8];
/* option stores 2 (lazy): the distances / memattrs / cpukinds queries of the projection refresh caches inside the library, which would
 * hide an exporter that forgets to; they only start with the first xml_export event (logged after the export call itself) */
static int xml_seen;
/* userdata deliveries made by the export callback / received by the import callback */
struct deliv { unsigned long gp; char name[32]; int hasname; unsigned char data[64]; size_t len; };
static struct deliv *dv; static unsigned ndv, capdv; static int dv_fail;
static void dv_add(unsigned long gp, const char *name, const void *buf, size_t len) {
  if (ndv == capdv) { capdv = capdv ? capdv * 2 : 256; dv = realloc(dv, capdv * sizeof *dv); }
  dv[ndv].gp = gp; dv[ndv].hasname = name != NULL; snprintf(dv[ndv].name, sizeof dv[ndv].name, "%s", name ? name : "");
  dv[ndv].len = len; memcpy(dv[ndv].data, buf, len < 64 ? len : 64); ndv++;
}
static void out_dv(void) {
  unsigned i; size_t k;
  out("[");
  for (i = 0; i < ndv; i++) {
    out("%s[%lu,", i ? "," : "", dv[i].gp); if (dv[i].hasname) { out("["); out_jstr(dv[i].name); out("]"); } else out("[]");
    out(",%zu,[", dv[i].len); for (k = 0; k < dv[i].len && k < 64; k++) out("%s%u", k ? "," : "", dv[i].data[k]); out("]]");
  }
  out("]");
}
/* what is exported per object is a fixed function of its gp_index (the specification only compares export and import lists) */
static void export_cb(void *reserved, hwloc_topology_t t, hwloc_obj_t obj) {
  unsigned long gp = (unsigned long)(obj->gp_index & 0x7fffffff); char txt[32]; unsigned char bin[8]; size_t n, i;
  if (opt_udspecial) snprintf(txt, sizeof txt, "gp<%lu>&\"'", gp);     /* XML-special characters in the content */
  else snprintf(txt, sizeof txt, "gp-%lu-tag", gp);
  if (hwloc_export_obj_userdata(reserved, t, obj, "tag", txt, strlen(txt)) < 0) dv_fail++; else dv_add(gp, "tag", txt, strlen(txt));
  if (gp % 2 == 0) { n = gp % 8; for (i = 0; i < n; i++) bin[i] = (unsigned char)(gp * 37 + i * 101);
    if (hwloc_export_obj_userdata_base64(reserved, t, obj, "b64", bin, n) < 0) dv_fail++; else dv_add(gp, "b64", bin, n); }
  if (gp % 5 == 0) { if (hwloc_export_obj_userdata(reserved, t, obj, NULL, "", 0) < 0) dv_fail++; else dv_add(gp, NULL, "", 0); }
}
static void import_cb(hwloc_topology_t t, hwloc_obj_t obj, const char *name, const void *buffer, size_t length) {
  (void)t; dv_add((unsigned long)(obj->gp_index & 0x7fffffff), name, buffer, length);
}
/* FNV-1a digest of the XML export of a topology, as 4 limbs (the specification only compares digests) */
static void out_xmldigest(hwloc_topology_t t) {
  char *buf = NULL; int len = 0; uint64_t h = 1469598103934665603ULL; int i;
  if (hwloc_topology_export_xmlbuffer(t, &buf, &len, 0) < 0 || !buf) { out("[-1,0,0,0,0]"); return; }
  for (i = 0; i < len; i++) { h ^= (unsigned char)buf[i]; h *= 1099511628211ULL; }
  out("[%d,%u,%u,%u,%u]", len, (unsigned)(h & 0xffff), (unsigned)((h >> 16) & 0xffff), (unsigned)((h >> 32) & 0xffff), (unsigned)((h >> 48) & 0xffff));
  hwloc_free_xmlbuffer(t, buf);
}
static void tag_userdata(hwloc_topology_t t) {
  struct prj P; unsigned i;
  prj_init(&P, t);
  for (i = 0; i < P.n; i++) if (!P.objs[i]->userdata) P.objs[i]->userdata = (void *)(uintptr_t)(P.objs[i]->gp_index & 0x7fffffff);
  prj_fini(&P);
}
/* %XX escapes in text arguments (tab, newline, space, non-ASCII bytes cannot be written in the line-based behaviour format) */
static char *pct(char *s) {
  char *r = s, *w = s;
  if (!s) return s;
  while (*r) {
    if (r[0] == '%' && r[1] && r[2]) { char h[3] = { r[1], r[2], 0 }; *w++ = (char)strtol(h, NULL, 16); r += 3; }
    else *w++ = *r++;
  }
  *w = 0;
  return s;
}
static hwloc_bitmap_t parse_set(const char *s) {
  hwloc_bitmap_t b;
  if (!s || !strcmp(s, "-")) return NULL;
  b = hwloc_bitmap_alloc();
  if (strcmp(s, "none")) hwloc_bitmap_list_sscanf(b, s);
  return b;
}
/* "topos":[...] projection of every slot, then userdata tagging of new objects */
static void out_topos(void) {
  int s;
  out(",\"topos\":[");
  for (s = 0; s < nslots; s++) {
    if (s) out(",");
    if (topo[s] && loaded[s]) {
      project_topology(topo[s], 1);
      hwv_len--; out(",\"xd\":");                                 /* reopen the projection record */
      if (opt_xmldigest) out_xmldigest(topo[s]); else out("[0,0,0,0,0]");
      { int st = opt_stores == 1 || (opt_stores == 2 && xml_seen);
        out(",\"hasst\":%d,\"stores\":", st); if (st) project_stores(topo[s]); else out("0"); }
      out("}");
    }
    else out("{\"n\":0,\"live\":%d}", topo[s] ? 1 : 0);
  }
  out("]");
  for (s = 0; s < nslots; s++) if (topo[s] && loaded[s]) tag_userdata(topo[s]);
}
/* the text of the command after its slot: two events with the same name and the same args are the same call on two topologies */
static char argline[8192];
/* the CPU binding of this process as range list (what hwloc_get_cpubind() reads when a topology claims to be this system) */
static cpu_set_t orig_aff; static int have_orig_aff;
static void out_affinity(void) {
  cpu_set_t m; int i, lo = -1, first = 1;
  out("[");
  if (!sched_getaffinity(0, sizeof m, &m))
    for (i = 0; i <= CPU_SETSIZE; i++) {
      int on = i < CPU_SETSIZE && CPU_ISSET(i, &m);
      if (on && lo < 0) lo = i;
      if (!on && lo >= 0) { out("%s[%d,%d]", first ? "" : ",", lo, i - 1); first = 0; lo = -1; }
    }
  out("]");
}
static void ev_begin(const char *e, int s) { out("{\"e\":\"%s\",\"slot\":%d,\"args\":", e, s); out_jstr(argline); }
static void ev_end(int ret, int err) { out(",\"ret\":%d,\"errno\":\"%s\"", ret, errname(err)); out_topos(); out("}"); out_end(); }

static void do_reset(char *p, int beh) {
  int s;
  for (s = 0; s < MAXSLOT; s++) { if (topo[s]) hwloc_topology_destroy(topo[s]); topo[s] = NULL; loaded[s] = 0; }
  nslots = (int)hwv_tokl(&p); if (nslots < 1) nslots = 1; if (nslots > MAXSLOT) nslots = MAXSLOT;
  opt_xmldigest = 0; opt_stores = 0; opt_udspecial = 0; xml_seen = 0;
  memset(dcounter, 0, sizeof dcounter); memset(acounter, 0, sizeof acounter);
  if (!have_orig_aff) { have_orig_aff = !sched_getaffinity(0, sizeof orig_aff, &orig_aff); } else sched_setaffinity(0, sizeof orig_aff, &orig_aff);
  unsetenv("HWLOC_FSROOT"); unsetenv("HWLOC_CPUID_PATH"); unsetenv("HWLOC_COMPONENTS"); unsetenv("HWLOC_XMLFILE"); unsetenv("HWLOC_SYNTHETIC");
  /* HWLOC_LIBXML_IMPORT / HWLOC_LIBXML_EXPORT are decided once per process by the library and are given by the caller: kept */
  unsetenv("HWLOC_THISSYSTEM"); unsetenv("HWLOC_DUMPED_HWDATA_DIR"); unsetenv("HWLOC_X86_TOPOEXT_NUMANODES"); unsetenv("HWLOC_THISSYSTEM_ALLOWED_RESOURCES"); unsetenv("HWLOC_XML_EXPORT_SUPPORT");
  out("{\"e\":\"Reset\",\"beh\":%d,\"nslots\":%d}", beh, nslots); out_end();
}

static void handler(char **lines, size_t n, int beh) {
  size_t i;
  for (i = 0; i < n; i++) {
    char *p = lines[i]; char *cmd = hwv_tok(&p); int s, ret = 0, err = 0;
    if (!cmd) continue;
    if (!strcmp(cmd, "reset")) { do_reset(p, beh); continue; }
    if (!strcmp(cmd, "option")) {
      char *name = hwv_tok(&p); int v = (int)hwv_tokl(&p);
      if (name && !strcmp(name, "xmldigest")) opt_xmldigest = v;
      if (name && !strcmp(name, "stores")) opt_stores = v;
      if (name && !strcmp(name, "udspecial")) opt_udspecial = v;
      if (name && !strcmp(name, "namebase")) { int q; for (q = 0; q < MAXSLOT; q++) dcounter[q] = acounter[q] = v; }   /* first number used in generated names */
      continue;
    }
    if (!strcmp(cmd, "env")) {
      char *name = hwv_tok(&p); while (*p == ' ') p++;
      if (!strcmp(p, "-")) unsetenv(name); else setenv(name, p, 1);
      out("{\"e\":\"env\",\"name\":"); out_jstr(name); out(",\"value\":"); out_jstr(p); out("}"); out_end();
      continue;
    }
    s = (int)hwv_tokl(&p);
    if (s < 0 || s >= nslots) continue;
    snprintf(argline, sizeof argline, "%s", p);
    errno = 0;
    if (!strcmp(cmd, "init")) {
      if (topo[s]) continue;
      ret = hwloc_topology_init(&topo[s]); err = errno; loaded[s] = 0;
      ev_begin("init", s); ev_end(ret, err);
    } else if (!strcmp(cmd, "destroy")) {
      if (!topo[s]) continue;
      hwloc_topology_destroy(topo[s]); topo[s] = NULL; loaded[s] = 0;
      ev_begin("destroy", s); ev_end(0, 0);
    } else if (!strcmp(cmd, "xml_import")) {
      /* xml_import DST <buffer|file> <path> <topology flags> <userdata 0|1> <keepall 0|1> : init + set source + configure + load */
      char *mode = hwv_tok(&p), *path = hwv_tok(&p); unsigned long fl = (unsigned long)hwv_tokl(&p); int ud = (int)hwv_tokl(&p), keepall = (int)hwv_tokl(&p);
      int r1 = -1, r2 = -1, r3 = -1; char *buf = NULL; long len = 0;
      if (topo[s]) continue;
      ndv = 0;
      hwloc_topology_init(&topo[s]); loaded[s] = 0;
      { int q; for (q = 0; q < MAXSLOT; q++) { if (dcounter[q] > dcounter[s]) dcounter[s] = dcounter[q]; if (acounter[q] > acounter[s]) acounter[s] = acounter[q]; } }   /* names stay unique in what is imported */
      if (mode && !strcmp(mode, "buffer")) {
        FILE *f = fopen(path, "rb");
        if (f) { fseek(f, 0, SEEK_END); len = ftell(f); fseek(f, 0, SEEK_SET); buf = malloc((size_t)len + 1); if (fread(buf, 1, (size_t)len, f) != (size_t)len) len = 0; buf[len] = 0; fclose(f); }
        r1 = hwloc_topology_set_xmlbuffer(topo[s], buf ? buf : "", (int)len + 1); err = errno;
      } else { r1 = hwloc_topology_set_xml(topo[s], path); err = errno; }
      if (!r1) {
        r2 = hwloc_topology_set_flags(topo[s], fl);
        if (keepall) hwloc_topology_set_all_types_filter(topo[s], HWLOC_TYPE_FILTER_KEEP_ALL);
        if (ud) hwloc_topology_set_userdata_import_callback(topo[s], import_cb);
        errno = 0;
        r3 = hwloc_topology_load(topo[s]); err = errno;
      }
      free(buf);
      if (!r3) loaded[s] = 1;
      ev_begin("xml_import", s); out(",\"mode\":\"%s\",\"path\":", mode ? mode : ""); out_jstr(path);
      out(",\"flags\":%lu,\"ud\":%d,\"keepall\":%d,\"set\":%d,\"setflags\":%d,\"load\":%d,\"deliv\":", fl, ud, keepall, r1, r2, r3); out_dv();
      ev_end(!r1 && !r3 ? 0 : -1, err);
      if (r3) { hwloc_topology_destroy(topo[s]); topo[s] = NULL; loaded[s] = 0; }
    } else if (!topo[s]) {
      continue;
    } else if (!strcmp(cmd, "synthetic")) {
      while (*p == ' ') p++;
      ret = hwloc_topology_set_synthetic(topo[s], p); err = errno;
      ev_begin("synthetic", s); out(",\"desc\":"); out_jstr(p); ev_end(ret, err);
    } else if (!strcmp(cmd, "xml")) {
      char *path = hwv_tok(&p);
      ret = hwloc_topology_set_xml(topo[s], path); err = errno;
      ev_begin("xml", s); out(",\"path\":"); out_jstr(path); ev_end(ret, err);
    } else if (!strcmp(cmd, "xmlbuffer")) {
      char *path = hwv_tok(&p); FILE *f = fopen(path, "rb"); char *buf = NULL; long len = 0;
      if (f) { fseek(f, 0, SEEK_END); len = ftell(f); fseek(f, 0, SEEK_SET); buf = malloc((size_t)len + 1); if (fread(buf, 1, (size_t)len, f) != (size_t)len) len = 0; buf[len] = 0; fclose(f); }
      ret = hwloc_topology_set_xmlbuffer(topo[s], buf ? buf : "", (int)len + 1); err = errno;
      free(buf);
      ev_begin("xmlbuffer", s); out(",\"path\":"); out_jstr(path); ev_end(ret, err);
    } else if (!strcmp(cmd, "flags")) {
      unsigned long fl = (unsigned long)hwv_tokl(&p);
      ret = hwloc_topology_set_flags(topo[s], fl); err = errno;
      ev_begin("flags", s); out(",\"flags\":%lu", fl); ev_end(ret, err);
    } else if (!strcmp(cmd, "filter")) {
      int ty = (int)hwv_tokl(&p), f = (int)hwv_tokl(&p);
      if (ty == -1) ret = hwloc_topology_set_all_types_filter(topo[s], (enum hwloc_type_filter_e)f);
      else if (ty == -2) ret = hwloc_topology_set_cache_types_filter(topo[s], (enum hwloc_type_filter_e)f);
      else if (ty == -3) ret = hwloc_topology_set_icache_types_filter(topo[s], (enum hwloc_type_filter_e)f);
      else if (ty == -4) ret = hwloc_topology_set_io_types_filter(topo[s], (enum hwloc_type_filter_e)f);
      else ret = hwloc_topology_set_type_filter(topo[s], (hwloc_obj_type_t)ty, (enum hwloc_type_filter_e)f);
      err = errno;
      { int k; out("{\"e\":\"filter\",\"slot\":%d,\"type\":%d,\"filter\":%d,\"now\":[", s, ty, f);
        for (k = 0; k < HWLOC_OBJ_TYPE_MAX; k++) { enum hwloc_type_filter_e g = 0; hwloc_topology_get_type_filter(topo[s], (hwloc_obj_type_t)k, &g); out("%s%d", k ? "," : "", (int)g); }
        out("]"); }
      ev_end(ret, err);
    } else if (!strcmp(cmd, "bind")) {
      /* bind S <cpu list|all> : the CPU binding of the process (sched_setaffinity), as a caller of RESTRICT_TO_CPUBINDING would have set it */
      char *cs = hwv_tok(&p); cpu_set_t m; int i;
      if (cs && strcmp(cs, "all")) { hwloc_bitmap_t b = parse_set(cs); CPU_ZERO(&m); hwloc_bitmap_foreach_begin(i, b) if (i < CPU_SETSIZE) CPU_SET(i, &m); hwloc_bitmap_foreach_end(); hwloc_bitmap_free(b); }
      else m = orig_aff;
      ret = sched_setaffinity(0, sizeof m, &m); err = errno;
      ev_begin("bind", s); out(",\"cpus\":"); out_affinity(); ev_end(ret, err);
    } else if (!strcmp(cmd, "load")) {
      if (loaded[s]) continue;
      ret = hwloc_topology_load(topo[s]); err = errno;
      if (!ret) loaded[s] = 1; else loaded[s] = 0;
      ev_begin("load", s); out(",\"binding\":"); out_affinity(); ev_end(ret, err);
      if (ret) { hwloc_topology_destroy(topo[s]); topo[s] = NULL; }   /* a failed load leaves a topology that can only be destroyed here */
    } else if (!loaded[s]) {
      continue;
    } else if (!strcmp(cmd, "observe")) {
      ev_begin("observe", s); ev_end(0, 0);
    } else if (!strcmp(cmd, "export_xml")) {
      char *path = hwv_tok(&p); unsigned long fl = (unsigned long)hwv_tokl(&p);
      ret = hwloc_topology_export_xml(topo[s], path, fl); err = errno;
      ev_begin("export_xml", s); out(",\"path\":"); out_jstr(path); out(",\"flags\":%lu", fl); ev_end(ret, err);
    } else if (!strcmp(cmd, "xml_export")) {
      /* xml_export S <buffer|file> <path> <flags> <userdata 0|1> : the bytes always end up in <path> */
      char *mode = hwv_tok(&p), *path = hwv_tok(&p); unsigned long fl = (unsigned long)hwv_tokl(&p); int ud = (int)hwv_tokl(&p);
      char *buf = NULL; int len = 0; uint64_t h = 1469598103934665603ULL; long flen = -1; int i2;
      ndv = 0; dv_fail = 0;
      hwloc_topology_set_userdata_export_callback(topo[s], ud ? export_cb : NULL);
      if (mode && !strcmp(mode, "buffer")) {
        ret = hwloc_topology_export_xmlbuffer(topo[s], &buf, &len, fl); err = errno;
        if (!ret && buf) { FILE *f = fopen(path, "wb"); if (f) { fwrite(buf, 1, (size_t)len > 0 ? (size_t)len - 1 : 0, f); fclose(f); } }   /* len includes the ending \0 */
        if (buf) hwloc_free_xmlbuffer(topo[s], buf);
      } else { ret = hwloc_topology_export_xml(topo[s], path, fl); err = errno; }
      hwloc_topology_set_userdata_export_callback(topo[s], NULL);
      { FILE *f = fopen(path, "rb"); if (f) { int c; flen = 0; while ((c = fgetc(f)) != EOF) { h ^= (unsigned char)c; h *= 1099511628211ULL; flen++; } fclose(f); } }
      (void)i2; xml_seen = 1;
      ev_begin("xml_export", s); out(",\"mode\":\"%s\",\"path\":", mode ? mode : ""); out_jstr(path);
      out(",\"flags\":%lu,\"ud\":%d,\"len\":%ld,\"digest\":[%u,%u,%u,%u],\"cbfail\":%d,\"deliv\":", fl, ud, flen,
          (unsigned)(h & 0xffff), (unsigned)((h >> 16) & 0xffff), (unsigned)((h >> 32) & 0xffff), (unsigned)((h >> 48) & 0xffff), dv_fail);
      out_dv(); ev_end(ret, err);
    } else if (!strcmp(cmd, "refresh")) {
      ret = hwloc_topology_refresh(topo[s]); err = errno;
      ev_begin("refresh", s); ev_end(ret, err);
    } else if (!strcmp(cmd, "restrict")) {
      unsigned long fl = (unsigned long)hwv_tokl(&p); char *kind = hwv_tok(&p); char *ss = hwv_tok(&p);
      hwloc_bitmap_t set = parse_set(ss ? ss : "none");
      ret = hwloc_topology_restrict(topo[s], set, fl); err = errno;
      ev_begin("restrict", s); out(",\"flags\":%lu,\"kind\":\"%s\",\"set\":", fl, kind ? kind : "c"); out_set(set); ev_end(ret, err);
      hwloc_bitmap_free(set);
    } else if (!strcmp(cmd, "insert_misc")) {
      unsigned long gp = (unsigned long)hwv_tokl(&p); char *name = pct(hwv_tok(&p));
      hwloc_obj_t parent = find_gp(topo[s], gp), o = NULL;
      if (!parent) continue;
      o = hwloc_topology_insert_misc_object(topo[s], parent, name); err = errno;
      ev_begin("insert_misc", s); out(",\"parent\":%lu,\"name\":", gp); out_jstr(name); out(",\"obj\":%lu", o ? (unsigned long)(o->gp_index & 0x7fffffff) : 0UL); ev_end(o ? 0 : -1, o ? 0 : err);
    } else if (!strcmp(cmd, "group")) {
      char *cs = hwv_tok(&p), *ns = hwv_tok(&p); unsigned kind = (unsigned)hwv_tokl(&p), subkind = (unsigned)hwv_tokl(&p); int dm = (int)hwv_tokl(&p);
      hwloc_obj_t g = hwloc_topology_alloc_group_object(topo[s]), o = NULL; int aerr = errno;
      hwloc_bitmap_t c = parse_set(cs), nn = parse_set(ns);
      if (g) {
        if (c) g->cpuset = hwloc_bitmap_dup(c);
        if (nn) g->nodeset = hwloc_bitmap_dup(nn);
        g->attr->group.kind = kind; g->attr->group.subkind = subkind; g->attr->group.dont_merge = (unsigned char)dm;
        errno = 0;
        o = hwloc_topology_insert_group_object(topo[s], g); err = errno;
      } else err = aerr;
      ev_begin("group", s); out(",\"alloc\":%d,\"hascs\":%d,\"hasns\":%d,\"cs\":", g ? 1 : 0, c ? 1 : 0, nn ? 1 : 0); out_set(c); out(",\"ns\":"); out_set(nn);
      out(",\"kind\":%u,\"subkind\":%u,\"dont_merge\":%d,\"obj\":%lu,\"same\":%d", kind & 0x7fffffff, subkind & 0x7fffffff, dm, o ? (unsigned long)(o->gp_index & 0x7fffffff) : 0UL, o == g);
      ev_end(o ? 0 : -1, o ? 0 : err);
      hwloc_bitmap_free(c); hwloc_bitmap_free(nn);
    } else if (!strcmp(cmd, "group_obj")) {
      unsigned long gp = (unsigned long)hwv_tokl(&p); unsigned kind = (unsigned)hwv_tokl(&p); int dm = (int)hwv_tokl(&p);
      hwloc_obj_t src = find_gp(topo[s], gp), g, o = NULL; int r2 = -1;
      if (!src) continue;
      g = hwloc_topology_alloc_group_object(topo[s]); err = errno;
      if (g) {
        r2 = hwloc_obj_add_other_obj_sets(g, src);
        g->attr->group.kind = kind; g->attr->group.dont_merge = (unsigned char)dm;
        errno = 0;
        o = hwloc_topology_insert_group_object(topo[s], g); err = errno;
      }
      ev_begin("group_obj", s); out(",\"alloc\":%d,\"src\":%lu,\"addsets\":%d,\"kind\":%u,\"dont_merge\":%d,\"obj\":%lu,\"same\":%d", g ? 1 : 0, gp, r2, kind & 0x7fffffff, dm,
                                   o ? (unsigned long)(o->gp_index & 0x7fffffff) : 0UL, o == g);
      ev_end(o ? 0 : -1, o ? 0 : err);
    } else if (!strcmp(cmd, "group_free")) {
      hwloc_obj_t g = hwloc_topology_alloc_group_object(topo[s]); err = errno;
      if (g) ret = hwloc_topology_free_group_object(topo[s], g), err = errno;
      ev_begin("group_free", s); out(",\"alloc\":%d", g ? 1 : 0); ev_end(g ? ret : -1, err);
    } else if (!strcmp(cmd, "allow")) {
      unsigned long fl = (unsigned long)hwv_tokl(&p); char *cs = hwv_tok(&p), *ns = hwv_tok(&p);
      hwloc_bitmap_t c = parse_set(cs), nn = parse_set(ns);
      ret = hwloc_topology_allow(topo[s], c, nn, fl); err = errno;
      ev_begin("allow", s); out(",\"flags\":%lu,\"hascs\":%d,\"hasns\":%d,\"cs\":", fl, c ? 1 : 0, nn ? 1 : 0); out_set(c); out(",\"ns\":"); out_set(nn); ev_end(ret, err);
      hwloc_bitmap_free(c); hwloc_bitmap_free(nn);
    } else if (!strcmp(cmd, "add_info")) {
      unsigned long gp = (unsigned long)hwv_tokl(&p); char *name = pct(hwv_tok(&p)), *val = pct(hwv_tok(&p));
      hwloc_obj_t o = find_gp(topo[s], gp);
      if (!o) continue;
      ret = hwloc_obj_add_info(o, name, val ? val : ""); err = errno;
      ev_begin("add_info", s); out(",\"obj\":%lu,\"name\":", gp); out_jstr(name); out(",\"value\":"); out_jstr(val ? val : ""); ev_end(ret, err);
    } else if (!strcmp(cmd, "set_subtype")) {
      unsigned long gp = (unsigned long)hwv_tokl(&p); char *st = pct(hwv_tok(&p));
      hwloc_obj_t o = find_gp(topo[s], gp);
      if (!o) continue;
      ret = hwloc_obj_set_subtype(topo[s], o, st && strcmp(st, "-") ? st : NULL); err = errno;
      ev_begin("set_subtype", s); out(",\"obj\":%lu,\"st\":", gp); out_optstr(st && strcmp(st, "-") ? st : NULL); ev_end(ret, err);
    } else if (!strcmp(cmd, "dist_add")) {
      /* dist_add S <kind> <addflags> <n> gp1..gpn v11..vnn : create + values + commit */
      unsigned long kind = (unsigned long)hwv_tokl(&p), afl = (unsigned long)hwv_tokl(&p); unsigned nb = (unsigned)hwv_tokl(&p), k;
      hwloc_obj_t objs[16]; hwloc_uint64_t vals[256]; unsigned long gps[16]; int r1 = -1, r2 = -1; hwloc_distances_add_handle_t h; char dname[32];
      if (nb > 16) nb = 16;
      for (k = 0; k < nb; k++) { gps[k] = (unsigned long)hwv_tokl(&p); objs[k] = find_gp(topo[s], gps[k]); }
      for (k = 0; k < nb * nb; k++) vals[k] = (hwloc_uint64_t)hwv_tokl(&p);
      for (k = 0; k < nb; k++) if (!objs[k]) break;
      if (k < nb) continue;
      errno = 0;
      { char *given = hwv_tok(&p);            /* optional last argument: the name of the structure (else: numbered per topology) */
        if (given) snprintf(dname, sizeof dname, "%s", given); else snprintf(dname, sizeof dname, "hwv%d", dcounter[s]++); }
      h = hwloc_distances_add_create(topo[s], dname, kind, 0); err = errno;
      if (h) { r1 = hwloc_distances_add_values(topo[s], h, nb, objs, vals, 0); err = errno;
               if (!r1) { r2 = hwloc_distances_add_commit(topo[s], h, afl); err = errno; } }
      ev_begin("dist_add", s); out(",\"kind\":%lu,\"addflags\":%lu,\"nb\":%u,\"create\":%d,\"values\":%d,\"commit\":%d", kind, afl, nb, h ? 0 : -1, r1, r2);
      out(",\"name\":"); out_jstr(dname); out(",\"objs\":["); for (k = 0; k < nb; k++) out("%s%lu", k ? "," : "", gps[k]); out("]");
      ev_end(h && !r1 && !r2 ? 0 : -1, err);
    } else if (!strcmp(cmd, "dist_remove")) {
      ret = hwloc_distances_remove(topo[s]); err = errno;
      ev_begin("dist_remove", s); ev_end(ret, err);
    } else if (!strcmp(cmd, "dist_remove_one")) {
      /* dist_remove_one S <k> : the k-th structure (modulo their number) that hwloc_distances_get() returns is removed through its handle */
      unsigned k = (unsigned)hwv_tokl(&p), nr = 0, i; struct hwloc_distances_s *ds[64]; char nm[64] = "";
      ret = -1; err = 0;
      nr = 64;
      if (!hwloc_distances_get(topo[s], &nr, ds, 0, 0) && nr) {
        const char *n;
        if (nr > 64) nr = 64;
        k %= nr;
        n = hwloc_distances_get_name(topo[s], ds[k]); snprintf(nm, sizeof nm, "%s", n ? n : "");
        for (i = 0; i < nr; i++) if (i != k) hwloc_distances_release(topo[s], ds[i]);
        errno = 0; ret = hwloc_distances_release_remove(topo[s], ds[k]); err = errno;
      } else nr = 0;
      ev_begin("dist_remove_one", s); out(",\"k\":%u,\"nr\":%u,\"name\":", k, nr); out_jstr(nm); ev_end(ret, err);
    } else if (!strcmp(cmd, "memattr")) {
      /* memattr S <flags> <target gp> <value> : register a fresh attribute, set one value without initiator */
      unsigned long fl = (unsigned long)hwv_tokl(&p), gp = (unsigned long)hwv_tokl(&p); hwloc_uint64_t v = (hwloc_uint64_t)hwv_tokl(&p);
      char name[32]; hwloc_memattr_id_t id = 0; int r1, r2 = -1; hwloc_obj_t tg = find_gp(topo[s], gp);
      if (!tg) continue;
      { char *given = hwv_tok(&p);              /* optional last argument: the attribute name (else: numbered per topology) */
        if (given) snprintf(name, sizeof name, "%s", given); else snprintf(name, sizeof name, "hwvattr%d", acounter[s]++); }
      errno = 0;
      r1 = hwloc_memattr_register(topo[s], name, fl, &id); err = errno;
      if (!r1 && !(fl & HWLOC_MEMATTR_FLAG_NEED_INITIATOR)) { r2 = hwloc_memattr_set_value(topo[s], id, tg, NULL, 0, v); err = errno; }
      else if (!r1) {
        /* an attribute with initiators: values from the first three Cores (object initiators, in order) and from the cpuset of the last PU */
        unsigned k, nc = hwloc_get_nbobjs_by_type(topo[s], HWLOC_OBJ_CORE), np = hwloc_get_nbobjs_by_type(topo[s], HWLOC_OBJ_PU); struct hwloc_location loc;
        r2 = 0;
        for (k = 0; k < 3 && k < nc; k++) { loc.type = HWLOC_LOCATION_TYPE_OBJECT; loc.location.object = hwloc_get_obj_by_type(topo[s], HWLOC_OBJ_CORE, k);
          if (hwloc_memattr_set_value(topo[s], id, tg, &loc, 0, v + k) < 0) { r2 = -1; err = errno; } }
        if (np) { loc.type = HWLOC_LOCATION_TYPE_CPUSET; loc.location.cpuset = hwloc_get_obj_by_type(topo[s], HWLOC_OBJ_PU, np - 1)->cpuset;
          if (hwloc_memattr_set_value(topo[s], id, tg, &loc, 0, v + 7) < 0) { r2 = -1; err = errno; } }
      }
      ev_begin("memattr", s); out(",\"flags\":%lu,\"target\":%lu,\"register\":%d,\"set\":%d", fl, gp, r1, r2); ev_end(!r1 && !r2 ? 0 : -1, err);
    } else if (!strcmp(cmd, "cpukind")) {
      char *cs = hwv_tok(&p); int eff = (int)hwv_tokl(&p); int inf = (int)hwv_tokl(&p); hwloc_bitmap_t c = parse_set(cs);
      struct hwloc_info_s pair; struct hwloc_infos_s infos; char val[24];
      snprintf(val, sizeof val, "e%d", eff); pair.name = (char *)"hwvkind"; pair.value = val;
      infos.array = &pair; infos.count = 1; infos.allocated = 1;
      ret = hwloc_cpukinds_register(topo[s], c, eff, inf ? &infos : NULL, 0); err = errno;
      ev_begin("cpukind", s); out(",\"cs\":"); out_set(c); out(",\"eff\":%d,\"inf\":%d", eff, inf); ev_end(ret, err);
      hwloc_bitmap_free(c);
    } else if (!strcmp(cmd, "cpukind_info")) {
      /* the infos of a CPU kind are edited in place, as hwloc-annotate does: mode 0 removes all pairs, mode 1 adds one */
      unsigned k = (unsigned)hwv_tokl(&p); int mode = (int)hwv_tokl(&p); struct hwloc_infos_s *ip = NULL; int got;
      got = hwloc_cpukinds_get_info(topo[s], k, NULL, NULL, &ip, 0); err = errno; ret = -1;
      if (!got && ip) { ret = mode ? hwloc_modify_infos(ip, HWLOC_MODIFY_INFOS_OP_ADD, "hwvadded", "x") : hwloc_modify_infos(ip, HWLOC_MODIFY_INFOS_OP_REMOVE, NULL, NULL); err = errno; }
      ev_begin("cpukind_info", s); out(",\"kind\":%u,\"mode\":%d,\"got\":%d", k, mode, got); ev_end(ret, err);
    } else if (!strcmp(cmd, "dup")) {
      int d = (int)hwv_tokl(&p);
      if (d < 0 || d >= nslots || topo[d]) continue;
      ret = hwloc_topology_dup(&topo[d], topo[s]); err = errno;
      if (!ret) loaded[d] = 1; else topo[d] = NULL;
      dcounter[d] = dcounter[s]; acounter[d] = acounter[s];
      ev_begin("dup", s); out(",\"dst\":%d", d); ev_end(ret, err);
    }
  }
}

int main(int argc, char **argv) {
  if (argc < 3) { fprintf(stderr, "usage: hwv_topo <behaviours> <trace.ndjson>\n"); return 2; }
  return hwv_run(argv[1], argv[2], handler);
}
