/* hwv_diff: recorder for the topology-diff API (C16).  No oracle logic.
 *
 * usage: hwv_diff <behaviours> <trace.ndjson> [behaviour-index-offset]
 *
 * behaviour file (one command per line, tokens separated by blanks):
 *   reset <unit>                         memory sizes are given/logged in multiples of <unit> bytes
 *   !<command>                           perform the command without writing an event (set-up of the initial topology)
 *   snap <s>                             event with the projection of topology slot s (end of the set-up)
 *   load <s> <str>                       topology slot s := synthetic topology <str>, one unit of memory in each NUMA node
 *   dup <dst> <src>                      hwloc_topology_dup
 *   setname <s> <d> <i> <str>            obj->name = strdup(str) (or NULL), as tests/hwloc/hwloc_topology_diff.c edits fields
 *   addinfo <s> <d> <i> <str n> <str v>  hwloc_obj_add_info / hwloc_modify_infos(ADD) for topology infos (d = topology depth)
 *   setinfo <s> <d> <i> <str n> <occ> <str v>   value of the occ-th info named n := v
 *   rminfo <s> <d> <i> <str n>           hwloc_modify_infos(REMOVE, n)
 *   setmem <s> <d> <i> <q>               NUMA local_memory := q*unit, total_memory of the ancestors adjusted
 *   misc <s> <d> <i> <str>               hwloc_topology_insert_misc_object below the object
 *   restrict <s> <pu>                    hwloc_topology_restrict to everything but PU L#pu
 *   build <dd> <a> <b> <flags>           diff slot dd := hwloc_topology_diff_build(a, b, flags)
 *   mk <dd> <n> {<t> <d> <i> <str n> <str old> <str new> <qold> <qnew>}*n   hand-built list
 *                                        t in name|info|size|complex|badtype|badattr
 *   apply <s> <dd> <flags>               hwloc_topology_diff_apply
 *   xml <dd> <d2> <str ref> <buf|file>   export diff dd, load the result into slot d2
 *   free <dd>                            hwloc_topology_diff_destroy
 * strings: "-" is NULL, otherwise "=" followed by the text with %XX escapes.
 */
#include "hwv_common.h"
#include <hwloc.h>

#define NT 6
#define ND 6
static hwloc_topology_t topo[NT + 1];
static hwloc_topology_diff_t diffs[ND + 1];
static unsigned long long unit = 1;
static int beh_off;
static char tmpxml[4096];
static int quiet;                         /* commands prefixed with '!' are performed without an event */
#define END() do { if (quiet) hwv_len = hwv_commit; else out_end(); } while (0)

static int hexv(int c) { return c >= '0' && c <= '9' ? c - '0' : c >= 'a' && c <= 'f' ? c - 'a' + 10 : c >= 'A' && c <= 'F' ? c - 'A' + 10 : 0; }
/* decode a string token in place; returns NULL for "-" */
static char *dec(char *t) {
  char *r, *w;
  if (!t || !strcmp(t, "-") || t[0] != '=') return NULL;
  r = w = t + 1;
  while (*r) {
    if (*r == '%' && r[1] && r[2]) { *w++ = (char)(hexv(r[1]) * 16 + hexv(r[2])); r += 3; }
    else *w++ = *r++;
  }
  *w = 0;
  return t + 1;
}
static void out_ostr(const char *s) { if (s) { out("["); out_jstr(s); out("]"); } else out("[]"); }
static void out_u64(unsigned long long v) {
  unsigned long long q = v / unit, r = v % unit;
  if (q >= (1ULL << 30)) out("[-1,-1]");
  else if (r >= (1ULL << 30)) out("[%llu,-1]", q);
  else out("[%llu,%llu]", q, r);
}
static void out_infos(struct hwloc_infos_s *infos) {
  unsigned i;
  out("[");
  for (i = 0; i < infos->count; i++) {
    out("%s[", i ? "," : ""); out_jstr(infos->array[i].name ? infos->array[i].name : ""); out(",");
    out_jstr(infos->array[i].value ? infos->array[i].value : ""); out("]");
  }
  out("]");
}
static void out_set(hwloc_const_bitmap_t b) {
  char *s = NULL;
  if (!b) { out("~"); return; }
  hwloc_bitmap_list_asprintf(&s, b);
  out("%s", s ? s : "?"); free(s);
}

/* ---- projection of a topology through the public API, objects in the order of the diff traversal ---- */
static int proj_n;
static void out_obj(hwloc_topology_t t, hwloc_obj_t o, int par) {
  hwloc_obj_t c; int me = ++proj_n;
  (void)t;
  out("%s{\"d\":%d,\"i\":%u,\"gp\":%llu,\"par\":%d,\"numa\":%d,\"name\":", me > 1 ? "," : "", o->depth, o->logical_index,
      (unsigned long long)o->gp_index, par, o->type == HWLOC_OBJ_NUMANODE);
  out_ostr(o->name);
  out(",\"infos\":"); out_infos(&o->infos);
  out(",\"mem\":"); out_u64(o->type == HWLOC_OBJ_NUMANODE ? o->attr->numanode.local_memory : 0);
  out(",\"tot\":"); out_u64(o->total_memory);
  out(",\"shape\":\"%s/", hwloc_obj_type_string(o->type));
  if (o->subtype) { const char *s; for (s = o->subtype; *s; s++) out("%c", (*s >= 0x20 && *s < 0x7f && *s != '"' && *s != '\\') ? *s : '?'); }
  out("/%u/", o->os_index);
  out_set(o->cpuset); out("/"); out_set(o->complete_cpuset); out("/"); out_set(o->nodeset); out("/"); out_set(o->complete_nodeset);
  out("/%u.%u.%u.%u", o->arity, o->memory_arity, o->io_arity, o->misc_arity);
  if (o->type == HWLOC_OBJ_GROUP) out("/g%u.%u.%u.%u", o->attr->group.depth, o->attr->group.kind, o->attr->group.subkind, o->attr->group.dont_merge);
  else if (hwloc_obj_type_is_cache(o->type)) out("/c%llu.%u.%u.%d.%d", (unsigned long long)o->attr->cache.size, o->attr->cache.depth,
                                                  o->attr->cache.linesize, o->attr->cache.associativity, (int)o->attr->cache.type);
  out("\"}");
  for (c = o->first_child; c; c = c->next_sibling) out_obj(t, c, me);
  for (c = o->memory_first_child; c; c = c->next_sibling) out_obj(t, c, me);
  for (c = o->io_first_child; c; c = c->next_sibling) out_obj(t, c, me);
  for (c = o->misc_first_child; c; c = c->next_sibling) out_obj(t, c, me);
}
static void out_proj(hwloc_topology_t t) {
  unsigned nrd = 0;
  if (!t) { out("{\"depth\":-1,\"tshape\":\"none\",\"tinfos\":[],\"objs\":[]}"); return; }
  hwloc_distances_get(t, &nrd, NULL, 0, 0);
  out("{\"depth\":%d,\"tshape\":\"", hwloc_topology_get_depth(t));
  out_set(hwloc_topology_get_allowed_cpuset(t)); out("/"); out_set(hwloc_topology_get_allowed_nodeset(t));
  out("/dist%u/kinds%d\",\"tinfos\":", nrd, hwloc_cpukinds_get_nr(t, 0));
  out_infos(hwloc_topology_get_infos(t));
  out(",\"objs\":[");
  proj_n = 0;
  out_obj(t, hwloc_get_root_obj(t), 0);
  out("]}");
}

/* ---- diff lists ---- */
static void out_entries(hwloc_topology_diff_t d) {
  int n = 0;
  out("[");
  for (; d && n < 100000; d = d->generic.next, n++) {
    const char *t = "badtype"; int dep = 0; unsigned idx = 0;
    const char *nm = NULL, *so = NULL, *sn = NULL; unsigned long long uo = 0, un = 0;
    if (d->generic.type == HWLOC_TOPOLOGY_DIFF_TOO_COMPLEX) { t = "complex"; dep = d->too_complex.obj_depth; idx = d->too_complex.obj_index; }
    else if (d->generic.type == HWLOC_TOPOLOGY_DIFF_OBJ_ATTR) {
      dep = d->obj_attr.obj_depth; idx = d->obj_attr.obj_index;
      switch (d->obj_attr.diff.generic.type) {
      case HWLOC_TOPOLOGY_DIFF_OBJ_ATTR_SIZE: t = "size"; uo = d->obj_attr.diff.uint64.oldvalue; un = d->obj_attr.diff.uint64.newvalue; break;
      case HWLOC_TOPOLOGY_DIFF_OBJ_ATTR_NAME: t = "name"; so = d->obj_attr.diff.string.oldvalue; sn = d->obj_attr.diff.string.newvalue; break;
      case HWLOC_TOPOLOGY_DIFF_OBJ_ATTR_INFO: t = "info"; nm = d->obj_attr.diff.string.name; so = d->obj_attr.diff.string.oldvalue; sn = d->obj_attr.diff.string.newvalue; break;
      default: t = "badattr"; break;
      }
    }
    out("%s{\"t\":\"%s\",\"d\":%d,\"i\":%d,\"n\":", n ? "," : "", t, dep, idx < (1u << 30) ? (int)idx : -1);
    out_ostr(nm); out(",\"so\":"); out_ostr(so); out(",\"sn\":"); out_ostr(sn);
    out(",\"uo\":"); out_u64(uo); out(",\"un\":"); out_u64(un); out("}");
  }
  out("]");
}
static void free_diff(int dd) { if (diffs[dd]) hwloc_topology_diff_destroy(diffs[dd]); diffs[dd] = NULL; }

static hwloc_obj_t objat(hwloc_topology_t t, int d, int i) { return hwloc_get_obj_by_depth(t, d, (unsigned)i); }
static struct hwloc_infos_s *infosat(hwloc_topology_t t, int d, int i) {
  hwloc_obj_t o = objat(t, d, i);
  if (o) return &o->infos;
  if (d == hwloc_topology_get_depth(t)) return hwloc_topology_get_infos(t);
  return NULL;
}
static int slot_ok(int s) { return s >= 1 && s <= NT && topo[s]; }
static int dslot_ok(int d) { return d >= 1 && d <= ND; }

static void do_reset(char *p, int beh) {
  int i; char *u = hwv_tok(&p);
  for (i = 1; i <= ND; i++) free_diff(i);
  for (i = 1; i <= NT; i++) { if (topo[i]) hwloc_topology_destroy(topo[i]); topo[i] = NULL; }
  unit = u ? strtoull(u, NULL, 0) : 1; if (!unit) unit = 1;
  out("{\"e\":\"Reset\",\"beh\":%d,\"unit\":\"%llu\"}", beh + beh_off, unit); out_end();
}

static void do_load(char *p) {
  int s = (int)hwv_tokl(&p); char *desc = dec(hwv_tok(&p)); int ret = -1;
  if (s < 1 || s > NT || !desc) return;
  if (topo[s]) { hwloc_topology_destroy(topo[s]); topo[s] = NULL; }
  if (!hwloc_topology_init(&topo[s])) {
    ret = hwloc_topology_set_synthetic(topo[s], desc);
    hwloc_topology_set_type_filter(topo[s], HWLOC_OBJ_MISC, HWLOC_TYPE_FILTER_KEEP_ALL);
    if (!ret) ret = hwloc_topology_load(topo[s]);
    if (ret) { hwloc_topology_destroy(topo[s]); topo[s] = NULL; }
  }
  if (topo[s]) {
    /* every NUMA node gets one unit of local memory, total_memory recomputed (sizes stay multiples of the unit) */
    int d, nl = hwloc_topology_get_depth(topo[s]); hwloc_obj_t o, a;
    for (d = -16; d < nl; d++) for (o = hwloc_get_obj_by_depth(topo[s], d, 0); o; o = o->next_cousin) o->total_memory = 0;
    for (o = hwloc_get_obj_by_type(topo[s], HWLOC_OBJ_NUMANODE, 0); o; o = o->next_cousin) {
      o->attr->numanode.local_memory = unit;
      for (a = o; a; a = a->parent) a->total_memory += unit;
    }
  }
  out("{\"e\":\"Load\",\"s\":%d,\"desc\":", s); out_jstr(desc); out(",\"ret\":%d,\"P\":", ret); out_proj(topo[s]); out("}"); END();
}

static void do_snap(char *p) {
  int s = (int)hwv_tokl(&p);
  if (!slot_ok(s)) return;
  out("{\"e\":\"Snap\",\"s\":%d,\"P\":", s); out_proj(topo[s]); out("}"); out_end();
}

static void do_dup(char *p) {
  int dst = (int)hwv_tokl(&p), src = (int)hwv_tokl(&p), ret;
  if (dst < 1 || dst > NT || !slot_ok(src) || dst == src) return;
  if (topo[dst]) { hwloc_topology_destroy(topo[dst]); topo[dst] = NULL; }
  ret = hwloc_topology_dup(&topo[dst], topo[src]);
  if (ret) topo[dst] = NULL;
  out("{\"e\":\"Dup\",\"dst\":%d,\"src\":%d,\"ret\":%d,\"P\":", dst, src, ret); out_proj(topo[dst]);
  out(",\"PS\":"); out_proj(topo[src]); out("}"); END();
}

static void do_edit(const char *k, char *p) {
  int s = (int)hwv_tokl(&p), d, i, ret = 0, occ = 0; long x = 0;
  char *n = NULL, *v = NULL; hwloc_obj_t o; struct hwloc_infos_s *infos;
  if (!slot_ok(s)) return;
  if (!strcmp(k, "restrict")) {
    hwloc_bitmap_t set; hwloc_obj_t pu;
    x = hwv_tokl(&p); d = 0; i = 0;
    pu = hwloc_get_obj_by_type(topo[s], HWLOC_OBJ_PU, (unsigned)x);
    if (!pu) return;
    set = hwloc_bitmap_dup(hwloc_topology_get_topology_cpuset(topo[s]));
    hwloc_bitmap_andnot(set, set, pu->cpuset);
    ret = hwloc_topology_restrict(topo[s], set, 0);
    hwloc_bitmap_free(set);
  } else {
    d = (int)hwv_tokl(&p); i = (int)hwv_tokl(&p);
    o = objat(topo[s], d, i); infos = infosat(topo[s], d, i);
    if (!strcmp(k, "setname")) {
      v = dec(hwv_tok(&p));
      if (!o) return;
      free(o->name); o->name = v ? strdup(v) : NULL;
    } else if (!strcmp(k, "addinfo")) {
      n = dec(hwv_tok(&p)); v = dec(hwv_tok(&p));
      if (!infos || !n || !v) return;
      if (o) ret = hwloc_obj_add_info(o, n, v) >= 0 ? 0 : -1; /* documented 0, returns 1 in this tree */
      else ret = hwloc_modify_infos(infos, HWLOC_MODIFY_INFOS_OP_ADD, n, v) == 1 ? 0 : -1;
    } else if (!strcmp(k, "setinfo")) {
      unsigned j; int seen = 0;
      n = dec(hwv_tok(&p)); occ = (int)hwv_tokl(&p); v = dec(hwv_tok(&p));
      if (!infos || !n || !v) return;
      ret = -1;
      for (j = 0; j < infos->count; j++)
        if (!strcmp(infos->array[j].name, n) && ++seen == occ) { free(infos->array[j].value); infos->array[j].value = strdup(v); ret = 0; break; }
    } else if (!strcmp(k, "rminfo")) {
      n = dec(hwv_tok(&p));
      if (!infos || !n) return;
      ret = hwloc_modify_infos(infos, HWLOC_MODIFY_INFOS_OP_REMOVE, n, NULL);
    } else if (!strcmp(k, "setmem")) {
      unsigned long long nv, ov; hwloc_obj_t a;
      x = hwv_tokl(&p);
      if (!o || o->type != HWLOC_OBJ_NUMANODE) return;
      nv = (unsigned long long)x * unit; ov = o->attr->numanode.local_memory;
      o->attr->numanode.local_memory = nv;
      for (a = o; a; a = a->parent) a->total_memory += nv - ov;
    } else if (!strcmp(k, "misc")) {
      n = dec(hwv_tok(&p));
      if (!o) return;
      ret = hwloc_topology_insert_misc_object(topo[s], o, n) ? 0 : -1;
    } else return;
  }
  out("{\"e\":\"Edit\",\"k\":\"%s\",\"s\":%d,\"d\":%d,\"i\":%d,\"n\":", k, s, d, i); out_ostr(n);
  out(",\"v\":"); out_ostr(v); out(",\"x\":%ld,\"occ\":%d,\"ret\":%d,\"P\":", x, occ, ret); out_proj(topo[s]); out("}"); END();
}

static void do_build(char *p) {
  int dd = (int)hwv_tokl(&p), a = (int)hwv_tokl(&p), b = (int)hwv_tokl(&p); unsigned long flags = (unsigned long)hwv_tokl(&p);
  int ret, e; hwloc_topology_diff_t d = NULL;
  if (!dslot_ok(dd) || !slot_ok(a) || !slot_ok(b)) return;
  free_diff(dd);
  errno = 0;
  ret = hwloc_topology_diff_build(topo[a], topo[b], flags, &d);
  e = errno;
  if (ret >= 0) diffs[dd] = d;
  out("{\"e\":\"Build\",\"dd\":%d,\"a\":%d,\"b\":%d,\"flags\":%lu,\"ret\":%d,\"errno\":\"%s\",\"E\":", dd, a, b, flags, ret, ret < 0 ? errname(e) : "0");
  out_entries(diffs[dd]);
  out(",\"PA\":"); out_proj(topo[a]); out(",\"PB\":"); out_proj(topo[b]); out("}"); END();
}

static void do_mk(char *p) {
  int dd = (int)hwv_tokl(&p), n = (int)hwv_tokl(&p), k;
  hwloc_topology_diff_t first = NULL, last = NULL;
  if (!dslot_ok(dd)) return;
  free_diff(dd);
  for (k = 0; k < n; k++) {
    char *t = hwv_tok(&p); int d = (int)hwv_tokl(&p), i = (int)hwv_tokl(&p);
    char *nm = dec(hwv_tok(&p)), *so = dec(hwv_tok(&p)), *sn = dec(hwv_tok(&p));
    unsigned long long qo = (unsigned long long)hwv_tokl(&p), qn = (unsigned long long)hwv_tokl(&p);
    hwloc_topology_diff_t e;
    if (!t) break;
    e = calloc(1, sizeof(*e));
    if (!strcmp(t, "complex")) {
      e->too_complex.type = HWLOC_TOPOLOGY_DIFF_TOO_COMPLEX; e->too_complex.obj_depth = d; e->too_complex.obj_index = (unsigned)i;
    } else if (!strcmp(t, "badtype")) {
      e->generic.type = (hwloc_topology_diff_type_t)7;
    } else {
      e->obj_attr.type = HWLOC_TOPOLOGY_DIFF_OBJ_ATTR; e->obj_attr.obj_depth = d; e->obj_attr.obj_index = (unsigned)i;
      if (!strcmp(t, "size")) {
        e->obj_attr.diff.uint64.type = HWLOC_TOPOLOGY_DIFF_OBJ_ATTR_SIZE;
        e->obj_attr.diff.uint64.index = 0;
        e->obj_attr.diff.uint64.oldvalue = qo * unit; e->obj_attr.diff.uint64.newvalue = qn * unit;
      } else if (!strcmp(t, "name") || !strcmp(t, "info")) {
        e->obj_attr.diff.string.type = !strcmp(t, "name") ? HWLOC_TOPOLOGY_DIFF_OBJ_ATTR_NAME : HWLOC_TOPOLOGY_DIFF_OBJ_ATTR_INFO;
        e->obj_attr.diff.string.name = nm ? strdup(nm) : NULL;
        e->obj_attr.diff.string.oldvalue = so ? strdup(so) : NULL;
        e->obj_attr.diff.string.newvalue = sn ? strdup(sn) : NULL;
      } else {
        e->obj_attr.diff.generic.type = (hwloc_topology_diff_obj_attr_type_t)9;
      }
    }
    e->generic.next = NULL;
    if (last) last->generic.next = e; else first = e;
    last = e;
  }
  diffs[dd] = first;
  out("{\"e\":\"Mk\",\"dd\":%d,\"E\":", dd); out_entries(diffs[dd]); out("}"); END();
}

static void do_apply(char *p) {
  int s = (int)hwv_tokl(&p), dd = (int)hwv_tokl(&p); unsigned long flags = (unsigned long)hwv_tokl(&p); int ret, e;
  if (!slot_ok(s) || !dslot_ok(dd)) return;
  errno = 0;
  ret = hwloc_topology_diff_apply(topo[s], diffs[dd], flags);
  e = errno;
  out("{\"e\":\"Apply\",\"s\":%d,\"dd\":%d,\"flags\":%lu,\"ret\":%d,\"errno\":\"%s\",\"P\":", s, dd, flags, ret, ret < 0 ? errname(e) : "0");
  out_proj(topo[s]); out(",\"E\":"); out_entries(diffs[dd]); out("}"); END();
}

static void do_xml(char *p) {
  int dd = (int)hwv_tokl(&p), d2 = (int)hwv_tokl(&p); char *ref = dec(hwv_tok(&p)); char *mode = hwv_tok(&p);
  int eret, lret = -2, isfile; char *ref2 = NULL; hwloc_topology_diff_t nd = NULL;
  if (!dslot_ok(dd) || !dslot_ok(d2) || dd == d2 || !mode) return;
  isfile = !strcmp(mode, "file");
  free_diff(d2);
  if (isfile) {
    unlink(tmpxml);
    eret = hwloc_topology_diff_export_xml(diffs[dd], ref, tmpxml);
    if (!eret) lret = hwloc_topology_diff_load_xml(tmpxml, &nd, &ref2);
    unlink(tmpxml);
  } else {
    char *buf = NULL; int len = 0;
    eret = hwloc_topology_diff_export_xmlbuffer(diffs[dd], ref, &buf, &len);
    if (!eret) {
      lret = hwloc_topology_diff_load_xmlbuffer(buf, len, &nd, &ref2);
      hwloc_free_xmlbuffer(topo[1], buf);
    }
  }
  if (lret == 0) diffs[d2] = nd;
  out("{\"e\":\"Xml\",\"dd\":%d,\"d2\":%d,\"mode\":\"%s\",\"ref\":", dd, d2, isfile ? "file" : "buf"); out_ostr(ref);
  out(",\"eret\":%d,\"lret\":%d,\"ref2\":", eret, lret); out_ostr(lret == 0 ? ref2 : NULL);
  out(",\"E2\":"); out_entries(diffs[d2]); out(",\"E\":"); out_entries(diffs[dd]); out("}"); END();
  free(ref2);
}

static void do_free(char *p) {
  int dd = (int)hwv_tokl(&p), ret;
  if (!dslot_ok(dd)) return;
  ret = hwloc_topology_diff_destroy(diffs[dd]); diffs[dd] = NULL;
  out("{\"e\":\"Free\",\"dd\":%d,\"ret\":%d}", dd, ret); END();
}

static void handler(char **lines, size_t n, int beh) {
  size_t i;
  for (i = 0; i < n; i++) {
    char *line = strdup(lines[i]), *p = line; char *cmd = hwv_tok(&p);
    if (!cmd) { free(line); continue; }
    quiet = cmd[0] == '!';
    if (quiet) cmd++;
    if (!strcmp(cmd, "reset")) do_reset(p, beh);
    else if (!strcmp(cmd, "snap")) do_snap(p);
    else if (!strcmp(cmd, "load")) do_load(p);
    else if (!strcmp(cmd, "dup")) do_dup(p);
    else if (!strcmp(cmd, "build")) do_build(p);
    else if (!strcmp(cmd, "mk")) do_mk(p);
    else if (!strcmp(cmd, "apply")) do_apply(p);
    else if (!strcmp(cmd, "xml")) do_xml(p);
    else if (!strcmp(cmd, "free")) do_free(p);
    else do_edit(cmd, p);
    free(line);
  }
}

int main(int argc, char **argv) {
  if (argc < 3) { fprintf(stderr, "usage: hwv_diff <behaviours> <trace.ndjson> [index offset]\n"); return 2; }
  if (argc > 3) beh_off = atoi(argv[3]);
  snprintf(tmpxml, sizeof tmpxml, "%s.diff.xml", argv[2]);
  return hwv_run(argv[1], argv[2], handler);
}
