/* hwv_shmem: recorder for shared-memory topologies (C19).  No oracle logic: it
 * performs the calls of a behaviour on the real library and logs arguments,
 * return values, errno, what the public API lets one observe (project.h
 * projection, XML export digest, distances / memory attributes / CPU kinds
 * through their query functions) and what the operating system reports about
 * the file and the address range (sizes, digests of byte ranges, whether a
 * range is unmapped).  spec/TraceShmem.tla judges.
 *
 * Processes: the behaviour process ("master") holds the original topology.
 * `write` runs in a forked writer process, everything between `adopter` and
 * `end` runs in one forked adopter process; their events go to the same trace
 * in program order (the master waits for them).
 *
 * Address space: the master reserves RES_PAGES pages PROT_NONE at a fixed
 * place that both children inherit.  Slot s starts at page 16 + s * SLOT_PAGES
 * of the reservation.  A call may be preceded by `punch` = munmap of exactly
 * the requested range: everything around it stays PROT_NONE (guard pages), so a
 * write outside the target range is a Crash event.
 *
 * behaviour file:
 *   reset
 *   load <flags> <filterpreset 0|1> synthetic <description...> | xml <path> | native
 *   prep <op> ...            modifications of the original before sharing (see do_prep)
 *   reload <flags> <filterpreset>   the original is exported to an XML buffer and loaded again from it with these topology flags
 *   snapshot                 full observation of the original (+ "cw": internal cache rewrites that this consultation triggered)
 *   get_length <flags>
 *   write <obase 0|1|2|3> <opages> <orem> <slot> <ashift pages> <arem> <dlen pages> <lrem> <punch> <flags> <tail pages>
 *            offset = (obase 0: 0, 1: end of the last image, 2: 2 GiB, 3: 4 GiB) + opages*page + orem;  length = L + dlen*page + lrem
 *   patch <img> <field>      version | hdrlen | addr | len | abi   (xor of one bit: applying it twice restores)
 *   adopter                  fork the adopter process; the following lines run there
 *     adopt <h> <img|-1> <doff pages> <dorem> <slot> <ashift> <arem> <dlen> <lrem> <punch 0|1|2> <flags>
 *            arguments = those of image img with the given deviations; punch 2 = re-occupy the range first
 *     call <h> <op> <x> <y> [<s1> [<s2>]]
 *     destroy <h>
 *   end
 */
#include "project.h"
#include <hwloc.h>
#include <hwloc/shmem.h>
#include <hwloc/export.h>
#include <hwloc/distances.h>
#include <hwloc/memattrs.h>
#include <hwloc/cpukinds.h>
#include <hwloc/diff.h>

#ifndef MAP_FIXED_NOREPLACE
#define MAP_FIXED_NOREPLACE 0x100000
#endif

#define RES_PAGES (1UL << 18)
#define SLOT_PAGES (RES_PAGES / 4)
#define MAXIMG 4
#define MAXH 2
/* far file offsets (the file is sparse: only the segment and its surroundings are ever written) */
#define FAR2 (1ULL << 31)
#define FAR3 (1ULL << 32)

static char *res_base;
static hwloc_topology_t orig;
static size_t Llast; static int Lvalid;
static int fd = -1; static char fpath[4096]; static const char *scratchdir = "/var/tmp";
static struct { uint64_t off; int slot; long addr_pg; size_t addr_rem; size_t len; } img[MAXIMG]; static int nimg;
static uint64_t file_end;
static struct { hwloc_topology_t t; char *addr; size_t len; } H[MAXH];
static int stopped;           /* the rest of the behaviour is skipped (failed load, ...) */

/* ---------- hook events of the library (built with -DHWLOC_VERIF): the internal caches of distances / memory attribute targets are
 * about to be rewritten.  Counted; a snapshot says how many happened while it only consulted the original ---------- */
static unsigned long cache_writes;
void hwloc_verif_event(const char *name, unsigned long a, unsigned long b);
void hwloc_verif_event(const char *name, unsigned long a, unsigned long b) {
  (void)a; (void)b;
  if (!strcmp(name, "dist_refresh_write") || !strcmp(name, "memattr_refresh_write")) cache_writes++;
}

/* ---------- digests (FNV-1a 64) ---------- */
#define FNV0 1469598103934665603ULL
static uint64_t fnv(const void *p, size_t n, uint64_t h) { const unsigned char *c = p; size_t i; for (i = 0; i < n; i++) { h ^= c[i]; h *= 1099511628211ULL; } return h; }
static void out_dig(uint64_t h) { out("[%u,%u,%u,%u]", (unsigned)(h & 0xffff), (unsigned)((h >> 16) & 0xffff), (unsigned)((h >> 32) & 0xffff), (unsigned)((h >> 48) & 0xffff)); }
static void out_dec(uint64_t v) { out("\"%llu\"", (unsigned long long)v); }
static void out_xd(int len, uint64_t h) { out("[%d,%u,%u,%u,%u]", len, (unsigned)(h & 0xffff), (unsigned)((h >> 16) & 0xffff), (unsigned)((h >> 32) & 0xffff), (unsigned)((h >> 48) & 0xffff)); }
static void out_int(uint64_t v) { out("%lu", (unsigned long)(v & 0x7fffffff)); }
static size_t PAGE;
/* a file offset as whole pages + remainder (offsets of 2 GiB and more do not fit the 32-bit integers of TLC) */
static void out_off(uint64_t off) { out(",\"off_pg\":%lu,\"offrem\":%lu", (unsigned long)(off / PAGE), (unsigned long)(off % PAGE)); }

static uint64_t file_size(void) { struct stat st; if (fstat(fd, &st) < 0) return 0; return (uint64_t)st.st_size; }
/* the digest after n more zero bytes (h ^= 0 does nothing: n multiplications by the prime, by squaring) */
static uint64_t fnv_zeros(uint64_t h, uint64_t n) { uint64_t b = 1099511628211ULL, r = 1; while (n) { if (n & 1) r *= b; b *= b; n >>= 1; } return h * r; }
#ifndef SEEK_DATA
#define SEEK_DATA 3
#define SEEK_HOLE 4
#endif
/* digest of the bytes [from, to) of the file; bytes past the end of the file are not there and do not count.
 * The file may be sparse (images at offsets of 2 GiB and more): holes read as zeros, so their part of the digest is
 * computed without reading them; the value is the one the plain byte-by-byte digest gives */
static uint64_t file_digest(uint64_t from, uint64_t to) {
  static char buf[1 << 16]; uint64_t h = FNV0, pos = from, size = file_size();
  if (to > size) to = size;
  while (pos < to) {
    uint64_t dend = to; off_t d = lseek(fd, (off_t)pos, SEEK_DATA), e;
    if (d == (off_t)-1 && errno == ENXIO) { h = fnv_zeros(h, to - pos); break; }       /* nothing but a hole up to the end */
    if (d != (off_t)-1) {
      if ((uint64_t)d >= to) { h = fnv_zeros(h, to - pos); break; }
      h = fnv_zeros(h, (uint64_t)d - pos); pos = (uint64_t)d;
      e = lseek(fd, (off_t)pos, SEEK_HOLE);
      if (e != (off_t)-1 && (uint64_t)e > pos && (uint64_t)e < to) dend = (uint64_t)e;
    }                                                                                     /* (no SEEK_DATA here: read everything) */
    while (pos < dend) {
      size_t want = dend - pos > sizeof buf ? sizeof buf : (size_t)(dend - pos);
      ssize_t r = pread(fd, buf, want, (off_t)pos);
      if (r <= 0) return h;
      h = fnv(buf, (size_t)r, h); pos += (uint64_t)r;
    }
  }
  return h;
}
static unsigned char pattern(uint64_t pos) { return (unsigned char)(0x41 + (pos * 7 + (pos >> 9)) % 53); }
#define FAR_GAP (1UL << 20)
static void file_extend(uint64_t size) {
  uint64_t pos = file_size(); static unsigned char buf[4096];
  /* a far offset is reached through a hole; the last 64 KiB before it (and what follows) carry the pattern */
  if (size > pos + FAR_GAP) { uint64_t upto = (size - (1UL << 16)) & ~(uint64_t)4095; if (!ftruncate(fd, (off_t)upto)) pos = upto; }
  while (pos < size) {
    size_t n = size - pos > sizeof buf ? sizeof buf : (size_t)(size - pos), i;
    for (i = 0; i < n; i++) buf[i] = pattern(pos + i);
    if (pwrite(fd, buf, n, (off_t)pos) != (ssize_t)n) break;
    pos += n;
  }
}

/* ---------- address ranges ---------- */
static char *page_lo(char *a) { return (char *)((uintptr_t)a & ~(uintptr_t)(PAGE - 1)); }
static size_t page_span(char *a, size_t len) { char *lo = page_lo(a); uintptr_t hi = ((uintptr_t)a + len + PAGE - 1) & ~(uintptr_t)(PAGE - 1); return (size_t)(hi - (uintptr_t)lo); }
static int in_res(char *a, size_t len) { return a >= res_base && len <= RES_PAGES * PAGE && a + len <= res_base + RES_PAGES * PAGE; }
/* 1 when no page of [a, a+len) is mapped */
static int range_free(char *a, size_t len) {
  char *lo = page_lo(a); size_t span = page_span(a, len); void *p;
  if (!span) return 1;
  p = mmap(lo, span, PROT_NONE, MAP_PRIVATE | MAP_ANONYMOUS | MAP_NORESERVE | MAP_FIXED_NOREPLACE, -1, 0);
  if (p == MAP_FAILED) return 0;
  if (p != (void *)lo) { munmap(p, span); return 0; }
  munmap(lo, span);
  return 1;
}
static int overlaps_live(char *a, size_t len) {
  int h; char *lo = page_lo(a); size_t span = page_span(a, len);
  for (h = 0; h < MAXH; h++) if (H[h].t && lo < H[h].addr + H[h].len && H[h].addr < lo + span) return 1;
  return 0;
}
static void punch(char *a, size_t len, int mode) {
  char *lo = page_lo(a); size_t span = page_span(a, len);
  if (!span || !in_res(lo, span) || overlaps_live(a, len)) return;
  if (mode == 1) munmap(lo, span);
  else if (mode == 2) mmap(lo, span, PROT_NONE, MAP_PRIVATE | MAP_ANONYMOUS | MAP_NORESERVE | MAP_FIXED, -1, 0);
}
static void reserve(void) {
  static const uintptr_t hints[] = { 0x300000000000UL, 0x280000000000UL, 0x200000000000UL, 0x380000000000UL, 0x180000000000UL, 0 };
  int i;
  if (res_base) { mmap(res_base, RES_PAGES * PAGE, PROT_NONE, MAP_PRIVATE | MAP_ANONYMOUS | MAP_NORESERVE | MAP_FIXED, -1, 0); return; }
  for (i = 0; hints[i]; i++) {
    void *p = mmap((void *)hints[i], RES_PAGES * PAGE, PROT_NONE, MAP_PRIVATE | MAP_ANONYMOUS | MAP_NORESERVE, -1, 0);
    if (p == MAP_FAILED) continue;
    if (p == (void *)hints[i]) { res_base = p; return; }
    munmap(p, RES_PAGES * PAGE);
  }
  fprintf(stderr, "hwv_shmem: cannot reserve the address range\n");
  exit(2);
}
static char *slot_addr(int slot, long shift, size_t rem) { return res_base + (16 + (size_t)slot * SLOT_PAGES + shift) * PAGE + rem; }

/* ---------- observation of a topology ---------- */
static hwloc_obj_t find_gp(hwloc_topology_t t, unsigned long gp) {
  struct prj P; unsigned i; hwloc_obj_t r = NULL;
  prj_init(&P, t);
  for (i = 0; i < P.n; i++) if ((P.objs[i]->gp_index & 0x7fffffff) == gp) { r = P.objs[i]; break; }
  prj_fini(&P);
  return r;
}
static void out_objid(hwloc_obj_t o) { if (!o) out("[-1,-1]"); else out("[%d,%lu]", (int)o->type, (unsigned long)(o->gp_index & 0x7fffffff)); }
static void out_loc(struct hwloc_location *l) {
  if (l->type == HWLOC_LOCATION_TYPE_CPUSET) { out("{\"k\":\"cpuset\",\"cs\":"); out_set(l->location.cpuset); out("}"); }
  else if (l->type == HWLOC_LOCATION_TYPE_OBJECT) { out("{\"k\":\"obj\",\"o\":"); out_objid(l->location.object); out("}"); }
  else out("{\"k\":\"other\"}");
}
/* distances, memory attributes, CPU kinds and friends through their query functions */
#define MAXQ 64
static void out_stores(hwloc_topology_t t) {
  unsigned nr = 0, i, j; int r;
  out("{\"dist\":[");
  r = hwloc_distances_get(t, &nr, NULL, 0, 0);
  if (!r && nr) {
    struct hwloc_distances_s **d = calloc(nr, sizeof *d); unsigned n2 = nr;
    r = hwloc_distances_get(t, &n2, d, 0, 0);
    for (i = 0; !r && i < n2 && i < nr; i++) {
      const char *name = hwloc_distances_get_name(t, d[i]);
      out("%s{\"name\":", i ? "," : ""); out_optstr(name); out(",\"kind\":%lu,\"nb\":%u,\"objs\":[", d[i]->kind, d[i]->nbobjs);
      for (j = 0; j < d[i]->nbobjs; j++) { out("%s", j ? "," : ""); out_objid(d[i]->objs[j]); }
      out("],\"values\":[");
      for (j = 0; j < d[i]->nbobjs * d[i]->nbobjs; j++) { out("%s", j ? "," : ""); out_dec(d[i]->values[j]); }
      out("]}");
      hwloc_distances_release(t, d[i]);
    }
    free(d);
  }
  out("],\"distret\":%d,\"distnr\":%u,\"memattrs\":[", r, nr);
  {
    hwloc_memattr_id_t id; struct hwloc_location rootloc; hwloc_bitmap_t rootcs = hwloc_bitmap_dup(hwloc_topology_get_topology_cpuset(t));
    rootloc.type = HWLOC_LOCATION_TYPE_CPUSET; rootloc.location.cpuset = rootcs;
    for (id = 0; id < 64; id++) {
      const char *name = NULL; unsigned long fl = 0; hwloc_obj_t tg[MAXQ]; hwloc_uint64_t vals[MAXQ]; unsigned nt = MAXQ; hwloc_obj_t best = NULL; hwloc_uint64_t bv = 0;
      if (hwloc_memattr_get_name(t, id, &name) < 0) break;
      hwloc_memattr_get_flags(t, id, &fl);
      out("%s{\"id\":%u,\"name\":", id ? "," : "", id); out_jstr(name); out(",\"flags\":%lu", fl);
      errno = 0; r = hwloc_memattr_get_best_target(t, id, &rootloc, 0, &best, &bv);
      out(",\"best\":[%d,\"%s\",", r, r ? errname(errno) : "0"); out_objid(r ? NULL : best); out(","); out_dec(r ? 0 : bv); out("]");
      memset(vals, 0, sizeof vals);
      r = hwloc_memattr_get_targets(t, id, NULL, 0, &nt, tg, vals);
      out(",\"tret\":%d,\"nt\":%u,\"targets\":[", r, r ? 0 : nt);
      for (i = 0; !r && i < nt && i < MAXQ; i++) {
        struct hwloc_location ini[MAXQ]; hwloc_uint64_t iv[MAXQ]; unsigned ni = MAXQ; hwloc_uint64_t v = 0; int r2, r3;
        out("%s{\"o\":", i ? "," : ""); out_objid(tg[i]);
        errno = 0; r2 = hwloc_memattr_get_value(t, id, tg[i], NULL, 0, &v);
        out(",\"noini\":[%d,\"%s\",", r2, r2 ? errname(errno) : "0"); out_dec(r2 ? 0 : v); out("]");
        memset(iv, 0, sizeof iv);
        errno = 0; r3 = hwloc_memattr_get_initiators(t, id, tg[i], 0, &ni, ini, iv);
        out(",\"iret\":%d,\"ni\":%u,\"inis\":[", r3, r3 ? 0 : ni);
        for (j = 0; !r3 && j < ni && j < MAXQ; j++) {
          hwloc_uint64_t v2 = 0; int r4;
          out("%s{\"loc\":", j ? "," : ""); out_loc(&ini[j]); out(",\"v\":"); out_dec(iv[j]);
          errno = 0; r4 = hwloc_memattr_get_value(t, id, tg[i], &ini[j], 0, &v2);
          out(",\"get\":[%d,", r4); out_dec(r4 ? 0 : v2); out("]}");
        }
        out("]}");
      }
      out("]}");
    }
    out("],\"local\":[");
    {
      hwloc_obj_t nodes[MAXQ]; unsigned nn = MAXQ;
      r = hwloc_get_local_numanode_objs(t, &rootloc, &nn, nodes, HWLOC_LOCAL_NUMANODE_FLAG_ALL);
      for (i = 0; !r && i < nn && i < MAXQ; i++) { out("%s", i ? "," : ""); out_objid(nodes[i]); }
      out("],\"localret\":%d,\"dns\":", r);
      { hwloc_bitmap_t ns = hwloc_bitmap_alloc(); r = hwloc_topology_get_default_nodeset(t, ns, 0); out_set(ns); out(",\"dnsret\":%d", r); hwloc_bitmap_free(ns); }
    }
    hwloc_bitmap_free(rootcs);
  }
  out(",\"cpukinds\":[");
  {
    int nk = hwloc_cpukinds_get_nr(t, 0), k;
    for (k = 0; k < nk; k++) {
      hwloc_bitmap_t cs = hwloc_bitmap_alloc(); int eff = -2; struct hwloc_infos_s *infos = NULL;
      r = hwloc_cpukinds_get_info(t, (unsigned)k, cs, &eff, &infos, 0);
      out("%s{\"ret\":%d,\"cs\":", k ? "," : "", r); out_set(cs); out(",\"eff\":%d,\"infos\":", eff); out_infos(r ? NULL : infos);
      out(",\"by\":%d}", hwloc_cpukinds_get_by_cpuset(t, cs, 0));
      hwloc_bitmap_free(cs);
    }
    out("],\"nrkinds\":%d", nk);
  }
  {
    char buf[4096]; int n;
    errno = 0; n = hwloc_topology_export_synthetic(t, buf, sizeof buf, 0);
    out(",\"syn\":[%d,", n); out_jstr(n >= 0 ? buf : ""); out("]");
  }
  out("}");
}
static uint64_t xml_digest(hwloc_topology_t t, int *lenp) {
  char *buf = NULL; int len = 0; uint64_t h;
  if (hwloc_topology_export_xmlbuffer(t, &buf, &len, 0) < 0 || !buf) { *lenp = -1; return 0; }
  h = fnv(buf, (size_t)len, FNV0); *lenp = len;
  hwloc_free_xmlbuffer(t, buf);
  return h;
}
/* ,"<key>":{"full":F,"pd":..,"xd":[len,..],"sd":..[,"topo":{..},"stores":{..}]}
 * pd / sd are digests of the text of the projection (with check_ok = 1, without xd) / of "stores" */
static void out_obs(const char *key, hwloc_topology_t t, int full) {
  size_t s0; uint64_t pd, sd, xd; int xlen;
  hwv_flush();                 /* nothing committed is pending: offsets into the buffer stay valid below */
  out(",\"%s\":{\"full\":%d", key, full);
  xd = xml_digest(t, &xlen);
  /* pd digests the projection made without running hwloc_topology_check() (a forked child per call: only done for full observations) */
  s0 = hwv_len; project_topology(t, 0); pd = fnv(hwv_buf + s0, hwv_len - s0, FNV0); hwv_len = s0;
  if (full) { out(",\"topo\":"); project_topology(t, 1); hwv_len--; out(",\"xd\":"); out_xd(xlen, xd); out("}"); }
  if (full) out(",\"stores\":");
  s0 = hwv_len; out_stores(t); sd = fnv(hwv_buf + s0, hwv_len - s0, FNV0);
  if (!full) hwv_len = s0;
  out(",\"pd\":"); out_dig(pd); out(",\"xd\":"); out_xd(xlen, xd); out(",\"sd\":"); out_dig(sd);
  /* the topology-level userdata pointer (not documented as shared): logged, never compared */
  out(",\"udata\":%ld}", (long)((uintptr_t)hwloc_topology_get_userdata(t) & 0x7fffffff));
}
/* ,"live":[ per handle: {"n":0} | {"n":1,"pd","xd","sd","md","mapped"} ] : every adopted topology of the process */
static void out_live(void) {
  int h;
  out(",\"live\":[");
  for (h = 0; h < MAXH; h++) {
    if (h) out(",");
    if (!H[h].t) { out("{\"n\":0}"); continue; }
    out("{\"n\":1");
    out_obs("o", H[h].t, 0);
    out(",\"md\":"); out_dig(fnv(H[h].addr, H[h].len, FNV0));
    out(",\"mapped\":%d}", !range_free(H[h].addr, H[h].len));
  }
  out("]");
}

static hwloc_bitmap_t parse_set(const char *s) {
  hwloc_bitmap_t b;
  if (!s || !strcmp(s, "-")) return NULL;
  b = hwloc_bitmap_alloc();
  if (strcmp(s, "none")) hwloc_bitmap_list_sscanf(b, s);
  return b;
}

/* ---------- master: original topology ---------- */
static void do_reset(int beh) {
  int h;
  if (orig) { hwloc_topology_destroy(orig); orig = NULL; }
  for (h = 0; h < MAXH; h++) H[h].t = NULL;
  if (fd >= 0) { close(fd); fd = -1; }
  nimg = 0; file_end = 0; Lvalid = 0; Llast = 0; stopped = 0;
  PAGE = (size_t)sysconf(_SC_PAGESIZE);
  reserve();
  snprintf(fpath, sizeof fpath, "%s/hwv_shmem.XXXXXX", scratchdir);
  fd = mkstemp(fpath);
  if (fd < 0) { perror(fpath); exit(2); }
  unlink(fpath);
  out("{\"e\":\"Reset\",\"beh\":%d,\"page\":%lu,\"respages\":%lu,\"slotpages\":%lu}", beh, (unsigned long)PAGE, RES_PAGES, SLOT_PAGES); out_end();
}
static void do_load(char *p) {
  unsigned long fl = (unsigned long)hwv_tokl(&p); int preset = (int)hwv_tokl(&p); char *kind = hwv_tok(&p); int r1 = 0, r2 = 0, r3 = 0, ret, err;
  while (*p == ' ') p++;
  hwloc_topology_init(&orig);
  if (kind && !strcmp(kind, "xml")) r1 = hwloc_topology_set_xml(orig, p);
  else if (kind && !strcmp(kind, "native")) r1 = 0;                 /* this machine */
  else r1 = hwloc_topology_set_synthetic(orig, p);
  r2 = hwloc_topology_set_flags(orig, fl);
  if (preset == 1) r3 = hwloc_topology_set_all_types_filter(orig, HWLOC_TYPE_FILTER_KEEP_ALL);
  errno = 0; ret = (r1 || r2 || r3) ? -1 : hwloc_topology_load(orig); err = errno;
  out("{\"e\":\"load\",\"flags\":%lu,\"preset\":%d,\"kind\":\"%s\",\"src\":", fl, preset, kind ? kind : ""); out_jstr(p);
  out(",\"conf\":[%d,%d,%d],\"ret\":%d,\"errno\":\"%s\"}", r1, r2, r3, ret, errname(err)); out_end();
  if (ret) { hwloc_topology_destroy(orig); orig = NULL; stopped = 1; }
}
/* the original goes through XML: exported to a buffer and loaded again from it with the given topology flags
 * (what the XML carries - distances, memory attributes, CPU kinds, support - is imported or ignored according to them) */
static void do_reload(char *p) {
  unsigned long fl = (unsigned long)hwv_tokl(&p); int preset = (int)hwv_tokl(&p); char *buf = NULL; int len = 0, r0, r1 = 0, r2 = 0, r3 = 0, ret, err;
  hwloc_topology_t t2 = NULL;
  if (!orig) return;
  r0 = hwloc_topology_export_xmlbuffer(orig, &buf, &len, 0);
  hwloc_topology_init(&t2);
  if (!r0) r1 = hwloc_topology_set_xmlbuffer(t2, buf, len);
  r2 = hwloc_topology_set_flags(t2, fl);
  if (preset == 1) r3 = hwloc_topology_set_all_types_filter(t2, HWLOC_TYPE_FILTER_KEEP_ALL);
  errno = 0; ret = (r0 || r1 || r2 || r3) ? -1 : hwloc_topology_load(t2); err = errno;
  out("{\"e\":\"load\",\"flags\":%lu,\"preset\":%d,\"kind\":\"reload\",\"src\":\"\",\"xmllen\":%d", fl, preset, len);
  out(",\"conf\":[%d,%d,%d],\"ret\":%d,\"errno\":\"%s\"}", r1, r2, r3, ret, errname(err)); out_end();
  if (buf) hwloc_free_xmlbuffer(orig, buf);
  hwloc_topology_destroy(orig); orig = NULL;
  if (ret) { hwloc_topology_destroy(t2); stopped = 1; } else orig = t2;
  Lvalid = 0;
}
static hwloc_obj_t nth(hwloc_topology_t t, int type, unsigned k) { return hwloc_get_obj_by_type(t, (hwloc_obj_type_t)type, k); }
/* modifications of the original before sharing; judged by other properties, logged here with their result only */
static void do_prep(char *p) {
  static int counter; char *op = hwv_tok(&p); int ret = -2, err = 0; char name[64];
  if (!op || !orig) return;
  errno = 0;
  if (!strcmp(op, "restrict")) { unsigned long fl = (unsigned long)hwv_tokl(&p); hwloc_bitmap_t s = parse_set(hwv_tok(&p)); ret = hwloc_topology_restrict(orig, s, fl); err = errno; hwloc_bitmap_free(s); }
  else if (!strcmp(op, "dist")) {
    /* dist <kind> <type> <n> <addflags>: matrix between the first n objects of a type */
    unsigned long kind = (unsigned long)hwv_tokl(&p); int ty = (int)hwv_tokl(&p); unsigned n = (unsigned)hwv_tokl(&p), i, j; unsigned long afl = (unsigned long)hwv_tokl(&p);
    hwloc_obj_t objs[16]; hwloc_uint64_t vals[256]; hwloc_distances_add_handle_t h;
    if (n > 16) n = 16;
    for (i = 0; i < n; i++) objs[i] = nth(orig, ty, i);
    for (i = 0; i < n; i++) for (j = 0; j < n; j++) vals[i * n + j] = i == j ? 10 : 20 + 10 * (hwloc_uint64_t)((i > j ? i - j : j - i) / 2) + (hwloc_uint64_t)counter;
    snprintf(name, sizeof name, "hwvdist%d", counter++);
    h = hwloc_distances_add_create(orig, name, kind, 0); err = errno;
    if (h) { ret = hwloc_distances_add_values(orig, h, n, objs, vals, 0); err = errno; if (!ret) { ret = hwloc_distances_add_commit(orig, h, afl); err = errno; } }
    else ret = -1;
  }
  else if (!strcmp(op, "memattr")) {
    /* memattr <flags> <ntargets> <inikind 0 none|1 cpuset|2 object>: register + one value per target (two initiators when needed) */
    unsigned long fl = (unsigned long)hwv_tokl(&p); unsigned nt = (unsigned)hwv_tokl(&p), i; int ik = (int)hwv_tokl(&p); hwloc_memattr_id_t id = 0;
    snprintf(name, sizeof name, "hwvattr%d", counter++);
    ret = hwloc_memattr_register(orig, name, fl, &id); err = errno;
    for (i = 0; !ret && i < nt; i++) {
      hwloc_obj_t tg = nth(orig, HWLOC_OBJ_NUMANODE, i); struct hwloc_location loc; unsigned k;
      if (!tg) break;
      for (k = 0; k < (ik ? 2u : 1u); k++) {
        hwloc_obj_t pu = nth(orig, HWLOC_OBJ_PU, i * 2 + k); hwloc_bitmap_t cs = NULL;
        if (ik && !pu) break;
        if (ik == 1) { cs = hwloc_bitmap_dup(pu->cpuset); loc.type = HWLOC_LOCATION_TYPE_CPUSET; loc.location.cpuset = cs; }
        else if (ik == 2) { loc.type = HWLOC_LOCATION_TYPE_OBJECT; loc.location.object = pu; }
        ret = hwloc_memattr_set_value(orig, id, tg, ik ? &loc : NULL, 0, 100 + 10 * i + k); err = errno;
        hwloc_bitmap_free(cs);
        if (ret) break;
      }
    }
  }
  else if (!strcmp(op, "memvalue")) {
    /* memvalue <attr name> <target idx> <value>: value of a standard attribute from the cpuset of the target */
    char *an = hwv_tok(&p); unsigned ti = (unsigned)hwv_tokl(&p); hwloc_uint64_t v = (hwloc_uint64_t)hwv_tokl(&p); hwloc_memattr_id_t id = 0;
    hwloc_obj_t tg = nth(orig, HWLOC_OBJ_NUMANODE, ti); struct hwloc_location loc;
    ret = an ? hwloc_memattr_get_by_name(orig, an, &id) : -1; err = errno;
    if (!ret && tg) { loc.type = HWLOC_LOCATION_TYPE_CPUSET; loc.location.cpuset = tg->cpuset; ret = hwloc_memattr_set_value(orig, id, tg, &loc, 0, v); err = errno; }
  }
  else if (!strcmp(op, "cpukind")) {
    hwloc_bitmap_t s = parse_set(hwv_tok(&p)); int eff = (int)hwv_tokl(&p); char *in = hwv_tok(&p), *iv = hwv_tok(&p);
    struct hwloc_info_s info; struct hwloc_infos_s infos;
    info.name = in; info.value = iv; infos.array = &info; infos.count = in && iv ? 1 : 0; infos.allocated = 0;
    ret = hwloc_cpukinds_register(orig, s, eff, in && iv ? &infos : NULL, 0); err = errno; hwloc_bitmap_free(s);
  }
  else if (!strcmp(op, "info")) { char *n = hwv_tok(&p), *v = hwv_tok(&p); ret = hwloc_obj_add_info(hwloc_get_root_obj(orig), n ? n : "n", v ? v : "v"); err = errno; }
  else if (!strcmp(op, "tinfo")) { char *n = hwv_tok(&p), *v = hwv_tok(&p); ret = hwloc_modify_infos(hwloc_topology_get_infos(orig), HWLOC_MODIFY_INFOS_OP_ADD, n ? n : "n", v ? v : "v"); err = errno; }
  else if (!strcmp(op, "misc")) { char *n = hwv_tok(&p); ret = hwloc_topology_insert_misc_object(orig, hwloc_get_root_obj(orig), n) ? 0 : -1; err = errno; }
  else if (!strcmp(op, "group")) {
    hwloc_bitmap_t s = parse_set(hwv_tok(&p)); hwloc_obj_t g = hwloc_topology_alloc_group_object(orig);
    if (g && s) { g->cpuset = hwloc_bitmap_dup(s); ret = hwloc_topology_insert_group_object(orig, g) ? 0 : -1; err = errno; } else ret = -1;
    hwloc_bitmap_free(s);
  }
  else if (!strcmp(op, "subtype")) { char *s = hwv_tok(&p); ret = hwloc_obj_set_subtype(orig, nth(orig, HWLOC_OBJ_PU, 0), s); err = errno; }
  else if (!strcmp(op, "userdata")) {
    /* distinct non-NULL userdata pointers on every object and on the topology: they must be duplicated verbatim */
    struct prj P; unsigned i; prj_init(&P, orig);
    for (i = 0; i < P.n; i++) P.objs[i]->userdata = (void *)(uintptr_t)(0x1000 + 16 * (P.objs[i]->gp_index & 0xffffff));
    prj_fini(&P); hwloc_topology_set_userdata(orig, (void *)(uintptr_t)0x4242); ret = 0;
  }
  else if (!strcmp(op, "allow")) { unsigned long fl = (unsigned long)hwv_tokl(&p); hwloc_bitmap_t c = parse_set(hwv_tok(&p)), n = parse_set(hwv_tok(&p)); ret = hwloc_topology_allow(orig, c, n, fl); err = errno; hwloc_bitmap_free(c); hwloc_bitmap_free(n); }
  else if (!strcmp(op, "refresh")) { ret = hwloc_topology_refresh(orig); err = errno; }
  else return;
  out("{\"e\":\"prep\",\"op\":\"%s\",\"ret\":%d,\"errno\":\"%s\"}", op, ret, ret < 0 ? errname(err) : "0"); out_end();
  Lvalid = 0;
}
static void do_snapshot(void) {
  if (!orig) return;
  unsigned long c0 = cache_writes;
  out("{\"e\":\"snapshot\""); out_obs("obs", orig, 1); out(",\"cw\":%lu}", cache_writes - c0); out_end();
}
static void do_get_length(char *p) {
  unsigned long fl = (unsigned long)hwv_tokl(&p); size_t len = 0; int ret, err;
  if (!orig) return;
  errno = 0; ret = hwloc_shmem_topology_get_length(orig, &len, fl); err = errno;
  if (!ret) { Llast = len; Lvalid = 1; }
  out("{\"e\":\"get_length\",\"flags\":%lu,\"ret\":%d,\"errno\":\"%s\",\"len\":%lu", fl, ret, ret ? errname(err) : "0", ret ? 0UL : (unsigned long)(len & 0x7fffffff));
  out_obs("obs", orig, 0); out("}"); out_end();
}

/* run fn(arg) in a forked process whose events follow ours; returns its exit status (77 = it crashed and said so) */
static int in_child(int (*fn)(char **lines, size_t n), char **lines, size_t n) {
  pid_t pid; int st;
  hwv_flush();
  fflush(NULL);
  pid = fork();
  if (pid < 0) { perror("fork"); exit(2); }
  if (!pid) {
    int rc;
    alarm(hwv_watchdog > 4 ? (unsigned)hwv_watchdog - 2 : 2);
    rc = fn(lines, n);
    hwv_flush();
    _exit(rc);
  }
  if (waitpid(pid, &st, 0) < 0) { perror("waitpid"); exit(2); }
  if (WIFEXITED(st) && WEXITSTATUS(st) != 77) return WEXITSTATUS(st);
  if (!(WIFEXITED(st) && WEXITSTATUS(st) == 77)) {
    char line[96]; int k = snprintf(line, sizeof line, "{\"e\":\"Crash\",\"sig\":%d,\"beh\":%d}\n", WIFSIGNALED(st) ? WTERMSIG(st) : -1, hwv_progress ? *hwv_progress + hwv_beh_base : -1);
    if (write(hwv_fd, line, (size_t)k) < 0) {}
  }
  _exit(77);       /* the behaviour ends here, like any crashed behaviour */
}

/* ---------- writer ---------- */
static struct { uint64_t off; int slot; long shift; size_t arem; size_t len; int punchmode; unsigned long flags; long tail; } W;
static int writer(char **lines, size_t n) {
  char *addr = slot_addr(W.slot, W.shift, W.arem); int ret, err, avail;
  uint64_t size0, size1, pre0, pre1, tail0, tail1, all0, all1, tend; char *saved = NULL; size_t nsaved = 0;
  (void)lines; (void)n;
  if (W.punchmode) punch(addr, W.len, W.punchmode);
  avail = range_free(addr, W.len);
  size0 = file_size(); pre0 = file_digest(0, W.off); all0 = file_digest(0, size0);
  if (size0 > W.off + W.len && size0 - (W.off + W.len) < (1u << 24)) {       /* the bytes that follow the target segment */
    nsaved = (size_t)(size0 - (W.off + W.len)); saved = malloc(nsaved);
    if (pread(fd, saved, nsaved, (off_t)(W.off + W.len)) != (ssize_t)nsaved) nsaved = 0;
  }
  errno = 0; ret = hwloc_shmem_topology_write(orig, fd, W.off, addr, W.len, W.flags); err = errno;
  size1 = file_size(); pre1 = file_digest(0, W.off); all1 = file_digest(0, size1);
  /* what is left of the bytes that followed the target segment */
  tend = size0 < size1 ? size0 : size1;
  tail0 = fnv(saved, tend > W.off + W.len && (size_t)(tend - (W.off + W.len)) <= nsaved ? (size_t)(tend - (W.off + W.len)) : 0, FNV0);
  tail1 = file_digest(W.off + W.len, tend);
  out("{\"e\":\"write\""); out_off(W.off); out(",\"slot\":%d,\"addr_pg\":%ld,\"addr_rem\":%lu,\"len\":%lu,\"dlen\":%ld,\"flags\":%lu,\"punch\":%d,\"avail\":%d",
      W.slot, (long)((page_lo(addr) - res_base) / (long)PAGE), (unsigned long)W.arem, (unsigned long)W.len, (long)W.len - (long)Llast, W.flags, W.punchmode, avail);
  out(",\"ret\":%d,\"errno\":\"%s\",\"size0\":", ret, ret ? errname(err) : "0"); out_int(size0); out(",\"size1\":"); out_int(size1);
  out(",\"pre0\":"); out_dig(pre0); out(",\"pre1\":"); out_dig(pre1); out(",\"tail0\":"); out_dig(tail0); out(",\"tail1\":"); out_dig(tail1);
  out(",\"all0\":"); out_dig(all0); out(",\"all1\":"); out_dig(all1);
  out(",\"covers\":%d,\"free_after\":%d", size1 >= W.off + W.len, range_free(addr, W.len));
  out_obs("obs", orig, 0);                 /* the source as the writer sees it after the call */
  out("}"); out_end();
  return ret ? 1 : 0;
}
static void do_write(char *p) {
  int obase = (int)hwv_tokl(&p); long opages = hwv_tokl(&p), orem = hwv_tokl(&p); int rc;
  long dlen, lrem;
  if (!orig || !Lvalid) return;
  W.slot = (int)hwv_tokl(&p); W.shift = hwv_tokl(&p); W.arem = (size_t)hwv_tokl(&p); dlen = hwv_tokl(&p); lrem = hwv_tokl(&p);
  W.punchmode = (int)hwv_tokl(&p); W.flags = (unsigned long)hwv_tokl(&p); W.tail = hwv_tokl(&p);
  W.off = (obase == 1 ? file_end : obase == 2 ? FAR2 : obase == 3 ? FAR3 : 0) + (uint64_t)opages * PAGE + (uint64_t)orem;
  W.len = (size_t)((long)Llast + dlen * (long)PAGE + lrem);
  if (W.slot < 0 || W.slot > 3 || nimg >= MAXIMG) return;
  /* fill up to the offset (and beyond the segment when asked) so that stray writes in the file are visible */
  file_extend(W.off);
  if (W.tail > 0) file_extend(W.off + W.len + (uint64_t)W.tail * PAGE);
  rc = in_child(writer, NULL, 0);
  if (rc == 0) {
    img[nimg].off = W.off; img[nimg].slot = W.slot; img[nimg].addr_pg = W.shift; img[nimg].addr_rem = W.arem; img[nimg].len = W.len; nimg++;
    if (W.off + W.len > file_end) file_end = (W.off + W.len + PAGE - 1) & ~(uint64_t)(PAGE - 1);
  }
}
static void do_patch(char *p) {
  int k = (int)hwv_tokl(&p); char *field = hwv_tok(&p); uint64_t pos; unsigned char b; int ok = 0;
  if (k < 0 || k >= nimg || !field) return;
  pos = img[k].off;
  /* (addr, len: a high byte, so that no request of a behaviour can coincide with the damaged value) */
  if (!strcmp(field, "version")) pos += 0; else if (!strcmp(field, "hdrlen")) pos += 4; else if (!strcmp(field, "addr")) pos += 8 + 5;
  else if (!strcmp(field, "len")) pos += 16 + 5; else if (!strcmp(field, "abi")) pos += 24 + 1; else return;
  if (pread(fd, &b, 1, (off_t)pos) == 1) { b ^= 0x10; ok = pwrite(fd, &b, 1, (off_t)pos) == 1; }
  out("{\"e\":\"patch\",\"img\":%d", k); out_off(img[k].off); out(",\"field\":\"%s\",\"ok\":%d}", field, ok); out_end();
}

/* ---------- adopter ---------- */
static void ev_call_begin(int h, const char *op, long x, long y, const char *s1, const char *s2) {
  out("{\"e\":\"call\",\"h\":%d,\"op\":\"%s\",\"x\":%ld,\"y\":%ld,\"s1\":", h, op, x, y); out_jstr(s1 ? s1 : ""); out(",\"s2\":"); out_jstr(s2 ? s2 : "");
}
static void ev_finish(int ret, int err, int failed) { out(",\"ret\":%d,\"errno\":\"%s\"", ret, failed ? errname(err) : "0"); out_live(); out("}"); out_end(); }

static void do_adopt(char *p) {
  int h = (int)hwv_tokl(&p), k = (int)hwv_tokl(&p); long doff = hwv_tokl(&p), dorem = hwv_tokl(&p); int slot = (int)hwv_tokl(&p);
  long shift = hwv_tokl(&p), arem = hwv_tokl(&p), dlen = hwv_tokl(&p), lrem = hwv_tokl(&p); int pm = (int)hwv_tokl(&p); unsigned long fl = (unsigned long)hwv_tokl(&p);
  uint64_t off; size_t len; char *addr; hwloc_topology_t t = NULL; int ret, err, avail;
  if (h < 0 || h >= MAXH || H[h].t || k >= nimg || slot < 0 || slot > 3) return;
  off = (uint64_t)((long)(k >= 0 ? img[k].off : 0) + doff * (long)PAGE + dorem);
  len = (size_t)((long)(k >= 0 ? img[k].len : Llast) + dlen * (long)PAGE + lrem);
  addr = slot_addr(slot, shift, (size_t)arem);
  if (pm) punch(addr, len, pm);
  avail = range_free(addr, len);
  errno = 0; ret = hwloc_shmem_topology_adopt(&t, fd, off, addr, len, fl); err = errno;
  out("{\"e\":\"adopt\",\"h\":%d,\"img\":%d", h, k); out_off(off);
  out(",\"slot\":%d,\"addr_pg\":%ld,\"addr_rem\":%ld,\"len\":%lu,\"flags\":%lu,\"punch\":%d,\"avail\":%d,\"free_after\":%d",
      slot, (long)((page_lo(addr) - res_base) / (long)PAGE), arem, (unsigned long)len, fl, pm, avail, range_free(addr, len));
  if (!ret) { H[h].t = t; H[h].addr = page_lo(addr); H[h].len = page_span(addr, len); out_obs("obs", t, 1); }
  ev_finish(ret, err, ret != 0);
}
static void do_destroy(char *p) {
  int h = (int)hwv_tokl(&p); char *a; size_t l;
  if (h < 0 || h >= MAXH || !H[h].t) return;
  a = H[h].addr; l = H[h].len;
  hwloc_topology_destroy(H[h].t); H[h].t = NULL;
  out("{\"e\":\"destroy\",\"h\":%d,\"free_after\":%d", h, range_free(a, l));
  ev_finish(0, 0, 0);
}
static void do_call(char *p) {
  int h = (int)hwv_tokl(&p); char *op = hwv_tok(&p); long x = hwv_tokl(&p), y = hwv_tokl(&p); char *s1 = hwv_tok(&p), *s2 = hwv_tok(&p);
  hwloc_topology_t t; int ret = -2, err = 0, full = 0;
  if (h < 0 || h >= MAXH || !H[h].t || !op) return;
  t = H[h].t;
  ev_call_begin(h, op, x, y, s1, s2);
  errno = 0;
  /* ---- calls that modify a topology ---- */
  if (!strcmp(op, "restrict")) { hwloc_bitmap_t s = parse_set(s1 ? s1 : "none"); ret = hwloc_topology_restrict(t, s, (unsigned long)x); err = errno; hwloc_bitmap_free(s); }
  else if (!strcmp(op, "insert_misc")) { ret = hwloc_topology_insert_misc_object(t, hwloc_get_root_obj(t), s1 ? s1 : "m") ? 0 : -1; err = errno; }
  else if (!strcmp(op, "alloc_group")) { hwloc_obj_t g = hwloc_topology_alloc_group_object(t); err = errno; ret = g ? 0 : -1; }
  else if (!strcmp(op, "insert_group")) {
    /* the Group comes from the (inherited) original topology; a refusing insert frees it */
    hwloc_obj_t g = hwloc_topology_alloc_group_object(orig), o;
    if (g) { g->cpuset = parse_set(s1 ? s1 : "0"); errno = 0; o = hwloc_topology_insert_group_object(t, g); err = errno; ret = o ? 0 : -1; }
  }
  else if (!strcmp(op, "free_group")) {
    hwloc_obj_t g = hwloc_topology_alloc_group_object(orig);
    if (g) { errno = 0; ret = hwloc_topology_free_group_object(t, g); err = errno; if (ret) hwloc_topology_free_group_object(orig, g); }
  }
  else if (!strcmp(op, "dist_add_create")) { void *hd = hwloc_distances_add_create(t, "hwvnew", (unsigned long)x, 0); err = errno; ret = hd ? 0 : -1; }
  else if (!strcmp(op, "dist_remove")) { ret = hwloc_distances_remove(t); err = errno; }
  else if (!strcmp(op, "dist_remove_by_depth")) { ret = hwloc_distances_remove_by_depth(t, hwloc_get_type_depth(t, (hwloc_obj_type_t)x)); err = errno; }
  else if (!strcmp(op, "dist_release_remove")) {
    unsigned nr = 0; struct hwloc_distances_s **d; unsigned i;
    hwloc_distances_get(t, &nr, NULL, 0, 0);
    out(",\"nr\":%u", nr);
    if (nr) {
      unsigned n2 = nr; d = calloc(nr, sizeof *d);
      if (!hwloc_distances_get(t, &n2, d, 0, 0)) {
        unsigned pick = (unsigned)x % n2;
        errno = 0; ret = hwloc_distances_release_remove(t, d[pick]); err = errno;
        for (i = 0; i < n2; i++) if (i != pick || ret) hwloc_distances_release(t, d[i]);
      }
      free(d);
    }
  }
  else if (!strcmp(op, "memattr_register")) { hwloc_memattr_id_t id = 0; ret = hwloc_memattr_register(t, s1 ? s1 : "hwvnewattr", (unsigned long)x, &id); err = errno; }
  else if (!strcmp(op, "memattr_set_value")) {
    /* x = attribute id, y = initiator kind (0 none, 1 cpuset, 2 object) */
    hwloc_obj_t tg = nth(t, HWLOC_OBJ_NUMANODE, 0), pu = nth(t, HWLOC_OBJ_PU, 0); struct hwloc_location loc;
    if (y == 1) { loc.type = HWLOC_LOCATION_TYPE_CPUSET; loc.location.cpuset = pu->cpuset; } else if (y == 2) { loc.type = HWLOC_LOCATION_TYPE_OBJECT; loc.location.object = pu; }
    ret = hwloc_memattr_set_value(t, (hwloc_memattr_id_t)x, tg, y ? &loc : NULL, 0, 7); err = errno;
  }
  else if (!strcmp(op, "cpukinds_register")) { hwloc_bitmap_t s = parse_set(s1 ? s1 : "0"); ret = hwloc_cpukinds_register(t, s, (int)x, NULL, 0); err = errno; hwloc_bitmap_free(s); }
  else if (!strcmp(op, "diff_apply")) {
    /* a one-entry diff between two private copies of this topology: the value of the first root info is replaced in the second */
    hwloc_topology_t d1 = NULL, d2 = NULL; hwloc_topology_diff_t diff = NULL; int b = -1;
    if (!hwloc_topology_dup(&d1, t) && !hwloc_topology_dup(&d2, t)) {
      hwloc_obj_t r2 = hwloc_get_root_obj(d2);
      if (r2->infos.count) hwloc_modify_infos(&r2->infos, HWLOC_MODIFY_INFOS_OP_REPLACE, r2->infos.array[0].name, "hwvchanged");
      b = hwloc_topology_diff_build(d1, d2, 0, &diff);
      out(",\"build\":%d,\"hasdiff\":%d", b, diff ? 1 : 0);
      errno = 0; ret = hwloc_topology_diff_apply(t, diff, (unsigned long)x); err = errno;
      if (diff) hwloc_topology_diff_destroy(diff);
    }
    if (d1) hwloc_topology_destroy(d1);
    if (d2) hwloc_topology_destroy(d2);
  }
  else if (!strcmp(op, "set_subtype")) { ret = hwloc_obj_set_subtype(t, hwloc_get_root_obj(t), s1); err = errno; }
  else if (!strcmp(op, "set_flags")) { ret = hwloc_topology_set_flags(t, (unsigned long)x); err = errno; }
  else if (!strcmp(op, "set_type_filter")) { ret = hwloc_topology_set_type_filter(t, (hwloc_obj_type_t)x, (enum hwloc_type_filter_e)y); err = errno; }
  else if (!strcmp(op, "set_synthetic")) { ret = hwloc_topology_set_synthetic(t, "pu:2"); err = errno; }
  else if (!strcmp(op, "load")) { ret = hwloc_topology_load(t); err = errno; }
  else if (!strcmp(op, "refresh")) { ret = hwloc_topology_refresh(t); err = errno; }
  else if (!strcmp(op, "allow")) {
    hwloc_bitmap_t c = parse_set(s1), n = parse_set(s2);
    ret = hwloc_topology_allow(t, c, n, (unsigned long)x); err = errno;
    out(",\"flags\":%ld,\"hascs\":%d,\"hasns\":%d,\"cs\":", x, c ? 1 : 0, n ? 1 : 0); out_set(c); out(",\"ns\":"); out_set(n);
    hwloc_bitmap_free(c); hwloc_bitmap_free(n); full = 1;
  }
  /* ---- consulting calls ---- */
  else if (!strcmp(op, "observe")) { ret = 0; full = 1; }
  else if (!strcmp(op, "export_xml")) { char *b = NULL; int l = 0; ret = hwloc_topology_export_xmlbuffer(t, &b, &l, (unsigned long)x); err = errno; out(",\"xmllen\":%d", l); if (!ret) hwloc_free_xmlbuffer(t, b); }
  else if (!strcmp(op, "dup")) {
    /* x = 1: also restrict the copy to its first PU before destroying it */
    hwloc_topology_t d2 = NULL; int r2 = -2;
    ret = hwloc_topology_dup(&d2, t); err = errno;
    if (!ret) {
      out_obs("dup", d2, 0);
      if (x == 1) { hwloc_bitmap_t s = hwloc_bitmap_dup(nth(d2, HWLOC_OBJ_PU, 0)->cpuset); r2 = hwloc_topology_restrict(d2, s, 0); hwloc_bitmap_free(s); out(",\"dup_restrict\":%d,\"dup_npu\":%d", r2, hwloc_get_nbobjs_by_type(d2, HWLOC_OBJ_PU)); }
      hwloc_topology_destroy(d2);
    }
  }
  else if (!strcmp(op, "reshare")) {
    /* the adopted topology is shared again: measured, written into a second file for another address range (slot 3, which no
     * behaviour uses otherwise), adopted from there, observed, destroyed */
    size_t l = 0; int r1 = -2, r2 = -2;
    ret = hwloc_shmem_topology_get_length(t, &l, 0); err = errno;
    if (!ret) {
      char path[4096]; int fd2; char *a = slot_addr(3, 0, 0); hwloc_topology_t t2 = NULL;
      snprintf(path, sizeof path, "%s/hwv_shmem2.XXXXXX", scratchdir);
      fd2 = mkstemp(path);
      if (fd2 >= 0) {
        unlink(path);
        punch(a, l, 1);
        errno = 0; r1 = hwloc_shmem_topology_write(t, fd2, 0, a, l, 0); err = errno;
        if (!r1) {
          errno = 0; r2 = hwloc_shmem_topology_adopt(&t2, fd2, 0, a, l, 0); err = errno;
          if (!r2) { out_obs("re", t2, 0); hwloc_topology_destroy(t2); }
        }
        out(",\"refree\":%d", range_free(a, l));
        punch(a, l, 2);
        close(fd2);
      }
      ret = r1 ? r1 : r2;
    }
    out(",\"relen\":%lu,\"rewrite\":%d,\"readopt\":%d", (unsigned long)(l & 0x7fffffff), r1, r2);
  }
  else if (!strcmp(op, "get_length")) { size_t l = 0; ret = hwloc_shmem_topology_get_length(t, &l, (unsigned long)x); err = errno; out(",\"len\":%lu", ret ? 0UL : (unsigned long)(l & 0x7fffffff)); }
  else if (!strcmp(op, "check")) { hwloc_topology_check(t); ret = 0; }
  else if (!strcmp(op, "set_userdata")) { hwloc_topology_set_userdata(t, (void *)(uintptr_t)x); ret = 0; out(",\"got\":%ld", (long)(uintptr_t)hwloc_topology_get_userdata(t)); }
  else if (!strcmp(op, "tinfo_add")) { ret = hwloc_modify_infos(hwloc_topology_get_infos(t), HWLOC_MODIFY_INFOS_OP_ADD, s1 ? s1 : "hwvt", s2 ? s2 : "1"); err = errno; full = 1; }
  else if (!strcmp(op, "bind_get")) { hwloc_bitmap_t s = hwloc_bitmap_alloc(); ret = hwloc_get_cpubind(t, s, (int)x); err = errno; hwloc_bitmap_free(s); }
  else if (!strcmp(op, "abi_check")) { ret = hwloc_topology_abi_check(t); err = errno; }
  else { hwv_len = hwv_commit; return; }        /* unknown call: no event */
  if (full) out_obs("obs", t, 1);
  ev_finish(ret, err, ret < 0);
}
static int adopter(char **lines, size_t n) {
  size_t i;
  out("{\"e\":\"adopter\"}"); out_end();
  for (i = 0; i < n; i++) {
    char *p = lines[i]; char *cmd = hwv_tok(&p);
    if (!cmd) continue;
    if (!strcmp(cmd, "adopt")) do_adopt(p);
    else if (!strcmp(cmd, "call")) do_call(p);
    else if (!strcmp(cmd, "destroy")) do_destroy(p);
    if (hwv_commit > (1u << 16)) hwv_flush();
  }
  out("{\"e\":\"end\"}"); out_end();
  return 0;
}

static void handler(char **lines, size_t n, int beh) {
  size_t i;
  for (i = 0; i < n; i++) {
    char *p = lines[i]; char *cmd = hwv_tok(&p);
    if (!cmd) continue;
    if (!strcmp(cmd, "reset")) { do_reset(beh); continue; }
    if (stopped) continue;
    if (!strcmp(cmd, "load")) { if (!orig) do_load(p); }
    else if (!strcmp(cmd, "prep")) do_prep(p);
    else if (!strcmp(cmd, "reload")) do_reload(p);
    else if (!strcmp(cmd, "snapshot")) do_snapshot();
    else if (!strcmp(cmd, "get_length")) do_get_length(p);
    else if (!strcmp(cmd, "write")) do_write(p);
    else if (!strcmp(cmd, "patch")) do_patch(p);
    else if (!strcmp(cmd, "adopter")) {
      size_t j = i + 1;
      while (j < n && strncmp(lines[j], "end", 3)) j++;
      in_child(adopter, lines + i + 1, j - i - 1);
      i = j;
    }
  }
}

int main(int argc, char **argv) {
  static char dir[4096]; char *slash;
  if (argc < 3) { fprintf(stderr, "usage: hwv_shmem <behaviours> <trace.ndjson>\n"); return 2; }
  /* the shared file lives next to the trace (scratch directory of the check) */
  snprintf(dir, sizeof dir, "%s", argv[2]); slash = strrchr(dir, '/');
  if (slash) { *slash = 0; scratchdir = dir; } else scratchdir = ".";
  return hwv_run(argv[1], argv[2], handler);
}
