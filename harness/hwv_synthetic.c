/* hwv_synthetic: recorder for synthetic descriptions (C07).  No oracle logic and no rendering:
 * the description text comes from the behaviour file (written by the TLA+ model or by the hostile
 * string generator); every call is performed and its arguments, return value, errno and the state
 * observable through the public API are logged; spec/TraceSynthetic.tla judges them.
 *
 * behaviour file (one behaviour = one description):
 *   reset
 *   d <json>                  abstract description emitted by the model, echoed verbatim into the next "set" event
 *   filter <type> <kind>      hwloc_topology_set_type_filter(type, kind) on the topology (initialised by the first "filter"
 *                             or "set" line), before or after "set"; the accepted calls are repeated on the second topology
 *                             of every reload
 *   set x<hex>                hwloc_topology_init (unless a filter line did it) + hwloc_topology_set_synthetic(text); the text
 *                             sits in an exactly-sized heap block that is freed right after the call
 *   load <full>               hwloc_topology_load (only when set returned 0); logs the full projection (project.h,
 *                             when full=1) and the summary below
 *   perturb cpu|node <os>     hwloc_topology_restrict to the current cpuset minus one PU / nodeset minus one node
 *   export <maxsizes> <reload> <flags>:<all> ...
 *                             hwloc_topology_export_synthetic with each flag word: one call with a large buffer (its
 *                             content is the untruncated text), then (all=1) one call per buffer length 0..needed+1
 *                             with 32 guard bytes on each side and once more in an exactly-sized heap block; (all=0)
 *                             lengths 0, 1 and needed+1 only.  When needed+1 exceeds maxsizes (>0) only the lengths
 *                             0..maxsizes/2 and needed-maxsizes/2..needed+1 are tried.
 *                             Then (reload=1) every distinct exported text is loaded into a second topology: its summary,
 *                             and its export with each of the flag words that produced this text, are logged.
 *   end                       destroy
 *
 * summary of a topology: per normal level the type, width and per object os_index, arity, memory arity, cpuset and
 * cache size; the NUMA nodes in logical order with os_index, local memory, cpuset and the depth / logical index of
 * the normal object they hang from; symmetric_subtree of the root.
 */
#include "project.h"
#include <hwloc.h>
#include <hwloc/export.h>

#define GUARD 32
#define FILLG 0xA5
#define FILLB 0x5A
#define BIGCAP 65536
#define MAXTEXT 16384

static hwloc_topology_t topo; static int set_ok, loaded, was_set;
#define MAXFLT 16
static int flt_type[MAXFLT], flt_kind[MAXFLT], nflt;
static char *pending_d;

static int os_of(hwloc_obj_t o) { return o->os_index == HWLOC_UNKNOWN_INDEX ? -1 : (int)(o->os_index & 0x7fffffff); }

static void out_summary(hwloc_topology_t t) {
  int depth = hwloc_topology_get_depth(t), d; unsigned i, nb;
  hwloc_obj_t root = hwloc_get_root_obj(t);
  out("{\"depth\":%d,\"rsym\":%d,\"lv\":[", depth, root ? root->symmetric_subtree : -1);
  for (d = 0; d < depth; d++) {
    nb = hwloc_get_nbobjs_by_depth(t, d);
    out("%s{\"type\":%d,\"nb\":%u,\"os\":[", d ? "," : "", (int)hwloc_get_depth_type(t, d), nb);
    for (i = 0; i < nb; i++) out("%s%d", i ? "," : "", os_of(hwloc_get_obj_by_depth(t, d, i)));
    out("],\"ar\":[");
    for (i = 0; i < nb; i++) out("%s%u", i ? "," : "", hwloc_get_obj_by_depth(t, d, i)->arity);
    out("],\"mar\":[");
    for (i = 0; i < nb; i++) out("%s%u", i ? "," : "", hwloc_get_obj_by_depth(t, d, i)->memory_arity);
    out("],\"cs\":[");
    for (i = 0; i < nb; i++) { if (i) out(","); out_set(hwloc_get_obj_by_depth(t, d, i)->cpuset); }
    out("],\"size\":[");
    for (i = 0; i < nb; i++) {
      hwloc_obj_t o = hwloc_get_obj_by_depth(t, d, i);
      if (!hwloc_obj_type_is_cache(o->type)) break;
      if (i) out(",");
      out_u64(o->attr->cache.size);
    }
    out("]}");
  }
  out("],\"numa\":[");
  nb = hwloc_get_nbobjs_by_depth(t, HWLOC_TYPE_DEPTH_NUMANODE);
  for (i = 0; i < nb; i++) {
    hwloc_obj_t o = hwloc_get_obj_by_depth(t, HWLOC_TYPE_DEPTH_NUMANODE, i), p = o->parent;
    while (p && !hwloc_obj_type_is_normal(p->type)) p = p->parent;
    out("%s{\"os\":%d,\"mem\":", i ? "," : "", os_of(o)); out_u64(o->attr->numanode.local_memory);
    out(",\"cs\":"); out_set(o->cpuset);
    out(",\"pd\":%d,\"pl\":%d}", p ? p->depth : -1, p ? (int)p->logical_index : -1);
  }
  out("]}");
}

static int unhex(const char *h, char **bufp, size_t *lenp) {
  size_t n = strlen(h) / 2, i; char *b = malloc(n + 1);   /* exactly sized: text + NUL */
  for (i = 0; i < n; i++) { unsigned v = 0; if (sscanf(h + 2 * i, "%2x", &v) != 1) { free(b); return -1; } b[i] = (char)v; }
  b[n] = 0; *bufp = b; *lenp = n; return 0;
}

/* one export call in a guarded buffer of `s` usable bytes */
static void out_one_size(hwloc_topology_t t, unsigned long flags, size_t s, int first) {
  unsigned char *buf = malloc(GUARD + s + GUARD); size_t i, len; int ret, glo = 0, ghi = 0; long nul = -1; int err;
  memset(buf, FILLG, GUARD); memset(buf + GUARD, FILLB, s); memset(buf + GUARD + s, FILLG, GUARD);
  errno = 0;
  ret = hwloc_topology_export_synthetic(t, (char *)buf + GUARD, s, flags); err = errno;
  for (i = 0; i < GUARD; i++) { if (buf[i] != FILLG) glo++; if (buf[GUARD + s + i] != FILLG) ghi++; }
  for (i = 0; i < s; i++) if (!buf[GUARD + i]) { nul = (long)i; break; }
  len = nul >= 0 ? (size_t)nul : s;
  out("%s[%zu,%d,%ld,%d,%d,", first ? "" : ",", s, ret, nul, glo, ghi);
  if (ret >= 0) out_jstrn((char *)buf + GUARD, len); else out("\"\"");
  out(",\"%s\"]", errname(err));
  free(buf);
  /* the same call in an exactly-sized heap block: a write past the end is caught by the sanitizer */
  { char *ex = malloc(s ? s : 1); hwloc_topology_export_synthetic(t, ex, s, flags); free(ex); }
}

#define MAXFL 64
static void do_export(char *p) {
  long maxsizes = hwv_tokl(&p); int reload = (int)hwv_tokl(&p); char *tk;
  unsigned long fl[MAXFL]; int all[MAXFL]; char *full[MAXFL]; int nfl = 0, k, j;
  while ((tk = hwv_tok(&p)) && nfl < MAXFL) { char *c = strchr(tk, ':'); fl[nfl] = strtoul(tk, NULL, 0); all[nfl] = c ? atoi(c + 1) : 0; full[nfl] = NULL; nfl++; }
  for (k = 0; k < nfl; k++) {
    char *big = malloc(GUARD + BIGCAP + GUARD); int rbig, err, first = 1, glo = 0, ghi = 0; size_t s, top, i;
    memset(big, FILLG, GUARD + BIGCAP + GUARD); memset(big + GUARD, FILLB, BIGCAP);
    errno = 0;
    rbig = hwloc_topology_export_synthetic(topo, big + GUARD, BIGCAP, fl[k]); err = errno;
    for (i = 0; i < GUARD; i++) { if ((unsigned char)big[i] != FILLG) glo++; if ((unsigned char)big[GUARD + BIGCAP + i] != FILLG) ghi++; }
    out("{\"e\":\"export\",\"flags\":%lu,\"all\":%d,\"reload\":%d,\"cap\":%d,\"rbig\":%d,\"errno\":\"%s\",\"glo\":%d,\"ghi\":%d,\"full\":", fl[k] & 0x7fffffff, all[k], reload, BIGCAP, rbig, errname(err), glo, ghi);
    if (rbig >= 0) { size_t n = strnlen(big + GUARD, BIGCAP); out_jstrn(big + GUARD, n); if (n < BIGCAP) full[k] = strndup(big + GUARD, n); } else out("\"\"");
    out(",\"calls\":[");
    top = (rbig > 0 ? (size_t)rbig : 0) + 1;
    for (s = 0; s <= top; s++) {
      if (!all[k] && s != 0 && s != 1 && s != top) continue;
      if (maxsizes > 0 && top > (size_t)maxsizes && s > (size_t)maxsizes / 2 && s + (size_t)maxsizes / 2 < top) continue;
      out_one_size(topo, fl[k], s, first); first = 0;
    }
    out("]}"); out_end();
    free(big);
  }
  /* reload every distinct exported text */
  for (k = 0; reload && k < nfl; k++) {
    hwloc_topology_t t2 = NULL; int r1 = -1, e1 = 0, r2 = -1, e2 = 0; char *copy; size_t n; int flt_ret[MAXFLT];
    if (!full[k]) continue;
    for (j = 0; j < k; j++) if (full[j] && !strcmp(full[j], full[k])) break;
    if (j < k) continue;
    n = strlen(full[k]); copy = malloc(n + 1); memcpy(copy, full[k], n + 1);
    hwloc_topology_init(&t2);
    { int x; for (x = 0; x < nflt; x++) flt_ret[x] = hwloc_topology_set_type_filter(t2, (hwloc_obj_type_t)flt_type[x], (enum hwloc_type_filter_e)flt_kind[x]); }
    errno = 0; r1 = hwloc_topology_set_synthetic(t2, copy); e1 = errno;
    free(copy);
    if (!r1) { errno = 0; r2 = hwloc_topology_load(t2); e2 = errno; }
    out("{\"e\":\"reload\",\"text\":"); out_jstr(full[k]); out(",\"flags\":[");
    { int c = 0; for (j = k; j < nfl; j++) if (full[j] && !strcmp(full[j], full[k])) out("%s%lu", c++ ? "," : "", fl[j]); }
    out("],\"set\":%d,\"seterr\":\"%s\",\"load\":%d,\"loaderr\":\"%s\",\"flt\":[", r1, errname(e1), r2, errname(e2));
    { int x; for (x = 0; x < nflt; x++) out("%s[%d,%d,%d]", x ? "," : "", flt_type[x], flt_kind[x], flt_ret[x]); }
    out("],\"sum\":");
    if (!r1 && !r2) out_summary(t2); else out("{\"depth\":0}");
    out(",\"re\":[");
    if (!r1 && !r2) {
      int c = 0;
      for (j = k; j < nfl; j++) if (full[j] && !strcmp(full[j], full[k])) {
        char *b = malloc(BIGCAP); int r;
        b[0] = 0; r = hwloc_topology_export_synthetic(t2, b, BIGCAP, fl[j]);
        out("%s[%lu,%d,", c++ ? "," : "", fl[j], r); if (r >= 0) out_jstrn(b, strnlen(b, BIGCAP)); else out("\"\""); out("]");
        free(b);
      }
    }
    out("]}"); out_end();
    hwloc_topology_destroy(t2);
  }
  for (k = 0; k < nfl; k++) free(full[k]);
}

static void handler(char **lines, size_t n, int beh) {
  size_t i;
  for (i = 0; i < n; i++) {
    char *p = lines[i]; char *cmd = hwv_tok(&p);
    if (!cmd) continue;
    if (!strcmp(cmd, "reset")) {
      if (topo) hwloc_topology_destroy(topo);
      topo = NULL; set_ok = loaded = was_set = nflt = 0; free(pending_d); pending_d = NULL;
      unsetenv("HWLOC_SYNTHETIC"); unsetenv("HWLOC_XMLFILE"); unsetenv("HWLOC_COMPONENTS"); unsetenv("HWLOC_SYNTHETIC_VERBOSE"); unsetenv("HWLOC_THISSYSTEM");
      out("{\"e\":\"Reset\",\"beh\":%d}", beh); out_end();
    } else if (!strcmp(cmd, "d")) {
      while (*p == ' ') p++;
      free(pending_d); pending_d = strdup(p);
    } else if (!strcmp(cmd, "set")) {
      char *hex = hwv_tok(&p), *text = NULL; size_t len = 0; int ret, err;
      if (was_set || !hex || hex[0] != 'x' || unhex(hex + 1, &text, &len) < 0) continue;
      if (!topo) hwloc_topology_init(&topo);
      was_set = 1;
      errno = 0;
      ret = hwloc_topology_set_synthetic(topo, text); err = errno;
      out("{\"e\":\"set\",\"model\":%d,\"d\":%s,\"len\":%zu,\"text\":", pending_d ? 1 : 0, pending_d ? pending_d : "0", len);
      out_jstrn(text, len > MAXTEXT ? MAXTEXT : len);
      out(",\"ret\":%d,\"errno\":\"%s\"}", ret, errname(err)); out_end();
      free(text);                              /* the library must not keep pointers into the caller's string */
      set_ok = !ret;
    } else if (!strcmp(cmd, "filter")) {
      int type = (int)hwv_tokl(&p), kind = (int)hwv_tokl(&p), ret, err;
      if (loaded || (was_set && !set_ok)) continue;
      if (!topo) hwloc_topology_init(&topo);
      errno = 0;
      ret = hwloc_topology_set_type_filter(topo, (hwloc_obj_type_t)type, (enum hwloc_type_filter_e)kind); err = errno;
      out("{\"e\":\"filter\",\"type\":%d,\"kind\":%d,\"ret\":%d,\"errno\":\"%s\"}", type, kind, ret, errname(err)); out_end();
      if (!ret && nflt < MAXFLT) { flt_type[nflt] = type; flt_kind[nflt] = kind; nflt++; }
    } else if (!strcmp(cmd, "load")) {
      int fullp = (int)hwv_tokl(&p), ret, err;
      if (!topo || !set_ok || loaded) continue;
      errno = 0;
      ret = hwloc_topology_load(topo); err = errno;
      loaded = !ret;
      out("{\"e\":\"load\",\"ret\":%d,\"errno\":\"%s\",\"full\":%d,\"slot\":0,\"topos\":[", ret, errname(err), fullp && loaded);
      /* hwloc_topology_check runs in-process (a fork per behaviour costs more than the rest of the behaviour under the
       * sanitizer): when it aborts, the signal handler turns the behaviour into a Crash event, which no trace action accepts */
      if (loaded && fullp) { hwloc_topology_check(topo); project_topology(topo, 0); } else out("{\"n\":0}");
      out("],\"sum\":"); if (loaded) out_summary(topo); else out("{\"depth\":0}");
      out("}"); out_end();
    } else if (!strcmp(cmd, "perturb")) {
      char *kind = hwv_tok(&p); unsigned os = (unsigned)hwv_tokl(&p); int ret, err; hwloc_bitmap_t set;
      if (!loaded || !kind) continue;
      if (!strcmp(kind, "node")) {
        set = hwloc_bitmap_dup(hwloc_topology_get_topology_nodeset(topo)); hwloc_bitmap_clr(set, os);
        errno = 0; ret = hwloc_topology_restrict(topo, set, HWLOC_RESTRICT_FLAG_BYNODESET); err = errno;
      } else {
        set = hwloc_bitmap_dup(hwloc_topology_get_topology_cpuset(topo)); hwloc_bitmap_clr(set, os);
        errno = 0; ret = hwloc_topology_restrict(topo, set, 0); err = errno;
      }
      out("{\"e\":\"perturb\",\"kind\":\"%s\",\"os\":%u,\"set\":", kind, os); out_set(set);
      out(",\"ret\":%d,\"errno\":\"%s\",\"sum\":", ret, errname(err)); out_summary(topo); out("}"); out_end();
      hwloc_bitmap_free(set);
    } else if (!strcmp(cmd, "export")) {
      if (!loaded) continue;
      do_export(p);
    } else if (!strcmp(cmd, "end")) {
      if (topo) hwloc_topology_destroy(topo);
      topo = NULL; set_ok = loaded = was_set = nflt = 0;
      out("{\"e\":\"end\"}"); out_end();
    }
  }
}

int main(int argc, char **argv) {
  if (argc < 3) { fprintf(stderr, "usage: hwv_synthetic <behaviours> <trace.ndjson>\n"); return 2; }
  return hwv_run(argv[1], argv[2], handler);
}
