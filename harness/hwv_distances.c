/* hwv_distances: recorder for the distances API (C13).  No oracle logic: it performs the calls named in the
 * behaviour file and logs arguments, return values, errno and what the public API shows afterwards.
 *
 * behaviour file (tokens separated by single blanks):
 *   reset synth <desc with ',' for ' '> <iofilter> <ncand> <Type:logical:sw>...
 *   reset xml <path> <iofilter> <ncand> <Type:logical:sw>...
 *        iofilter 0 = library default, 1 = KEEP_IMPORTANT, 2 = KEEP_ALL for the I/O types;
 *        candidates are the objects later named by index 1..ncand; sw=1 sets subtype "NVSwitch" on it
 *   create <name|-> <kind> <flags>
 *   values <flags> <n> <c1>..<cn> <v1>..<vn*n>        ci = candidate index, 0 = NULL pointer
 *   commit <flags>
 *   q kind <kind> <flags> <nr_in>                   nr_in = -1: the two-call idiom (count with 0, then exact)
 *   q type <Type> <kind> <flags> <nr_in>
 *   q depth <int | t:Type> <kind> <flags> <nr_in>
 *   q name <name> <flags> <nr_in>
 *   xf <k> <transform> <nullmask> <flags> <attr>    k-th structure of get(all); nullmask = objs set to NULL first
 *   rr <k>            release_remove of the k-th structure of get(all)
 *   rr2 <k>           the same structure obtained twice, release_remove on both copies
 *   remove | rmdepth <int | t:Type> | rmtype <Type>
 *   restrict <flags> <list-syntax bitmap>
 *   dup               hwloc_topology_dup, destroy the old topology, continue on the copy
 *   xml <flags>       export to an XML buffer, load it into a new topology, destroy the old one
 *   shm               write the topology to a shared-memory file, adopt it, look at the adopted (read-only) topology,
 *                     try to modify its distances, destroy it; the original stays the current topology
 * Calls that cannot be made (no live handle, k out of range) are logged as {"e":"skip"}.
 */
#include "hwv_common.h"
#include <hwloc.h>
#include <hwloc/shmem.h>
#include <stdint.h>

#define MAXC 16
#define MAXD 64
static hwloc_topology_t topo;
static int iofilter;
static struct { hwloc_obj_t obj; unsigned long long gp; int sw; } cand[MAXC + 1];
static int ncand;
static void *handle;                     /* live add handle or NULL */
static int handle_filled;                /* add_values succeeded on it: it holds object pointers */

/* ---------- table of the objects of the current topology (public traversal) ---------- */
static hwloc_obj_t *tab; static size_t tabn, tabcap;
static int cmp_ptr(const void *a, const void *b) {
  uintptr_t x = (uintptr_t)*(hwloc_obj_t const *)a, y = (uintptr_t)*(hwloc_obj_t const *)b;
  return x < y ? -1 : x > y;
}
static void tab_add_level(int depth) {
  hwloc_obj_t o = NULL; size_t guard = 0;
  while ((o = hwloc_get_next_obj_by_depth(topo, depth, o)) != NULL && guard++ < 1000000) {
    if (tabn == tabcap) { tabcap = tabcap ? 2 * tabcap : 1024; tab = realloc(tab, tabcap * sizeof *tab); }
    tab[tabn++] = o;
  }
}
static void tab_build(void) {
  int d, td = hwloc_topology_get_depth(topo);
  tabn = 0;
  for (d = 0; d < td; d++) tab_add_level(d);
  for (d = HWLOC_TYPE_DEPTH_NUMANODE; d >= HWLOC_TYPE_DEPTH_MEMCACHE; d--) tab_add_level(d);
  qsort(tab, tabn, sizeof *tab, cmp_ptr);
}
static int tab_has(hwloc_obj_t p) { return p && tabn && bsearch(&p, tab, tabn, sizeof *tab, cmp_ptr) != NULL; }
static hwloc_obj_t tab_by_gp(unsigned long long gp) {
  size_t i;
  for (i = 0; i < tabn; i++) if (tab[i]->gp_index == gp) return tab[i];
  return NULL;
}
static void cands_refresh(void) {
  int i;
  tab_build();
  for (i = 1; i <= ncand; i++) cand[i].obj = cand[i].gp ? tab_by_gp(cand[i].gp) : NULL;
}

/* ---------- projections ---------- */
static int is_sw(hwloc_obj_t o) { return o->subtype && !strcmp(o->subtype, "NVSwitch"); }
/* one object pointer found in a distances structure: [gp, type, here, sw]; NULL = [-1,"",1,0];
 * a pointer that is not an object of the current topology is not dereferenced: [-2,"?",0,0] */
static void out_objp(hwloc_obj_t p) {
  if (!p) out("[-1,\"\",1,0]");
  else if (!tab_has(p)) out("[-2,\"?\",0,0]");
  else { out("[%llu,", (unsigned long long)p->gp_index); out_jstr(hwloc_obj_type_string(p->type)); out(",1,%d]", is_sw(p)); }
}
static void out_u64(hwloc_uint64_t v) {
  if (v < (1ULL << 31)) out("%llu", (unsigned long long)v); else out("\"%llu\"", (unsigned long long)v);
}
static void out_dist(struct hwloc_distances_s *d, int withname) {
  unsigned i, n = d->nbobjs;
  out("{");
  if (withname) {
    const char *nm = hwloc_distances_get_name(topo, d);
    out("\"name\":"); out_jstr(nm ? nm : ""); out(",\"hasname\":%d,", nm != NULL);
  }
  out("\"kind\":%lu,\"n\":%u,\"objs\":[", d->kind, n);
  for (i = 0; i < n; i++) { if (i) out(","); out_objp(d->objs[i]); }
  out("],\"vals\":[");
  for (i = 0; i < n * n; i++) { if (i) out(","); out_u64(d->values[i]); }
  out("]}");
}
/* the complete observable state: get(kind 0, nr large) */
static unsigned get_all(struct hwloc_distances_s **arr, int *ret, int *err) {
  unsigned nr = MAXD;
  errno = 0; *ret = hwloc_distances_get(topo, &nr, arr, 0, 0); *err = errno;
  if (*ret < 0) return 0;
  return nr > MAXD ? MAXD : nr;
}
static void release_all(struct hwloc_distances_s **arr, unsigned n) { unsigned i; for (i = 0; i < n; i++) if (arr[i]) hwloc_distances_release(topo, arr[i]); }
static void out_obs(void) {
  struct hwloc_distances_s *arr[MAXD]; int ret, err; unsigned i, n = get_all(arr, &ret, &err);
  out("\"obs\":{\"ret\":%d,\"nr\":%u,\"l\":[", ret, n);
  for (i = 0; i < n; i++) { if (i) out(","); out_dist(arr[i], 1); }
  out("]}");
  release_all(arr, n);
}
/* distinct gp indexes referenced by the stored structures (taken before an operation) */
static unsigned long long pre_gp[4096]; static unsigned npre;
static void pre_collect(void) {
  struct hwloc_distances_s *arr[MAXD]; int ret, err; unsigned i, j, k, n = get_all(arr, &ret, &err);
  npre = 0;
  for (i = 0; i < n; i++) for (j = 0; j < arr[i]->nbobjs; j++) {
    hwloc_obj_t p = arr[i]->objs[j];
    if (!tab_has(p)) continue;
    for (k = 0; k < npre; k++) if (pre_gp[k] == p->gp_index) break;
    if (k == npre && npre < 4096) pre_gp[npre++] = p->gp_index;
  }
  release_all(arr, n);
}
static void out_surv(void) {   /* after the operation, on the rebuilt table */
  unsigned k;
  out("\"surv\":[");
  for (k = 0; k < npre; k++) out("%s[%llu,%d]", k ? "," : "", pre_gp[k], tab_by_gp(pre_gp[k]) != NULL);
  out("]");
}
static int run_check(void) {     /* hwloc_topology_check() in a child: 1 = returned normally */
  pid_t pid; int st;
  fflush(NULL);
  pid = fork();
  if (pid < 0) return -1;
  if (!pid) {
    int sigs[] = { SIGSEGV, SIGBUS, SIGABRT, SIGFPE, SIGILL, SIGALRM, SIGPIPE }; unsigned i; int fd;
    for (i = 0; i < sizeof sigs / sizeof *sigs; i++) signal(sigs[i], SIG_DFL);
    fd = open("/dev/null", O_WRONLY); if (fd >= 0) { dup2(fd, 2); dup2(fd, 1); }
    alarm(10);
    hwloc_topology_check(topo);
    _exit(0);
  }
  if (waitpid(pid, &st, 0) < 0) return -1;
  return WIFEXITED(st) && WEXITSTATUS(st) == 0;
}
static int parse_type(const char *s, hwloc_obj_type_t *t) { return hwloc_type_sscanf(s, t, NULL, 0); }
static int parse_depth(const char *s, int *depth) {
  if (!strncmp(s, "t:", 2)) { hwloc_obj_type_t t; if (parse_type(s + 2, &t) < 0) return -1; *depth = hwloc_get_type_depth(topo, t); return 0; }
  *depth = atoi(s); return 0;
}
static void out_dtype(int depth) {
  hwloc_obj_type_t t = hwloc_get_depth_type(topo, depth);
  out("\"depth\":%d,\"dtype\":", depth);
  if (t == (hwloc_obj_type_t)-1) out("\"\""); else out_jstr(hwloc_obj_type_string(t));
}
static void out_skip(const char *op, long k, unsigned nr) {
  out("{\"e\":\"skip\",\"op\":\"%s\",\"k\":%ld,\"nr\":%u,\"handle\":%d,\"filled\":%d}", op, k, nr, handle != NULL, handle && handle_filled); out_end();
}

/* root cpuset/nodeset and, for every object referenced by a stored structure, [gp, type, cpuset, nodeset] of the
 * object (of its non-I/O ancestor for I/O objects), in list syntax: lets the orchestration choose restrict sets */
static void out_list(hwloc_const_bitmap_t b) {
  char *s = NULL;
  if (b && hwloc_bitmap_list_asprintf(&s, b) >= 0 && s) { out_jstr(s); free(s); } else out("\"\"");
}
static void out_sets(void) {
  hwloc_obj_t root = hwloc_get_root_obj(topo); unsigned k;
  out("\"root\":["); out_list(root->cpuset); out(","); out_list(root->nodeset); out("],\"objsets\":[");
  pre_collect();
  for (k = 0; k < npre; k++) {
    hwloc_obj_t o = tab_by_gp(pre_gp[k]), a = o;
    if (a && !a->cpuset) a = hwloc_get_non_io_ancestor_obj(topo, a);
    while (a && !a->cpuset) a = a->parent;
    out("%s[%llu,", k ? "," : "", pre_gp[k]); out_jstr(o ? hwloc_obj_type_string(o->type) : ""); out(",");
    out_list(a ? a->cpuset : NULL); out(","); out_list(a ? a->nodeset : NULL); out("]");
  }
  out("],");
}

/* ---------- actions ---------- */
static void set_iofilter(hwloc_topology_t t) {
  if (iofilter == 1) hwloc_topology_set_io_types_filter(t, HWLOC_TYPE_FILTER_KEEP_IMPORTANT);
  else if (iofilter == 2) hwloc_topology_set_io_types_filter(t, HWLOC_TYPE_FILTER_KEEP_ALL);
}
static void do_reset(char *p, int beh) {
  char *mode = hwv_tok(&p), *src = hwv_tok(&p), *q; int ok = 0, i;
  if (topo) { hwloc_topology_destroy(topo); topo = NULL; }
  handle = NULL; handle_filled = 0; ncand = 0;
  iofilter = (int)hwv_tokl(&p);
  if (mode && src && !hwloc_topology_init(&topo)) {
    set_iofilter(topo);
    if (!strcmp(mode, "synth")) { for (q = src; *q; q++) if (*q == ',') *q = ' '; ok = !hwloc_topology_set_synthetic(topo, src); }
    else ok = !hwloc_topology_set_xml(topo, src);
    if (ok) ok = !hwloc_topology_load(topo);
    if (!ok) { hwloc_topology_destroy(topo); topo = NULL; }
  }
  out("{\"e\":\"Reset\",\"beh\":%d,\"mode\":", beh); out_jstr(mode ? mode : ""); out(",\"src\":"); out_jstr(src ? src : "");
  out(",\"ok\":%d,\"cands\":[", ok);
  if (ok) {
    tab_build();
    ncand = (int)hwv_tokl(&p); if (ncand > MAXC) ncand = MAXC;
    for (i = 1; i <= ncand; i++) {
      char *c = hwv_tok(&p), *c2, *c3; hwloc_obj_type_t t; hwloc_obj_t o = NULL;
      cand[i].obj = NULL; cand[i].gp = 0; cand[i].sw = 0;
      if (c && (c2 = strchr(c, ':')) != NULL) {
        *c2++ = 0; c3 = strchr(c2, ':'); if (c3) *c3++ = 0;
        if (parse_type(c, &t) == 0) o = hwloc_get_obj_by_type(topo, t, (unsigned)atoi(c2));
        if (o) {
          cand[i].obj = o; cand[i].gp = o->gp_index; cand[i].sw = c3 ? atoi(c3) : 0;
          if (cand[i].sw) hwloc_obj_set_subtype(topo, o, "NVSwitch");
        }
      }
      out("%s[%llu,", i > 1 ? "," : "", cand[i].gp); out_jstr(o ? hwloc_obj_type_string(o->type) : ""); out(",%d]", o ? is_sw(o) : 0);
    }
  }
  out("],");
  if (ok) { out_sets(); out_obs(); } else out("\"root\":[\"\",\"\"],\"objsets\":[],\"obs\":{\"ret\":-1,\"nr\":0,\"l\":[]}");
  out("}"); out_end();
}

static void do_create(char *p) {
  char *name = hwv_tok(&p); unsigned long kind = (unsigned long)hwv_tokl(&p), flags = (unsigned long)hwv_tokl(&p); int err;
  const char *nm = (name && strcmp(name, "-")) ? name : NULL;
  errno = 0; handle = hwloc_distances_add_create(topo, nm, kind, flags); err = errno; handle_filled = 0;
  out("{\"e\":\"create\",\"name\":"); out_jstr(nm ? nm : ""); out(",\"hasname\":%d,\"kind\":%lu,\"flags\":%lu,\"ok\":%d,\"errno\":\"%s\",",
      nm != NULL, kind, flags, handle != NULL, handle ? "0" : errname(err));
  out_obs(); out("}"); out_end();
}
static void do_values(char *p) {
  unsigned long flags = (unsigned long)hwv_tokl(&p); int n = (int)hwv_tokl(&p), i, ret, err;
  hwloc_obj_t objs[MAXC + 1]; hwloc_uint64_t vals[(MAXC + 1) * (MAXC + 1)];
  if (!handle) { out_skip("values", 0, 0); return; }
  if (n < 0) n = 0;
  if (n > MAXC) n = MAXC;
  memset(objs, 0, sizeof objs); memset(vals, 0, sizeof vals);
  for (i = 0; i < n; i++) { int c = (int)hwv_tokl(&p); objs[i] = (c >= 1 && c <= ncand) ? cand[c].obj : NULL; }
  for (i = 0; i < n * n; i++) { char *t = hwv_tok(&p); vals[i] = t ? (hwloc_uint64_t)strtoull(t, NULL, 10) : 0; }
  out("{\"e\":\"values\",\"flags\":%lu,\"n\":%d,\"objs\":[", flags, n);
  for (i = 0; i < n; i++) { if (i) out(","); out_objp(objs[i]); }
  out("],\"vals\":[");
  for (i = 0; i < n * n; i++) { if (i) out(","); out_u64(vals[i]); }
  errno = 0; ret = hwloc_distances_add_values(topo, handle, (unsigned)n, objs, vals, flags); err = errno;
  if (ret < 0) handle = NULL;           /* documented: on error the temporary structure is destroyed */
  else handle_filled = 1;
  out("],\"ret\":%d,\"errno\":\"%s\",", ret, ret < 0 ? errname(err) : "0");
  out_obs(); out("}"); out_end();
}
static void do_commit(char *p) {
  unsigned long flags = (unsigned long)hwv_tokl(&p); int ret, err, chk;
  if (!handle) { out_skip("commit", 0, 0); return; }
  errno = 0; ret = hwloc_distances_add_commit(topo, handle, flags); err = errno;
  handle = NULL;                        /* committed, or destroyed on error */
  cands_refresh();                      /* grouping may have inserted objects */
  chk = (flags & HWLOC_DISTANCES_ADD_FLAG_GROUP) ? run_check() : -1;    /* -1: not run, no grouping was requested */
  out("{\"e\":\"commit\",\"flags\":%lu,\"ret\":%d,\"errno\":\"%s\",\"check_ok\":%d,", flags, ret, ret < 0 ? errname(err) : "0", chk);
  out_obs(); out("}"); out_end();
}

/* one get* call; what: 0 kind, 1 type, 2 depth, 3 name */
static void one_query(int what, const char *arg, hwloc_obj_type_t type, int depth, unsigned long kind, unsigned long flags, long nr_in) {
  struct hwloc_distances_s *arr[MAXD + 1], *sentinel = (struct hwloc_distances_s *)(uintptr_t)0x10; unsigned nr, i, cap; int ret = 0, err;
  if (nr_in > MAXD) nr_in = MAXD;
  if (nr_in < 0) nr_in = 0;
  cap = (unsigned)nr_in + 1 > MAXD ? MAXD : (unsigned)nr_in + 1;      /* one slot past nr_in must stay untouched */
  for (i = 0; i <= MAXD; i++) arr[i] = sentinel;
  nr = (unsigned)nr_in;
  errno = 0;
  switch (what) {
  case 0: ret = hwloc_distances_get(topo, &nr, arr, kind, flags); break;
  case 1: ret = hwloc_distances_get_by_type(topo, type, &nr, arr, kind, flags); break;
  case 2: ret = hwloc_distances_get_by_depth(topo, depth, &nr, arr, kind, flags); break;
  default: ret = hwloc_distances_get_by_name(topo, arg, &nr, arr, flags); break;
  }
  err = errno;
  out("{\"e\":\"q\",\"by\":\"%s\",\"arg\":", what == 0 ? "kind" : what == 1 ? "type" : what == 2 ? "depth" : "name");
  if (what == 1) out_jstr(hwloc_obj_type_string(type)); else out_jstr(arg ? arg : "");
  out(",");
  if (what == 2) out_dtype(depth); else out("\"depth\":0,\"dtype\":\"\"");
  out(",\"kind\":%lu,\"flags\":%lu,\"nr_in\":%ld,\"ret\":%d,\"errno\":\"%s\",\"nr\":%u,\"slots\":[", kind, flags, nr_in, ret, ret < 0 ? errname(err) : "0", nr);
  /* caller's array after the call (one slot more than announced): P = a pointer was stored, N = NULL, S = untouched */
  for (i = 0; i < cap; i++) out("%s\"%c\"", i ? "," : "", arr[i] == sentinel ? 'S' : arr[i] == NULL ? 'N' : 'P');
  out("],\"res\":[");
  if (ret == 0) {
    unsigned stored = nr < (unsigned)nr_in ? nr : (unsigned)nr_in, first = 1;
    for (i = 0; i < stored; i++) if (arr[i] && arr[i] != sentinel) { if (!first) out(","); first = 0; out_dist(arr[i], 1); }
    for (i = 0; i < stored; i++) if (arr[i] && arr[i] != sentinel) hwloc_distances_release(topo, arr[i]);
  }
  out("],"); out_obs(); out("}"); out_end();
}
static void do_q(char *p) {
  char *by = hwv_tok(&p), *arg = NULL; int what, depth = 0; hwloc_obj_type_t type = HWLOC_OBJ_MACHINE;
  unsigned long kind = 0, flags; long nr_in;
  if (!by) return;
  what = !strcmp(by, "kind") ? 0 : !strcmp(by, "type") ? 1 : !strcmp(by, "depth") ? 2 : 3;
  if (what != 0) arg = hwv_tok(&p);
  if (what == 1 && (!arg || parse_type(arg, &type) < 0)) return;
  if (what == 2 && (!arg || parse_depth(arg, &depth) < 0)) return;
  if (what != 3) kind = (unsigned long)hwv_tokl(&p);
  flags = (unsigned long)hwv_tokl(&p); nr_in = hwv_tokl(&p);
  if (nr_in == -1) {                     /* the documented two-call idiom */
    unsigned nr = 0; int ret;
    one_query(what, arg, type, depth, kind, flags, 0);
    switch (what) {
    case 0: ret = hwloc_distances_get(topo, &nr, NULL, kind, flags); break;
    case 1: ret = hwloc_distances_get_by_type(topo, type, &nr, NULL, kind, flags); break;
    case 2: ret = hwloc_distances_get_by_depth(topo, depth, &nr, NULL, kind, flags); break;
    default: ret = hwloc_distances_get_by_name(topo, arg, &nr, NULL, flags); break;
    }
    if (ret == 0) one_query(what, arg, type, depth, kind, flags, (long)nr);
  } else one_query(what, arg, type, depth, kind, flags, nr_in);
}

static void do_xf(char *p) {
  long k = hwv_tokl(&p); int tr = (int)hwv_tokl(&p); unsigned long mask = (unsigned long)hwv_tokl(&p), flags = (unsigned long)hwv_tokl(&p);
  int attr = (int)hwv_tokl(&p), ret, err, gret, gerr; unsigned i, n; static int dummy;
  struct hwloc_distances_s *arr[MAXD], *d;
  n = get_all(arr, &gret, &gerr);
  if (k < 0 || (unsigned long)k >= n) { release_all(arr, n); out_skip("xf", k, n); return; }
  d = arr[k];
  out("{\"e\":\"xf\",\"k\":%ld,\"tr\":%d,\"mask\":%lu,\"flags\":%lu,\"attr\":%d,\"before\":", k, tr, mask, flags, attr);
  out_dist(d, 1);
  for (i = 0; i < d->nbobjs && i < 8 * sizeof mask; i++) if (mask & (1UL << i)) d->objs[i] = NULL;
  out(",\"input\":"); out_dist(d, 0);
  errno = 0; ret = hwloc_distances_transform(topo, d, (enum hwloc_distances_transform_e)tr, attr ? (void *)&dummy : NULL, flags); err = errno;
  out(",\"ret\":%d,\"errno\":\"%s\",\"after\":", ret, ret < 0 ? errname(err) : "0");
  out_dist(d, 0);
  out(",");
  release_all(arr, n);
  out_obs(); out("}"); out_end();
}
static void do_rr(char *p, int twice) {
  long k = hwv_tokl(&p); struct hwloc_distances_s *a[MAXD], *b[MAXD]; unsigned na, nb = 0, i; int ret, err, ret2 = 0, err2 = 0, gr, ge;
  na = get_all(a, &gr, &ge);
  if (k < 0 || (unsigned long)k >= na) { release_all(a, na); out_skip(twice ? "rr2" : "rr", k, na); return; }
  if (twice) nb = get_all(b, &gr, &ge);
  out("{\"e\":\"%s\",\"k\":%ld,\"target\":", twice ? "rr2" : "rr", k); out_dist(a[k], 1);
  errno = 0; ret = hwloc_distances_release_remove(topo, a[k]); err = errno;
  if (ret < 0) hwloc_distances_release(topo, a[k]);
  a[k] = NULL;
  if (twice && (unsigned long)k < nb) {
    errno = 0; ret2 = hwloc_distances_release_remove(topo, b[k]); err2 = errno;
    if (ret2 < 0) hwloc_distances_release(topo, b[k]);   /* a failed release_remove leaves the copy to the caller */
    b[k] = NULL;
  }
  release_all(a, na); release_all(b, nb);
  out(",\"ret\":%d,\"errno\":\"%s\",\"ret2\":%d,\"errno2\":\"%s\",", ret, ret < 0 ? errname(err) : "0", ret2, ret2 < 0 ? errname(err2) : "0");
  out_obs(); out("}"); out_end();
}
static void do_remove(void) {
  int ret, err; errno = 0; ret = hwloc_distances_remove(topo); err = errno;
  out("{\"e\":\"remove\",\"ret\":%d,\"errno\":\"%s\",", ret, ret < 0 ? errname(err) : "0"); out_obs(); out("}"); out_end();
}
static void do_rmdepth(char *p) {
  char *a = hwv_tok(&p); int depth, ret, err;
  if (!a || parse_depth(a, &depth) < 0) return;
  out("{\"e\":\"rmdepth\","); out_dtype(depth);
  errno = 0; ret = hwloc_distances_remove_by_depth(topo, depth); err = errno;
  out(",\"ret\":%d,\"errno\":\"%s\",", ret, ret < 0 ? errname(err) : "0"); out_obs(); out("}"); out_end();
}
static void do_rmtype(char *p) {
  char *a = hwv_tok(&p); hwloc_obj_type_t t; int ret, err, depth;
  if (!a || parse_type(a, &t) < 0) return;
  depth = hwloc_get_type_depth(topo, t);
  out("{\"e\":\"rmtype\",\"type\":"); out_jstr(hwloc_obj_type_string(t)); out(",\"tdepth\":%d,", depth);
  errno = 0; ret = hwloc_distances_remove_by_type(topo, t); err = errno;
  out("\"ret\":%d,\"errno\":\"%s\",", ret, ret < 0 ? errname(err) : "0"); out_obs(); out("}"); out_end();
}
static void do_restrict(char *p) {
  unsigned long flags = (unsigned long)hwv_tokl(&p); char *s = hwv_tok(&p); hwloc_bitmap_t set = hwloc_bitmap_alloc(); int ret, err;
  if (s && strcmp(s, "-")) hwloc_bitmap_list_sscanf(set, s);
  if (handle && handle_filled) { hwloc_bitmap_free(set); out_skip("restrict", 0, 0); return; }  /* its object pointers would dangle */
  pre_collect();
  errno = 0; ret = hwloc_topology_restrict(topo, set, flags); err = errno;
  hwloc_bitmap_free(set);
  cands_refresh();
  out("{\"e\":\"restrict\",\"flags\":%lu,\"set\":", flags); out_jstr(s ? s : "");
  out(",\"ret\":%d,\"errno\":\"%s\",", ret, ret < 0 ? errname(err) : "0"); out_surv(); out(","); out_obs(); out("}"); out_end();
}
static void do_dup(void) {
  hwloc_topology_t n = NULL; int ret, err;
  if (handle) { out_skip("dup", 0, 0); return; }      /* a handle belongs to the topology it was created on */
  pre_collect();
  errno = 0; ret = hwloc_topology_dup(&n, topo); err = errno;
  if (ret == 0 && n) { hwloc_topology_destroy(topo); topo = n; handle = NULL; }
  cands_refresh();
  out("{\"e\":\"dup\",\"ret\":%d,\"errno\":\"%s\",", ret, ret < 0 ? errname(err) : "0"); out_surv(); out(","); out_obs(); out("}"); out_end();
}
static void do_xml(char *p) {
  unsigned long flags = (unsigned long)hwv_tokl(&p); char *buf = NULL; int len = 0, ret, err, lret = -1, lerr = 0; hwloc_topology_t n = NULL;
  if (handle) { out_skip("xml", 0, 0); return; }
  pre_collect();
  errno = 0; ret = hwloc_topology_export_xmlbuffer(topo, &buf, &len, flags); err = errno;
  if (ret == 0) {
    if (!hwloc_topology_init(&n)) {
      set_iofilter(n);
      errno = 0;
      lret = hwloc_topology_set_xmlbuffer(n, buf, len);
      if (!lret) lret = hwloc_topology_load(n);
      lerr = errno;
      if (lret < 0) { hwloc_topology_destroy(n); n = NULL; }
    }
    hwloc_free_xmlbuffer(topo, buf);
  }
  if (n) { hwloc_topology_destroy(topo); topo = n; handle = NULL; }
  cands_refresh();
  out("{\"e\":\"xml\",\"flags\":%lu,\"ret\":%d,\"errno\":\"%s\",\"lret\":%d,\"lerrno\":\"%s\",", flags, ret, ret < 0 ? errname(err) : "0", lret, lret < 0 ? errname(lerr) : "0");
  out_surv(); out(","); out_obs(); out("}"); out_end();
}

static void do_shm(void) {
  size_t len = 0; int fd = -1, lret, wret = -1, werr = 0, aret = -1, aerr = 0, rmret = 0, rmerr = 0, crok = 0, crerr = 0;
  void *addr = NULL; hwloc_topology_t ad = NULL; char path[] = "/var/tmp/hwv_dist_shm.XXXXXX";
  pre_collect();
  errno = 0; lret = hwloc_shmem_topology_get_length(topo, &len, 0);
  if (lret == 0) {
    fd = mkstemp(path);
    if (fd >= 0) unlink(path);
    addr = mmap(NULL, len, PROT_NONE, MAP_PRIVATE | MAP_ANONYMOUS, -1, 0);     /* find a free range */
    if (addr != MAP_FAILED) munmap(addr, len); else addr = NULL;
  }
  if (fd >= 0 && addr) {
    errno = 0; wret = hwloc_shmem_topology_write(topo, fd, 0, addr, len, 0); werr = errno;
    if (wret == 0) { errno = 0; aret = hwloc_shmem_topology_adopt(&ad, fd, 0, addr, len, 0); aerr = errno; }
  }
  out("{\"e\":\"shm\",\"lret\":%d,\"wret\":%d,\"werrno\":\"%s\",\"aret\":%d,\"aerrno\":\"%s\",", lret, wret, wret < 0 ? errname(werr) : "0", aret, aret < 0 ? errname(aerr) : "0");
  if (aret == 0 && ad) {
    hwloc_topology_t saved = topo; void *h2;
    topo = ad; tab_build();
    out_surv(); out(",\"adopted\":{"); out_obs(); out("},");
    errno = 0; rmret = hwloc_distances_remove(ad); rmerr = errno;
    errno = 0; h2 = hwloc_distances_add_create(ad, "x", HWLOC_DISTANCES_KIND_FROM_USER | HWLOC_DISTANCES_KIND_VALUE_LATENCY, 0); crerr = errno; crok = h2 != NULL;
    out("\"rmret\":%d,\"rmerrno\":\"%s\",\"crok\":%d,\"crerrno\":\"%s\",\"adopted2\":{", rmret, rmret < 0 ? errname(rmerr) : "0", crok, crok ? "0" : errname(crerr));
    out_obs(); out("},");
    hwloc_topology_destroy(ad);
    topo = saved;
  } else out("\"surv\":[],\"adopted\":{\"obs\":{\"ret\":-1,\"nr\":0,\"l\":[]}},\"rmret\":0,\"rmerrno\":\"0\",\"crok\":0,\"crerrno\":\"0\",\"adopted2\":{\"obs\":{\"ret\":-1,\"nr\":0,\"l\":[]}},");
  if (fd >= 0) close(fd);
  cands_refresh();
  out_obs(); out("}"); out_end();
}

static void handler(char **lines, size_t n, int beh) {
  size_t i;
  for (i = 0; i < n; i++) {
    char *line = strdup(lines[i]), *p = line; char *cmd = hwv_tok(&p);
    if (!cmd) { free(line); continue; }
    if (!strcmp(cmd, "reset")) do_reset(p, beh);
    else if (!topo) { /* load failed: nothing can be called */ }
    else if (!strcmp(cmd, "create")) do_create(p);
    else if (!strcmp(cmd, "values")) do_values(p);
    else if (!strcmp(cmd, "commit")) do_commit(p);
    else if (!strcmp(cmd, "q")) do_q(p);
    else if (!strcmp(cmd, "xf")) do_xf(p);
    else if (!strcmp(cmd, "rr")) do_rr(p, 0);
    else if (!strcmp(cmd, "rr2")) do_rr(p, 1);
    else if (!strcmp(cmd, "remove")) do_remove();
    else if (!strcmp(cmd, "rmdepth")) do_rmdepth(p);
    else if (!strcmp(cmd, "rmtype")) do_rmtype(p);
    else if (!strcmp(cmd, "restrict")) do_restrict(p);
    else if (!strcmp(cmd, "dup")) do_dup();
    else if (!strcmp(cmd, "xml")) do_xml(p);
    else if (!strcmp(cmd, "shm")) do_shm();
    free(line);
  }
}

int main(int argc, char **argv) {
  if (argc < 3) { fprintf(stderr, "usage: hwv_distances <behaviours> <trace.ndjson>\n"); return 2; }
  return hwv_run(argv[1], argv[2], handler);
}
