/* project_stores.h: projection of the distances, memory attributes, CPU kinds
 * and support bits of a topology through the public query API only.
 * Objects are named by gp_index.  No oracle logic.
 */
#ifndef HWV_PROJECT_STORES_H
#define HWV_PROJECT_STORES_H
#include "project.h"
#include <hwloc/distances.h>
#include <hwloc/memattrs.h>
#include <hwloc/cpukinds.h>

static void out_bytes(const void *p, size_t n) {
  size_t i; out("[");
  for (i = 0; i < n; i++) out("%s%u", i ? "," : "", ((const unsigned char *)p)[i]);
  out("]");
}
static void out_gp(hwloc_obj_t o) { out("%ld", o ? (long)(o->gp_index & 0x7fffffff) : 0L); }

static void project_stores(hwloc_topology_t t) {
  unsigned nr, i, j, k;
  out("{\"dist\":[");
  nr = 0;
  if (!hwloc_distances_get(t, &nr, NULL, 0, 0) && nr) {
    struct hwloc_distances_s **ds = calloc(nr, sizeof *ds); unsigned n2 = nr;
    if (!hwloc_distances_get(t, &n2, ds, 0, 0)) {
      if (n2 > nr) n2 = nr;
      for (i = 0; i < n2; i++) {
        struct hwloc_distances_s *d = ds[i]; const char *nm = hwloc_distances_get_name(t, d);
        out("%s{\"name\":", i ? "," : ""); out_optstr(nm);
        out(",\"kind\":%lu,\"n\":%u,\"objs\":[", d->kind & 0x7fffffff, d->nbobjs);
        for (j = 0; j < d->nbobjs; j++) { if (j) out(","); out_gp(d->objs[j]); }
        out("],\"vals\":[");
        for (j = 0; j < d->nbobjs * d->nbobjs; j++) { if (j) out(","); out_u64(d->values[j]); }
        out("]}");
        hwloc_distances_release(t, d);
      }
    }
    free(ds);
  }
  out("],\"ma\":[");
  for (i = 0; i < 64; i++) {
    const char *name = NULL; unsigned long fl = 0; unsigned nt = 0;
    if (hwloc_memattr_get_name(t, i, &name) < 0) break;
    hwloc_memattr_get_flags(t, i, &fl);
    out("%s{\"id\":%u,\"name\":", i ? "," : "", i); out_jstr(name); out(",\"flags\":%lu,\"tg\":[", fl);
    if (!hwloc_memattr_get_targets(t, i, NULL, 0, &nt, NULL, NULL) && nt) {
      hwloc_obj_t *tg = calloc(nt, sizeof *tg); hwloc_uint64_t *vals = calloc(nt, sizeof *vals); unsigned n2 = nt;
      if (!hwloc_memattr_get_targets(t, i, NULL, 0, &n2, tg, (fl & HWLOC_MEMATTR_FLAG_NEED_INITIATOR) ? NULL : vals)) {
        if (n2 > nt) n2 = nt;
        for (j = 0; j < n2; j++) {
          out("%s{\"gp\":", j ? "," : ""); out_gp(tg[j]);
          if (!(fl & HWLOC_MEMATTR_FLAG_NEED_INITIATOR)) { out(",\"v\":"); out_u64(vals[j]); out(",\"ini\":[]}"); continue; }
          out(",\"v\":[0,0,0,0],\"ini\":[");
          { unsigned ni = 0;
            if (!hwloc_memattr_get_initiators(t, i, tg[j], 0, &ni, NULL, NULL) && ni) {
              struct hwloc_location *locs = calloc(ni, sizeof *locs); hwloc_uint64_t *iv = calloc(ni, sizeof *iv); unsigned n3 = ni;
              if (!hwloc_memattr_get_initiators(t, i, tg[j], 0, &n3, locs, iv)) {
                if (n3 > ni) n3 = ni;
                for (k = 0; k < n3; k++) {
                  if (locs[k].type == HWLOC_LOCATION_TYPE_OBJECT) { out("%s{\"t\":\"o\",\"gp\":", k ? "," : ""); out_gp(locs[k].location.object); out(",\"cs\":[]"); }
                  else { out("%s{\"t\":\"c\",\"gp\":0,\"cs\":", k ? "," : ""); out_set(locs[k].location.cpuset); }
                  out(",\"v\":"); out_u64(iv[k]); out("}");
                }
              }
              free(locs); free(iv);
            }
          }
          out("]}");
        }
      }
      free(tg); free(vals);
    }
    out("]}");
  }
  out("],\"ck\":[");
  { int n = hwloc_cpukinds_get_nr(t, 0);
    for (i = 0; (int)i < n; i++) {
      hwloc_bitmap_t cs = hwloc_bitmap_alloc(); int eff = -2; struct hwloc_infos_s *infos = NULL;
      int r = hwloc_cpukinds_get_info(t, i, cs, &eff, &infos, 0);
      out("%s{\"r\":%d,\"cs\":", i ? "," : "", r); out_set(cs); out(",\"eff\":%d,\"infos\":", eff); out_infos(r ? NULL : infos); out("}");
      hwloc_bitmap_free(cs);
    }
  }
  out("],\"support\":");
  { const struct hwloc_topology_support *sp = hwloc_topology_get_support(t);
    out("{\"discovery\":"); out_bytes(sp->discovery, sizeof *sp->discovery);
    out(",\"cpubind\":"); out_bytes(sp->cpubind, sizeof *sp->cpubind);
    out(",\"membind\":"); out_bytes(sp->membind, sizeof *sp->membind);
    out(",\"misc\":"); out_bytes(sp->misc, sizeof *sp->misc); out("}"); }
  out("}");
}
#endif
