/* hwv_memattrs: recorder for the memory attribute API (C14).  No oracle logic:
 * it performs the calls of a behaviour file on the real library and logs
 * arguments, return values, errno and what the public API lets one observe.
 *
 * behaviour file (one action per line, a behaviour starts with "reset"):
 *   reset
 *   topo syn <synthetic description up to end of line>
 *   topo xml <path> | topo fsroot <dir>
 *   env NAME=VALUE                          environment variable set around the load (e.g. HWLOC_KEEP_NVIDIA_GPU_NUMA_NODES=1)
 *   pre restrict c|n <csv|-> <flags>        setup steps, executed before the Reset event
 *   pre subtype <nodeid> <string|->
 *   objs <id> ...                           declared candidate objects (P<os> PU, K<os> Package, C<os> Core, M0 root)
 *   cpusets <csv|-> ...                     declared candidate cpusets ("-" is the empty set)
 *   names <name> ...                        names probed with get_by_name in every attribute listing
 *   auto                                    derive the candidates from the stored initiators (bundled inputs)
 *   begin [adopt]                           load + setup, emits the Reset event
 *   reg <name> <flags>
 *   set <attr|#id> <target id> <ini> <value> <flags>      ini: n | c:<csv|-> | o:<id> | x | z
 *   restrict c|n <csv|-> <flags>
 *   dup | dupdrop | xml <flags> | refresh
 *   obs [attr ...]                          full observation of the named attributes (all listed ones if none)
 *   local                                   hwloc_get_local_numanode_objs battery and the default nodeset
 * 64-bit quantities are logged as three base-2^22 limbs, most significant first.
 */
#include "hwv_common.h"
#include <hwloc.h>

#define MAXC 64
static hwloc_topology_t topo;
static char *decl_objs[MAXC]; static int ndecl_objs;
static hwloc_bitmap_t decl_cs[MAXC]; static int ndecl_cs;
static char *decl_names[MAXC]; static int ndecl_names;
static int automode, loaded;
static char toposrc[4096]; static int topokind; /* 1 syn 2 xml 3 fsroot */

/* ---------- small output helpers ---------- */
static void out_u64(unsigned long long v) {
  out("[%llu,%llu,%llu]", (v >> 44) & 0x3fffffULL, (v >> 22) & 0x3fffffULL, v & 0x3fffffULL);
}
static void out_set(hwloc_const_bitmap_t b) {
  int i, n = 0;
  if (!b) { out("[-2]"); return; }
  if (hwloc_bitmap_weight(b) < 0) { out("[-1]"); return; }
  out("[");
  for (i = hwloc_bitmap_first(b); i != -1; i = hwloc_bitmap_next(b, i)) out("%s%d", n++ ? "," : "", i);
  out("]");
}
static hwloc_bitmap_t parse_csv(const char *s) {
  hwloc_bitmap_t b = hwloc_bitmap_alloc();
  if (!s || !strcmp(s, "-")) return b;
  while (*s) {
    char *end; long v = strtol(s, &end, 10);
    if (end == s) break;
    hwloc_bitmap_set(b, (unsigned)v);
    s = *end == ',' ? end + 1 : end;
  }
  return b;
}
/* every object of the topology, level by level (normal levels, then the special ones) */
static hwloc_obj_t next_obj(hwloc_obj_t prev) {
  static const int special[] = { HWLOC_TYPE_DEPTH_NUMANODE, HWLOC_TYPE_DEPTH_MEMCACHE, HWLOC_TYPE_DEPTH_BRIDGE,
                                 HWLOC_TYPE_DEPTH_PCI_DEVICE, HWLOC_TYPE_DEPTH_OS_DEVICE, HWLOC_TYPE_DEPTH_MISC };
  int nd = hwloc_topology_get_depth(topo), k, ns = (int)(sizeof special / sizeof *special), cur;
  if (prev && prev->next_cousin) return prev->next_cousin;
  if (!prev) cur = -1;
  else if (prev->depth >= 0) cur = prev->depth;
  else { for (k = 0; k < ns && special[k] != prev->depth; k++); cur = nd + k; }
  for (cur++; cur < nd + ns; cur++) {
    hwloc_obj_t o = hwloc_get_obj_by_depth(topo, cur < nd ? cur : special[cur - nd], 0);
    if (o) return o;
  }
  return NULL;
}
static int is_live(hwloc_obj_t o) {
  hwloc_obj_t p = NULL;
  while ((p = next_obj(p)) != NULL) if (p == o) return 1;
  return 0;
}
/* identifier of an object: N/P/K/C + OS index, M0 for the root, O<type>_<gp_index> for anything else */
static void fmt_objid(char *buf, size_t n, hwloc_obj_t o) {
  char c = 0;
  switch (o->type) {
  case HWLOC_OBJ_NUMANODE: c = 'N'; break; case HWLOC_OBJ_PU: c = 'P'; break; case HWLOC_OBJ_PACKAGE: c = 'K'; break;
  case HWLOC_OBJ_CORE: c = 'C'; break; case HWLOC_OBJ_MACHINE: snprintf(buf, n, "M0"); return;
  default: break;
  }
  if (c && o->os_index != HWLOC_UNKNOWN_INDEX) snprintf(buf, n, "%c%u", c, o->os_index);
  else snprintf(buf, n, "O%d_%llu", (int)o->type, (unsigned long long)o->gp_index);
}
static void out_objid(hwloc_obj_t o) {
  char b[48];
  if (!o) { out("\"!null\""); return; }
  if (!is_live(o)) { out("\"!stale\""); return; }
  fmt_objid(b, sizeof b, o); out("\"%s\"", b);
}
static hwloc_obj_t find_obj(const char *id) {
  unsigned os; hwloc_obj_type_t t; hwloc_obj_t p = NULL;
  if (!id || !id[0]) return NULL;
  os = (unsigned)strtoul(id + 1, NULL, 10);
  switch (id[0]) {
  case 'N': return hwloc_get_numanode_obj_by_os_index(topo, os);
  case 'P': return hwloc_get_pu_obj_by_os_index(topo, os);
  case 'M': return hwloc_get_root_obj(topo);
  case 'K': t = HWLOC_OBJ_PACKAGE; break;
  case 'C': t = HWLOC_OBJ_CORE; break;
  case 'O': {
    char *end; long ty = strtol(id + 1, &end, 10); unsigned long long gp = *end == '_' ? strtoull(end + 1, NULL, 10) : 0;
    while ((p = next_obj(p)) != NULL) if ((long)p->type == ty && p->gp_index == gp) return p;
    return NULL;
  }
  default: return NULL;
  }
  while ((p = hwloc_get_next_obj_by_type(topo, t, p)) != NULL) if (p->os_index == os) return p;
  return NULL;
}

/* ---------- initiators ---------- */
struct ini { char kind; hwloc_bitmap_t set; char id[32]; hwloc_obj_t obj; int missing; };
/* kind: n none, c cpuset, o object, x OBJECT with NULL object, z CPUSET with NULL cpuset */
static void ini_parse(struct ini *in, const char *s) {
  memset(in, 0, sizeof *in);
  in->kind = s[0];
  if (s[0] == 'c') in->set = parse_csv(s[1] == ':' ? s + 2 : "-");
  else if (s[0] == 'o') { snprintf(in->id, sizeof in->id, "%s", s + 2); in->obj = find_obj(in->id); in->missing = !in->obj; }
}
static void ini_free(struct ini *in) { if (in->set) hwloc_bitmap_free(in->set); in->set = NULL; }
static struct hwloc_location *ini_loc(struct ini *in, struct hwloc_location *loc) {
  switch (in->kind) {
  case 'n': return NULL;
  case 'c': loc->type = HWLOC_LOCATION_TYPE_CPUSET; loc->location.cpuset = in->set; return loc;
  case 'z': loc->type = HWLOC_LOCATION_TYPE_CPUSET; loc->location.cpuset = NULL; return loc;
  case 'o': loc->type = HWLOC_LOCATION_TYPE_OBJECT; loc->location.object = in->obj; return loc;
  default:  loc->type = HWLOC_LOCATION_TYPE_OBJECT; loc->location.object = NULL; return loc;
  }
}
static void out_ini(struct ini *in) {
  switch (in->kind) {
  case 'c': out("[\"c\","); out_set(in->set); out("]"); break;
  case 'o': out("[\"o\",\"%s\"]", in->id); break;
  default: out("[\"%c\"]", in->kind);
  }
}
static void out_loc(struct hwloc_location *l) {
  if (l->type == HWLOC_LOCATION_TYPE_CPUSET) { out("[\"c\","); out_set(l->location.cpuset); out("]"); }
  else if (l->type == HWLOC_LOCATION_TYPE_OBJECT) { out("[\"o\","); out_objid(l->location.object); out("]"); }
  else out("[\"?\"]");
}

/* ---------- topology projection ---------- */
static void out_topo(void) {
  hwloc_obj_t n = NULL; int i, k = 0;
  out("{\"pus\":"); out_set(hwloc_topology_get_topology_cpuset(topo));
  out(",\"ns\":"); out_set(hwloc_topology_get_topology_nodeset(topo));
  out(",\"nodes\":[");
  while ((n = hwloc_get_next_obj_by_type(topo, HWLOC_OBJ_NUMANODE, n)) != NULL) {
    out("%s[\"N%u\",%u,", k++ ? "," : "", n->os_index, n->os_index); out_set(n->cpuset); out(",");
    out_u64(n->attr->numanode.local_memory); out(","); out_jstr(n->subtype ? n->subtype : ""); out("]");
  }
  out("],\"objs\":[");
  for (i = 0; i < ndecl_objs; i++) {
    hwloc_obj_t o = find_obj(decl_objs[i]);
    out("%s[\"%s\",%d,", i ? "," : "", decl_objs[i], o ? 1 : 0);
    if (o) { hwloc_obj_t c = o; while (c && !c->cpuset) c = c->parent; out_set(c ? c->cpuset : NULL); } else out("[]");
    out(",%d]", o && o->cpuset ? 1 : 0);      /* has a cpuset of its own (I/O and Misc objects use their parent's) */
  }
  out("]}");
}

/* ---------- attribute listing ---------- */
static void out_listing(void) {
  unsigned id; int i; const char *name; unsigned long fl; int r1, e1, r2, e2;
  hwloc_memattr_id_t gid;
  out("\"al\":[");
  for (id = 0; id < 4096; id++) {
    name = NULL; fl = 0;
    if (hwloc_memattr_get_name(topo, id, &name) < 0) break;
    if (hwloc_memattr_get_flags(topo, id, &fl) < 0) { out("%s[%u,\"!noflags\",[0,0,0]]", id ? "," : "", id); continue; }
    out("%s[%u,", id ? "," : "", id); out_jstr(name); out(","); out_u64(fl); out("]");
  }
  errno = 0; r1 = hwloc_memattr_get_name(topo, id, &name); e1 = errno;
  errno = 0; r2 = hwloc_memattr_get_flags(topo, id, &fl); e2 = errno;
  out("],\"inv\":[%u,%d,\"%s\",%d,\"%s\"],\"bn\":[", id, r1, errname(e1), r2, errname(e2));
  for (i = 0; i <= ndecl_names; i++) {
    const char *nm = i < ndecl_names ? decl_names[i] : "nosuchattr";
    int r, e; gid = 9999; errno = 0; r = hwloc_memattr_get_by_name(topo, nm, &gid); e = errno;
    out("%s[", i ? "," : ""); out_jstr(nm); out(",%d,\"%s\",%d]", r, errname(e), r == 0 ? (int)gid : -1);
  }
  out("]");
}

/* ---------- candidates ---------- */
#define MAXCAND 96
static struct ini cand[MAXCAND]; static int ncand;
static hwloc_obj_t tgt[256]; static int ntgt;

static void add_cand_set(hwloc_const_bitmap_t s) {
  int i;
  for (i = 0; i < ncand; i++) if (cand[i].kind == 'c' && hwloc_bitmap_isequal(cand[i].set, s)) return;
  if (ncand >= MAXCAND - 4) return;
  memset(&cand[ncand], 0, sizeof cand[0]); cand[ncand].kind = 'c'; cand[ncand].set = hwloc_bitmap_dup(s); ncand++;
}
static void build_candidates(void) {
  int i; hwloc_obj_t n = NULL;
  for (i = 0; i < ncand; i++) ini_free(&cand[i]);
  ncand = 0; ntgt = 0;
  memset(&cand[ncand], 0, sizeof cand[0]); cand[ncand++].kind = 'n';
  while ((n = hwloc_get_next_obj_by_type(topo, HWLOC_OBJ_NUMANODE, n)) != NULL && ntgt < 200) tgt[ntgt++] = n;
  for (i = 0; i < ndecl_objs; i++) {
    hwloc_obj_t o = find_obj(decl_objs[i]);
    if (!o) continue;
    if (o->type != HWLOC_OBJ_NUMANODE && ntgt < 250) tgt[ntgt++] = o;
    memset(&cand[ncand], 0, sizeof cand[0]); cand[ncand].kind = 'o'; cand[ncand].obj = o;
    snprintf(cand[ncand].id, sizeof cand[ncand].id, "%s", decl_objs[i]); ncand++;
  }
  for (i = 0; i < ndecl_cs; i++) add_cand_set(decl_cs[i]);
  if (automode) {
    /* every stored cpuset initiator, the singleton of its first PU, and the whole machine */
    unsigned id; const char *name;
    add_cand_set(hwloc_topology_get_topology_cpuset(topo));
    for (id = 0; hwloc_memattr_get_name(topo, id, &name) == 0 && id < 64; id++) {
      unsigned nr = 0, j; hwloc_obj_t *tg;
      if (hwloc_memattr_get_targets(topo, id, NULL, 0, &nr, NULL, NULL) < 0 || !nr) continue;
      tg = calloc(nr, sizeof *tg);
      if (hwloc_memattr_get_targets(topo, id, NULL, 0, &nr, tg, NULL) == 0)
        for (j = 0; j < nr; j++) {
          unsigned ni = 0, k; struct hwloc_location *ls;
          if (hwloc_memattr_get_initiators(topo, id, tg[j], 0, &ni, NULL, NULL) < 0 || !ni) continue;
          ls = calloc(ni, sizeof *ls);
          if (hwloc_memattr_get_initiators(topo, id, tg[j], 0, &ni, ls, NULL) == 0)
            for (k = 0; k < ni; k++) if (ls[k].type == HWLOC_LOCATION_TYPE_CPUSET && ls[k].location.cpuset) {
              hwloc_bitmap_t one = hwloc_bitmap_alloc();
              add_cand_set(ls[k].location.cpuset);
              if (hwloc_bitmap_first(ls[k].location.cpuset) >= 0) { hwloc_bitmap_only(one, (unsigned)hwloc_bitmap_first(ls[k].location.cpuset)); add_cand_set(one); }
              hwloc_bitmap_free(one);
            }
          free(ls);
        }
      free(tg);
    }
  }
  memset(&cand[ncand], 0, sizeof cand[0]); cand[ncand++].kind = 'x';
  memset(&cand[ncand], 0, sizeof cand[0]); cand[ncand++].kind = 'z';
}

/* ---------- full observation of one attribute ---------- */
static void obs_attr(const char *name, int first) {
  hwloc_memattr_id_t id = 0; int known, i, j, k; unsigned long fl = 0;
  struct hwloc_location loc, *lp;
  errno = 0;
  if (name[0] == '#') { id = (unsigned)strtoul(name + 1, NULL, 10); known = 0; }
  else known = hwloc_memattr_get_by_name(topo, name, &id) == 0;
  if (!known && name[0] != '#') id = 4242;
  out("%s{\"n\":", first ? "" : ","); out_jstr(name);
  out(",\"id\":%d,\"fl\":", known ? (int)id : -1);
  if (known && hwloc_memattr_get_flags(topo, id, &fl) == 0) out_u64(fl); else out("[-1,-1,-1]");
  /* get_value: targets x initiators, plus one call with non-zero flags */
  out(",\"gv\":[");
  for (i = 0, k = 0; i < ntgt; i++) for (j = 0; j <= ncand; j++) {
    hwloc_uint64_t v = 0; int r, e; unsigned long qf = j == ncand ? 1 : 0; struct ini *in = &cand[j == ncand ? 0 : j];
    lp = ini_loc(in, &loc);
    errno = 0; r = hwloc_memattr_get_value(topo, id, tgt[i], lp, qf, &v); e = errno;
    out("%s[", k++ ? "," : ""); out_objid(tgt[i]); out(","); out_ini(in); out(",%lu,%d,\"%s\",", qf, r, errname(e)); out_u64(r == 0 ? v : 0); out("]");
  }
  /* get_targets: initiators x nr_in in {0, 1, exact, exact+2} */
  out("],\"gt\":[");
  for (j = 0, k = 0; j < ncand; j++) {
    unsigned total = 0, nrs[4], q, nq = 0; int r0;
    lp = ini_loc(&cand[j], &loc);
    r0 = hwloc_memattr_get_targets(topo, id, lp, 0, &total, NULL, NULL);
    if (r0 < 0) total = 0;
    nrs[nq++] = 0; nrs[nq++] = 1; if (total > 1) nrs[nq++] = total; nrs[nq++] = total + 2;
    for (q = 0; q < nq; q++) {
      unsigned nr = nrs[q], m, f; int r, e;
      hwloc_obj_t *ta = nr ? malloc(nr * sizeof *ta) : NULL; hwloc_uint64_t *va = nr ? malloc(nr * sizeof *va) : NULL;
      for (m = 0; m < nr; m++) { ta[m] = NULL; va[m] = 0; }
      errno = 0; r = hwloc_memattr_get_targets(topo, id, lp, 0, &nr, ta, va); e = errno;
      out("%s[", k++ ? "," : ""); out_ini(&cand[j]); out(",%u,%d,\"%s\",%u,[", nrs[q], r, errname(e), r == 0 ? nr : 0);
      f = r == 0 ? (nr < nrs[q] ? nr : nrs[q]) : 0;
      for (m = 0; m < f; m++) { out("%s[", m ? "," : ""); out_objid(ta[m]); out(","); out_u64(va[m]); out("]"); }
      out("]]");
      free(ta); free(va);
    }
  }
  /* get_initiators: targets x nr_in */
  out("],\"gi\":[");
  for (i = 0, k = 0; i < ntgt; i++) {
    unsigned total = 0, nrs[4], q, nq = 0; int r0;
    r0 = hwloc_memattr_get_initiators(topo, id, tgt[i], 0, &total, NULL, NULL);
    if (r0 < 0) total = 0;
    nrs[nq++] = 0; nrs[nq++] = 1; if (total > 1) nrs[nq++] = total; nrs[nq++] = total + 2;
    for (q = 0; q < nq; q++) {
      unsigned nr = nrs[q], m, f; int r, e;
      struct hwloc_location *la = nr ? calloc(nr, sizeof *la) : NULL; hwloc_uint64_t *va = nr ? calloc(nr, sizeof *va) : NULL;
      errno = 0; r = hwloc_memattr_get_initiators(topo, id, tgt[i], 0, &nr, la, va); e = errno;
      out("%s[", k++ ? "," : ""); out_objid(tgt[i]); out(",%u,%d,\"%s\",%u,[", nrs[q], r, errname(e), r == 0 ? nr : 0);
      f = r == 0 ? (nr < nrs[q] ? nr : nrs[q]) : 0;
      for (m = 0; m < f; m++) { out("%s[", m ? "," : ""); out_loc(&la[m]); out(","); out_u64(va[m]); out("]"); }
      out("]]");
      free(la); free(va);
    }
  }
  /* best target per initiator (and once with non-zero flags) */
  out("],\"bt\":[");
  for (j = 0, k = 0; j <= ncand; j++) {
    hwloc_obj_t best = NULL; hwloc_uint64_t v = 0; int r, e; unsigned long qf = j == ncand ? 1 : 0; struct ini *in = &cand[j == ncand ? 0 : j];
    lp = ini_loc(in, &loc);
    errno = 0; r = hwloc_memattr_get_best_target(topo, id, lp, qf, &best, &v); e = errno;
    out("%s[", k++ ? "," : ""); out_ini(in); out(",%lu,%d,\"%s\",", qf, r, errname(e));
    if (r == 0) out_objid(best); else out("\"\"");
    out(","); out_u64(r == 0 ? v : 0); out("]");
  }
  /* best initiator per target */
  out("],\"bi\":[");
  for (i = 0, k = 0; i < ntgt; i++) {
    struct hwloc_location bl; hwloc_uint64_t v = 0; int r, e;
    memset(&bl, 0, sizeof bl);
    errno = 0; r = hwloc_memattr_get_best_initiator(topo, id, tgt[i], 0, &bl, &v); e = errno;
    out("%s[", k++ ? "," : ""); out_objid(tgt[i]); out(",%d,\"%s\",", r, errname(e));
    if (r == 0) out_loc(&bl); else out("[\"n\"]");
    out(","); out_u64(r == 0 ? v : 0); out("]");
  }
  out("]}");
}

static void do_obs(char *p, const char *ev) {
  char *a; int n = 0;
  build_candidates();
  out("{\"e\":\"%s\",", ev); out_listing();
  out(",\"a\":[");
  a = hwv_tok(&p);
  if (!a) {
    unsigned id; const char *name;
    for (id = 0; hwloc_memattr_get_name(topo, id, &name) == 0 && id < 64; id++) { char *nm = strdup(name); obs_attr(nm, n++ == 0); free(nm); }
  } else for (; a; a = hwv_tok(&p)) obs_attr(a, n++ == 0);
  out("]}"); out_end();
}

/* ---------- local NUMA nodes and default nodeset ---------- */
static void do_local(void) {
  int j, k = 0; unsigned long fl; struct hwloc_location loc, *lp;
  hwloc_bitmap_t ns; int r, e;
  build_candidates();
  out("{\"e\":\"Local\",\"ln\":[");
  for (j = 0; j < ncand; j++) {
    if (cand[j].kind == 'x' || cand[j].kind == 'z') continue;   /* NULL object / NULL cpuset are not documented inputs */
    for (fl = 0; fl <= 8; fl++) {
      unsigned total = 0, nrs[3], q, nq = 0;
      if (cand[j].kind == 'n' && !(fl & HWLOC_LOCAL_NUMANODE_FLAG_ALL)) continue;
      lp = ini_loc(&cand[j], &loc);
      if (hwloc_get_local_numanode_objs(topo, lp, &total, NULL, fl) < 0) total = 0;
      nrs[nq++] = 0; if (total > 1) nrs[nq++] = 1; nrs[nq++] = total + 1;
      for (q = 0; q < nq; q++) {
        unsigned nr = nrs[q], m, f; hwloc_obj_t *na = nr ? calloc(nr, sizeof *na) : NULL;
        errno = 0; r = hwloc_get_local_numanode_objs(topo, lp, &nr, na, fl); e = errno;
        out("%s[", k++ ? "," : ""); out_ini(&cand[j]); out(",%lu,%u,%d,\"%s\",%u,[", fl, nrs[q], r, errname(e), r == 0 ? nr : 0);
        f = r == 0 ? (nr < nrs[q] ? nr : nrs[q]) : 0;
        for (m = 0; m < f; m++) { out("%s", m ? "," : ""); out_objid(na[m]); }
        out("]]");
        free(na);
      }
    }
  }
  out("],\"dn\":[");
  for (fl = 0; fl <= 1; fl++) {
    ns = hwloc_bitmap_alloc(); hwloc_bitmap_set(ns, 77);   /* must be overwritten, not or'ed */
    errno = 0; r = hwloc_topology_get_default_nodeset(topo, ns, fl); e = errno;
    out("%s[%lu,%d,\"%s\",", fl ? "," : "", fl, r, errname(e)); if (r == 0) out_set(ns); else out("[]"); out("]");
    hwloc_bitmap_free(ns);
  }
  out("],\"topo\":"); out_topo(); out("}"); out_end();
}

/* ---------- steps ---------- */
static int do_restrict_raw(const char *by, const char *csv, unsigned long fl, int *e) {
  hwloc_bitmap_t s = parse_csv(csv); int r;
  (void)by;
  errno = 0; r = hwloc_topology_restrict(topo, s, fl); *e = errno;
  hwloc_bitmap_free(s);
  return r;
}

static int load_topology(void) {
  int r;
  if (hwloc_topology_init(&topo) < 0) return -1;
  if (topokind == 1) r = hwloc_topology_set_synthetic(topo, toposrc);
  else if (topokind == 2) r = hwloc_topology_set_xml(topo, toposrc);
  else { setenv("HWLOC_FSROOT", toposrc, 1); setenv("HWLOC_COMPONENTS", "linux,stop", 1); setenv("HWLOC_DUMPED_HWDATA_DIR", "/nonexistent", 1); r = 0; }
  if (r == 0) r = hwloc_topology_load(topo);
  if (topokind == 3) { unsetenv("HWLOC_FSROOT"); unsetenv("HWLOC_COMPONENTS"); unsetenv("HWLOC_DUMPED_HWDATA_DIR"); }
  if (r < 0) { hwloc_topology_destroy(topo); topo = NULL; return -1; }
  return 0;
}

/* bundled inputs: declare the non-NUMA targets and the object initiators found in the store */
static void declare_obj(hwloc_obj_t o) {
  char b[48]; int i;
  if (!o || o->type == HWLOC_OBJ_NUMANODE || ndecl_objs >= MAXC) return;
  fmt_objid(b, sizeof b, o);
  for (i = 0; i < ndecl_objs; i++) if (!strcmp(decl_objs[i], b)) return;
  decl_objs[ndecl_objs++] = strdup(b);
}
static void auto_declare(void) {
  unsigned id; const char *name;
  for (id = 0; hwloc_memattr_get_name(topo, id, &name) == 0 && id < 64; id++) {
    unsigned nr = 0, j; hwloc_obj_t *tg;
    if (hwloc_memattr_get_targets(topo, id, NULL, 0, &nr, NULL, NULL) < 0 || !nr) continue;
    tg = calloc(nr, sizeof *tg);
    if (hwloc_memattr_get_targets(topo, id, NULL, 0, &nr, tg, NULL) == 0)
      for (j = 0; j < nr; j++) {
        unsigned ni = 0, k; struct hwloc_location *ls;
        declare_obj(tg[j]);
        if (hwloc_memattr_get_initiators(topo, id, tg[j], 0, &ni, NULL, NULL) < 0 || !ni) continue;
        ls = calloc(ni, sizeof *ls);
        if (hwloc_memattr_get_initiators(topo, id, tg[j], 0, &ni, ls, NULL) == 0)
          for (k = 0; k < ni; k++) if (ls[k].type == HWLOC_LOCATION_TYPE_OBJECT) declare_obj(ls[k].location.object);
        free(ls);
      }
    free(tg);
  }
}

static void clear_all(void) {
  int i;
  if (topo) { hwloc_topology_destroy(topo); topo = NULL; }
  for (i = 0; i < ndecl_objs; i++) free(decl_objs[i]);
  for (i = 0; i < ndecl_cs; i++) hwloc_bitmap_free(decl_cs[i]);
  for (i = 0; i < ndecl_names; i++) free(decl_names[i]);
  for (i = 0; i < ncand; i++) ini_free(&cand[i]);
  ndecl_objs = ndecl_cs = ndecl_names = ncand = ntgt = 0; automode = 0; loaded = 0; topokind = 0; toposrc[0] = 0;
}

static char *pre_lines[32]; static int npre;
static char *env_lines[8]; static int nenv;

static void do_begin(char *p, int beh) {
  char *opt = hwv_tok(&p); int i, ok;
  for (i = 0; i < nenv; i++) { char *eq = strchr(env_lines[i], '='); if (eq) { *eq = 0; setenv(env_lines[i], eq + 1, 1); *eq = '='; } }
  ok = topokind && load_topology() == 0;
  for (i = 0; i < nenv; i++) { char *eq = strchr(env_lines[i], '='); if (eq) { *eq = 0; unsetenv(env_lines[i]); *eq = '='; } }
  nenv = 0;
  for (i = 0; ok && i < npre; i++) {
    char *q = pre_lines[i]; char *what = hwv_tok(&q);
    if (what && !strcmp(what, "restrict")) {
      char *by = hwv_tok(&q), *csv = hwv_tok(&q); unsigned long fl = (unsigned long)hwv_tokl(&q); int e;
      if (do_restrict_raw(by, csv, fl, &e) < 0) ok = 0;
    } else if (what && !strcmp(what, "subtype")) {
      char *id = hwv_tok(&q), *st = hwv_tok(&q); hwloc_obj_t o = find_obj(id);
      if (!o || hwloc_obj_set_subtype(topo, o, st && strcmp(st, "-") ? st : NULL) < 0) ok = 0;
    }
  }
  npre = 0;
  loaded = ok;
  if (ok && automode) auto_declare();
  out("{\"e\":\"Reset\",\"beh\":%d,\"ok\":%d,\"adopt\":%d,\"cs\":[", beh, ok, opt && !strcmp(opt, "adopt") ? 1 : 0);
  for (i = 0; i < ndecl_cs; i++) { out("%s", i ? "," : ""); out_set(decl_cs[i]); }
  out("]");
  if (ok) { out(","); out_listing(); out(",\"topo\":"); out_topo(); }
  out("}"); out_end();
}

static void do_reg(char *p) {
  char *name = hwv_tok(&p), *fs = hwv_tok(&p); unsigned long fl = fs ? strtoul(fs, NULL, 0) : 0;
  hwloc_memattr_id_t id = 9999; int r, e;
  errno = 0; r = hwloc_memattr_register(topo, name, fl, &id); e = errno;
  out("{\"e\":\"Register\",\"name\":"); out_jstr(name); out(",\"flags\":"); out_u64(fl);
  out(",\"ret\":%d,\"errno\":\"%s\",\"id\":%d,", r, errname(e), r == 0 ? (int)id : -1); out_listing(); out("}"); out_end();
}

static void do_set(char *p) {
  char *an = hwv_tok(&p), *tid = hwv_tok(&p), *is = hwv_tok(&p), *vs = hwv_tok(&p); unsigned long fl = (unsigned long)hwv_tokl(&p);
  unsigned long long v = vs ? strtoull(vs, NULL, 0) : 0; hwloc_memattr_id_t id = 4242; int known, r = 0, e = 0, skip = 0;
  struct ini in; struct hwloc_location loc; hwloc_obj_t t;
  if (!an || !tid || !is) return;
  if (an[0] == '#') { id = (unsigned)strtoul(an + 1, NULL, 10); known = 0; }
  else known = hwloc_memattr_get_by_name(topo, an, &id) == 0;
  ini_parse(&in, is);
  t = find_obj(tid);
  if (!t || in.missing) skip = 1;
  else { errno = 0; r = hwloc_memattr_set_value(topo, id, t, ini_loc(&in, &loc), fl, v); e = errno; }
  out("{\"e\":\"SetValue\",\"attr\":"); out_jstr(an); out(",\"id\":%d,\"t\":\"%s\",\"ini\":", known ? (int)id : -1, tid); out_ini(&in);
  out(",\"v\":"); out_u64(v); out(",\"flags\":%lu,\"skip\":%d,\"ret\":%d,\"errno\":\"%s\"}", fl, skip, r, errname(e)); out_end();
  ini_free(&in);
}

static void do_restrict(char *p) {
  char *by = hwv_tok(&p), *csv = hwv_tok(&p); unsigned long fl = (unsigned long)hwv_tokl(&p); int r, e;
  hwloc_bitmap_t s = parse_csv(csv);
  r = do_restrict_raw(by, csv, fl, &e);
  out("{\"e\":\"Restrict\",\"by\":\"%s\",\"set\":", by); out_set(s); out(",\"flags\":%lu,\"ret\":%d,\"errno\":\"%s\",\"topo\":", fl, r, errname(e)); out_topo(); out("}"); out_end();
  hwloc_bitmap_free(s);
}

static void do_dup(int keep_old) {
  hwloc_topology_t n = NULL; int r, e;
  errno = 0; r = hwloc_topology_dup(&n, topo); e = errno;
  if (r == 0) { if (keep_old) hwloc_topology_destroy(n); else { hwloc_topology_destroy(topo); topo = n; } }
  out("{\"e\":\"%s\",\"ret\":%d,\"errno\":\"%s\",", keep_old ? "DupDrop" : "Dup", r, errname(e)); out_listing(); out(",\"topo\":"); out_topo(); out("}"); out_end();
}

static void do_xml(char *p) {
  unsigned long fl = (unsigned long)hwv_tokl(&p); char *buf = NULL; int len = 0, r, e, r2 = -1, e2 = 0;
  errno = 0; r = hwloc_topology_export_xmlbuffer(topo, &buf, &len, fl); e = errno;
  if (r == 0) {
    hwloc_topology_t n = NULL;
    errno = 0;
    if (hwloc_topology_init(&n) == 0) {
      r2 = hwloc_topology_set_xmlbuffer(n, buf, len);
      if (r2 == 0) r2 = hwloc_topology_load(n);
      e2 = errno;
      if (r2 == 0) { hwloc_free_xmlbuffer(topo, buf); buf = NULL; hwloc_topology_destroy(topo); topo = n; }
      else hwloc_topology_destroy(n);
    }
    if (buf) hwloc_free_xmlbuffer(topo, buf);
  }
  out("{\"e\":\"Xml\",\"flags\":%lu,\"ret\":%d,\"errno\":\"%s\",\"lret\":%d,\"lerrno\":\"%s\",", fl, r, errname(e), r2, errname(e2)); out_listing(); out(",\"topo\":"); out_topo(); out("}"); out_end();
}

static void do_refresh(void) {
  int r, e; errno = 0; r = hwloc_topology_refresh(topo); e = errno;
  out("{\"e\":\"Refresh\",\"ret\":%d,\"errno\":\"%s\"}", r, errname(e)); out_end();
}

static void handler(char **lines, size_t n, int beh) {
  size_t i;
  for (i = 0; i < n; i++) {
    char *p = lines[i]; char *cmd = hwv_tok(&p), *a;
    if (!cmd) continue;
    if (!strcmp(cmd, "reset")) { clear_all(); npre = 0; nenv = 0; continue; }
    if (!strcmp(cmd, "env")) { a = hwv_tok(&p); if (a && nenv < 8) env_lines[nenv++] = a; continue; }
    if (!strcmp(cmd, "topo")) {
      char *k = hwv_tok(&p);
      while (*p == ' ') p++;
      topokind = !k ? 0 : !strcmp(k, "syn") ? 1 : !strcmp(k, "xml") ? 2 : !strcmp(k, "fsroot") ? 3 : 0;
      snprintf(toposrc, sizeof toposrc, "%s", p);
      continue;
    }
    if (!strcmp(cmd, "pre")) { if (npre < 32) pre_lines[npre++] = p; continue; }
    if (!strcmp(cmd, "objs")) { while ((a = hwv_tok(&p)) && ndecl_objs < MAXC) decl_objs[ndecl_objs++] = strdup(a); continue; }
    if (!strcmp(cmd, "cpusets")) { while ((a = hwv_tok(&p)) && ndecl_cs < MAXC) decl_cs[ndecl_cs++] = parse_csv(a); continue; }
    if (!strcmp(cmd, "names")) { while ((a = hwv_tok(&p)) && ndecl_names < MAXC) decl_names[ndecl_names++] = strdup(a); continue; }
    if (!strcmp(cmd, "auto")) { automode = 1; continue; }
    if (!strcmp(cmd, "begin")) { do_begin(p, beh); continue; }
    if (!loaded) continue;
    if (!strcmp(cmd, "reg")) do_reg(p);
    else if (!strcmp(cmd, "set")) do_set(p);
    else if (!strcmp(cmd, "restrict")) do_restrict(p);
    else if (!strcmp(cmd, "dup")) do_dup(0);
    else if (!strcmp(cmd, "dupdrop")) do_dup(1);
    else if (!strcmp(cmd, "xml")) do_xml(p);
    else if (!strcmp(cmd, "refresh")) do_refresh();
    else if (!strcmp(cmd, "obs")) do_obs(p, "Obs");
    else if (!strcmp(cmd, "adopt")) do_obs(p, "Adopt");
    else if (!strcmp(cmd, "local")) do_local();
  }
  clear_all();
}

int main(int argc, char **argv) {
  if (argc < 3) { fprintf(stderr, "usage: hwv_memattrs <behaviours> <trace.ndjson>\n"); return 2; }
  return hwv_run(argv[1], argv[2], handler);
}
