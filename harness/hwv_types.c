/* hwv_types: recorder for the object type / attribute string API (C11).  No oracle logic:
 * every call is performed, and its arguments, return value and the observable state of the
 * caller's buffers are logged; spec/TraceTypes.tla judges them.
 *
 * behaviour file:
 *   reset <xmlpath|->                 load (or re-use) the XML topology with all type filters KEEP_ALL
 *   sel gp <N> | sel all              select the object(s) the next calls apply to (gp = obj->gp_index)
 *   tsn <flags> [maxsizes]            hwloc_obj_type_snprintf on every selected object, every size 0..needed+1,
 *                                     then hwloc_type_sscanf of the untruncated text
 *   asn <flags> <sep> [maxsizes]      hwloc_obj_attr_snprintf, same sizes (sep: 0 "" 1 ", " 2 " " 3 long 4 "\n")
 *   levels <flags>                    type text of every object of every level (run-length encoded)
 *   tstr <type>                       hwloc_obj_type_string + hwloc_type_sscanf of it
 *   scan <hex>                        hwloc_type_sscanf of an arbitrary string (hex encoded, exactly-sized malloc)
 *   cmp <a> <b>                       hwloc_compare_types + kind predicates of both
 *   kinds <t>                         kind predicates of one type
 * maxsizes (default 0 = all): when needed+1 exceeds it, only sizes 0..maxsizes/2, needed-maxsizes/2..needed+1 are tried.
 */
#include "hwv_common.h"
#include <hwloc.h>
#include <limits.h>

#define GUARD 32
#define FILL 0xA5
#define NCACHE 6

static struct { char *path; hwloc_topology_t topo; } cache[NCACHE];
static unsigned cache_next;
static hwloc_topology_t topo;
static hwloc_obj_t *sel; static unsigned nsel, selcap;

static const char *seps[] = { "", ", ", " ", "<<<<<<<<<<a very long separator>>>>>>>>>>", "\n" };

/* unsigned attribute values as TLC-sized integers: (unsigned)-1 is logged as -1, anything above 2e9 as 2000000000 */
static long clampu(unsigned long v, int is32) {
  if (is32 ? (v == (unsigned)-1) : (v == (unsigned long)-1)) return -1;
  if (v > 2000000000UL) return 2000000000L;
  return (long)v;
}
static void out_bits(unsigned long w) {
  int i, n = 0;
  out("[");
  for (i = 0; i < (int)(8 * sizeof w); i++) if (w & (1UL << i)) out("%s%d", n++ ? "," : "", i);
  out("]");
}

/* the attributes of an object that hwloc_type_sscanf may return, read from the public structure */
static void out_objattr(hwloc_obj_t o) {
  out("{\"type\":%d", (int)o->type);
  if (hwloc_obj_type_is_cache(o->type))
    out(",\"cd\":%ld,\"ct\":%ld", clampu(o->attr->cache.depth, 1), clampu((unsigned)o->attr->cache.type, 1));
  else if (o->type == HWLOC_OBJ_GROUP)
    out(",\"gd\":%ld", clampu(o->attr->group.depth, 1));
  else if (o->type == HWLOC_OBJ_BRIDGE)
    out(",\"up\":%ld,\"down\":%ld", clampu((unsigned)o->attr->bridge.upstream_type, 1), clampu((unsigned)o->attr->bridge.downstream_type, 1));
  else if (o->type == HWLOC_OBJ_OS_DEVICE) { out(",\"os\":"); out_bits(o->attr->osdev.types); }
  out("}");
}

/* hwloc_type_sscanf of s (copied in an exactly-sized heap block), with a full-size attribute union,
 * then with attrp=NULL, then with a one-byte attribute buffer that is too small to be filled */
static void out_scan(const char *s, size_t len) {
  char *copy = malloc(len + 1);
  hwloc_obj_type_t type = (hwloc_obj_type_t)99, type0 = (hwloc_obj_type_t)99, type1 = (hwloc_obj_type_t)99;
  union hwloc_obj_attr_u attr; unsigned char *small = malloc(1);
  int rc, rc0, rc1;
  memcpy(copy, s, len); copy[len] = 0;
  memset(&attr, 0xEE, sizeof attr);
  rc = hwloc_type_sscanf(copy, &type, &attr, sizeof attr);
  rc0 = hwloc_type_sscanf(copy, &type0, NULL, 0);
  *small = FILL;
  rc1 = hwloc_type_sscanf(copy, &type1, (union hwloc_obj_attr_u *)small, 1);
  out("{\"rc\":%d,\"type\":%d,\"rc0\":%d,\"type0\":%d,\"rc1\":%d,\"type1\":%d,\"small\":%d", rc, (int)type, rc0, (int)type0, rc1, (int)type1, (int)*small);
  if (rc == 0 && (unsigned)type < HWLOC_OBJ_TYPE_MAX) {
    if (hwloc_obj_type_is_cache(type))
      out(",\"cd\":%ld,\"ct\":%ld", clampu(attr.cache.depth, 1), clampu((unsigned)attr.cache.type, 1));
    else if (type == HWLOC_OBJ_GROUP)
      out(",\"gd\":%ld", clampu(attr.group.depth, 1));
    else if (type == HWLOC_OBJ_BRIDGE)
      out(",\"up\":%ld,\"down\":%ld", clampu((unsigned)attr.bridge.upstream_type, 1), clampu((unsigned)attr.bridge.downstream_type, 1));
    else if (type == HWLOC_OBJ_OS_DEVICE) { out(",\"os\":"); out_bits(attr.osdev.types); }
  }
  out("}");
  free(copy); free(small);
}

static void out_kinds(int t) {
  hwloc_obj_type_t ty = (hwloc_obj_type_t)t;
  out("[%d,%d,%d,%d,%d,%d,%d]", hwloc_obj_type_is_normal(ty), hwloc_obj_type_is_memory(ty), hwloc_obj_type_is_io(ty),
      ty == HWLOC_OBJ_MISC, hwloc_obj_type_is_cache(ty), hwloc_obj_type_is_dcache(ty), hwloc_obj_type_is_icache(ty));
}

/* ---------- topology handling ---------- */
static void do_reset(char *p, int beh) {
  char *path = hwv_tok(&p); unsigned i; const char *base;
  int loaded = 0, err = 0;
  nsel = 0; topo = NULL;
  if (path && strcmp(path, "-") && strcmp(path, "!")) {   /* "-": no topology, "!": placeholder behaviour */
    for (i = 0; i < NCACHE; i++) if (cache[i].path && !strcmp(cache[i].path, path)) { topo = cache[i].topo; loaded = topo != NULL; break; }
    if (i == NCACHE) {
      hwloc_topology_t t = NULL;
      errno = 0;
      if (hwloc_topology_init(&t) == 0) {
        hwloc_topology_set_all_types_filter(t, HWLOC_TYPE_FILTER_KEEP_ALL);
        if (hwloc_topology_set_xml(t, path) < 0 || hwloc_topology_load(t) < 0) { err = errno; hwloc_topology_destroy(t); t = NULL; }
      } else err = errno;
      i = cache_next++ % NCACHE;
      if (cache[i].path) { free(cache[i].path); if (cache[i].topo) hwloc_topology_destroy(cache[i].topo); }
      cache[i].path = strdup(path); cache[i].topo = t;
      topo = t; loaded = t != NULL;
    }
  }
  base = path ? (strrchr(path, '/') ? strrchr(path, '/') + 1 : path) : "-";
  out("{\"e\":\"Reset\",\"beh\":%d,\"xml\":", beh); out_jstr(base);
  out(",\"loaded\":%d,\"errno\":\"%s\",\"depth\":%d}", loaded, errname(err), loaded ? hwloc_topology_get_depth(topo) : 0);
  out_end();
}

static void sel_add(hwloc_obj_t o) {
  if (nsel == selcap) { selcap = selcap ? 2 * selcap : 1024; sel = realloc(sel, selcap * sizeof *sel); }
  sel[nsel++] = o;
}
static void walk(hwloc_obj_t o, long gp, unsigned *budget) {
  hwloc_obj_t c;
  if (!o || !*budget) return;
  (*budget)--;
  if (gp < 0 || (long)o->gp_index == gp) sel_add(o);
  for (c = o->first_child; c; c = c->next_sibling) walk(c, gp, budget);
  for (c = o->memory_first_child; c; c = c->next_sibling) walk(c, gp, budget);
  for (c = o->io_first_child; c; c = c->next_sibling) walk(c, gp, budget);
  for (c = o->misc_first_child; c; c = c->next_sibling) walk(c, gp, budget);
}
static void do_sel(char *p) {
  char *how = hwv_tok(&p); unsigned budget = 1000000;
  nsel = 0;
  if (!topo || !how) return;
  if (!strcmp(how, "all")) walk(hwloc_get_root_obj(topo), -1, &budget);
  else if (!strcmp(how, "gp")) walk(hwloc_get_root_obj(topo), hwv_tokl(&p), &budget);
}

/* ---------- the snprintf functions at every size ---------- */
typedef int (*printer)(char *buf, size_t size, hwloc_obj_t o, unsigned long flags, const char *sep);
static int pr_type(char *buf, size_t size, hwloc_obj_t o, unsigned long flags, const char *sep) { (void)sep; return hwloc_obj_type_snprintf(buf, size, o, flags); }
static int pr_attr(char *buf, size_t size, hwloc_obj_t o, unsigned long flags, const char *sep) { return hwloc_obj_attr_snprintf(buf, size, o, sep, flags); }

static void out_one_size(printer pr, hwloc_obj_t o, unsigned long flags, const char *sep, size_t s, int first) {
  unsigned char *buf = malloc(GUARD + s + GUARD); size_t i, len; int ret, glo = 0, ghi = 0; long nul = -1;
  memset(buf, FILL, GUARD + s + GUARD);
  ret = pr((char *)buf + GUARD, s, o, flags, sep);
  for (i = 0; i < GUARD; i++) { if (buf[i] != FILL) glo++; if (buf[GUARD + s + i] != FILL) ghi++; }
  for (i = 0; i < s; i++) if (!buf[GUARD + i]) { nul = (long)i; break; }
  len = nul >= 0 ? (size_t)nul : s;
  out("%s[%zu,%d,%ld,%d,%d,", first ? "" : ",", s, ret, nul, glo, ghi);
  out_jstrn((char *)buf + GUARD, len);
  out("]");
  free(buf);
}

static void do_print(const char *ev, printer pr, char *p, int with_scan) {
  unsigned long flags = (unsigned long)hwv_tokl(&p);
  long sepi = with_scan ? 0 : hwv_tokl(&p);
  long maxsizes = hwv_tokl(&p);
  const char *sep = seps[sepi >= 0 && sepi < (long)(sizeof seps / sizeof *seps) ? sepi : 0];
  unsigned k;
  for (k = 0; k < nsel; k++) {
    hwloc_obj_t o = sel[k]; int r0, rbig; size_t cap, s, top; char *big; int first = 1;
    r0 = pr(NULL, 0, o, flags, sep);
    cap = (r0 > 0 ? (size_t)r0 : 0) + 64;
    big = malloc(cap); memset(big, FILL, cap);
    rbig = pr(big, cap, o, flags, sep);
    out("{\"e\":\"%s\",\"gp\":%ld,\"depth\":%d,\"o\":", ev, clampu(o->gp_index, 0), o->depth); out_objattr(o);
    out(",\"flags\":%lu,\"sep\":", flags); out_jstr(sep);
    out(",\"r0\":%d,\"rbig\":%d,\"cap\":%zu,\"full\":", r0, rbig, cap); out_jstrn(big, strnlen(big, cap));
    out(",\"sizes\":[");
    top = (r0 > 0 ? (size_t)r0 : 0) + 1;
    for (s = 0; s <= top; s++) {
      if (maxsizes > 0 && top > (size_t)maxsizes && s > (size_t)maxsizes / 2 && s + (size_t)maxsizes / 2 < top) continue;
      out_one_size(pr, o, flags, sep, s, first); first = 0;
    }
    out("]");
    if (with_scan) {
      hwloc_obj_type_t ty = (hwloc_obj_type_t)99; union hwloc_obj_attr_u at;
      out(",\"scan\":"); out_scan(big, strnlen(big, cap));
      /* neighbouring API: the level designated by the parsed type and attributes, and by the type alone */
      memset(&at, 0xEE, sizeof at);
      if (hwloc_type_sscanf(big, &ty, &at, sizeof at) == 0 && (unsigned)ty < HWLOC_OBJ_TYPE_MAX)
        out(",\"dwa\":%d", hwloc_get_type_depth_with_attr(topo, ty, &at, sizeof at));
      out(",\"dt\":%d", hwloc_get_type_depth(topo, o->type));
    }
    out("}"); out_end();
    free(big);
  }
}

static void do_levels(char *p) {
  unsigned long flags = (unsigned long)hwv_tokl(&p);
  int d, depth;
  if (!topo) return;
  depth = hwloc_topology_get_depth(topo);
  for (d = HWLOC_TYPE_DEPTH_MEMCACHE; d < depth; d++) {   /* -8 .. depth-1; -1 and -2 are not levels */
    unsigned n, i, run = 0, first = 1; char prev[256], cur[256];
    if (d == HWLOC_TYPE_DEPTH_UNKNOWN || d == HWLOC_TYPE_DEPTH_MULTIPLE) continue;
    n = hwloc_get_nbobjs_by_depth(topo, d);
    out("{\"e\":\"level\",\"depth\":%d,\"ltype\":%d,\"flags\":%lu,\"n\":%u,\"texts\":[", d, (int)hwloc_get_depth_type(topo, d), flags, n);
    for (i = 0; i < n; i++) {
      hwloc_obj_t o = hwloc_get_obj_by_depth(topo, d, i);
      memset(cur, 0, sizeof cur);
      hwloc_obj_type_snprintf(cur, sizeof cur, o, flags);
      if (run && !strcmp(cur, prev)) { run++; continue; }
      if (run) { out("%s[", first ? "" : ","); out_jstr(prev); out(",%u]", run); first = 0; }
      strcpy(prev, cur); run = 1;
    }
    if (run) { out("%s[", first ? "" : ","); out_jstr(prev); out(",%u]", run); }
    out("]}"); out_end();
  }
}

static void do_tstr(char *p) {
  int t = (int)hwv_tokl(&p); const char *s = hwloc_obj_type_string((hwloc_obj_type_t)t);
  out("{\"e\":\"tstr\",\"type\":%d,\"s\":", t); out_jstr(s);
  out(",\"scan\":"); if (s) out_scan(s, strlen(s)); else out("null");
  out("}"); out_end();
}

static int hexv(int c) { return c >= '0' && c <= '9' ? c - '0' : c >= 'a' && c <= 'f' ? c - 'a' + 10 : c >= 'A' && c <= 'F' ? c - 'A' + 10 : 0; }
static void do_scan(char *p) {
  char *hex = hwv_tok(&p); size_t n = hex && strcmp(hex, "-") ? strlen(hex) / 2 : 0, i; char *s = malloc(n + 1);
  hwloc_obj_type_t type = (hwloc_obj_type_t)99; int rc;
  for (i = 0; i < n; i++) { s[i] = (char)(hexv(hex[2 * i]) * 16 + hexv(hex[2 * i + 1])); if (!s[i]) s[i] = ' '; }
  s[n] = 0;
  out("{\"e\":\"scan\",\"len\":%zu,\"s\":", n); out_jstrn(s, n);
  out(",\"scan\":"); out_scan(s, n);
  /* what does the returned type print as, and does that parse back */
  rc = hwloc_type_sscanf(s, &type, NULL, 0);
  if (rc == 0) {
    const char *again = hwloc_obj_type_string(type);
    out(",\"again\":{\"s\":"); out_jstr(again); out(",\"scan\":"); if (again) out_scan(again, strlen(again)); else out("null"); out("}");
  }
  out("}"); out_end();
  free(s);
}

static void do_cmp(char *p) {
  int a = (int)hwv_tokl(&p), b = (int)hwv_tokl(&p);
  if (a < 0 || a >= HWLOC_OBJ_TYPE_MAX || b < 0 || b >= HWLOC_OBJ_TYPE_MAX) return;
  out("{\"e\":\"cmp\",\"a\":%d,\"b\":%d,\"r\":%d,\"unordered\":%d,\"ka\":", a, b, hwloc_compare_types((hwloc_obj_type_t)a, (hwloc_obj_type_t)b), HWLOC_TYPE_UNORDERED);
  out_kinds(a); out(",\"kb\":"); out_kinds(b); out("}"); out_end();
}
static void do_kinds(char *p) {
  int t = (int)hwv_tokl(&p);
  out("{\"e\":\"kinds\",\"t\":%d,\"max\":%d,\"k\":", t, (int)HWLOC_OBJ_TYPE_MAX); out_kinds(t); out("}"); out_end();
}

static void handler(char **lines, size_t n, int beh) {
  size_t i;
  for (i = 0; i < n; i++) {
    char *line = strdup(lines[i]); char *p = line; char *cmd = hwv_tok(&p);
    if (!cmd) { free(line); continue; }
    if (!strcmp(cmd, "reset")) do_reset(p, beh);
    else if (!strcmp(cmd, "sel")) do_sel(p);
    else if (!strcmp(cmd, "tsn")) do_print("tsn", pr_type, p, 1);
    else if (!strcmp(cmd, "asn")) do_print("asn", pr_attr, p, 0);
    else if (!strcmp(cmd, "levels")) do_levels(p);
    else if (!strcmp(cmd, "tstr")) do_tstr(p);
    else if (!strcmp(cmd, "scan")) do_scan(p);
    else if (!strcmp(cmd, "cmp")) do_cmp(p);
    else if (!strcmp(cmd, "kinds")) do_kinds(p);
    free(line);
  }
}

int main(int argc, char **argv) {
  if (argc < 3) { fprintf(stderr, "usage: hwv_types <behaviours> <trace.ndjson>\n"); return 2; }
  return hwv_run(argv[1], argv[2], handler);
}
