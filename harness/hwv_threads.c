/* hwv_threads: recorder for C17 (documented thread-safety).  No oracle logic: it runs the consulting battery and
 * independent topology histories in threads, records the library's hook events (built with -DHWLOC_VERIF) and result
 * digests; spec/TraceConcurrency.tla judges them.
 * behaviour file:
 *   reset
 *   setup synthetic <description...> | setup xml <path>      main topology, annotated with distances, memattr values, cpukinds
 *   adopted                                                  battery on a shared-memory adopted (PROT_READ) copy
 *   readers <T> <rounds> <mode> <seed>     mode 0: after load; 1: after modify + hwloc_topology_refresh; 2: after modify, NO refresh
 *   indep <T> <rounds> <seed>              T threads, each an independent init/load/modify/export/destroy history
 */
#include "hwv_common.h"
#include <hwloc.h>
#include <hwloc/export.h>
#include <hwloc/distances.h>
#include <hwloc/memattrs.h>
#include <hwloc/cpukinds.h>
#include <hwloc/shmem.h>
#include <pthread.h>
#include <sched.h>
#include <stdint.h>

/* ---------- hook events ---------- */
#define MAXT 64
#define MAXEV 4096
struct hev { char name[28]; unsigned long a, b; };
static __thread int my_tid = -1;                 /* -1: main thread */
static struct hev tev[MAXT + 1][MAXEV]; static unsigned ntev[MAXT + 1];     /* per thread (index tid+1), written by that thread only */
static struct hev regev[1 << 16]; static volatile unsigned nregev;          /* registry events: emitted under hwloc's components mutex */
void hwloc_verif_event(const char *name, unsigned long a, unsigned long b);
void hwloc_verif_event(const char *name, unsigned long a, unsigned long b) {
  if (!strncmp(name, "comp_", 5)) {
    unsigned k = nregev;
    if (k < (1u << 16)) { snprintf(regev[k].name, sizeof regev[k].name, "%s", name); regev[k].a = a; regev[k].b = b; nregev = k + 1; }
  } else {
    int s = my_tid + 1; unsigned k = ntev[s];
    if (k < MAXEV) { snprintf(tev[s][k].name, sizeof tev[s][k].name, "%s", name); tev[s][k].a = a; tev[s][k].b = b; ntev[s] = k + 1; }
  }
}

/* ---------- the consulting battery: a digest of everything the read-only API reports ---------- */
static uint64_t fnv(uint64_t h, const void *p, size_t n) { const unsigned char *c = p; size_t i; for (i = 0; i < n; i++) { h ^= c[i]; h *= 1099511628211ULL; } return h; }
static uint64_t fnvs(uint64_t h, const char *s) { return fnv(fnv(h, s ? s : "\1", s ? strlen(s) : 1), "|", 1); }
static uint64_t fnvu(uint64_t h, uint64_t v) { return fnv(h, &v, sizeof v); }
static uint64_t hset(uint64_t h, hwloc_const_bitmap_t b) {
  char *s = NULL; if (!b) return fnvs(h, NULL);
  hwloc_bitmap_asprintf(&s, b); h = fnvs(h, s); free(s);
  h = fnvu(h, (uint64_t)hwloc_bitmap_weight(b)); h = fnvu(h, (uint64_t)hwloc_bitmap_first(b)); h = fnvu(h, (uint64_t)hwloc_bitmap_last(b));
  return h;
}
static uint64_t hobj(uint64_t h, hwloc_topology_t t, hwloc_obj_t o, int yieldmask, unsigned *ctr) {
  char buf[256]; hwloc_obj_t c; unsigned i;
  if ((++*ctr & (unsigned)yieldmask) == 0) sched_yield();
  h = fnvu(h, (uint64_t)o->type); h = fnvu(h, o->os_index); h = fnvu(h, (uint64_t)o->depth); h = fnvu(h, o->logical_index); h = fnvu(h, o->gp_index);
  h = fnvs(h, o->name); h = fnvs(h, o->subtype); h = fnvu(h, o->total_memory);
  h = hset(h, o->cpuset); h = hset(h, o->complete_cpuset); h = hset(h, o->nodeset); h = hset(h, o->complete_nodeset);
  hwloc_obj_type_snprintf(buf, sizeof buf, o, 0); h = fnvs(h, buf);
  hwloc_obj_attr_snprintf(buf, sizeof buf, o, " ", HWLOC_OBJ_SNPRINTF_FLAG_MORE_ATTRS); h = fnvs(h, buf);
  for (i = 0; i < o->infos.count; i++) { h = fnvs(h, o->infos.array[i].name); h = fnvs(h, o->infos.array[i].value); }
  if (o->cpuset && !hwloc_bitmap_iszero(o->cpuset)) {
    hwloc_obj_t cov = hwloc_get_obj_covering_cpuset(t, o->cpuset); h = fnvu(h, cov ? cov->gp_index : 0);
    h = fnvu(h, (uint64_t)hwloc_get_nbobjs_inside_cpuset_by_type(t, o->cpuset, HWLOC_OBJ_PU));
  }
  for (c = o->first_child; c; c = c->next_sibling) h = hobj(h, t, c, yieldmask, ctr);
  for (c = o->memory_first_child; c; c = c->next_sibling) h = hobj(h, t, c, yieldmask, ctr);
  for (c = o->io_first_child; c; c = c->next_sibling) h = hobj(h, t, c, yieldmask, ctr);
  for (c = o->misc_first_child; c; c = c->next_sibling) h = hobj(h, t, c, yieldmask, ctr);
  return h;
}
static uint64_t battery(hwloc_topology_t t, int yieldmask) {
  uint64_t h = 1469598103934665603ULL; unsigned ctr = 0, nr, i, j; int d, depth = hwloc_topology_get_depth(t);
  hwloc_obj_t root = hwloc_get_root_obj(t), pu0, pul, objs[8];
  h = hobj(h, t, root, yieldmask, &ctr);
  for (d = 0; d < depth; d++) { h = fnvu(h, hwloc_get_nbobjs_by_depth(t, d)); h = fnvu(h, (uint64_t)hwloc_get_depth_type(t, d)); }
  for (d = 0; d < HWLOC_OBJ_TYPE_MAX; d++) h = fnvu(h, (uint64_t)hwloc_get_type_depth(t, (hwloc_obj_type_t)d));
  pu0 = hwloc_get_obj_by_type(t, HWLOC_OBJ_PU, 0); pul = hwloc_get_obj_by_type(t, HWLOC_OBJ_PU, hwloc_get_nbobjs_by_type(t, HWLOC_OBJ_PU) - 1);
  if (pu0 && pul) { hwloc_obj_t a = hwloc_get_common_ancestor_obj(t, pu0, pul); h = fnvu(h, a ? a->gp_index : 0);
    nr = hwloc_get_closest_objs(t, pu0, objs, 8); for (i = 0; i < nr; i++) h = fnvu(h, objs[i]->gp_index); }
  { int n = hwloc_get_largest_objs_inside_cpuset(t, root->cpuset, objs, 8); for (i = 0; (int)i < n; i++) h = fnvu(h, objs[i]->gp_index); }
  h = hset(h, hwloc_topology_get_topology_cpuset(t)); h = hset(h, hwloc_topology_get_complete_cpuset(t)); h = hset(h, hwloc_topology_get_allowed_cpuset(t));
  h = hset(h, hwloc_topology_get_topology_nodeset(t)); h = hset(h, hwloc_topology_get_complete_nodeset(t)); h = hset(h, hwloc_topology_get_allowed_nodeset(t));
  /* distances */
  nr = 0;
  if (!hwloc_distances_get(t, &nr, NULL, 0, 0) && nr) {
    struct hwloc_distances_s **ds = calloc(nr, sizeof *ds); unsigned n2 = nr;
    if (!hwloc_distances_get(t, &n2, ds, 0, 0)) {
      if (n2 > nr) n2 = nr;
      for (i = 0; i < n2; i++) {
        h = fnvs(h, hwloc_distances_get_name(t, ds[i])); h = fnvu(h, ds[i]->kind); h = fnvu(h, ds[i]->nbobjs);
        for (j = 0; j < ds[i]->nbobjs; j++) h = fnvu(h, ds[i]->objs[j] ? ds[i]->objs[j]->gp_index : 0);
        for (j = 0; j < ds[i]->nbobjs * ds[i]->nbobjs; j++) h = fnvu(h, ds[i]->values[j]);
        if ((++ctr & (unsigned)yieldmask) == 0) sched_yield();
        hwloc_distances_release(t, ds[i]);
      }
    }
    free(ds);
  }
  /* memory attributes */
  for (i = 0; i < 32; i++) {
    const char *name; unsigned long fl = 0; unsigned nt = 0; hwloc_obj_t tg[16]; hwloc_uint64_t vals[16];
    if (hwloc_memattr_get_name(t, i, &name) < 0) break;
    hwloc_memattr_get_flags(t, i, &fl); h = fnvs(h, name); h = fnvu(h, fl);
    nt = 16;
    if (!hwloc_memattr_get_targets(t, i, NULL, 0, &nt, tg, (fl & HWLOC_MEMATTR_FLAG_NEED_INITIATOR) ? NULL : vals)) {
      if (nt > 16) nt = 16;
      for (j = 0; j < nt; j++) {
        h = fnvu(h, tg[j]->gp_index);
        if (!(fl & HWLOC_MEMATTR_FLAG_NEED_INITIATOR)) h = fnvu(h, vals[j]);
        else if (pu0) { struct hwloc_location loc; hwloc_uint64_t v = 0; loc.type = HWLOC_LOCATION_TYPE_CPUSET; loc.location.cpuset = pu0->cpuset;
          if (!hwloc_memattr_get_value(t, i, tg[j], &loc, 0, &v)) h = fnvu(h, v); else h = fnvu(h, 77); }
      }
    }
    if (pu0) { struct hwloc_location loc; hwloc_obj_t best = NULL; hwloc_uint64_t v = 0; loc.type = HWLOC_LOCATION_TYPE_CPUSET; loc.location.cpuset = pu0->cpuset;
      if (!hwloc_memattr_get_best_target(t, i, &loc, 0, &best, &v)) { h = fnvu(h, best ? best->gp_index : 0); h = fnvu(h, v); } }
    if ((++ctr & (unsigned)yieldmask) == 0) sched_yield();
  }
  /* CPU kinds */
  { int n = hwloc_cpukinds_get_nr(t, 0); hwloc_bitmap_t cs = hwloc_bitmap_alloc();
    for (i = 0; (int)i < n; i++) { int eff = -2; struct hwloc_infos_s *infos = NULL;
      if (!hwloc_cpukinds_get_info(t, i, cs, &eff, &infos, 0)) { h = hset(h, cs); h = fnvu(h, (uint64_t)eff); if (infos) for (j = 0; j < infos->count; j++) { h = fnvs(h, infos->array[j].name); h = fnvs(h, infos->array[j].value); } } }
    if (pu0) h = fnvu(h, (uint64_t)hwloc_cpukinds_get_by_cpuset(t, pu0->cpuset, 0));
    hwloc_bitmap_free(cs); }
  /* exports */
  { char *xb = NULL; int xl = 0; if (!hwloc_topology_export_xmlbuffer(t, &xb, &xl, 0)) { h = fnv(h, xb, (size_t)xl); hwloc_free_xmlbuffer(t, xb); } }
  { char syn[2048]; int r = hwloc_topology_export_synthetic(t, syn, sizeof syn, 0); h = fnvu(h, (uint64_t)r); if (r > 0) h = fnvs(h, syn); }
  return h;
}
static void out_digest(uint64_t h) { out("[%u,%u,%u,%u]", (unsigned)(h & 0xffff), (unsigned)((h >> 16) & 0xffff), (unsigned)((h >> 32) & 0xffff), (unsigned)((h >> 48) & 0xffff)); }

/* ---------- main topology ---------- */
static hwloc_topology_t mainT; static int nlive;     /* topologies this recorder holds (initial user count of the registry) */

static void annotate(hwloc_topology_t t) {
  unsigned npu = hwloc_get_nbobjs_by_type(t, HWLOC_OBJ_PU), nn = hwloc_get_nbobjs_by_type(t, HWLOC_OBJ_NUMANODE), i;
  if (npu >= 2) {
    hwloc_obj_t objs[4]; hwloc_uint64_t vals[16]; unsigned n = npu >= 4 ? 4 : 2, a, b; hwloc_distances_add_handle_t h;
    for (i = 0; i < n; i++) objs[i] = hwloc_get_obj_by_type(t, HWLOC_OBJ_PU, i);
    for (a = 0; a < n; a++) for (b = 0; b < n; b++) vals[a * n + b] = a == b ? 10 : 20 + a + b;
    h = hwloc_distances_add_create(t, "hwvthreads", HWLOC_DISTANCES_KIND_FROM_USER | HWLOC_DISTANCES_KIND_VALUE_LATENCY, 0);
    if (h && !hwloc_distances_add_values(t, h, n, objs, vals, 0)) hwloc_distances_add_commit(t, h, 0);
  }
  if (nn >= 1) {
    hwloc_memattr_id_t id; struct hwloc_location loc; hwloc_obj_t pu0 = hwloc_get_obj_by_type(t, HWLOC_OBJ_PU, 0);
    if (!hwloc_memattr_register(t, "hwvattr", HWLOC_MEMATTR_FLAG_HIGHER_FIRST, &id))
      for (i = 0; i < nn; i++) hwloc_memattr_set_value(t, id, hwloc_get_obj_by_type(t, HWLOC_OBJ_NUMANODE, i), NULL, 0, 100 + i);
    loc.type = HWLOC_LOCATION_TYPE_CPUSET; loc.location.cpuset = pu0->cpuset;
    for (i = 0; i < nn; i++) hwloc_memattr_set_value(t, HWLOC_MEMATTR_ID_BANDWIDTH, hwloc_get_obj_by_type(t, HWLOC_OBJ_NUMANODE, i), &loc, 0, 1000 + i);
  }
  if (npu >= 2) { hwloc_bitmap_t c = hwloc_bitmap_alloc(); hwloc_bitmap_set(c, hwloc_get_obj_by_type(t, HWLOC_OBJ_PU, 0)->os_index); hwloc_cpukinds_register(t, c, 1, NULL, 0); hwloc_bitmap_free(c); }
}
static void do_setup(char *p) {
  char *kind = hwv_tok(&p); int r1 = -1, r2 = -1;
  if (mainT) { hwloc_topology_destroy(mainT); mainT = NULL; nlive--; }
  hwloc_topology_init(&mainT); nlive++;
  while (*p == ' ') p++;
  if (kind && !strcmp(kind, "synthetic")) r1 = hwloc_topology_set_synthetic(mainT, p); else r1 = hwloc_topology_set_xml(mainT, p);
  hwloc_topology_set_all_types_filter(mainT, HWLOC_TYPE_FILTER_KEEP_ALL);
  if (!r1) r2 = hwloc_topology_load(mainT);
  if (!r2) annotate(mainT);
  out("{\"e\":\"setup\",\"kind\":\"%s\",\"arg\":", kind ? kind : ""); out_jstr(p); out(",\"set\":%d,\"load\":%d}", r1, r2); out_end();
  if (r2) { hwloc_topology_destroy(mainT); mainT = NULL; nlive--; }
}
static void modify_main(void) {
  /* a real modification: restrict away the last PU (invalidates distances and memattr caches), add an info */
  unsigned npu = hwloc_get_nbobjs_by_type(mainT, HWLOC_OBJ_PU);
  if (npu >= 3) { hwloc_bitmap_t c = hwloc_bitmap_dup(hwloc_topology_get_topology_cpuset(mainT));
    hwloc_bitmap_clr(c, hwloc_get_obj_by_type(mainT, HWLOC_OBJ_PU, npu - 1)->os_index); hwloc_topology_restrict(mainT, c, 0); hwloc_bitmap_free(c); }
  hwloc_obj_add_info(hwloc_get_root_obj(mainT), "hwvmod", "1");
}

/* ---------- phase A: shared-memory adopted, read-only copy ---------- */
static void do_adopted(void) {
  size_t len = 0; char path[] = "/var/tmp/hwv_shm_XXXXXX"; int fd, r1 = -1, r2 = -1; void *addr; hwloc_topology_t ad = NULL; uint64_t hm = 0, ha = 0;
  if (!mainT) return;
  hm = battery(mainT, 0xff);
  hwloc_shmem_topology_get_length(mainT, &len, 0);
  fd = mkstemp(path);
  addr = mmap(NULL, len + (1u << 20), PROT_NONE, MAP_PRIVATE | MAP_ANONYMOUS, -1, 0);     /* find a free range */
  munmap(addr, len + (1u << 20));
  if (fd >= 0 && addr != MAP_FAILED) {
    if (ftruncate(fd, (off_t)len) < 0) {}
    r1 = hwloc_shmem_topology_write(mainT, fd, 0, addr, len, 0);
    if (!r1) { r2 = hwloc_shmem_topology_adopt(&ad, fd, 0, addr, len, 0); if (!r2) nlive++; }
    if (!r2) { ha = battery(ad, 0xff); hwloc_topology_destroy(ad); nlive--; }     /* any write to the PROT_READ mapping is a crash */
  }
  if (fd >= 0) { close(fd); unlink(path); }
  out("{\"e\":\"adopted\",\"write\":%d,\"adopt\":%d,\"main\":", r1, r2); out_digest(hm); out(",\"digest\":"); out_digest(ha); out("}"); out_end();
}

/* ---------- phase B: concurrent readers ---------- */
struct rarg { int tid, rounds, yieldmask; uint64_t digest[64]; pthread_barrier_t *bar; };
static void *reader(void *v) {
  struct rarg *a = v; int r;
  my_tid = a->tid;
  pthread_barrier_wait(a->bar);
  for (r = 0; r < a->rounds && r < 64; r++) a->digest[r] = battery(mainT, a->yieldmask);
  return NULL;
}
static void out_tevs(int T) {
  int s; unsigned k, n = 0;
  out("[");
  for (s = 1; s <= T; s++) for (k = 0; k < ntev[s]; k++) out("%s[%d,\"%s\",%lu]", n++ ? "," : "", s - 1, tev[s][k].name, tev[s][k].a);
  out("]");
}
static void do_readers(char *p) {
  int T = (int)hwv_tokl(&p), rounds = (int)hwv_tokl(&p), mode = (int)hwv_tokl(&p); unsigned seed = (unsigned)hwv_tokl(&p);
  pthread_t th[MAXT]; struct rarg a[MAXT]; pthread_barrier_t bar; int i, r; uint64_t hm; unsigned k, nmain;
  if (!mainT || T < 1 || T > MAXT) return;
  if (mode >= 1) modify_main();
  if (mode == 1) hwloc_topology_refresh(mainT);
  memset(ntev, 0, sizeof ntev);
  /* the single-threaded reference: under the documented discipline it may not write anything either (mode 0 and 1) */
  my_tid = -1;
  if (mode == 2) hm = 0; else hm = battery(mainT, 0xff);
  nmain = ntev[0];
  pthread_barrier_init(&bar, NULL, (unsigned)T);
  for (i = 0; i < T; i++) { a[i].tid = i; a[i].rounds = rounds; a[i].yieldmask = (int)((seed >> (i % 16)) & 0x1f) | 1; a[i].bar = &bar; pthread_create(&th[i], NULL, reader, &a[i]); }
  for (i = 0; i < T; i++) pthread_join(th[i], NULL);
  pthread_barrier_destroy(&bar);
  if (mode == 2) hm = battery(mainT, 0xff);      /* reference taken afterwards in the negative control */
  out("{\"e\":\"readers\",\"threads\":%d,\"rounds\":%d,\"mode\":%d,\"main\":", T, rounds, mode); out_digest(hm);
  out(",\"mainwrites\":[");
  for (k = 0; k < nmain; k++) out("%s[\"%s\",%lu]", k ? "," : "", tev[0][k].name, tev[0][k].a);
  out("],\"digests\":[");
  for (i = 0; i < T; i++) { out("%s[", i ? "," : ""); for (r = 0; r < rounds && r < 64; r++) { if (r) out(","); out_digest(a[i].digest[r]); } out("]"); }
  out("],\"writes\":"); out_tevs(T); out("}"); out_end();
}

/* ---------- phase C: independent topologies ---------- */
static const char *variants[] = { "pack:2 core:2 pu:2", "node:2 core:2 pu:1", "pu:6", "[numa] pack:2 [numa] core:1 pu:2" };
static uint64_t history(int v) {
  hwloc_topology_t t; uint64_t h = 0; hwloc_bitmap_t c;
  hwloc_topology_init(&t);
  hwloc_topology_set_synthetic(t, variants[v % 4]);
  hwloc_topology_set_type_filter(t, HWLOC_OBJ_MISC, HWLOC_TYPE_FILTER_KEEP_ALL);
  if (!hwloc_topology_load(t)) {
    annotate(t);
    hwloc_topology_insert_misc_object(t, hwloc_get_root_obj(t), "m");
    c = hwloc_bitmap_dup(hwloc_topology_get_topology_cpuset(t)); hwloc_bitmap_clr(c, hwloc_bitmap_last(c)); hwloc_topology_restrict(t, c, 0); hwloc_bitmap_free(c);
    hwloc_topology_refresh(t);
    h = battery(t, 0x7);
  }
  hwloc_topology_destroy(t);
  return h;
}
struct iarg { int tid, rounds; uint64_t digest[64]; pthread_barrier_t *bar; };
static void *indep(void *v) {
  struct iarg *a = v; int r;
  my_tid = a->tid;
  pthread_barrier_wait(a->bar);
  for (r = 0; r < a->rounds && r < 64; r++) a->digest[r] = history(a->tid + r);
  return NULL;
}
static void do_indep(char *p) {
  int T = (int)hwv_tokl(&p), rounds = (int)hwv_tokl(&p); pthread_t th[MAXT]; struct iarg a[MAXT]; pthread_barrier_t bar; int i, r; uint64_t exp[4]; unsigned k, base;
  if (T < 1 || T > MAXT) return;
  my_tid = -1;
  for (i = 0; i < 4; i++) exp[i] = history(i);          /* single-threaded reference of each variant */
  base = nregev;
  pthread_barrier_init(&bar, NULL, (unsigned)T);
  for (i = 0; i < T; i++) { a[i].tid = i; a[i].rounds = rounds; a[i].bar = &bar; pthread_create(&th[i], NULL, indep, &a[i]); }
  for (i = 0; i < T; i++) pthread_join(th[i], NULL);
  pthread_barrier_destroy(&bar);
  out("{\"e\":\"indep\",\"threads\":%d,\"rounds\":%d,\"users0\":%d,\"expected\":[", T, rounds, nlive);
  for (i = 0; i < 4; i++) { if (i) out(","); out_digest(exp[i]); }
  out("],\"got\":[");
  for (i = 0; i < T; i++) { out("%s[", i ? "," : ""); for (r = 0; r < rounds && r < 64; r++) { out("%s[%d,", r ? "," : "", (i + r) % 4); out_digest(a[i].digest[r]); out("]"); } out("]"); }
  out("],\"registry\":[");
  for (k = base; k < nregev; k++) out("%s[\"%s\",%lu,%lu]", k > base ? "," : "", regev[k].name, regev[k].a, regev[k].b);
  out("]}"); out_end();
}

static void handler(char **lines, size_t n, int beh) {
  size_t i;
  for (i = 0; i < n; i++) {
    char *p = lines[i]; char *cmd = hwv_tok(&p);
    if (!cmd) continue;
    if (!strcmp(cmd, "reset")) { if (mainT) { hwloc_topology_destroy(mainT); mainT = NULL; nlive--; } if (!hwv_quiet) { out("{\"e\":\"Reset\",\"beh\":%d}", beh); out_end(); } }
    else if (!strcmp(cmd, "setup")) do_setup(p);
    else if (!strcmp(cmd, "adopted")) do_adopted();
    else if (!strcmp(cmd, "readers")) do_readers(p);
    else if (!strcmp(cmd, "indep")) do_indep(p);
  }
}
int main(int argc, char **argv) {
  if (argc < 3) { fprintf(stderr, "usage: hwv_threads <behaviours> <trace.ndjson>\n"); return 2; }
  return hwv_run(argv[1], argv[2], handler);
}
