/* hwv_threads: recorder for C17 (documented thread-safety).  No oracle logic: it runs the consulting battery and
 * independent topology histories in threads, records the library's hook events (built with -DHWLOC_VERIF) and result
 * digests; spec/TraceConcurrency.tla judges them.
 * behaviour file:
 *   reset
 *   setup synthetic <description...> | setup xml <path>      main topology, annotated with distances, memattr values, cpukinds
 *   adopted                                                  battery on a shared-memory adopted (PROT_READ) copy
 *   readers <T> <rounds> <mode> <seed>     mode 0: after load; 1: after modify + hwloc_topology_refresh; 2: after modify, NO refresh
 *   indep <T> <rounds> <seed>              T threads, each an independent init/load/modify/export/destroy history
 *   calls sched|free <T> <seed>            T threads, each running its own history of calls of the alphabet of spec/IndepCalls.tla
 *     c <tid> <op> <a> <b>                 ... one line per call, in the order of the generated schedule ...
 *   endcalls                               the histories run three times: single-threaded one after the other (reference), then in T
 *                                          threads - "sched": one call at a time in the order of the lines; "free": free-running
 */
#include "hwv_common.h"
#include <hwloc.h>
#include <hwloc/export.h>
#include <hwloc/distances.h>
#include <hwloc/memattrs.h>
#include <hwloc/cpukinds.h>
#include <hwloc/shmem.h>
#include <pthread.h>
#include <sched.h>
#include <stdint.h>

/* ---------- hook events ---------- */
#define MAXT 64
#define MAXEV 4096
struct hev { char name[28]; unsigned long a, b; int tid, call; };
static __thread int my_tid = -1;                 /* -1: main thread */
static __thread int cur_tid = -1, cur_call = -1; /* the history and the call of it that the calling thread is executing (phase D) */
static struct hev tev[MAXT + 1][MAXEV]; static unsigned ntev[MAXT + 1];     /* per thread (index tid+1), written by that thread only */
static struct hev regev[1 << 16]; static volatile unsigned nregev;          /* registry events: emitted under hwloc's components mutex */
void hwloc_verif_event(const char *name, unsigned long a, unsigned long b);
void hwloc_verif_event(const char *name, unsigned long a, unsigned long b) {
  if (!strncmp(name, "comp_", 5)) {
    unsigned k = nregev;
    if (k < (1u << 16)) { snprintf(regev[k].name, sizeof regev[k].name, "%s", name); regev[k].a = a; regev[k].b = b; regev[k].tid = cur_tid; regev[k].call = cur_call; nregev = k + 1; }
  } else {
    int s = my_tid + 1; unsigned k = ntev[s];
    if (k < MAXEV) { snprintf(tev[s][k].name, sizeof tev[s][k].name, "%s", name); tev[s][k].a = a; tev[s][k].b = b; ntev[s] = k + 1; }
  }
}

/* ---------- the consulting battery: a digest of everything the read-only API reports ---------- */
static uint64_t fnv(uint64_t h, const void *p, size_t n) { const unsigned char *c = p; size_t i; for (i = 0; i < n; i++) { h ^= c[i]; h *= 1099511628211ULL; } return h; }
static uint64_t fnvs(uint64_t h, const char *s) { return fnv(fnv(h, s ? s : "\1", s ? strlen(s) : 1), "|", 1); }
static uint64_t fnvu(uint64_t h, uint64_t v) { return fnv(h, &v, sizeof v); }
static uint64_t hset(uint64_t h, hwloc_const_bitmap_t b) {
  char *s = NULL; if (!b) return fnvs(h, NULL);
  hwloc_bitmap_asprintf(&s, b); h = fnvs(h, s); free(s);
  h = fnvu(h, (uint64_t)hwloc_bitmap_weight(b)); h = fnvu(h, (uint64_t)hwloc_bitmap_first(b)); h = fnvu(h, (uint64_t)hwloc_bitmap_last(b));
  return h;
}
static uint64_t hobj(uint64_t h, hwloc_topology_t t, hwloc_obj_t o, int yieldmask, unsigned *ctr) {
  char buf[256]; hwloc_obj_t c; unsigned i;
  if ((++*ctr & (unsigned)yieldmask) == 0) sched_yield();
  h = fnvu(h, (uint64_t)o->type); h = fnvu(h, o->os_index); h = fnvu(h, (uint64_t)o->depth); h = fnvu(h, o->logical_index); h = fnvu(h, o->gp_index);
  h = fnvs(h, o->name); h = fnvs(h, o->subtype); h = fnvu(h, o->total_memory);
  h = hset(h, o->cpuset); h = hset(h, o->complete_cpuset); h = hset(h, o->nodeset); h = hset(h, o->complete_nodeset);
  hwloc_obj_type_snprintf(buf, sizeof buf, o, 0); h = fnvs(h, buf);
  hwloc_obj_attr_snprintf(buf, sizeof buf, o, " ", HWLOC_OBJ_SNPRINTF_FLAG_MORE_ATTRS); h = fnvs(h, buf);
  for (i = 0; i < o->infos.count; i++) { h = fnvs(h, o->infos.array[i].name); h = fnvs(h, o->infos.array[i].value); }
  if (o->cpuset && !hwloc_bitmap_iszero(o->cpuset)) {
    hwloc_obj_t cov = hwloc_get_obj_covering_cpuset(t, o->cpuset); h = fnvu(h, cov ? cov->gp_index : 0);
    h = fnvu(h, (uint64_t)hwloc_get_nbobjs_inside_cpuset_by_type(t, o->cpuset, HWLOC_OBJ_PU));
  }
  for (c = o->first_child; c; c = c->next_sibling) h = hobj(h, t, c, yieldmask, ctr);
  for (c = o->memory_first_child; c; c = c->next_sibling) h = hobj(h, t, c, yieldmask, ctr);
  for (c = o->io_first_child; c; c = c->next_sibling) h = hobj(h, t, c, yieldmask, ctr);
  for (c = o->misc_first_child; c; c = c->next_sibling) h = hobj(h, t, c, yieldmask, ctr);
  return h;
}
static uint64_t battery(hwloc_topology_t t, int yieldmask) {
  uint64_t h = 1469598103934665603ULL; unsigned ctr = 0, nr, i, j; int d, depth = hwloc_topology_get_depth(t);
  hwloc_obj_t root = hwloc_get_root_obj(t), pu0, pul, objs[8];
  h = hobj(h, t, root, yieldmask, &ctr);
  for (d = 0; d < depth; d++) { h = fnvu(h, hwloc_get_nbobjs_by_depth(t, d)); h = fnvu(h, (uint64_t)hwloc_get_depth_type(t, d)); }
  for (d = 0; d < HWLOC_OBJ_TYPE_MAX; d++) h = fnvu(h, (uint64_t)hwloc_get_type_depth(t, (hwloc_obj_type_t)d));
  pu0 = hwloc_get_obj_by_type(t, HWLOC_OBJ_PU, 0); pul = hwloc_get_obj_by_type(t, HWLOC_OBJ_PU, hwloc_get_nbobjs_by_type(t, HWLOC_OBJ_PU) - 1);
  if (pu0 && pul) { hwloc_obj_t a = hwloc_get_common_ancestor_obj(t, pu0, pul); h = fnvu(h, a ? a->gp_index : 0);
    nr = hwloc_get_closest_objs(t, pu0, objs, 8); for (i = 0; i < nr; i++) h = fnvu(h, objs[i]->gp_index); }
  { int n = hwloc_get_largest_objs_inside_cpuset(t, root->cpuset, objs, 8); for (i = 0; (int)i < n; i++) h = fnvu(h, objs[i]->gp_index); }
  h = hset(h, hwloc_topology_get_topology_cpuset(t)); h = hset(h, hwloc_topology_get_complete_cpuset(t)); h = hset(h, hwloc_topology_get_allowed_cpuset(t));
  h = hset(h, hwloc_topology_get_topology_nodeset(t)); h = hset(h, hwloc_topology_get_complete_nodeset(t)); h = hset(h, hwloc_topology_get_allowed_nodeset(t));
  /* distances */
  nr = 0;
  if (!hwloc_distances_get(t, &nr, NULL, 0, 0) && nr) {
    struct hwloc_distances_s **ds = calloc(nr, sizeof *ds); unsigned n2 = nr;
    if (!hwloc_distances_get(t, &n2, ds, 0, 0)) {
      if (n2 > nr) n2 = nr;
      for (i = 0; i < n2; i++) {
        h = fnvs(h, hwloc_distances_get_name(t, ds[i])); h = fnvu(h, ds[i]->kind); h = fnvu(h, ds[i]->nbobjs);
        for (j = 0; j < ds[i]->nbobjs; j++) h = fnvu(h, ds[i]->objs[j] ? ds[i]->objs[j]->gp_index : 0);
        for (j = 0; j < ds[i]->nbobjs * ds[i]->nbobjs; j++) h = fnvu(h, ds[i]->values[j]);
        if ((++ctr & (unsigned)yieldmask) == 0) sched_yield();
        hwloc_distances_release(t, ds[i]);
      }
    }
    free(ds);
  }
  /* memory attributes */
  for (i = 0; i < 32; i++) {
    const char *name; unsigned long fl = 0; unsigned nt = 0; hwloc_obj_t tg[16]; hwloc_uint64_t vals[16];
    if (hwloc_memattr_get_name(t, i, &name) < 0) break;
    hwloc_memattr_get_flags(t, i, &fl); h = fnvs(h, name); h = fnvu(h, fl);
    nt = 16;
    if (!hwloc_memattr_get_targets(t, i, NULL, 0, &nt, tg, (fl & HWLOC_MEMATTR_FLAG_NEED_INITIATOR) ? NULL : vals)) {
      if (nt > 16) nt = 16;
      for (j = 0; j < nt; j++) {
        h = fnvu(h, tg[j]->gp_index);
        if (!(fl & HWLOC_MEMATTR_FLAG_NEED_INITIATOR)) h = fnvu(h, vals[j]);
        else if (pu0) { struct hwloc_location loc; hwloc_uint64_t v = 0; loc.type = HWLOC_LOCATION_TYPE_CPUSET; loc.location.cpuset = pu0->cpuset;
          if (!hwloc_memattr_get_value(t, i, tg[j], &loc, 0, &v)) h = fnvu(h, v); else h = fnvu(h, 77); }
      }
    }
    if (pu0) { struct hwloc_location loc; hwloc_obj_t best = NULL; hwloc_uint64_t v = 0; loc.type = HWLOC_LOCATION_TYPE_CPUSET; loc.location.cpuset = pu0->cpuset;
      if (!hwloc_memattr_get_best_target(t, i, &loc, 0, &best, &v)) { h = fnvu(h, best ? best->gp_index : 0); h = fnvu(h, v); } }
    if ((++ctr & (unsigned)yieldmask) == 0) sched_yield();
  }
  /* CPU kinds */
  { int n = hwloc_cpukinds_get_nr(t, 0); hwloc_bitmap_t cs = hwloc_bitmap_alloc();
    for (i = 0; (int)i < n; i++) { int eff = -2; struct hwloc_infos_s *infos = NULL;
      if (!hwloc_cpukinds_get_info(t, i, cs, &eff, &infos, 0)) { h = hset(h, cs); h = fnvu(h, (uint64_t)eff); if (infos) for (j = 0; j < infos->count; j++) { h = fnvs(h, infos->array[j].name); h = fnvs(h, infos->array[j].value); } } }
    if (pu0) h = fnvu(h, (uint64_t)hwloc_cpukinds_get_by_cpuset(t, pu0->cpuset, 0));
    hwloc_bitmap_free(cs); }
  /* exports */
  { char *xb = NULL; int xl = 0; if (!hwloc_topology_export_xmlbuffer(t, &xb, &xl, 0)) { h = fnv(h, xb, (size_t)xl); hwloc_free_xmlbuffer(t, xb); } }
  /* the older format too: exporting is a consulting call whatever the format */
  { char *xb = NULL; int xl = 0; if (!hwloc_topology_export_xmlbuffer(t, &xb, &xl, HWLOC_TOPOLOGY_EXPORT_XML_FLAG_V2)) { h = fnv(h, xb, (size_t)xl); hwloc_free_xmlbuffer(t, xb); } }
  { char syn[2048]; int r = hwloc_topology_export_synthetic(t, syn, sizeof syn, 0); h = fnvu(h, (uint64_t)r); if (r > 0) h = fnvs(h, syn); }
  return h;
}
static void out_digest(uint64_t h) { out("[%u,%u,%u,%u]", (unsigned)(h & 0xffff), (unsigned)((h >> 16) & 0xffff), (unsigned)((h >> 32) & 0xffff), (unsigned)((h >> 48) & 0xffff)); }

/* ---------- main topology ---------- */
static hwloc_topology_t mainT; static int nlive;     /* topologies this recorder holds (initial user count of the registry) */

static void annotate(hwloc_topology_t t) {
  unsigned npu = hwloc_get_nbobjs_by_type(t, HWLOC_OBJ_PU), nn = hwloc_get_nbobjs_by_type(t, HWLOC_OBJ_NUMANODE), i;
  if (npu >= 2) {
    hwloc_obj_t objs[4]; hwloc_uint64_t vals[16]; unsigned n = npu >= 4 ? 4 : 2, a, b; hwloc_distances_add_handle_t h;
    for (i = 0; i < n; i++) objs[i] = hwloc_get_obj_by_type(t, HWLOC_OBJ_PU, i);
    for (a = 0; a < n; a++) for (b = 0; b < n; b++) vals[a * n + b] = a == b ? 10 : 20 + a + b;
    h = hwloc_distances_add_create(t, "hwvthreads", HWLOC_DISTANCES_KIND_FROM_USER | HWLOC_DISTANCES_KIND_VALUE_LATENCY, 0);
    if (h && !hwloc_distances_add_values(t, h, n, objs, vals, 0)) hwloc_distances_add_commit(t, h, 0);
    /* a second structure whose values are hops: the older XML format has no such kind and the exporter translates it */
    h = hwloc_distances_add_create(t, "hwvhops", HWLOC_DISTANCES_KIND_FROM_USER | HWLOC_DISTANCES_KIND_VALUE_HOPS, 0);
    if (h && !hwloc_distances_add_values(t, h, n, objs, vals, 0)) hwloc_distances_add_commit(t, h, 0);
  }
  if (nn >= 1) {
    hwloc_memattr_id_t id; struct hwloc_location loc; hwloc_obj_t pu0 = hwloc_get_obj_by_type(t, HWLOC_OBJ_PU, 0);
    if (!hwloc_memattr_register(t, "hwvattr", HWLOC_MEMATTR_FLAG_HIGHER_FIRST, &id))
      for (i = 0; i < nn; i++) hwloc_memattr_set_value(t, id, hwloc_get_obj_by_type(t, HWLOC_OBJ_NUMANODE, i), NULL, 0, 100 + i);
    loc.type = HWLOC_LOCATION_TYPE_CPUSET; loc.location.cpuset = pu0->cpuset;
    for (i = 0; i < nn; i++) hwloc_memattr_set_value(t, HWLOC_MEMATTR_ID_BANDWIDTH, hwloc_get_obj_by_type(t, HWLOC_OBJ_NUMANODE, i), &loc, 0, 1000 + i);
  }
  if (npu >= 2) { hwloc_bitmap_t c = hwloc_bitmap_alloc(); hwloc_bitmap_set(c, hwloc_get_obj_by_type(t, HWLOC_OBJ_PU, 0)->os_index); hwloc_cpukinds_register(t, c, 1, NULL, 0); hwloc_bitmap_free(c); }
}
static void do_setup(char *p) {
  char *kind = hwv_tok(&p); int r1 = -1, r2 = -1;
  if (mainT) { hwloc_topology_destroy(mainT); mainT = NULL; nlive--; }
  hwloc_topology_init(&mainT); nlive++;
  while (*p == ' ') p++;
  /* kind = synthetic | xml, optionally followed by +bound (loaded with RESTRICT_TO_CPUBINDING|IS_THISSYSTEM while the process is bound to
   * two processors: the load itself restricts) and / or +dup (the shared topology is a hwloc_topology_dup() of the loaded one) */
  {
  int bound = kind && strstr(kind, "+bound") != NULL, dup = kind && strstr(kind, "+dup") != NULL; cpu_set_t old, two; int haveold = 0, c, k = 0;
  if (kind && !strncmp(kind, "synthetic", 9)) r1 = hwloc_topology_set_synthetic(mainT, p); else r1 = hwloc_topology_set_xml(mainT, p);
  hwloc_topology_set_all_types_filter(mainT, HWLOC_TYPE_FILTER_KEEP_ALL);
  if (bound) {
    haveold = !sched_getaffinity(0, sizeof old, &old);
    CPU_ZERO(&two); for (c = 0; haveold && c < CPU_SETSIZE && k < 2; c++) if (CPU_ISSET(c, &old)) { CPU_SET(c, &two); k++; }
    if (k) sched_setaffinity(0, sizeof two, &two);
    setenv("HWLOC_THISSYSTEM", "1", 1);
    hwloc_topology_set_flags(mainT, HWLOC_TOPOLOGY_FLAG_RESTRICT_TO_CPUBINDING | HWLOC_TOPOLOGY_FLAG_IS_THISSYSTEM);
  }
  if (!r1) r2 = hwloc_topology_load(mainT);
  if (bound) { unsetenv("HWLOC_THISSYSTEM"); if (haveold) sched_setaffinity(0, sizeof old, &old); }
  /* the documented discipline: a phase of modifications ends with hwloc_topology_refresh(); from then on no consulting call may write */
  /* (a binding-restricted load is consulted as load returned it: the restrict inside the load must leave nothing to refresh) */
  if (!r2 && !bound) { annotate(mainT); hwloc_topology_refresh(mainT); }
  if (!r2 && dup) { hwloc_topology_t d = NULL; if (!hwloc_topology_dup(&d, mainT)) { hwloc_topology_destroy(mainT); mainT = d; } }
  }
  out("{\"e\":\"setup\",\"kind\":\"%s\",\"arg\":", kind ? kind : ""); out_jstr(p); out(",\"set\":%d,\"load\":%d}", r1, r2); out_end();
  if (r2) { hwloc_topology_destroy(mainT); mainT = NULL; nlive--; }
}
static void modify_main(void) {
  /* a real modification: restrict away the last PU (invalidates distances and memattr caches), add an info */
  unsigned npu = hwloc_get_nbobjs_by_type(mainT, HWLOC_OBJ_PU);
  if (npu >= 3) { hwloc_bitmap_t c = hwloc_bitmap_dup(hwloc_topology_get_topology_cpuset(mainT));
    hwloc_bitmap_clr(c, hwloc_get_obj_by_type(mainT, HWLOC_OBJ_PU, npu - 1)->os_index); hwloc_topology_restrict(mainT, c, 0); hwloc_bitmap_free(c); }
  hwloc_obj_add_info(hwloc_get_root_obj(mainT), "hwvmod", "1");
}

/* ---------- phase A: shared-memory adopted, read-only copy ---------- */
static void do_adopted(void) {
  size_t len = 0; char path[] = "/var/tmp/hwv_shm_XXXXXX"; int fd, r1 = -1, r2 = -1; void *addr; hwloc_topology_t ad = NULL; uint64_t hm = 0, ha = 0;
  unsigned w0;
  if (!mainT) return;
  { unsigned k0 = ntev[0], k;                     /* hook events of the main thread so far */
    hm = battery(mainT, 0xff);                   /* the very first consulting calls on the shared topology */
    /* writes of the topology's own caches (the process-wide environment caches are legitimately filled by the first call that needs them) */
    for (w0 = 0, k = k0; k < ntev[0] && k < MAXEV; k++) if (!strcmp(tev[0][k].name, "dist_refresh_write") || !strcmp(tev[0][k].name, "memattr_refresh_write")) w0++;
  }
  hwloc_shmem_topology_get_length(mainT, &len, 0);
  fd = mkstemp(path);
  addr = mmap(NULL, len + (1u << 20), PROT_NONE, MAP_PRIVATE | MAP_ANONYMOUS, -1, 0);     /* find a free range */
  munmap(addr, len + (1u << 20));
  if (fd >= 0 && addr != MAP_FAILED) {
    if (ftruncate(fd, (off_t)len) < 0) {}
    r1 = hwloc_shmem_topology_write(mainT, fd, 0, addr, len, 0);
    if (!r1) { r2 = hwloc_shmem_topology_adopt(&ad, fd, 0, addr, len, 0); if (!r2) nlive++; }
    if (!r2) { ha = battery(ad, 0xff); hwloc_topology_destroy(ad); nlive--; }     /* any write to the PROT_READ mapping is a crash */
  }
  if (fd >= 0) { close(fd); unlink(path); }
  out("{\"e\":\"adopted\",\"write\":%d,\"adopt\":%d,\"prewrites\":%u,\"main\":", r1, r2, w0); out_digest(hm); out(",\"digest\":"); out_digest(ha); out("}"); out_end();
}

/* ---------- phase B: concurrent readers ---------- */
struct rarg { int tid, rounds, yieldmask; uint64_t digest[64]; pthread_barrier_t *bar; };
static void *reader(void *v) {
  struct rarg *a = v; int r;
  my_tid = a->tid;
  pthread_barrier_wait(a->bar);
  for (r = 0; r < a->rounds && r < 64; r++) a->digest[r] = battery(mainT, a->yieldmask);
  return NULL;
}
static void out_tevs(int T) {
  int s; unsigned k, n = 0;
  out("[");
  for (s = 1; s <= T; s++) for (k = 0; k < ntev[s]; k++) out("%s[%d,\"%s\",%lu]", n++ ? "," : "", s - 1, tev[s][k].name, tev[s][k].a);
  out("]");
}
static void do_readers(char *p) {
  int T = (int)hwv_tokl(&p), rounds = (int)hwv_tokl(&p), mode = (int)hwv_tokl(&p); unsigned seed = (unsigned)hwv_tokl(&p);
  pthread_t th[MAXT]; struct rarg a[MAXT]; pthread_barrier_t bar; int i, r; uint64_t hm; unsigned k, nmain;
  if (!mainT || T < 1 || T > MAXT) return;
  if (mode >= 1) modify_main();
  if (mode == 1) hwloc_topology_refresh(mainT);
  memset(ntev, 0, sizeof ntev);
  /* the single-threaded reference: under the documented discipline it may not write anything either (mode 0 and 1) */
  my_tid = -1;
  if (mode == 2) hm = 0; else hm = battery(mainT, 0xff);
  nmain = ntev[0];
  pthread_barrier_init(&bar, NULL, (unsigned)T);
  for (i = 0; i < T; i++) { a[i].tid = i; a[i].rounds = rounds; a[i].yieldmask = (int)((seed >> (i % 16)) & 0x1f) | 1; a[i].bar = &bar; pthread_create(&th[i], NULL, reader, &a[i]); }
  for (i = 0; i < T; i++) pthread_join(th[i], NULL);
  pthread_barrier_destroy(&bar);
  if (mode == 2) hm = battery(mainT, 0xff);      /* reference taken afterwards in the negative control */
  out("{\"e\":\"readers\",\"threads\":%d,\"rounds\":%d,\"mode\":%d,\"main\":", T, rounds, mode); out_digest(hm);
  out(",\"mainwrites\":[");
  for (k = 0; k < nmain; k++) out("%s[\"%s\",%lu]", k ? "," : "", tev[0][k].name, tev[0][k].a);
  out("],\"digests\":[");
  for (i = 0; i < T; i++) { out("%s[", i ? "," : ""); for (r = 0; r < rounds && r < 64; r++) { if (r) out(","); out_digest(a[i].digest[r]); } out("]"); }
  out("],\"writes\":"); out_tevs(T); out("}"); out_end();
}

/* ---------- phase C: independent topologies ---------- */
static const char *variants[] = { "pack:2 core:2 pu:2", "node:2 core:2 pu:1", "pu:6", "[numa] pack:2 [numa] core:1 pu:2" };
static uint64_t history(int v) {
  hwloc_topology_t t; uint64_t h = 0; hwloc_bitmap_t c;
  hwloc_topology_init(&t);
  hwloc_topology_set_synthetic(t, variants[v % 4]);
  hwloc_topology_set_type_filter(t, HWLOC_OBJ_MISC, HWLOC_TYPE_FILTER_KEEP_ALL);
  if (!hwloc_topology_load(t)) {
    annotate(t);
    hwloc_topology_insert_misc_object(t, hwloc_get_root_obj(t), "m");
    c = hwloc_bitmap_dup(hwloc_topology_get_topology_cpuset(t)); hwloc_bitmap_clr(c, hwloc_bitmap_last(c)); hwloc_topology_restrict(t, c, 0); hwloc_bitmap_free(c);
    hwloc_topology_refresh(t);
    h = battery(t, 0x7);
  }
  hwloc_topology_destroy(t);
  return h;
}
struct iarg { int tid, rounds; uint64_t digest[64]; pthread_barrier_t *bar; };
static void *indep(void *v) {
  struct iarg *a = v; int r;
  my_tid = a->tid;
  pthread_barrier_wait(a->bar);
  for (r = 0; r < a->rounds && r < 64; r++) a->digest[r] = history(a->tid + r);
  return NULL;
}
static void do_indep(char *p) {
  int T = (int)hwv_tokl(&p), rounds = (int)hwv_tokl(&p); pthread_t th[MAXT]; struct iarg a[MAXT]; pthread_barrier_t bar; int i, r; uint64_t exp[4]; unsigned k, base;
  if (T < 1 || T > MAXT) return;
  my_tid = -1;
  for (i = 0; i < 4; i++) exp[i] = history(i);          /* single-threaded reference of each variant */
  base = nregev;
  pthread_barrier_init(&bar, NULL, (unsigned)T);
  for (i = 0; i < T; i++) { a[i].tid = i; a[i].rounds = rounds; a[i].bar = &bar; pthread_create(&th[i], NULL, indep, &a[i]); }
  for (i = 0; i < T; i++) pthread_join(th[i], NULL);
  pthread_barrier_destroy(&bar);
  out("{\"e\":\"indep\",\"threads\":%d,\"rounds\":%d,\"users0\":%d,\"expected\":[", T, rounds, nlive);
  for (i = 0; i < 4; i++) { if (i) out(","); out_digest(exp[i]); }
  out("],\"got\":[");
  for (i = 0; i < T; i++) { out("%s[", i ? "," : ""); for (r = 0; r < rounds && r < 64; r++) { out("%s[%d,", r ? "," : "", (i + r) % 4); out_digest(a[i].digest[r]); out("]"); } out("]"); }
  out("],\"registry\":[");
  for (k = base; k < nregev; k++) out("%s[\"%s\",%lu,%lu]", k > base ? "," : "", regev[k].name, regev[k].a, regev[k].b);
  out("]}"); out_end();
}

/* ---------- phase D: independent histories over the alphabet of spec/IndepCalls.tla ---------- */
#include <hwloc/diff.h>
#define NSLOT 2
#define MAXCALLS 1024
#define SHMLEN ((size_t)4 << 20)
#define SHMSTRIDE ((size_t)64 << 20)
#define SKIPPED (-99)                    /* the call could not be made (what it needs does not exist): logged as such, nothing is judged here */
struct call { int tid; char op[16]; int a, b; };
struct cres { int ret, err; long n1, n2; uint64_t dg; };
struct tstate {
  hwloc_topology_t slot[NSLOT]; int loaded[NSLOT], adopted[NSLOT];
  hwloc_topology_diff_t diff; char *xbuf; int xbuflen, xfile;
  char shmpath[320], xpath[320], gpath[320]; char *addr;
};
static const char *cvariants[] = { "pack:2 core:2 pu:2", "node:2 core:2 pu:1", "pu:6" };
static const char garbage_xml[] = "<?xml version=\"1.0\"?>\n<topologydiff refname=\"hwv\">\n <diff type=\"1\" obj_depth=";
static char scratch_dir[256] = "/var/tmp";
static char *shm_base;                   /* MAXT address ranges of SHMSTRIDE bytes, far from where the kernel and the allocators map */
static void find_shm_base(void) {
  static const uintptr_t hints[] = { 0x240000000000UL, 0x2c0000000000UL, 0x1c0000000000UL, 0x340000000000UL, 0 }; int i;
  if (shm_base) return;
  for (i = 0; hints[i]; i++) {
    void *p = mmap((void *)hints[i], SHMSTRIDE * MAXT, PROT_NONE, MAP_PRIVATE | MAP_ANONYMOUS | MAP_NORESERVE | MAP_FIXED_NOREPLACE, -1, 0);
    if (p == (void *)hints[i]) { munmap(p, SHMSTRIDE * MAXT); shm_base = p; return; }
    if (p != MAP_FAILED) munmap(p, SHMSTRIDE * MAXT);
  }
}
static void ts_init(struct tstate *ts, int tid) {
  FILE *f;
  memset(ts, 0, sizeof *ts);
  snprintf(ts->shmpath, sizeof ts->shmpath, "%s/hwv_thr_%d_%d.shm", scratch_dir, (int)getpid(), tid);     /* next to the trace: removed with the scratch directory */
  snprintf(ts->xpath, sizeof ts->xpath, "%s/hwv_thr_%d_%d.xml", scratch_dir, (int)getpid(), tid);
  snprintf(ts->gpath, sizeof ts->gpath, "%s/hwv_thr_%d_%d.bad", scratch_dir, (int)getpid(), tid);
  unlink(ts->shmpath); unlink(ts->xpath);
  f = fopen(ts->gpath, "w"); if (f) { fputs(garbage_xml, f); fclose(f); }
  ts->addr = shm_base + SHMSTRIDE * (size_t)tid;
}
static int ts_live(struct tstate *ts) { int s, n = 0; for (s = 0; s < NSLOT; s++) if (ts->slot[s]) n++; return n; }
static void ts_cleanup(struct tstate *ts) {
  int s;
  for (s = 0; s < NSLOT; s++) if (ts->slot[s]) { hwloc_topology_destroy(ts->slot[s]); ts->slot[s] = NULL; }
  if (ts->diff) hwloc_topology_diff_destroy(ts->diff);
  free(ts->xbuf); ts->diff = NULL; ts->xbuf = NULL;
  unlink(ts->shmpath); unlink(ts->xpath); unlink(ts->gpath);
}
static void diff_count(hwloc_topology_diff_t d, long *n, long *ncomplex) {
  *n = *ncomplex = 0;
  for (; d; d = d->generic.next) { ++*n; if (d->generic.type == HWLOC_TOPOLOGY_DIFF_TOO_COMPLEX) ++*ncomplex; }
}
static void exec_call(struct tstate *ts, const struct call *c, struct cres *r, int yieldmask) {
  int a = c->a, b = c->b, s; const char *op = c->op; hwloc_topology_t t = (a >= 0 && a < NSLOT) ? ts->slot[a] : NULL;
  memset(r, 0, sizeof *r); r->ret = SKIPPED; errno = 0;
  if (!strcmp(op, "init")) { if (a < 0 || a >= NSLOT || t) return; r->ret = hwloc_topology_init(&ts->slot[a]); if (r->ret) ts->slot[a] = NULL; ts->loaded[a] = ts->adopted[a] = 0; }
  else if (!strcmp(op, "destroy")) { if (!t) return; hwloc_topology_destroy(t); ts->slot[a] = NULL; ts->loaded[a] = ts->adopted[a] = 0; r->ret = 0; }
  else if (!strcmp(op, "load")) {
    int r1, r2 = -1;
    if (!t || ts->loaded[a]) return;
    r1 = hwloc_topology_set_synthetic(t, cvariants[(unsigned)b % 3]); r->n1 = r1;
    hwloc_topology_set_type_filter(t, HWLOC_OBJ_MISC, HWLOC_TYPE_FILTER_KEEP_ALL);
    if (!r1) r2 = hwloc_topology_load(t);
    r->n2 = r2; r->ret = r1 ? r1 : r2;
    if (!r2) { ts->loaded[a] = 1; hwloc_obj_add_info(hwloc_get_root_obj(t), "hwvmod", "0"); }
  }
  else if (!strcmp(op, "modify")) {
    if (!t || !ts->loaded[a] || ts->adopted[a]) return;
    if (b == 1) r->ret = hwloc_modify_infos(&hwloc_get_root_obj(t)->infos, HWLOC_MODIFY_INFOS_OP_REPLACE, "hwvmod", "1");
    else if (b == 2) {
      unsigned npu = hwloc_get_nbobjs_by_type(t, HWLOC_OBJ_PU); r->ret = 0;
      if (npu >= 3) { hwloc_bitmap_t cs = hwloc_bitmap_dup(hwloc_topology_get_topology_cpuset(t));
        hwloc_bitmap_clr(cs, hwloc_get_obj_by_type(t, HWLOC_OBJ_PU, npu - 1)->os_index); r->ret = hwloc_topology_restrict(t, cs, 0); hwloc_bitmap_free(cs); }
      r->n1 = hwloc_topology_refresh(t);
    } else { annotate(t); hwloc_topology_insert_misc_object(t, hwloc_get_root_obj(t), "m"); r->ret = hwloc_topology_refresh(t); }
  }
  else if (!strcmp(op, "digest")) { if (!t || !ts->loaded[a]) return; r->dg = battery(t, yieldmask); r->ret = 0; }
  else if (!strcmp(op, "dup")) {
    if (!t || b < 0 || b >= NSLOT || ts->slot[b]) return;
    r->ret = hwloc_topology_dup(&ts->slot[b], t);
    if (r->ret) ts->slot[b] = NULL; else { ts->loaded[b] = 1; ts->adopted[b] = 0; }
  }
  else if (!strcmp(op, "shmlen")) { size_t len = 0; if (!t) return; r->ret = hwloc_shmem_topology_get_length(t, &len, 0); r->n1 = (long)len; }
  else if (!strcmp(op, "shmwrite")) {
    int fd;
    if (!t || !ts->loaded[a] || ts->adopted[a] || !ts->addr) return;
    if (b) for (s = 0; s < NSLOT; s++) if (ts->slot[s] && ts->adopted[s]) return;      /* the range is in use */
    fd = open(ts->shmpath, O_RDWR | O_CREAT, 0600); if (fd < 0) return;
    r->ret = hwloc_shmem_topology_write(t, fd, 0, ts->addr, SHMLEN, b ? 0 : 1);
    close(fd);
  }
  else if (!strcmp(op, "adopt")) {
    int fd;
    if (a < 0 || a >= NSLOT || t || !ts->addr) return;
    fd = open(ts->shmpath, O_RDONLY | O_CREAT, 0600); if (fd < 0) return;
    r->ret = hwloc_shmem_topology_adopt(&ts->slot[a], fd, 0, b ? ts->addr : ts->addr + 4096, SHMLEN, 0);
    close(fd);
    if (r->ret) ts->slot[a] = NULL; else ts->loaded[a] = ts->adopted[a] = 1;
  }
  else if (!strcmp(op, "diffbuild")) {
    if (!t || b < 0 || b >= NSLOT || !ts->slot[b] || !ts->loaded[a] || !ts->loaded[b]) return;
    if (ts->diff) { hwloc_topology_diff_destroy(ts->diff); ts->diff = NULL; }
    r->ret = hwloc_topology_diff_build(t, ts->slot[b], 0, &ts->diff);
    if (r->ret < 0) ts->diff = NULL;
    diff_count(ts->diff, &r->n1, &r->n2);
  }
  else if (!strcmp(op, "diffdestroy")) { r->ret = ts->diff ? hwloc_topology_diff_destroy(ts->diff) : 0; ts->diff = NULL; }
  else if (!strcmp(op, "diffexp_buf")) {
    char *xb = NULL; int xl = 0;
    if (!t) return;                                  /* hwloc_free_xmlbuffer wants a topology */
    r->ret = hwloc_topology_diff_export_xmlbuffer(ts->diff, "hwvref", &xb, &xl);
    if (!r->ret && xb) {
      int e = errno;
      free(ts->xbuf); ts->xbuf = malloc((size_t)xl + 1); memcpy(ts->xbuf, xb, (size_t)xl); ts->xbuf[xl] = 0; ts->xbuflen = xl;
      r->n1 = xl; r->dg = fnv(1469598103934665603ULL, xb, (size_t)xl);
      hwloc_free_xmlbuffer(t, xb); errno = e;
    }
  }
  else if (!strcmp(op, "diffexp_file")) {
    r->ret = hwloc_topology_diff_export_xml(ts->diff, "hwvref", a ? ts->xpath : "/nonexistent-hwv-dir/diff.xml");
    if (!r->ret && a) ts->xfile = 1;
  }
  else if (!strcmp(op, "diffload_buf") || !strcmp(op, "diffload_file")) {
    char *refname = NULL, *tmp = NULL; int file = !strcmp(op, "diffload_file");
    if (a && !file && !ts->xbuf) return;
    if (a == 1 && file && !ts->xfile) return;
    if (ts->diff) { hwloc_topology_diff_destroy(ts->diff); ts->diff = NULL; }
    if (file) r->ret = hwloc_topology_diff_load_xml(a == 1 ? ts->xpath : a == 0 ? ts->gpath : "/nonexistent-hwv-dir/missing.xml", &ts->diff, &refname);
    else if (a == 1) r->ret = hwloc_topology_diff_load_xmlbuffer(ts->xbuf, ts->xbuflen, &ts->diff, &refname);
    else if (a == 2) { int h = ts->xbuflen / 2; tmp = malloc((size_t)h + 1); memcpy(tmp, ts->xbuf, (size_t)h); tmp[h] = 0; r->ret = hwloc_topology_diff_load_xmlbuffer(tmp, h + 1, &ts->diff, &refname); }
    else r->ret = hwloc_topology_diff_load_xmlbuffer(garbage_xml, (int)sizeof garbage_xml, &ts->diff, &refname);
    { int e = errno; if (r->ret < 0) ts->diff = NULL; diff_count(ts->diff, &r->n1, &r->n2); if (!r->ret && refname) r->dg = fnvs(0, refname); if (!r->ret) free(refname); free(tmp); errno = e; }
  }
  else return;
  r->err = r->ret < 0 && r->ret != SKIPPED ? errno : 0;
}
struct carg { int tid, sched, yieldmask, ncalls; struct call *calls; struct cres *res; struct tstate *ts; pthread_barrier_t *bar; };
static pthread_mutex_t turn_mx = PTHREAD_MUTEX_INITIALIZER; static pthread_cond_t turn_cv = PTHREAD_COND_INITIALIZER; static int turn;
static void *caller(void *v) {
  struct carg *g = v; int n, k = 0;
  my_tid = g->tid; cur_tid = g->tid;
  pthread_barrier_wait(g->bar);
  for (n = 0; n < g->ncalls; n++) {
    if (g->calls[n].tid != g->tid) continue;
    if (g->sched) { pthread_mutex_lock(&turn_mx); while (turn != n) pthread_cond_wait(&turn_cv, &turn_mx); pthread_mutex_unlock(&turn_mx); }
    else if (((unsigned)g->yieldmask >> (k % 8)) & 1) sched_yield();
    cur_call = k++;
    exec_call(g->ts, &g->calls[n], &g->res[n], g->yieldmask | 1);
    cur_call = -1;
    if (g->sched) { pthread_mutex_lock(&turn_mx); turn = n + 1; pthread_cond_broadcast(&turn_cv); pthread_mutex_unlock(&turn_mx); }
  }
  cur_tid = -1;
  return NULL;
}
static void out_regs(unsigned r0, unsigned r1) {
  unsigned k;
  out("\"reg\":[");
  for (k = r0; k < r1; k++) out("%s[\"%s\",%lu,%lu,%d,%d]", k > r0 ? "," : "", regev[k].name, regev[k].a, regev[k].b, regev[k].tid, regev[k].call);
  out("]");
}
/* one stage: what the calls returned and the registry events of the stage, logged BEFORE the topologies the histories left alive are destroyed */
static void out_stage(const char *stage, int sched, int T, struct call *calls, struct cres *res, int ncalls, unsigned r0, unsigned r1, struct tstate *ts) {
  int i, n, first;
  out("{\"e\":\"calls\",\"stage\":\"%s\",\"mode\":\"%s\",\"threads\":%d,\"users0\":%d,\"prog\":[", stage, sched ? "sched" : "free", T, nlive);
  for (i = 0; i < T; i++) {
    out("%s[", i ? "," : ""); first = 1;
    for (n = 0; n < ncalls; n++) if (calls[n].tid == i) { out("%s[\"%s\",%d,%d]", first ? "" : ",", calls[n].op, calls[n].a, calls[n].b); first = 0; }
    out("]");
  }
  out("],\"sched\":[");
  for (n = 0; n < ncalls; n++) out("%s%d", n ? "," : "", calls[n].tid);
  out("],\"res\":[");
  for (i = 0; i < T; i++) {
    out("%s[", i ? "," : ""); first = 1;
    for (n = 0; n < ncalls; n++) if (calls[n].tid == i) {
      out("%s[%d,\"%s\",%ld,%ld,", first ? "" : ",", res[n].ret, errname(res[n].err), res[n].n1, res[n].n2); out_digest(res[n].dg); out("]"); first = 0; }
    out("]");
  }
  out("],"); out_regs(r0, r1);
  out(",\"live\":[");
  for (i = 0; i < T; i++) out("%s%d", i ? "," : "", ts_live(&ts[i]));
  out("]}"); out_end();
}
static void out_clean(unsigned r0, unsigned r1) { out("{\"e\":\"callsclean\","); out_regs(r0, r1); out("}"); out_end(); }
static size_t do_calls(char *p, char **lines, size_t i, size_t nlines) {
  char *mode = hwv_tok(&p); int T = (int)hwv_tokl(&p); unsigned seed = (unsigned)hwv_tokl(&p);
  static struct call calls[MAXCALLS]; static struct cres ref[MAXCALLS], got[MAXCALLS]; static struct tstate ts[MAXT];
  int ncalls = 0, n, t, k, sched = mode && !strcmp(mode, "sched");
  pthread_t th[MAXT]; struct carg g[MAXT]; pthread_barrier_t bar; unsigned r0;
  for (i++; i < nlines; i++) {
    char *q = lines[i]; char *cmd = hwv_tok(&q), *op;
    if (!cmd || !strcmp(cmd, "endcalls")) break;
    if (strcmp(cmd, "c") || ncalls >= MAXCALLS) continue;
    calls[ncalls].tid = (int)hwv_tokl(&q); op = hwv_tok(&q); snprintf(calls[ncalls].op, sizeof calls[ncalls].op, "%s", op ? op : "");
    calls[ncalls].a = (int)hwv_tokl(&q); calls[ncalls].b = (int)hwv_tokl(&q);
    if (calls[ncalls].tid >= 0 && calls[ncalls].tid < T) ncalls++;
  }
  if (T < 1 || T > MAXT) return i;
  find_shm_base();
  nregev = 0;                                  /* nobody else runs: the registry log restarts with this phase */
  /* (1) the single-threaded reference: the histories one after the other, each from a fresh state */
  my_tid = -1; r0 = nregev;
  for (t = 0; t < T; t++) {
    ts_init(&ts[t], t); cur_tid = t; k = 0;
    for (n = 0; n < ncalls; n++) if (calls[n].tid == t) { cur_call = k++; exec_call(&ts[t], &calls[n], &ref[n], 0xff); cur_call = -1; }
    cur_tid = -1;
  }
  out_stage("ref", sched, T, calls, ref, ncalls, r0, nregev, ts);
  r0 = nregev;
  for (t = 0; t < T; t++) ts_cleanup(&ts[t]);
  out_clean(r0, nregev);
  /* (2) the same histories in T threads */
  for (t = 0; t < T; t++) ts_init(&ts[t], t);
  turn = 0; r0 = nregev;
  pthread_barrier_init(&bar, NULL, (unsigned)T);
  for (t = 0; t < T; t++) { g[t].tid = t; g[t].sched = sched; g[t].yieldmask = (int)((seed >> (t % 16)) & 0xff); g[t].ncalls = ncalls; g[t].calls = calls; g[t].res = got; g[t].ts = &ts[t]; g[t].bar = &bar;
    pthread_create(&th[t], NULL, caller, &g[t]); }
  for (t = 0; t < T; t++) pthread_join(th[t], NULL);
  pthread_barrier_destroy(&bar);
  out_stage("run", sched, T, calls, got, ncalls, r0, nregev, ts);
  r0 = nregev;
  for (t = 0; t < T; t++) ts_cleanup(&ts[t]);
  out_clean(r0, nregev);
  return i;
}

static void handler(char **lines, size_t n, int beh) {
  size_t i;
  for (i = 0; i < n; i++) {
    char *p = lines[i]; char *cmd = hwv_tok(&p);
    if (!cmd) continue;
    if (!strcmp(cmd, "calls")) { i = do_calls(p, lines, i, n); continue; }
    if (!strcmp(cmd, "reset")) { if (mainT) { hwloc_topology_destroy(mainT); mainT = NULL; nlive--; } if (!hwv_quiet) { out("{\"e\":\"Reset\",\"beh\":%d}", beh); out_end(); } }
    else if (!strcmp(cmd, "setup")) do_setup(p);
    else if (!strcmp(cmd, "adopted")) do_adopted();
    else if (!strcmp(cmd, "readers")) do_readers(p);
    else if (!strcmp(cmd, "indep")) do_indep(p);
  }
}
int main(int argc, char **argv) {
  if (argc < 3) { fprintf(stderr, "usage: hwv_threads <behaviours> <trace.ndjson>\n"); return 2; }
  { char *sl = strrchr(argv[2], '/'); if (sl && (size_t)(sl - argv[2]) < sizeof scratch_dir && sl != argv[2]) { memcpy(scratch_dir, argv[2], (size_t)(sl - argv[2])); scratch_dir[sl - argv[2]] = 0; } }
  return hwv_run(argv[1], argv[2], handler);
}
