/* Common plumbing of the hwv recorders: no oracle logic lives here or in any
 * hwv_*.c file.  A recorder reads a behaviour file (text, one action per line,
 * behaviours start with a "reset" line), performs each action on the real
 * library and writes one ndjson event per action with the return value, errno
 * and a projection of the resulting state obtained through the public API.
 *
 * Behaviours run in a forked child; when the child dies (signal, sanitizer
 * abort, watchdog) the event {"e":"Crash"...} / {"e":"Hang"} is appended, for
 * which the trace specifications have no action, and the parent restarts the
 * child after the offending behaviour.
 */
#ifndef HWV_COMMON_H
#define HWV_COMMON_H
#define _GNU_SOURCE
#include <stdio.h>
#include <stdlib.h>
#include <string.h>
#include <stdarg.h>
#include <errno.h>
#include <signal.h>
#include <unistd.h>
#include <fcntl.h>
#include <sys/mman.h>
#include <sys/wait.h>
#include <sys/types.h>
#include <sys/stat.h>

/* ---------- output buffer (async-signal-friendly flush) ---------- */
static char *hwv_buf; static size_t hwv_len, hwv_cap; static int hwv_fd = -1;
static volatile int *hwv_progress;       /* shared: index of the behaviour being run */
static int hwv_watchdog = 20;             /* seconds per behaviour */
static int hwv_beh_base;                  /* added to behaviour indexes (parallel recorders) */

static size_t hwv_commit;                 /* bytes of complete events in hwv_buf */
static void hwv_flush(void) {             /* writes complete events only */
  size_t off = 0;
  while (off < hwv_commit) { ssize_t w = write(hwv_fd, hwv_buf + off, hwv_commit - off); if (w <= 0) break; off += (size_t)w; }
  memmove(hwv_buf, hwv_buf + hwv_commit, hwv_len - hwv_commit);
  hwv_len -= hwv_commit; hwv_commit = 0;
}
static void hwv_reserve(size_t n) {
  if (hwv_len + n + 1 > hwv_cap) {
    if (hwv_commit) hwv_flush();
    if (hwv_len + n + 1 > hwv_cap) { hwv_cap = (hwv_len + n + 1) * 2 > (1u<<20) ? (hwv_len + n + 1) * 2 : (1u<<20); hwv_buf = realloc(hwv_buf, hwv_cap); }
  }
}
static void out(const char *fmt, ...) __attribute__((format(printf,1,2)));
static void out(const char *fmt, ...) {
  va_list ap; int n;
  hwv_reserve(512);
  va_start(ap, fmt); n = vsnprintf(hwv_buf + hwv_len, hwv_cap - hwv_len, fmt, ap); va_end(ap);
  if (n < 0) return;
  if ((size_t)n >= hwv_cap - hwv_len) {
    hwv_reserve((size_t)n + 1);
    va_start(ap, fmt); n = vsnprintf(hwv_buf + hwv_len, hwv_cap - hwv_len, fmt, ap); va_end(ap);
  }
  hwv_len += (size_t)n;
}
/* end of one event: newline + commit */
static int hwv_quiet;                     /* events emitted while set are discarded */
static void out_end(void) { if (hwv_quiet) { hwv_len = hwv_commit; return; } out("\n"); hwv_commit = hwv_len; }
/* JSON string with escaping; bytes >= 0x80 and controls are written as \u00XX */
static void out_jstr(const char *s) {
  if (!s) { out("null"); return; }
  out("\"");
  for (; *s; s++) {
    unsigned char c = (unsigned char)*s;
    if (c == '"' || c == '\\') out("\\%c", c);
    else if (c < 0x20 || c >= 0x7f) out("\\u%04x", c);
    else out("%c", c);
  }
  out("\"");
}
static void out_jstrn(const char *s, size_t n) {
  size_t i;
  out("\"");
  for (i = 0; i < n; i++) {
    unsigned char c = (unsigned char)s[i];
    if (c == '"' || c == '\\') out("\\%c", c);
    else if (c < 0x20 || c >= 0x7f) out("\\u%04x", c);
    else out("%c", c);
  }
  out("\"");
}
static const char *errname(int e) {
  switch (e) {
  case 0: return "0"; case EINVAL: return "EINVAL"; case ENOENT: return "ENOENT"; case ENOSYS: return "ENOSYS";
  case EPERM: return "EPERM"; case EBUSY: return "EBUSY"; case EEXIST: return "EEXIST"; case ENOMEM: return "ENOMEM";
  case EXDEV: return "EXDEV"; case E2BIG: return "E2BIG"; case EFAULT: return "EFAULT"; case EIO: return "EIO";
  case ENOSPC: return "ENOSPC"; case ERANGE: return "ERANGE"; case EACCES: return "EACCES"; case EDOM: return "EDOM";
  default: { static char b[16]; snprintf(b, sizeof b, "E%d", e); return b; }
  }
}

/* ---------- crash handling ---------- */
static void hwv_on_signal(int sig) {
  char line[96]; int n;
  hwv_flush();
  if (sig == SIGALRM) n = snprintf(line, sizeof line, "{\"e\":\"Hang\",\"beh\":%d}\n", hwv_progress ? *hwv_progress + hwv_beh_base : -1);
  else n = snprintf(line, sizeof line, "{\"e\":\"Crash\",\"sig\":%d,\"beh\":%d}\n", sig, hwv_progress ? *hwv_progress + hwv_beh_base : -1);
  if (write(hwv_fd, line, (size_t)n) < 0) {}
  _exit(77);
}
static void hwv_install_handlers(void) {
  int sigs[] = { SIGSEGV, SIGBUS, SIGABRT, SIGFPE, SIGILL, SIGALRM, SIGPIPE };
  unsigned i;
  for (i = 0; i < sizeof sigs / sizeof *sigs; i++) {
    struct sigaction sa; memset(&sa, 0, sizeof sa); sa.sa_handler = hwv_on_signal; sa.sa_flags = SA_NODEFER;
    sigaction(sigs[i], &sa, NULL);
  }
}
/* HWV_LEAKCHECK=1: LeakSanitizer is consulted after every behaviour; a leak is logged as {"e":"Leak"} (no specification
 * action, so the trace is rejected) and the recorder restarts a fresh child for the next behaviour */
int __lsan_do_recoverable_leak_check(void) __attribute__((weak));
const char *__asan_default_options(void);
const char *__asan_default_options(void) {
  /* getenv() is not usable this early: leak detection is always armed, never run at exit, and consulted only under HWV_LEAKCHECK=1 */
  return "abort_on_error=1:detect_leaks=1:leak_check_at_exit=0:allocator_may_return_null=1:handle_abort=0:handle_segv=0:handle_sigbus=0:handle_sigfpe=0:detect_stack_use_after_return=0";
}
const char *__ubsan_default_options(void);
const char *__ubsan_default_options(void) { return "abort_on_error=1:print_stacktrace=1"; }

/* ---------- behaviour file ---------- */
struct hwv_file { char **lines; size_t n; size_t *beh_start; size_t nbeh; };
static int hwv_load(const char *path, struct hwv_file *f) {
  FILE *fp = fopen(path, "r"); char *line = NULL; size_t cap = 0; ssize_t r;
  size_t lcap = 0, bcap = 0;
  if (!fp) { perror(path); return -1; }
  memset(f, 0, sizeof *f);
  while ((r = getline(&line, &cap, fp)) >= 0) {
    while (r > 0 && (line[r-1] == '\n' || line[r-1] == '\r')) line[--r] = 0;
    if (!r) continue;
    if (f->n == lcap) { lcap = lcap ? lcap * 2 : 1024; f->lines = realloc(f->lines, lcap * sizeof *f->lines); }
    if (!strncmp(line, "reset", 5)) {
      if (f->nbeh == bcap) { bcap = bcap ? bcap * 2 : 256; f->beh_start = realloc(f->beh_start, bcap * sizeof *f->beh_start); }
      f->beh_start[f->nbeh++] = f->n;
    }
    f->lines[f->n++] = strdup(line);
  }
  free(line); fclose(fp);
  return 0;
}

/* run behaviours [0,nbeh) through handler(lines, nlines), forking and restarting after crashes.
 * handler is called once per behaviour with its lines (first one is the reset line). */
typedef void (*hwv_handler)(char **lines, size_t nlines, int beh);
static int hwv_run(const char *inpath, const char *outpath, hwv_handler h) {
  struct hwv_file f; size_t next = 0; int crashes = 0, leakcheck = 0;
  if (hwv_load(inpath, &f) < 0) return 2;
  hwv_fd = open(outpath, O_WRONLY | O_CREAT | O_TRUNC | O_APPEND, 0644);
  if (hwv_fd < 0) { perror(outpath); return 2; }
  hwv_progress = mmap(NULL, 4096, PROT_READ | PROT_WRITE, MAP_SHARED | MAP_ANONYMOUS, -1, 0);
  if (getenv("HWV_WATCHDOG")) hwv_watchdog = atoi(getenv("HWV_WATCHDOG"));
  if (getenv("HWV_BEH_BASE")) hwv_beh_base = atoi(getenv("HWV_BEH_BASE"));
  leakcheck = getenv("HWV_LEAKCHECK") && getenv("HWV_LEAKCHECK")[0] == '1';
  while (next < f.nbeh) {
    pid_t pid; int st;
    *hwv_progress = (int)next;
    fflush(NULL);
    pid = fork();
    if (pid < 0) { perror("fork"); return 2; }
    if (!pid) {
      size_t b;
      hwv_install_handlers();
      for (b = next; b < f.nbeh; b++) {
        size_t s = f.beh_start[b], e = b + 1 < f.nbeh ? f.beh_start[b+1] : f.n;
        *hwv_progress = (int)b;
        alarm((unsigned)hwv_watchdog);
        h(f.lines + s, e - s, (int)b + hwv_beh_base);
        alarm(0);
        if (leakcheck && __lsan_do_recoverable_leak_check && (b + 1 == f.nbeh || 1)) {
          /* the behaviour's own state is released by the next reset: check leaks once that happened, i.e. ask the handler to reset now */
          static char rst[] = "reset 1"; char *one[1]; char tmp[16]; int fd2;
          memcpy(tmp, rst, sizeof rst); one[0] = tmp;
          hwv_quiet = 1; h(one, 1, (int)b + hwv_beh_base); hwv_quiet = 0;
          fd2 = getenv("HWV_LEAKREPORT") ? -1 : dup(2);          /* HWV_LEAKREPORT=1: let LeakSanitizer print its report (diagnosis) */
          if (fd2 >= 0) { int nul = open("/dev/null", O_WRONLY); if (nul >= 0) { dup2(nul, 2); close(nul); } }
          if (__lsan_do_recoverable_leak_check()) {
            char line[64]; int n2;
            if (fd2 >= 0) { dup2(fd2, 2); close(fd2); }
            hwv_flush();
            n2 = snprintf(line, sizeof line, "{\"e\":\"Leak\",\"beh\":%d}\n", (int)b + hwv_beh_base);
            if (write(hwv_fd, line, (size_t)n2) < 0) {}
            _exit(78);
          }
          if (fd2 >= 0) { dup2(fd2, 2); close(fd2); }
        }
        if (hwv_commit > (1u<<16)) hwv_flush();
      }
      hwv_flush();
      _exit(0);
    }
    if (waitpid(pid, &st, 0) < 0) { perror("waitpid"); return 2; }
    if (WIFEXITED(st) && WEXITSTATUS(st) == 0) break;
    crashes++;
    if (!(WIFEXITED(st) && (WEXITSTATUS(st) == 77 || WEXITSTATUS(st) == 78))) {
      /* died without our handler (e.g. SIGKILL, _exit from a sanitizer): still a crash event */
      char line[96]; int n = snprintf(line, sizeof line, "{\"e\":\"Crash\",\"sig\":%d,\"beh\":%d}\n",
                                      WIFSIGNALED(st) ? WTERMSIG(st) : -WEXITSTATUS(st), *hwv_progress + hwv_beh_base);
      if (write(hwv_fd, line, (size_t)n) < 0) {}
    }
    next = (size_t)*hwv_progress + 1;
    /* optional cap (HWV_MAX_CRASHES=n): stop after n crashed/hung behaviours; the remaining ones are not run */
    if (getenv("HWV_MAX_CRASHES") && crashes >= atoi(getenv("HWV_MAX_CRASHES"))) {
      fprintf(stderr, "hwv: stopping after %d crashed behaviours, %zu not run\n", crashes, f.nbeh - next);
      break;
    }
  }
  close(hwv_fd);
  fprintf(stderr, "hwv: %zu behaviours, %d crashed\n", f.nbeh, crashes);
  return 0;
}

/* tiny tokenizer helpers */
static char *hwv_tok(char **p) {
  char *s = *p, *t;
  while (*s == ' ') s++;
  if (!*s) { *p = s; return NULL; }
  t = s; while (*t && *t != ' ') t++;
  if (*t) { *t = 0; t++; }
  *p = t; return s;
}
static long hwv_tokl(char **p) { char *t = hwv_tok(p); return t ? strtol(t, NULL, 0) : 0; }
#endif
