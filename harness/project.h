/* project.h: projection of a real hwloc topology to JSON, through public
 * accessors and public struct fields only.  No oracle logic: it prints what
 * the library exposes; the TLA+ specification (Topology.tla) judges it.
 *
 * Objects are numbered by a depth-first walk from the root (position 1..N);
 * every link is logged as a position (0 = NULL, -1 = pointer to something the
 * walk did not reach).  64-bit quantities are logged as 4 limbs base 65536
 * (TLC integers are 32-bit).  Optional strings are [] or ["text"].
 */
#ifndef HWV_PROJECT_H
#define HWV_PROJECT_H
#include "hwv_common.h"
#include <hwloc.h>
#include <stdint.h>

#define PRJ_MAXOBJ 200000
struct prj { hwloc_obj_t *objs; unsigned n; struct { hwloc_obj_t p; unsigned pos; } *idx; };

static void prj_walk(struct prj *P, hwloc_obj_t o, unsigned *steps) {
  hwloc_obj_t c; unsigned k;
  if (!o || P->n >= PRJ_MAXOBJ) return;
  P->objs[P->n++] = o;
  for (c = o->first_child, k = 0; c && k < PRJ_MAXOBJ && (*steps)++ < 4 * PRJ_MAXOBJ; c = c->next_sibling, k++) prj_walk(P, c, steps);
  for (c = o->memory_first_child, k = 0; c && k < PRJ_MAXOBJ && (*steps)++ < 4 * PRJ_MAXOBJ; c = c->next_sibling, k++) prj_walk(P, c, steps);
  for (c = o->io_first_child, k = 0; c && k < PRJ_MAXOBJ && (*steps)++ < 4 * PRJ_MAXOBJ; c = c->next_sibling, k++) prj_walk(P, c, steps);
  for (c = o->misc_first_child, k = 0; c && k < PRJ_MAXOBJ && (*steps)++ < 4 * PRJ_MAXOBJ; c = c->next_sibling, k++) prj_walk(P, c, steps);
}
static int prj_cmp(const void *a, const void *b) {
  uintptr_t x = (uintptr_t)*(hwloc_obj_t const *)a, y = (uintptr_t)*(hwloc_obj_t const *)b;
  return x < y ? -1 : x > y;
}
static int prj_pos(struct prj *P, hwloc_obj_t o) {
  unsigned lo = 0, hi = P->n;
  if (!o) return 0;
  while (lo < hi) { unsigned mid = (lo + hi) / 2; if ((uintptr_t)P->idx[mid].p < (uintptr_t)o) lo = mid + 1; else hi = mid; }
  if (lo < P->n && P->idx[lo].p == o) return (int)P->idx[lo].pos;
  return -1;
}
static void prj_init(struct prj *P, hwloc_topology_t t) {
  unsigned steps = 0, i;
  P->objs = malloc(sizeof(hwloc_obj_t) * PRJ_MAXOBJ); P->n = 0;
  prj_walk(P, hwloc_get_root_obj(t), &steps);
  P->idx = malloc(sizeof(*P->idx) * (P->n + 1));
  for (i = 0; i < P->n; i++) { P->idx[i].p = P->objs[i]; P->idx[i].pos = i + 1; }
  qsort(P->idx, P->n, sizeof *P->idx, prj_cmp);
}
static void prj_fini(struct prj *P) { free(P->objs); free(P->idx); }

static void out_u64(uint64_t v) { out("[%u,%u,%u,%u]", (unsigned)(v & 0xffff), (unsigned)((v >> 16) & 0xffff), (unsigned)((v >> 32) & 0xffff), (unsigned)((v >> 48) & 0xffff)); }
static void out_optstr(const char *s) { if (!s) out("[]"); else { out("["); out_jstr(s); out("]"); } }
/* a set as ranges through the public iterators; [] when empty; absent sets are flagged separately */
static void out_set(hwloc_const_bitmap_t b) {
  int i, n = 0;
  out("[");
  if (b) {
    i = hwloc_bitmap_first(b);
    while (i != -1 && n < 100000) {
      int j = hwloc_bitmap_next_unset(b, i);
      if (j == -1) { out("%s[%d,-1]", n ? "," : "", i); n++; break; }
      out("%s[%d,%d]", n ? "," : "", i, j - 1); n++;
      i = hwloc_bitmap_next(b, j);
    }
  }
  out("]");
}
static void out_infos(struct hwloc_infos_s *infos) {
  unsigned i;
  out("[");
  if (infos) for (i = 0; i < infos->count; i++) { out("%s[", i ? "," : ""); out_jstr(infos->array[i].name ? infos->array[i].name : ""); out(","); out_jstr(infos->array[i].value ? infos->array[i].value : ""); out("]"); }
  out("]");
}
static void out_list(struct prj *P, hwloc_obj_t first) {
  hwloc_obj_t c; unsigned k;
  out("[");
  for (c = first, k = 0; c && k < PRJ_MAXOBJ; c = c->next_sibling, k++) out("%s%d", k ? "," : "", prj_pos(P, c));
  out("]");
}
static void out_pci(const struct hwloc_pcidev_attr_s *p) {
  out("{\"dom\":%u,\"bus\":%u,\"dev\":%u,\"func\":%u,\"class\":%u,\"vendor\":%u,\"device\":%u,\"subvendor\":%u,\"subdevice\":%u,\"rev\":%u,\"progif\":%u,\"speed\":\"%.6g\"}",
      p->domain & 0x7fffffff, p->bus, p->dev, p->func, p->class_id, p->vendor_id, p->device_id, p->subvendor_id, p->subdevice_id, p->revision, p->prog_if, (double)p->linkspeed);
}
static void out_attr(hwloc_obj_t o) {
  union hwloc_obj_attr_u *a = o->attr;
  if (!a) { out("{\"k\":\"null\"}"); return; }
  if (o->type == HWLOC_OBJ_NUMANODE) {
    unsigned i;
    out("{\"k\":\"numa\",\"local\":"); out_u64(a->numanode.local_memory); out(",\"pages\":[");
    for (i = 0; i < a->numanode.page_types_len && i < 64; i++) { out("%s[", i ? "," : ""); out_u64(a->numanode.page_types[i].size); out(","); out_u64(a->numanode.page_types[i].count); out("]"); }
    out("]}");
  } else if (hwloc_obj_type_is_cache(o->type) || o->type == HWLOC_OBJ_MEMCACHE) {
    out("{\"k\":\"cache\",\"size\":"); out_u64(a->cache.size);
    out(",\"depth\":%d,\"line\":%d,\"assoc\":%d,\"ctype\":%d}", (int)a->cache.depth, (int)a->cache.linesize, a->cache.associativity, (int)a->cache.type);
  } else if (o->type == HWLOC_OBJ_GROUP) {
    out("{\"k\":\"group\",\"depth\":%d,\"kind\":%d,\"subkind\":%d,\"dont_merge\":%d}", (int)a->group.depth, (int)(a->group.kind & 0x7fffffff), (int)(a->group.subkind & 0x7fffffff), (int)a->group.dont_merge);
  } else if (o->type == HWLOC_OBJ_PCI_DEVICE) {
    out("{\"k\":\"pci\",\"pci\":"); out_pci(&a->pcidev); out("}");
  } else if (o->type == HWLOC_OBJ_BRIDGE) {
    out("{\"k\":\"bridge\",\"up\":%d,\"down\":%d,\"bdepth\":%d,\"ddom\":%u,\"sec\":%u,\"sub\":%u", (int)a->bridge.upstream_type, (int)a->bridge.downstream_type, (int)a->bridge.depth,
        a->bridge.downstream.pci.domain & 0x7fffffff, a->bridge.downstream.pci.secondary_bus, a->bridge.downstream.pci.subordinate_bus);
    if (a->bridge.upstream_type == HWLOC_OBJ_BRIDGE_PCI) { out(",\"pci\":"); out_pci(&a->bridge.upstream.pci); }
    out("}");
  } else if (o->type == HWLOC_OBJ_OS_DEVICE) {
    out("{\"k\":\"osdev\",\"types\":"); out_u64((uint64_t)a->osdev.types); out("}");
  } else out("{\"k\":\"none\"}");
}

static int prj_check_ok(hwloc_topology_t t) {
  pid_t pid; int st;
  hwv_flush();
  pid = fork();
  if (pid < 0) return -1;
  if (!pid) {
    signal(SIGABRT, SIG_DFL); signal(SIGSEGV, SIG_DFL); signal(SIGALRM, SIG_DFL);
    { int fd = open("/dev/null", O_WRONLY); if (fd >= 0) { dup2(fd, 2); } }
    alarm(20);
    hwloc_topology_check(t);
    _exit(0);
  }
  if (waitpid(pid, &st, 0) < 0) return -1;
  return WIFEXITED(st) && WEXITSTATUS(st) == 0;
}

static const int prj_sdepths[] = { HWLOC_TYPE_DEPTH_NUMANODE, HWLOC_TYPE_DEPTH_BRIDGE, HWLOC_TYPE_DEPTH_PCI_DEVICE, HWLOC_TYPE_DEPTH_OS_DEVICE, HWLOC_TYPE_DEPTH_MISC, HWLOC_TYPE_DEPTH_MEMCACHE };

/* prints {...} ; flags: bit0 = run hwloc_topology_check in a forked child */
static void project_topology(hwloc_topology_t t, int docheck) {
  struct prj P; unsigned i; int d, depth, ty;
  prj_init(&P, t);
  depth = hwloc_topology_get_depth(t);
  out("{\"depth\":%d,\"n\":%u,\"objs\":[", depth, P.n);
  for (i = 0; i < P.n; i++) {
    hwloc_obj_t o = P.objs[i]; unsigned k;
    out("%s{\"gp\":%lu,\"type\":%d,\"st\":", i ? "," : "", (unsigned long)(o->gp_index & 0x7fffffff), (int)o->type);
    out_optstr(o->subtype); out(",\"name\":"); out_optstr(o->name);
    out(",\"os\":%d,\"depth\":%d,\"lidx\":%d,\"srank\":%d,\"arity\":%d,\"marity\":%d,\"ioarity\":%d,\"miscarity\":%d,\"sym\":%d",
        o->os_index == HWLOC_UNKNOWN_INDEX ? -1 : (int)(o->os_index & 0x7fffffff), o->depth, (int)o->logical_index, (int)o->sibling_rank,
        (int)o->arity, (int)o->memory_arity, (int)o->io_arity, (int)o->misc_arity, o->symmetric_subtree);
    out(",\"parent\":%d,\"first\":%d,\"last\":%d,\"nsib\":%d,\"psib\":%d,\"ncous\":%d,\"pcous\":%d",
        prj_pos(&P, o->parent), prj_pos(&P, o->first_child), prj_pos(&P, o->last_child), prj_pos(&P, o->next_sibling), prj_pos(&P, o->prev_sibling),
        prj_pos(&P, o->next_cousin), prj_pos(&P, o->prev_cousin));
    out(",\"kids\":"); out_list(&P, o->first_child);
    out(",\"children\":[");
    if (o->children) for (k = 0; k < o->arity && k < PRJ_MAXOBJ; k++) out("%s%d", k ? "," : "", prj_pos(&P, o->children[k]));
    out("],\"mem\":"); out_list(&P, o->memory_first_child);
    out(",\"io\":"); out_list(&P, o->io_first_child);
    out(",\"misc\":"); out_list(&P, o->misc_first_child);
    out(",\"hs\":[%d,%d,%d,%d],\"cs\":", !!o->cpuset, !!o->complete_cpuset, !!o->nodeset, !!o->complete_nodeset);
    out_set(o->cpuset); out(",\"ccs\":"); out_set(o->complete_cpuset); out(",\"ns\":"); out_set(o->nodeset); out(",\"cns\":"); out_set(o->complete_nodeset);
    out(",\"tmem\":"); out_u64(o->total_memory);
    out(",\"attr\":"); out_attr(o);
    out(",\"infos\":"); out_infos(&o->infos);
    out(",\"ud\":%ld}", (long)((uintptr_t)o->userdata & 0x7fffffff));
  }
  out("],\"levels\":[");
  for (d = 0; d < depth + 6; d++) {
    int dd = d < depth ? d : prj_sdepths[d - depth];
    unsigned nb = hwloc_get_nbobjs_by_depth(t, dd), j;
    out("%s{\"depth\":%d,\"type\":%d,\"nb\":%u,\"objs\":[", d ? "," : "", dd, (int)hwloc_get_depth_type(t, dd), nb);
    for (j = 0; j < nb && j < PRJ_MAXOBJ; j++) out("%s%d", j ? "," : "", prj_pos(&P, hwloc_get_obj_by_depth(t, dd, j)));
    out("],\"past\":%d}", prj_pos(&P, hwloc_get_obj_by_depth(t, dd, nb)));
  }
  out("],\"tdepth\":[");
  for (ty = 0; ty < HWLOC_OBJ_TYPE_MAX; ty++) out("%s%d", ty ? "," : "", hwloc_get_type_depth(t, (hwloc_obj_type_t)ty));
  out("],\"filters\":[");
  for (ty = 0; ty < HWLOC_OBJ_TYPE_MAX; ty++) { enum hwloc_type_filter_e f = 0; hwloc_topology_get_type_filter(t, (hwloc_obj_type_t)ty, &f); out("%s%d", ty ? "," : "", (int)f); }
  out("],\"mpdepth\":%d,\"flags\":%lu,\"thissystem\":%d", hwloc_get_memory_parents_depth(t), hwloc_topology_get_flags(t) & 0x7fffffff, hwloc_topology_is_thissystem(t));
  out(",\"tcs\":"); out_set(hwloc_topology_get_topology_cpuset(t));
  out(",\"tccs\":"); out_set(hwloc_topology_get_complete_cpuset(t));
  out(",\"tacs\":"); out_set(hwloc_topology_get_allowed_cpuset(t));
  out(",\"tns\":"); out_set(hwloc_topology_get_topology_nodeset(t));
  out(",\"tcns\":"); out_set(hwloc_topology_get_complete_nodeset(t));
  out(",\"tans\":"); out_set(hwloc_topology_get_allowed_nodeset(t));
  out(",\"tinfos\":"); out_infos(hwloc_topology_get_infos(t));
  out(",\"check_ok\":%d}", docheck ? prj_check_ok(t) : 1);
  prj_fini(&P);
}
#endif
