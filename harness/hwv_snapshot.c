/* hwv_snapshot: recorder for property C18 (discovery from Linux sysfs/procfs
 * snapshots and x86 CPUID dumps with paths removed).
 * No oracle logic: it copies a snapshot, removes the paths it is told to
 * remove, performs the loads / the XML round trip and logs return values,
 * errno and the full public projection (project.h + project_stores.h) of the
 * topologies together with a digest of the projection text.  Every judgement
 * (well-formedness, determinism, the INCLUDE_DISALLOWED relation, the XML
 * relation) is made by spec/TraceSnapshot.tla.
 *
 * behaviour file (one action per line; S = slot 0..2):
 *   reset
 *   option compact 0|1            1: a projection already logged in this behaviour is logged as {"n":0} ("full" = 0);
 *                                 its digest ("pds") is always logged and names the projection logged before
 *   scratch <dir>                 where the per-process scratch copy lives (<dir>/w<ppid>-<base>)
 *   env NAME VALUE|-              setenv / unsetenv (HWLOC_FSROOT and HWLOC_CPUID_PATH are set by the recorder itself)
 *   copy <id> <kind> <srcroot>    kind = linux | x86 | x86+linux ; hard-linked copy of the extracted snapshot
 *   remove <relpath>              unlink the file / symlink, or remove the directory subtree, in the copy
 *   load S <filt> <flags> [<type> <f>]
 *                                 init; set_all_types_filter(filt) unless filt = -1; set_type_filter(type, f) if given
 *                                 (type >= 0); set_flags; load
 *   xml_import SRC DST            export SRC to a buffer; init DST; set_xmlbuffer; set_flags(flags of SRC);
 *                                 set_all_types_filter(KEEP_ALL); load
 *   destroy S
 *   cleanup                       put the removed paths back (the copy is reused by the next behaviour on the same snapshot)
 */
#include "project_stores.h"
#include <hwloc.h>
#include <hwloc/export.h>
#include <dirent.h>
#include <limits.h>
#include <setjmp.h>

#define MAXSLOT 3
static hwloc_topology_t topo[MAXSLOT];
static char snap_id[512], snap_kind[32], snap_src[PATH_MAX], copy_root[PATH_MAX], scratch_base[PATH_MAX], journal[PATH_MAX + 16];
static int have_copy, opt_compact;
static uint64_t logged[64]; static int nlogged;
static char *envnames[64]; static int nenv;

/* ---------- scratch copy ---------- */
static int rmtree(const char *path) {
  struct stat st; DIR *d; struct dirent *de; char sub[PATH_MAX]; int r = 0;
  if (lstat(path, &st) < 0) return errno == ENOENT ? 1 : -1;
  if (!S_ISDIR(st.st_mode)) return unlink(path) < 0 ? -1 : 0;
  chmod(path, 0700);
  d = opendir(path);
  if (!d) return -1;
  while ((de = readdir(d)) != NULL) {
    if (!strcmp(de->d_name, ".") || !strcmp(de->d_name, "..")) continue;
    if ((size_t)snprintf(sub, sizeof sub, "%s/%s", path, de->d_name) >= sizeof sub) { r = -1; continue; }
    if (rmtree(sub) < 0) r = -1;
  }
  closedir(d);
  if (rmdir(path) < 0) r = -1;
  return r;
}
static int copytree(const char *src, const char *dst) {
  struct stat st; DIR *d; struct dirent *de; char s2[PATH_MAX], d2[PATH_MAX]; int r = 0;
  if (lstat(src, &st) < 0) return -1;
  if (S_ISLNK(st.st_mode)) {
    char tgt[PATH_MAX]; ssize_t n = readlink(src, tgt, sizeof tgt - 1);
    if (n < 0) return -1;
    tgt[n] = 0;
    return symlink(tgt, dst) < 0 ? -1 : 0;
  }
  if (!S_ISDIR(st.st_mode)) {
    if (link(src, dst) == 0) return 0;
    { /* cross-device or link limit: plain copy */
      int fi = open(src, O_RDONLY), fo; char buf[65536]; ssize_t n;
      if (fi < 0) return -1;
      fo = open(dst, O_WRONLY | O_CREAT | O_TRUNC, 0644);
      if (fo < 0) { close(fi); return -1; }
      while ((n = read(fi, buf, sizeof buf)) > 0) if (write(fo, buf, (size_t)n) != n) { r = -1; break; }
      close(fi); close(fo);
      return r;
    }
  }
  if (mkdir(dst, 0755) < 0) return -1;
  d = opendir(src);
  if (!d) return -1;
  while ((de = readdir(d)) != NULL) {
    if (!strcmp(de->d_name, ".") || !strcmp(de->d_name, "..")) continue;
    if ((size_t)snprintf(s2, sizeof s2, "%s/%s", src, de->d_name) >= sizeof s2 || (size_t)snprintf(d2, sizeof d2, "%s/%s", dst, de->d_name) >= sizeof d2) { r = -1; continue; }
    if (copytree(s2, d2) < 0) r = -1;
  }
  closedir(d);
  return r;
}
/* The scratch copy of a snapshot is reused by the following behaviours on the same snapshot: the journal names the
 * source (first line) and every path removed since the copy was pristine; restoring = re-linking those paths from the
 * source, ancestors first.  A child that died in the middle of a behaviour leaves a journal that the next copy replays. */
static int journal_begin(const char *src) {
  int fd = open(journal, O_WRONLY | O_CREAT | O_TRUNC, 0644); size_t n = strlen(src);
  if (fd < 0) return -1;
  if (write(fd, src, n) != (ssize_t)n || write(fd, "\n", 1) != 1) { close(fd); return -1; }
  close(fd);
  return 0;
}
static int journal_add(const char *rel) {
  int fd = open(journal, O_WRONLY | O_APPEND); size_t n = strlen(rel);
  if (fd < 0) return -1;
  if (write(fd, rel, n) != (ssize_t)n || write(fd, "\n", 1) != 1) { close(fd); return -1; }
  close(fd);
  return 0;
}
static int cmp_str(const void *a, const void *b) { return strcmp(*(char *const *)a, *(char *const *)b); }
/* 1 when copy_root is (again) a pristine copy of src */
static int journal_restore(const char *src) {
  FILE *f = fopen(journal, "r"); char *line = NULL; size_t cap = 0; ssize_t r; char **rels = NULL; size_t n = 0, c = 0, i; int ok = 1, first = 1;
  struct stat st;
  if (!f) return 0;
  while ((r = getline(&line, &cap, f)) >= 0) {
    if (r == 0 || line[r - 1] != '\n') { ok = 0; break; }           /* torn line */
    line[r - 1] = 0;
    if (first) { first = 0; if (strcmp(line, src)) { ok = 0; break; } continue; }
    if (n == c) { c = c ? c * 2 : 64; rels = realloc(rels, c * sizeof *rels); }
    rels[n++] = strdup(line);
  }
  free(line); fclose(f);
  if (first || lstat(copy_root, &st) < 0) ok = 0;
  if (ok) {
    if (n) qsort(rels, n, sizeof *rels, cmp_str);                            /* a directory sorts before what it contains */
    for (i = 0; i < n && ok; i++) {
      char a[PATH_MAX], b[PATH_MAX];
      if ((size_t)snprintf(a, sizeof a, "%s/%s", src, rels[i]) >= sizeof a || (size_t)snprintf(b, sizeof b, "%s/%s", copy_root, rels[i]) >= sizeof b) { ok = 0; break; }
      if (lstat(a, &st) < 0) continue;                                /* never existed in the source */
      if (rmtree(b) < 0 || copytree(a, b) < 0) ok = 0;
    }
    if (ok && journal_begin(src) < 0) ok = 0;
  }
  for (i = 0; i < n; i++) free(rels[i]);
  free(rels);
  return ok;
}
static void infra_fail(const char *what, const char *arg) {
  out("{\"e\":\"InfraFail\",\"what\":"); out_jstr(what); out(",\"arg\":"); out_jstr(arg); out(",\"errno\":\"%s\"}", errname(errno)); out_end();
}

/* ---------- projections with digests ---------- */
/* hwloc_topology_check() in this process (project.h forks a child for it, which costs several ms per projection in a
 * sanitized process): an abort / fault inside the checker is caught, logged as check_ok = 0, and the recorder child ends
 * after that event (check_failed), since the process state is no longer trustworthy. */
static sigjmp_buf chk_jmp; static volatile sig_atomic_t chk_active; static int check_failed;
static void chk_handler(int sig) { if (chk_active) { chk_active = 0; siglongjmp(chk_jmp, 1); } hwv_on_signal(sig); }
static int check_inproc(hwloc_topology_t t) {
  struct sigaction sa, o1, o2, o3; int ok;
  memset(&sa, 0, sizeof sa); sa.sa_handler = chk_handler; sa.sa_flags = SA_NODEFER;
  sigaction(SIGABRT, &sa, &o1); sigaction(SIGSEGV, &sa, &o2); sigaction(SIGBUS, &sa, &o3);
  if (!sigsetjmp(chk_jmp, 1)) { chk_active = 1; hwloc_topology_check(t); chk_active = 0; ok = 1; } else ok = 0;
  sigaction(SIGABRT, &o1, NULL); sigaction(SIGSEGV, &o2, NULL); sigaction(SIGBUS, &o3, NULL);
  if (!ok) check_failed = 1;
  return ok;
}
static uint64_t fnv(const char *p, size_t n) { uint64_t h = 1469598103934665603ULL; size_t i; for (i = 0; i < n; i++) { h ^= (unsigned char)p[i]; h *= 1099511628211ULL; } return h; }
static void out_pd(uint64_t h) { out("[%u,%u,%u,%u]", (unsigned)(h & 0xffff), (unsigned)((h >> 16) & 0xffff), (unsigned)((h >> 32) & 0xffff), (unsigned)((h >> 48) & 0xffff)); }
/* ,"topos":[..],"full":[..],"live":[..],"pds":[..] for the slots in mask; the other slots are logged as absent */
static void out_slots(unsigned mask) {
  uint64_t pd[MAXSLOT]; int full[MAXSLOT], live[MAXSLOT], s, k;
  out(",\"topos\":[");
  for (s = 0; s < MAXSLOT; s++) {
    pd[s] = 0; full[s] = 0; live[s] = 0;
    if (s) out(",");
    if ((mask & (1u << s)) && topo[s]) {
      size_t rel = hwv_len - hwv_commit, start; int already = 0;     /* flushes move the buffer: positions are kept relative to the commit point */
      live[s] = 1;
      project_topology(topo[s], 0);                                  /* ends with "check_ok":1} : the verdict is filled in here */
      hwv_len -= 2; out("%d,\"stores\":", check_inproc(topo[s])); project_stores(topo[s]); out("}");
      start = hwv_commit + rel;
      pd[s] = fnv(hwv_buf + start, hwv_len - start);
      for (k = 0; k < nlogged; k++) if (logged[k] == pd[s]) already = 1;
      if (opt_compact && already) { hwv_len = start; out("{\"n\":0}"); }
      else { full[s] = 1; if (!already && nlogged < 64) logged[nlogged++] = pd[s]; }
    } else out("{\"n\":0}");
  }
  out("],\"full\":["); for (s = 0; s < MAXSLOT; s++) out("%s%d", s ? "," : "", full[s]);
  out("],\"live\":["); for (s = 0; s < MAXSLOT; s++) out("%s%d", s ? "," : "", live[s]);
  out("],\"pds\":["); for (s = 0; s < MAXSLOT; s++) { if (s) out(","); out_pd(pd[s]); }
  out("]");
}

static void set_source_env(void) {
  char p[PATH_MAX + 16];
  if (!strcmp(snap_kind, "linux")) { setenv("HWLOC_FSROOT", copy_root, 1); unsetenv("HWLOC_CPUID_PATH"); }
  else if (!strcmp(snap_kind, "x86")) { setenv("HWLOC_CPUID_PATH", copy_root, 1); unsetenv("HWLOC_FSROOT"); }
  else {
    snprintf(p, sizeof p, "%s/fsroot", copy_root); setenv("HWLOC_FSROOT", p, 1);
    snprintf(p, sizeof p, "%s/cpuid", copy_root); setenv("HWLOC_CPUID_PATH", p, 1);
  }
}

static void do_reset(int beh) {
  int s;
  for (s = 0; s < MAXSLOT; s++) { if (topo[s]) hwloc_topology_destroy(topo[s]); topo[s] = NULL; }
  for (s = 0; s < nenv; s++) { unsetenv(envnames[s]); free(envnames[s]); }
  nenv = 0; nlogged = 0; opt_compact = 0;
  unsetenv("HWLOC_FSROOT"); unsetenv("HWLOC_CPUID_PATH"); unsetenv("HWLOC_COMPONENTS"); unsetenv("HWLOC_XMLFILE"); unsetenv("HWLOC_SYNTHETIC");
  if (have_copy && !journal_restore(snap_src)) { rmtree(copy_root); unlink(journal); }
  have_copy = 0;
  snap_id[0] = 0; snap_kind[0] = 0;
  out("{\"e\":\"Reset\",\"beh\":%d}", beh); out_end();
}

static void handler(char **lines, size_t n, int beh) {
  size_t i;
  for (i = 0; i < n; i++) {
    char *p = lines[i]; char *cmd = hwv_tok(&p); int s, ret = 0, err = 0;
    if (!cmd) continue;
    if (!strcmp(cmd, "reset")) { do_reset(beh); continue; }
    if (!strcmp(cmd, "option")) {
      char *name = hwv_tok(&p); int v = (int)hwv_tokl(&p);
      if (name && !strcmp(name, "compact")) opt_compact = v;
      continue;
    }
    if (!strcmp(cmd, "scratch")) {
      char *d = hwv_tok(&p);
      if (d) { snprintf(scratch_base, sizeof scratch_base, "%s", d); mkdir(scratch_base, 0755); }
      continue;
    }
    if (!strcmp(cmd, "env")) {
      char *name = hwv_tok(&p); while (*p == ' ') p++;
      if (!name || !strcmp(name, "HWLOC_FSROOT") || !strcmp(name, "HWLOC_CPUID_PATH")) continue;
      if (!strcmp(p, "-")) unsetenv(name); else setenv(name, p, 1);
      if (nenv < 64) envnames[nenv++] = strdup(name);
      out("{\"e\":\"env\",\"name\":"); out_jstr(name); out(",\"value\":"); out_jstr(p); out("}"); out_end();
      continue;
    }
    if (!strcmp(cmd, "copy")) {
      char *id = hwv_tok(&p), *kind = hwv_tok(&p), *src = hwv_tok(&p);
      if (!id || !kind || !src || !scratch_base[0]) continue;
      snprintf(copy_root, sizeof copy_root, "%s/w%ld-%s", scratch_base, (long)getppid(), getenv("HWV_BEH_BASE") ? getenv("HWV_BEH_BASE") : "0");
      snprintf(journal, sizeof journal, "%s.journal", copy_root);
      errno = 0;
      have_copy = 0;
      if (!journal_restore(src)) {        /* not a pristine copy of this very source: make one */
        rmtree(copy_root);
        if (copytree(src, copy_root) < 0 || journal_begin(src) < 0) { infra_fail("copy", src); rmtree(copy_root); unlink(journal); continue; }
      }
      have_copy = 1;
      snprintf(snap_src, sizeof snap_src, "%s", src);
      snprintf(snap_id, sizeof snap_id, "%s", id); snprintf(snap_kind, sizeof snap_kind, "%s", kind);
      out("{\"e\":\"copy\",\"snap\":"); out_jstr(snap_id); out(",\"kind\":"); out_jstr(snap_kind); out("}"); out_end();
      continue;
    }
    if (!strcmp(cmd, "remove")) {
      char full[PATH_MAX]; const char *kind; while (*p == ' ') p++;
      if (!have_copy || !*p || *p == '/' || strstr(p, "..")) continue;
      if ((size_t)snprintf(full, sizeof full, "%s/%s", copy_root, p) >= sizeof full) continue;
      { struct stat st; kind = lstat(full, &st) < 0 ? "gone" : S_ISDIR(st.st_mode) ? "dir" : S_ISLNK(st.st_mode) ? "symlink" : "file"; }
      errno = 0;
      if (journal_add(p) < 0) { infra_fail("journal", p); continue; }
      ret = rmtree(full);                 /* 0 removed, 1 was not there (inside a removed directory) */
      if (ret < 0) { infra_fail("remove", p); continue; }
      out("{\"e\":\"remove\",\"path\":"); out_jstr(p); out(",\"kind\":\"%s\",\"ret\":%d}", kind, ret); out_end();
      continue;
    }
    if (!strcmp(cmd, "cleanup")) {        /* put back what was removed; the copy is kept for the next behaviour on this snapshot */
      if (have_copy && !journal_restore(snap_src)) { rmtree(copy_root); unlink(journal); }
      have_copy = 0;
      continue;
    }
    s = (int)hwv_tokl(&p);
    if (s < 0 || s >= MAXSLOT) continue;
    if (!strcmp(cmd, "destroy")) {
      if (!topo[s]) continue;
      hwloc_topology_destroy(topo[s]); topo[s] = NULL;
      out("{\"e\":\"destroy\",\"slot\":%d}", s); out_end();
    } else if (!strcmp(cmd, "load")) {
      int filt = (int)hwv_tokl(&p); unsigned long fl = (unsigned long)hwv_tokl(&p); int r1 = 0, r2, r0, tty = -1, tf = -1, r3 = 0;
      { char *a = hwv_tok(&p), *b = a ? hwv_tok(&p) : NULL; if (a && b) { tty = atoi(a); tf = atoi(b); if (tty < 0) { tty = -1; tf = -1; } } }
      if (topo[s] || !have_copy) continue;
      set_source_env();
      r0 = hwloc_topology_init(&topo[s]);
      if (r0 < 0) { topo[s] = NULL; infra_fail("init", ""); continue; }
      if (filt >= 0) r1 = hwloc_topology_set_all_types_filter(topo[s], (enum hwloc_type_filter_e)filt);
      if (tty >= 0) r3 = hwloc_topology_set_type_filter(topo[s], (hwloc_obj_type_t)tty, (enum hwloc_type_filter_e)tf);
      r2 = hwloc_topology_set_flags(topo[s], fl);
      errno = 0;
      ret = hwloc_topology_load(topo[s]); err = errno;
      if (ret) { hwloc_topology_destroy(topo[s]); topo[s] = NULL; }
      out("{\"e\":\"load\",\"slot\":%d,\"filt\":%d,\"tty\":%d,\"tf\":%d,\"flags\":%lu,\"setfilt\":%d,\"settf\":%d,\"setflags\":%d,\"ret\":%d,\"errno\":\"%s\"", s, filt, tty, tf, fl, r1, r3, r2, ret, errname(err));
      out_slots(1u << s); out("}"); out_end();
      if (check_failed) { hwv_flush(); _exit(77); }
    } else if (!strcmp(cmd, "xml_import")) {
      int d = (int)hwv_tokl(&p); char *buf = NULL; int len = 0, rexp, r1 = -1, r2 = -1, r3 = -1; unsigned long fl;
      if (d < 0 || d >= MAXSLOT || d == s || !topo[s] || topo[d]) continue;
      fl = hwloc_topology_get_flags(topo[s]);
      errno = 0;
      rexp = hwloc_topology_export_xmlbuffer(topo[s], &buf, &len, 0); err = errno;
      if (!rexp && buf) {
        if (hwloc_topology_init(&topo[d]) < 0) { topo[d] = NULL; infra_fail("init", ""); hwloc_free_xmlbuffer(topo[s], buf); continue; }
        r1 = hwloc_topology_set_xmlbuffer(topo[d], buf, len); err = errno;
        if (!r1) {
          r2 = hwloc_topology_set_flags(topo[d], fl);
          hwloc_topology_set_all_types_filter(topo[d], HWLOC_TYPE_FILTER_KEEP_ALL);
          errno = 0;
          r3 = hwloc_topology_load(topo[d]); err = errno;
        }
        if (r3) { hwloc_topology_destroy(topo[d]); topo[d] = NULL; }
      }
      if (buf) hwloc_free_xmlbuffer(topo[s], buf);
      out("{\"e\":\"xml_import\",\"slot\":%d,\"src\":%d,\"flags\":%lu,\"keepall\":1,\"exp\":%d,\"len\":%d,\"set\":%d,\"setflags\":%d,\"load\":%d,\"errno\":\"%s\"", d, s, fl, rexp, len, r1, r2, r3, errname(err));
      out_slots((1u << s) | (1u << d)); out("}"); out_end();
      if (check_failed) { hwv_flush(); _exit(77); }
    }
  }
}

int main(int argc, char **argv) {
  if (argc < 3) { fprintf(stderr, "usage: hwv_snapshot <behaviours> <trace.ndjson>\n"); return 2; }
  return hwv_run(argv[1], argv[2], handler);
}
