--------------------------- MODULE TraceCpuKinds ---------------------------
(***************************************************************************)
(* Trace validation for C15.  Every line recorded by harness/hwv_cpukinds  *)
(* from the real library must be explained by the relations of             *)
(* CpuKinds.tla: after every call the complete observable state (get_nr,   *)
(* get_info of every kind, get_by_cpuset of every subset of the atoms) is  *)
(* in the log and is judged against `req`, the per-atom summary of the     *)
(* registrations accepted so far.  All logged fields are bound, so there   *)
(* is exactly one successor per accepted line.                             *)
(***************************************************************************)
EXTENDS CpuKinds, Json, IOUtils

T == ndJsonDeserialize(IOEnv.TRACE)

\* Strict = TRUE additionally compares every logged state with the constructive transcription of cpukinds.c
\* (order of unranked kinds, order of infos, efficiencies chosen by the info heuristics).  A line that is only
\* rejected under Strict is a SPEC-DRIFT (the model does not mirror the code), never a violation: tools/props/c15.py
\* validates such a behaviour again with Strict = FALSE and only that verdict counts.
CONSTANT Strict

VARIABLES l,      \* next line
          am,     \* atom map [lo, hi] of the behaviour
          req,    \* summary of the accepted registrations
          topo,   \* atoms of the topology cpuset
          cur,    \* state record logged by the previous event
          mk      \* kinds of the constructive model (NoModel after loading an input with unknown registrations)

vars == <<l, am, req, topo, cur, mk>>
NoModel == [ok |-> FALSE, ks |-> <<>>]
EmptyModel == [ok |-> TRUE, ks |-> <<>>]

\* ---- atoms ----
NAtoms(m) == Len(m.lo)
AtomsOf(m) == 0 .. NAtoms(m) - 1
\* consecutive blocks covering the naturals, the last one infinite
MapOK(m) == /\ Len(m.lo) = Len(m.hi) /\ Len(m.lo) >= 1 /\ m.lo[1] = 0 /\ m.hi[Len(m.hi)] = -1
            /\ \A k \in 1 .. Len(m.lo) - 1 : m.hi[k] >= m.lo[k] /\ m.lo[k + 1] = m.hi[k] + 1
\* a logged cpuset is a list of ranges [lo, hi] (hi = -1: infinite); it must be a union of atoms
RangeExact(m, r) == /\ \E k \in DOMAIN m.lo : m.lo[k] = r[1]
                    /\ \E k \in DOMAIN m.hi : m.hi[k] = r[2]
                    /\ (r[2] = -1 \/ r[2] >= r[1])
RangeAtoms(m, r) == {a \in AtomsOf(m) : r[1] <= m.lo[a + 1] /\ (r[2] = -1 \/ (m.hi[a + 1] # -1 /\ m.hi[a + 1] <= r[2]))}
SetExact(m, rs) == \A k \in DOMAIN rs : RangeExact(m, rs[k])
SetAtoms(m, rs) == UNION {RangeAtoms(m, rs[k]) : k \in DOMAIN rs}

RECURSIVE Pow2(_)
Pow2(n) == IF n = 0 THEN 1 ELSE 2 * Pow2(n - 1)
MaskSet(m, mask) == {a \in AtomsOf(m) : (mask \div Pow2(a)) % 2 = 1}
ErrName(n) == IF n = 0 THEN "0" ELSE IF n = 22 THEN "EINVAL" ELSE IF n = 18 THEN "EXDEV" ELSE IF n = 2 THEN "ENOENT" ELSE "other"
FullNA == 8        \* FULL_NA of the recorder

\* ---- NUMA nodes of a logged state (st.nodes = list of [OS index, local cpuset], st.anodes = allowed nodeset) ----
NodeIdx(st) == {st.nodes[k][1] : k \in DOMAIN st.nodes}
NodeCpusOf(m, st) == [n \in NodeIdx(st) |-> UNION {SetAtoms(m, st.nodes[k][2]) : k \in {j \in DOMAIN st.nodes : st.nodes[j][1] = n}}]
IdxCap == 1024
\* the indexes (up to IdxCap) of a logged set
RangeIdx(rs) == UNION {rs[k][1] .. (IF rs[k][2] = -1 THEN IdxCap ELSE rs[k][2]) : k \in DOMAIN rs}
\* the indexes of X that a union of atoms contains (a nodeset is passed as a union of atoms, like a cpuset)
IdxInAtoms(m, S, X) == {x \in X : \E a \in S : m.lo[a + 1] <= x /\ (m.hi[a + 1] = -1 \/ x <= m.hi[a + 1])}

OK0 == <<0, "0">>
Einval == <<-1, "EINVAL">>
Enoent == <<-1, "ENOENT">>

\* ---- a logged state ----
PK(m, st) == [i \in DOMAIN st.kinds |->
                [cs |-> SetAtoms(m, st.kinds[i].cs), eff |-> st.kinds[i].eff, infos |-> st.kinds[i].infos]]

\* everything the query functions answered in that state agrees with the kinds they reported
QueriesOK(m, st) ==
  LET pk == PK(m, st) IN
  /\ st.nr = <<Len(st.kinds), "0">>                                  \* get_nr
  /\ st.nr_bf = Einval                                               \* get_nr with a flag
  /\ \A i \in DOMAIN st.kinds : /\ st.kinds[i].ret = OK0 /\ st.kinds[i].retn = OK0
                                /\ SetExact(m, st.kinds[i].cs)
  /\ st.info_oob = Enoent /\ st.info_max = Enoent                    \* get_info past the last kind
  /\ st.info_bf = Einval                                             \* get_info with a flag
  /\ st.gbc_null = Einval /\ st.gbc_bf = Einval                      \* get_by_cpuset(NULL), with a flag
  /\ SetExact(m, st.topo) /\ SetExact(m, st.allowed)
  /\ IF NAtoms(m) <= FullNA
     THEN /\ Len(st.gr) = Pow2(NAtoms(m)) /\ Len(st.ge) = Len(st.gr)
          /\ \A k \in DOMAIN st.gr : GbcRel(pk, MaskSet(m, k - 1), st.gr[k], ErrName(st.ge[k]))
     ELSE st.gr = <<>> /\ st.ge = <<>>
  /\ \A k \in DOMAIN st.gq : /\ SetExact(m, st.gq[k][1])
                             /\ GbcRel(pk, SetAtoms(m, st.gq[k][1]), st.gq[k][2][1], st.gq[k][2][2])

StateOK(m, st, rq, tp) ==
  /\ QueriesOK(m, st)
  /\ SetAtoms(m, st.topo) = tp
  /\ KindsOK(PK(m, st), rq)

\* steering model vs. implementation (only under Strict)
Mirrors(m, st, nmk) == ~Strict \/ ~nmk.ok \/ Proj(nmk.ks) = PK(m, st)
Model(x) == IF mk.ok THEN [ok |-> TRUE, ks |-> x] ELSE mk

----------------------------------------------------------------------------
Init == l = 1 /\ am = [lo |-> <<0>>, hi |-> <<-1>>] /\ req = <<>> /\ topo = {} /\ cur = <<>> /\ mk = EmptyModel

IsEvent(e) == l <= Len(T) /\ T[l].e = e /\ l' = l + 1

\* a synthetic topology starts without kinds; a bundled input (XML, Linux sysfs snapshot, x86 cpuid dump) starts
\* with kinds whose registrations are unknown: only their shape is judged, then they count as registrations
TReset ==
  /\ IsEvent("Reset")
  /\ LET e == T[l]
         m == [lo |-> e.lo, hi |-> e.hi]
     IN /\ MapOK(m)
        /\ e.ret = <<0, 0, 0>>
        /\ am' = m
        /\ topo' = SetAtoms(m, e.st.topo)
        /\ cur' = e.st
        /\ IF e.kind = "synth"
           THEN /\ req' = ReqInit(AtomsOf(m))
                /\ StateOK(m, e.st, req', topo')
                /\ mk' = EmptyModel
           ELSE /\ mk' = NoModel
                /\ QueriesOK(m, e.st)
                /\ SetExact(m, e.ccs)
                /\ KindsShapeOK(PK(m, e.st), SetAtoms(m, e.ccs))
                /\ req' = ReqFromKinds(AtomsOf(m), PK(m, e.st))

TRegister ==
  /\ IsEvent("register")
  /\ LET e == T[l]
         S == Range(e.S)
     IN /\ S \subseteq AtomsOf(am)
        /\ e.infos_after = e.infos                                   \* the caller's arguments are not modified
        /\ e.null = 0 => (SetExact(am, e.after) /\ SetAtoms(am, e.after) = S)
        /\ IF RegisterRejected(S, e.null = 1, e.flags)
           THEN /\ e.ret = Einval
                /\ e.st = cur                                        \* rejected: nothing changed
                /\ UNCHANGED <<req, mk>>
           ELSE /\ e.ret = OK0
                /\ req' = ReqRegister(req, S, e.fe, e.infos)
                /\ StateOK(am, e.st, req', topo)
                /\ mk' = Model(RegisterDo(mk.ks, S, e.fe, e.infos))
                /\ Mirrors(am, e.st, mk')
        /\ cur' = e.st
  /\ UNCHANGED <<am, topo>>

\* hwloc_topology_restrict(set, flags): the PUs that leave the topology are derived (RestrictOutcome, CpuKinds.tla part 1c) from
\* the set, the flag word and the NUMA nodes that the state before the call reported; a refused call (EINVAL) changes nothing;
\* after an accepted call the kinds partition what was registered on the PUs that are left
TRestrict ==
  /\ IsEvent("restrict")
  /\ LET e == T[l]
         S == Range(e.S)
         nidx == NodeIdx(cur)
         anodes == RangeIdx(cur.anodes)
         apus == SetAtoms(am, cur.allowed)
         o == RestrictOutcome(topo, nidx, NodeCpusOf(am, cur), apus, anodes, e.flags, S, IdxInAtoms(am, S, nidx \cup anodes))
     IN /\ S \subseteq AtomsOf(am)
        /\ SetExact(am, e.after) /\ SetAtoms(am, e.after) = S           \* the caller's set is not modified
        /\ IF e.ret # OK0
           THEN /\ e.ret = Einval
                /\ RestrictRefused(o)
                /\ e.st = cur
                /\ UNCHANGED <<req, topo, mk>>
           ELSE /\ ~o.bad /\ ~o.must
                /\ topo' = o.pus
                /\ SetAtoms(am, e.st.allowed) = apus \cap o.pus
                /\ req' = ReqRestrict(req, topo')
                /\ StateOK(am, e.st, req', topo')
                /\ mk' = Model(RestrictDo(mk.ks, topo'))
                /\ Mirrors(am, e.st, mk')
                /\ (~Strict \/ NodeIdx(e.st) = o.nodes)               \* steering only: the nodes the model expects
        /\ cur' = e.st
  /\ UNCHANGED am

\* hwloc_topology_dup: the copy and the original answer every query alike, before and after the other one is destroyed
TDup ==
  /\ IsEvent("dup")
  /\ LET e == T[l] IN
        /\ e.var \in {0, 1}
        /\ e.ret = OK0
        /\ e.other = cur
        /\ e.st = cur
  /\ UNCHANGED <<am, req, topo, cur, mk>>

\* export to an XML buffer, load it in a new topology: the property keeps holding for the same registrations
TXml ==
  /\ IsEvent("xml")
  /\ LET e == T[l] IN
        /\ e.var \in {0, 1}
        /\ e.ret = <<0, 0, 0, 0>>
        /\ StateOK(am, e.st, req, topo)
        /\ mk' = Model(XmlDo(mk.ks))
        /\ Mirrors(am, e.st, mk')
        /\ cur' = e.st
  /\ UNCHANGED <<am, req, topo>>

\* hwloc_topology_refresh ranks again
TRefresh ==
  /\ IsEvent("refresh")
  /\ LET e == T[l] IN
        /\ e.ret = OK0
        /\ StateOK(am, e.st, req, topo)
        /\ mk' = Model(Rank(mk.ks))
        /\ Mirrors(am, e.st, mk')
        /\ cur' = e.st
  /\ UNCHANGED <<am, req, topo>>

Next == TReset \/ TRegister \/ TRestrict \/ TDup \/ TXml \/ TRefresh
Spec == Init /\ [][Next]_vars

Accepted == TLCGet("stats").diameter - 1 = Len(T)
=============================================================================
