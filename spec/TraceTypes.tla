----------------------------- MODULE TraceTypes -----------------------------
(***************************************************************************)
(* Trace validation for C11: every line recorded by harness/hwv_types from *)
(* the real library must satisfy the relations of Types.tla.  A Crash or   *)
(* Hang line has no action here, so it rejects the trace (Terminates).     *)
(* State: tab = the hwloc_compare_types results seen in this behaviour     *)
(* (antisymmetry relates two calls).                                       *)
(***************************************************************************)
EXTENDS Types, Json, IOUtils

T == ndJsonDeserialize(IOEnv.TRACE)

VARIABLES l, tab

Fld(js, f, dflt) == IF f \in DOMAIN js THEN js[f] ELSE dflt
SetOf(seq) == {seq[i] : i \in 1..Len(seq)}
ObjOf(js) == [type |-> js.type, cd |-> Fld(js, "cd", -1), ct |-> Fld(js, "ct", -1), gd |-> Fld(js, "gd", -1),
              up |-> Fld(js, "up", -1), down |-> Fld(js, "down", -1), os |-> SetOf(Fld(js, "os", <<>>))]
ScanOf(js) == [rc |-> js.rc, type |-> js.type, cd |-> Fld(js, "cd", -1), ct |-> Fld(js, "ct", -1), gd |-> Fld(js, "gd", -1),
               up |-> Fld(js, "up", -1), down |-> Fld(js, "down", -1), os |-> SetOf(Fld(js, "os", <<>>))]
CallOf(c) == [size |-> c[1], ret |-> c[2], nul |-> c[3], glo |-> c[4], ghi |-> c[5], txt |-> c[6]]

\* the same string was parsed three times (full attribute union, attrp = NULL, a too small attrp):
\* the verdict and the type cannot depend on how the attributes are requested
ScanCallsAgree(js) == /\ js.rc0 = js.rc /\ js.rc1 = js.rc
                      /\ js.rc = 0 => (js.type0 = js.type /\ js.type1 = js.type)

Init == l = 1 /\ tab = <<>>

IsEvent(e) == l <= Len(T) /\ T[l].e = e /\ l' = l + 1

TReset == /\ IsEvent("Reset")
          /\ T[l].loaded \in {0, 1} /\ T[l].beh >= 0 /\ T[l].depth >= 0
          /\ T[l].loaded = 1 => T[l].depth >= 1
          /\ tab' = <<>>

\* hwloc_obj_type_snprintf / hwloc_obj_attr_snprintf on one object with one flag word:
\* NULL/0 call, a call with a buffer larger than needed (its content is the untruncated text),
\* then one call per buffer size with guard bytes around the buffer
PrintOK(e) ==
    /\ e.cap > e.rbig /\ e.rbig = Len(e.full)
    /\ NullRel(e.full, e.r0)
    /\ \A i \in 1..Len(e.sizes) : SnprintfRel(e.full, CallOf(e.sizes[i]))
    /\ Len(e.sizes) >= 1 /\ e.sizes[1][1] = 0 /\ e.sizes[Len(e.sizes)][1] = Len(e.full) + 1

TTsn == /\ IsEvent("tsn")
        /\ LET e == T[l]
               o == ObjOf(e.o)
               r == ScanOf(e.scan)
           IN /\ o.type \in TypeIds /\ e.gp >= 0 /\ e.sep = ""
              /\ PrintOK(e)
              /\ ScanCallsAgree(e.scan)
              /\ IF Has(e.flags, F_SHORT_NAMES) THEN WeakScanRel(r) ELSE RoundTripRel(o, r)
              \* neighbouring API (hwloc.h): the parsed type and attributes designate the level of the object;
              \* the type alone does too, except that several Group levels give HWLOC_TYPE_DEPTH_MULTIPLE
              /\ ("dwa" \in DOMAIN e) = (r.rc = 0 /\ r.type \in TypeIds)
              /\ (~Has(e.flags, F_SHORT_NAMES) /\ "dwa" \in DOMAIN e) => e.dwa = e.depth
              /\ e.dt = e.depth \/ (o.type = GROUP /\ e.dt = DEPTH_MULTIPLE)
        /\ UNCHANGED tab

TAsn == /\ IsEvent("asn")
        /\ LET e == T[l] IN
              /\ ObjOf(e.o).type \in TypeIds /\ e.gp >= 0 /\ Len(e.sep) >= 0 /\ e.flags >= 0
              /\ PrintOK(e)
        /\ UNCHANGED tab

TLevel == /\ IsEvent("level")
          /\ LET e == T[l]
                 texts == {e.texts[i][1] : i \in 1..Len(e.texts)}
             IN /\ e.ltype \in TypeIds /\ e.flags >= 0
                /\ \A i \in 1..Len(e.texts) : e.texts[i][2] >= 1
                /\ (e.n = 0) = (e.texts = <<>>)
                /\ LevelUniformRel(e.depth, texts)
          /\ UNCHANGED tab

TTStr == /\ IsEvent("tstr")
         /\ LET e == T[l] IN
               /\ ScanCallsAgree(e.scan)
               /\ WeakScanRel(ScanOf(e.scan))
               /\ IF e.type \in TypeIds THEN TypeStringRel(e.type, ScanOf(e.scan))
                  ELSE e.s = "Unknown"            \* "the object type name or Unknown" (hwloc.h)
         /\ UNCHANGED tab

\* arbitrary string: 0 or -1; when a type is returned its name must parse back to it
TScan == /\ IsEvent("scan")
         /\ LET e == T[l]
                r == ScanOf(e.scan)
            IN /\ e.len = Len(e.s)
               /\ WeakScanRel(r)
               /\ ScanCallsAgree(e.scan)
               /\ ("again" \in DOMAIN e) = (r.rc = 0)
               /\ r.rc = 0 => TypeStringRel(r.type, ScanOf(e.again.scan))
         /\ UNCHANGED tab

TCmp == /\ IsEvent("cmp")
        /\ LET e == T[l]
               a == e.a
               b == e.b
           IN /\ a \in TypeIds /\ b \in TypeIds
              /\ KindsRel(a, e.ka) /\ KindsRel(b, e.kb)
              /\ CmpOneRel(a, b, e.r, e.unordered, e.ka[1] = 1, e.kb[1] = 1)
              /\ <<b, a>> \in DOMAIN tab => CmpAntisym(e.r, tab[<<b, a>>], e.unordered)
              /\ <<a, b>> \in DOMAIN tab => tab[<<a, b>>] = e.r         \* __hwloc_attribute_const
              /\ tab' = [p \in DOMAIN tab \cup {<<a, b>>} |-> IF p = <<a, b>> THEN e.r ELSE tab[p]]

TKinds == /\ IsEvent("kinds")
          /\ T[l].max >= 1
          /\ T[l].t \in TypeIds => KindsRel(T[l].t, T[l].k)
          /\ UNCHANGED tab

Next == TReset \/ TTsn \/ TAsn \/ TLevel \/ TTStr \/ TScan \/ TCmp \/ TKinds
Spec == Init /\ [][Next]_<<l, tab>>

Accepted == TLCGet("stats").diameter - 1 = Len(T)
=============================================================================
